import GqlProofs.PrinterQuote
import GqlProofs.PrinterLoc
import GqlProofs.PrinterReadValue
import GqlProofs.PrinterTokens
import GqlProofs.PrinterTokNF2
import GqlProofs.PrinterDerive3
import GqlProofs.ParserComplete
import GqlProofs.PrinterBlockScan
import GqlProofs.LexerBlockValue
/-! # C08 — printing an AST and parsing the text back yields the same AST

`M` = `GqlModel.Printer` (`print`, `printValue`, `printType`, …, `printTokens`), the bottom-up reduction of
`printer.Print` written as a structural recursion, byte-for-byte equal to the real printer on every generated
document (correspondence: harness/cmd/c08).  The theorems below are about M and

* `Printer.Bytes.unquoteB` — an independent byte-level model of the escape loop of the lexer's `readString`;
* `Reader.readValue` / `Reader.readType` — a small reference reader for the value and type sub-languages
  (`GqlModel/ValueReader.lean`; it is compared with the real `parser.ParseValue` by the harness);
* `Printer.docI` — the token-level view of the printed document.

What is proved, for unbounded sizes and nesting depths:

(a) string quoting is injective and exactly inverted by the lexer's escape decoding, for every byte string and
    every continuation (`quote_unquote`), and never emits a control byte (`quote_emits_no_control_byte`);
    printing ignores locations (`print_ignores_locations`); the printed document is its token texts separated by
    Ignored characters only (`printTokens_render`);
(b) the value and type round trip through the reference reader: every `Value` whose names are GraphQL names and
    whose number texts are well-formed — strings with arbitrary content, lists/objects nested arbitrarily — reads
    back as the same value, locations aside (`readValue_printValue`), the same for type references
    (`readType_printType`), and printing is stable after one round (`print_stable_on_values`);
(c) the token-level round trip through the shared grammar S and parser model M of C03 (end of this file); the byte
    level (lexer model, UTF-8, `parse_print` on bytes, `parse_ok_WF`) is in `Props/C08Bytes.lean`. -/
namespace GqlModel.C08
open GqlModel GqlModel.Printer GqlModel.Reader

/-! ## (a) strings -/

/-- C08 string core (bytes): for every byte string `s` — quotes, backslashes, every control byte, DEL, invalid
UTF-8 — and every continuation `rest`, the lexer's string loop applied to `quoteString(s)` followed by `rest`
yields exactly `s` and resumes exactly at `rest`. -/
theorem quote_unquote (s rest : List UInt8) : Bytes.unquoteB (Bytes.quoteB s ++ rest) = some (s, rest) :=
  Bytes.unquoteB_quoteB s rest

/-- distinct strings have distinct printed forms (the overlap rule compares printed argument values) -/
theorem quote_injective (s t : List UInt8) (h : Bytes.quoteB s = Bytes.quoteB t) : s = t := by
  have hs := Bytes.unquoteB_quoteB s []
  have ht := Bytes.unquoteB_quoteB t []
  rw [h, ht] at hs
  simpa using hs.symm

/-- between its two quotes the printed form of a string holds no byte below 0x20: no raw line terminator, TAB or
other control character, so `indent` and the lexer's "Invalid character within String" check never meet one -/
theorem quote_emits_no_control_byte (s : List UInt8) : ∀ x ∈ Bytes.quoteBodyB s, 32 ≤ x := by
  induction s with
  | nil => intro x hx; simp [Bytes.quoteBodyB] at hx
  | cons b bs ih =>
    intro x hx
    simp only [Bytes.quoteBodyB, List.mem_append] at hx
    rcases hx with hx | hx
    · exact Bytes.escB_printable b x hx
    · exact ih x hx

/-- the same core on the model's characters: the reference reader's string loop inverts `quoteString` -/
theorem quote_unquote_chars (s : String) (rest : List Char) :
    unquoteC ((quoteString s).toList ++ rest) = some (s.toList, rest) := by
  simp only [quoteString, String.toList_ofList]
  exact unquoteC_quoteC s.toList rest

/-! ## (a) locations -/

/-- printing never looks at a location: a tree and its location-stripped image print identically -/
theorem print_ignores_locations (d : Document) : print d = print d.stripLoc := by
  simp [print, documentC_stripLoc]

theorem printValue_ignores_locations (v : Value) : printValue v = printValue v.stripLoc := by
  simp [printValue, valueC_stripLoc]

theorem printType_ignores_locations (t : TypeRef) : printType t = printType t.stripLoc := by
  simp [printType, typeC_stripLoc]

theorem printSelectionSet_ignores_locations (s : SelectionSet) : printSelectionSet s = printSelectionSet s.stripLoc := by
  simp [printSelectionSet, selSetC_stripLoc]

theorem printDefinition_ignores_locations (d : Definition) : printDefinition d = printDefinition d.stripLoc := by
  simp [printDefinition, definitionC_stripLoc]

/-- structurally identical documents (locations aside) print identically -/
theorem print_eq_of_same_shape (d e : Document) (h : d.stripLoc = e.stripLoc) : print d = print e := by
  rw [print_ignores_locations d, print_ignores_locations e, h]

/-! ## (a) token view -/

/-- the printed document is the texts of `printTokens d`, in order, separated by runs of Ignored characters
(space, newline, comma) only -/
theorem printTokens_render (d : Document) :
    ∃ items : List Item, render items = (print d).toList ∧ tokensOf items = printTokens d ∧ sepsIgnored items = true :=
  ⟨docI d, by simp [print, render_docI], rfl, seps_docI d⟩

theorem printValueTokens_render (v : Value) :
    ∃ items : List Item, render items = (printValue v).toList ∧ tokensOf items = printValueTokens v ∧
      sepsIgnored items = true :=
  ⟨valueI v, by simp [printValue, render_valueI], rfl, seps_valueI v⟩

theorem printTypeTokens_render (t : TypeRef) :
    ∃ items : List Item, render items = (printType t).toList ∧ tokensOf items = printTypeTokens t ∧
      sepsIgnored items = true :=
  ⟨typeI t, by simp [printType, render_typeI], rfl, seps_typeI t⟩

/-! ## (b) round trip through the reference reader -/

/-- C08 for values: every well-formed value (names are GraphQL names, number texts well-formed; string contents
arbitrary; lists and objects nested to any depth) reads back from its printed text as the same value, locations
aside, and the reader stops exactly at the continuation. -/
theorem readValue_printValue_then (v : Value) (h : WFValue v) (rest : List Char) (hr : Delim rest) :
    readValueTop ((printValue v).toList ++ rest) = some (v.stripLoc, rest) := by
  simp only [printValue, String.toList_ofList]
  exact readValueTop_valueC v h rest hr

theorem readValue_printValue (v : Value) (h : WFValue v) :
    readValueTop (printValue v).toList = some (v.stripLoc, []) := by
  simpa using readValue_printValue_then v h [] trivial

/-- C08 for type references -/
theorem readType_printType_then (t : TypeRef) (h : WFType t) (rest : List Char) (hr : TypeDelim rest) :
    readTypeTop ((printType t).toList ++ rest) = some (t.stripLoc, rest) := by
  simp only [printType, String.toList_ofList]
  exact readTypeTop_typeC t h rest hr

theorem readType_printType (t : TypeRef) (h : WFType t) : readTypeTop (printType t).toList = some (t.stripLoc, []) := by
  simpa using readType_printType_then t h [] ⟨trivial, trivial⟩

/-- printing is stable after one round: whatever the reader returns for the printed text prints to the same text -/
theorem print_stable_on_values (v : Value) (h : WFValue v) (v' : Value) (r : List Char)
    (hread : readValueTop (printValue v).toList = some (v', r)) : printValue v' = printValue v ∧ r = [] := by
  rw [readValue_printValue v h] at hread
  simp only [Option.some.injEq, Prod.mk.injEq] at hread
  obtain ⟨rfl, rfl⟩ := hread
  exact ⟨(printValue_ignores_locations v).symm, rfl⟩

theorem print_stable_on_types (t : TypeRef) (h : WFType t) (t' : TypeRef) (r : List Char)
    (hread : readTypeTop (printType t).toList = some (t', r)) : printType t' = printType t ∧ r = [] := by
  rw [readType_printType t h] at hread
  simp only [Option.some.injEq, Prod.mk.injEq] at hread
  obtain ⟨rfl, rfl⟩ := hread
  exact ⟨(printType_ignores_locations t).symm, rfl⟩

/-- the printed forms of two well-formed values coincide only if the values have the same shape (the overlap rule's
"same arguments" test by printed text is exact) -/
theorem printValue_injective (v w : Value) (hv : WFValue v) (hw : WFValue w) (h : printValue v = printValue w) :
    v.stripLoc = w.stripLoc := by
  have a := readValue_printValue v hv
  have b := readValue_printValue w hw
  rw [h, b] at a
  simpa using a.symm

/-! ## non-vacuity -/

private def sample : Value :=
  .list [.int "-12" ⟨3, 6⟩, .float "6.0221413e+23" ⟨0, 0⟩,
         .obj [.mk ⟨"k", ⟨1, 2⟩⟩ (.str "say \"hi\"\n\u0007\u007f é" ⟨2, 9⟩) ⟨1, 9⟩, .mk ⟨"l", ⟨0, 0⟩⟩ (.list [] ⟨0, 0⟩) ⟨0, 0⟩] ⟨0, 0⟩,
         .var "v_1" ⟨0, 0⟩, .bool true ⟨0, 0⟩, .enum "RED" ⟨0, 0⟩] ⟨0, 40⟩

private theorem sample_float : IsFloatLit "6.0221413e+23".toList :=
  ⟨"6".toList, ".0221413".toList, "e+23".toList, by decide, by decide, Or.inr (by decide), Or.inr (by decide),
    Or.inl (by decide)⟩

/-- the hypotheses of the round-trip theorems are satisfiable, with every value kind, nesting and a string full of
escapes -/
private theorem sample_wf : WFValue sample := by
  refine ⟨?_, sample_float, ⟨⟨?_, trivial⟩, ⟨?_, trivial⟩, trivial⟩, ?_, trivial, ⟨?_, ?_, ?_, ?_⟩, trivial⟩
  · show isIntLit _ = true; decide
  · show isNameC _ = true; decide
  · show isNameC _ = true; decide
  · show isNameC _ = true; decide
  · show isNameC _ = true; decide
  · show _ ≠ trueC; decide
  · show _ ≠ falseC; decide
  · show _ ≠ nullC; decide

example : WFValue sample := sample_wf

example : readValueTop (printValue sample).toList = some (sample.stripLoc, []) := readValue_printValue sample sample_wf

example : printValue sample = "[-12, 6.0221413e+23, {k: \"say \\\"hi\\\"\\n\\u0007\\u007F é\", l: []}, $v_1, true, RED]" := by
  decide

example : WFType (.nonNull (.list (.nonNull (.named "Int" ⟨1, 4⟩) ⟨1, 5⟩) ⟨0, 6⟩) ⟨0, 7⟩) := by
  refine ⟨⟨?_, trivial⟩, trivial⟩
  show isNameC _ = true; decide

/-- the two hypotheses that exclude something are needed: `null` is not read back as an enum value, `T!!` is not
read back as a doubly non-null type (neither is producible by the parser) -/
example : readValueTop (printValue (.enum "null" ⟨0, 0⟩)).toList = none := by decide
example : readTypeTop (printType (.nonNull (.nonNull (.named "T" ⟨0, 0⟩) ⟨0, 0⟩) ⟨0, 0⟩)).toList
    = some (.nonNull (.named "T" Loc.none) Loc.none, ['!']) := by decide

/-! ## (c) the round trip through the shared grammar S and parser model M (token level)

`GqlModel.Grammar` (S: the derivation relations of the GraphQL grammar) and `GqlModel.Parser` (M: parser.go on
token lists) belong to C03; `Parser.parseToks_complete` is C03's completeness theorem.  The theorems below connect
the printer model to both, for **whole documents** — executable and type-system definitions, every value kind nested
arbitrarily, directives on every definition kind, variable definitions with defaults, descriptions — and for tokens
placed at arbitrary source offsets (`toks.map kvOf = printTokens d` fixes only kinds and values). -/

/-- the token sequence of the printed document is a sentence of the grammar and denotes the same document,
locations aside -/
theorem printTokens_in_grammar (d : Document) (hwf : WFDocument d) (toks : List Token) (eofPos : Nat)
    (h : toks.map kvOf = printTokens d) :
    ∃ d', Grammar.DerivesDoc toks eofPos d' ∧ d'.stripLoc = d.stripLoc := by
  rw [printTokens_eq_docT d hwf] at h
  exact derivesDoc_docT d hwf toks eofPos h

/-- C08 at token level, T1 + T2 `parse_print`: for every well-formed document — everything the parser can produce —
the parser model accepts the tokens of the printed text, without raising the malformed-type flag, and returns a
structurally identical document (same kinds, names, values, order; locations aside). -/
theorem parseTokens_printTokens (d : Document) (hwf : WFDocument d) (toks : List Token) (eofPos : Nat)
    (h : toks.map kvOf = printTokens d) :
    ∃ d', Parser.parseToks toks eofPos = .ok ⟨d', false⟩ ∧ d'.stripLoc = d.stripLoc := by
  obtain ⟨d', hd, hs⟩ := printTokens_in_grammar d hwf toks eofPos h
  exact ⟨d', Parser.parseToks_complete hd, hs⟩

/-- `print_stable` at token level: whatever the parser model returns for the tokens of the printed text prints to
the same text -/
theorem print_stable (d : Document) (hwf : WFDocument d) (toks : List Token) (eofPos : Nat)
    (h : toks.map kvOf = printTokens d) (p : Parser.Parsed) (hp : Parser.parseToks toks eofPos = .ok p) :
    print p.doc = print d ∧ p.typeRefMalformed = false := by
  obtain ⟨d', hd, hs⟩ := parseTokens_printTokens d hwf toks eofPos h
  rw [hd] at hp
  cases hp
  exact ⟨print_eq_of_same_shape _ _ hs, rfl⟩

/-- the same for a single value (`Value[Const]` when `c`), through the grammar's `DValue` … -/
theorem printValueTokens_in_grammar (c : Bool) (v : Value) (hwf : WFValue v) (hc : c = true → ConstValue v)
    (toks : List Token) (h : toks.map kvOf = printValueTokens v) :
    ∃ v', Grammar.DerivesValue c toks v' [] ∧ v'.stripLoc = v.stripLoc := by
  rw [printValueTokens_eq_valueT v hwf] at h
  obtain ⟨v', p', hd, hk, hs⟩ := derive_value c v hwf hc ⟨0, toks⟩ [] (by simp [kvs, h])
  obtain ⟨e, ts⟩ := p'
  have : ts = [] := by simpa [kvs] using hk
  subst this
  exact ⟨v', ⟨e, hd⟩, hs⟩

/-- … and against the parser model's `parseValue` (the model of `parseValueLiteral`): it consumes exactly the
printed tokens and returns the same value, locations aside -/
theorem parseValue_printValueTokens (c : Bool) (v : Value) (hwf : WFValue v) (hc : c = true → ConstValue v)
    (toks : List Token) (eofPos : Nat) (h : toks.map kvOf = printValueTokens v) :
    ∃ v' σ', Parser.parseValue c (Parser.initState toks eofPos) = .ok (v', σ') ∧ σ'.toks = [] ∧
      v'.stripLoc = v.stripLoc := by
  obtain ⟨v', ⟨e, hd⟩, hs⟩ := printValueTokens_in_grammar c v hwf hc toks h
  exact ⟨v', _, Parser.parseValue_cmp c (Parser.initState toks eofPos) v' ⟨e, []⟩ hd, rfl, hs⟩

/-- … and for a type reference -/
theorem parseType_printTypeTokens (t : TypeRef) (hwf : WFType t) (toks : List Token) (eofPos : Nat)
    (h : toks.map kvOf = printTypeTokens t) :
    ∃ t' σ', Parser.parseType (Parser.initState toks eofPos) = .ok (t', σ') ∧ σ'.toks = [] ∧
      t'.stripLoc = t.stripLoc := by
  rw [printTypeTokens_eq_typeT t] at h
  obtain ⟨t', p', hd, hk, hs⟩ := derive_type hwf (p := ⟨0, toks⟩) (k := []) (by simp [kvs, h]) (nextNe_nil _)
  obtain ⟨e, ts⟩ := p'
  have : ts = [] := by simpa [kvs] using hk
  subst this
  exact ⟨t', _, Parser.parseType_cmp (Parser.initState toks eofPos) t' ⟨e, []⟩ hd, rfl, hs⟩

/-! ## block-string descriptions (soundness of the D-08b repair)

`Printer.Block.blockText k d` is the printed description — `"""`, the text `blockRaw k d` (`d` itself, or each line of
`d` on a line of its own, indented by the `k` spaces the enclosing blocks add), `"""` — on bytes;
`blockSafeB` is printer.go `blockStringSafe`.  The block form is used only for block-safe descriptions; the others
are printed with `quoteString`, for which `quote_unquote` applies. -/

/-- `BlockStringValue()` (the GraphQL spec's algorithm, `Lexer.Spec.blockStringValue`) of the printed text between the
quotes is the description itself, at every indentation -/
theorem description_blockStringValue (k : Nat) (d : List UInt8) (h : Block.blockSafeB d = true) :
    Lexer.Spec.blockStringValue (Block.blockRaw k d) = d :=
  Block.blockStringValue_blockRaw k d h

/-- C03's lexer model M reads the printed block-string description back as one BLOCK_STRING token whose value is
exactly the description and whose extent is exactly the printed text, whatever follows it -/
theorem description_block_token (k : Nat) (d rest : List UInt8) (h : Block.blockSafeB d = true) (start fuel : Nat)
    (hf : (Block.blockText k d ++ rest).length < fuel) :
    Lexer.readBlockString fuel (Block.blockText k d ++ rest) start =
      .ok ⟨.blockString, start, start + (Block.blockText k d).length, d⟩ := by
  have hscan := Block.blockBody_blockRaw k d rest h
  have hloop := Lexer.readBlockLoop_spec fuel (Block.blockRaw k d ++ 34 :: 34 :: 34 :: rest) (start + 3) (start + 3)
    (by simp [Block.blockText] at hf ⊢; omega)
  rw [hscan] at hloop
  simp only at hloop
  have hdrop : (Block.blockText k d ++ rest).drop 3 = Block.blockRaw k d ++ 34 :: 34 :: 34 :: rest := by
    simp [Block.blockText]
  simp only [Lexer.readBlockString, hdrop, hloop, Lexer.makeToken, Lexer.blockStringValue_eq,
    Block.blockStringValue_blockRaw k d h]
  simp [Block.blockText]; omega

/-- `a⏎ b\` (two lines, the second indented and ending in a backslash) is block-safe; `a"` is not -/
example : Block.blockSafeB [97, 10, 32, 98, 92] = true := by decide
example : Block.blockSafeB [97, 34] = false := by decide
/-- `a⏎b` inside one block: `"""⏎  a⏎  b⏎  """` -/
example : Block.blockText 2 [97, 10, 98] = [34, 34, 34, 10, 32, 32, 97, 10, 32, 32, 98, 10, 32, 32, 34, 34, 34] := by decide

/-! ### the lexer half

`lex_render_tokens` (lexing the UTF-8 bytes of `print d` with C03's lexer model `Lexer.lexAll` yields `printTokens d` at
the offsets of the rendering, then EOF), the composed byte-level `parse_print` / `print_stable_bytes`, and `parse_ok_WF`
(everything lexer + parser accept with the malformed-type flag down is a `WFDocument`) are proved in
`Props/C08Bytes.lean` (helper modules `GqlProofs/RoundTrip*.lean`). -/

end GqlModel.C08
