import GqlProofs.SchemaConsistent
import GqlProofs.SchemaTotal
import GqlProofs.SchemaAppend
import GqlProofs.SchemaOrder
import GqlProofs.SchemaBridge
import GqlModel.SchemaLive
/-! # C11 — Schema construction never yields an inconsistent type system

Property theorems only. `M` = `newSchema` / `appendType` (lean/GqlModel/SchemaBuild.lean: `graphql.NewSchema`,
`Schema.AppendType` with the lazy members, parked errors and `typeMapReducer` modelled step for step, for the tree with
D-11a…f repaired); `S` = the decidable predicate `BuiltSchema.Consistent` on a dump. All statements quantify over every
configuration: any number of type objects of any kind with any names (duplicates, invalid ones), any reference graph
(cycles, dangling ids), nil members, thunked or direct or absent or ill-typed member lists, any nest of
`NewList`/`NewNonNull` over nil / typed nil pointers / types, any directives, any roots.

`Config.wellTyped` is not a restriction on *malformed* inputs: it states what Go's static types enforce on every
`SchemaConfig` that compiles (`Interfaces` holds `*Interface`, a union's `Types` holds `*Object`, the roots are
`*Object`, every type object is one of the six named kinds). -/
namespace GqlModel.SchemaBuild

/-- **T1 `newSchema_ok_consistent`** (full statement, no defect class excluded): whenever `NewSchema` returns a schema
— for any configuration and any further `Types` — the schema is consistent: unique legal names, type map closed under
reference (field, argument, input-field, interface, union-member and root types) and containing the built-in
introspection types, output / input position discipline, interface conformance (all fields present, covariant result
types, identical argument types, no extra required arguments), possible-type tables coherent with the interface
declarations and union members. -/
theorem newSchema_ok_consistent (cfg : Config) (hwt : cfg.wellTyped = true) (more : List TRef) (s : St)
    (h : newSchema cfg more = .ok s) : (dump cfg s).Consistent = true :=
  (newSchema_good h).consistent hwt

/-- the same after any sequence of successful `AppendType` calls -/
theorem appendType_ok_consistent (cfg : Config) (hwt : cfg.wellTyped = true) (more ts : List TRef) (s s' : St)
    (h : newSchema cfg more = .ok s) (ha : appendAll cfg s ts = .ok s') : (dump cfg s').Consistent = true :=
  (appendAll_good ts s s' (newSchema_good h) ha).consistent hwt

/-- **T1 `newSchema_total`**: on no configuration does construction end in a nil dereference (`Err.panic`) or exhaust
the recursion budget of the model (`Err.fuel`): it returns a schema or an ordinary error. -/
theorem newSchema_total (cfg : Config) (more : List TRef) :
    newSchema cfg more ≠ .error .panic ∧ newSchema cfg more ≠ .error .fuel := by
  refine ⟨fun h => ?_, fun h => ?_⟩ <;> exact absurd (newSchema_noCrash cfg h) (by decide)

/-- the same for `AppendType` on a schema that `NewSchema` returned -/
theorem appendType_total (cfg : Config) (more ts : List TRef) (s : St) (h : newSchema cfg more = .ok s) :
    appendAll cfg s ts ≠ .error .panic ∧ appendAll cfg s ts ≠ .error .fuel := by
  refine ⟨fun h' => ?_, fun h' => ?_⟩ <;>
    exact absurd (appendAll_noCrash cfg ts s _ (newSchema_good h) h') (by decide)

/-- **T1 `append_eq_upfront`**: appending the types `xs` one by one, in any order `ys`, to the schema built without
them registers exactly what supplying them in `SchemaConfig.Types` registers: `Type(name)` agrees for every name (so
the type maps are equal), `PossibleTypes` of every abstract type has the same members (the implementations table),
and `IsPossibleType` agrees (the possible-type table). -/
theorem append_eq_upfront (cfg : Config) (xs ys : List TRef) (hperm : ys.Perm xs) (s1 s0 s2 : St)
    (h1 : newSchema cfg xs = .ok s1) (h0 : newSchema cfg = .ok s0) (h2 : appendAll cfg s0 ys = .ok s2) :
    (∀ n, TM.lookup cfg s1.tm n = TM.lookup cfg s2.tm n) ∧
    (∀ a p, a ∈ s1.tm → (p ∈ possibleTypesOf cfg s1.tm a ↔ p ∈ possibleTypesOf cfg s2.tm a)) ∧
    (∀ a o, a ∈ TM.abstracts cfg s1.tm → isPossibleFinal cfg s1.tm a o = isPossibleFinal cfg s2.tm a o) := by
  have g1 := newSchema_good h1
  have g2 := appendAll_good ys s0 s2 (newSchema_good h0) h2
  have hsame := append_same_types (fun x => hperm.mem_iff) h1 h0 h2
  exact ⟨lookup_same g1 g2 hsame, fun a p ha => possibleTypes_same g1 g2 hsame ha p,
    fun a o ha => isPossible_same g1 g2 hsame ha o⟩

/-- acceptance does not depend on the order either: supplying `xs` in `SchemaConfig.Types` succeeds iff building the
schema without them and appending them in the order `ys` (any permutation) succeeds. Together with
`append_eq_upfront`: "appending types afterwards gives the same schema as supplying them up front". -/
theorem append_ok_iff_upfront (cfg : Config) (xs ys : List TRef) (hperm : ys.Perm xs) :
    (∃ s1, newSchema cfg xs = .ok s1) ↔ (∃ s0 s2, newSchema cfg = .ok s0 ∧ appendAll cfg s0 ys = .ok s2) :=
  append_ok_iff (fun _ => hperm.mem_iff)

/-- **T1 `subtype_reflexive_transitive`**: `isTypeSubTypeOf` is a preorder on type references, whatever
`IsPossibleType` answers (it is only consulted for an object below an abstract type). -/
theorem subtype_reflexive_transitive (k : Nat → Kind) (p : Nat → Nat → Bool) :
    (∀ t, isSubType k p t t = true) ∧
    (∀ a b c, isSubType k p a b = true → isSubType k p b c = true → isSubType k p a c = true) :=
  ⟨isSubType_refl k p, isSubType_trans k p⟩

/-! ## What construction guarantees to the other models

`BuiltSchema.toSchema` (lean/GqlModel/SchemaBuildBridge.lean) renders the schema that `NewSchema` returned in the shared
vocabulary `GqlModel.Schema`. The following are the schema premises of other properties' theorems, proved as
consequences of successful construction. `Config.mapsOk` says that the configuration is a rendering of Go maps: the
keys of each map (fields, arguments, input fields, enum values, directive arguments) are distinct — like
`Config.wellTyped`, a fact about every configuration the Go API can be handed, not a restriction. -/

/-- C10 `membersOnce`: no object lists an interface twice, no union a member twice. -/
theorem newSchema_ok_membersOnce (cfg : Config) (more : List TRef) (s : St) (_h : newSchema cfg more = .ok s) :
    ((dump cfg s).toSchema).types.all Introspection.membersOnce = true :=
  toSchema_membersOnce cfg s

/-- C10 `wfInputTypes`: enum value names and input field names are valid names, pairwise distinct within their type,
and no enum value is called `true`, `false` or `null`. -/
theorem newSchema_ok_wfInputTypes (cfg : Config) (hm : cfg.mapsOk = true) (more : List TRef) (s : St)
    (_h : newSchema cfg more = .ok s) : Introspection.wfInputTypes ((dump cfg s).toSchema).types = true :=
  toSchema_wfInputTypes cfg hm s

/-- C05 `inputFieldsNodup`: the field names of every input object are distinct. -/
theorem newSchema_ok_inputFieldsNodup (cfg : Config) (hm : cfg.mapsOk = true) (more : List TRef) (s : St)
    (_h : newSchema cfg more = .ok s) : Coerce.inputFieldsNodup ((dump cfg s).toSchema) :=
  toSchema_inputFieldsNodup cfg hm s

/-- C14 (TypeInfo) `ArgsUnique`: argument names are pairwise distinct within every field and directive definition
(including the introspection types, the meta fields and the specified directives). -/
theorem newSchema_ok_argsUnique (cfg : Config) (hm : cfg.mapsOk = true) (more : List TRef) (s : St)
    (_h : newSchema cfg more = .ok s) : TypeInfoStacks.ArgsUnique ((dump cfg s).toSchema) :=
  toSchema_argsUnique cfg hm s

/-- C01 / C02 / C04: what the executor and validator models may assume about a constructed schema: type names are
distinct; every interface, union member, field / argument / input-field type and root names a defined type; every
object has all fields of the interfaces it declares — together with the four premises above. Also after appends. -/
theorem newSchema_ok_translation_consistent (cfg : Config) (hwt : cfg.wellTyped = true) (hm : cfg.mapsOk = true)
    (more ts : List TRef) (s s' : St) (h : newSchema cfg more = .ok s) (ha : appendAll cfg s ts = .ok s') :
    let sch := (dump cfg s').toSchema
    TranslationConsistent sch ∧ sch.types.all Introspection.membersOnce = true ∧
      Introspection.wfInputTypes sch.types = true ∧ Coerce.inputFieldsNodup sch ∧ TypeInfoStacks.ArgsUnique sch :=
  ⟨(appendAll_good ts s s' (newSchema_good h) ha).translationConsistent hwt, toSchema_membersOnce cfg s',
    toSchema_wfInputTypes cfg hm s', toSchema_inputFieldsNodup cfg hm s', toSchema_argsUnique cfg hm s'⟩

/-! ## Non-vacuity: concrete configurations -/

private def q (fs : List FieldCfg) : TypeCfg :=
  { kind := .object, name := "Q", fields := fs, refsForm := .absent, resolver := false }

/-- interface `I { a: String }` (id 14), objects `A` (15) and `B` (16) implementing it, query `{ i: I }` -/
private def cfgI : Config :=
  { types := [q [{ name := "i", type := .ref 14 }],
      { kind := .interface, name := "I", fields := [{ name := "a", type := .ref 0 }] },
      { kind := .object, name := "A", fields := [{ name := "a", type := .nonNull (.ref 0) }], refs := [some 14] },
      { kind := .object, name := "B", fields := [{ name := "a", type := .ref 0 }], refs := [some 14], form := .thunk }],
    query := some 13 }

private def okWith (cfg : Config) (more app : List TRef) (n : Nat) : Bool :=
  match newSchema cfg more with
  | .ok s => (match appendAll cfg s app with
    | .ok s' => s'.tm.length == n && (dump cfg s').Consistent
    | .error _ => false)
  | .error _ => false

private def errIs (cfg : Config) (e : Err) : Bool :=
  match newSchema cfg with
  | .ok _ => false
  | .error e' => e' == e

/-- the hypotheses of the theorems are satisfiable: a well-typed configuration on which `NewSchema` succeeds (12 types:
Q, I and the ten built-ins), and on which appending A and B in either order or supplying them up front succeeds with
14 types -/
example : cfgI.wellTyped = true ∧ cfgI.mapsOk = true ∧ okWith cfgI [] [] 12 = true ∧ okWith cfgI [.ref 15, .ref 16] [] 14 = true ∧
    okWith cfgI [] [.ref 16, .ref 15] 14 = true := by decide +kernel

/-- the repaired defect classes are rejected by the model: an input object as a field type (D-11c), `[String!!]`
(D-11d), a typed nil pointer as a field type (D-11f, no panic), a non-conforming implementer in `Types` -/
example : errIs { types := [q [{ name := "f", type := .ref 14 }],
      { kind := .inputObject, name := "In", inputFields := [{ name := "a", type := .ref 0 }] }], query := some 13 }
    .fieldTypeNotOutput = true := by decide +kernel
example : errIs { types := [q [{ name := "f", type := .list (.nonNull (.nonNull (.ref 0))) }]], query := some 13 }
    .fieldTypeNotOutput = true := by decide +kernel
example : errIs { types := [q [{ name := "f", type := .nilPtr .object }]], query := some 13 }
    .fieldTypeNotOutput = true := by decide +kernel
private def cfgBadTypes : Config := { cfgI with extra := [.list (.nonNull (.nonNull (.ref 15)))] }
private def cfgBadImpl : Config :=
  { types := cfgI.types ++ [{ kind := .object, name := "C", fields := [{ name := "b", type := .ref 0 }], refs := [some 14] }],
    query := some 13, extra := [.ref 17] }
example : errIs cfgBadTypes .badNonNull = true := by decide +kernel
example : errIs cfgBadImpl .ifaceMissingField = true := by decide +kernel

/-! ## Histories with mutation (lean/GqlModel/SchemaLive.lean)

The theorems above speak about one configuration `cfg` from `newSchema` through every `appendType`: their premise is
that **no type object is changed between its construction and the last append** (`Object.AddFieldConfig`,
`Interface.AddFieldConfig`, `InputObject.AddFieldConfig` change a type object). Mutations that happen before the
object enters a type map are covered too: they are just another `cfg`. What /repo HEAD does when a type is changed
AFTER it entered the type map is modelled by `Live` / `runHistory` (bug-faithful) and pinned here by kernel-checked
witnesses; the property fails there (defect class `mutatedTypeNotRevalidated`, D-11h). -/

/-- `I {a}`, `O implements I {a}` (plain-map fields), input `In {t}`, query `{o(in: In): O}`; not yet referenced:
object `New {x}` (id 17) and enum `E` (id 18) -/
private def cfgH : Config :=
  { types := [q [{ name := "o", type := .ref 15, args := [{ name := "in", type := .ref 16 }] }],
      { kind := .interface, name := "I", fields := [{ name := "a", type := .ref 0 }] },
      { kind := .object, name := "O", fields := [{ name := "a", type := .ref 0 }], refs := [some 14] },
      { kind := .inputObject, name := "In", inputFields := [{ name := "t", type := .ref 0 }] },
      { kind := .object, name := "New", fields := [{ name := "x", type := .ref 0 }], refsForm := .absent },
      { kind := .enum, name := "E", values := [("A", true)] }],
    query := some 13 }

private def histOk (h : List HStep) : Option (List Nat) :=
  match runHistory { cfg := cfgH } 0 h with
  | .ok st => some st.tm
  | .error _ => none

private def upfrontOk (h : List HStep) : Option (List Nat) :=
  match upfront { cfg := cfgH } h with
  | .ok st => some st.tm
  | .error _ => none

/-- HEAD, D-11h: `O.AddFieldConfig("n", New)` after `NewSchema`, then `AppendType(O)`: accepted, but `New` (17) is
not registered, although `NewSchema` on the same final configuration registers it. -/
example : let h := [HStep.newSchema, .addField 15 { name := "n", type := .ref 17 }, .append (.ref 15)]
    (histOk h).map (·.contains 17) = some false ∧ (upfrontOk h).map (·.contains 17) = some true ∧
    mutatesRegistered { cfg := cfgH } h = true := by decide +kernel

/-- HEAD, D-11h: a field of INPUT type added to the registered object `O`, then `AppendType(O)`: accepted although
`NewSchema` rejects the same final configuration; likewise an input field of a new enum type. -/
example : let h := [HStep.newSchema, .addField 15 { name := "bad", type := .ref 16 }, .append (.ref 15)]
    (histOk h).isSome = true ∧ (upfrontOk h).isSome = false := by decide +kernel
example : let h := [HStep.newSchema, .addInputField 16 { name := "e", type := .ref 18 }, .append (.ref 16)]
    (histOk h).map (·.contains 18) = some false ∧ (upfrontOk h).map (·.contains 18) = some true := by decide +kernel

/-- HEAD is right on the history of seeded change C11-9 (`InputObject.AddFieldConfig` validates at once): an input
field of OBJECT type added to the registered `In`, then `AppendType(In)`: rejected, like up front. -/
example : let h := [HStep.newSchema, .addInputField 16 { name := "owner", type := .ref 15 }, .append (.ref 16)]
    histOk h = none ∧ upfrontOk h = none := by decide +kernel

/-- the order the theorems cover: a type changed BEFORE it enters the type map — history and up front agree -/
example : let h := [HStep.newSchema, .addField 17 { name := "e", type := .ref 0, args := [{ name := "a", type := .ref 18 }] },
      .append (.ref 17)]
    histOk h = upfrontOk h ∧ (histOk h).map (·.contains 18) = some true ∧
    mutatesRegistered { cfg := cfgH } h = false := by decide +kernel

end GqlModel.SchemaBuild
