import GqlProofs.Determinism
import Generated.Tables
/-! # C12 — The same request always produces the same response

Full statement (properties.jsonl): executing the same request against the same schema yields byte-identical JSON
every time, independent of history, of hash-map iteration order and of plan caching; validation likewise.

What is proved here. Go's map iteration is an adversary `adv : Adversary α` (`adv.ord l ~ l`). For each *pattern* in
which package graphql ranges over a map, the outcome is independent of the adversary (`sortedAfter`, `commutative`,
`orderIrrelevant`), or the pattern provably leaks the order (`leaks`, with witnesses). The regenerated list of all
map-range sites of /repo must equal the hand-classified list `siteClass`, each site must still have the syntactic shape
it was classified under, `sortedAfter` must coincide with the collect-then-sort shapes, and every `leaks` site must be
in the explicit list of known findings.

Not proved: `output_order_independent` for a whole-pipeline model `Pipeline.do` (there is no pipeline model in this
tree to state it about; the per-site classification is the hand-written step between the pattern theorems and the
code) and `history_independent` (no state besides plan/cache: C06). Byte-identical output of the real binary is
sampled by harness/cmd/c12 (50 repetitions interleaved with other requests, 8 fresh processes). -/
namespace GqlModel.Determinism
open List

/-! ## Pattern theorems (all adversaries, all entry lists) -/

/-- collect – (filter) – sort with a total order: any two iteration orders give the same list, hence the same
everything computed from it. `antisymm` only on the entries: for keys of a map with `sort.Strings` it is string
order; for `sort.Slice(values, by name)` it holds because the names are the (distinct) keys. -/
theorem sorted_after_range_order_independent {α : Type} (le : α → α → Bool) (keep : α → Bool)
    (trans : ∀ a b c : α, le a b → le b c → le a c) (total : ∀ a b : α, le a b || le b a)
    (entries : List α) (antisymm : ∀ a b, a ∈ entries → b ∈ entries → le a b → le b a → a = b)
    (adv₁ adv₂ : Adversary α) :
    collectSorted le keep adv₁ entries = collectSorted le keep adv₂ entries := by
  unfold collectSorted
  have hp : (adv₁.ord entries).Perm (adv₂.ord entries) := (adv₁.perm entries).trans (adv₂.perm entries).symm
  refine mergeSort_filter_eq_of_perm le keep trans total ?_ hp
  intro a b ha hb
  exact antisymm a b ((adv₁.perm entries).subset ha) ((adv₁.perm entries).subset hb)

/-- … hence whatever is built from the sorted list, in that order -/
theorem sorted_use_order_independent {α β : Type} (le : α → α → Bool) (keep : α → Bool) (use : List α → β)
    (trans : ∀ a b c : α, le a b → le b c → le a c) (total : ∀ a b : α, le a b || le b a)
    (entries : List α) (antisymm : ∀ a b, a ∈ entries → b ∈ entries → le a b → le b a → a = b)
    (adv₁ adv₂ : Adversary α) :
    useSorted le keep use adv₁ entries = useSorted le keep use adv₂ entries := by
  unfold useSorted
  rw [sorted_after_range_order_independent le keep trans total entries antisymm adv₁ adv₂]

/-- the instance `sort.Strings` on collected names, unconditionally -/
theorem sort_strings_order_independent (keep : String → Bool) (names : List String) (adv₁ adv₂ : Adversary String) :
    collectSorted strLe keep adv₁ names = collectSorted strLe keep adv₂ names :=
  sorted_after_range_order_independent strLe keep strLe_trans strLe_total names
    (fun a b _ _ => strLe_antisymm a b) adv₁ adv₂

/-- `suggestionList` after D-12a's repair: filter by threshold, sort by (distance, name) — for every distance function -/
theorem suggestion_list_order_independent (dist : String → Nat) (thr : Nat) (names : List String)
    (adv₁ adv₂ : Adversary String) :
    suggestionList dist thr adv₁ names = suggestionList dist thr adv₂ names :=
  sorted_after_range_order_independent (suggestLe dist) _ (suggestLe_trans dist) (suggestLe_total dist) names
    (fun a b _ _ => suggestLe_antisymm dist a b) adv₁ adv₂

/-- D-12a as it was (sort on distance only): the order leaks although the list is "sorted" -/
theorem suggestion_list_by_distance_only_leaks :
    ∃ (dist : String → Nat) (names : List String),
      collectSorted (byDistance dist) (fun _ => true) Adversary.id names ≠
      collectSorted (byDistance dist) (fun _ => true) Adversary.reverse names :=
  ⟨fun _ => 1, ["ab", "ac"], by
    have h1 : List.Pairwise (fun a b => byDistance (fun _ => 1) a b = true) ["ab", "ac"] := by decide
    have h2 : List.Pairwise (fun a b => byDistance (fun _ => 1) a b = true) ["ac", "ab"] := by decide
    simp [collectSorted, Adversary.id, Adversary.reverse, List.mergeSort_of_pairwise h1, List.mergeSort_of_pairwise h2]⟩

/-- commutative accumulation into a map: same final map (extensionally) for every iteration order -/
theorem commutative_accumulation_order_independent {κ ν ν' : Type} [DecidableEq κ] (f : κ × ν → ν')
    (entries : List (κ × ν)) (hu : KeysUnique entries) (init : AMap κ ν') (adv₁ adv₂ : Adversary (κ × ν)) :
    accumulate f adv₁ entries init = accumulate f adv₂ entries init := by
  unfold accumulate
  have hp : (adv₁.ord entries).Perm (adv₂.ord entries) := (adv₁.perm entries).trans (adv₂.perm entries).symm
  exact foldl_set_perm f hp (hu.perm (adv₁.perm entries).symm) init

/-- accumulation with abort at the first invalid entry: whether it fails, and the map if it does not, are the same
for every iteration order (which invalid entry is reported is not) -/
theorem checked_accumulation_order_independent {κ ν ν' ε : Type} [DecidableEq κ] (bad : κ × ν → Option ε)
    (f : κ × ν → ν') (entries : List (κ × ν)) (hu : KeysUnique entries) (init : AMap κ ν')
    (adv₁ adv₂ : Adversary (κ × ν)) :
    outcome (accumulateChecked bad f adv₁ entries init) = outcome (accumulateChecked bad f adv₂ entries init) := by
  unfold accumulateChecked
  by_cases hall : ∀ e ∈ entries, bad e = none
  · have h1 : ∀ e ∈ adv₁.ord entries, bad e = none := fun e he => hall e ((adv₁.perm entries).subset he)
    have h2 : ∀ e ∈ adv₂.ord entries, bad e = none := fun e he => hall e ((adv₂.perm entries).subset he)
    rw [accCheckedGo_ok bad f _ init h1, accCheckedGo_ok bad f _ init h2]
    simp only [outcome]
    exact congrArg some (commutative_accumulation_order_independent f entries hu init adv₁ adv₂)
  · have hex : ∃ e ∈ entries, bad e ≠ none := by
      apply Classical.byContradiction
      intro hn
      exact hall (fun e he => Classical.byContradiction fun hne => hn ⟨e, he, hne⟩)
    rcases hex with ⟨e, he, hne⟩
    rcases accCheckedGo_error bad f (adv₁.ord entries) init ⟨e, (adv₁.perm entries).symm.subset he, hne⟩ with ⟨_, _, _, _, r1⟩
    rcases accCheckedGo_error bad f (adv₂.ord entries) init ⟨e, (adv₂.perm entries).symm.subset he, hne⟩ with ⟨_, _, _, _, r2⟩
    rw [r1, r2]; rfl

/-- the error that is reported is the error of *some* entry of the map (never an invented one) -/
theorem checked_accumulation_error_is_of_an_entry {κ ν ν' ε : Type} [DecidableEq κ] (bad : κ × ν → Option ε)
    (f : κ × ν → ν') (entries : List (κ × ν)) (init : AMap κ ν') (adv : Adversary (κ × ν)) (err : ε)
    (h : accumulateChecked bad f adv entries init = .error err) : ∃ e ∈ entries, bad e = some err := by
  unfold accumulateChecked at h
  by_cases hall : ∀ e ∈ adv.ord entries, bad e = none
  · rw [accCheckedGo_ok bad f _ init hall] at h; cases h
  · have hex : ∃ e ∈ adv.ord entries, bad e ≠ none := by
      apply Classical.byContradiction
      intro hn
      exact hall (fun e he => Classical.byContradiction fun hne => hn ⟨e, he, hne⟩)
    rcases accCheckedGo_error bad f _ init hex with ⟨e, he, err', hb, r⟩
    rw [r] at h
    cases h
    exact ⟨e, (adv.perm entries).subset he, hb⟩

/-- existence checks / "return the first error": whether there is one does not depend on the order -/
theorem order_irrelevant_first_error {α ε : Type} (bad : α → Option ε) (entries : List α) (adv₁ adv₂ : Adversary α) :
    (firstError bad adv₁ entries).isSome = (firstError bad adv₂ entries).isSome := by
  have key : ∀ adv : Adversary α, (firstError bad adv entries).isSome = entries.any (fun a => (bad a).isSome) := by
    intro adv
    unfold firstError
    rw [Bool.eq_iff_iff]
    simp only [List.findSome?_isSome_iff, List.any_eq_true]
    constructor
    · rintro ⟨a, ha, h⟩; exact ⟨a, (adv.perm entries).subset ha, h⟩
    · rintro ⟨a, ha, h⟩; exact ⟨a, (adv.perm entries).symm.subset ha, h⟩
  rw [key adv₁, key adv₂]

theorem order_irrelevant_exists_check {α : Type} (p : α → Bool) (entries : List α) (adv₁ adv₂ : Adversary α) :
    existsCheck p adv₁ entries = existsCheck p adv₂ entries := by
  unfold existsCheck
  rw [Bool.eq_iff_iff]
  simp only [List.any_eq_true]
  constructor
  · rintro ⟨a, ha, h⟩; exact ⟨a, (adv₂.perm entries).symm.subset ((adv₁.perm entries).subset ha), h⟩
  · rintro ⟨a, ha, h⟩; exact ⟨a, (adv₁.perm entries).symm.subset ((adv₂.perm entries).subset ha), h⟩

/-- what a leaking site can do and what it cannot: two runs emit the same *multiset* (the outputs are permutations of
each other — this is what the harness's known-finding predicate tests), but not always the same list -/
theorem leak_is_only_order {α β : Type} (f : α → Option β) (entries : List α) (adv₁ adv₂ : Adversary α) :
    (emitInOrder f adv₁ entries).Perm (emitInOrder f adv₂ entries) := by
  unfold emitInOrder
  exact ((adv₁.perm entries).trans (adv₂.perm entries).symm).filterMap f

theorem emit_in_order_leaks :
    ∃ entries : List Nat, emitInOrder some Adversary.id entries ≠ emitInOrder some Adversary.reverse entries :=
  ⟨[1, 2], by decide⟩

/-- the first-match use of a leaked order (`defaultResolveTypeFn` over `implementations`, `responseNames[0]`) changes
the *value*, not only an order (D-12g, D-12i) -/
theorem first_match_leaks_value :
    ∃ (p : Nat → Bool) (entries : List Nat), firstMatch p Adversary.id entries ≠ firstMatch p Adversary.reverse entries :=
  ⟨fun _ => true, [1, 2], by decide⟩

/-! ## Table obligations (re-checked against /repo on every run) -/

/-- `Generated.mapRangeSites` (every `range` over a map in package graphql) is exactly the classified list: a new site,
a removed one or a moved one breaks this. -/
theorem all_map_range_sites_classified : allClassified Generated.mapRangeSites = true := by
  decide +kernel

/-- every site still has the syntactic shape it was classified under (a removed `sort.Strings` turns `keys>sort.Strings`
into `keys>unsorted`, an added `append` turns `noappend` into `append`, …) -/
theorem site_shapes_as_classified : shapesAsClassified Generated.mapRangeShapes = true := by
  decide +kernel

/-- `sortedAfter` exactly for collect-then-sort shapes (sink is `sort.*`, or a function in which the regenerated
`sortCalls` finds a `sort.*` call); no non-leaking site appends in iteration order unless waived with a reason -/
theorem classes_fit_shapes : classesFitShapes Generated.sortCalls = true := by
  decide +kernel

/-- every site classified `leaks` is in the explicit list of known leaking sites, and conversely -/
theorem no_leaking_site_unlisted : leaksAreListed = true := by
  decide +kernel

/-! ## Non-vacuity -/

/-- a nontrivial adversary and entries on which the theorems say something -/
example : collectSorted strLe (fun _ => true) Adversary.reverse ["c", "b", "a"] = ["a", "b", "c"] := by
  have h : List.Pairwise (fun a b => strLe a b = true) ["a", "b", "c"] := by decide
  simpa [collectSorted, Adversary.reverse] using List.mergeSort_of_pairwise h
example : KeysUnique [("a", 1), ("b", 2)] := by
  intro x hx y hy h
  simp only [List.mem_cons, List.mem_nil_iff, or_false] at hx hy
  rcases hx with rfl | rfl <;> rcases hy with rfl | rfl <;> simp_all
example : outcome (accumulateChecked (fun e : String × Nat => if e.2 = 0 then some e.1 else none) (·.2)
    Adversary.id [("a", 0), ("b", 0)] AMap.empty) = none := by decide
example : accumulateChecked (fun e : String × Nat => if e.2 = 0 then some e.1 else none) (·.2)
      Adversary.id [("a", 0), ("b", 0)] (AMap.empty (ν := Nat)) = .error "a" ∧
    accumulateChecked (fun e : String × Nat => if e.2 = 0 then some e.1 else none) (·.2)
      Adversary.reverse [("a", 0), ("b", 0)] (AMap.empty (ν := Nat)) = .error "b" := by
  constructor <;> rfl

end GqlModel.Determinism
