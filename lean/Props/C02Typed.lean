import GqlProofs.ValidateTyped
/-! # C02: the type-directed rules against INDEPENDENT declarative specifications

For ArgumentsOfCorrectType, DefaultValuesOfCorrectType, VariablesAreInputTypes, FragmentsOnCompositeTypes and
PossibleFragmentSpreads the rule functions of `Validate/Local.lean` are the code; here each gets a specification in
the style of the spec text, stated without the rule's own machinery, and the theorem `rule reports nothing ⇔ S`
plus location soundness (`e ∈ rule → e is located at a node that violates S`):

* literals: `LiteralCoercible` = the SPECIFICATION's literal coercion (`Coerce.Spec.coerceLiteral`, worker c05)
  succeeds for every assignment of values to the literal's variables; the rule side is c05's model of
  `isValidLiteralValue`, the bridge is `isValid_iff_coercible` (on top of c05's `lit_agree`);
* input types: `IsInputType` by recursion on the type, as in the spec's `IsInputType(type)`;
* possible spreads: `runtimeTypes` (GetPossibleTypes) of the condition and of the parent type intersect.

Side conditions (decidable, evaluated by drv_c02 on every case): `schemaInputsOkB s` — argument / directive-argument /
input-field types are input types; `AbstractInhabited s` — every interface / union has a possible type. -/
namespace GqlModel.Validate
open GqlModel.Coerce

/-! ## ArgumentsOfCorrectType -/

/-- spec ("Values of correct type", arguments): every argument that the field's / directive's definition declares
carries a literal coercible to the declared type -/
def ArgumentsCoercible (s : Schema) (d : Document) : Prop :=
  (∀ c nm args sel lc fd, Item.field c nm args sel lc ∈ items s d → c.fieldDef = some fd →
      ∀ a ∈ args, ∀ ad, fd.args.find? (fun x => x.name == a.name.value) = some ad →
        LiteralCoercible s.plus ad.type a.value) ∧
  (∀ site c dir dd, Item.directive site c dir ∈ items s d → s.directive? dir.name.value = some dd →
      ∀ a ∈ dir.args, ∀ ad, dd.args.find? (fun x => x.name == a.name.value) = some ad →
        LiteralCoercible s.plus ad.type a.value)

theorem badArgValues_mem (s : Schema) (rule : String) (lookup : String → Option ArgDef) (args : List Argument)
    (hok : ∀ a ∈ args, ∀ ad, lookup a.name.value = some ad → inputKind s.plus ad.type.namedName = true)
    (hS : InputClosed s.plus) (e : VErr) :
    e ∈ badArgValues s rule lookup args ↔
      ∃ a ∈ args, ∃ ad, lookup a.name.value = some ad ∧ ¬ LiteralCoercible s.plus ad.type a.value ∧
        e = ⟨rule, [a.value.loc]⟩ := by
  unfold badArgValues
  simp only [List.mem_filterMap]
  constructor
  · rintro ⟨a, ha, he⟩
    cases hl : lookup a.name.value with
    | none => simp [hl] at he
    | some ad =>
      simp only [hl] at he
      have hk := hok a ha ad hl
      rw [validLiteral_eq s ad.type _ hk] at he
      by_cases hv : isValidLiteralValue s.plus ad.type (some a.value) = true
      · simp [hv] at he
      · simp only [hv, Bool.false_eq_true, if_false, Option.some.injEq] at he
        exact ⟨a, ha, ad, hl, fun hc => hv ((isValid_iff_coercible _ hS _ hk _).2 hc), he.symm⟩
  · rintro ⟨a, ha, ad, hl, hnc, rfl⟩
    refine ⟨a, ha, ?_⟩
    have hk := hok a ha ad hl
    have hv : isValidLiteralValue s.plus ad.type (some a.value) = false := by
      cases h : isValidLiteralValue s.plus ad.type (some a.value) with
      | false => rfl
      | true => exact absurd ((isValid_iff_coercible _ hS _ hk _).1 h) hnc
    simp [hl, validLiteral_eq s ad.type _ hk, hv]

theorem argDefFor_field (fd : FieldDefS) (n : String) :
    argDefFor none (some fd) n = fd.args.find? (fun x => x.name == n) := rfl
theorem argDefFor_dir (dd : DirectiveDefS) (n : String) :
    argDefFor (some dd) none n = dd.args.find? (fun x => x.name == n) := rfl
theorem argDefFor_none (n : String) : argDefFor none none n = none := rfl

/-- the definition behind a field item is a definition of the schema -/
theorem field_item_def (s : Schema) (d : Document) {c nm args sel lc fd}
    (hit : Item.field c nm args sel lc ∈ items s d) (hfd : c.fieldDef = some fd) :
    ∃ p, c.parent = some p ∧ s.fieldDef? p nm.value = some fd := by
  have := (items_ok s d _ hit).1
  rw [hfd] at this
  cases hp : c.parent with
  | none => simp [hp] at this
  | some p => exact ⟨p, rfl, by simpa [hp] using this.symm⟩

/-- element-wise characterisation: each error is an argument value that is not coercible to its declared type
(location soundness), and every such argument is reported -/
theorem argumentsOfCorrectType_mem (s : Schema) (d : Document) (h : schemaInputsOkB s = true) (e : VErr) :
    e ∈ argumentsOfCorrectType_S s d ↔
      (∃ c nm args sel lc fd a ad, Item.field c nm args sel lc ∈ items s d ∧ c.fieldDef = some fd ∧ a ∈ args ∧
          fd.args.find? (fun x => x.name == a.name.value) = some ad ∧ ¬ LiteralCoercible s.plus ad.type a.value ∧
          e = ⟨"ArgumentsOfCorrectType", [a.value.loc]⟩) ∨
      (∃ site c dir dd a ad, Item.directive site c dir ∈ items s d ∧ s.directive? dir.name.value = some dd ∧
          a ∈ dir.args ∧ dd.args.find? (fun x => x.name == a.name.value) = some ad ∧
          ¬ LiteralCoercible s.plus ad.type a.value ∧ e = ⟨"ArgumentsOfCorrectType", [a.value.loc]⟩) := by
  have hS := schemaOk_closed s h
  unfold argumentsOfCorrectType_S
  simp only [List.mem_flatMap]
  constructor
  · rintro ⟨it, hit, he⟩
    cases it with
    | field c nm args sel lc =>
      simp only at he
      cases hfd : c.fieldDef with
      | none => simp [hfd, badArgValues, argDefFor_none] at he
      | some fd =>
        obtain ⟨p, _, hdef⟩ := field_item_def s d hit hfd
        have hok : ∀ a ∈ args, ∀ ad, argDefFor none (some fd) a.name.value = some ad →
            inputKind s.plus ad.type.namedName = true := fun a _ ad had =>
          schemaOk_fieldArgs s h p _ fd hdef ad (List.mem_of_find?_eq_some had)
        rw [hfd] at he
        obtain ⟨a, ha, ad, hl, hnc, rfl⟩ := (badArgValues_mem s _ _ args hok hS e).1 he
        exact Or.inl ⟨c, nm, args, sel, lc, fd, a, ad, hit, hfd, ha, hl, hnc, rfl⟩
    | directive site c dir =>
      simp only at he
      cases hdd : s.directive? dir.name.value with
      | none => simp [hdd, badArgValues, argDefFor_none] at he
      | some dd =>
        have hok : ∀ a ∈ dir.args, ∀ ad, argDefFor (some dd) none a.name.value = some ad →
            inputKind s.plus ad.type.namedName = true := fun a _ ad had =>
          schemaOk_dirArgs s h _ dd hdd ad (List.mem_of_find?_eq_some had)
        rw [hdd] at he
        obtain ⟨a, ha, ad, hl, hnc, rfl⟩ := (badArgValues_mem s _ _ dir.args hok hS e).1 he
        exact Or.inr ⟨site, c, dir, dd, a, ad, hit, hdd, ha, hl, hnc, rfl⟩
    | _ => simp at he
  · rintro (⟨c, nm, args, sel, lc, fd, a, ad, hit, hfd, ha, hl, hnc, rfl⟩ | ⟨site, c, dir, dd, a, ad, hit, hdd, ha, hl, hnc, rfl⟩)
    · refine ⟨_, hit, ?_⟩
      simp only [hfd]
      obtain ⟨p, _, hdef⟩ := field_item_def s d hit hfd
      have hok : ∀ a ∈ args, ∀ ad, argDefFor none (some fd) a.name.value = some ad →
          inputKind s.plus ad.type.namedName = true := fun a _ ad had =>
        schemaOk_fieldArgs s h p _ fd hdef ad (List.mem_of_find?_eq_some had)
      exact (badArgValues_mem s _ _ args hok hS _).2 ⟨a, ha, ad, hl, hnc, rfl⟩
    · refine ⟨_, hit, ?_⟩
      simp only [hdd]
      have hok : ∀ a ∈ dir.args, ∀ ad, argDefFor (some dd) none a.name.value = some ad →
          inputKind s.plus ad.type.namedName = true := fun a _ ad had =>
        schemaOk_dirArgs s h _ dd hdd ad (List.mem_of_find?_eq_some had)
      exact (badArgValues_mem s _ _ dir.args hok hS _).2 ⟨a, ha, ad, hl, hnc, rfl⟩

/-- C02 for ArgumentsOfCorrectType: the rule reports nothing iff every declared argument's literal is coercible to
its type by the specification's input coercion -/
theorem argumentsOfCorrectType_iff (s : Schema) (d : Document) (h : schemaInputsOkB s = true) :
    argumentsOfCorrectType_S s d = [] ↔ ArgumentsCoercible s d := by
  rw [List.eq_nil_iff_forall_not_mem]
  simp only [argumentsOfCorrectType_mem s d h]
  constructor
  · intro hno
    refine ⟨?_, ?_⟩
    · intro c nm args sel lc fd hit hfd a ha ad hl
      apply Classical.byContradiction
      intro hnc
      exact hno _ (Or.inl ⟨c, nm, args, sel, lc, fd, a, ad, hit, hfd, ha, hl, hnc, rfl⟩)
    · intro site c dir dd hit hdd a ha ad hl
      apply Classical.byContradiction
      intro hnc
      exact hno _ (Or.inr ⟨site, c, dir, dd, a, ad, hit, hdd, ha, hl, hnc, rfl⟩)
  · rintro ⟨hf, hd⟩ e (⟨c, nm, args, sel, lc, fd, a, ad, hit, hfd, ha, hl, hnc, _⟩ | ⟨site, c, dir, dd, a, ad, hit, hdd, ha, hl, hnc, _⟩)
    · exact hnc (hf c nm args sel lc fd hit hfd a ha ad hl)
    · exact hnc (hd site c dir dd hit hdd a ha ad hl)

/-! ## VariablesAreInputTypes -/

/-- the spec's `IsInputType(type)`: strip list and non-null wrappers; the named type is a scalar, enum or input
object of the schema -/
inductive IsInputType (s : Schema) : GType → Prop
  | named (n : String) : s.inputT n = true → IsInputType s (.named n)
  | list {t : GType} : IsInputType s t → IsInputType s (.list t)
  | nonNull {t : GType} : IsInputType s t → IsInputType s (.nonNull t)

theorem isInputType_iff (s : Schema) (t : GType) : IsInputType s t ↔ s.inputT t.namedName = true := by
  induction t with
  | named n => exact ⟨fun h => by cases h; assumption, fun h => .named n h⟩
  | list t ih => exact ⟨fun h => by cases h with | list h => exact ih.1 h, fun h => .list (ih.2 h)⟩
  | nonNull t ih => exact ⟨fun h => by cases h with | nonNull h => exact ih.1 h, fun h => .nonNull (ih.2 h)⟩

theorem toGType_namedName (t : TypeRef) : t.toGType.namedName = t.namedName := by
  induction t with
  | named n l => rfl
  | list t l ih => simpa [TypeRef.toGType, GType.namedName, TypeRef.namedName] using ih
  | nonNull t l ih => simpa [TypeRef.toGType, GType.namedName, TypeRef.namedName] using ih

/-- spec ("Variables are input types"): the declared type of every variable, when the schema defines its named
type, is an input type -/
def VariablesAreInput (s : Schema) (d : Document) : Prop :=
  ∀ v, Item.varDef v ∈ items s d → ∀ tr, v.type = some tr → s.known tr.namedName = true → IsInputType s tr.toGType

theorem variablesAreInputTypes_mem (s : Schema) (d : Document) (e : VErr) :
    e ∈ variablesAreInputTypes_S s d ↔
      ∃ v tr, Item.varDef v ∈ items s d ∧ v.type = some tr ∧ s.known tr.namedName = true ∧
        ¬ IsInputType s tr.toGType ∧ e = ⟨"VariablesAreInputTypes", [tr.loc]⟩ := by
  unfold variablesAreInputTypes_S
  simp only [List.mem_filterMap]
  constructor
  · rintro ⟨it, hit, he⟩
    cases it with
    | varDef v =>
      cases ht : v.type with
      | none => simp [ht] at he
      | some tr =>
        simp only [ht] at he
        by_cases hk : s.known tr.namedName = true <;> by_cases hi : s.inputT tr.namedName = true <;> simp [hk, hi] at he
        refine ⟨v, tr, hit, ht, hk, ?_, he.symm⟩
        rw [isInputType_iff, toGType_namedName]; exact hi
    | _ => simp at he
  · rintro ⟨v, tr, hit, ht, hk, hni, rfl⟩
    refine ⟨_, hit, ?_⟩
    have hi : s.inputT tr.namedName = false := by
      cases h : s.inputT tr.namedName with
      | false => rfl
      | true => exact absurd ((isInputType_iff s _).2 (by rw [toGType_namedName]; exact h)) hni
    simp [ht, hk, hi]

/-- C02 for VariablesAreInputTypes -/
theorem variablesAreInputTypes_iff (s : Schema) (d : Document) :
    variablesAreInputTypes_S s d = [] ↔ VariablesAreInput s d := by
  rw [List.eq_nil_iff_forall_not_mem]
  simp only [variablesAreInputTypes_mem]
  constructor
  · intro hno v hit tr ht hk
    apply Classical.byContradiction
    intro hni
    exact hno _ ⟨v, tr, hit, ht, hk, hni, rfl⟩
  · rintro h e ⟨v, tr, hit, ht, hk, hni, _⟩
    exact hni (h v hit tr ht hk)

/-! ## DefaultValuesOfCorrectType -/

/-- spec (edition without `null`): a variable with a default value has a nullable type, and the default is
coercible to that type -/
def DefaultsCoercible (s : Schema) (d : Document) : Prop :=
  ∀ v, Item.varDef v ∈ items s d → ∀ dv, v.default = some dv → ∀ tr, v.type = some tr →
    tr.toGType.isNonNull = false ∧ LiteralCoercible s.plus tr.toGType dv

theorem astType_known (s : Schema) (t : GType) (h : s.known t.namedName = true) : astType s t = t := by
  induction t with
  | named n =>
    simp only [GType.namedName] at h
    simp [astType, h]
  | list t ih => simp only [astType]; rw [ih (by simpa [GType.namedName] using h)]
  | nonNull t ih => simp only [astType]; rw [ih (by simpa [GType.namedName] using h)]

theorem typeFromRef_known (s : Schema) (tr : TypeRef) (h : s.known tr.namedName = true) :
    typeFromRef s (some tr) = some tr.toGType := by
  cases tr with
  | named n l => simp [typeFromRef, TypeRef.toGType, TypeRef.namedName] at h ⊢; exact h
  | list t l => rfl
  | nonNull t l => rfl

/-- the declared types of the variables are known input types (what KnownTypeNames and VariablesAreInputTypes
establish) -/
def VarTypesOK (s : Schema) (d : Document) : Prop :=
  ∀ v, Item.varDef v ∈ items s d → ∀ tr, v.type = some tr → s.known tr.namedName = true ∧ s.inputT tr.namedName = true

theorem varTypesOK_of_rules (s : Schema) (d : Document) (hk : knownTypeNames_S s d = [])
    (hi : variablesAreInputTypes_S s d = []) : VarTypesOK s d := by
  intro v hit tr ht
  have hknown : s.known tr.namedName = true := by
    unfold knownTypeNames_S at hk
    rw [List.filterMap_eq_nil_iff] at hk
    have hm : (tr.namedName, TypeRef.leafLoc tr) ∈ namedTypeNodes s d := by
      unfold namedTypeNodes
      exact List.mem_filterMap.2 ⟨_, hit, by simp [ht]⟩
    have := hk _ hm
    by_cases h : s.known tr.namedName = true
    · exact h
    · simp [h] at this
  refine ⟨hknown, ?_⟩
  have := (variablesAreInputTypes_iff s d).1 hi v hit tr ht hknown
  rw [isInputType_iff, toGType_namedName] at this
  exact this

theorem defaultValuesOfCorrectType_mem (s : Schema) (d : Document) (h : schemaInputsOkB s = true)
    (hv : VarTypesOK s d) (e : VErr) :
    e ∈ defaultValuesOfCorrectType_S s d ↔
      ∃ v dv tr, Item.varDef v ∈ items s d ∧ v.default = some dv ∧ v.type = some tr ∧
        (tr.toGType.isNonNull = true ∨ ¬ LiteralCoercible s.plus tr.toGType dv) ∧
        e = ⟨"DefaultValuesOfCorrectType", [dv.loc]⟩ := by
  have hS := schemaOk_closed s h
  unfold defaultValuesOfCorrectType_S
  simp only [List.mem_flatMap]
  -- the shape of the rule for a variable definition with known input type
  have key : ∀ v dv tr, Item.varDef v ∈ items s d → v.type = some tr →
      (e ∈ ((match (typeFromRef s v.type).map (astType s) with
              | some (.nonNull _) => [(⟨"DefaultValuesOfCorrectType", [dv.loc]⟩ : VErr)] | _ => [])
            ++ (if validLiteral s ((typeFromRef s v.type).map (astType s)) (some dv) then []
                else [⟨"DefaultValuesOfCorrectType", [dv.loc]⟩]))
        ↔ (tr.toGType.isNonNull = true ∨ ¬ LiteralCoercible s.plus tr.toGType dv) ∧
            e = ⟨"DefaultValuesOfCorrectType", [dv.loc]⟩) := by
    intro v dv tr hit ht
    obtain ⟨hk, hi⟩ := hv v hit tr ht
    have hkind : inputKind s.plus tr.toGType.namedName = true := by
      rw [toGType_namedName]; exact inputT_inputKind s _ hi
    have ht' : (typeFromRef s v.type).map (astType s) = some tr.toGType := by
      rw [ht, typeFromRef_known s tr hk]
      simp [astType_known s tr.toGType (by rw [toGType_namedName]; exact hk)]
    rw [ht', validLiteral_eq s _ _ hkind]
    have hco := isValid_iff_coercible s.plus hS tr.toGType hkind dv
    cases hnn : tr.toGType with
    | nonNull t =>
      simp only [GType.isNonNull, List.cons_append, List.nil_append, List.mem_cons, true_or, true_and]
      constructor
      · rintro (h1 | h1)
        · exact h1
        · split at h1
          · simp at h1
          · simpa using h1
      · intro h1; exact Or.inl h1
    | named n =>
      rw [hnn] at hco
      simp only [GType.isNonNull, List.nil_append, Bool.false_eq_true, false_or]
      by_cases hvl : isValidLiteralValue s.plus (.named n) (some dv) = true
      · simp [hvl, hco.1 hvl]
      · have : ¬ LiteralCoercible s.plus (.named n) dv := fun hc => hvl (hco.2 hc)
        simp [hvl, this]
    | list t =>
      rw [hnn] at hco
      simp only [GType.isNonNull, List.nil_append, Bool.false_eq_true, false_or]
      by_cases hvl : isValidLiteralValue s.plus (.list t) (some dv) = true
      · simp [hvl, hco.1 hvl]
      · have : ¬ LiteralCoercible s.plus (.list t) dv := fun hc => hvl (hco.2 hc)
        simp [hvl, this]
  constructor
  · rintro ⟨it, hit, he⟩
    cases it with
    | varDef v =>
      simp only at he
      cases hd : v.default with
      | none => simp [hd] at he
      | some dv =>
        simp only [hd] at he
        cases ht : v.type with
        | none => simp [ht, typeFromRef, validLiteral] at he
        | some tr =>
          obtain ⟨h1, h2⟩ := (key v dv tr hit ht).1 he
          exact ⟨v, dv, tr, hit, hd, ht, h1, h2⟩
    | _ => simp at he
  · rintro ⟨v, dv, tr, hit, hd, ht, h1, h2⟩
    refine ⟨_, hit, ?_⟩
    simp only [hd]
    exact (key v dv tr hit ht).2 ⟨h1, h2⟩

/-- C02 for DefaultValuesOfCorrectType, for documents whose variable types are known input types (the two rules
that say so are part of the conjunction of `all_rules_iff`) -/
theorem defaultValuesOfCorrectType_iff (s : Schema) (d : Document) (h : schemaInputsOkB s = true)
    (hv : VarTypesOK s d) : defaultValuesOfCorrectType_S s d = [] ↔ DefaultsCoercible s d := by
  rw [List.eq_nil_iff_forall_not_mem]
  simp only [defaultValuesOfCorrectType_mem s d h hv]
  constructor
  · intro hno v hit dv hd tr ht
    refine ⟨?_, ?_⟩
    · cases hnn : tr.toGType.isNonNull with
      | false => rfl
      | true => exact absurd ⟨v, dv, tr, hit, hd, ht, Or.inl hnn, rfl⟩ (hno _)
    · apply Classical.byContradiction
      intro hnc
      exact hno _ ⟨v, dv, tr, hit, hd, ht, Or.inr hnc, rfl⟩
  · rintro hall e ⟨v, dv, tr, hit, hd, ht, h1 | h1, _⟩
    · have := (hall v hit dv hd tr ht).1; rw [this] at h1; cases h1
    · exact h1 (hall v hit dv hd tr ht).2

/-! ## FragmentsOnCompositeTypes -/

/-- the type conditions written in the document: of fragment definitions and of inline fragments -/
def typeConditions (s : Schema) (d : Document) : List TypeRef :=
  (items s d).filterMap (fun
    | .inline _ (some tc) _ => some tc
    | .frag _ _ tc _ => some tc
    | _ => none)

/-- spec ("Fragments on composite types"): a type condition whose type the schema defines names an object,
interface or union type -/
def FragmentsOnComposite (s : Schema) (d : Document) : Prop :=
  ∀ tc ∈ typeConditions s d, s.known tc.namedName = true → s.compositeT tc.namedName = true

theorem fragmentsOnCompositeTypes_mem (s : Schema) (d : Document) (e : VErr) :
    e ∈ fragmentsOnCompositeTypes_S s d ↔
      ∃ tc ∈ typeConditions s d, s.known tc.namedName = true ∧ s.compositeT tc.namedName = false ∧
        e = ⟨"FragmentsOnCompositeTypes", [tc.loc]⟩ := by
  unfold fragmentsOnCompositeTypes_S typeConditions
  simp only [List.mem_filterMap]
  constructor
  · rintro ⟨it, hit, he⟩
    cases it with
    | inline c tc lc =>
      cases tc with
      | none => simp at he
      | some tc =>
        simp only at he
        by_cases hk : s.known tc.namedName = true <;> by_cases hc : s.compositeT tc.namedName = true <;> simp [hk, hc] at he
        exact ⟨tc, ⟨_, hit, rfl⟩, hk, by simpa using hc, he.symm⟩
    | frag c nm tc lc =>
      simp only at he
      by_cases hk : s.known tc.namedName = true <;> by_cases hc : s.compositeT tc.namedName = true <;> simp [hk, hc] at he
      exact ⟨tc, ⟨_, hit, rfl⟩, hk, by simpa using hc, he.symm⟩
    | _ => simp at he
  · rintro ⟨tc, ⟨it, hit, htc⟩, hk, hc, rfl⟩
    refine ⟨it, hit, ?_⟩
    cases it with
    | inline c tc' lc =>
      cases tc' with
      | none => simp at htc
      | some tc' => simp only [Option.some.injEq] at htc; subst htc; simp [hk, hc]
    | frag c nm tc' lc => simp only [Option.some.injEq] at htc; subst htc; simp [hk, hc]
    | _ => simp at htc

/-- C02 for FragmentsOnCompositeTypes -/
theorem fragmentsOnCompositeTypes_iff (s : Schema) (d : Document) :
    fragmentsOnCompositeTypes_S s d = [] ↔ FragmentsOnComposite s d := by
  rw [List.eq_nil_iff_forall_not_mem]
  simp only [fragmentsOnCompositeTypes_mem]
  constructor
  · intro hno tc htc hk
    cases hc : s.compositeT tc.namedName with
    | true => rfl
    | false => exact absurd ⟨tc, htc, hk, hc, rfl⟩ (hno _)
  · rintro h e ⟨tc, htc, hk, hc, _⟩
    rw [h tc htc hk] at hc; cases hc

/-! ## PossibleFragmentSpreads -/

/-- the visitor that reads the fragment type off TypeInfo reports exactly what the reading off the syntax gives:
an inline fragment without type condition has the enclosing selection's own type, which overlaps with itself -/
theorem possibleFragmentSpreads_M_eq_S (s : Schema) (d : Document) :
    possibleFragmentSpreads_M s d = possibleFragmentSpreads_S s d := by
  unfold possibleFragmentSpreads_M possibleFragmentSpreads_S
  apply filterMap_congr'
  intro it hit
  have hok := items_ok s d it hit
  cases it with
  | inline c tc lc =>
    obtain ⟨hpar, hty⟩ := hok
    cases tc with
    | some t =>
      simp only at hty ⊢
      rw [hty]
      unfold TCtx.condType
      cases hp : c.parent with
      | none => by_cases hk : s.known t.namedName = true <;> simp [hk]
      | some p =>
        by_cases hk : s.known t.namedName = true
        · simp [hk, GType.namedName]
        · have hc : s.compositeT t.namedName = false := by
            unfold Schema.known at hk
            unfold Schema.compositeT
            cases hl : s.lookup t.namedName with
            | none => rfl
            | some _ => simp [hl] at hk
          simp [hk, hc]
    | none =>
      simp only at hty ⊢
      cases hp : c.parent with
      | none => cases c.ty <;> rfl
      | some p =>
        obtain ⟨t, ht, hn⟩ := hty p hp
        simp [ht, hn, doTypesOverlap]
  | _ => rfl

/-- spec ("Fragment spread is possible"): where a fragment with a composite type condition is spread into a
selection with a parent type, the possible runtime types of the two intersect -/
def SpreadsPossible (s : Schema) (d : Document) : Prop :=
  (∀ c tc lc p, Item.inline c (some tc) lc ∈ items s d → c.parent = some p → s.compositeT tc.namedName = true →
      ∃ o, o ∈ runtimeTypes s tc.namedName ∧ o ∈ runtimeTypes s p) ∧
  (∀ c nm lc p ft, Item.spread c nm lc ∈ items s d → c.parent = some p → fragmentType s d nm.value = some ft →
      s.compositeT ft = true → ∃ o, o ∈ runtimeTypes s ft ∧ o ∈ runtimeTypes s p)

theorem possibleFragmentSpreads_mem (s : Schema) (d : Document) (hinh : AbstractInhabited s) (e : VErr) :
    e ∈ possibleFragmentSpreads_M s d ↔
      (∃ c tc lc p, Item.inline c (some tc) lc ∈ items s d ∧ c.parent = some p ∧ s.compositeT tc.namedName = true ∧
          (¬ ∃ o, o ∈ runtimeTypes s tc.namedName ∧ o ∈ runtimeTypes s p) ∧ e = ⟨"PossibleFragmentSpreads", [lc]⟩) ∨
      (∃ c nm lc p ft, Item.spread c nm lc ∈ items s d ∧ c.parent = some p ∧ fragmentType s d nm.value = some ft ∧
          s.compositeT ft = true ∧ (¬ ∃ o, o ∈ runtimeTypes s ft ∧ o ∈ runtimeTypes s p) ∧
          e = ⟨"PossibleFragmentSpreads", [lc]⟩) := by
  rw [possibleFragmentSpreads_M_eq_S]
  unfold possibleFragmentSpreads_S
  simp only [List.mem_filterMap]
  constructor
  · rintro ⟨it, hit, he⟩
    have hok := items_ok s d it hit
    cases it with
    | inline c tc lc =>
      cases tc with
      | none => simp at he
      | some tc =>
        simp only at he
        cases hp : c.parent with
        | none => simp [hp] at he
        | some p =>
          simp only [hp] at he
          have hpc := hok.1 p hp
          by_cases hc : s.compositeT tc.namedName = true
          · by_cases ho : doTypesOverlap s tc.namedName p = true
            · simp [hc, ho] at he
            · simp only [hc, ho, Bool.not_false, Bool.and_self, if_true, Option.some.injEq] at he
              exact Or.inl ⟨c, tc, lc, p, hit, hp, hc, fun h => ho ((doTypesOverlap_iff s hinh _ _ hc hpc).2 h), he.symm⟩
          · simp [hc] at he
    | spread c nm lc =>
      simp only at he
      cases hf : fragmentType s d nm.value with
      | none => simp [hf] at he
      | some ft =>
        cases hp : c.parent with
        | none => simp [hf, hp] at he
        | some p =>
          simp only [hf, hp] at he
          have hpc := hok p hp
          by_cases hc : s.compositeT ft = true
          · by_cases ho : doTypesOverlap s ft p = true
            · simp [hc, ho] at he
            · simp only [hc, ho, Bool.not_false, Bool.and_self, if_true, Option.some.injEq] at he
              exact Or.inr ⟨c, nm, lc, p, ft, hit, hp, hf, hc, fun h => ho ((doTypesOverlap_iff s hinh _ _ hc hpc).2 h), he.symm⟩
          · simp [hc] at he
    | _ => simp at he
  · rintro (⟨c, tc, lc, p, hit, hp, hc, hno, rfl⟩ | ⟨c, nm, lc, p, ft, hit, hp, hf, hc, hno, rfl⟩)
    · refine ⟨_, hit, ?_⟩
      have hpc := (items_ok s d _ hit).1 p hp
      have ho : doTypesOverlap s tc.namedName p = false := by
        cases h : doTypesOverlap s tc.namedName p with
        | false => rfl
        | true => exact absurd ((doTypesOverlap_iff s hinh _ _ hc hpc).1 h) hno
      simp [hp, hc, ho]
    · refine ⟨_, hit, ?_⟩
      have hpc := (items_ok s d _ hit) p hp
      have ho : doTypesOverlap s ft p = false := by
        cases h : doTypesOverlap s ft p with
        | false => rfl
        | true => exact absurd ((doTypesOverlap_iff s hinh _ _ hc hpc).1 h) hno
      simp [hp, hf, hc, ho]

/-- C02 for PossibleFragmentSpreads: the rule (as coded, reading TypeInfo) reports nothing iff every spread of a
fragment on a composite type is possible -/
theorem possibleFragmentSpreads_iff (s : Schema) (d : Document) (hinh : AbstractInhabited s) :
    possibleFragmentSpreads_M s d = [] ↔ SpreadsPossible s d := by
  rw [List.eq_nil_iff_forall_not_mem]
  simp only [possibleFragmentSpreads_mem s d hinh]
  constructor
  · intro hno
    refine ⟨?_, ?_⟩
    · intro c tc lc p hit hp hc
      apply Classical.byContradiction
      intro h
      exact hno _ (Or.inl ⟨c, tc, lc, p, hit, hp, hc, h, rfl⟩)
    · intro c nm lc p ft hit hp hf hc
      apply Classical.byContradiction
      intro h
      exact hno _ (Or.inr ⟨c, nm, lc, p, ft, hit, hp, hf, hc, h, rfl⟩)
  · rintro ⟨hi, hs⟩ e (⟨c, tc, lc, p, hit, hp, hc, hno, _⟩ | ⟨c, nm, lc, p, ft, hit, hp, hf, hc, hno, _⟩)
    · exact hno (hi c tc lc p hit hp hc)
    · exact hno (hs c nm lc p ft hit hp hf hc)

end GqlModel.Validate
