import Props.C14
import Props.C14TypeInfo
import GqlProofs.TypeInfoBridge
/-! # C14 bridge: the TypeInfo theorems as ONE statement about the small-step machine of `visitor.Visit`

`Props/C14.machine_eq_reference`: the loop of `visitor.Visit` (machine `step`/`runN` over abstract trees `Visitor.Node`)
computes, for every stateful visitor, what the recursive reference walk computes.
`Props/C14TypeInfo.typeinfo_independent_of_handler_set`: the structural walk with `VisitWithTypeInfo` over the typed
document shows every callback of the wrapped visitor the top-down type context and leaves the TypeInfo stacks empty.

Here they are composed. `K = Generated.queryDocumentKeys` is the child-key table REGENERATED from /repo on every run;
`toNode K d` is the abstract tree of the typed document `d` — every node of an executable document (Name, Named, List,
NonNull included), ids in preorder, the slots of every node in the order the table lists for its kind (`slotsBy`);
`docLab K d` resolves an id to the node (kind, location, the fields TypeInfo reads); `withTypeInfo (M s) (docLab K d) o`
is `visitor.VisitWithTypeInfo(NewTypeInfo(schema), opts)` as a visitor of the machine, its state = (TypeInfo stacks and
registers, state of the wrapped visitor). A change of the table in /repo changes `toNode` and breaks `keys_table_ok`
(decide) and with it every theorem below.

Premise: `ArgsUnique s` (as in Props/C14TypeInfo). Not covered: a BREAK answered by the wrapped visitor (`withTypeInfo`
never breaks), ActionUpdate; type-system definitions are childless nodes of `toNode`. -/
namespace GqlModel.TypeInfoStacks
open GqlModel.Validate GqlModel.Visitor
variable {σ : Type}

/-- the regenerated child-key table -/
abbrev K : List (String × List String) := Generated.queryDocumentKeys

/-- table obligation (re-checked against the regenerated table on every run): for every node kind of an executable
document the table lists exactly the keys, in the order, that the typed walk `docTree` follows (`walkChildKeys`) -/
theorem keys_table_ok : KeysOK K := by
  unfold KeysOK
  decide +kernel

/-- forgetting the keys of the table-ordered tree gives exactly the tree the TypeInfo theorems walk: the typed walk and
the abstract tree visit the same nodes in the same order -/
theorem toNode_flat_eq_docTree (d : Document) : (docK K d).flat = docTree d := docK_flat keys_table_ok d

/-- the ids of `toNode K d` are `0, 1, 2, …` in document order — in particular distinct, which is the premise of
`Props/C14.parallel_projection` -/
theorem toNode_ids_preorder (d : Document) : (toNode K d).pre = List.range' 0 (docK K d).labels.length :=
  toNode_pre (docK K d) 0

theorem toNode_ids_distinct (d : Document) : (toNode K d).pre.Nodup := toNode_pre_nodup (docK K d) 0

/-- every node of `toNode K d` is entered once, in document order, and left once (C14's corollary instantiated) -/
theorem toNode_each_node_once (d : Document) :
    enterIds (refEvents allCont (toNode K d)).1 = List.range' 0 (docK K d).labels.length := by
  rw [(each_node_once_in_document_order (toNode K d)).2.1, toNode_ids_preorder]

/-- any tracker (the code as it is, or a variant), any keyed tree: the MACHINE driven by the TypeInfo-wrapping visitor ends
normally with exactly the TypeInfo state and wrapped-visitor state of the structural walk `visitO` -/
theorem machine_withTypeInfo_eq_visitO (T : Tracker) (o : Opts σ) (n : KNode) (ti : TI) (st : σ) :
    ∃ N, ∀ fuel, N ≤ fuel →
      runN (withTypeInfo T (labOf n.labels) o) fuel (init (n.toNode 0)) (ti, st) = (MS.done, visitO T o n.flat ti st) := by
  obtain ⟨N, hN⟩ := machine_eq_reference_fuel (withTypeInfo T (labOf n.labels) o) (n.toNode 0) (ti, st)
  refine ⟨N, fun fuel hf => ?_⟩
  rw [hN fuel hf, walk_withTypeInfo]
  simp

/-- the reference walk of C14 over `toNode K d` with the TypeInfo-wrapping visitor = the typed walk of Props/C14TypeInfo -/
theorem walk_toNode_eq_typed_walk (s : Schema) (o : Opts σ) (d : Document) (st : σ) :
    walk (withTypeInfo (M s) (docLab K d) o) (toNode K d) (TI.empty, st) = (walkMO s o d st, false) := by
  unfold docLab toNode walkMO
  rw [walk_withTypeInfo, toNode_flat_eq_docTree]

/-- THE composed theorem. For every schema (argument names unique per definition), every document, every wrapped
`*VisitorOptions` (any state, any subset of callbacks, skipping whatever it likes, history-dependent): the real loop —
the small-step machine of `visitor.Visit` — run on `toNode K d` with `VisitWithTypeInfo(NewTypeInfo(schema), opts)` ends
normally (never broken, never stuck: for every sufficiently large number of iterations) with all TypeInfo stacks empty
and registers nil, and with the wrapped visitor in exactly the state the TOP-DOWN reference walk `refWalk` leads it to —
every callback that fired was shown, by the six getters, the type context that applies at its node's position. -/
theorem machine_typeinfo_shows_context (s : Schema) (hU : ArgsUnique s) (o : Opts σ) (d : Document) (st : σ) :
    ∃ N, ∀ fuel, N ≤ fuel →
      runN (withTypeInfo (M s) (docLab K d) o) fuel (init (toNode K d)) (TI.empty, st) =
        (MS.done, (TI.empty, refWalk s o.total d st)) := by
  obtain ⟨N, hN⟩ := machine_withTypeInfo_eq_visitO (M s) o (docK K d) TI.empty st
  refine ⟨N, fun fuel hf => ?_⟩
  have := hN fuel hf
  rw [toNode_flat_eq_docTree] at this
  unfold docLab toNode
  rw [this]
  congr 1
  exact typeinfo_independent_of_handler_set s hU o d st

/-- …read off a recording visitor: on an executable document the machine shows an enter-only recorder
(`VisitorOptions{Enter: record}`), at the Document node and at every node S lists, exactly `tiRecords s d` -/
theorem machine_typeinfo_eq_context (s : Schema) (hU : ArgsUnique s) (d : Document) (hE : isExecDoc d = true) :
    ∃ N, ∀ fuel, N ≤ fuel →
      obs (runN (withTypeInfo (M s) (docLab K d) (enterOnly (logger noSkip).enter)) fuel (init (toNode K d)) (TI.empty, [])).2.2 =
        ⟨"Document", d.loc, TIState.empty⟩ :: tiRecords s d := by
  obtain ⟨N, hN⟩ := machine_typeinfo_shows_context s hU (enterOnly (logger noSkip).enter) d []
  refine ⟨N, fun fuel hf => ?_⟩
  rw [hN fuel hf]
  have := typeinfo_eq_context_enter_only_visitor s hU d hE
  rw [typeinfo_independent_of_handler_set s hU] at this
  exact this

/-! ## Non-vacuity: the machine itself, run by `decide` on a concrete document -/

/-- `{ f(a: {x: [1], y: 2}) }` over `exSchemaIn`: the abstract tree has 15 nodes (4 of them Name nodes), the machine ends
`done` with empty stacks within `fuelFor`, and its enter-only recorder saw — Name nodes dropped — the 11 rows of S -/
example : (toNode K exDocListAtNonList).pre = List.range' 0 15 := by decide +kernel

example :
    let r := runN (withTypeInfo (M exSchemaIn) (docLab K exDocListAtNonList) (enterOnly (logger noSkip).enter))
      (fuelFor (toNode K exDocListAtNonList)) (init (toNode K exDocListAtNonList)) (TI.empty, [])
    (match r.1 with | .done => true | _ => false) = true ∧ r.2.1.inputTypeStack.length = 0 ∧ r.2.1.typeStack.length = 0 ∧
    (obs r.2.2).map row =
      ((⟨"Document", exDocListAtNonList.loc, TIState.empty⟩ :: tiRecords exSchemaIn exDocListAtNonList).map row) := by
  decide +kernel

/-- the slots come from the table: the Field node of `{ f(a: …) }` has the five slots of `QueryDocumentKeys["Field"]`,
Alias and SelectionSet absent -/
example : (match toNode K exDocListAtNonList with
    | .mk 0 [.many "Definitions" (.mk 1 [.absent "Name", .absent "VariableDefinitions", .absent "Directives",
        .one "SelectionSet" (.mk 2 [.many "Selections" (.mk 3 (.absent "Alias" :: .one "Name" (.mk 4 []) ::
          .many "Arguments" _ _ :: .absent "Directives" :: .absent "SelectionSet" :: [])) []])]) []] => true
    | _ => false) = true := by decide +kernel

end GqlModel.TypeInfoStacks
