import GqlProofs.ExecCollect3
import GqlProofs.ExecSelectOp
import GqlProofs.ExecFuel
import GqlProofs.ExecExample
/-! # C01 — CollectFields and request-level selection (theorem side)

Property theorems only.  `collect` / `collectMerged` / `selectOperation` / `execute` are the executable
specification in `GqlModel/Exec.lean`; `Occurs` (in `GqlModel/Occurs.lean`) is the independent declarative
reference: an inductive predicate with no visited set and no fuel.  Every statement holds for EVERY context
(schema, fragment definitions — cyclic, undefined, duplicated ones included —, variables), runtime type,
selection list and accumulator; there is no validity premise. -/
namespace GqlModel.Exec

/-! ## 1. `collect` stores exactly the occurring nodes -/

/-- Every node `collect` stores occurs in the selection list (and sits in the group of its own key). -/
theorem collect_sound (c : Ctx) (rt : String) (sels : List Selection) (l : Loc) (f : FieldNode)
    (h : Stored (collect c rt (.mk sels l) ([], [])).1 f) : Occurs c rt sels f :=
  allQ_iff_stored ((collect_reach sels l ([], [])).allQ (fun _ hp => by simp at hp)) h

/-- Every occurring node is stored by `collect` (in the group of its key) — also on cyclic, undefined or duplicated
fragment definitions. (DFS closure argument, `GqlProofs/ExecCollect2.lean`.) -/
theorem collect_complete (c : Ctx) (rt : String) (sels : List Selection) (l : Loc) (f : FieldNode)
    (h : Occurs c rt sels f) : Stored (collect c rt (.mk sels l) ([], [])).1 f := by
  have hg := collect_good (c := c) (rt := rt) sels l ([], []) (unvisited_lt_fragFuel c [])
  exact stored_of_occurs (hg.1.allClosed (fun _ h => by cases h)) h hg.2

/-- `collect` is sound and complete w.r.t. the declarative `Occurs`. -/
theorem stored_iff_occurs (c : Ctx) (rt : String) (sels : List Selection) (l : Loc) (f : FieldNode) :
    Stored (collect c rt (.mk sels l) ([], [])).1 f ↔ Occurs c rt sels f :=
  ⟨collect_sound c rt sels l f, collect_complete c rt sels l f⟩

/-- A response key is present iff some occurrence with that key is included (directives evaluated at that
occurrence and along its path; type conditions against `rt`). -/
theorem key_present_iff_some_occurrence_included (c : Ctx) (rt : String) (sels : List Selection) (l : Loc) (k : String) :
    k ∈ ((collect c rt (.mk sels l) ([], [])).1).map (·.1) ↔ ∃ f, Occurs c rt sels f ∧ f.key = k := by
  have hr := collect_reach (c := c) (rt := rt) sels l ([], [])
  have hwf := hr.wf groupsWF_nil
  have hq := hr.allQ (fun _ hp => by simp at hp)
  constructor
  · intro hk
    obtain ⟨p, hp, rfl⟩ := List.mem_map.1 hk
    obtain ⟨f, hf⟩ := List.exists_mem_of_ne_nil _ (hwf.2 p hp)
    exact ⟨f, (hq p hp f hf).2, (hq p hp f hf).1.symm⟩
  · rintro ⟨f, ho, rfl⟩
    obtain ⟨p, hp, hk, _⟩ := collect_complete c rt sels l f ho
    exact List.mem_map.2 ⟨p, hp, hk⟩

/-! ## 2. fuel: termination on cyclic fragments -/

/-- The collection does not depend on the fuel once it exceeds the number of not-yet-visited fragment
definitions; `collect`'s own `fragFuel` always does (for EVERY visited set, so also inside `collectMerged`). -/
theorem collect_fuel_sufficient (c : Ctx) (rt : String) (fuel : Nat) (sel : SelectionSet) (acc : Groups × List String)
    (h : unvisited c acc.2 < fuel) :
    collectSet c rt (expandSpread c rt fuel) sel acc = collect c rt sel acc :=
  collectSet_fuel_irrelevant fuel c.fragFuel sel acc h (unvisited_lt_fragFuel c acc.2)

/-- …in particular for every `fuel ≥ c.fragFuel`, whatever the accumulator. -/
theorem collect_fuel_sufficient' (c : Ctx) (rt : String) (fuel : Nat) (sel : SelectionSet) (acc : Groups × List String)
    (h : c.fragFuel ≤ fuel) :
    collectSet c rt (expandSpread c rt fuel) sel acc = collect c rt sel acc :=
  collect_fuel_sufficient c rt fuel sel acc (Nat.lt_of_lt_of_le (unvisited_lt_fragFuel c acc.2) h)

/-! ## 3. groups: distinct keys, non-empty, order of first insertion -/

/-- `Groups.add` appends a new key at the END and never reorders or removes keys. -/
theorem groups_add_keys (g : Groups) (f : FieldNode) :
    (g.add f).map (·.1) = if f.key ∈ g.map (·.1) then g.map (·.1) else g.map (·.1) ++ [f.key] :=
  keys_add g f

/-- The collected groups have pairwise distinct keys; no group is empty; every node of a group has the group's
key (and occurs in the selection list). -/
theorem groups_in_first_occurrence_order (c : Ctx) (rt : String) (sels : List Selection) (l : Loc) :
    let g := (collect c rt (.mk sels l) ([], [])).1
    (g.map (·.1)).Nodup ∧ ∀ p ∈ g, p.2 ≠ [] ∧ ∀ f ∈ p.2, f.key = p.1 ∧ Occurs c rt sels f := by
  have hr := collect_reach (c := c) (rt := rt) sels l ([], [])
  have hwf := hr.wf groupsWF_nil
  have hq := hr.allQ (fun _ hp => by simp at hp)
  exact ⟨hwf.1, fun p hp => ⟨hwf.2 p hp, fun f hf => ⟨(hq p hp f hf).1.symm, (hq p hp f hf).2⟩⟩⟩

/-- Order of first insertion: processing more selections only APPENDS keys — the key list after the first
selection `s` is a prefix of the key list after `s :: rest` (for any accumulator and any fuel). -/
theorem collect_keys_first_insertion_order (c : Ctx) (rt : String) (fuel : Nat) (s : Selection)
    (rest : List Selection) (acc : Groups × List String) :
    acc.1.map (·.1) <+: (collectSel c rt (expandSpread c rt fuel) s acc).1.map (·.1) ∧
    (collectSel c rt (expandSpread c rt fuel) s acc).1.map (·.1)
      <+: (collectList c rt (expandSpread c rt fuel) (s :: rest) acc).1.map (·.1) := by
  constructor
  · exact (collectSel_reach (Q := fun _ => True) (expandSpread_reach _ fuel) s acc (fun _ _ => trivial)).keys_prefix
  · simp only [collectList]
    exact (collectList_reach (Q := fun _ => True) (expandSpread_reach _ fuel) rest _ (fun _ _ => trivial)).keys_prefix

/-- …and for any split `pre ++ post` of a selection list: every key first contributed by `pre` precedes every key
first contributed by `post`. Together with `key_present_iff_some_occurrence_included` (applied to `pre`): the keys
appear in the order of the first top-level selection in which an included occurrence of them is found. -/
theorem collect_keys_prefix_of_prefix (c : Ctx) (rt : String) (fuel : Nat) (pre post : List Selection)
    (acc : Groups × List String) :
    (collectList c rt (expandSpread c rt fuel) pre acc).1.map (·.1)
      <+: (collectList c rt (expandSpread c rt fuel) (pre ++ post) acc).1.map (·.1) := by
  rw [collectList_append]
  exact (collectList_reach (Q := fun _ => True) (expandSpread_reach _ fuel) post _ (fun _ _ => trivial)).keys_prefix

/-! ## 4. a named fragment is entered at most once per selection set -/

/-- (i) A spread of an already visited fragment changes nothing, whatever the fuel.
(ii) Entering a fragment body (the only place where `expandSpread` recurses) happens only for a NOT yet visited
name and marks it first.
(iii) Along any `collectList` the visited list only grows, at the front, and stays duplicate-free: since every
entry pushes the entered name, no fragment body is entered twice. -/
theorem collect_fragment_once (c : Ctx) (rt : String) (fuel : Nat) :
    (∀ n g vis, n ∈ vis → expandSpread c rt fuel n (g, vis) = (g, vis)) ∧
    (∀ n g vis tc sel, n ∉ vis → c.frag? n = some (tc, sel) →
        expandSpread c rt (fuel + 1) n (g, vis) =
          if condApplies c.schema (some tc) rt then collectSet c rt (expandSpread c rt fuel) sel (g, n :: vis)
          else (g, n :: vis)) ∧
    (∀ sels acc, acc.2 <:+ (collectList c rt (expandSpread c rt fuel) sels acc).2 ∧
        (acc.2.Nodup → (collectList c rt (expandSpread c rt fuel) sels acc).2.Nodup)) := by
  refine ⟨fun n g vis h => expandSpread_visited fuel n g vis h, ?_, ?_⟩
  · intro n g vis tc sel hn hf
    have hv : ¬ vis.contains n = true := fun h => hn (List.contains_iff_mem.1 h)
    simp only [expandSpread, hv, hf]
    rfl
  · intro sels acc
    have hr := collectList_reach (Q := fun _ => True) (expandSpread_reach (c := c) (rt := rt) _ fuel) sels acc
      (fun _ _ => trivial)
    exact ⟨hr.vis_suffix, hr.vis_nodup⟩

/-- A spread of a fragment that is visited after the selections before it (at any depth) contributes nothing:
the selection list collects as if that spread were not there. -/
theorem visited_spread_contributes_nothing (c : Ctx) (rt : String) (fuel : Nat) (pre post : List Selection)
    (name : Name) (dirs : List Directive) (l : Loc) (acc : Groups × List String)
    (h : name.value ∈ (collectList c rt (expandSpread c rt fuel) pre acc).2) :
    collectList c rt (expandSpread c rt fuel) (pre ++ .spread name dirs l :: post) acc
      = collectList c rt (expandSpread c rt fuel) (pre ++ post) acc := by
  rw [collectList_append, collectList_append]
  simp only [collectList]
  congr 1
  rcases hp : collectList c rt (expandSpread c rt fuel) pre acc with ⟨g, vis⟩
  rw [hp] at h
  simp only [collectSel, expandSpread_visited fuel name.value g vis h]
  split <;> rfl

/-- A second (included) top-level spread of the same fragment name in the same selection list contributes nothing
(given fuel within budget, e.g. `c.fragFuel`). -/
theorem second_spread_contributes_nothing (c : Ctx) (rt : String) (fuel : Nat) (pre1 pre2 post : List Selection)
    (name name' : Name) (dirs dirs' : List Directive) (l l' : Loc) (acc : Groups × List String)
    (hfuel : unvisited c acc.2 < fuel) (hname : name'.value = name.value)
    (hinc : included c.schema c.vars dirs' = true) :
    collectList c rt (expandSpread c rt fuel) ((pre1 ++ .spread name' dirs' l' :: pre2) ++ .spread name dirs l :: post) acc
      = collectList c rt (expandSpread c rt fuel) ((pre1 ++ .spread name' dirs' l' :: pre2) ++ post) acc := by
  rcases hf : c.frag? name.value with _ | x
  · generalize pre1 ++ Selection.spread name' dirs' l' :: pre2 = pre
    rw [collectList_append, collectList_append]
    simp only [collectList]
    congr 1
    simp only [collectSel, expandSpread_undefined fuel name.value _ hf]
    split <;> rfl
  · apply visited_spread_contributes_nothing
    have hg := collectList_good (c := c) (rt := rt)
      (expandSpread_good fuel (fuel - 1) (by omega)) (pre1 ++ .spread name' dirs' l' :: pre2) acc (by omega)
    refine hg.2.2 name.value ?_ (by simp [hf])
    rw [← hname]
    exact .spread (List.mem_append_right _ List.mem_cons_self) hinc

/-! ## 5. the merged sub-selection of a field -/

/-- `collectMerged` (all occurrences of a field, ONE shared visited set) stores exactly the nodes occurring in the
sub-selection of some occurrence: sharing the visited set across occurrences loses nothing. -/
theorem merged_subselection_is_union_of_occurrences (c : Ctx) (rt : String) (nodes : List FieldNode) (f : FieldNode) :
    Stored (collectMerged c rt nodes) f ↔
      ∃ n ∈ nodes, ∃ sels l, n.sel = some (.mk sels l) ∧ Occurs c rt sels f := by
  rw [collectMerged_eq]
  constructor
  · intro h
    exact allQ_iff_stored ((mergeFold_reach (c := c) (rt := rt) nodes nodes (fun _ h => h) ([], [])).allQ
      (fun _ hp => by simp at hp)) h
  · rintro ⟨n, hn, sels, l, hs, ho⟩
    have hg := mergeFold_good (c := c) (rt := rt) nodes ([], [])
    exact stored_of_occurs (hg.1.allClosed (fun _ h => by cases h)) ho (hg.2 n hn sels l hs)

/-- The merged groups are well formed too: distinct keys, no empty group, every node under its own key. -/
theorem merged_groups_well_formed (c : Ctx) (rt : String) (nodes : List FieldNode) :
    ((collectMerged c rt nodes).map (·.1)).Nodup ∧
    ∀ p ∈ collectMerged c rt nodes, p.2 ≠ [] ∧ ∀ f ∈ p.2, f.key = p.1 := by
  rw [collectMerged_eq]
  have hr := mergeFold_reach (c := c) (rt := rt) nodes nodes (fun _ h => h) ([], [])
  have hwf := hr.wf groupsWF_nil
  have hq := hr.allQ (fun _ hp => by simp at hp)
  exact ⟨hwf.1, fun p hp => ⟨hwf.2 p hp, fun f hf => (hq p hp f hf).1.symm⟩⟩

/-! ## 6. operation selection -/

/-- A selected operation is an operation definition of the document; without a name it is the ONLY operation,
with a name it is the LAST operation of that name; and the document has no non-executable definition. -/
theorem operation_selected_by_name {doc : Document} {opName : String} {d : Definition}
    (h : selectOperation doc opName = .ok d) :
    d ∈ doc.defs ∧ isOperation d = true ∧ doc.defs.all isExecutable = true ∧
    (opName = "" → doc.defs.filter isOperation = [d]) ∧
    (opName ≠ "" → opName? d = some opName ∧ (doc.defs.filter (isOperationNamed opName)).getLast? = some d) := by
  by_cases hn : opName = ""
  · subst hn
    rw [selectOperation_unnamed] at h
    split at h
    · cases h
    · rename_i h2
      split at h
      · rename_i ha
        rw [takeWhile_of_all _ _ ha] at h h2
        split at h
        · rename_i d' hd
          cases h
          have hl : doc.defs.filter isOperation = [d] := by
            rcases hf : doc.defs.filter isOperation with _ | ⟨x, _ | ⟨y, r⟩⟩
            · rw [hf] at hd; cases hd
            · rw [hf] at hd; simp at hd; rw [hd]
            · rw [hf] at h2; simp at h2
          have hm : d ∈ doc.defs.filter isOperation := by rw [hl]; simp
          rw [List.mem_filter] at hm
          exact ⟨hm.1, hm.2, ha, fun _ => hl, fun hne => absurd rfl hne⟩
        · cases h
      · cases h
  · rw [selectOperation_named doc hn] at h
    split at h
    · rename_i ha
      split at h
      · rename_i d' hd
        cases h
        have hm := List.mem_of_getLast? hd
        rw [List.mem_filter] at hm
        have hk : isOperation d = true ∧ opName? d = some opName := by
          simpa [isOperationNamed] using hm.2
        exact ⟨hm.1, hk.1, ha, fun he => absurd he hn, fun _ => ⟨hk.2, hd⟩⟩
      · cases h
    · cases h

/-- The four selection errors, each with what it implies about the document. -/
theorem operation_selection_errors {doc : Document} {opName : String} {e : OpError}
    (h : selectOperation doc opName = .error e) :
    (e = .notExecutable → doc.defs.all isExecutable = false) ∧
    (e = .noOperation → opName = "" ∧ doc.defs.filter isOperation = []) ∧
    (e = .unknownOperation → opName ≠ "" ∧ doc.defs.filter (isOperationNamed opName) = []) ∧
    (e = .mustProvideName → opName = "" ∧ 2 ≤ ((doc.defs.takeWhile isExecutable).filter isOperation).length) ∧
    e ≠ .noRootType := by
  by_cases hn : opName = ""
  · subst hn
    rw [selectOperation_unnamed] at h
    split at h
    · rename_i h2
      cases h; simp [h2]
    · split at h
      · rename_i ha
        split at h
        · cases h
        · rename_i hd
          cases h
          rw [takeWhile_of_all _ _ ha, List.head?_eq_none_iff] at hd
          simp [hd]
      · rename_i ha
        cases h; simpa using ha
  · rw [selectOperation_named doc hn] at h
    split at h
    · split at h
      · cases h
      · rename_i hd
        cases h
        rw [List.getLast?_eq_none_iff] at hd
        simp [hd, hn]
    · rename_i ha
      cases h; simpa using ha

/-! ## 7. request errors: no resolver runs -/

/-- A request error carries no data and no resolver log: the response is `.requestError _`, never `.result …`. -/
theorem variable_error_no_resolver (s : Schema) (doc : Document) (opName : String) (inputs : Coerce.Vars) (w : World)
    (fuel : Nat) {op : OpType} {name : Option Name} {varDefs : List VarDef} {dirs : List Directive}
    {sel : SelectionSet} {loc : Loc} {root e : String}
    (hop : selectOperation doc opName = .ok (.operation op name varDefs dirs sel loc))
    (hroot : s.rootFor op.toString = some root)
    (hv : Coerce.getVariableValues s varDefs inputs = .error e) :
    execute s doc opName inputs w fuel = .requestError ("variables: " ++ e) := by
  simp only [execute, hop, hroot, hv]

/-- An operation-selection error is the response; nothing is executed. -/
theorem selection_error_no_resolver (s : Schema) (doc : Document) (opName : String) (inputs : Coerce.Vars) (w : World)
    (fuel : Nat) {e : OpError} (hop : selectOperation doc opName = .error e) :
    execute s doc opName inputs w fuel = .requestError (reprStr e) := by
  simp only [execute, hop]

/-- A missing root type (mutation / subscription not configured) is a request error; nothing is executed. -/
theorem missing_root_no_resolver (s : Schema) (doc : Document) (opName : String) (inputs : Coerce.Vars) (w : World)
    (fuel : Nat) {op : OpType} {name : Option Name} {varDefs : List VarDef} {dirs : List Directive}
    {sel : SelectionSet} {loc : Loc}
    (hop : selectOperation doc opName = .ok (.operation op name varDefs dirs sel loc))
    (hroot : s.rootFor op.toString = none) :
    execute s doc opName inputs w fuel = .requestError "noRootType" := by
  simp only [execute, hop, hroot]

/-- Conversely: whenever execution produced a result (data / errors / a resolver log), an operation was selected,
its root type exists and its variables coerced without error. -/
theorem result_implies_variables_ok (s : Schema) (doc : Document) (opName : String) (inputs : Coerce.Vars) (w : World)
    (fuel : Nat) {data errs log kf}
    (h : execute s doc opName inputs w fuel = .result data errs log kf) :
    ∃ op name varDefs dirs sel loc root vars,
      selectOperation doc opName = .ok (.operation op name varDefs dirs sel loc) ∧
      s.rootFor op.toString = some root ∧ Coerce.getVariableValues s varDefs inputs = .ok vars := by
  unfold execute at h
  split at h
  · cases h
  · rename_i op name varDefs dirs sel loc hop
    split at h
    · cases h
    · rename_i root hroot
      split at h
      · cases h
      · rename_i vars hv
        exact ⟨op, name, varDefs, dirs, sel, loc, root, vars, hop, hroot, hv⟩
  · cases h

/-! ## Non-vacuity: a concrete context with CYCLIC fragments (A ↔ B), an inapplicable one (C), an undefined one,
a skipped field, an alias merged into an existing key, a repeated spread -/

def exL : Loc := Loc.none
def exN (s : String) : Name := ⟨s, exL⟩
def exFld (s : String) : Selection := .field none (exN s) [] [] none exL
def exSchema : Schema :=
  { types := [.object "Q" [] [] false "", .scalar "Boolean" .boolean "", .scalar "Int" .int ""],
    query := "Q", mutation := none, subscription := none, directives := [] }
def exFrags : List (String × Definition) :=
  [("A", .fragment (exN "A") (.named "Q" exL) [] (.mk [exFld "a", .spread (exN "B") [] exL] exL) exL),
   ("B", .fragment (exN "B") (.named "Q" exL) [] (.mk [exFld "b", .spread (exN "A") [] exL] exL) exL),
   ("C", .fragment (exN "C") (.named "Other" exL) [] (.mk [exFld "c"] exL) exL)]
def exCtx : Ctx := { schema := exSchema, frags := exFrags, vars := [], world := default }
def exSkip : Directive := ⟨exN "skip", [⟨exN "if", .bool true exL, exL⟩], exL⟩
def exSels : List Selection :=
  [exFld "x", .spread (exN "A") [] exL, .field none (exN "s") [] [exSkip] none exL,
   .inline none [] (.mk [.field (some (exN "x")) (exN "y") [] [] none exL] exL) exL,
   .spread (exN "A") [] exL, .spread (exN "C") [] exL, .spread (exN "Undefined") [] exL]

/-- keys in order of first occurrence; `y` aliased to `x` joins the first group; `s` skipped; `c` not applicable -/
example : ((collect exCtx "Q" (.mk exSels exL) ([], [])).1).map (fun p => (p.1, p.2.map (·.name)))
    = [("x", ["x", "y"]), ("a", ["a"]), ("b", ["b"])] := by decide +kernel
/-- each fragment entered once; the inapplicable one is marked too, the undefined one is not -/
example : (collect exCtx "Q" (.mk exSels exL) ([], [])).2 = ["C", "B", "A"] := by decide +kernel
/-- fuel: 1 is not enough here (B is not expanded), 2 already is (and `fragFuel` = 4) -/
example : ((collectSet exCtx "Q" (expandSpread exCtx "Q" 1) (.mk exSels exL) ([], [])).1).map (·.1) = ["x", "a"] ∧
    ((collectSet exCtx "Q" (expandSpread exCtx "Q" 2) (.mk exSels exL) ([], [])).1).map (·.1) = ["x", "a", "b"] := by
  decide +kernel
/-- `Occurs` is inhabited through two nested spreads of the cycle -/
example : Occurs exCtx "Q" exSels (mkNode none (exN "b") [] none exL) :=
  .spread (name := exN "A") (dirs := []) (l := exL) (tc := .named "Q" exL) (l1 := exL)
    (.tail _ (.head _)) (by decide +kernel) rfl (by decide +kernel)
    (.spread (name := exN "B") (dirs := []) (l := exL) (tc := .named "Q" exL) (l1 := exL)
      (.tail _ (.head _)) (by decide +kernel) rfl (by decide +kernel)
      (.field (.head _) (by decide +kernel)))
/-- merged sub-selection over two occurrences sharing the visited set -/
example : ((collectMerged exCtx "Q"
      [mkNode none (exN "f") [] (some (.mk [.spread (exN "A") [] exL] exL)) exL,
       mkNode none (exN "f") [] (some (.mk [exFld "z", .spread (exN "B") [] exL] exL)) exL]).map (·.1))
    = ["a", "b", "z"] := by decide +kernel

def exVar : VarDef :=
  { var := exN "v", varLoc := exL, type := some (.nonNull (.named "Int" exL) exL), default := none, loc := exL }
def exDoc : Document :=
  ⟨[.operation .query (some (exN "q1")) [exVar] [] (.mk exSels exL) exL,
    .operation .query (some (exN "q2")) [] [] (.mk exSels exL) exL,
    .operation .mutation (some (exN "q1")) [] [] (.mk exSels exL) exL], exL⟩

example : (match selectOperation exDoc "" with | .error e => some e | .ok _ => none) = some .mustProvideName := by
  decide +kernel
example : (match selectOperation exDoc "q3" with | .error e => some e | .ok _ => none) = some .unknownOperation := by
  decide +kernel
/-- the LAST operation named `q1` is selected (the mutation); the schema has no mutation root -/
example : (match execute exSchema exDoc "q1" [] default 10 with | .requestError e => e | _ => "") = "noRootType" := by
  decide +kernel
example : (match execute exSchema ⟨exDoc.defs.take 2, exL⟩ "q1" [] default 10 with | .requestError e => e | _ => "")
    = "variables: Variable \"$v\" of required type \"Int!\" was not provided." := by
  decide +kernel
/-- a request without errors does produce a result (no field of `exSels` is defined on `Q`, so the data is empty) -/
example : (match execute exSchema exDoc "q2" [] default 100 with
    | .result (some fs) _ _ _ => fs.map (·.1) | _ => ["<no result>"]) = [] := by decide +kernel

/-! ## 8. the response does not depend on the fuel -/

/-- A response that is not `fuelOut` is THE response: every larger fuel gives the same data, errors, log (and the
same request error). So "for every fuel whose response is not `fuelOut`" in C01/C04/C13/C20 speaks about one
well-defined response, the one the driver computes with `defaultFuel` whenever that suffices. -/
theorem response_independent_of_fuel (s : Schema) (doc : Document) (opName : String) (inputs : Coerce.Vars) (w : World)
    (fuel : Nat) (r : Response) (h : execute s doc opName inputs w fuel = r) (hr : r ≠ .fuelOut) (k : Nat) :
    execute s doc opName inputs w (fuel + k) = r :=
  execute_fuel_add s doc opName inputs w fuel r h hr k

/-- the same at every level of the recursion (here: a selection set) -/
theorem selection_set_independent_of_fuel (c : Ctx) (fuel : Nat) (dfr : Bool) (rt : String) (src : GoVal) (path : Path)
    (groups : Groups) (acc : List (String × JVal)) (st : St) (r : Res (List (String × JVal))) (st' : St)
    (h : execGroups c fuel dfr rt src path groups acc st = (r, st')) (hr : r ≠ .fuelOut) (k : Nat) :
    execGroups c (fuel + k) dfr rt src path groups acc st = (r, st') :=
  execGroups_fuel_add c fuel dfr rt src path groups acc st r st' h hr k

open Ex in
/-- fuel 5 is not enough for the example request, fuel 12 is, and 50 gives the same log -/
example : obsLog (execute schema doc "Q" varsF world 5) = ["<no result>"]
    ∧ obsLog (execute schema doc "Q" varsF world 12) = obsLog (execute schema doc "Q" varsF world 50) := by
  decide +kernel

end GqlModel.Exec
