import GqlProofs.ExecBasic
import GqlProofs.ExecLog
import GqlProofs.ExecSerial
import GqlProofs.ExecCollect3
import GqlProofs.ExecExample
/-! # C13 — Top-level mutation fields execute serially in document order

Property theorems only, about the execution-algorithm model `GqlModel.Exec.execute` (`GqlModel/Exec.lean`), for EVERY
schema, document, operation name, variable input, resolver world (values, errors, thunks, failing thunks at any level)
and fuel (premise: the response is a `.result`). The observable is the resolver invocation log (one `LogEntry` per
resolver call, in the order of the calls; work a resolver deferred in a thunk is logged with `deferred := true` at the
point where the algorithm forces it). The statements hold for every operation type of the model (the algorithm is
serial throughout); the property claims them of mutations, and that is what the harness compares on the real
executor (`topLevelSerial`, `topLevelOrder`, 20 repetitions per case). -/
namespace GqlModel.Exec

/-- C13: the log of a request is the concatenation, in the order of the top-level groups (response keys of the
collected root selection), of one contiguous block per top-level group; every entry of a block has that group's key
as its first path segment — nothing belonging to a later top-level field (its resolver, the resolvers of its
sub-selection, work it deferred) runs before everything belonging to every earlier one has finished. The keys are
pairwise distinct, so the blocks are exactly `blocksOf`: the log split by first path segment. -/
theorem mutation_serial (s : Schema) (doc : Document) (opName : String) (inputs : Coerce.Vars) (w : World) (fuel : Nat)
    (data : Option (List (String × JVal))) (errs : List (Path × Bool)) (log : List LogEntry) (kf : List Path)
    (h : execute s doc opName inputs w fuel = .result data errs log kf) :
    ∃ c root sel, requestCtx s doc opName inputs w = some (c, root, sel) ∧
      let keys := (rootGroups c root sel).map (·.1)
      keys.Nodup ∧ SerialBlocks keys log ∧ log = (blocksOf keys log).flatten := by
  obtain ⟨c, root, sel, r, st, hc, hr, -, hlog, -, -⟩ := execute_result h
  refine ⟨c, root, sel, hc, ?_⟩
  obtain ⟨new, hl, hb⟩ := (logP c fuel).groups _ _ _ _ _ _ _ _ _ hr
  have hnd : ((rootGroups c root sel).map (·.1)).Nodup :=
    collect_keys_nodup c root sel ([], []) List.nodup_nil
  have hlog' : log = new.reverse := by
    rw [hlog, hl]; simp [St.empty]
  have hs := serialBlocks_of_blocks hb
  rw [← hlog'] at hs
  exact ⟨hnd, hs, hs.eq_flatten hnd⟩

/-- The order of the top-level groups is document order: for every split `pre ++ post` of the root selection list the
keys collected from `pre` come first (a prefix), and (`key_present_iff_some_occurrence_included`, C01) a key is among
them iff an included occurrence of it is found in `pre` — so the groups are ordered by the first top-level selection
in which an included occurrence appears. -/
theorem top_level_order_is_document_order (c : Ctx) (root : String) (pre post : List Selection) (l : Loc) :
    (rootGroups c root (.mk pre l)).map (·.1) <+: (rootGroups c root (.mk (pre ++ post) l)).map (·.1) ∧
    ∀ k, k ∈ (rootGroups c root (.mk pre l)).map (·.1) ↔ ∃ f, Occurs c root pre f ∧ f.key = k := by
  refine ⟨?_, ?_⟩
  · simp only [rootGroups, collect, collectSet]
    rw [collectList_append]
    exact (collectList_reach (Q := fun _ => True) (expandSpread_reach _ _) post _ (fun _ _ => trivial)).keys_prefix
  · intro k
    have hr := collect_reach (c := c) (rt := root) pre l ([], [])
    have hwf := hr.wf groupsWF_nil
    have hq := hr.allQ (fun _ hp => by simp at hp)
    constructor
    · intro hk
      obtain ⟨p, hp, rfl⟩ := List.mem_map.1 hk
      obtain ⟨f, hf⟩ := List.exists_mem_of_ne_nil _ (hwf.2 p hp)
      exact ⟨f, (hq p hp f hf).2, (hq p hp f hf).1.symm⟩
    · rintro ⟨f, ho, rfl⟩
      have hg := collect_good (c := c) (rt := root) pre l ([], []) (unvisited_lt_fragFuel c [])
      obtain ⟨p, hp, hk, _⟩ := stored_of_occurs (hg.1.allClosed (fun _ h => by cases h)) ho hg.2
      exact List.mem_map.2 ⟨p, hp, hk⟩

/-! ## Non-vacuity -/

open Ex in
/-- `mutation M { m1 { y } m2 m1 { x } }`: the two `m1` occurrences merge, `m1` returns a thunk (deferred work), its
sub-fields run inside the block of `m1`, before `m2` -/
example : obsLog (execute schema doc "M" [] world 50) = ["m1", "m1.y", "m1.x", "m2"] := by decide +kernel

open Ex in
example : (match execute schema doc "M" [] world 50 with
    | .result _ _ log _ => (blocksOf ["m1", "m2"] log).map (fun b => b.map (fun e => (pathStr e.path, e.deferred)))
    | _ => []) = [[("m1", false), ("m1.y", true), ("m1.x", true)], [("m2", false)]] := by decide +kernel

end GqlModel.Exec
