theorem Smoke.t1 (a b : Nat) : a + b = b + a := Nat.add_comm a b
theorem Smoke.t2 (p : Prop) : p ∨ ¬p := Classical.em p
-- x
