import GqlProofs.ExecBasic
import GqlProofs.ExecLog
import GqlProofs.ExecExample
/-! # C20 — Resolvers are invoked once per selected field with accurate parameters

Property theorems only, about the execution-algorithm model `GqlModel.Exec.execute` (`GqlModel/Exec.lean`), for EVERY
schema, document, operation name, variable input, resolver world and fuel (premise: the response is a `.result`).
The observable is the resolver invocation log: one `LogEntry` (response path, runtime parent type, field name, coerced
arguments, source value, number of merged occurrences) per resolver call. That the real executor logs the same
invocations (for fresh and for reused plans) is the correspondence of each run. -/
namespace GqlModel.Exec

/-- Every position is resolved at most once: the response paths (aliases and list indices included) of the log
entries of a request are pairwise distinct. -/
theorem each_position_resolved_at_most_once (s : Schema) (doc : Document) (opName : String) (inputs : Coerce.Vars)
    (w : World) (fuel : Nat) (data : Option (List (String × JVal))) (errs : List (Path × Bool)) (log : List LogEntry)
    (kf : List Path) (h : execute s doc opName inputs w fuel = .result data errs log kf) :
    (log.map (·.path)).Nodup := by
  obtain ⟨c, root, sel, r, st, hc, hr, -, hlog, -, -⟩ := execute_result h
  obtain ⟨new, hl, hb⟩ := (logP c fuel).groups _ _ _ _ _ _ _ _ _ hr
  have hnd : ((rootGroups c root sel).map (·.1)).Nodup :=
    collect_keys_nodup c root sel ([], []) List.nodup_nil
  have hlog' : log = new.reverse := by
    rw [hlog, hl]; simp [St.empty]
  rw [hlog']
  exact hb.nodup hnd

/-- …and at every level: the invocations made while one value is completed have pairwise distinct paths, all
strictly below the position of that value. -/
theorem completion_invocations_distinct_below (c : Ctx) (fuel : Nat) (dfr : Bool) (t : GType) (rt fname : String)
    (nodes : List FieldNode) (p : Path) (v : GoVal) (st st' : St) (r : Res JVal)
    (h : complete c fuel dfr t rt fname nodes p v st = (r, st')) :
    ∃ new, st'.log = new ++ st.log ∧ (∀ e, e ∈ new → Path.Below p e.path) ∧ (new.map (·.path)).Nodup :=
  (logP c fuel).complete _ _ _ _ _ _ _ _ _ _ h

/-! ## Non-vacuity -/

open Ex in
example : obsLog (execute schema doc "Q" varsF world 50) = ["a", "b", "o", "o.y", "w", "w.x", "n", "n.y"] := by
  decide +kernel

end GqlModel.Exec
