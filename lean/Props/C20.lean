import GqlProofs.ExecBasic
import GqlProofs.ExecLog
import GqlProofs.ExecExample
import GqlProofs.ExecAccurate
import GqlProofs.ExecResolved
import GqlProofs.ExecTypename
/-! # C20 — Resolvers are invoked once per selected field with accurate parameters

Property theorems only, about the execution-algorithm model `GqlModel.Exec.execute` (`GqlModel/Exec.lean`), for EVERY
schema, document, operation name, variable input, resolver world and fuel (premise: the response is a `.result`).
The observable is the resolver invocation log: one `LogEntry` (response path, runtime parent type, field name, coerced
arguments, source value, number of merged occurrences) per resolver call. That the real executor logs the same
invocations (for fresh and for reused plans) is the correspondence of each run. -/
namespace GqlModel.Exec

/-- Every position is resolved at most once: the response paths (aliases and list indices included) of the log
entries of a request are pairwise distinct. -/
theorem each_position_resolved_at_most_once (s : Schema) (doc : Document) (opName : String) (inputs : Coerce.Vars)
    (w : World) (fuel : Nat) (data : Option (List (String × JVal))) (errs : List (Path × Bool)) (log : List LogEntry)
    (kf : List Path) (h : execute s doc opName inputs w fuel = .result data errs log kf) :
    (log.map (·.path)).Nodup := by
  obtain ⟨c, root, sel, r, st, hc, hr, -, hlog, -, -⟩ := execute_result h
  obtain ⟨new, hl, hb⟩ := (logP c fuel).groups _ _ _ _ _ _ _ _ _ hr
  have hnd : ((rootGroups c root sel).map (·.1)).Nodup :=
    collect_keys_nodup c root sel ([], []) List.nodup_nil
  have hlog' : log = new.reverse := by
    rw [hlog, hl]; simp [St.empty]
  rw [hlog']
  exact hb.nodup hnd

/-- …and at every level: the invocations made while one value is completed have pairwise distinct paths, all
strictly below the position of that value. -/
theorem completion_invocations_distinct_below (c : Ctx) (fuel : Nat) (dfr : Bool) (t : GType) (rt fname : String)
    (nodes : List FieldNode) (p : Path) (v : GoVal) (st st' : St) (r : Res JVal)
    (h : complete c fuel dfr t rt fname nodes p v st = (r, st')) :
    ∃ new, st'.log = new ++ st.log ∧ (∀ e, e ∈ new → Path.Below p e.path) ∧ (new.map (·.path)).Nodup :=
  (logP c fuel).complete _ _ _ _ _ _ _ _ _ _ h

/-- Every resolver invocation is told accurately where it is (`Accurate`, `GqlModel/Invocations.lean`): it is the
invocation of a selected field (a group of the merged selection) of a legitimate position — the root, or an object
reached from a field of a legitimate position through thunks, non-null wrappers, list elements and runtime-type
dispatch — and its parameters are: parent type = the RUNTIME object type of that position; source = that position's
object value (the individual list element under lists, the root value at the top level); path = the position's path ++
the response key (alias), list indices included; field name = the field definition's; arguments =
`getArgumentValues` of the field definition and the FIRST occurrence's argument ASTs under the request's coerced
variables; occurrences = the number of merged field nodes. -/
theorem log_entry_accurate (s : Schema) (doc : Document) (opName : String) (inputs : Coerce.Vars)
    (w : World) (fuel : Nat) (data : Option (List (String × JVal))) (errs : List (Path × Bool)) (log : List LogEntry)
    (kf : List Path) (h : execute s doc opName inputs w fuel = .result data errs log kf) :
    ∃ c root sel, requestCtx s doc opName inputs w = some (c, root, sel) ∧
      ∀ e, e ∈ log → Accurate c root (rootGroups c root sel) e := by
  obtain ⟨c, root, sel, r, st, hc, hr, -, hlog, -, -⟩ := execute_result h
  refine ⟨c, root, sel, hc, ?_⟩
  intro e he
  rw [hlog, List.mem_reverse] at he
  exact (accP c root (rootGroups c root sel) fuel).groups _ _ _ _ _ _ _ _ _ _ hr .base (fun g hg => hg)
    (by intro e he; cases he) e he

/-- the context of `log_entry_accurate` is the request's: schema, the document's fragments, the COERCED variables
(`getVariableValues` of the selected operation's variable definitions), the world; root type = the schema's root for
the operation type -/
theorem request_context_accurate (s : Schema) (doc : Document) (opName : String) (inputs : Coerce.Vars) (w : World)
    (c : Ctx) (root : String) (sel : SelectionSet) (h : requestCtx s doc opName inputs w = some (c, root, sel)) :
    c.schema = s ∧ c.frags = doc.fragments ∧ c.world = w ∧
      ∃ op nm varDefs dirs loc, selectOperation doc opName = .ok (.operation op nm varDefs dirs sel loc) ∧
        s.rootFor op.toString = some root ∧ Coerce.getVariableValues s varDefs inputs = .ok c.vars := by
  unfold requestCtx at h
  split at h
  · rename_i op nm varDefs dirs sel' loc hsel
    split at h
    · cases h
    · rename_i root' hroot
      split at h
      · cases h
      · rename_i vars hv
        simp only [Option.some.injEq, Prod.mk.injEq] at h
        obtain ⟨rfl, rfl, rfl⟩ := h
        exact ⟨rfl, rfl, rfl, op, nm, varDefs, dirs, loc, hsel, hroot, hv⟩
  · cases h

/-- Exactly once, unless the enclosing object was nulled: for every legitimate position (`Position`: the root, or an
object reached from a field of a position) whose place in the response's data holds an OBJECT (i.e. no failure nulled
it or an ancestor), EVERY selected field of that position (every group of its merged selection whose field the runtime
type defines, `__typename` excepted — it has no resolver) has exactly one log entry, at the position's path ++ the
response key. (Conversely every log entry belongs to such a position: `log_entry_accurate`. Fields of objects that were
nulled afterwards may or may not have been resolved — the failure stops the enclosing non-null chain.) -/
theorem resolved_iff_reached (s : Schema) (doc : Document) (opName : String) (inputs : Coerce.Vars)
    (w : World) (fuel : Nat) (data : List (String × JVal)) (errs : List (Path × Bool)) (log : List LogEntry)
    (kf : List Path) (h : execute s doc opName inputs w fuel = .result (some data) errs log kf) :
    ∃ c root sel, requestCtx s doc opName inputs w = some (c, root, sel) ∧
      ∀ rt src path G, Position c root (rootGroups c root sel) rt src path G →
        ∀ fs, ValAt (.obj data) path (.obj fs) →
          ∀ k nodes node fd, Selected c rt G k nodes node fd →
            ∃ e, e ∈ log ∧ e.path = path ++ [.key k] ∧ ∀ e', e' ∈ log → e'.path = path ++ [.key k] → e' = e := by
  have hnd := each_position_resolved_at_most_once s doc opName inputs w fuel _ errs log kf h
  obtain ⟨c, root, sel, r, st, hc, hr, -, hlog, -, hd⟩ := execute_result h
  refine ⟨c, root, sel, hc, ?_⟩
  rcases hd with ⟨fs0, rfl, hfs⟩ | ⟨-, hnone⟩
  · cases hfs
    intro rt src path G hpos fs hval k nodes node fd hsel
    have hkeys : (data.map (·.1)).Nodup := by
      rw [execGroups_ok_keys c fuel _ _ _ _ _ _ _ _ _ hr]
      simp only [List.map_nil, List.nil_append]
      exact List.Nodup.sublist (List.Sublist.map _ List.filter_sublist)
        (collect_keys_nodup c root sel ([], []) List.nodup_nil)
    have hdone := ((resP c fuel).groups _ _ _ _ _ _ _ _ _ hr).hered hkeys hpos (rel := path) (by simp) hval
    obtain ⟨e, he, hp⟩ := hdone k nodes node fd hsel
    have he' : e ∈ log := by rw [hlog, List.mem_reverse]; exact he
    exact ⟨e, he', hp, fun e' h1 h2 => eq_of_nodup_map_path hnd he' h1 (h2.trans hp.symm)⟩
  · cases hnone

/-- the runtime type of an object reached by completing a value for the declared type `t` (innermost named type `n`):
`n` itself when `n` is an object type; when `n` is abstract, the type `runtimeTypeOf` chose for THAT value — an object
type and a possible type of `n` -/
theorem objAt_runtime_type (c : Ctx) (t : GType) (p : Path) (v : GoVal) (ot : String) (o : GoVal) (p' : Path)
    (h : ObjAt c t p v ot o p') :
    (c.schema.isObject t.namedName = true ∧ ot = t.namedName) ∨
    (c.schema.isAbstract t.namedName = true ∧ runtimeTypeOf c t.namedName o = some ot ∧
      c.schema.isObject ot = true ∧ c.schema.isPossibleType t.namedName ot = true) := by
  induction h with
  | thunk _ ih => exact ih
  | nonNull _ ih => exact ih
  | item _ _ ih => exact ih
  | object _ _ hobj _ => exact Or.inl ⟨hobj, rfl⟩
  | abstract _ _ habs hrt hobj hposs => exact Or.inr ⟨habs, hrt, hobj, hposs⟩

/-- (C10's clause, C20's "runtime object type of the parent") `__typename` always names the RUNTIME object type: for
every legitimate position whose place in the response's data holds an object, the value under every response key that
selects `__typename` is `.str rt`, `rt` being the runtime object type of that position — the root type at the root;
below it the type `objAt_runtime_type` describes (for an abstract declared type: what `runtimeTypeOf` chose for the
value, a possible object type), i.e. the very type whose groups were executed there. -/
theorem typename_is_runtime_type (s : Schema) (doc : Document) (opName : String) (inputs : Coerce.Vars)
    (w : World) (fuel : Nat) (data : List (String × JVal)) (errs : List (Path × Bool)) (log : List LogEntry)
    (kf : List Path) (h : execute s doc opName inputs w fuel = .result (some data) errs log kf) :
    ∃ c root sel, requestCtx s doc opName inputs w = some (c, root, sel) ∧
      ∀ rt src path G, Position c root (rootGroups c root sel) rt src path G →
        ∀ fs, ValAt (.obj data) path (.obj fs) →
          ∀ k nodes node x, (k, nodes) ∈ G → nodes.head? = some node → node.name = "__typename" → (k, x) ∈ fs →
            x = .str rt := by
  obtain ⟨c, root, sel, r, st, hc, hr, -, -, -, hd⟩ := execute_result h
  refine ⟨c, root, sel, hc, ?_⟩
  rcases hd with ⟨fs0, rfl, hfs⟩ | ⟨-, hnone⟩
  · cases hfs
    intro rt src path G hpos fs hval
    have hkeys : (data.map (·.1)).Nodup := by
      rw [execGroups_ok_keys c fuel _ _ _ _ _ _ _ _ _ hr]
      simp only [List.map_nil, List.nil_append]
      exact List.Nodup.sublist (List.Sublist.map _ List.filter_sublist)
        (collect_keys_nodup c root sel ([], []) List.nodup_nil)
    exact ((tnP c fuel).groups _ _ _ _ _ _ _ _ _ hr).hered
      (execGroups_typename c fuel _ _ _ _ _ _ _ _ hr hkeys) hkeys hpos (rel := path) (by simp) hval
  · cases hnone

/-! ## Non-vacuity -/

open Ex in
example : obsLog (execute schema doc "Q" varsF world 50) = ["a", "b", "o", "o.y", "w", "w.x", "n", "n.y"] := by
  decide +kernel

open Ex in
/-- the parameters on the example: `n` is declared `Node` (interface), the runtime type `O` is what `n.y` is told;
its source is the object `n` resolved to; the two merged occurrences of `o` are counted -/
example : (match execute schema doc "Q" varsT world 50 with
    | .result _ _ log _ => log.map (fun e => (pathStr e.path, e.parentType, e.fieldName, e.occurrences,
        (match e.source with | .ref id => some id | _ => none)))
    | _ => []) =
    [("a", "Query", "a", 1, none), ("b", "Query", "b", 1, none), ("o", "Query", "o", 2, none),
     ("o.y", "O", "y", 2, some 1), ("n", "Query", "n", 1, none), ("n.y", "O", "y", 1, some 1)] := by
  decide +kernel

open Ex in
/-- `resolved_iff_reached` on the example (variables `s = false`): `w` is nulled (its non-null `x` failed), so the
position `w` is not in the data; `o` and `n` are objects and all their selected fields were resolved -/
example : (obsData (execute schema doc "Q" varsF world 50)).map (fun d =>
      ((JVal.lookup d "w").map JVal.isNull, (JVal.lookup d "o").map JVal.isNull)) = some (some true, some false) := by
  decide +kernel

open Ex in
/-- `n` is declared `Node` (an interface); its `__typename` is the runtime type `O` -/
example : ((obsData (execute schema doc "Q" varsT world 50)).bind (fun d => JVal.lookup d "n")).map
    (fun o => match o with
      | .obj fs => (JVal.lookup fs "__typename").map (fun t => match t with | .str x => x | _ => "?")
      | _ => none) = some (some "O") := by decide +kernel

end GqlModel.Exec
