import GqlModel.OverlapCost
import GqlProofs.ValidateOverlapFuel
/-! # C19: a closed polynomial bound on the `findConflict` calls of the memoised overlap rule

Potential argument on top of c02b's invariant (`Inv`, `remaining`): `Φ st = st.nFC + K · remaining st` with
`K = nFieldsDoc²`. A `findConflict` call on fields `a`, `b` costs at most `1 + |fields below a| · |fields below b|` calls
as long as no memoised body runs (the recursion through `findConflictsBetweenSubSelectionSets` pairs fields of strictly
nested sets, and a product of sums dominates the sum of products); every executed memo body lowers `remaining` by one
and spends at most `K` on its own `collectConflictsBetween`. Needs distinct selection-set locations (the model's stand-in
for pointer identity), like `overlap_no_fuel_exhaustion`. -/
namespace GqlModel.Validate.Overlap
open GqlModel.Validate GqlModel.Validate.Graph

/-! ## weights -/

def occW (a : FieldOcc) : Nat := 1 + fieldsOpt a.node.sel
def occsW (l : List FieldOcc) : Nat := (l.map occW).sum
def infoW (m : List (String × List FieldOcc)) : Nat := (m.map (fun kf => occsW kf.2)).sum

def callCost : Call → Nat
  | .fc _ _ a b => 1 + fieldsOpt a.node.sel * fieldsOpt b.node.sel
  | _ => 0
def callsCost (cs : List Call) : Nat := (cs.map callCost).sum

theorem callsCost_nil : callsCost [] = 0 := rfl
theorem callsCost_cons (c : Call) (cs : List Call) : callsCost (c :: cs) = callCost c + callsCost cs := by
  simp [callsCost]
theorem callsCost_append (xs ys : List Call) : callsCost (xs ++ ys) = callsCost xs + callsCost ys := by
  simp [callsCost]

theorem callsCost_zero (cs : List Call) (h : ∀ c, c ∈ cs → callCost c = 0) : callsCost cs = 0 := by
  induction cs with
  | nil => rfl
  | cons c cs ih =>
    rw [callsCost_cons, h c List.mem_cons_self, ih (fun c' hc' => h c' (List.mem_cons_of_mem _ hc'))]

theorem occsW_cons (a : FieldOcc) (l : List FieldOcc) : occsW (a :: l) = occW a + occsW l := by simp [occsW]
theorem occsW_append (l m : List FieldOcc) : occsW (l ++ m) = occsW l + occsW m := by
  simp [occsW]
theorem infoW_cons (kf : String × List FieldOcc) (m) : infoW (kf :: m) = occsW kf.2 + infoW m := by simp [infoW]

theorem occsW_le_infoW (m : List (String × List FieldOcc)) (kf) (h : kf ∈ m) : occsW kf.2 ≤ infoW m := by
  induction m with
  | nil => cases h
  | cons x xs ih =>
    rw [infoW_cons]
    rcases List.mem_cons.1 h with rfl | h
    · omega
    · have := ih h; omega

/-! ## collection preserves the field count -/

theorem addField_W (m : List (String × List FieldOcc)) (k : String) (o : FieldOcc) :
    infoW (addField m k o) = infoW m + occW o := by
  induction m with
  | nil => simp [addField, infoW, occsW]
  | cons p rest ih =>
    obtain ⟨k', os⟩ := p
    simp only [addField]
    split
    · simp only [infoW_cons, occsW_append, occsW_cons]
      simp [occsW]; omega
    · simp only [infoW_cons, ih]; omega

mutual
theorem collectSel_W (e : Env) : ∀ (pt : Option String) (x : Selection) (acc : Acc),
    infoW (collectSel e pt x acc).fields = infoW acc.fields + fieldsSel x
  | pt, .field a n args ds sel l, acc => by
    simp only [collectSel, addField_W, fieldsSel, occW]
  | pt, .spread n ds l, acc => by
    simp only [collectSel, fieldsSel]
    split <;> rfl
  | pt, .inline tc ds ss l, acc => by
    simp only [collectSel, fieldsSel]
    exact collectSet_W e _ ss acc
theorem collectSet_W (e : Env) : ∀ (pt : Option String) (x : SelectionSet) (acc : Acc),
    infoW (collectSet e pt x acc).fields = infoW acc.fields + fieldsSet x
  | pt, .mk sels l, acc => by
    simp only [collectSet, fieldsSet]
    exact collectSels_W e pt sels acc
theorem collectSels_W (e : Env) : ∀ (pt : Option String) (x : List Selection) (acc : Acc),
    infoW (collectSels e pt x acc).fields = infoW acc.fields + fieldsSels x
  | pt, [], acc => by simp [collectSels, fieldsSels]
  | pt, x :: xs, acc => by
    simp only [collectSels, fieldsSels]
    rw [collectSels_W e pt xs, collectSel_W e pt x]; omega
end

theorem collectInfo_W (e : Env) (pt : Option String) (ss : SelectionSet) :
    infoW (collectInfo e pt ss).fields = fieldsSet ss := by
  simp only [collectInfo]
  rw [collectSet_W]
  simp [infoW]

/-! ## a selection set of the document has at most `nFieldsDoc` fields -/

mutual
theorem fields_le_sel : ∀ (y : Selection) (x : SelectionSet), x ∈ belowSel y → fieldsSet x ≤ fieldsSel y
  | .field _ _ _ _ sel _, x, h => by
    simp only [belowSel] at h
    have := fields_le_opt sel x h
    simp only [fieldsSel]; omega
  | .spread .., x, h => by simp [belowSel] at h
  | .inline _ _ ss _, x, h => by
    simp only [belowSel] at h
    simpa [fieldsSel] using fields_le_set ss x h
theorem fields_le_set : ∀ (y : SelectionSet) (x : SelectionSet), x ∈ belowSet y → fieldsSet x ≤ fieldsSet y
  | .mk sels l, x, h => by
    simp only [belowSet, List.mem_cons] at h
    rcases h with rfl | h
    · exact Nat.le_refl _
    · simpa [fieldsSet] using fields_le_sels sels x h
theorem fields_le_opt : ∀ (y : Option SelectionSet) (x : SelectionSet), x ∈ belowOpt y → fieldsSet x ≤ fieldsOpt y
  | none, x, h => by simp [belowOpt] at h
  | some ss, x, h => by
    simp only [belowOpt] at h
    simpa [fieldsOpt] using fields_le_set ss x h
theorem fields_le_sels : ∀ (y : List Selection) (x : SelectionSet), x ∈ belowSels y → fieldsSet x ≤ fieldsSels y
  | [], x, h => by simp [belowSels] at h
  | s :: rest, x, h => by
    simp only [belowSels, List.mem_append] at h
    simp only [fieldsSels]
    rcases h with h | h
    · have := fields_le_sel s x h; omega
    · have := fields_le_sels rest x h; omega
end

theorem le_sum_of_mem (l : List Nat) (n : Nat) (h : n ∈ l) : n ≤ l.sum := by
  induction l with
  | nil => cases h
  | cons x xs ih =>
    simp only [List.sum_cons]
    rcases List.mem_cons.1 h with rfl | h
    · omega
    · have := ih h; omega

theorem fieldsSet_le_doc {d : Document} {ss : SelectionSet} (h : ss ∈ allSets d) : fieldsSet ss ≤ nFieldsDoc d := by
  simp only [allSets, List.mem_flatMap] at h
  rcases h with ⟨r, hr, hss⟩
  have h1 := fields_le_set r ss hss
  have h2 := le_sum_of_mem ((rootSets d).map fieldsSet) (fieldsSet r) (List.mem_map.2 ⟨r, hr, rfl⟩)
  exact Nat.le_trans h1 h2

/-! ## the cost of the `findConflict` calls one `collectConflictsBetween` / `collectConflictsWithin` makes -/

theorem inner_cost (excl : Bool) (k : String) (a : FieldOcc) (bs : List FieldOcc) :
    callsCost (bs.map (fun b => Call.fc excl k a b)) ≤ occW a * occsW bs := by
  induction bs with
  | nil => simp [callsCost]
  | cons b bs ih =>
    simp only [List.map_cons, callsCost_cons, occsW_cons, callCost, occW] at *
    generalize fieldsOpt a.node.sel = x at *
    generalize fieldsOpt b.node.sel = y at *
    generalize occsW bs = W at *
    generalize callsCost (List.map (fun b => Call.fc excl k a b) bs) = C at *
    have e1 : (1 + x) * (1 + y + W) = (1 + x) * (1 + y) + (1 + x) * W := Nat.mul_add _ _ _
    have e2 : (1 + x) * (1 + y) = 1 + y + (x + x * y) := by
      rw [Nat.add_mul, Nat.one_mul, Nat.mul_add, Nat.mul_one]
    rw [e1, e2]
    omega

theorem outer_cost (excl : Bool) (k : String) (as bs : List FieldOcc) :
    callsCost (as.flatMap (fun a => bs.map (fun b => Call.fc excl k a b))) ≤ occsW as * occsW bs := by
  induction as with
  | nil => simp [callsCost]
  | cons a as ih =>
    simp only [List.flatMap_cons, callsCost_append, occsW_cons]
    have := inner_cost excl k a bs
    rw [Nat.add_mul]
    omega

theorem between_cost_aux (excl : Bool) (m2 : List (String × List FieldOcc)) (m1 : List (String × List FieldOcc)) :
    callsCost (m1.flatMap (fun kf =>
      match m2.lookup kf.1 with
      | none => []
      | some fs2 => kf.2.flatMap (fun a => fs2.map (fun b => Call.fc excl kf.1 a b)))) ≤ infoW m1 * infoW m2 := by
  induction m1 with
  | nil => simp [callsCost]
  | cons kf rest ih =>
    simp only [List.flatMap_cons, callsCost_append, infoW_cons]
    rw [Nat.add_mul]
    have hhead : callsCost (match m2.lookup kf.1 with
        | none => []
        | some fs2 => kf.2.flatMap (fun a => fs2.map (fun b => Call.fc excl kf.1 a b))) ≤ occsW kf.2 * infoW m2 := by
      split
      · simp [callsCost]
      · rename_i fs2 hl
        have h1 := outer_cost excl kf.1 kf.2 fs2
        have h2 := occsW_le_infoW m2 (kf.1, fs2) (lookup_mem' _ _ _ hl)
        exact Nat.le_trans h1 (Nat.mul_le_mul_left _ h2)
    omega

theorem between_cost (excl : Bool) (i1 i2 : FieldsInfo) :
    callsCost (betweenCalls excl i1 i2) ≤ infoW i1.fields * infoW i2.fields :=
  between_cost_aux excl i2.fields i1.fields

theorem pairs_cost (k : String) (l : List FieldOcc) :
    callsCost ((pairsLt l).map (fun ab => Call.fc false k ab.1 ab.2)) ≤ occsW l * occsW l := by
  induction l with
  | nil => simp [pairsLt, callsCost]
  | cons a l ih =>
    simp only [pairsLt, List.map_append, List.map_map, callsCost_append, occsW_cons]
    have h1 : callsCost (List.map ((fun ab => Call.fc false k ab.1 ab.2) ∘ fun y => (a, y)) l) ≤ occW a * occsW l :=
      inner_cost false k a l
    generalize occW a = x at *
    generalize occsW l = w at *
    have e : (x + w) * (x + w) = x * x + x * w + (w * x + w * w) := by
      rw [Nat.add_mul, Nat.mul_add, Nat.mul_add]
    rw [e]
    omega

theorem within_cost_aux (m : List (String × List FieldOcc)) :
    callsCost (m.flatMap (fun kf => (pairsLt kf.2).map (fun ab => Call.fc false kf.1 ab.1 ab.2))) ≤ infoW m * infoW m := by
  induction m with
  | nil => simp [callsCost]
  | cons kf rest ih =>
    simp only [List.flatMap_cons, callsCost_append, infoW_cons]
    have h1 := pairs_cost kf.1 kf.2
    generalize occsW kf.2 = x at *
    generalize infoW rest = w at *
    have e : (x + w) * (x + w) = x * x + x * w + (w * x + w * w) := by
      rw [Nat.add_mul, Nat.mul_add, Nat.mul_add]
    rw [e]
    omega

theorem within_cost (i : FieldsInfo) : callsCost (withinCalls i) ≤ infoW i.fields * infoW i.fields :=
  within_cost_aux i.fields

theorem topFragCalls_cost (info : FieldsInfo) (fs : List String) : callsCost (topFragCalls info fs) = 0 := by
  apply callsCost_zero
  induction fs with
  | nil => intro c hc; cases hc
  | cons f rest ih =>
    intro c hc
    simp only [topFragCalls, List.mem_cons, List.mem_append, List.mem_map] at hc
    rcases hc with rfl | ⟨g, _, rfl⟩ | hc
    · rfl
    · rfl
    · exact ih c hc

/-! ## the potential -/

variable {d : Document} {e : Env}

/-- `K` = what one executed memo body may spend on its own `collectConflictsBetween` -/
def bodyBudget (d : Document) : Nat := nFieldsDoc d * nFieldsDoc d

def phi (d : Document) (e : Env) (st : OState) : Nat := st.nFC + bodyBudget d * remaining d e st

/-- the extra well-formedness the cost argument needs of a call: the field set handed to a fields/fragment comparison
is not larger than the document -/
def CallW (d : Document) : Call → Prop
  | .ff _ info _ => infoW info.fields ≤ nFieldsDoc d
  | _ => True

def CostSpec (d : Document) (e : Env) (rec : Rec) : Prop :=
  ∀ c st, Inv d e st → WFCall d c → CallW d c → phi d e (rec c st).1 ≤ phi d e st + callCost c

theorem getInfo_nFC (pt : Option String) (ss : SelectionSet) (st : OState) : (getInfo e pt ss st).1.nFC = st.nFC := by
  unfold getInfo
  split <;> rfl

theorem getInfo_phi (pt : Option String) (ss : SelectionSet) (st : OState) :
    phi d e (getInfo e pt ss st).1 = phi d e st := by
  have l := getInfo_logs (e := e) pt ss st
  simp only [phi, remaining, getInfo_nFC, l.1, l.2.1]

/-- whatever the cache hands back was collected from a selection set of the document -/
theorem getInfo_W_le {st : OState} (hinv : Inv d e st) (pt : Option String) {ss : SelectionSet}
    (hss : ss ∈ allSets d) : infoW (getInfo e pt ss st).2.fields ≤ nFieldsDoc d := by
  unfold getInfo
  split
  · rename_i i hi
    rcases hinv.cacheExact _ (lookup_mem' _ _ _ hi) with ⟨ss', pt', hss', _, he⟩
    simp only at he
    rw [he, collectInfo_W]
    exact fieldsSet_le_doc hss'
  · simp only
    rw [collectInfo_W]
    exact fieldsSet_le_doc hss

theorem getInfo_W_eq (hloc : locsDistinct d = true) {st : OState} (hinv : Inv d e st) (pt : Option String)
    {ss : SelectionSet} (hss : ss ∈ allSets d) : infoW (getInfo e pt ss st).2.fields = fieldsSet ss := by
  rcases getInfo_exact hloc hinv pt hss with ⟨pt', hex⟩
  rw [hex, collectInfo_W]

theorem seqCalls_cost {rec : Rec}
    (hrecI : ∀ c st, WFCall d c → Inv d e st → Inv d e (rec c st).1) (hrecC : CostSpec d e rec)
    (cs : List Call) (hcs : ∀ c, c ∈ cs → WFCall d c ∧ CallW d c) (st : OState) (hinv : Inv d e st) :
    phi d e (seqCalls rec cs st).1 ≤ phi d e st + callsCost cs := by
  induction cs generalizing st with
  | nil => simp [seqCalls, callsCost]
  | cons c cs ih =>
    simp only [seqCalls, callsCost_cons]
    have hc := hcs c List.mem_cons_self
    have h1 := hrecC c st hinv hc.1 hc.2
    have i1 := hrecI c st hc.1 hinv
    have h2 := ih (fun c' h => hcs c' (List.mem_cons_of_mem _ h)) _ i1
    omega

theorem ssBody_cost (hloc : locsDistinct d = true) {rec : Rec}
    (hrecI : ∀ c st, WFCall d c → Inv d e st → Inv d e (rec c st).1) (hrecC : CostSpec d e rec)
    (excl : Bool) (p1 p2 : Option String) {s1 s2 : SelectionSet} (h1 : s1 ∈ allSets d) (h2 : s2 ∈ allSets d)
    (st : OState) (hinv : Inv d e st) :
    phi d e (ssBody e rec excl p1 s1 p2 s2 st).1 ≤ phi d e st + fieldsSet s1 * fieldsSet s2 := by
  have g1 := getInfo_inv hinv p1 h1
  have g2 := getInfo_inv g1.1 p2 h2
  have w1 := getInfo_W_eq hloc hinv p1 h1
  have w2 := getInfo_W_eq hloc g1.1 p2 h2
  have hp : phi d e (getInfo e p2 s2 (getInfo e p1 s1 st).1).1 = phi d e st := by
    rw [getInfo_phi, getInfo_phi]
  unfold ssBody
  simp only
  refine Nat.le_trans (seqCalls_cost hrecI hrecC _ (fun c hc => ?_) _ g2.1) ?_
  · simp only [List.mem_append, List.mem_map, List.mem_flatMap] at hc
    rcases hc with ((hc | ⟨f, hf, rfl⟩) | ⟨f, hf, rfl⟩) | ⟨f1, _, f2, _, rfl⟩
    · refine ⟨betweenCalls_wf excl g1.2 g2.2 c hc, ?_⟩
      simp only [betweenCalls, List.mem_flatMap] at hc
      rcases hc with ⟨kf, _, hc⟩
      split at hc
      · cases hc
      · simp only [List.mem_flatMap, List.mem_map] at hc
        rcases hc with ⟨a, _, b, _, rfl⟩
        trivial
    · exact ⟨⟨g1.2, g2.2.2.1 f hf⟩, by simp only [CallW]; rw [w1]; exact fieldsSet_le_doc h1⟩
    · exact ⟨⟨g2.2, g1.2.2.1 f hf⟩, by simp only [CallW]; rw [w2]; exact fieldsSet_le_doc h2⟩
    · exact ⟨trivial, trivial⟩
  · rw [hp]
    simp only [callsCost_append]
    have hb := between_cost excl (getInfo e p1 s1 st).2 (getInfo e p2 s2 (getInfo e p1 s1 st).1).2
    rw [w1, w2] at hb
    have z1 : callsCost (List.map (fun f => Call.ff excl (getInfo e p1 s1 st).2 f)
        (getInfo e p2 s2 (getInfo e p1 s1 st).1).2.frags) = 0 :=
      callsCost_zero _ (fun c hc => by rcases List.mem_map.1 hc with ⟨f, _, rfl⟩; rfl)
    have z2 : callsCost (List.map (fun f => Call.ff excl (getInfo e p2 s2 (getInfo e p1 s1 st).1).2 f)
        (getInfo e p1 s1 st).2.frags) = 0 :=
      callsCost_zero _ (fun c hc => by rcases List.mem_map.1 hc with ⟨f, _, rfl⟩; rfl)
    have z3 : callsCost ((getInfo e p1 s1 st).2.frags.flatMap (fun f1 =>
        (getInfo e p2 s2 (getInfo e p1 s1 st).1).2.frags.map (fun f2 => Call.bf excl f1 f2))) = 0 :=
      callsCost_zero _ (fun c hc => by
        rcases List.mem_flatMap.1 hc with ⟨f1, _, hc⟩
        rcases List.mem_map.1 hc with ⟨f2, _, rfl⟩; rfl)
    omega

theorem fcBody_cost (hloc : locsDistinct d = true) {rec : Rec}
    (hrecI : ∀ c st, WFCall d c → Inv d e st → Inv d e (rec c st).1) (hrecC : CostSpec d e rec)
    (pexcl : Bool) (key : String) {a b : FieldOcc} (ha : WFOcc d a) (hb : WFOcc d b) (st : OState)
    (hinv : Inv d e st) :
    phi d e (fcBody e rec pexcl key a b st).1 ≤ phi d e st + callCost (.fc pexcl key a b) := by
  have h0 : phi d e { st with nFC := st.nFC + 1 } = phi d e st + 1 := by
    simp only [phi, remaining]; omega
  unfold fcBody
  simp only [callCost]
  split
  · simp only; rw [h0]; omega
  · split
    · simp only; rw [h0]; omega
    · split
      · simp only; rw [h0]; omega
      · split
        · rename_i s1 s2 hs1 hs2
          have := ssBody_cost hloc hrecI hrecC (pexcl || exclusive e.s a.parent b.parent) a.subParent b.subParent
            (ha s1 hs1) (hb s2 hs2) _ (hinv.withFC (st.nFC + 1))
          simp only
          rw [h0] at this
          simp only [hs1, hs2, fieldsOpt]
          omega
        · simp only; rw [h0]; omega

theorem budget_step (K r r' : Nat) (h : r' + 1 ≤ r) : K * r' + K ≤ K * r := by
  have : K * (r' + 1) ≤ K * r := Nat.mul_le_mul_left _ h
  rw [Nat.mul_succ] at this
  exact this

theorem ffBody_cost (hT : ∀ f, f ∈ e.tbl → f.sel ∈ allSets d) {rec : Rec}
    (hrecI : ∀ c st, WFCall d c → Inv d e st → Inv d e (rec c st).1) (hrecC : CostSpec d e rec)
    (excl : Bool) {info : FieldsInfo} (hi : WFInfo d info) (hw : infoW info.fields ≤ nFieldsDoc d) {frag : String}
    (hf : frag ∈ allSpreadNames d) (st : OState) (hinv : Inv d e st) :
    phi d e (ffBody e rec excl info frag st).1 ≤ phi d e st := by
  unfold ffBody
  split
  · exact Nat.le_refl _
  · rename_i hnew
    have hnew' : memoHas st.cmpFF (info.id, frag) excl = false := by simpa using hnew
    have hinv1 := hinv.withFF info.id frag excl hnew' hi.1 hf
    have hcnt := hinv1.counts.1
    have hR : remaining d e { st with cmpFF := ((info.id, frag), excl) :: st.cmpFF,
                                      logFF := (info.id, frag, excl) :: st.logFF } + 1 ≤ remaining d e st := by
      simp only [OState.cntFF, List.length_cons, ← length_univFF] at hcnt
      simp only [remaining, List.length_cons]
      omega
    have hstep := budget_step (bodyBudget d) _ _ hR
    have hphi1 : phi d e { st with cmpFF := ((info.id, frag), excl) :: st.cmpFF,
                                   logFF := (info.id, frag, excl) :: st.logFF } + bodyBudget d ≤ phi d e st := by
      simp only [phi] at *
      omega
    simp only
    split
    · exact Nat.le_trans (Nat.le_add_right _ _) hphi1
    · rename_i f hl
      have hfs := hT f (lookupFrag_some hl).1
      have g := getInfo_inv (e := e) hinv1 (namedOf e.s f.typeCond) hfs
      have wr := getInfo_W_le (e := e) hinv1 (namedOf e.s f.typeCond) hfs
      have hp := getInfo_phi (d := d) (e := e) (namedOf e.s f.typeCond) f.sel
        { st with cmpFF := ((info.id, frag), excl) :: st.cmpFF, logFF := (info.id, frag, excl) :: st.logFF }
      unfold getRefInfo
      split
      · rw [hp]; omega
      · refine Nat.le_trans (seqCalls_cost hrecI hrecC _ (fun c hc => ?_) _ g.1) ?_
        · simp only [List.mem_append, List.mem_map] at hc
          rcases hc with hc | ⟨n, hn, rfl⟩
          · refine ⟨betweenCalls_wf excl hi g.2 c hc, ?_⟩
            simp only [betweenCalls, List.mem_flatMap] at hc
            rcases hc with ⟨kf, _, hc⟩
            split at hc
            · cases hc
            · simp only [List.mem_flatMap, List.mem_map] at hc
              rcases hc with ⟨a, _, b, _, rfl⟩
              trivial
          · exact ⟨⟨hi, g.2.2.1 n hn⟩, hw⟩
        · rw [hp, callsCost_append]
          have hb := between_cost excl info
            (getInfo e (namedOf e.s f.typeCond) f.sel
              { st with cmpFF := ((info.id, frag), excl) :: st.cmpFF, logFF := (info.id, frag, excl) :: st.logFF }).2
          have hK : infoW info.fields * infoW (getInfo e (namedOf e.s f.typeCond) f.sel
              { st with cmpFF := ((info.id, frag), excl) :: st.cmpFF,
                        logFF := (info.id, frag, excl) :: st.logFF }).2.fields ≤ bodyBudget d :=
            Nat.mul_le_mul hw wr
          have z : callsCost (List.map (fun g => Call.ff excl info g)
              (getInfo e (namedOf e.s f.typeCond) f.sel
                { st with cmpFF := ((info.id, frag), excl) :: st.cmpFF,
                          logFF := (info.id, frag, excl) :: st.logFF }).2.frags) = 0 :=
            callsCost_zero _ (fun c hc => by rcases List.mem_map.1 hc with ⟨f, _, rfl⟩; rfl)
          omega

theorem bfBody_cost (hT : ∀ f, f ∈ e.tbl → f.sel ∈ allSets d) {rec : Rec}
    (hrecI : ∀ c st, WFCall d c → Inv d e st → Inv d e (rec c st).1) (hrecC : CostSpec d e rec)
    (excl : Bool) (n1 n2 : String) (st : OState) (hinv : Inv d e st) :
    phi d e (bfBody e rec excl n1 n2 st).1 ≤ phi d e st := by
  unfold bfBody
  split
  · rename_i f1 f2 hl1 hl2
    split
    · exact Nat.le_refl _
    · rename_i hne
      split
      · exact Nat.le_refl _
      · rename_i hnew
        have hnew' : memoHas st.cmpBF (n1, n2) excl = false := by simpa using hnew
        have hne' : n1 ≠ n2 := by simpa using hne
        have hinv1 := hinv.withBF n1 n2 excl hne' hnew' (lookupFrag_mem_names hl1) (lookupFrag_mem_names hl2)
        have hcnt := hinv1.counts.2
        have hR : remaining d e { st with cmpBF := ((n1, n2), excl) :: ((n2, n1), excl) :: st.cmpBF,
                                          logBF := (n1, n2, excl) :: st.logBF } + 1 ≤ remaining d e st := by
          simp only [OState.cntBF, List.length_cons, ← length_univBF] at hcnt
          simp only [remaining, List.length_cons]
          omega
        have hstep := budget_step (bodyBudget d) _ _ hR
        have hphi1 : phi d e { st with cmpBF := ((n1, n2), excl) :: ((n2, n1), excl) :: st.cmpBF,
                                       logBF := (n1, n2, excl) :: st.logBF } + bodyBudget d ≤ phi d e st := by
          simp only [phi] at *
          omega
        have hf1 := hT f1 (lookupFrag_some hl1).1
        have hf2 := hT f2 (lookupFrag_some hl2).1
        have g1 := getInfo_inv (e := e) hinv1 (namedOf e.s f1.typeCond) hf1
        have g2 := getInfo_inv (e := e) g1.1 (namedOf e.s f2.typeCond) hf2
        have w1 := getInfo_W_le (e := e) hinv1 (namedOf e.s f1.typeCond) hf1
        have w2 := getInfo_W_le (e := e) g1.1 (namedOf e.s f2.typeCond) hf2
        simp only
        unfold getRefInfo
        refine Nat.le_trans (seqCalls_cost hrecI hrecC _ (fun c hc => ?_) _ g2.1) ?_
        · simp only [List.mem_append, List.mem_map] at hc
          rcases hc with (hc | ⟨n, _, rfl⟩) | ⟨n, _, rfl⟩
          · refine ⟨betweenCalls_wf excl g1.2 g2.2 c hc, ?_⟩
            simp only [betweenCalls, List.mem_flatMap] at hc
            rcases hc with ⟨kf, _, hc⟩
            split at hc
            · cases hc
            · simp only [List.mem_flatMap, List.mem_map] at hc
              rcases hc with ⟨a, _, b, _, rfl⟩
              trivial
          · exact ⟨trivial, trivial⟩
          · exact ⟨trivial, trivial⟩
        · rw [getInfo_phi, getInfo_phi]
          simp only [callsCost_append]
          have hb := between_cost excl
            (getInfo e (namedOf e.s f1.typeCond) f1.sel
              { st with cmpBF := ((n1, n2), excl) :: ((n2, n1), excl) :: st.cmpBF,
                        logBF := (n1, n2, excl) :: st.logBF }).2
            (getInfo e (namedOf e.s f2.typeCond) f2.sel
              (getInfo e (namedOf e.s f1.typeCond) f1.sel
                { st with cmpBF := ((n1, n2), excl) :: ((n2, n1), excl) :: st.cmpBF,
                          logBF := (n1, n2, excl) :: st.logBF }).1).2
          have hK := Nat.mul_le_mul w1 w2
          have z1 : callsCost (List.map (fun g => Call.bf excl n1 g)
              (getInfo e (namedOf e.s f2.typeCond) f2.sel
                (getInfo e (namedOf e.s f1.typeCond) f1.sel
                  { st with cmpBF := ((n1, n2), excl) :: ((n2, n1), excl) :: st.cmpBF,
                            logBF := (n1, n2, excl) :: st.logBF }).1).2.frags) = 0 :=
            callsCost_zero _ (fun c hc => by rcases List.mem_map.1 hc with ⟨f, _, rfl⟩; rfl)
          have z2 : callsCost (List.map (fun g => Call.bf excl g n2)
              (getInfo e (namedOf e.s f1.typeCond) f1.sel
                { st with cmpBF := ((n1, n2), excl) :: ((n2, n1), excl) :: st.cmpBF,
                          logBF := (n1, n2, excl) :: st.logBF }).2.frags) = 0 :=
            callsCost_zero _ (fun c hc => by rcases List.mem_map.1 hc with ⟨f, _, rfl⟩; rfl)
          simp only [bodyBudget] at hphi1 ⊢
          omega
  · exact Nat.le_refl _

/-- every call of the fuel-bounded recursion respects the potential, for EVERY fuel (running out of fuel costs nothing) -/
theorem run_cost (hloc : locsDistinct d = true) (hT : ∀ f, f ∈ e.tbl → f.sel ∈ allSets d) (fuel : Nat) :
    CostSpec d e (run e fuel) := by
  induction fuel with
  | zero =>
    intro c st _ _ _
    simp only [run, phi, remaining]
    omega
  | succ fuel ih =>
    intro c st hinv hc hw
    have hrecI : ∀ c st, WFCall d c → Inv d e st → Inv d e (run e fuel c st).1 :=
      fun c st hc hinv => run_inv hT fuel c st hc hinv
    cases c with
    | fc excl key a b => exact fcBody_cost hloc hrecI ih excl key hc.1 hc.2 st hinv
    | ff excl info frag =>
      have := ffBody_cost hT hrecI ih excl hc.1 hw hc.2 st hinv
      simp only [run, body, callCost]; omega
    | bf excl n1 n2 =>
      have := bfBody_cost hT hrecI ih excl n1 n2 st hinv
      simp only [run, body, callCost]; omega

theorem visitSet_cost (hloc : locsDistinct d = true) (hT : ∀ f, f ∈ e.tbl → f.sel ∈ allSets d) (fuel : Nat)
    (pt : Option String) {ss : SelectionSet} (hss : ss ∈ allSets d) (st : OState) (hinv : Inv d e st) :
    phi d e (visitSet e fuel pt ss st).1 ≤ phi d e st + fieldsSet ss * fieldsSet ss := by
  have g := getInfo_inv hinv pt hss
  have w := getInfo_W_eq hloc hinv pt hss
  unfold visitSet
  simp only
  refine Nat.le_trans (seqCalls_cost (run_inv hT fuel) (run_cost hloc hT fuel) _ (fun c hc => ?_) _ g.1) ?_
  · rcases List.mem_append.1 hc with hc | hc
    · refine ⟨withinCalls_wf g.2 c hc, ?_⟩
      simp only [withinCalls, List.mem_flatMap, List.mem_map] at hc
      rcases hc with ⟨kf, _, ab, _, rfl⟩
      trivial
    · refine ⟨topFragCalls_wf g.2 _ g.2.2.1 c hc, ?_⟩
      have hgen : ∀ (fs : List String) c, c ∈ topFragCalls (getInfo e pt ss st).2 fs → CallW d c := by
        intro fs
        induction fs with
        | nil => intro c hc; cases hc
        | cons f rest ih =>
          intro c hc
          simp only [topFragCalls, List.mem_cons, List.mem_append, List.mem_map] at hc
          rcases hc with rfl | ⟨g', _, rfl⟩ | hc
          · simp only [CallW]; rw [w]; exact fieldsSet_le_doc hss
          · trivial
          · exact ih c hc
      exact hgen _ c hc
  · rw [getInfo_phi, callsCost_append, topFragCalls_cost]
    have := within_cost (getInfo e pt ss st).2
    rw [w] at this
    omega

theorem overlapRun_cost (hloc : locsDistinct d = true) (hT : ∀ f, f ∈ e.tbl → f.sel ∈ allSets d) (fuel : Nat)
    (sets : List (TCtx × SelectionSet)) (hsets : ∀ cs, cs ∈ sets → cs.2 ∈ allSets d) :
    phi d e (overlapRun e fuel sets).1 ≤
      phi d e OState.init + (sets.map (fun cs => fieldsSet cs.2 * fieldsSet cs.2)).sum := by
  unfold overlapRun
  suffices h : ∀ (acc : OState × List Conflict), Inv d e acc.1 →
      phi d e (sets.foldl (fun acc cs =>
        ((visitSet e fuel cs.1.parent cs.2 acc.1).1, acc.2 ++ (visitSet e fuel cs.1.parent cs.2 acc.1).2)) acc).1
        ≤ phi d e acc.1 + (sets.map (fun cs => fieldsSet cs.2 * fieldsSet cs.2)).sum from
    h _ (Inv.init d e)
  induction sets with
  | nil => intro acc _; simp
  | cons cs rest ih =>
    intro acc h
    simp only [List.foldl_cons, List.map_cons, List.sum_cons]
    have h1 := visitSet_cost hloc hT fuel cs.1.parent (hsets cs List.mem_cons_self) acc.1 h
    have h2 := ih (fun x hx => hsets x (List.mem_cons_of_mem _ hx))
      ((visitSet e fuel cs.1.parent cs.2 acc.1).1, acc.2 ++ (visitSet e fuel cs.1.parent cs.2 acc.1).2)
      (visitSet_inv hT fuel cs.1.parent (hsets cs List.mem_cons_self) acc.1 h)
    simp only at h2
    omega

/-! ## the visitor sees every selection set once -/

mutual
theorem length_setsOfSel (s : Schema) : ∀ (c : TCtx) (x : Selection), (setsOfSel s c x).length = (belowSel x).length
  | c, .field _ nm _ _ sel _ => by simp only [setsOfSel, belowSel]; exact length_setsOfOpt s _ sel
  | c, .spread .. => by simp [setsOfSel, belowSel]
  | c, .inline tc _ ss _ => by simp only [setsOfSel, belowSel]; exact length_setsOfSet s _ ss
theorem length_setsOfSet (s : Schema) : ∀ (c : TCtx) (x : SelectionSet), (setsOfSet s c x).length = (belowSet x).length
  | c, .mk sels lc => by
    simp only [setsOfSet, belowSet, List.length_cons]
    rw [length_setsOfSels s _ sels]
theorem length_setsOfOpt (s : Schema) : ∀ (c : TCtx) (x : Option SelectionSet), (setsOfOpt s c x).length = (belowOpt x).length
  | c, none => by simp [setsOfOpt, belowOpt]
  | c, some ss => by simp only [setsOfOpt, belowOpt]; exact length_setsOfSet s c ss
theorem length_setsOfSels (s : Schema) : ∀ (c : TCtx) (x : List Selection), (setsOfSels s c x).length = (belowSels x).length
  | c, [] => by simp [setsOfSels, belowSels]
  | c, x :: xs => by
    simp only [setsOfSels, belowSels, List.length_append]
    rw [length_setsOfSel s c x, length_setsOfSels s c xs]
end

theorem length_typedSelSets (s : Schema) (d : Document) : (typedSelSets s d).length = nSets d := by
  simp only [typedSelSets, nSets, allSets, rootSets]
  generalize d.defs = defs
  induction defs with
  | nil => simp
  | cons df rest ih =>
    simp only [List.flatMap_cons, List.length_append, ih]
    cases df <;> simp [defCtx, length_setsOfSet]

theorem sum_sq_le (sets : List (TCtx × SelectionSet)) (B : Nat) (h : ∀ cs, cs ∈ sets → fieldsSet cs.2 ≤ B) :
    (sets.map (fun cs => fieldsSet cs.2 * fieldsSet cs.2)).sum ≤ sets.length * (B * B) := by
  induction sets with
  | nil => simp
  | cons cs rest ih =>
    simp only [List.map_cons, List.sum_cons, List.length_cons]
    have h1 := h cs List.mem_cons_self
    have h2 := ih (fun x hx => h x (List.mem_cons_of_mem _ hx))
    have h3 := Nat.mul_le_mul h1 h1
    rw [Nat.succ_mul]
    omega

end GqlModel.Validate.Overlap
