import GqlProofs.ValidateOverlapStatic4
import GqlProofs.ValidateCycles
/-! # C02 completeness, part 4: assembly — on acyclic fragment tables the overlap rule misses no conflict -/
namespace GqlModel.Validate.Overlap
open GqlModel.Validate GqlModel.Validate.Graph

mutual
theorem below_in_setsOfSel (s : Schema) : ∀ (c : TCtx) (x : Selection) (Y : SelectionSet),
    Y ∈ belowSel x → ∃ p, p ∈ setsOfSel s c x ∧ p.2 = Y
  | c, .field _ nm _ _ sel _, Y, h => by
    simp only [belowSel] at h
    simp only [setsOfSel]
    exact below_in_setsOfOpt s _ sel Y h
  | c, .spread .., Y, h => by simp [belowSel] at h
  | c, .inline tc _ ss _, Y, h => by
    simp only [belowSel] at h
    simp only [setsOfSel]
    exact below_in_setsOfSet s _ ss Y h
theorem below_in_setsOfSet (s : Schema) : ∀ (c : TCtx) (x : SelectionSet) (Y : SelectionSet),
    Y ∈ belowSet x → ∃ p, p ∈ setsOfSet s c x ∧ p.2 = Y
  | c, .mk sels lc, Y, h => by
    simp only [belowSet, List.mem_cons] at h
    simp only [setsOfSet, List.mem_cons]
    rcases h with rfl | h
    · exact ⟨_, .inl rfl, rfl⟩
    · rcases below_in_setsOfSels s _ sels Y h with ⟨p, hp, rfl⟩
      exact ⟨p, .inr hp, rfl⟩
theorem below_in_setsOfOpt (s : Schema) : ∀ (c : TCtx) (x : Option SelectionSet) (Y : SelectionSet),
    Y ∈ belowOpt x → ∃ p, p ∈ setsOfOpt s c x ∧ p.2 = Y
  | c, none, Y, h => by simp [belowOpt] at h
  | c, some ss, Y, h => by
    simp only [belowOpt] at h
    simp only [setsOfOpt]
    exact below_in_setsOfSet s c ss Y h
theorem below_in_setsOfSels (s : Schema) : ∀ (c : TCtx) (x : List Selection) (Y : SelectionSet),
    Y ∈ belowSels x → ∃ p, p ∈ setsOfSels s c x ∧ p.2 = Y
  | c, [], Y, h => by simp [belowSels] at h
  | c, x :: xs, Y, h => by
    simp only [belowSels, List.mem_append] at h
    simp only [setsOfSels, List.mem_append]
    rcases h with h | h
    · rcases below_in_setsOfSel s c x Y h with ⟨p, hp, rfl⟩
      exact ⟨p, .inl hp, rfl⟩
    · rcases below_in_setsOfSels s c xs Y h with ⟨p, hp, rfl⟩
      exact ⟨p, .inr hp, rfl⟩
end

/-- the visitor visits every selection set of the document -/
theorem allSets_sub_typed (s : Schema) (d : Document) : ∀ X, X ∈ allSets d → ∃ cs, cs ∈ typedSelSets s d ∧ cs.2 = X := by
  intro X hX
  simp only [allSets, List.mem_flatMap, rootSets, List.mem_filterMap] at hX
  rcases hX with ⟨r, ⟨df, hdf, hr⟩, hXr⟩
  simp only [typedSelSets, List.mem_flatMap]
  cases df <;> simp at hr
  · rename_i op nm vars dirs sel loc
    subst hr
    rcases below_in_setsOfSet s (TCtx.enterOp s op) sel X hXr with ⟨p, hp, rfl⟩
    exact ⟨p, ⟨_, hdf, by simpa [defCtx] using hp⟩, rfl⟩
  · rename_i nm tc dirs sel loc
    subst hr
    rcases below_in_setsOfSet s (TCtx.enterFragment s tc) sel X hXr with ⟨p, hp, rfl⟩
    exact ⟨p, ⟨_, hdf, by simpa [defCtx] using hp⟩, rfl⟩

theorem rootSets_cases (d : Document) (X : SelectionSet) (h : X ∈ rootSets d) :
    X ∈ opSels d ∨ ∃ f, f ∈ fragDefs d ∧ f.sel = X := by
  simp only [rootSets, List.mem_filterMap] at h
  rcases h with ⟨df, hdf, hr⟩
  cases df <;> simp at hr
  · subst hr
    exact .inl (List.mem_filterMap.2 ⟨_, hdf, rfl⟩)
  · subst hr
    exact .inr ⟨_, List.mem_filterMap.2 ⟨_, hdf, rfl⟩, rfl⟩

/-- the decidable hypotheses give the static part of `Fin` -/
theorem fin_of_compB (s : Schema) (d : Document) (h : compB s d (envM s d) = true) (S : OState)
    (hist : HistP d (envM s d) (piOf s d) S ⟨[], []⟩) (tbl : TblLog S)
    (vis : ∀ X, X ∈ allSets d → ∀ c, c ∈ visCalls (envM s d) (piOf s d) X → Cov (envM s d) (piOf s d) S c) :
    Fin d (envM s d) (piOf s d) S := by
  simp only [compB, Bool.and_eq_true] at h
  obtain ⟨⟨⟨⟨hcoh, huniq⟩, hacyc⟩, hargs⟩, hapart⟩ := h
  have hc := (coh_of_cohB s d (envM s d) (fragDefs_sel_sub d) hcoh).1
  have hnd : (fragNames (fragDefs d)).Nodup := of_decide_eq_true huniq
  have hac : ¬ Cyclic (fragDefs d) := by
    intro hcyc
    have := (cycleRun_spec (fragDefs d) hnd).2 hcyc
    simp only [acyclicB, List.isEmpty_iff] at hacyc
    exact this hacyc
  simp only [apartB, Bool.and_eq_true, List.all_eq_true, bne_iff_ne, ne_eq, Bool.or_eq_true, beq_iff_eq] at hapart
  obtain ⟨⟨hp1, hp2⟩, hp3⟩ := hapart
  refine ⟨hc, hac, hnd, hist, tbl, vis, ?_, ?_, ?_, ?_⟩
  · intro a b ha hb hsame
    simp only [argsFaithfulB, List.all_eq_true, Bool.or_eq_true, Bool.not_eq_true'] at hargs
    rcases ha with ⟨Y, hY, haY⟩
    rcases hb with ⟨Z, hZ, hbZ⟩
    have := hargs a (List.mem_flatMap.2 ⟨Y, hY, haY⟩) b (List.mem_flatMap.2 ⟨Z, hZ, hbZ⟩)
    rcases this with h' | h'
    · rw [hsame] at h'; cases h'
    · exact h'
  · intro X hX f hf
    exact hp1 X hX f hf
  · intro X hX hnot f hf
    rcases rootSets_cases d X hX with hop | ⟨g, hg, hgs⟩
    · exact hp2 X hop f hf
    · exact absurd hgs (hnot g hg)
  · intro f g hf hg hloc
    rcases hp3 f hf g hg with h' | h'
    · exact absurd hloc h'
    · exact h'

/-- **completeness on acyclic fragment tables** -/
theorem complete_acyclic (s : Schema) (d : Document) (h : compB s d (envM s d) = true)
    (hconf : ∃ cs, cs ∈ typedSelSets s d ∧ SetConflict (envM s d) cs.1.parent cs.2) :
    (overlapM s d).2 ≠ [] := by
  intro hnil
  have hcoh : cohB s d (envM s d) = true := by
    simp only [compB, Bool.and_eq_true] at h; exact h.1.1.1.1
  have hloc : locsDistinct d = true := by
    simp only [cohB, Bool.and_eq_true] at hcoh; exact hcoh.1.1.1
  have hc := coh_of_cohB s d (envM s d) (fragDefs_sel_sub d) hcoh
  have hoof : (overlapM s d).1.oof = false := by
    refine overlapRun_fuel (d := d) (e := envM s d) hloc (fragDefs_sel_sub d) (fuelFor d) ?_ (typedSelSets s d)
      (typedSelSets_sub s d)
    have h1 := length_univFF d
    have h2 := length_univBF (fragDefs d)
    show ((univFF d).length + (univBF (fragDefs d)).length + 1) * (nSets d + 2) < fuelFor d + 1
    rw [h1, h2]
    unfold fuelFor memoPotential nFrags
    omega
  have hrun := overlapRun_cov hc.1 (fuelFor d) (typedSelSets s d)
    (fun cs hcs => ⟨typedSelSets_sub s d cs hcs, hc.2 cs hcs⟩) hnil hoof
  have hvis : ∀ X, X ∈ allSets d → ∀ c, c ∈ visCalls (envM s d) (piOf s d) X →
      Cov (envM s d) (piOf s d) (overlapM s d).1 c := by
    intro X hX c hcm
    rcases allSets_sub_typed s d X hX with ⟨cs, hcs, rfl⟩
    exact hrun.2 cs hcs c hcm
  have F := fin_of_compB s d h (overlapM s d).1 hrun.1.hist hrun.1.tbl hvis
  rcases hconf with ⟨cs, hcs, a, b, ha, hb, hk, hp⟩
  have hX := typedSelSets_sub s d cs hcs
  have := cert F _ (.vis cs.2) (Nat.lt_succ_self _) hX (hvis cs.2 hX)
  rw [← hc.2 cs hcs] at ha hb
  exact this a b ha hb hk hp

end GqlModel.Validate.Overlap
