import GqlProofs.PrinterTokNF
/-! `printTokens d = docT d` for well-formed documents — definitions and the document. -/
namespace GqlModel.Printer
open GqlModel GqlModel.Reader

/-- generic: a list of nodes, each printing to something non-empty, joined by a token-free separator -/
theorem tokensOf_joinI_map {α : Type} (fI : α → List Item) (sep : List Item) (hsep : tokensOf sep = [])
    (xs : List α) (hne : ∀ x ∈ xs, (render (fI x)).isEmpty = false) :
    tokensOf (joinI (xs.map fI) sep) = ((xs.map fI).map tokensOf).flatten := by
  apply tokensOf_joinI _ _ hsep
  intro y hy
  obtain ⟨x, hx, rfl⟩ := List.mem_map.mp hy
  exact solid_of_nonempty (hne x hx)

theorem tokensOf_interI_sep (k : TokenKind) (sep : List Item) (hsep : tokensOf sep = pT k) : ∀ xs : List (List Item),
    tokensOf (interI sep xs) = sepByT k (xs.map tokensOf)
  | [] => rfl
  | [x] => by simp [interI, sepByT]
  | x :: y :: rest => by
    have := tokensOf_interI_sep k sep hsep (y :: rest)
    simp only [List.map_cons] at this
    simp [interI, sepByT, hsep, this]

theorem filter_all_nonempty {α : Type} (fI : α → List Item) (xs : List α)
    (hne : ∀ x ∈ xs, (render (fI x)).isEmpty = false) :
    (xs.map fI).filter (fun x => !(render x).isEmpty) = xs.map fI := by
  apply List.filter_eq_self.mpr
  intro y hy
  obtain ⟨x, hx, rfl⟩ := List.mem_map.mp hy
  simp [hne x hx]

theorem tokensOf_joinI_sep {α : Type} (fI : α → List Item) (k : TokenKind) (sep : List Item) (hsep : tokensOf sep = pT k)
    (xs : List α) (hne : ∀ x ∈ xs, (render (fI x)).isEmpty = false) :
    tokensOf (joinI (xs.map fI) sep) = sepByT k ((xs.map fI).map tokensOf) := by
  rw [joinI, filter_all_nonempty fI xs hne, tokensOf_interI_sep k sep hsep]

theorem tokensOf_ampI : tokensOf ampI = pT .amp := rfl
theorem tokensOf_pipeI : tokensOf pipeI = pT .pipe := rfl
theorem tokensOf_onI : tokensOf onI = nT "on" := by simp [onI, ofList_on]

theorem joinI_map_nonempty {α : Type} (fI : α → List Item) (sep : List Item) (x : α) (xs : List α)
    (hx : (render (fI x)).isEmpty = false) : (render (joinI ((x :: xs).map fI) sep)).isEmpty = false := by
  rw [List.map_cons]; exact joinI_cons_nonempty _ _ _ hx

theorem nonempty_append_left {a : List Item} (b : List Item) (ha : (render a).isEmpty = false) :
    (render (a ++ b)).isEmpty = false := by
  cases hr : render a with
  | nil => simp [hr] at ha
  | cons c cs => simp [hr]

/-! ## variable definitions -/

theorem tokensOf_defaultWrap (pre : List Item) (hpre : tokensOf pre = pT .equals) (d : Option Value) (h : WFDefault d) :
    tokensOf (wrapI pre (optValueI d) []) = defaultT d := by
  cases d with
  | none => rfl
  | some v =>
    rw [optValueI, wrapI_pos (valueI_nonempty v h.1)]
    simp [defaultT, hpre, tokensOf_valueI v h.1]

theorem tokensOf_varDefI (v : VarDef) (h : WFVarDef v) : tokensOf (varDefI v) = varDefT v := by
  obtain ⟨_, ⟨t, ht, _⟩, hd⟩ := h
  simp [varDefI, varDefT, ht, optTypeI, optTypeT, tokensOf_typeI, tokensOf_defaultWrap (spI ++ (pI .equals ['='] ++ spI)) rfl v.default hd]

theorem varDefI_nonempty (v : VarDef) : (render (varDefI v)).isEmpty = false := by simp [varDefI]

theorem flatten_map_varDefI : ∀ vs : List VarDef, WFVarDefs vs → ((vs.map varDefI).map tokensOf).flatten = varDefListT vs
  | [], _ => rfl
  | v :: vs, h => by
    simp only [List.map_cons, List.flatten_cons, varDefListT]
    rw [tokensOf_varDefI v h.1, flatten_map_varDefI vs h.2]

theorem tokensOf_varDefsParen (vs : List VarDef) (h : WFVarDefs vs) :
    tokensOf (wrapI (pI .parenL ['(']) (joinI (vs.map varDefI) commaSpI) (pI .parenR [')'])) = varDefsT vs := by
  cases vs with
  | nil => rfl
  | cons v vs =>
    rw [wrapI_pos (joinI_map_nonempty varDefI _ v vs (varDefI_nonempty v))]
    rw [tokensOf_append, tokensOf_append, tokensOf_joinI_map varDefI _ tokensOf_commaSpI _ (fun x _ => varDefI_nonempty x),
      flatten_map_varDefI _ h]
    rfl

theorem varDefsParen_isEmpty (vs : List VarDef) :
    (render (wrapI (pI .parenL ['(']) (joinI (vs.map varDefI) commaSpI) (pI .parenR [')']))).isEmpty = vs.isEmpty := by
  cases vs with
  | nil => rfl
  | cons v vs =>
    rw [wrapI_pos (joinI_map_nonempty varDefI _ v vs (varDefI_nonempty v))]
    simp

/-! ## input values, fields, enum values, operation types -/

theorem tokensOf_inputValueDefI (d : InputValueDef) (h : WFInputValueDef d) : tokensOf (inputValueDefI d) = inputValueDefT d := by
  obtain ⟨hn, ht, hd, hdir⟩ := h
  rw [inputValueDefI, tokensOf_withDescMemberI,
    tokensOf_join3 _ _ _ (solid_of_nonempty (nonempty_append_left _ (nonempty_append_left _ (name_nonempty hn))))
      (solid_wrapI _ _ _) (solid_directivesI _)]
  simp [inputValueDefT, tokensOf_typeI, tokensOf_defaultWrap (pI .equals ['='] ++ spI) rfl d.default hd,
    tokensOf_directivesI _ hdir]

theorem inputValueDefI_nonempty (d : InputValueDef) (h : WFInputValueDef d) : (render (inputValueDefI d)).isEmpty = false := by
  rw [inputValueDefI]
  exact withDescMemberI_nonempty _ (joinI_cons_nonempty _ _ _
    (nonempty_append_left _ (nonempty_append_left _ (name_nonempty h.1))))

theorem nonempty_of_wf_inputs : ∀ ds : List InputValueDef, WFInputValueDefs ds →
    ∀ x ∈ ds, (render (inputValueDefI x)).isEmpty = false
  | [], _, x, hx => by simp at hx
  | d :: ds, h, x, hx => by
    simp only [List.mem_cons] at hx
    rcases hx with rfl | hx
    · exact inputValueDefI_nonempty _ h.1
    · exact nonempty_of_wf_inputs ds h.2 x hx

theorem flatten_map_inputValueDefI : ∀ ds : List InputValueDef, WFInputValueDefs ds →
    ((ds.map inputValueDefI).map tokensOf).flatten = inputValueDefListT ds
  | [], _ => rfl
  | d :: ds, h => by
    simp only [List.map_cons, List.flatten_cons, inputValueDefListT]
    rw [tokensOf_inputValueDefI d h.1, flatten_map_inputValueDefI ds h.2]

theorem tokensOf_argDefsI (ds : List InputValueDef) (h : WFInputValueDefs ds) : tokensOf (argDefsI ds) = argDefsT ds := by
  cases ds with
  | nil => rfl
  | cons d ds =>
    have hne := nonempty_of_wf_inputs (d :: ds) h
    have hfl := flatten_map_inputValueDefI (d :: ds) h
    simp only [argDefsI]
    split
    · have hmid : (render (indentI (sI ['\n'] ++ joinI ((d :: ds).map inputValueDefI) (sI ['\n'])))).isEmpty = false := by
        simp [indentC]
      rw [wrapI_pos hmid]
      simp only [tokensOf_append, tokensOf_indentI, tokensOf_sI, tokensOf_pI, List.nil_append, List.append_nil]
      rw [tokensOf_joinI_map inputValueDefI _ rfl _ hne, hfl]
      rfl
    · rw [wrapI_pos (joinI_map_nonempty inputValueDefI _ d ds (hne d (by simp)))]
      simp only [tokensOf_append, tokensOf_pI]
      rw [tokensOf_joinI_map inputValueDefI _ tokensOf_commaSpI _ hne, hfl]
      rfl

theorem tokensOf_fieldDefI (d : FieldDef) (h : WFFieldDef d) : tokensOf (fieldDefI d) = fieldDefT d := by
  obtain ⟨_, ha, _, hdir⟩ := h
  have hw : tokensOf (wrapI spI (directivesI d.dirs) []) = tokensOf (directivesI d.dirs) :=
    tokensOf_wrapI_tokenFree tokensOf_spI tokensOf_nil (solid_directivesI _)
  rw [fieldDefI, tokensOf_withDescMemberI]
  simp [fieldDefT, tokensOf_argDefsI _ ha, tokensOf_typeI, hw, tokensOf_directivesI _ hdir]

theorem fieldDefI_nonempty (d : FieldDef) (h : WFFieldDef d) : (render (fieldDefI d)).isEmpty = false := by
  rw [fieldDefI]
  apply withDescMemberI_nonempty
  exact nonempty_append_left _ (nonempty_append_left _ (nonempty_append_left _ (nonempty_append_left _ (name_nonempty h.1))))

theorem nonempty_of_wf_fieldDefs : ∀ ds : List FieldDef, WFFieldDefs ds → ∀ x ∈ ds, (render (fieldDefI x)).isEmpty = false
  | [], _, x, hx => by simp at hx
  | d :: ds, h, x, hx => by
    simp only [List.mem_cons] at hx
    rcases hx with rfl | hx
    · exact fieldDefI_nonempty _ h.1
    · exact nonempty_of_wf_fieldDefs ds h.2 x hx

theorem flatten_map_fieldDefI : ∀ ds : List FieldDef, WFFieldDefs ds →
    ((ds.map fieldDefI).map tokensOf).flatten = fieldDefListT ds
  | [], _ => rfl
  | d :: ds, h => by
    simp only [List.map_cons, List.flatten_cons, fieldDefListT]
    rw [tokensOf_fieldDefI d h.1, flatten_map_fieldDefI ds h.2]

theorem solid_map {α : Type} (fI : α → List Item) (xs : List α) (hne : ∀ x ∈ xs, (render (fI x)).isEmpty = false) :
    ∀ y ∈ xs.map fI, Solid y := by
  intro y hy
  obtain ⟨x, hx, rfl⟩ := List.mem_map.mp hy
  exact solid_of_nonempty (hne x hx)

theorem tokensOf_fieldBlock (ds : List FieldDef) (h : WFFieldDefs ds) :
    tokensOf (blockI (ds.map fieldDefI)) = pT .braceL ++ fieldDefListT ds ++ pT .braceR := by
  rw [tokensOf_blockI _ (solid_map fieldDefI ds (nonempty_of_wf_fieldDefs ds h)), flatten_map_fieldDefI ds h]

theorem tokensOf_inputBlock (ds : List InputValueDef) (h : WFInputValueDefs ds) :
    tokensOf (blockI (ds.map inputValueDefI)) = pT .braceL ++ inputValueDefListT ds ++ pT .braceR := by
  rw [tokensOf_blockI _ (solid_map inputValueDefI ds (nonempty_of_wf_inputs ds h)), flatten_map_inputValueDefI ds h]

theorem tokensOf_enumValueDefI (d : EnumValueDef) (h : WFEnumValueDef d) : tokensOf (enumValueDefI d) = enumValueDefT d := by
  rw [enumValueDefI, tokensOf_withDescMemberI, tokensOf_joinI _ _ tokensOf_spI]
  · simp [enumValueDefT, tokensOf_directivesI _ h.2]
  · intro x hx
    simp only [List.mem_cons, List.mem_nil_iff, or_false] at hx
    rcases hx with rfl | rfl
    · exact solid_of_nonempty (name_nonempty h.1)
    · exact solid_directivesI _

theorem enumValueDefI_nonempty (d : EnumValueDef) (h : WFEnumValueDef d) : (render (enumValueDefI d)).isEmpty = false := by
  rw [enumValueDefI]
  exact withDescMemberI_nonempty _ (joinI_cons_nonempty _ _ _ (name_nonempty h.1))

theorem nonempty_of_wf_enumValues : ∀ ds : List EnumValueDef, WFEnumValueDefs ds →
    ∀ x ∈ ds, (render (enumValueDefI x)).isEmpty = false
  | [], _, x, hx => by simp at hx
  | d :: ds, h, x, hx => by
    simp only [List.mem_cons] at hx
    rcases hx with rfl | hx
    · exact enumValueDefI_nonempty _ h.1
    · exact nonempty_of_wf_enumValues ds h.2 x hx

theorem flatten_map_enumValueDefI : ∀ ds : List EnumValueDef, WFEnumValueDefs ds →
    ((ds.map enumValueDefI).map tokensOf).flatten = enumValueDefListT ds
  | [], _ => rfl
  | d :: ds, h => by
    simp only [List.map_cons, List.flatten_cons, enumValueDefListT]
    rw [tokensOf_enumValueDefI d h.1, flatten_map_enumValueDefI ds h.2]

theorem tokensOf_opTypeDefI (d : OpTypeDef) : tokensOf (opTypeDefI d) = opTypeDefT d := by
  simp [opTypeDefI, opTypeDefT, tokensOf_typeI]

theorem opTypeDefI_nonempty (d : OpTypeDef) : (render (opTypeDefI d)).isEmpty = false := by
  cases hd : d.operation <;> simp [opTypeDefI, hd, OpType.toString, colonSp]

theorem flatten_map_opTypeDefI : ∀ ds : List OpTypeDef, ((ds.map opTypeDefI).map tokensOf).flatten = opTypeDefListT ds
  | [] => rfl
  | d :: ds => by
    simp only [List.map_cons, List.flatten_cons, opTypeDefListT]
    rw [tokensOf_opTypeDefI d, flatten_map_opTypeDefI ds]

/-! ## definitions -/

theorem optNameI_isEmpty (n : Option Name) (h : WFOptName n) : (render (optNameI n)).isEmpty = n.isNone := by
  cases n with
  | none => rfl
  | some n => simpa [optNameI] using name_nonempty h

theorem directivesI_isEmpty (ds : List Directive) : (render (directivesI ds)).isEmpty = ds.isEmpty := by
  cases ds with
  | nil => rfl
  | cons d ds => rw [directivesI]; exact joinI_map_nonempty directiveI _ d ds (directiveI_nonempty d)

theorem solid_optNameI (n : Option Name) (h : WFOptName n) : Solid (optNameI n) := by
  cases n with
  | none => exact solid_nil
  | some n => exact solid_of_nonempty (name_nonempty h)

theorem tokensOf_optNameI (n : Option Name) : tokensOf (optNameI n) = optNameT n := by cases n <;> rfl

theorem ofList_opToString (op : OpType) : String.ofList op.toString.toList = op.toString := String.ofList_toList

theorem opKw_nonempty (op : OpType) : (render (kI op.toString.toList)).isEmpty = false := by
  cases op <;> simp [OpType.toString]

theorem tokensOf_operationI (op : OpType) (name : Option Name) (vars : List VarDef) (dirs : List Directive)
    (sel : SelectionSet) (hn : WFOptName name) (hv : WFVarDefs vars) (hd : WFDirectives dirs) (hs : WFSelSet sel) :
    tokensOf (operationI op name vars dirs sel) = operationT op name vars dirs sel := by
  have hinner : Solid (joinI [optNameI name, wrapI (pI .parenL ['(']) (joinI (vars.map varDefI) commaSpI) (pI .parenR [')'])] []) := by
    apply solid_joinI _ _ rfl
    intro x hx
    simp only [List.mem_cons, List.mem_nil_iff, or_false] at hx
    rcases hx with rfl | rfl
    · exact solid_optNameI name hn
    · exact solid_wrapI _ _ _
  have hc : ((render (optNameI name)).isEmpty && (render (directivesI dirs)).isEmpty &&
      (render (wrapI (pI .parenL ['(']) (joinI (vars.map varDefI) commaSpI) (pI .parenR [')']))).isEmpty &&
      op == OpType.query) = isShortForm op name vars dirs := by
    rw [optNameI_isEmpty name hn, directivesI_isEmpty, varDefsParen_isEmpty, isShortForm]
    cases name.isNone <;> cases dirs.isEmpty <;> cases vars.isEmpty <;> rfl
  simp only [operationI, operationT, hc]
  by_cases hsf : isShortForm op name vars dirs = true
  · rw [if_pos hsf, if_pos hsf]; exact tokensOf_selSetI sel hs
  · rw [if_neg hsf, if_neg hsf]
    rw [tokensOf_join4 _ _ _ _ (solid_of_nonempty (opKw_nonempty op)) hinner (solid_directivesI dirs)
      (solid_of_nonempty (selSetI_nonempty sel))]
    rw [tokensOf_joinI _ [] rfl]
    · simp only [List.map_cons, List.map_nil, List.flatten_cons, List.flatten_nil, List.append_nil, tokensOf_kI,
        ofList_opToString, tokensOf_optNameI, tokensOf_varDefsParen vars hv, tokensOf_directivesI dirs hd,
        tokensOf_selSetI sel hs, List.append_assoc]
    · intro x hx
      simp only [List.mem_cons, List.mem_nil_iff, or_false] at hx
      rcases hx with rfl | rfl
      · exact solid_optNameI name hn
      · exact solid_wrapI _ _ _

theorem ofList_kwFragmentW : String.ofList kwFragmentW = "fragment" := String.ofList_toList
theorem ofList_kwSchema : String.ofList kwSchema = "schema" := String.ofList_toList
theorem ofList_kwScalar : String.ofList kwScalar = "scalar" := String.ofList_toList
theorem ofList_kwType : String.ofList kwType = "type" := String.ofList_toList
theorem ofList_kwInterface : String.ofList kwInterface = "interface" := String.ofList_toList
theorem ofList_kwUnion : String.ofList kwUnion = "union" := String.ofList_toList
theorem ofList_kwEnum : String.ofList kwEnum = "enum" := String.ofList_toList
theorem ofList_kwInput : String.ofList kwInput = "input" := String.ofList_toList
theorem ofList_kwExtendW : String.ofList kwExtendW = "extend" := String.ofList_toList
theorem ofList_kwDirectiveW : String.ofList kwDirectiveW = "directive" := String.ofList_toList
theorem ofList_implements : String.ofList kwImplementsW = "implements" := String.ofList_toList


theorem tokensOf_fragmentI (name : Name) (tc : TypeRef) (dirs : List Directive) (sel : SelectionSet)
    (hd : WFDirectives dirs) (hs : WFSelSet sel) :
    tokensOf (fragmentI name tc dirs sel) = fragmentT name tc dirs sel := by
  have hw : tokensOf (wrapI [] (directivesI dirs) spI) = tokensOf (directivesI dirs) :=
    tokensOf_wrapI_tokenFree tokensOf_nil tokensOf_spI (solid_directivesI _)
  simp [fragmentI, fragmentT, ofList_kwFragmentW, tokensOf_onI, tokensOf_typeI, hw, tokensOf_directivesI dirs hd,
    tokensOf_selSetI sel hs]

theorem kw_nonempty_schema : (render (kI kwSchema)).isEmpty = false := by decide
theorem kw_nonempty_scalar : (render (kI kwScalar)).isEmpty = false := by decide
theorem kw_nonempty_type : (render (kI kwType)).isEmpty = false := by decide
theorem kw_nonempty_interface : (render (kI kwInterface)).isEmpty = false := by decide
theorem kw_nonempty_union : (render (kI kwUnion)).isEmpty = false := by decide
theorem kw_nonempty_enum : (render (kI kwEnum)).isEmpty = false := by decide
theorem kw_nonempty_input : (render (kI kwInput)).isEmpty = false := by decide

theorem tokensOf_schemaI (dirs : List Directive) (ops : List OpTypeDef) (hd : WFDirectives dirs) :
    tokensOf (schemaI dirs ops) = schemaT dirs ops := by
  rw [schemaI, tokensOf_join3 _ _ _ (solid_of_nonempty kw_nonempty_schema) (solid_directivesI dirs)
    (solid_of_nonempty (blockI_nonempty _)),
    tokensOf_blockI _ (solid_map opTypeDefI ops (fun x _ => opTypeDefI_nonempty x)), flatten_map_opTypeDefI]
  simp [schemaT, ofList_kwSchema, tokensOf_directivesI dirs hd]

theorem tokensOf_scalarI (desc : Option String) (name : Name) (dirs : List Directive) (hn : WFName name.value)
    (hd : WFDirectives dirs) : tokensOf (scalarI desc name dirs) = scalarT desc name dirs := by
  rw [scalarI, tokensOf_withDescTopI, tokensOf_join3 _ _ _ (solid_of_nonempty kw_nonempty_scalar)
    (solid_of_nonempty (name_nonempty hn)) (solid_directivesI dirs)]
  simp [scalarT, ofList_kwScalar, tokensOf_directivesI dirs hd]

theorem flatten_map_typeI (ts : List TypeRef) : (ts.map typeI).map tokensOf = ts.map typeT := by
  induction ts with
  | nil => rfl
  | cons t ts ih => simp only [List.map_cons, tokensOf_typeI, ih]

theorem nonempty_of_wf_namedTypes : ∀ ts : List TypeRef, WFNamedTypes ts → ∀ x ∈ ts, (render (typeI x)).isEmpty = false
  | [], _, x, hx => by simp at hx
  | t :: ts, h, x, hx => by
    simp only [List.mem_cons] at hx
    rcases hx with rfl | hx
    · exact namedTypeI_nonempty h.1
    · exact nonempty_of_wf_namedTypes ts h.2 x hx


theorem tokensOf_implementsWrap (ifs : List TypeRef) (h : WFNamedTypes ifs) :
    tokensOf (wrapI (kI kwImplementsW ++ spI) (joinI (ifs.map typeI) ampI) []) = implementsT ifs := by
  cases ifs with
  | nil => rfl
  | cons t ts =>
    have hne := nonempty_of_wf_namedTypes (t :: ts) h
    rw [wrapI_pos (joinI_map_nonempty typeI _ t ts (hne t (by simp)))]
    simp only [tokensOf_append, tokensOf_kI, tokensOf_spI, tokensOf_nil, List.append_nil, ofList_implements]
    rw [tokensOf_joinI_sep typeI .amp ampI tokensOf_ampI _ hne, flatten_map_typeI]
    rfl

theorem tokensOf_objectDefI (d : ObjectDef) (h : WFObjectDef d) : tokensOf (objectDefI d) = objectDefT d := by
  obtain ⟨hn, hi, hd, hf⟩ := h
  rw [objectDefI, tokensOf_withDescTopI, tokensOf_join5 _ _ _ _ _ (solid_of_nonempty kw_nonempty_type)
    (solid_of_nonempty (name_nonempty hn)) (solid_wrapI _ _ _) (solid_directivesI _)
    (solid_of_nonempty (blockI_nonempty _)), tokensOf_implementsWrap _ hi, tokensOf_fieldBlock _ hf]
  simp [objectDefT, ofList_kwType, tokensOf_directivesI _ hd]

theorem tokensOf_interfaceI (desc : Option String) (name : Name) (dirs : List Directive) (fields : List FieldDef)
    (hn : WFName name.value) (hd : WFDirectives dirs) (hf : WFFieldDefs fields) :
    tokensOf (interfaceI desc name dirs fields) = interfaceT desc name dirs fields := by
  rw [interfaceI, tokensOf_withDescTopI, tokensOf_join4 _ _ _ _ (solid_of_nonempty kw_nonempty_interface)
    (solid_of_nonempty (name_nonempty hn)) (solid_directivesI _) (solid_of_nonempty (blockI_nonempty _)),
    tokensOf_fieldBlock _ hf]
  simp [interfaceT, ofList_kwInterface, tokensOf_directivesI _ hd]

theorem tokensOf_unionI (desc : Option String) (name : Name) (dirs : List Directive) (types : List TypeRef)
    (hn : WFName name.value) (hd : WFDirectives dirs) (ht : WFNamedTypes types) :
    tokensOf (unionI desc name dirs types) = unionT desc name dirs types := by
  have hne := nonempty_of_wf_namedTypes types ht
  rw [unionI, tokensOf_withDescTopI, tokensOf_join4 _ _ _ _ (solid_of_nonempty kw_nonempty_union)
    (solid_of_nonempty (name_nonempty hn)) (solid_directivesI _)
    (solid_of_nonempty (nonempty_append_left _ (nonempty_append_left _ (by simp))))]
  simp only [tokensOf_append, tokensOf_pI, tokensOf_spI, List.append_nil, tokensOf_kI, tokensOf_nI]
  rw [tokensOf_joinI_sep typeI .pipe pipeI tokensOf_pipeI _ hne, flatten_map_typeI]
  simp [unionT, ofList_kwUnion, tokensOf_directivesI _ hd]

theorem tokensOf_enumI (desc : Option String) (name : Name) (dirs : List Directive) (values : List EnumValueDef)
    (hn : WFName name.value) (hd : WFDirectives dirs) (hv : WFEnumValueDefs values) :
    tokensOf (enumI desc name dirs values) = enumT desc name dirs values := by
  rw [enumI, tokensOf_withDescTopI, tokensOf_join4 _ _ _ _ (solid_of_nonempty kw_nonempty_enum)
    (solid_of_nonempty (name_nonempty hn)) (solid_directivesI _) (solid_of_nonempty (blockI_nonempty _)),
    tokensOf_blockI _ (solid_map enumValueDefI values (nonempty_of_wf_enumValues values hv)),
    flatten_map_enumValueDefI values hv]
  simp [enumT, ofList_kwEnum, tokensOf_directivesI _ hd]

theorem tokensOf_inputObjectI (desc : Option String) (name : Name) (dirs : List Directive) (fields : List InputValueDef)
    (hn : WFName name.value) (hd : WFDirectives dirs) (hf : WFInputValueDefs fields) :
    tokensOf (inputObjectI desc name dirs fields) = inputObjectT desc name dirs fields := by
  rw [inputObjectI, tokensOf_withDescTopI, tokensOf_join4 _ _ _ _ (solid_of_nonempty kw_nonempty_input)
    (solid_of_nonempty (name_nonempty hn)) (solid_directivesI _) (solid_of_nonempty (blockI_nonempty _)),
    tokensOf_inputBlock _ hf]
  simp [inputObjectT, ofList_kwInput, tokensOf_directivesI _ hd]

theorem tokensOf_extendI (d : ObjectDef) (h : WFObjectDef d) : tokensOf (extendI d) = extendT d := by
  simp [extendI, extendT, ofList_kwExtendW, tokensOf_objectDefI d h]

theorem map_nI_tokens (ns : List Name) : ((ns.map (fun n => nI n.value)).map tokensOf) = ns.map (fun n => nT n.value) := by
  induction ns with
  | nil => rfl
  | cons n ns ih => simp only [List.map_cons, tokensOf_nI, ih]

theorem nonempty_of_wf_names : ∀ ns : List Name, WFNames ns → ∀ x ∈ ns, (render (nI x.value)).isEmpty = false
  | [], _, x, hx => by simp at hx
  | n :: ns, h, x, hx => by
    simp only [List.mem_cons] at hx
    rcases hx with rfl | hx
    · exact name_nonempty h.1
    · exact nonempty_of_wf_names ns h.2 x hx

theorem tokensOf_directiveDefI (desc : Option String) (name : Name) (args : List InputValueDef) (locations : List Name)
    (ha : WFInputValueDefs args) (hl : WFNames locations) :
    tokensOf (directiveDefI desc name args locations) = directiveDefT desc name args locations := by
  rw [directiveDefI, tokensOf_withDescTopI]
  simp only [tokensOf_append, tokensOf_kI, tokensOf_spI, tokensOf_pI, tokensOf_nI, tokensOf_onI, List.append_nil,
    tokensOf_argDefsI args ha]
  rw [tokensOf_joinI_sep (fun n : Name => nI n.value) .pipe pipeI tokensOf_pipeI _ (nonempty_of_wf_names locations hl),
    map_nI_tokens]
  simp [directiveDefT, ofList_kwDirectiveW]

theorem tokensOf_definitionI (d : Definition) (h : WFDefinition d) : tokensOf (definitionI d) = definitionT d := by
  cases d with
  | operation op name vars dirs sel l => exact tokensOf_operationI op name vars dirs sel h.1 h.2.1 h.2.2.1 h.2.2.2
  | fragment name tc dirs sel l => exact tokensOf_fragmentI name tc dirs sel h.2.2.2.1 h.2.2.2.2
  | schema dirs ops l => exact tokensOf_schemaI dirs ops h.1
  | scalar desc name dirs l => exact tokensOf_scalarI desc name dirs h.1 h.2
  | object d => exact tokensOf_objectDefI d h
  | interface desc name dirs fields l => exact tokensOf_interfaceI desc name dirs fields h.1 h.2.1 h.2.2
  | union desc name dirs types l => exact tokensOf_unionI desc name dirs types h.1 h.2.1 h.2.2.2
  | «enum» desc name dirs values l => exact tokensOf_enumI desc name dirs values h.1 h.2.1 h.2.2
  | inputObject desc name dirs fields l => exact tokensOf_inputObjectI desc name dirs fields h.1 h.2.1 h.2.2
  | extend d l => exact tokensOf_extendI d h
  | directive desc name args locations l => exact tokensOf_directiveDefI desc name args locations h.2.1 h.2.2.2

/-! ## the document -/

theorem definitionI_nonempty (d : Definition) (h : WFDefinition d) : (render (definitionI d)).isEmpty = false := by
  cases d with
  | operation op name vars dirs sel l =>
    simp only [definitionI, operationI]
    split
    · exact selSetI_nonempty sel
    · exact joinI_cons_nonempty _ _ _ (opKw_nonempty op)
  | fragment name tc dirs sel l =>
    simp only [definitionI, fragmentI, List.append_assoc]
    exact nonempty_append_left _ (by decide)
  | schema dirs ops l => exact joinI_cons_nonempty _ _ _ kw_nonempty_schema
  | scalar desc name dirs l => exact withDescTopI_nonempty _ (joinI_cons_nonempty _ _ _ kw_nonempty_scalar)
  | object d => exact withDescTopI_nonempty _ (joinI_cons_nonempty _ _ _ kw_nonempty_type)
  | interface desc name dirs fields l => exact withDescTopI_nonempty _ (joinI_cons_nonempty _ _ _ kw_nonempty_interface)
  | union desc name dirs types l => exact withDescTopI_nonempty _ (joinI_cons_nonempty _ _ _ kw_nonempty_union)
  | «enum» desc name dirs values l => exact withDescTopI_nonempty _ (joinI_cons_nonempty _ _ _ kw_nonempty_enum)
  | inputObject desc name dirs fields l => exact withDescTopI_nonempty _ (joinI_cons_nonempty _ _ _ kw_nonempty_input)
  | extend d l =>
    simp only [definitionI, extendI, List.append_assoc]
    exact nonempty_append_left _ (by decide)
  | directive desc name args locations l =>
    apply withDescTopI_nonempty
    simp only [List.append_assoc]
    exact nonempty_append_left _ (by decide)

theorem nonempty_of_wf_definitions : ∀ ds : List Definition, WFDefinitions ds →
    ∀ x ∈ ds, (render (definitionI x)).isEmpty = false
  | [], _, x, hx => by simp at hx
  | d :: ds, h, x, hx => by
    simp only [List.mem_cons] at hx
    rcases hx with rfl | hx
    · exact definitionI_nonempty _ h.1
    · exact nonempty_of_wf_definitions ds h.2 x hx

theorem flatten_map_definitionI : ∀ ds : List Definition, WFDefinitions ds →
    ((ds.map definitionI).map tokensOf).flatten = definitionListT ds
  | [], _ => rfl
  | d :: ds, h => by
    simp only [List.map_cons, List.flatten_cons, definitionListT]
    rw [tokensOf_definitionI d h.1, flatten_map_definitionI ds h.2]

/-- for a well-formed document the printer's token sequence is the plain one -/
theorem printTokens_eq_docT (d : Document) (h : WFDocument d) : printTokens d = docT d := by
  simp only [printTokens, docI, docT, tokensOf_append, tokensOf_sI, List.append_nil]
  rw [tokensOf_joinI_map definitionI _ rfl _ (nonempty_of_wf_definitions d.defs h.2), flatten_map_definitionI d.defs h.2]

theorem printValueTokens_eq_valueT (v : Value) (h : WFValue v) : printValueTokens v = valueT v :=
  tokensOf_valueI v h

theorem printTypeTokens_eq_typeT (t : TypeRef) : printTypeTokens t = typeT t := tokensOf_typeI t

end GqlModel.Printer
