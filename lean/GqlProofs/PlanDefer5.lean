import GqlProofs.PlanDefer4
import GqlProofs.PlanExec3
/-! # The breadth-first pass keeps `SV`; the roots; the request level (with deferred values) -/
namespace GqlModel.Plan
open GqlModel.Exec GqlModel.Coerce

section sv
variable {c : Ctx} {pv : Option Vars} {rank : String → Nat} {F : Nat}

local notation "alt0" => recompute c.schema c.frags pv

theorem svl_set {v v' : PVal} (hvv : ∀ j, SV c pv rank F v j → SV c pv rank F v' j) :
    ∀ {xs : List PVal} {js : List JVal} (i : Nat), SVl c pv rank F xs js → xs[i]? = some v →
    SVl c pv rank F (xs.set i v') js
  | [], _, _, _, hl => by simp at hl
  | x :: xs, _, 0, h, hl => by
    cases h with
    | cons h1 h2 =>
      simp only [List.getElem?_cons_zero, Option.some.injEq] at hl
      subst hl
      exact .cons (hvv _ h1) h2
  | x :: xs, _, i + 1, h, hl => by
    cases h with
    | cons h1 h2 =>
      simp only [List.getElem?_cons_succ] at hl
      exact .cons h1 (svl_set hvv i h2 hl)

/-- replacing a closure inside a related tree by a value that stands for whatever the closure stood for keeps the relation -/
theorem sv_setAt {cl : Closure} {nv : PVal} (hvv : ∀ j, SV c pv rank F (.deferred cl) j → SV c pv rank F nv j) :
    ∀ (a : Path) {root : PVal} {j : JVal}, SV c pv rank F root j → root.getAt a = some (.deferred cl) →
    SV c pv rank F (root.setAt a nv) j
  | [], root, j, h, hg => by
    simp only [PVal.getAt, Option.some.injEq] at hg
    subst hg
    simp only [PVal.setAt]
    exact hvv _ h
  | seg :: rest, root, j, h, hg => by
    cases root with
    | leaf _ => cases seg <;> simp [PVal.getAt] at hg
    | deferred _ => cases seg <;> simp [PVal.getAt] at hg
    | obj fs =>
      cases seg with
      | idx i => simp [PVal.getAt] at hg
      | key k =>
        simp only [PVal.getAt] at hg
        cases hl : lookupF fs k with
        | none => simp [hl] at hg
        | some v =>
          simp only [hl] at hg
          simp only [PVal.setAt, hl]
          cases h with
          | obj hf => exact .obj (svf_setF (fun j hj => sv_setAt hvv rest hj hg) hf hl)
    | list xs =>
      cases seg with
      | key k => simp [PVal.getAt] at hg
      | idx i =>
        simp only [PVal.getAt] at hg
        cases hl : xs[i]? with
        | none => simp [hl] at hg
        | some v =>
          simp only [hl] at hg
          simp only [PVal.setAt, hl]
          cases h with
          | list hxs => exact .list (svl_set (fun j hj => sv_setAt hvv rest hj hg) i hxs hl)

/-- the relation at a position of a related tree -/
theorem sv_getAt : ∀ (a : Path) {root : PVal} {j : JVal} {v : PVal}, SV c pv rank F root j → root.getAt a = some v →
    ∃ j', SV c pv rank F v j'
  | [], root, j, v, h, hg => by
    simp only [PVal.getAt, Option.some.injEq] at hg
    subst hg
    exact ⟨j, h⟩
  | seg :: rest, root, j, v, h, hg => by
    cases root with
    | leaf _ => cases seg <;> simp [PVal.getAt] at hg
    | deferred _ => cases seg <;> simp [PVal.getAt] at hg
    | obj fs =>
      cases seg with
      | idx i => simp [PVal.getAt] at hg
      | key k =>
        simp only [PVal.getAt] at hg
        cases hl : lookupF fs k with
        | none => simp [hl] at hg
        | some x =>
          simp only [hl] at hg
          cases h with
          | obj hf =>
            obtain ⟨jx, hjx⟩ := svf_lookup hf hl
            exact sv_getAt rest hjx hg
    | list xs =>
      cases seg with
      | key k => simp [PVal.getAt] at hg
      | idx i =>
        simp only [PVal.getAt] at hg
        cases hl : xs[i]? with
        | none => simp [hl] at hg
        | some x =>
          simp only [hl] at hg
          cases h with
          | list hxs =>
            have key : ∀ {xs : List PVal} {js : List JVal} (i : Nat), SVl c pv rank F xs js → xs[i]? = some x →
                ∃ jx, SV c pv rank F x jx := by
              intro xs
              induction xs with
              | nil => intro js i _ hl; simp at hl
              | cons y ys ih =>
                intro js i h hl
                cases h with
                | cons h1 h2 =>
                  cases i with
                  | zero => simp only [List.getElem?_cons_zero, Option.some.injEq] at hl; subst hl; exact ⟨_, h1⟩
                  | succ i => simp only [List.getElem?_cons_succ] at hl; exact ih i h2 hl
            obtain ⟨jx, hjx⟩ := key i hxs hl
            exact sv_getAt rest hjx hg

variable {frc : Closure → MSt → Res PVal × MSt}

theorem bfsEntries_sv (hf : FrcSV c pv rank F frc) (p : Path) (j : JVal) :
    ∀ (segs : List PathSeg) (root : PVal) (q : List Path) (mst : MSt), SV c pv rank F root j →
    SVRes (fun (r : PVal × List Path) j => SV c pv rank F r.1 j) (bfsEntries frc p segs root q mst).1 j
  | [], root, q, mst, h => by simp only [bfsEntries]; exact h
  | seg :: rest, root, q, mst, h => by
    simp only [bfsEntries]
    cases hg : root.getAt (p ++ [seg]) with
    | none => exact bfsEntries_sv hf p j rest root q mst h
    | some x =>
      cases x with
      | deferred cl =>
        simp only
        obtain ⟨j', hj'⟩ := sv_getAt _ h hg
        have hwit : Wit c pv rank F cl j' := by cases hj' with | deferred hw => exact hw
        have ha : ∀ j'', SV c pv rank F (.deferred cl) j'' → SVRes (SV c pv rank F) (frc cl mst).1 j'' := by
          intro j'' hj''
          cases hj'' with
          | deferred hw => exact hf cl j'' mst hw
        generalize frc cl mst = z at ha ⊢
        obtain ⟨r1, mst1⟩ := z
        cases r1 with
        | ok v =>
          simp only
          exact bfsEntries_sv hf p j rest _ _ mst1 (sv_setAt (fun j'' hj'' => ha j'' hj'') _ h hg)
        | fail => exact ha j' (.deferred hwit)
        | fuelOut => trivial
      | leaf _ => exact bfsEntries_sv hf p j rest root _ mst h
      | list _ => exact bfsEntries_sv hf p j rest root _ mst h
      | obj _ => exact bfsEntries_sv hf p j rest root _ mst h

theorem bfsLoop_sv (hf : FrcSV c pv rank F frc) (j : JVal) :
    ∀ (n : Nat) (root : PVal) (q : List Path) (mst : MSt), SV c pv rank F root j →
    SVRes (SV c pv rank F) (bfsLoop frc n root q mst).1 j
  | 0, root, q, mst, _ => by simp only [bfsLoop]; trivial
  | n + 1, root, [], mst, h => by simp only [bfsLoop]; exact h
  | n + 1, root, p :: q, mst, h => by
    simp only [bfsLoop]
    cases hg : root.getAt p with
    | none => exact bfsLoop_sv hf j n root q mst h
    | some cont =>
      simp only
      have he := bfsEntries_sv hf p j (childSegs cont) root q mst h
      generalize bfsEntries frc p (childSegs cont) root q mst = z at he ⊢
      obtain ⟨r1, mst1⟩ := z
      cases r1 with
      | ok x =>
        obtain ⟨root', q'⟩ := x
        exact bfsLoop_sv hf j n root' q' mst1 he
      | fail => exact he
      | fuelOut => trivial

end sv

end GqlModel.Plan
