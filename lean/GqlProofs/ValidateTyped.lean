import GqlModel.Validate.Local
import GqlProofs.ValidateLiteral
import GqlProofs.Validate
/-! # Lemmas for the type-directed rules of C02

* `items_ok`: what the TypeInfo state attached to an item of `items s d` is, in terms of the item's own syntax and
  its parent type (the projection `items` threads contexts top-down; these are the facts the declarative readings need);
* `schemaInputsOkB`: decidable well-formedness of the schema's INPUT positions (argument, directive-argument and
  input-field types are scalar / enum / input-object types) — guaranteed by schema construction, evaluated by drv_c02
  on every case;
* `doTypesOverlap_iff`: `doTypesOverlap` = the possible runtime types intersect. -/
namespace GqlModel.Validate
open GqlModel.Coerce

/-! ## items: the attached contexts -/

def ParOK (s : Schema) (c : TCtx) : Prop := ∀ p, c.parent = some p → s.compositeT p = true

/-- the state inside a selection set: the parent type is the (composite) named type of `Type()` -/
def InSet (s : Schema) (c : TCtx) : Prop :=
  ∀ p, c.parent = some p → s.compositeT p = true ∧ ∃ t, c.ty = some t ∧ t.namedName = p

def ItemOK (s : Schema) : Item → Prop
  | .field c nm _ _ _ => c.fieldDef = c.parent.bind (fun p => s.fieldDef? p nm.value) ∧ ParOK s c
  | .spread c _ _ => ParOK s c
  | .inline c tc _ =>
    ParOK s c ∧
      (match tc with
       | some t => c.ty = TCtx.condType s t
       | none => ∀ p, c.parent = some p → ∃ t, c.ty = some t ∧ t.namedName = p)
  | _ => True

theorem enterSelSet_inSet (s : Schema) (c : TCtx) : InSet s (c.enterSelSet s) := by
  intro p hp
  unfold TCtx.enterSelSet at hp ⊢
  cases hty : c.ty with
  | none => simp [hty] at hp
  | some t =>
    simp only [hty] at hp ⊢
    by_cases hc : s.compositeT t.namedName = true
    · simp only [hc, if_true, Option.some.injEq] at hp
      subst hp
      exact ⟨hc, t, rfl, rfl⟩
    · simp [hc] at hp

theorem InSet.parOK {s : Schema} {c : TCtx} (h : InSet s c) : ParOK s c := fun p hp => (h p hp).1

theorem dirItems_ok (s : Schema) (site : DirSite) (c : TCtx) (ds : List Directive) :
    ∀ it ∈ dirItems site c ds, ItemOK s it := by
  intro it hit
  unfold dirItems at hit
  obtain ⟨d, _, rfl⟩ := List.mem_map.1 hit
  trivial

mutual
theorem itemsSel_ok (s : Schema) (c : TCtx) (h : InSet s c) : ∀ (x : Selection), ∀ it ∈ itemsSel s c x, ItemOK s it
  | .field a nm args dirs sel lc => by
    intro it hit
    unfold itemsSel at hit
    simp only [List.mem_cons, List.mem_append] at hit
    rcases hit with rfl | hit | hit
    · exact ⟨rfl, fun p hp => (h p hp).1⟩
    · exact dirItems_ok s _ _ _ it hit
    · exact itemsOpt_ok s _ sel it hit
  | .spread nm dirs lc => by
    intro it hit
    unfold itemsSel at hit
    simp only [List.mem_cons] at hit
    rcases hit with rfl | hit
    · exact h.parOK
    · exact dirItems_ok s _ _ _ it hit
  | .inline tc dirs ss lc => by
    intro it hit
    unfold itemsSel at hit
    simp only [List.mem_cons, List.mem_append] at hit
    rcases hit with rfl | hit | hit
    · refine ⟨?_, ?_⟩
      · intro p hp
        cases tc <;> exact (h p hp).1
      · cases tc with
        | some t => rfl
        | none =>
          intro p hp
          obtain ⟨_, t, ht, hn⟩ := h p hp
          refine ⟨.named t.namedName, ?_, hn⟩
          simp [TCtx.enterInline, ht]
    · exact dirItems_ok s _ _ _ it hit
    · exact itemsSet_ok s _ ss it hit
theorem itemsSet_ok (s : Schema) (c : TCtx) : ∀ (ss : SelectionSet), ∀ it ∈ itemsSet s c ss, ItemOK s it
  | .mk sels lc => by
    intro it hit
    unfold itemsSet at hit
    exact itemsSels_ok s _ (enterSelSet_inSet s c) sels it hit
theorem itemsOpt_ok (s : Schema) (c : TCtx) : ∀ (o : Option SelectionSet), ∀ it ∈ itemsOpt s c o, ItemOK s it
  | none => by intro it hit; simp [itemsOpt] at hit
  | some ss => by intro it hit; unfold itemsOpt at hit; exact itemsSet_ok s c ss it hit
theorem itemsSels_ok (s : Schema) (c : TCtx) (h : InSet s c) : ∀ (xs : List Selection), ∀ it ∈ itemsSels s c xs, ItemOK s it
  | [] => by intro it hit; simp [itemsSels] at hit
  | x :: xs => by
    intro it hit
    unfold itemsSels at hit
    rcases List.mem_append.1 hit with hit | hit
    · exact itemsSel_ok s c h x it hit
    · exact itemsSels_ok s c h xs it hit
end

theorem items_ok (s : Schema) (d : Document) : ∀ it ∈ items s d, ItemOK s it := by
  intro it hit
  unfold items at hit
  obtain ⟨df, _, hit⟩ := List.mem_flatMap.1 hit
  cases df with
  | operation op nm vars dirs sel lc =>
    unfold itemsDef at hit
    simp only [List.mem_cons, List.mem_append, List.mem_map] at hit
    rcases hit with rfl | (⟨v, _, rfl⟩ | hit) | hit
    · trivial
    · trivial
    · exact dirItems_ok s _ _ _ it hit
    · exact itemsSet_ok s _ sel it hit
  | fragment nm tc dirs sel lc =>
    unfold itemsDef at hit
    simp only [List.mem_cons, List.mem_append] at hit
    rcases hit with rfl | hit | hit
    · trivial
    · exact dirItems_ok s _ _ _ it hit
    · exact itemsSet_ok s _ sel it hit
  | _ => simp [itemsDef] at hit

/-! ## the schema's input positions -/

theorem find?_mem_types (S : Schema) (n : String) (td : TypeDef) (h : S.find? n = some td) : td ∈ S.types :=
  List.mem_of_find?_eq_some h

theorem schemaOk_closed (s : Schema) (h : schemaInputsOkB s = true) : InputClosed s.plus := by
  intro n n' fields dsc hf f hfm
  simp only [schemaInputsOkB, Bool.and_eq_true, List.all_eq_true] at h
  have := h.1.1 _ (find?_mem_types _ _ _ hf)
  simp only [typeDefInputsOK, List.all_eq_true] at this
  exact this f hfm

theorem lookup_mem_plus (s : Schema) (n : String) (td : TypeDef) (h : s.lookup n = some td) : td ∈ s.plus.types := by
  unfold Schema.lookup at h
  unfold Schema.plus
  simp only [List.mem_append]
  cases hf : s.find? n with
  | some td' =>
    simp only [hf] at h
    split at h
    · cases h
    · cases h; exact Or.inl (List.mem_of_find?_eq_some hf)
  | none =>
    simp only [hf] at h
    exact Or.inr (List.mem_of_find?_eq_some h)

theorem schemaOk_fieldArgs (s : Schema) (h : schemaInputsOkB s = true) (p f : String) (fd : FieldDefS)
    (hfd : s.fieldDef? p f = some fd) : ∀ a ∈ fd.args, inputKind s.plus a.type.namedName = true := by
  have hall := h
  simp only [schemaInputsOkB, Bool.and_eq_true, List.all_eq_true] at hall
  unfold Schema.fieldDef? at hfd
  split at hfd
  · cases hfd; intro a ha; simp [schemaMetaField] at ha
  · split at hfd
    · cases hfd
      intro a ha
      have := hall.1.2
      simp only [argsOK, List.all_eq_true] at this
      exact this a ha
    · split at hfd
      · cases hfd; intro a ha; simp [typeNameMetaField] at ha
      · have hm := List.mem_of_find?_eq_some hfd
        unfold Schema.fieldsOf at hm
        intro a ha
        cases hl : s.lookup p with
        | none => simp [hl] at hm
        | some td =>
          have htd := hall.1.1 td (lookup_mem_plus s p td hl)
          cases td with
          | object _ _ fs _ _ =>
            simp only [hl] at hm
            simp only [typeDefInputsOK, List.all_eq_true, argsOK] at htd
            exact htd fd hm a ha
          | interface _ fs _ _ =>
            simp only [hl] at hm
            simp only [typeDefInputsOK, List.all_eq_true, argsOK] at htd
            exact htd fd hm a ha
          | _ => simp [hl] at hm

theorem schemaOk_dirArgs (s : Schema) (h : schemaInputsOkB s = true) (nm : String) (dd : DirectiveDefS)
    (hdd : s.directive? nm = some dd) : ∀ a ∈ dd.args, inputKind s.plus a.type.namedName = true := by
  simp only [schemaInputsOkB, Bool.and_eq_true, List.all_eq_true] at h
  have hm : dd ∈ s.allDirectives := List.mem_of_find?_eq_some hdd
  have := h.2 dd hm
  simp only [argsOK, List.all_eq_true] at this
  exact this

/-- an input type of the TYPE MAP is an input type of the extended schema -/
theorem inputT_inputKind (s : Schema) (n : String) (h : s.inputT n = true) : inputKind s.plus n = true := by
  unfold Schema.inputT at h
  unfold inputKind
  rw [plus_find?]
  cases hl : s.lookup n with
  | none => simp [hl] at h
  | some td =>
    have hr : s.resolve n = some td := by
      unfold Schema.lookup at hl
      unfold Schema.resolve
      cases hf : s.find? n with
      | some td' =>
        simp only [hf] at hl
        split at hl
        · cases hl
        · cases hl; rfl
      | none => simp only [hf] at hl; exact hl
    rw [hr]
    cases td <;> simp_all

/-! ## possible runtime types -/

/-- the object types a value of (composite) type `T` can have at run time: `T` itself for an object type, the
implementations of an interface, the members of a union -/
def runtimeTypes (s : Schema) (T : String) : List String :=
  if s.objectT T then [T] else s.possibleTypes T

/-- every abstract type of the type map has at least one possible type (not enforced by `NewSchema`; the generated
schemas satisfy it; without it `doTypesOverlap T T` is true although no object can be of type `T`) -/
def AbstractInhabited (s : Schema) : Prop := ∀ T, s.abstractT T = true → s.possibleTypes T ≠ []

def notAbstractDef : TypeDef → Prop
  | .interface .. => False
  | .union .. => False
  | _ => True

theorem intro_not_abstract : ∀ td ∈ introspectionTypes, notAbstractDef td := by
  intro td hm
  simp only [introspectionTypes, List.mem_cons, List.not_mem_nil, or_false] at hm
  rcases hm with rfl | rfl | rfl | rfl | rfl | rfl | rfl | rfl <;> trivial

theorem lookup_cases (s : Schema) (n : String) (td : TypeDef) (h : s.lookup n = some td) :
    s.find? n = some td ∨ td ∈ introspectionTypes := by
  unfold Schema.lookup at h
  cases hf : s.find? n with
  | some td' =>
    simp only [hf] at h
    split at h
    · cases h
    · cases h; exact Or.inl rfl
  | none =>
    simp only [hf] at h
    exact Or.inr (List.mem_of_find?_eq_some h)

theorem abstractInhabited_of_B (s : Schema) (h : abstractInhabitedB s = true) : AbstractInhabited s := by
  intro T hT hnil
  unfold Schema.abstractT at hT
  simp only [abstractInhabitedB, List.all_eq_true] at h
  cases hl : s.lookup T with
  | none => simp [hl] at hT
  | some td =>
    rcases lookup_cases s T td hl with hf | hi
    · have hm : td ∈ s.types := List.mem_of_find?_eq_some hf
      have hn : td.name = T := by
        have := List.find?_some hf
        simpa using this
      have := h td hm
      cases td with
      | interface n _ _ _ => simp only [TypeDef.name] at hn; subst hn; simp [hnil] at this
      | union n _ _ _ => simp only [TypeDef.name] at hn; subst hn; simp [hnil] at this
      | _ => simp [hl] at hT
    · have := intro_not_abstract td hi
      cases td <;> simp_all [notAbstractDef]

theorem composite_cases (s : Schema) (T : String) (h : s.compositeT T = true) :
    (s.objectT T = true ∧ s.abstractT T = false) ∨ (s.objectT T = false ∧ s.abstractT T = true) := by
  unfold Schema.compositeT at h
  unfold Schema.objectT Schema.abstractT
  cases hl : s.lookup T with
  | none => simp [hl] at h
  | some td => cases td <;> simp_all

theorem doTypesOverlap_iff (s : Schema) (hinh : AbstractInhabited s) (t1 t2 : String)
    (h1 : s.compositeT t1 = true) (h2 : s.compositeT t2 = true) :
    doTypesOverlap s t1 t2 = true ↔ ∃ o, o ∈ runtimeTypes s t1 ∧ o ∈ runtimeTypes s t2 := by
  unfold doTypesOverlap runtimeTypes
  by_cases heq : t1 = t2
  · subst heq
    simp only [beq_self_eq_true, if_true, true_iff]
    rcases composite_cases s t1 h1 with ⟨ho, _⟩ | ⟨ho, ha⟩
    · exact ⟨t1, by simp [ho]⟩
    · have := hinh t1 ha
      obtain ⟨o, ho'⟩ := List.exists_mem_of_ne_nil _ this
      exact ⟨o, by simp [ho, ho']⟩
  · have hne : (t1 == t2) = false := by simpa using heq
    simp only [hne, Bool.false_eq_true, if_false]
    rcases composite_cases s t1 h1 with ⟨ho1, ha1⟩ | ⟨ho1, ha1⟩ <;>
    rcases composite_cases s t2 h2 with ⟨ho2, ha2⟩ | ⟨ho2, ha2⟩
    · simp only [ho1, ho2, if_true, Bool.false_eq_true, false_iff, List.mem_singleton]
      rintro ⟨o, rfl, h⟩; exact heq h
    · simp only [ho1, ho2, ha2, if_true, Bool.false_eq_true, if_false, List.contains_iff_mem, List.mem_singleton]
      constructor
      · intro h; exact ⟨t1, rfl, h⟩
      · rintro ⟨o, rfl, h⟩; exact h
    · simp only [ho1, ha1, ho2, if_true, Bool.false_eq_true, if_false, List.contains_iff_mem, List.mem_singleton]
      constructor
      · intro h; exact ⟨t2, h, rfl⟩
      · rintro ⟨o, h, rfl⟩; exact h
    · simp only [ho1, ha1, ho2, ha2, if_true, Bool.false_eq_true, if_false, List.any_eq_true, List.contains_iff_mem]
      constructor
      · rintro ⟨o, h2', h1'⟩; exact ⟨o, h1', h2'⟩
      · rintro ⟨o, h1', h2'⟩; exact ⟨o, h2', h1'⟩

end GqlModel.Validate
