import GqlModel.Validate.Overlap
import GqlProofs.ValidateGraph
/-! # Helper lemmas for C02 / C19: the memoised overlap algorithm

* sub-term closure of `allSets` / `allSpreadNames` (`below_trans`, `spreads_below`, `collectInfo_wf`);
* `Inv`: invariant of the rule's mutable state — cached collections are well formed, every logged (= executed)
  memo key is answered `true` by `Has` afterwards, the logs are duplicate free and stay inside the finite universe
  (selection-set ids × spread names × flag, resp. fragment names² × flag);
* `run_inv`: every call of the recursion preserves `Inv`; `overlapRun_inv`: so does the whole rule;
* `nodup_length_le`: the counting argument. -/
namespace GqlModel.Validate.Overlap
open GqlModel.Validate GqlModel.Validate.Graph

/-! ## lists -/

theorem nodup_length_le {α : Type} [DecidableEq α] (l m : List α) (hnd : l.Nodup) (hsub : ∀ x, x ∈ l → x ∈ m) :
    l.length ≤ m.length := by
  induction l generalizing m with
  | nil => simp
  | cons a l ih =>
    have ha : a ∈ m := hsub a List.mem_cons_self
    have hnd' := List.nodup_cons.1 hnd
    have := ih (m.erase a) hnd'.2 (fun x hx =>
      (List.mem_erase_of_ne (by rintro rfl; exact hnd'.1 hx)).2 (hsub x (List.mem_cons_of_mem _ hx)))
    have hl := List.length_erase_of_mem ha
    have hpos : 0 < m.length := List.length_pos_of_mem ha
    simp only [List.length_cons]
    omega

/-- cartesian product -/
def prod {α β : Type} (as : List α) (bs : List β) : List (α × β) := as.flatMap (fun a => bs.map (fun b => (a, b)))

theorem mem_prod {α β : Type} (as : List α) (bs : List β) (a : α) (b : β) : (a, b) ∈ prod as bs ↔ a ∈ as ∧ b ∈ bs := by
  simp [prod, List.mem_flatMap, List.mem_map]

theorem length_prod {α β : Type} (as : List α) (bs : List β) : (prod as bs).length = as.length * bs.length := by
  induction as with
  | nil => simp [prod]
  | cons a as ih =>
    have : prod (a :: as) bs = bs.map (fun b => (a, b)) ++ prod as bs := by simp [prod]
    rw [this, List.length_append, List.length_map, ih, List.length_cons, Nat.succ_mul]
    omega

theorem mem_unionNew (acc ys : List String) (x : String) : x ∈ unionNew acc ys ↔ x ∈ acc ∨ x ∈ ys := by
  induction ys generalizing acc with
  | nil => simp [unionNew]
  | cons y ys ih =>
    unfold unionNew
    split
    · rename_i hy
      rw [ih]
      constructor
      · rintro (h | h)
        · exact .inl h
        · exact .inr (List.mem_cons_of_mem _ h)
      · rintro (h | h)
        · exact .inl h
        · rcases List.mem_cons.1 h with rfl | h
          · exact .inl hy
          · exact .inr h
    · rw [ih]
      constructor
      · rintro (h | h)
        · rcases List.mem_append.1 h with h | h
          · exact .inl h
          · exact .inr (by simp at h; simp [h])
        · exact .inr (List.mem_cons_of_mem _ h)
      · rintro (h | h)
        · exact .inl (List.mem_append_left _ h)
        · rcases List.mem_cons.1 h with rfl | h
          · exact .inl (by simp)
          · exact .inr h

theorem mem_pairsLt {α : Type} (l : List α) (a b : α) (h : (a, b) ∈ pairsLt l) : a ∈ l ∧ b ∈ l := by
  induction l with
  | nil => cases h
  | cons x xs ih =>
    simp only [pairsLt, List.mem_append, List.mem_map] at h
    rcases h with ⟨y, hy, he⟩ | h
    · cases he
      exact ⟨List.mem_cons_self, List.mem_cons_of_mem _ hy⟩
    · exact ⟨List.mem_cons_of_mem _ (ih h).1, List.mem_cons_of_mem _ (ih h).2⟩

theorem lookup_mem {β : Type} (k : String) (l : List (String × β)) (v : β) (h : l.lookup k = some v) :
    (k, v) ∈ l := by
  induction l with
  | nil => cases h
  | cons p l ih =>
    obtain ⟨a, b⟩ := p
    by_cases hk : k = a
    · subst hk
      simp at h
      subst h
      exact List.mem_cons_self
    · have : (k == a) = false := by simpa using hk
      simp [List.lookup_cons, this] at h
      exact List.mem_cons_of_mem _ (ih h)

/-! ## sub-term closure -/

mutual
theorem self_below : ∀ ss : SelectionSet, ss ∈ belowSet ss
  | .mk _ _ => by simp [belowSet]
end

mutual
theorem below_trans_sel : ∀ (y : Selection) (x : SelectionSet), x ∈ belowSel y → ∀ z, z ∈ belowSet x → z ∈ belowSel y
  | .field _ _ _ _ sel _, x, hx, z, hz => by
    simp only [belowSel] at hx ⊢
    exact below_trans_opt sel x hx z hz
  | .spread .., x, hx, _, _ => by simp [belowSel] at hx
  | .inline _ _ ss _, x, hx, z, hz => by
    simp only [belowSel] at hx ⊢
    exact below_trans_set ss x hx z hz
theorem below_trans_set : ∀ (y : SelectionSet) (x : SelectionSet), x ∈ belowSet y → ∀ z, z ∈ belowSet x → z ∈ belowSet y
  | .mk sels l, x, hx, z, hz => by
    simp only [belowSet, List.mem_cons] at hx
    rcases hx with rfl | hx
    · exact hz
    · simp only [belowSet, List.mem_cons]
      exact .inr (below_trans_sels sels x hx z hz)
theorem below_trans_opt : ∀ (y : Option SelectionSet) (x : SelectionSet), x ∈ belowOpt y → ∀ z, z ∈ belowSet x → z ∈ belowOpt y
  | none, x, hx, _, _ => by simp [belowOpt] at hx
  | some ss, x, hx, z, hz => by
    simp only [belowOpt] at hx ⊢
    exact below_trans_set ss x hx z hz
theorem below_trans_sels : ∀ (y : List Selection) (x : SelectionSet), x ∈ belowSels y → ∀ z, z ∈ belowSet x → z ∈ belowSels y
  | [], x, hx, _, _ => by simp [belowSels] at hx
  | s :: rest, x, hx, z, hz => by
    simp only [belowSels, List.mem_append] at hx ⊢
    rcases hx with hx | hx
    · exact .inl (below_trans_sel s x hx z hz)
    · exact .inr (below_trans_sels rest x hx z hz)
end

mutual
theorem spreads_below_sel : ∀ (y : Selection) (x : SelectionSet), x ∈ belowSel y → ∀ sp, sp ∈ spreadsSet x → sp ∈ spreadsSel y
  | .field _ _ _ _ sel _, x, hx, sp, hsp => by
    simp only [belowSel] at hx
    simp only [spreadsSel]
    exact spreads_below_opt sel x hx sp hsp
  | .spread .., x, hx, _, _ => by simp [belowSel] at hx
  | .inline _ _ ss _, x, hx, sp, hsp => by
    simp only [belowSel] at hx
    simp only [spreadsSel]
    exact spreads_below_set ss x hx sp hsp
theorem spreads_below_set : ∀ (y : SelectionSet) (x : SelectionSet), x ∈ belowSet y → ∀ sp, sp ∈ spreadsSet x → sp ∈ spreadsSet y
  | .mk sels l, x, hx, sp, hsp => by
    simp only [belowSet, List.mem_cons] at hx
    rcases hx with rfl | hx
    · exact hsp
    · simp only [spreadsSet]
      exact spreads_below_sels sels x hx sp hsp
theorem spreads_below_opt : ∀ (y : Option SelectionSet) (x : SelectionSet), x ∈ belowOpt y → ∀ sp, sp ∈ spreadsSet x → sp ∈ spreadsOpt y
  | none, x, hx, _, _ => by simp [belowOpt] at hx
  | some ss, x, hx, sp, hsp => by
    simp only [belowOpt] at hx
    simp only [spreadsOpt]
    exact spreads_below_set ss x hx sp hsp
theorem spreads_below_sels : ∀ (y : List Selection) (x : SelectionSet), x ∈ belowSels y → ∀ sp, sp ∈ spreadsSet x → sp ∈ spreadsSels y
  | [], x, hx, _, _ => by simp [belowSels] at hx
  | s :: rest, x, hx, sp, hsp => by
    simp only [belowSels, List.mem_append] at hx
    simp only [spreadsSels, List.mem_append]
    rcases hx with hx | hx
    · exact .inl (spreads_below_sel s x hx sp hsp)
    · exact .inr (spreads_below_sels rest x hx sp hsp)
end

theorem allSets_trans {d : Document} {ss x : SelectionSet} (h : ss ∈ allSets d) (hx : x ∈ belowSet ss) :
    x ∈ allSets d := by
  simp only [allSets, List.mem_flatMap] at h ⊢
  rcases h with ⟨r, hr, hss⟩
  exact ⟨r, hr, below_trans_set r ss hss x hx⟩

theorem spreadNames_univ {d : Document} {ss : SelectionSet} (h : ss ∈ allSets d) {n : String}
    (hn : n ∈ spreadNames ss) : n ∈ allSpreadNames d := by
  simp only [allSets, List.mem_flatMap] at h
  rcases h with ⟨r, hr, hss⟩
  rw [allSpreadNames, mem_unionNew]
  refine .inr (List.mem_flatMap.2 ⟨r, hr, ?_⟩)
  rcases List.mem_map.1 hn with ⟨sp, hsp, rfl⟩
  exact List.mem_map.2 ⟨sp, spreads_below_set r ss hss sp hsp, rfl⟩

theorem fragSel_mem_allSets {d : Document} {f : Frag} (h : f ∈ fragDefs d) : f.sel ∈ allSets d := by
  simp only [fragDefs, List.mem_filterMap] at h
  rcases h with ⟨df, hdf, hm⟩
  have hroot : f.sel ∈ rootSets d := by
    simp only [rootSets, List.mem_filterMap]
    refine ⟨df, hdf, ?_⟩
    cases df <;> simp at hm ⊢
    rcases hm with rfl
    rfl
  exact List.mem_flatMap.2 ⟨f.sel, hroot, self_below _⟩

/-! ## well-formedness w.r.t. the document -/

def setIds (d : Document) : List Loc := (allSets d).map (·.loc)

def WFOcc (d : Document) (a : FieldOcc) : Prop := ∀ ss, a.node.sel = some ss → ss ∈ allSets d

def WFFields (d : Document) (fields : List (String × List FieldOcc)) : Prop :=
  ∀ kf, kf ∈ fields → ∀ a, a ∈ kf.2 → WFOcc d a

def WFInfo (d : Document) (i : FieldsInfo) : Prop :=
  i.id ∈ setIds d ∧ (∀ n, n ∈ i.frags → n ∈ allSpreadNames d) ∧ WFFields d i.fields

def WFCall (d : Document) : Call → Prop
  | .fc _ _ a b => WFOcc d a ∧ WFOcc d b
  | .ff _ info frag => WFInfo d info ∧ frag ∈ allSpreadNames d
  | .bf _ _ _ => True

theorem addField_wf {d : Document} (m : List (String × List FieldOcc)) (k : String) (o : FieldOcc)
    (hm : WFFields d m) (ho : WFOcc d o) : WFFields d (addField m k o) := by
  induction m with
  | nil =>
    intro kf hkf a ha
    simp only [addField, List.mem_singleton] at hkf
    subst hkf
    simp only [List.mem_singleton] at ha
    exact ha ▸ ho
  | cons p rest ih =>
    obtain ⟨k', os⟩ := p
    have hrest : WFFields d rest := fun kf hkf => hm kf (List.mem_cons_of_mem _ hkf)
    unfold addField
    split
    · intro kf hkf a ha
      rcases List.mem_cons.1 hkf with rfl | hkf
      · rcases List.mem_append.1 ha with ha | ha
        · exact hm (k', os) List.mem_cons_self a ha
        · simp only [List.mem_singleton] at ha
          exact ha ▸ ho
      · exact hrest kf hkf a ha
    · intro kf hkf a ha
      rcases List.mem_cons.1 hkf with rfl | hkf
      · exact hm (k', os) List.mem_cons_self a ha
      · exact ih hrest kf hkf a ha

def AccWF (d : Document) (acc : Acc) : Prop := WFFields d acc.fields ∧ ∀ n, n ∈ acc.frags → n ∈ allSpreadNames d

mutual
theorem collectSel_wf (d : Document) (e : Env) : ∀ (pt : Option String) (x : Selection) (acc : Acc),
    (∀ z, z ∈ belowSel x → z ∈ allSets d) → (∀ sp, sp ∈ spreadsSel x → sp.name ∈ allSpreadNames d) →
    AccWF d acc → AccWF d (collectSel e pt x acc)
  | pt, .field a n args ds sel l, acc, hb, _, hacc => by
    simp only [collectSel]
    refine ⟨addField_wf _ _ _ hacc.1 ?_, hacc.2⟩
    intro ss hss
    simp only at hss
    subst hss
    exact hb ss (by simp only [belowSel, belowOpt]; exact self_below ss)
  | pt, .spread n ds l, acc, _, hs, hacc => by
    simp only [collectSel]
    split
    · exact hacc
    · refine ⟨hacc.1, fun m hm => ?_⟩
      rcases List.mem_append.1 hm with hm | hm
      · exact hacc.2 m hm
      · simp only [List.mem_singleton] at hm
        subst hm
        exact hs ⟨n.value, l⟩ (by simp [spreadsSel])
  | pt, .inline tc ds ss l, acc, hb, hs, hacc => by
    simp only [collectSel]
    exact collectSet_wf d e _ ss acc (fun z hz => hb z (by simpa [belowSel] using hz))
      (fun sp hsp => hs sp (by simpa [spreadsSel] using hsp)) hacc
theorem collectSet_wf (d : Document) (e : Env) : ∀ (pt : Option String) (x : SelectionSet) (acc : Acc),
    (∀ z, z ∈ belowSet x → z ∈ allSets d) → (∀ sp, sp ∈ spreadsSet x → sp.name ∈ allSpreadNames d) →
    AccWF d acc → AccWF d (collectSet e pt x acc)
  | pt, .mk sels l, acc, hb, hs, hacc => by
    simp only [collectSet]
    exact collectSels_wf d e pt sels acc (fun z hz => hb z (by simp [belowSet, hz]))
      (fun sp hsp => hs sp (by simpa [spreadsSet] using hsp)) hacc
theorem collectSels_wf (d : Document) (e : Env) : ∀ (pt : Option String) (x : List Selection) (acc : Acc),
    (∀ z, z ∈ belowSels x → z ∈ allSets d) → (∀ sp, sp ∈ spreadsSels x → sp.name ∈ allSpreadNames d) →
    AccWF d acc → AccWF d (collectSels e pt x acc)
  | pt, [], acc, _, _, hacc => by simpa [collectSels] using hacc
  | pt, x :: xs, acc, hb, hs, hacc => by
    simp only [collectSels]
    exact collectSels_wf d e pt xs _ (fun z hz => hb z (by simp [belowSels, hz]))
      (fun sp hsp => hs sp (by simp [spreadsSels, hsp]))
      (collectSel_wf d e pt x acc (fun z hz => hb z (by simp [belowSels, hz]))
        (fun sp hsp => hs sp (by simp [spreadsSels, hsp])) hacc)
end

theorem collectInfo_wf (d : Document) (e : Env) (pt : Option String) (ss : SelectionSet) (h : ss ∈ allSets d) :
    WFInfo d (collectInfo e pt ss) := by
  have h0 : AccWF d ⟨[], []⟩ := by
    constructor
    · intro kf hkf; cases hkf
    · intro n hn; cases hn
  have hacc := collectSet_wf d e pt ss ⟨[], []⟩ (fun z hz => allSets_trans h hz)
    (fun sp hsp => spreadNames_univ h (List.mem_map.2 ⟨sp, hsp, rfl⟩)) h0
  exact ⟨List.mem_map.2 ⟨ss, h, rfl⟩, hacc.2, hacc.1⟩

/-! ## the state invariant -/

theorem memoHas_insert_self {κ : Type} [BEq κ] [LawfulBEq κ] (m : List (κ × Bool)) (k : κ) (e : Bool) :
    memoHas ((k, e) :: m) k e = true := by
  simp [memoHas]

theorem memoHas_insert_mono {κ : Type} [BEq κ] [LawfulBEq κ] (m : List (κ × Bool)) (k k' : κ) (e e' : Bool)
    (hnew : memoHas m k e = false) (h : memoHas m k' e' = true) : memoHas ((k, e) :: m) k' e' = true := by
  by_cases hk : k' = k
  · subst hk
    simp only [memoHas, List.lookup_cons, beq_self_eq_true]
    cases e' with
    | true => simp
    | false =>
      simp only [memoHas] at h hnew
      cases hl : List.lookup k' m with
      | none => rw [hl] at h; simp at h
      | some stored =>
        rw [hl] at h hnew
        cases stored <;> cases e <;> simp_all
  · have : (k' == k) = false := by simpa using hk
    simpa [memoHas, List.lookup_cons, this] using h

theorem lookup_two (m : List ((String × String) × Bool)) (p q k : String × String) (e : Bool) :
    List.lookup k ((p, e) :: (q, e) :: m) = if k = p ∨ k = q then some e else List.lookup k m := by
  have b1 : (k == p) = decide (k = p) := by
    by_cases h : k = p <;> simp [h]
  have b2 : (k == q) = decide (k = q) := by
    by_cases h : k = q <;> simp [h]
  rw [List.lookup_cons, List.lookup_cons, b1, b2]
  by_cases h1 : k = p <;> by_cases h2 : k = q <;> simp [h1, h2]
  split <;> rfl

/-- invariant of the overlap rule's mutable state, relative to the document -/
structure Inv (d : Document) (e : Env) (st : OState) : Prop where
  cacheWF : ∀ p, p ∈ st.cache → WFInfo d p.2
  cacheExact : ∀ p, p ∈ st.cache → ∃ ss pt, ss ∈ allSets d ∧ p.1 = ss.loc ∧ p.2 = collectInfo e pt ss
  ffHas : ∀ k, k ∈ st.logFF → memoHas st.cmpFF (k.1, k.2.1) k.2.2 = true
  ffNodup : st.logFF.Nodup
  ffUniv : ∀ k, k ∈ st.logFF → k.1 ∈ setIds d ∧ k.2.1 ∈ allSpreadNames d
  bfHas : ∀ k, k ∈ st.logBF → memoHas st.cmpBF (k.1, k.2.1) k.2.2 = true
  bfNodup : st.logBF.Nodup
  bfUniv : ∀ k, k ∈ st.logBF → k.1 ∈ fragNames e.tbl ∧ k.2.1 ∈ fragNames e.tbl
  bfSym : ∀ a b, st.cmpBF.lookup (a, b) = st.cmpBF.lookup (b, a)

theorem Inv.init (d : Document) (e : Env) : Inv d e OState.init := by
  constructor
  · intro p h; cases h
  · intro p h; cases h
  · intro k h; cases h
  · exact List.nodup_nil
  · intro k h; cases h
  · intro k h; cases h
  · exact List.nodup_nil
  · intro k h; cases h
  · intro _ _; rfl

theorem Inv.withCache {d : Document} {e : Env} {st : OState} (h : Inv d e st) (pt : Option String)
    (ss : SelectionSet) (hss : ss ∈ allSets d) :
    Inv d e { st with cache := (ss.loc, collectInfo e pt ss) :: st.cache } :=
  ⟨fun p hp => by
      rcases List.mem_cons.1 hp with rfl | hp
      · exact collectInfo_wf d e pt ss hss
      · exact h.cacheWF p hp,
   fun p hp => by
      rcases List.mem_cons.1 hp with rfl | hp
      · exact ⟨ss, pt, hss, rfl, rfl⟩
      · exact h.cacheExact p hp,
   h.ffHas, h.ffNodup, h.ffUniv, h.bfHas, h.bfNodup, h.bfUniv, h.bfSym⟩

theorem Inv.withFC {d : Document} {e : Env} {st : OState} (h : Inv d e st) (n : Nat) :
    Inv d e { st with nFC := n } :=
  ⟨h.cacheWF, h.cacheExact, h.ffHas, h.ffNodup, h.ffUniv, h.bfHas, h.bfNodup, h.bfUniv, h.bfSym⟩

theorem Inv.withOof {d : Document} {e : Env} {st : OState} (h : Inv d e st) (b : Bool) :
    Inv d e { st with oof := b } :=
  ⟨h.cacheWF, h.cacheExact, h.ffHas, h.ffNodup, h.ffUniv, h.bfHas, h.bfNodup, h.bfUniv, h.bfSym⟩

theorem Inv.withFF {d : Document} {e : Env} {st : OState} (h : Inv d e st) (id : Loc) (frag : String)
    (excl : Bool) (hnew : memoHas st.cmpFF (id, frag) excl = false) (hid : id ∈ setIds d)
    (hfrag : frag ∈ allSpreadNames d) :
    Inv d e { st with cmpFF := ((id, frag), excl) :: st.cmpFF, logFF := (id, frag, excl) :: st.logFF } := by
  refine ⟨h.cacheWF, h.cacheExact, ?_, ?_, ?_, h.bfHas, h.bfNodup, h.bfUniv, h.bfSym⟩
  · intro k hk
    rcases List.mem_cons.1 hk with rfl | hk
    · exact memoHas_insert_self _ _ _
    · exact memoHas_insert_mono _ _ _ _ _ hnew (h.ffHas k hk)
  · refine List.nodup_cons.2 ⟨fun hmem => ?_, h.ffNodup⟩
    have := h.ffHas _ hmem
    simp only at this
    rw [hnew] at this
    cases this
  · intro k hk
    rcases List.mem_cons.1 hk with rfl | hk
    · exact ⟨hid, hfrag⟩
    · exact h.ffUniv k hk

theorem Inv.withBF {d : Document} {e : Env} {st : OState} (h : Inv d e st) (n1 n2 : String)
    (excl : Bool) (hne : n1 ≠ n2) (hnew : memoHas st.cmpBF (n1, n2) excl = false) (h1 : n1 ∈ fragNames e.tbl)
    (h2 : n2 ∈ fragNames e.tbl) :
    Inv d e { st with cmpBF := ((n1, n2), excl) :: ((n2, n1), excl) :: st.cmpBF,
                        logBF := (n1, n2, excl) :: st.logBF } := by
  have hnew' : memoHas st.cmpBF (n2, n1) excl = false := by
    simp only [memoHas] at hnew ⊢
    rw [← h.bfSym n1 n2]
    exact hnew
  have hnew2 : memoHas (((n2, n1), excl) :: st.cmpBF) (n1, n2) excl = false := by
    have he : (n1, n2) ≠ (n2, n1) := fun he => hne (by cases he; rfl)
    have : ((n1, n2) == (n2, n1)) = false := by simpa using he
    simpa [memoHas, List.lookup_cons, this] using hnew
  refine ⟨h.cacheWF, h.cacheExact, h.ffHas, h.ffNodup, h.ffUniv, ?_, ?_, ?_, ?_⟩
  · intro k hk
    rcases List.mem_cons.1 hk with rfl | hk
    · exact memoHas_insert_self _ _ _
    · exact memoHas_insert_mono _ _ _ _ _ hnew2 (memoHas_insert_mono _ _ _ _ _ hnew' (h.bfHas k hk))
  · refine List.nodup_cons.2 ⟨fun hmem => ?_, h.bfNodup⟩
    have := h.bfHas _ hmem
    simp only at this
    rw [hnew] at this
    cases this
  · intro k hk
    rcases List.mem_cons.1 hk with rfl | hk
    · exact ⟨h1, h2⟩
    · exact h.bfUniv k hk
  · intro a b
    show List.lookup (a, b) (((n1, n2), excl) :: ((n2, n1), excl) :: st.cmpBF) =
      List.lookup (b, a) (((n1, n2), excl) :: ((n2, n1), excl) :: st.cmpBF)
    rw [lookup_two, lookup_two, h.bfSym a b]
    have : ((a, b) = (n1, n2) ∨ (a, b) = (n2, n1)) ↔ ((b, a) = (n1, n2) ∨ (b, a) = (n2, n1)) := by
      simp only [Prod.mk.injEq]
      constructor
      · rintro (⟨rfl, rfl⟩ | ⟨rfl, rfl⟩) <;> simp
      · rintro (⟨rfl, rfl⟩ | ⟨rfl, rfl⟩) <;> simp
    by_cases hc : (a, b) = (n1, n2) ∨ (a, b) = (n2, n1)
    · rw [if_pos hc, if_pos (this.1 hc)]
    · rw [if_neg hc, if_neg (fun h => hc (this.2 h))]

end GqlModel.Validate.Overlap
