import GqlProofs.Ext
/-! Helper lemmas for C17, second part: the execution outcome expected by `Balanced`, and `reported`. -/
namespace GqlModel.Ext

theorem execOut_run (xs : List ExtBehaviour) (hnd : NodupNames xs) (req : RequestOutcomeClass)
    (hre : reachesExec xs req = true) :
    execOut req (run xs req).1 = if anyFault xs .execStart then .err else bodyOut xs req := by
  simp only [execOut, execErrEv_eq, any_or', any_be_run xs hnd req, any_sf_exec xs hnd req, reachesBody, hre,
    Bool.true_and]
  by_cases h6 : anyFault xs .execStart = true
  · simp [h6]
  · have h6' : anyFault xs .execStart = false := by simpa using h6
    simp [h6', bodyOut_eq]

/-! ## Reported: hook errors of the result = panicking hook calls of the log -/

def isHookErr : ErrClass → Bool
  | .hook .. => true
  | .request => false

@[simp] theorem isHookErr_hook (n : Nat) (h : Hook) (k : PanicKind) : isHookErr (.hook n h k) = true := rfl

theorem fc_append (s t : Trace) : faultClasses (s ++ t) = faultClasses s ++ faultClasses t := by
  simp [faultClasses]

theorem reported_of_eq (t : Trace) (r : ResultSummary) (h : faultClasses t = r.errors.filter isHookErr) :
    reported t r = true := by
  simp only [reported, List.all_eq_true, decide_eq_true_eq]
  intro c _
  rw [h]
  exact List.Sublist.count_le _ List.filter_sublist

theorem fc_cons_ok (e : Ev) (t : Trace) (h : e.fault = .ok) : faultClasses (e :: t) = faultClasses t := by
  simp only [faultClasses, List.filterMap_cons, h]
  cases e.hook <;> simp

theorem fc_cons_resolver (e : Ev) (t : Trace) (h : e.hook = .resolver) : faultClasses (e :: t) = faultClasses t := by
  simp only [faultClasses, List.filterMap_cons, h]

theorem fc_cons_panic (e : Ev) (t : Trace) (k : PanicKind) (hh : e.hook ≠ .resolver) (h : e.fault = .panic k) :
    faultClasses (e :: t) = .hook e.ext (errLabel e.hook) k :: faultClasses t := by
  simp only [faultClasses, List.filterMap_cons, h]

@[simp] theorem mkEv_fault (b : ExtBehaviour) (h : Hook) (k : Nat) (o : Out) : (mkEv b h k o).fault = b.beh h := rfl
@[simp] theorem mkEv_hook (b : ExtBehaviour) (h : Hook) (k : Nat) (o : Out) : (mkEv b h k o).hook = h := rfl
@[simp] theorem mkEv_ext (b : ExtBehaviour) (h : Hook) (k : Nat) (o : Out) : (mkEv b h k o).ext = b.name := rfl

theorem fc_handleInits (xs : List ExtBehaviour) :
    faultClasses (handleInits xs).1 = (handleInits xs).2 ∧ ∀ c ∈ (handleInits xs).2, isHookErr c = true := by
  induction xs with
  | nil => exact ⟨rfl, by intro c hc; cases hc⟩
  | cons b rest ih =>
    simp only [handleInits]
    cases hb : b.beh .init with
    | ok => simpa [fc_cons_ok _ _ (show (mkEv b .init 0 .none).fault = .ok from hb)] using ih
    | panic k =>
      simp only [fc_cons_panic _ _ k (by simp) (show (mkEv b .init 0 .none).fault = .panic k from hb)]
      refine ⟨by simp [errLabel, ih.1], ?_⟩
      intro c hc
      rcases List.mem_cons.1 hc with rfl | hc
      · rfl
      · exact ih.2 c hc

theorem fc_didStart (h : Hook) (hh : h ≠ .resolver) (hl : errLabel h = h) (k : Nat) (xs : List ExtBehaviour) :
    faultClasses (didStart h k xs).evs = (didStart h k xs).errs
    ∧ ∀ c ∈ (didStart h k xs).errs, isHookErr c = true := by
  induction xs with
  | nil => exact ⟨rfl, by intro c hc; cases hc⟩
  | cons b rest ih =>
    simp only [didStart]
    cases hb : b.beh h with
    | ok => simpa [fc_cons_ok _ _ (show (mkEv b h k .none).fault = .ok from hb)] using ih
    | panic kk =>
      simp only [fc_cons_panic _ _ kk (by simpa using hh) (show (mkEv b h k .none).fault = .panic kk from hb)]
      refine ⟨by simp [hl, ih.1], ?_⟩
      intro c hc
      rcases List.mem_cons.1 hc with rfl | hc
      · rfl
      · exact ih.2 c hc

theorem fc_finish (h : Hook) (hh : h ≠ .resolver) (hl : errLabel h = h) (k : Nat) (o : Out) (fs : List ExtBehaviour) :
    faultClasses (finish h k o fs).1 = (finish h k o fs).2
    ∧ ∀ c ∈ (finish h k o fs).2, isHookErr c = true := by
  induction fs with
  | nil => exact ⟨rfl, by intro c hc; cases hc⟩
  | cons b rest ih =>
    simp only [finish]
    cases hb : b.beh h with
    | ok => simpa [fc_cons_ok _ _ (show (mkEv b h k o).fault = .ok from hb)] using ih
    | panic kk =>
      simp only [fc_cons_panic _ _ kk (by simpa using hh) (show (mkEv b h k o).fault = .panic kk from hb)]
      refine ⟨by simp [hl, ih.1], ?_⟩
      intro c hc
      rcases List.mem_cons.1 hc with rfl | hc
      · rfl
      · exact ih.2 c hc

theorem fc_results (xs : List ExtBehaviour) :
    faultClasses (addExtensionResults xs).1 = (addExtensionResults xs).2.1
    ∧ ∀ c ∈ (addExtensionResults xs).2.1, isHookErr c = true := by
  induction xs with
  | nil => exact ⟨rfl, by intro c hc; cases hc⟩
  | cons b rest ih =>
    simp only [addExtensionResults]
    cases hb : b.beh .hasResult with
    | panic kk =>
      simp only [fc_cons_panic _ _ kk (by simp) (show (mkEv b .hasResult 0 .none).fault = .panic kk from hb)]
      refine ⟨by simp [errLabel, ih.1], ?_⟩
      intro c hc
      rcases List.mem_cons.1 hc with rfl | hc
      · rfl
      · exact ih.2 c hc
    | ok =>
      have e1 := fun t => fc_cons_ok (mkEv b .hasResult 0 .none) t hb
      by_cases hr : b.hasRes
      · cases hg : b.beh .getResult with
        | ok =>
          simp only [hr, if_true, e1, fc_cons_ok _ _ (show (mkEv b .getResult 0 .none).fault = .ok from hg)]
          exact ih
        | panic kk =>
          simp only [hr, if_true, e1, fc_cons_panic _ _ kk (by simp) (show (mkEv b .getResult 0 .none).fault = .panic kk from hg)]
          refine ⟨by simp [errLabel, ih.1], ?_⟩
          intro c hc
          rcases List.mem_cons.1 hc with rfl | hc
          · rfl
          · exact ih.2 c hc
      · simp only [hr, Bool.false_eq_true, if_false, e1]
        exact ih

theorem fc_resolvePlannedField (xs : List ExtBehaviour) (k : Nat) (fo : FieldOutcome) :
    faultClasses (resolvePlannedField xs k fo).1 = (resolvePlannedField xs k fo).2.filter isHookErr := by
  have s := fc_didStart .resStart (by simp) rfl k xs
  have f := fc_finish .resEnd (by simp) rfl k (if fo.failed then .err else .ok) (didStart .resStart k xs).fs
  have hr : faultClasses [resolverEv k fo] = [] := fc_cons_resolver _ _ rfl
  have hq : (if fo.failed = true then [ErrClass.request] else []).filter isHookErr = [] := by
    split <;> simp [isHookErr]
  simp only [resolvePlannedField, fc_append, List.filter_append, s.1, List.filter_eq_self.2 s.2, hr, hq, f.1,
    List.filter_eq_self.2 f.2, List.append_nil]

theorem fc_executeFields (xs : List ExtBehaviour) (k : Nat) (fs : List FieldOutcome) :
    faultClasses (executeFields xs k fs).1 = (executeFields xs k fs).2.1.filter isHookErr := by
  induction fs generalizing k with
  | nil => rfl
  | cons fo rest ih =>
    simp only [executeFields]
    by_cases hf : fo.fatal
    · simp [hf, fc_resolvePlannedField]
    · simp [hf, fc_append, fc_resolvePlannedField, ih]

theorem fc_execBody (xs : List ExtBehaviour) (req : RequestOutcomeClass) :
    faultClasses (execBody xs req).1 = (execBody xs req).2.1.filter isHookErr := by
  cases req with
  | exec fs => simp only [execBody, fc_executeFields]
  | _ => simp [execBody, faultClasses, isHookErr]

theorem fc_executePlanB (xs : List ExtBehaviour) (body : Body)
    (hbody : faultClasses body.1 = body.2.1.filter isHookErr) :
    faultClasses (executePlanB xs body).1 = (executePlanB xs body).2.errors.filter isHookErr := by
  have Ses := fc_didStart .execStart (by simp) rfl 0 xs
  have Fee := fun o => fc_finish .execEnd (by simp) rfl 0 o (didStart .execStart 0 xs).fs
  have R := fc_results xs
  have fe := fun {l : List ErrClass} (h : ∀ c ∈ l, isHookErr c = true) => List.filter_eq_self.2 h
  simp only [executePlanB]
  by_cases c : (didStart .execStart 0 xs).errs.isEmpty = true
  · have z := nil_of_isEmpty c
    simp only [c, Bool.not_true, Bool.false_eq_true, if_false]
    simp only [fc_append, Ses.1, z, List.nil_append, hbody,
      (Fee _).1, R.1, List.filter_append, fe (Fee _).2, fe R.2]
  · simp only [c, Bool.not_false, if_true, fc_append, Ses.1, (Fee _).1, List.filter_append, fe Ses.2, fe (Fee _).2]

/-- the hook errors of the result of a run are exactly the panicking hook calls of its log, in order -/
theorem fc_runB (xs : List ExtBehaviour) (req : RequestOutcomeClass) (body : Body)
    (hbody : faultClasses body.1 = body.2.1.filter isHookErr) :
    faultClasses (runB xs req body).1 = (runB xs req body).2.errors.filter isHookErr := by
  have I := fc_handleInits xs
  have Sps := fc_didStart .parseStart (by simp) rfl 0 xs
  have Svs := fc_didStart .valStart (by simp) rfl 0 xs
  have Fpe := fun o => fc_finish .parseEnd (by simp) rfl 0 o (didStart .parseStart 0 xs).fs
  have Fve := fun o => fc_finish .valEnd (by simp) rfl 0 o (didStart .valStart 0 xs).fs
  have fe := fun {l : List ErrClass} (h : ∀ c ∈ l, isHookErr c = true) => List.filter_eq_self.2 h
  have hq : [ErrClass.request].filter isHookErr = [] := rfl
  have fcnil : faultClasses [] = [] := rfl
  simp only [runB, pre, early, fc_append, I.1, Sps.1]
  by_cases c1n : (handleInits xs).2.isEmpty = false
  · simp [c1n, fe I.2, fcnil]
  have c1 : (handleInits xs).2.isEmpty = true := by simpa using c1n
  simp only [c1, Bool.not_true, Bool.false_eq_true, if_false]
  simp only [nil_of_isEmpty c1, List.nil_append, fc_append, Sps.1]
  by_cases c2n : (didStart .parseStart 0 xs).errs.isEmpty = false
  · simp [c2n, fc_append, (Fpe _).1, fe Sps.2, fe (Fpe _).2, fcnil, List.filter_append]
  have c2 : (didStart .parseStart 0 xs).errs.isEmpty = true := by simpa using c2n
  simp only [c2, Bool.not_true, Bool.false_eq_true, if_false]
  simp only [nil_of_isEmpty c2, List.nil_append]
  cases req with
  | syntaxErr => simp [fc_append, (Fpe _).1, fe (Fpe _).2, fcnil, List.filter_append, hq]
  | validationErr | operationErr | variableErr | exec _ =>
    simp only [fc_append, (Fpe _).1]
    by_cases c3n : (finish .parseEnd 0 .ok (didStart .parseStart 0 xs).fs).2.isEmpty = false
    · simp [c3n, fe (Fpe _).2, fcnil]
    have c3 : (finish .parseEnd 0 .ok (didStart .parseStart 0 xs).fs).2.isEmpty = true := by simpa using c3n
    simp only [c3, Bool.not_true, Bool.false_eq_true, if_false]
    simp only [nil_of_isEmpty c3, List.nil_append, fc_append, Svs.1]
    by_cases c4n : (didStart .valStart 0 xs).errs.isEmpty = false
    · simp [c4n, fc_append, (Fve _).1, fe Svs.2, fe (Fve _).2, fcnil, List.filter_append]
    have c4 : (didStart .valStart 0 xs).errs.isEmpty = true := by simpa using c4n
    simp only [c4, Bool.not_true, Bool.false_eq_true, if_false]
    simp only [nil_of_isEmpty c4, List.nil_append, fc_append, (Fve _).1]
    first
    | (simp [fe (Fve _).2, fcnil, List.filter_append, hq]; done)
    | (by_cases c5n : (finish .valEnd 0 .ok (didStart .valStart 0 xs).fs).2.isEmpty = false
       · simp [c5n, fe (Fve _).2, fcnil]
       have c5 : (finish .valEnd 0 .ok (didStart .valStart 0 xs).fs).2.isEmpty = true := by simpa using c5n
       simp only [c5, Bool.not_true, Bool.false_eq_true, if_false]
       simp only [nil_of_isEmpty c5, List.nil_append, executeB]
       first
       | (simp [fcnil, hq]; done)
       | exact fc_executePlanB xs _ hbody)

theorem fc_executePlan (xs : List ExtBehaviour) (req : RequestOutcomeClass) :
    faultClasses (executePlan xs req).1 = (executePlan xs req).2.errors.filter isHookErr :=
  fc_executePlanB xs _ (fc_execBody xs req)

theorem fc_run (xs : List ExtBehaviour) (req : RequestOutcomeClass) :
    faultClasses (run xs req).1 = (run xs req).2.errors.filter isHookErr :=
  fc_runB xs req _ (fc_execBody xs req)

theorem reported_run (xs : List ExtBehaviour) (req : RequestOutcomeClass) :
    reported (run xs req).1 (run xs req).2 = true :=
  reported_of_eq _ _ (fc_run xs req)

end GqlModel.Ext
