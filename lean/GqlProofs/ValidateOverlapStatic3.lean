import GqlProofs.ValidateOverlapStatic2
/-! # C02 completeness, part 3d: the induction `covered ⇒ conflict free` -/
namespace GqlModel.Validate.Overlap
open GqlModel.Validate GqlModel.Validate.Graph

variable {d : Document} {e : Env} {π : SelectionSet → Option String} {S : OState}

/-- `Has` answering `true` means a logged execution under a not-weaker flag -/
theorem has_ff_logged (F : Fin d e π S) {id : Loc} {frag : String} {x : Bool}
    (h : memoHas S.cmpFF (id, frag) x = true) : ∃ s, (id, frag, s) ∈ S.logFF ∧ (x = true ∨ s = false) := by
  unfold memoHas at h
  cases hl : List.lookup (id, frag) S.cmpFF with
  | none => rw [hl] at h; cases h
  | some s =>
    rw [hl] at h
    refine ⟨s, F.tbl.ff _ (lookup_mem' _ _ _ hl), ?_⟩
    cases x <;> cases s <;> simp_all

theorem has_bf_logged (F : Fin d e π S) {n1 n2 : String} {x : Bool}
    (h : memoHas S.cmpBF (n1, n2) x = true) :
    ∃ s, ((n1, n2, s) ∈ S.logBF ∨ (n2, n1, s) ∈ S.logBF) ∧ (x = true ∨ s = false) := by
  unfold memoHas at h
  cases hl : List.lookup (n1, n2) S.cmpBF with
  | none => rw [hl] at h; cases h
  | some s =>
    rw [hl] at h
    refine ⟨s, F.tbl.bf _ (lookup_mem' _ _ _ hl), ?_⟩
    cases x <;> cases s <;> simp_all

/-- `NoConf` for two fragments from the coverage of the body of their comparison -/
theorem bf_of_children (F : Fin d e π S) (s : Bool) (n1 n2 : String) {f1 f2 : Frag}
    (h1 : lookupFrag e.tbl n1 = some f1) (h2 : lookupFrag e.tbl n2 = some f2)
    (hch : ∀ c, c ∈ bfCalls e π s n1 n2 f1 f2 → Cov e π S c)
    (ih : ∀ g, meas d e g < meas d e (.bf s n1 n2) → WFG d e π g → CovG e π S g → Cert e π g) :
    Cert e π (.bf s n1 n2) := by
  intro a b ha hb hk
  have hf1 := (lookupFrag_some h1).1
  have hf2 := (lookupFrag_some h2).1
  have hbm1 : bodyMu d e n1 = mu d e.tbl f1.sel := by simp [bodyMu, h1]
  have hbm2 : bodyMu d e n2 = mu d e.tbl f2.sel := by simp [bodyMu, h2]
  rcases hb with ⟨m2, fm2, hr2, hl2, hb2⟩
  cases hr2 with
  | step hedge hrest =>
    -- second fragment spreads `g`: covered by the (G) call `bf s n1 g`
    rename_i g
    rcases shEdge_iff.1 hedge with ⟨f2', hf2', hg⟩
    rw [h2] at hf2'; cases hf2'
    have hc : Call.bf s n1 g ∈ bfCalls e π s n1 n2 f1 f2 := by
      simp only [bfCalls, List.mem_append, List.mem_map]
      exact .inl (.inr ⟨g, (collectInfo_full e _ _).2.1 g hg, rfl⟩)
    have hlt : meas d e (.bf s n1 g) < meas d e (.bf s n1 n2) := by
      have := bodyMu_spread F hg
      simp only [meas, hbm2]; omega
    exact ih (.bf s n1 g) hlt trivial (hch _ hc) a b ha ⟨m2, fm2, hrest, hl2, hb2⟩ hk
  | refl =>
    rw [h2] at hl2; cases hl2
    rcases ha with ⟨m1, fm1, hr1, hl1, ha1⟩
    cases hr1 with
    | step hedge hrest =>
      rename_i g
      rcases shEdge_iff.1 hedge with ⟨f1', hf1', hg⟩
      rw [h1] at hf1'; cases hf1'
      have hc : Call.bf s g n2 ∈ bfCalls e π s n1 n2 f1 f2 := by
        simp only [bfCalls, List.mem_append, List.mem_map]
        exact .inr ⟨g, (collectInfo_full e _ _).2.1 g hg, rfl⟩
      have hlt : meas d e (.bf s g n2) < meas d e (.bf s n1 n2) := by
        have := bodyMu_spread F hg
        simp only [meas, hbm1]; omega
      exact ih (.bf s g n2) hlt trivial (hch _ hc) a b ⟨m1, fm1, hrest, hl1, ha1⟩
        ⟨n2, f2, .refl _, h2, hb2⟩ hk
    | refl =>
      rw [h1] at hl1; cases hl1
      rw [← F.coh.frag f1 hf1] at ha1
      rw [← F.coh.frag f2 hf2] at hb2
      have hc : Call.fc s a.node.key a b ∈ bfCalls e π s n1 n2 f1 f2 := by
        simp only [bfCalls, List.mem_append]
        exact .inl (.inl (betweenCalls_full e s _ _ _ _ a b ha1 hb2 hk))
      have hda : DocField d e π a := ⟨f1.sel, F.coh.fragSets f1 hf1, ha1⟩
      have hdb : DocField d e π b := ⟨f2.sel, F.coh.fragSets f2 hf2, hb2⟩
      have hlt : meas d e (.fc s a b) < meas d e (.bf s n1 n2) := by
        have l1 : selMu d e a.node.sel < mu d e.tbl f1.sel := by
          cases hs : a.node.sel with
          | none => exact mu_pos _
          | some t =>
            have := direct_sel_below_set e _ _ a t ha1 hs
            cases hh : f1.sel with
            | mk sels l => rw [hh] at this; exact mu_nested this
        have l2 : selMu d e b.node.sel < mu d e.tbl f2.sel := by
          cases hs : b.node.sel with
          | none => exact mu_pos _
          | some t =>
            have := direct_sel_below_set e _ _ b t hb2 hs
            cases hh : f2.sel with
            | mk sels l => rw [hh] at this; exact mu_nested this
        simp only [meas, hbm1, hbm2]; omega
      exact ih (.fc s a b) hlt ⟨hda, hdb, hk⟩ (hch _ hc)

theorem selMu_lt (a : FieldOcc) {pt : Option String} {X : SelectionSet} (ha : a ∈ directSet e pt X) :
    selMu d e a.node.sel < mu d e.tbl X := by
  cases hs : a.node.sel with
  | none => exact mu_pos _
  | some t =>
    have := direct_sel_below_set e _ _ a t ha hs
    cases hh : X with
    | mk sels l => rw [hh] at this; exact mu_nested this

/-- `NoConf` for a selection set and a fragment from the coverage of the body of their comparison -/
theorem ff_of_children (F : Fin d e π S) (s : Bool) {X : SelectionSet} (hX : X ∈ allSets d) (frag : String)
    (hap : Apart e X frag) {f : Frag} (hl : lookupFrag e.tbl frag = some f)
    (hch : ∀ c, c ∈ ffCalls e π s X f → Cov e π S c)
    (ih : ∀ g, meas d e g < meas d e (.ff s X frag) → WFG d e π g → CovG e π S g → Cert e π g) :
    Cert e π (.ff s X frag) := by
  intro a b ha hb hk
  have hf := (lookupFrag_some hl).1
  have hbm : bodyMu d e frag = mu d e.tbl f.sel := by simp [bodyMu, hl]
  rcases hb with ⟨m, fm, hr, hlm, hbm'⟩
  cases hr with
  | step hedge hrest =>
    rename_i g
    rcases shEdge_iff.1 hedge with ⟨f', hf', hg⟩
    rw [hl] at hf'; cases hf'
    have hc : Call.ff s (cI e π X) g ∈ ffCalls e π s X f := by
      simp only [ffCalls, List.mem_append, List.mem_map]
      exact .inr ⟨g, (collectInfo_full e _ _).2.1 g hg, rfl⟩
    have hlt : meas d e (.ff s X g) < meas d e (.ff s X frag) := by
      have := bodyMu_spread F hg
      simp only [meas, hbm]; omega
    exact ih (.ff s X g) hlt ⟨hX, apart_step hap hedge⟩ (hch _ hc) a b ha ⟨m, fm, hrest, hlm, hbm'⟩ hk
  | refl =>
    rw [hl] at hlm; cases hlm
    rw [← F.coh.frag f hf] at hbm'
    have hc : Call.fc s a.node.key a b ∈ ffCalls e π s X f := by
      simp only [ffCalls, List.mem_append]
      exact .inl (betweenCalls_full e s _ _ _ _ a b ha hbm' hk)
    have hlt : meas d e (.fc s a b) < meas d e (.ff s X frag) := by
      have l1 := selMu_lt (d := d) a ha
      have l2 := selMu_lt (d := d) b hbm'
      simp only [meas, hbm]; omega
    exact ih (.fc s a b) hlt ⟨⟨X, hX, ha⟩, ⟨f.sel, F.coh.fragSets f hf, hbm'⟩, hk⟩ (hch _ hc)

/-- the pairs inside one fragment's flattened fields are settled by the visit of its body -/
theorem same_frag_pairs (F : Fin d e π S) (x : Bool) (n : String) (bound : Nat)
    (hb : ∀ f, lookupFrag e.tbl n = some f → 4 * mu d e.tbl f.sel < bound)
    (ih : ∀ g, meas d e g < bound → WFG d e π g → CovG e π S g → Cert e π g) :
    ∀ a b, FlatFrag e n a → FlatFrag e n b → a.node.key = b.node.key → ¬ PairConflict e x a b := by
  intro a b ha hb' hk hp
  rcases flatFrag_defined ha with ⟨f, hl⟩
  have hf := (lookupFrag_some hl).1
  have hv := ih (.vis f.sel) (hb f hl) (F.coh.fragSets f hf) (F.vis f.sel (F.coh.fragSets f hf))
  exact hv a b (flatFrag_in_body F.coh hl ha) (flatFrag_in_body F.coh hl hb') hk hp.toFalse

end GqlModel.Validate.Overlap
