import GqlModel.TypeInfoBridge
import GqlProofs.TypeInfoStacks
/-! # Lemmas for the C14 bridge (Props/C14Bridge)

* `bridge_node / bridge_slots / bridge_elems`: the reference walk of C14 (`Visitor.visitNode` …) over `KNode.toNode`, driven
  by the TypeInfo-wrapping visitor `withTypeInfo`, is the structural walk `visitO` over `KNode.flat` — for every tracker,
  every option set, every keyed tree; ids are resolved through the preorder label list.
* `docK_flat`: for a table that lists what `walkChildKeys` says, `(docK keys d).flat = docTree d`.
* `toNode_pre`: the ids of `KNode.toNode k n` in preorder are `n, n+1, …` (distinct). -/
namespace GqlModel.TypeInfoStacks
open GqlModel.Validate GqlModel.Visitor
variable {σ : Type}

theorem visitListO_append (T : Tracker) (o : Opts σ) : ∀ (a b : List TNode) (ti : TI) (st : σ),
    visitListO T o (a ++ b) ti st = visitListO T o b (visitListO T o a ti st).1 (visitListO T o a ti st).2
  | [], b, ti, st => by simp [visitListO]
  | n :: a, b, ti, st => by
    simp only [List.cons_append, visitListO]
    rcases visitO T o n ti st with ⟨ti1, st1⟩
    exact visitListO_append T o a b ti1 st1

theorem labOf_mid (A B : List Label) (l : Label) : labOf (A ++ l :: B) A.length = l := by
  simp [labOf]

/-- the enter callback of `withTypeInfo` at a node labelled `⟨k, l, v⟩` -/
theorem withTI_enter (T : Tracker) (o : Opts σ) (lab : Nat → Label) (id : Nat) (c : Ctx) (k : String) (l : Loc) (v : NodeView)
    (h : lab id = ⟨k, l, v⟩) (ti : TI) (st : σ) :
    (withTypeInfo T lab o).enter (ti, st) id c =
      (match getEnterFn o k with
       | some fn =>
         (match fn st ⟨k, l, regs (T.enter ti v)⟩ with
          | (st1, true) => ((if T.leaveOnSkip then T.leave (T.enter ti v) v else T.enter ti v, st1), Act.skip)
          | (st1, false) => ((T.enter ti v, st1), Act.cont))
       | none => ((T.enter ti v, st), Act.cont)) := by
  simp only [withTypeInfo, h]
  cases getEnterFn o k with
  | none => rfl
  | some fn =>
    simp only []
    rcases fn st ⟨k, l, regs (T.enter ti v)⟩ with ⟨st1, b⟩
    cases b <;> rfl

theorem withTI_leave (T : Tracker) (o : Opts σ) (lab : Nat → Label) (id : Nat) (c : Ctx) (k : String) (l : Loc) (v : NodeView)
    (h : lab id = ⟨k, l, v⟩) (ti : TI) (st : σ) :
    (withTypeInfo T lab o).leave (ti, st) id c =
      (match getLeaveFn o k with
       | some fn => ((T.leave ti v, fn st ⟨k, l, regs ti⟩), Act.cont)
       | none => ((if T.leaveNeedsHandler then ti else T.leave ti v, st), Act.cont)) := by
  simp only [withTypeInfo, h]
  cases getLeaveFn o k <;> rfl

mutual
theorem bridge_node (T : Tracker) (o : Opts σ) (L : List Label) :
    ∀ (n : KNode) (A B : List Label) (c : Ctx) (ti : TI) (st : σ), L = A ++ n.labels ++ B →
      visitNode (withTypeInfo T (labOf L) o) (n.toNode A.length) c (ti, st) = (visitO T o n.flat ti st, false)
  | .mk k l v ss, A, B, c, ti, st, hL => by
    have hlab : labOf L A.length = ⟨k, l, v⟩ := by
      rw [hL]; simp only [KNode.labels, List.cons_append, List.append_assoc]; exact labOf_mid A _ _
    have hss : ∀ (pid : Nat) (path : List Key) (anc : List (Option Nat)) (ti1 : TI) (st1 : σ),
        visitSlots (withTypeInfo T (labOf L) o) pid path anc (KSlot.toSlots ss (A.length + 1)) (ti1, st1) =
          (visitListO T o (KSlot.flatList ss) ti1 st1, false) := by
      intro pid path anc ti1 st1
      have := bridge_slots T o L ss (A ++ [⟨k, l, v⟩]) B pid path anc ti1 st1
        (by rw [hL]; simp [KNode.labels, List.append_assoc])
      simpa using this
    simp only [KNode.toNode, KNode.flat, visitNode, visitO, withTI_enter T o _ _ _ k l v hlab]
    cases hg : getEnterFn o k with
    | none =>
      simp only [hss]
      rcases hV : visitListO T o (KSlot.flatList ss) (T.enter ti v) st with ⟨ti2, st2⟩
      simp only [withTI_leave T o _ _ _ k l v hlab]
      cases getLeaveFn o k <;> rfl
    | some fn =>
      simp only []
      rcases hE : fn st ⟨k, l, regs (T.enter ti v)⟩ with ⟨st1, b⟩
      cases b with
      | true => rfl
      | false =>
        simp only [hss]
        rcases hV : visitListO T o (KSlot.flatList ss) (T.enter ti v) st1 with ⟨ti2, st2⟩
        simp only [withTI_leave T o _ _ _ k l v hlab]
        cases getLeaveFn o k <;> rfl
theorem bridge_slots (T : Tracker) (o : Opts σ) (L : List Label) :
    ∀ (ss : List KSlot) (A B : List Label) (pid : Nat) (path : List Key) (anc : List (Option Nat)) (ti : TI) (st : σ),
      L = A ++ KSlot.labelsList ss ++ B →
      visitSlots (withTypeInfo T (labOf L) o) pid path anc (KSlot.toSlots ss A.length) (ti, st) =
        (visitListO T o (KSlot.flatList ss) ti st, false)
  | [], _, _, _, _, _, _, _, _ => by simp [KSlot.toSlots, KSlot.flatList, visitSlots, visitListO]
  | .absent key :: r, A, B, pid, path, anc, ti, st, hL => by
    simp only [KSlot.toSlots, KSlot.flatList, visitSlots]
    exact bridge_slots T o L r A B pid path anc ti st (by simpa [KSlot.labelsList] using hL)
  | .one key n :: r, A, B, pid, path, anc, ti, st, hL => by
    have h1 := bridge_node T o L n A (KSlot.labelsList r ++ B) ⟨some (.name key), some pid, path ++ [.name key], anc⟩ ti st
      (by rw [hL]; simp [KSlot.labelsList, List.append_assoc])
    simp only [KSlot.toSlots, KSlot.flatList, visitSlots, visitListO, h1]
    rcases visitO T o n.flat ti st with ⟨ti1, st1⟩
    have h2 := bridge_slots T o L r (A ++ n.labels) B pid path anc ti1 st1
      (by rw [hL]; simp [KSlot.labelsList, List.append_assoc])
    simpa using h2
  | .many key [] :: r, A, B, pid, path, anc, ti, st, hL => by
    simp only [KSlot.toSlots, KSlot.flatList, KNode.flatNodes, List.nil_append, visitSlots]
    exact bridge_slots T o L r A B pid path anc ti st (by simpa [KSlot.labelsList, KNode.labelsNodes] using hL)
  | .many key (n :: ns) :: r, A, B, pid, path, anc, ti, st, hL => by
    have h1 := bridge_elems T o L (n :: ns) A (KSlot.labelsList r ++ B) (path ++ [.name key]) (anc ++ [some pid]) 0 ti st
      (by rw [hL]; simp [KSlot.labelsList, List.append_assoc])
    simp only [KNode.toNodes] at h1
    simp only [KSlot.toSlots, KSlot.flatList, visitSlots, h1, visitListO_append]
    rcases visitListO T o (KNode.flatNodes (n :: ns)) ti st with ⟨ti1, st1⟩
    have h2 := bridge_slots T o L r (A ++ KNode.labelsNodes (n :: ns)) B pid path anc ti1 st1
      (by rw [hL]; simp [KSlot.labelsList, List.append_assoc])
    simpa [KNode.labelsNodes, Nat.add_assoc] using h2
theorem bridge_elems (T : Tracker) (o : Opts σ) (L : List Label) :
    ∀ (ns : List KNode) (A B : List Label) (path : List Key) (anc : List (Option Nat)) (i : Nat) (ti : TI) (st : σ),
      L = A ++ KNode.labelsNodes ns ++ B →
      visitElems (withTypeInfo T (labOf L) o) path anc (KNode.toNodes ns A.length) i (ti, st) =
        (visitListO T o (KNode.flatNodes ns) ti st, false)
  | [], _, _, _, _, _, _, _, _ => by simp [KNode.toNodes, KNode.flatNodes, visitElems, visitListO]
  | n :: ns, A, B, path, anc, i, ti, st, hL => by
    have h1 := bridge_node T o L n A (KNode.labelsNodes ns ++ B) ⟨some (.idx i), none, path ++ [.idx i], anc⟩ ti st
      (by rw [hL]; simp [KNode.labelsNodes, List.append_assoc])
    simp only [KNode.toNodes, KNode.flatNodes, visitElems, visitListO, h1]
    rcases visitO T o n.flat ti st with ⟨ti1, st1⟩
    have h2 := bridge_elems T o L ns (A ++ n.labels) B path anc (i + 1) ti1 st1
      (by rw [hL]; simp [KNode.labelsNodes, List.append_assoc])
    simpa using h2
end

/-- the reference walk of C14 over the abstract tree, with the TypeInfo-wrapping visitor, is `visitO` over the flat tree -/
theorem walk_withTypeInfo (T : Tracker) (o : Opts σ) (n : KNode) (ti : TI) (st : σ) :
    walk (withTypeInfo T (labOf n.labels) o) (n.toNode 0) (ti, st) = (visitO T o n.flat ti st, false) := by
  have := bridge_node T o n.labels n [] [] ⟨none, none, [], []⟩ ti st (by simp)
  simpa [walk] using this

/-! ## the keyed document tree, flattened, is `docTree` -/

theorem keysOK_lookup {keys : List (String × List String)} (hK : KeysOK keys) (p : String × List String)
    (hp : p ∈ walkChildKeys) : Tables.lookup keys p.1 = some p.2 := by
  have := List.all_eq_true.mp hK p hp
  simpa using this

theorem flatList_absents : ∀ (ks : List String), KSlot.flatList (ks.map (fun key => KSlot.absent key)) = []
  | [] => rfl
  | k :: ks => by simp [KSlot.flatList, flatList_absents ks]

theorem flat_slotsBy_nil (keys : List (String × List String)) (kind : String) :
    KSlot.flatList (slotsBy keys kind []) = [] := by
  unfold slotsBy
  cases Tables.lookup keys kind with
  | none => rfl
  | some ks =>
    have : ks.map (pick []) = ks.map (fun key => KSlot.absent key) := by simp [pick]
    simp only [this]; exact flatList_absents ks

theorem slotsBy_eq {keys : List (String × List String)} {kind : String} {ks : List String} (cands : List KSlot)
    (h : Tables.lookup keys kind = some ks) :
    slotsBy keys kind cands = ks.map (pick cands) := by
  unfold slotsBy
  rw [h]

@[simp] theorem optOne_key (key : String) (o : Option KNode) : (optOne key o).key = key := by
  cases o <;> rfl

theorem flatList_optOne (key : String) (o : Option KNode) (r : List KSlot) :
    KSlot.flatList (optOne key o :: r) = (match o with | some n => [n.flat] | none => []) ++ KSlot.flatList r := by
  cases o <;> simp [optOne, KSlot.flatList]

theorem flatNodes_map {α : Type} (f : α → KNode) (g : α → TNode) (h : ∀ x, (f x).flat = g x) :
    ∀ (l : List α), KNode.flatNodes (l.map f) = l.map g
  | [] => rfl
  | x :: l => by simp [KNode.flatNodes, h x, flatNodes_map f g h l]

section
set_option linter.unusedSectionVars false
variable {keys : List (String × List String)} (hK : KeysOK keys)
include hK

theorem nameK_flat (n : Name) : (nameK keys n).flat = nameTree n := by
  simp [nameK, KNode.flat, flat_slotsBy_nil, nameTree]

theorem typeK_flat : ∀ (t : TypeRef), (typeK keys t).flat = typeTree t
  | .named _ lc => by
    have h := keysOK_lookup hK ("Named", ["Name"]) (by decide)
    rw [typeK, slotsBy_eq _ h]
    simp [typeTree, KNode.flat, pick, KSlot.key, KSlot.flatList, flat_slotsBy_nil]
  | .list t lc => by
    have h := keysOK_lookup hK ("List", ["Type"]) (by decide)
    simp [typeK, typeTree, KNode.flat, slotsBy, pick, h, KSlot.key, KSlot.flatList, typeK_flat t]
  | .nonNull t lc => by
    have h := keysOK_lookup hK ("NonNull", ["Type"]) (by decide)
    simp [typeK, typeTree, KNode.flat, slotsBy, pick, h, KSlot.key, KSlot.flatList, typeK_flat t]

theorem variableK_flat (lc : Loc) : (variableK keys lc).flat = variableTree lc := by
  have h := keysOK_lookup hK ("Variable", ["Name"]) (by decide)
  rw [variableK, slotsBy_eq _ h]
  simp [variableTree, KNode.flat, pick, KSlot.key, KSlot.flatList, flat_slotsBy_nil]

mutual
theorem valueK_flat : ∀ (v : Value), (valueK keys v).flat = valueTree v
  | .list vs lc => by
    have h := keysOK_lookup hK ("ListValue", ["Values"]) (by decide)
    simp [valueK, valueTree, KNode.flat, slotsBy, pick, h, KSlot.key, KSlot.flatList, valuesK_flat vs]
  | .obj fs lc => by
    have h := keysOK_lookup hK ("ObjectValue", ["Fields"]) (by decide)
    simp [valueK, valueTree, KNode.flat, slotsBy, pick, h, KSlot.key, KSlot.flatList, objFieldsK_flat fs]
  | .var _ lc => by simp [valueK, valueTree, variableK_flat hK]
  | .int .. | .float .. | .str .. | .bool .. | .enum .. => by
    simp [valueK, valueTree, KNode.flat, flat_slotsBy_nil]
theorem valuesK_flat : ∀ (vs : List Value), KNode.flatNodes (valuesK keys vs) = valuesTrees vs
  | [] => by simp [valuesK, valuesTrees, KNode.flatNodes]
  | v :: vs => by simp [valuesK, valuesTrees, KNode.flatNodes, valueK_flat v, valuesK_flat vs]
theorem objFieldsK_flat : ∀ (fs : List ObjField), KNode.flatNodes (objFieldsK keys fs) = objFieldsTrees fs
  | [] => by simp [objFieldsK, objFieldsTrees, KNode.flatNodes]
  | .mk nm v lc :: fs => by
    have h := keysOK_lookup hK ("ObjectField", ["Name", "Value"]) (by decide)
    simp [objFieldsK, objFieldsTrees, KNode.flatNodes, KNode.flat, slotsBy, pick, h, KSlot.key, KSlot.flatList, nameK_flat hK,
      valueK_flat v, objFieldsK_flat fs]
end

theorem argK_flat (a : Argument) : (argK keys a).flat = argTree a := by
  have h := keysOK_lookup hK ("Argument", ["Name", "Value"]) (by decide)
  simp [argK, argTree, KNode.flat, slotsBy, pick, h, KSlot.key, KSlot.flatList, nameK_flat hK, valueK_flat hK]

theorem dirK_flat (d : Directive) : (dirK keys d).flat = dirTree d := by
  have h := keysOK_lookup hK ("Directive", ["Name", "Arguments"]) (by decide)
  simp [dirK, dirTree, KNode.flat, slotsBy, pick, h, KSlot.key, KSlot.flatList, nameK_flat hK,
    flatNodes_map (argK keys) argTree (argK_flat hK)]

theorem varDefK_flat (v : VarDef) : (varDefK keys v).flat = varDefTree v := by
  have h := keysOK_lookup hK ("VariableDefinition", ["Variable", "Type", "DefaultValue"]) (by decide)
  have h2 := keysOK_lookup hK ("Variable", ["Name"]) (by decide)
  cases ht : v.type <;> cases hd : v.default <;>
    simp [varDefK, varDefTree, KNode.flat, slotsBy, pick, h, h2, ht, hd, KSlot.key, optOne, KSlot.flatList, nameK_flat hK,
      typeK_flat hK, valueK_flat hK, optTypeTrees]

mutual
theorem selK_flat : ∀ (x : Selection), (selK keys x).flat = selTree x
  | .field al nm args dirs sel lc => by
    have h := keysOK_lookup hK ("Field", ["Alias", "Name", "Arguments", "Directives", "SelectionSet"]) (by decide)
    have hs := optSetK_flat sel
    cases al <;> cases sel <;>
      simp [selK, selTree, optSetK, KNode.flat, slotsBy, pick, h, KSlot.key, optOne, KSlot.flatList, nameK_flat hK, optNameTrees,
        optSetTrees, flatNodes_map (argK keys) argTree (argK_flat hK), flatNodes_map (dirK keys) dirTree (dirK_flat hK)] at hs ⊢
    all_goals first | exact hs | skip
  | .spread nm dirs lc => by
    have h := keysOK_lookup hK ("FragmentSpread", ["Name", "Directives"]) (by decide)
    simp [selK, selTree, KNode.flat, slotsBy, pick, h, KSlot.key, KSlot.flatList, nameK_flat hK,
      flatNodes_map (dirK keys) dirTree (dirK_flat hK)]
  | .inline tc dirs ss lc => by
    have h := keysOK_lookup hK ("InlineFragment", ["TypeCondition", "Directives", "SelectionSet"]) (by decide)
    cases tc <;>
      simp [selK, selTree, KNode.flat, slotsBy, pick, h, KSlot.key, optOne, KSlot.flatList, typeK_flat hK, optTypeTrees,
        flatNodes_map (dirK keys) dirTree (dirK_flat hK), setK_flat ss]
theorem setK_flat : ∀ (ss : SelectionSet), (setK keys ss).flat = setTree ss
  | .mk sels lc => by
    have h := keysOK_lookup hK ("SelectionSet", ["Selections"]) (by decide)
    simp [setK, setTree, KNode.flat, slotsBy, pick, h, KSlot.key, KSlot.flatList, selsK_flat sels]
theorem optSetK_flat : ∀ (o : Option SelectionSet), KSlot.flatList [optSetK keys o] = optSetTrees o
  | none => by simp [optSetK, optSetTrees, KSlot.flatList]
  | some ss => by simp [optSetK, optSetTrees, KSlot.flatList, setK_flat ss]
theorem selsK_flat : ∀ (xs : List Selection), KNode.flatNodes (selsK keys xs) = selsTrees xs
  | [] => by simp [selsK, selsTrees, KNode.flatNodes]
  | x :: xs => by simp [selsK, selsTrees, KNode.flatNodes, selK_flat x, selsK_flat xs]
end

theorem defK_flat (df : Definition) : (defK keys df).flat = defTree df := by
  cases df with
  | operation op nm vars dirs sel lc =>
    have h := keysOK_lookup hK ("OperationDefinition", ["Name", "VariableDefinitions", "Directives", "SelectionSet"]) (by decide)
    cases nm <;>
      simp [defK, defTree, KNode.flat, slotsBy, pick, h, KSlot.key, optOne, KSlot.flatList, nameK_flat hK, optNameTrees,
        flatNodes_map (varDefK keys) varDefTree (varDefK_flat hK), flatNodes_map (dirK keys) dirTree (dirK_flat hK),
        setK_flat hK]
  | fragment nm tc dirs sel lc =>
    have h := keysOK_lookup hK ("FragmentDefinition", ["Name", "TypeCondition", "Directives", "SelectionSet"]) (by decide)
    simp [defK, defTree, KNode.flat, slotsBy, pick, h, KSlot.key, KSlot.flatList, nameK_flat hK, typeK_flat hK,
      flatNodes_map (dirK keys) dirTree (dirK_flat hK), setK_flat hK]
  | _ => simp [defK, defTree, KNode.flat, KSlot.flatList]

/-- forgetting the keys of the table-ordered tree gives the tree the TypeInfo theorems walk -/
theorem docK_flat (d : Document) : (docK keys d).flat = docTree d := by
  have h := keysOK_lookup hK ("Document", ["Definitions"]) (by decide)
  simp [docK, docTree, KNode.flat, slotsBy, pick, h, KSlot.key, KSlot.flatList, flatNodes_map (defK keys) defTree (defK_flat hK)]

end

/-! ## the ids of the abstract tree are `k, k+1, …` in preorder (so they are distinct) -/

theorem range'_add (k a b : Nat) : List.range' k a ++ List.range' (k + a) b = List.range' k (a + b) := by
  simp [List.range'_append_1]

mutual
theorem toNode_pre : ∀ (n : KNode) (k : Nat), (n.toNode k).pre = List.range' k n.labels.length
  | .mk _ _ _ ss, k => by
    simp only [KNode.toNode, Node.pre, KNode.labels, List.length_cons, toSlots_pre ss (k + 1)]
    rw [List.range'_succ]
theorem toSlots_pre : ∀ (ss : List KSlot) (k : Nat),
    Slot.preList (KSlot.toSlots ss k) = List.range' k (KSlot.labelsList ss).length
  | [], _ => by simp [KSlot.toSlots, Slot.preList, KSlot.labelsList]
  | .absent _ :: r, k => by simp [KSlot.toSlots, Slot.preList, KSlot.labelsList, toSlots_pre r k]
  | .one _ n :: r, k => by
    simp only [KSlot.toSlots, Slot.preList, KSlot.labelsList, List.length_append, toNode_pre n k,
      toSlots_pre r (k + n.labels.length), range'_add]
  | .many _ [] :: r, k => by simp [KSlot.toSlots, Slot.preList, KSlot.labelsList, KNode.labelsNodes, toSlots_pre r k]
  | .many _ (n :: ns) :: r, k => by
    simp only [KSlot.toSlots, Slot.preList, KSlot.labelsList, KNode.labelsNodes, List.length_append, toNode_pre n k,
      toNodes_pre ns (k + n.labels.length), toSlots_pre r (k + n.labels.length + (KNode.labelsNodes ns).length), range'_add]
    rw [Nat.add_assoc k, range'_add]
theorem toNodes_pre : ∀ (ns : List KNode) (k : Nat),
    Node.preList (KNode.toNodes ns k) = List.range' k (KNode.labelsNodes ns).length
  | [], _ => by simp [KNode.toNodes, Node.preList, KNode.labelsNodes]
  | n :: ns, k => by
    simp only [KNode.toNodes, Node.preList, KNode.labelsNodes, List.length_append, toNode_pre n k,
      toNodes_pre ns (k + n.labels.length), range'_add]
end

theorem toNode_pre_nodup (n : KNode) (k : Nat) : (n.toNode k).pre.Nodup := by
  rw [toNode_pre]; exact List.nodup_range' 1

end GqlModel.TypeInfoStacks
