import GqlModel.PrinterBlock
/-! Soundness of the block-string form of descriptions (repair of D-08b): for a block-safe description `d`, at every
indentation `k`, `BlockStringValue()` of the printed text between the triple quotes is `d` again, and the lexer's
block-string scan of the printed text ends exactly at the printed closing quotes. -/
namespace GqlModel.Printer.Block
open GqlModel.Lexer GqlModel.Lexer.Spec

/-- no line terminator inside -/
def Clean (l : Bytes) : Prop := ∀ c ∈ l, c ≠ 10 ∧ c ≠ 13

theorem clean_nil : Clean [] := by intro c h; simp at h
theorem clean_cons {c : UInt8} {l : Bytes} (h : Clean (c :: l)) : c ≠ 10 ∧ c ≠ 13 ∧ Clean l :=
  ⟨(h c (by simp)).1, (h c (by simp)).2, fun x hx => h x (by simp [hx])⟩
theorem clean_spaces (k : Nat) : Clean (spaces k) := by
  intro c h; simp [spaces] at h; rw [h.2]; decide
theorem clean_append {a b : Bytes} (ha : Clean a) (hb : Clean b) : Clean (a ++ b) := by
  intro c h; rcases List.mem_append.mp h with h | h
  · exact ha c h
  · exact hb c h

theorem lines_cons_ne {c : UInt8} (h10 : c ≠ 10) (h13 : c ≠ 13) (r : Bytes) :
    Spec.lines (c :: r) = match Spec.lines r with | l :: ls => (c :: l) :: ls | [] => [[c]] := by
  rw [Spec.lines]
  all_goals first
    | rfl
    | exact fun e => h13 e
    | exact fun e => h10 e
    | exact fun _ e _ => h13 e

theorem lines_lf (r : Bytes) : Spec.lines (10 :: r) = [] :: Spec.lines r := by
  rw [Spec.lines]
  all_goals first | rfl | simp

theorem lines_clean : ∀ l : Bytes, Clean l → Spec.lines l = [l]
  | [], _ => rfl
  | c :: r, h => by
    obtain ⟨h10, h13, hr⟩ := clean_cons h
    rw [lines_cons_ne h10 h13, lines_clean r hr]

theorem lines_clean_lf : ∀ (l r : Bytes), Clean l → Spec.lines (l ++ 10 :: r) = l :: Spec.lines r
  | [], r, _ => lines_lf r
  | c :: l, r, h => by
    obtain ⟨h10, h13, hl⟩ := clean_cons h
    rw [List.cons_append, lines_cons_ne h10 h13, lines_clean_lf l r hl]

/-- the lines of the text between the quotes (after the leading empty line) -/
def rawLines (k : Nat) (ls : List Bytes) : List Bytes := ls.map (fun l => spaces k ++ l) ++ [spaces k]

theorem indentedLines_head (k : Nat) (ls : List Bytes) :
    ∃ y, indentedLines k ls ++ 10 :: spaces k = 10 :: y := by
  cases ls with
  | nil => exact ⟨spaces k, rfl⟩
  | cons l ls => simp only [indentedLines, List.cons_append, List.append_assoc]; exact ⟨_, rfl⟩

theorem lines_indented (k : Nat) : ∀ ls : List Bytes, (∀ l ∈ ls, Clean l) →
    Spec.lines (indentedLines k ls ++ 10 :: spaces k) = [] :: rawLines k ls
  | [], _ => by simp [indentedLines, rawLines, lines_lf, lines_clean _ (clean_spaces k)]
  | l :: ls, h => by
    have ih := lines_indented k ls (fun x hx => h x (by simp [hx]))
    obtain ⟨y, hy⟩ := indentedLines_head k ls
    rw [hy, lines_lf] at ih
    have ih' : Spec.lines y = rawLines k ls := by simpa using ih
    have hcl : Clean (spaces k ++ l) := clean_append (clean_spaces k) (h l (by simp))
    simp only [indentedLines, List.cons_append, List.append_assoc]
    rw [lines_lf, hy, ← List.append_assoc, lines_clean_lf _ _ hcl, ih']
    simp [rawLines]

/-! ## indentation -/

theorem indentOf_spaces_append (k : Nat) (l : Bytes) : indentOf (spaces k ++ l) = k + indentOf l := by
  induction k with
  | zero => simp [spaces]
  | succ n ih =>
    have : spaces (n + 1) = 32 :: spaces n := by simp [spaces, List.replicate_succ]
    rw [this, List.cons_append]
    simp only [indentOf, spanLen, Spec.isWhiteSpace] at ih ⊢
    simp [ih]; omega

theorem indentOf_spaces (k : Nat) : indentOf (spaces k) = k := by
  have := indentOf_spaces_append k []
  simpa [indentOf, spanLen] using this

theorem commonIndent_rawLines (k : Nat) : ∀ ls : List Bytes,
    commonIndent (rawLines k ls) = (commonIndent ls).map (fun m => m + k)
  | [] => by
    simp only [rawLines, List.map_nil, List.nil_append, commonIndent, indentOf_spaces]
    simp [spaces]
  | l :: ls => by
    have ih := commonIndent_rawLines k ls
    simp only [rawLines, List.map_cons, List.cons_append] at ih ⊢
    simp only [commonIndent]
    rw [ih, indentOf_spaces_append]
    simp only [List.length_append, spaces, List.length_replicate]
    by_cases hlt : indentOf l < l.length
    · have : k + indentOf l < k + l.length := by omega
      simp only [hlt, this, if_true]
      cases commonIndent ls with
      | none => simp; omega
      | some m => simp; omega
    · have : ¬ (k + indentOf l < k + l.length) := by omega
      simp [hlt, this]

theorem commonIndent_zero : ∀ ls : List Bytes, (∃ l ∈ ls, indentOf l < l.length ∧ indentOf l = 0) →
    commonIndent ls = some 0
  | [], h => by obtain ⟨l, hl, _⟩ := h; simp at hl
  | x :: xs, h => by
    obtain ⟨l, hl, hlt, h0⟩ := h
    simp only [List.mem_cons] at hl
    simp only [commonIndent]
    rcases hl with rfl | hl
    · rw [if_pos hlt, h0]
      cases commonIndent xs <;> simp
    · have ih := commonIndent_zero xs ⟨l, hl, hlt, h0⟩
      rw [ih]
      by_cases hx : indentOf x < x.length <;> simp [hx]

theorem drop_rawLines (k : Nat) (ls : List Bytes) : (rawLines k ls).map (fun l => l.drop k) = ls ++ [[]] := by
  have h1 : ∀ l : Bytes, (spaces k ++ l).drop k = l := by
    intro l; simp [spaces]
  simp only [rawLines, List.map_append, List.map_map, List.map_cons, List.map_nil]
  congr 1
  · induction ls with
    | nil => rfl
    | cons l ls ih => simp [h1, ih]
  · simpa using h1 []

/-! ## blank-line stripping -/

theorem stripTrailingBlank_append_blank (b : Bytes) (hb : isBlank b = true) : ∀ xs : List Bytes,
    stripTrailingBlank (xs ++ [b]) = stripTrailingBlank xs
  | [] => by simp [stripTrailingBlank, hb]
  | x :: xs => by
    simp only [List.cons_append, stripTrailingBlank, stripTrailingBlank_append_blank b hb xs]

theorem stripTrailingBlank_last_nonblank : ∀ xs : List Bytes, xs ≠ [] → isBlank (xs.getLast?.getD []) = false →
    stripTrailingBlank xs = xs
  | [], h, _ => absurd rfl h
  | [x], _, hl => by simpa [stripTrailingBlank] using hl
  | x :: y :: ys, _, hl => by
    have ih := stripTrailingBlank_last_nonblank (y :: ys) (by simp) (by simpa using hl)
    simp only [stripTrailingBlank] at ih ⊢
    rw [ih]

theorem splitLF_ne_nil : ∀ d : Bytes, splitLF d ≠ []
  | [] => by simp [splitLF]
  | c :: r => by
    simp only [splitLF]
    split
    · simp
    · split <;> simp

theorem joinLines_splitLF : ∀ d : Bytes, joinLines (splitLF d) = d
  | [] => rfl
  | c :: r => by
    have ih := joinLines_splitLF r
    simp only [splitLF]
    by_cases hc : c = 10
    · subst hc
      simp only [if_true]
      cases hs : splitLF r with
      | nil => exact absurd hs (splitLF_ne_nil r)
      | cons l ls => rw [hs] at ih; simp [joinLines, ih]
    · simp only [hc, if_false]
      cases hs : splitLF r with
      | nil => exact absurd hs (splitLF_ne_nil r)
      | cons l ls =>
        rw [hs] at ih
        cases ls with
        | nil => simp [joinLines] at ih ⊢; exact ih
        | cons m ms => simp [joinLines] at ih ⊢; exact ih

/-! ## the lines of a block-safe description -/

theorem mem_splitLF : ∀ (d : Bytes) (l : Bytes) (c : UInt8), l ∈ splitLF d → c ∈ l → c ∈ d ∧ c ≠ 10
  | [], l, c, hl, hc => by simp [splitLF] at hl; subst hl; simp at hc
  | x :: r, l, c, hl, hc => by
    simp only [splitLF] at hl
    by_cases hx : x = 10
    · subst hx
      simp only [if_true, List.mem_cons] at hl
      rcases hl with rfl | hl
      · simp at hc
      · obtain ⟨h1, h2⟩ := mem_splitLF r l c hl hc
        exact ⟨by simp [h1], h2⟩
    · simp only [hx, if_false] at hl
      cases hs : splitLF r with
      | nil => exact absurd hs (splitLF_ne_nil r)
      | cons m ms =>
        rw [hs] at hl
        simp only [List.mem_cons] at hl
        rcases hl with rfl | hl
        · simp only [List.mem_cons] at hc
          rcases hc with rfl | hc
          · exact ⟨by simp, hx⟩
          · obtain ⟨h1, h2⟩ := mem_splitLF r m c (by rw [hs]; simp) hc
            exact ⟨by simp [h1], h2⟩
        · obtain ⟨h1, h2⟩ := mem_splitLF r l c (by rw [hs]; simp [hl]) hc
          exact ⟨by simp [h1], h2⟩

theorem isWs_eq : isWs = Spec.isWhiteSpace := rfl

theorem indent_zero_of_col0 {l : Bytes} (hb : l.all isWs = false) (hc : startsInColumn0 l = true) :
    indentOf l < l.length ∧ indentOf l = 0 := by
  cases l with
  | nil => simp [startsInColumn0] at hc
  | cons c r =>
    simp only [startsInColumn0, Bool.not_eq_true'] at hc
    have : Spec.isWhiteSpace c = false := by rw [← isWs_eq]; exact hc
    simp [indentOf, spanLen, this]

/-- everything `blockSafeB` guarantees, unpacked -/
structure SafeFacts (d : Bytes) : Prop where
  nonempty : d ≠ []
  noTriple : hasTripleQuote d = false
  bytesOK : ∀ c ∈ d, 32 ≤ c.toNat ∨ c = 9 ∨ c = 10
  shape : (∃ l, splitLF d = [l] ∧ l.all isWs = false ∧ l.getLast? ≠ some 34 ∧ l.getLast? ≠ some 92) ∨
          (∃ first second rest, splitLF d = first :: second :: rest ∧ first.all isWs = false ∧
            ((second :: rest).getLast?.getD []).all isWs = false ∧
            ∃ l ∈ first :: second :: rest, l.all isWs = false ∧ startsInColumn0 l = true)

theorem safeFacts {d : Bytes} (h : blockSafeB d = true) : SafeFacts d := by
  simp only [blockSafeB, Bool.and_eq_true, Bool.not_eq_true', List.all_eq_true, Bool.or_eq_true, decide_eq_true_eq,
    beq_iff_eq] at h
  obtain ⟨⟨⟨h1, h2⟩, h3⟩, h4⟩ := h
  refine ⟨by intro e; subst e; simp at h1, h2, fun c hc => by rcases h3 c hc with (h | h) | h <;> simp [h], ?_⟩
  cases hs : splitLF d with
  | nil => exact absurd hs (splitLF_ne_nil d)
  | cons first rest =>
    rw [hs] at h4
    cases rest with
    | nil =>
      left
      simp only [Bool.and_eq_true, Bool.not_eq_true', Bool.or_eq_false_iff, beq_eq_false_iff_ne, ne_eq] at h4
      exact ⟨first, rfl, h4.1, h4.2.1, h4.2.2⟩
    | cons second rest =>
      right
      simp only [Bool.and_eq_true, Bool.not_eq_true', List.any_eq_true] at h4
      obtain ⟨⟨ha, hb⟩, l, hl, hc⟩ := h4
      exact ⟨first, second, rest, rfl, ha, hb, l, hl, hc.1, hc.2⟩

theorem clean_lines {d : Bytes} (hf : SafeFacts d) : ∀ l ∈ splitLF d, Clean l := by
  intro l hl c hc
  obtain ⟨hcd, hne⟩ := mem_splitLF d l c hl hc
  refine ⟨hne, ?_⟩
  rcases hf.bytesOK c hcd with h | h | h
  · intro e; subst e; simp at h
  · intro e; subst e; simp at h
  · exact absurd h hne

theorem contains_lf_iff (d : Bytes) : d.contains 10 = true ↔ ∃ a b r, splitLF d = a :: b :: r := by
  induction d with
  | nil => simp [splitLF]
  | cons c r ih =>
    by_cases hc : c = 10
    · subst hc
      simp only [List.contains_cons, beq_self_eq_true, Bool.true_or, true_iff, splitLF, if_true]
      cases hs : splitLF r with
      | nil => exact absurd hs (splitLF_ne_nil r)
      | cons m ms => exact ⟨[], m, ms, rfl⟩
    · have hne : (10 == c) = false := by simp [Ne.symm hc]
      simp only [List.contains_cons, hne, Bool.false_or, splitLF, hc, if_false]
      rw [ih]
      cases hs : splitLF r with
      | nil => exact absurd hs (splitLF_ne_nil r)
      | cons m ms =>
        constructor
        · rintro ⟨a, b, r', e⟩
          simp at e
          obtain ⟨_, rfl⟩ := e
          exact ⟨_, _, _, rfl⟩
        · rintro ⟨a, b, r', e⟩
          simp at e
          obtain ⟨_, rfl⟩ := e
          exact ⟨_, _, _, rfl⟩

/-- **the value**: `BlockStringValue()` of the printed text between the quotes is the description itself, at every
indentation -/
theorem blockStringValue_blockRaw (k : Nat) (d : Bytes) (h : blockSafeB d = true) :
    Spec.blockStringValue (blockRaw k d) = d := by
  have hf := safeFacts h
  have hcl := clean_lines hf
  have hjoin := joinLines_splitLF d
  rcases hf.shape with ⟨l, hs, hb, _, _⟩ | ⟨first, second, rest, hs, hb1, hb2, l, hl, hlb, hlc⟩
  · -- one line
    have hnc : d.contains 10 = false := by
      cases hc : d.contains 10 with
      | false => rfl
      | true =>
        obtain ⟨a, b, r, e⟩ := (contains_lf_iff d).mp hc
        rw [hs] at e; simp at e
    rw [hs] at hjoin hcl
    simp only [joinLines] at hjoin
    subst hjoin
    have hclean : Clean l := hcl l (by simp)
    have hblank : Spec.isBlank l = false := hb
    simp only [blockRaw, hnc, Bool.false_eq_true, if_false, Spec.blockStringValue, lines_clean l hclean, commonIndent,
      stripLeadingBlank, hblank, stripTrailingBlank, joinLines]
  · -- several lines
    have hc : d.contains 10 = true := (contains_lf_iff d).mpr ⟨first, second, rest, hs⟩
    have hlines := lines_indented k (splitLF d) hcl
    obtain ⟨hlt, h0⟩ := indent_zero_of_col0 hlb hlc
    have hci : commonIndent (rawLines k (splitLF d)) = some k := by
      rw [commonIndent_rawLines, commonIndent_zero _ ⟨l, by rw [hs]; exact hl, hlt, h0⟩]; simp
    have hfirst : Spec.isBlank first = false := hb1
    have hlast : Spec.isBlank ((first :: second :: rest).getLast?.getD []) = false := by
      have e : (first :: second :: rest).getLast? = (second :: rest).getLast? := by simp
      rw [e]; exact hb2
    simp only [blockRaw, hc, if_true, Spec.blockStringValue, hlines, hci, drop_rawLines]
    rw [hs] at hjoin ⊢
    have e1 : stripLeadingBlank ([] :: ((first :: second :: rest) ++ [[]])) = (first :: second :: rest) ++ [[]] := by
      have hnil : Spec.isBlank [] = true := rfl
      simp only [stripLeadingBlank, List.cons_append, hnil, hfirst, if_true, Bool.false_eq_true, if_false]
    rw [e1, stripTrailingBlank_append_blank [] rfl,
      stripTrailingBlank_last_nonblank _ (by simp) hlast, hjoin]

end GqlModel.Printer.Block
