import GqlProofs.ExecChecker
import GqlProofs.ExecResolved
import GqlProofs.CoerceBasic
/-! C04: the checker is COMPLETE for the specification with the fuel the driver uses: data that conforms is accepted
(`odepth v + 1` levels suffice), so a `false` verdict on the real executor's data means that data does not conform. -/
namespace GqlModel.Exec
open GqlModel.Coerce

/-- pointwise order on checkers -/
def SelfLe (f g : GType → List FieldNode → JVal → Bool) : Prop := ∀ t nodes v, f t nodes v = true → g t nodes v = true

theorem fieldConformB_mono {c : Ctx} {f g : GType → List FieldNode → JVal → Bool} (hfg : SelfLe f g)
    (ot : String) (groups : Groups) (k : String) (v : JVal) (h : fieldConformB c f ot groups k v = true) :
    fieldConformB c g ot groups k v = true := by
  unfold fieldConformB at h ⊢
  rw [List.any_eq_true] at h ⊢
  obtain ⟨gr, hg, h⟩ := h
  refine ⟨gr, hg, ?_⟩
  simp only [Bool.and_eq_true] at h ⊢
  refine ⟨h.1, ?_⟩
  have h2 := h.2
  cases hh : gr.2.head? with
  | none => simp only [hh] at h2; cases h2
  | some node =>
    simp only [hh] at h2 ⊢
    by_cases hn : (node.name == "__typename") = true
    · simp only [hn, if_true] at h2 ⊢; exact h2
    · simp only [hn] at h2 ⊢
      cases hfd : fieldDef? c.schema ot node.name with
      | none => simp only [hfd] at h2; cases h2
      | some fd => simp only [hfd] at h2 ⊢; exact hfg _ _ _ h2

theorem fieldsConformB_mono {c : Ctx} {f g : GType → List FieldNode → JVal → Bool} (hfg : SelfLe f g)
    (ot : String) (groups : Groups) (fs : List (String × JVal)) (h : fieldsConformB c f ot groups fs = true) :
    fieldsConformB c g ot groups fs = true := by
  unfold fieldsConformB at h ⊢
  rw [List.all_eq_true] at h ⊢
  exact fun kv hkv => fieldConformB_mono hfg _ _ _ _ (h kv hkv)

theorem conformsStep_mono {c : Ctx} {f g : GType → List FieldNode → JVal → Bool} (hfg : SelfLe f g) :
    SelfLe (conformsStep c f) (conformsStep c g) := by
  intro t
  induction t with
  | nonNull t ih =>
    intro nodes v h
    simp only [conformsStep, Bool.and_eq_true] at h ⊢
    exact ⟨h.1, ih nodes v h.2⟩
  | list t ih =>
    intro nodes v h
    simp only [conformsStep] at h ⊢
    split at h
    · rfl
    · rename_i xs
      rw [List.all_eq_true] at h ⊢
      exact fun x hx => ih nodes x (h x hx)
    · cases h
  | named n =>
    intro nodes v h
    simp only [conformsStep] at h ⊢
    split at h
    · rfl
    · split at h
      · rename_i hleaf; simp only [hleaf, if_true]; exact h
      · rename_i hleaf
        simp only [hleaf]
        split at h
        · rename_i fs
          split at h
          · rename_i habs
            simp only [habs, if_true, Bool.false_eq_true, if_false]
            rw [List.any_eq_true] at h ⊢
            obtain ⟨ot, hot, h⟩ := h
            simp only [Bool.and_eq_true] at h ⊢
            exact ⟨ot, hot, h.1, fieldsConformB_mono hfg _ _ _ h.2⟩
          · rename_i habs
            split at h
            · rename_i hobj
              simp only [habs, hobj, if_true, Bool.false_eq_true, if_false]
              exact fieldsConformB_mono hfg _ _ _ h
            · cases h
        · cases h

theorem conformsF_succ_le (c : Ctx) : ∀ n, SelfLe (conformsF c n) (conformsF c (n + 1))
  | 0 => by intro t nodes v h; simp [conformsF] at h
  | n + 1 => by
    intro t nodes v h
    exact conformsStep_mono (conformsF_succ_le c n) t nodes v h

theorem conformsF_mono (c : Ctx) {n m : Nat} (h : n ≤ m) : SelfLe (conformsF c n) (conformsF c m) := by
  induction h with
  | refl => exact fun _ _ _ h => h
  | step _ ih => exact fun t nodes v h => conformsF_succ_le c _ t nodes v (ih t nodes v h)

theorem odepth_mem_fields {kv : String × JVal} {fs : List (String × JVal)} (h : kv ∈ fs) : odepth kv.2 ≤ odepthFields fs := by
  induction fs with
  | nil => cases h
  | cons a fs ih =>
    obtain ⟨k, x⟩ := a
    simp only [odepthFields]
    rcases List.mem_cons.mp h with h | h
    · subst h; exact Nat.le_max_left _ _
    · exact Nat.le_trans (ih h) (Nat.le_max_right _ _)

mutual
theorem conformsF_complete (c : Ctx) : ∀ {t : GType} {nodes : List FieldNode} {v : JVal},
    Conforms c t nodes v → conformsF c (odepth v + 1) t nodes v = true
  | _, _, _, .nonNull hv h => by
    have ih := conformsF_complete c h
    simp only [conformsF, conformsStep, Bool.and_eq_true] at ih ⊢
    refine ⟨?_, ih⟩
    rename_i v _ _
    cases v <;> simp_all [JVal.isNull]
  | _, _, _, .listNull => by simp [conformsF, conformsStep]
  | _, _, _, .list (xs := xs) hx => by
    simp only [conformsF, conformsStep, List.all_eq_true]
    intro x hxm
    have ih := conformsF_complete c (hx x hxm)
    have hle : odepth x + 1 ≤ odepth (JVal.list xs) + 1 := by
      simp only [odepth]; exact Nat.succ_le_succ (odepth_mem_list hxm)
    have := conformsF_mono c hle _ _ _ ih
    simpa only [conformsF] using this
  | _, _, _, .null => by simp [conformsF, conformsStep]
  | _, _, _, .leaf (v := v) hleaf hlegal => by
    simp only [conformsF, conformsStep]
    split
    · rfl
    · simp only [hleaf, if_true]; exact hlegal
  | _, _, _, .object (n := n) (nodes := nodes) (fs := fs) hobj hf => by
    have hnl : c.schema.isLeaf n = false := by
      cases hl : c.schema.isLeaf n with
      | false => rfl
      | true => rw [isLeaf_not_object hl] at hobj; cases hobj
    have hna : c.schema.isAbstract n = false := by
      cases ha : c.schema.isAbstract n with
      | false => rfl
      | true => rw [isAbstract_not_object ha] at hobj; cases hobj
    simp only [conformsF, conformsStep, hnl, hna, hobj, if_true, Bool.false_eq_true, if_false, fieldsConformB,
      List.all_eq_true]
    intro kv hkv
    have ih := fieldConforms_complete c (hf kv hkv)
    refine fieldConformB_mono (conformsF_mono c ?_) _ _ _ _ ih
    simp only [odepth]
    have := odepth_mem_fields hkv
    omega
  | _, _, _, .abstract (n := n) (ot := ot) (nodes := nodes) (fs := fs) habs hobj hposs hf => by
    have hnl : c.schema.isLeaf n = false := by
      cases hl : c.schema.isLeaf n with
      | false => rfl
      | true => rw [isLeaf_not_abstract hl] at habs; cases habs
    simp only [conformsF, conformsStep, hnl, habs, if_true, Bool.false_eq_true, if_false, List.any_eq_true,
      Bool.and_eq_true]
    refine ⟨ot, by simpa [Schema.isPossibleType] using hposs, hobj, ?_⟩
    simp only [fieldsConformB, List.all_eq_true]
    intro kv hkv
    have ih := fieldConforms_complete c (hf kv hkv)
    refine fieldConformB_mono (conformsF_mono c ?_) _ _ _ _ ih
    simp only [odepth]
    have := odepth_mem_fields hkv
    omega
theorem fieldConforms_complete (c : Ctx) : ∀ {ot : String} {groups : Groups} {k : String} {v : JVal},
    FieldConforms c ot groups k v → fieldConformB c (conformsF c (odepth v + 1)) ot groups k v = true
  | _, _, _, _, .typename (ns := ns) hg hnode hn => by
    simp only [fieldConformB, List.any_eq_true, Bool.and_eq_true]
    refine ⟨_, hg, by simp, ?_⟩
    simp [hnode, hn]
  | _, _, _, _, .field (ns := ns) (node := node) hg hnode hn hfd hc => by
    have ih := conformsF_complete c hc
    simp only [fieldConformB, List.any_eq_true, Bool.and_eq_true]
    refine ⟨_, hg, by simp, ?_⟩
    simp only [hnode, hfd]
    have : (node.name == "__typename") = false := by simpa using hn
    simp only [this, Bool.false_eq_true, if_false]
    exact ih
end

/-- completeness of the checker at a position -/
theorem conformsB_complete (c : Ctx) (t : GType) (nodes : List FieldNode) (v : JVal) (h : Conforms c t nodes v) :
    conformsB c (odepth v + 1) t nodes v = true := conformsF_complete c h

/-- completeness of the driver op -/
theorem conformsData_complete (s : Schema) (doc : Document) (opName : String) (inputs : Vars) (w : World)
    (data : List (String × JVal)) (c : Ctx) (root : String) (sel : SelectionSet)
    (hc : requestCtx s doc opName inputs w = some (c, root, sel))
    (h : FieldsConform c root (rootGroups c root sel) data) : conformsData s doc opName inputs w data = true := by
  unfold conformsData
  rw [hc]
  simp only [fieldsConformB, List.all_eq_true]
  intro kv hkv
  refine fieldConformB_mono (conformsF_mono c ?_) _ _ _ _ (fieldConforms_complete c (h kv hkv))
  have := odepth_mem_fields hkv
  omega

end GqlModel.Exec
