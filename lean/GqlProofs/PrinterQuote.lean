import GqlModel.PrinterBytes
/-! `unquoteB (quoteB s ++ rest) = some (s, rest)` for every byte string `s` and every continuation `rest`. -/
namespace GqlModel.Printer.Bytes

theorem hexVal_hexDigitB (n : Nat) (h : n < 16) : hexVal (hexDigitB n) = some n := by
  have : n = 0 ∨ n = 1 ∨ n = 2 ∨ n = 3 ∨ n = 4 ∨ n = 5 ∨ n = 6 ∨ n = 7 ∨ n = 8 ∨ n = 9 ∨ n = 10 ∨ n = 11 ∨ n = 12 ∨
      n = 13 ∨ n = 14 ∨ n = 15 := by omega
  rcases this with h|h|h|h|h|h|h|h|h|h|h|h|h|h|h|h <;> subst h <;> decide

theorem toUInt8_toNat (b : B) : (b.toNat).toUInt8 = b := by
  cases b; simp [Nat.toUInt8, UInt8.toNat, UInt8.ofNat]

/-- one loop iteration of `readString` undoes one iteration of `quoteString` -/
theorem esc_step (b : B) (n : Nat) (rest : List B) :
    unquoteBodyB (n + 1) (escB b ++ rest) = (unquoteBodyB n rest).map (fun (v, r) => (b :: v, r)) := by
  unfold escB
  split
  · subst_vars; simp [unquoteBodyB, unescapeB]
  split
  · subst_vars; simp [unquoteBodyB, unescapeB]
  split
  · subst_vars; simp [unquoteBodyB, unescapeB]
  split
  · subst_vars; simp [unquoteBodyB, unescapeB]
  split
  · subst_vars; simp [unquoteBodyB, unescapeB]
  split
  · subst_vars; simp [unquoteBodyB, unescapeB]
  split
  · subst_vars; simp [unquoteBodyB, unescapeB]
  split
  · rename_i h8
    have hlt : b.toNat / 16 < 16 := by have := b.toNat_lt; omega
    have hlt2 : b.toNat % 16 < 16 := by omega
    have h0 : hexVal 48 = some 0 := by decide
    have hsmall : b.toNat < 128 := by
      rcases h8 with h | h
      · have : b.toNat < 32 := h; omega
      · subst h; decide
    have hb : encodeRune (b.toNat / 16 * 16 + b.toNat % 16) = [b] := by
      have : b.toNat / 16 * 16 + b.toNat % 16 = b.toNat := by omega
      rw [this]; simp [encodeRune, hsmall]
    simp [unquoteBodyB, unescapeB, hexVal_hexDigitB _ hlt, hexVal_hexDigitB _ hlt2, h0, hb]
  · rename_i h1 h2 h3 h4 h5 h6 h7 h8
    have hge : ¬ (b < 32) := fun h => h8 (Or.inl h)
    simp [unquoteBodyB, h1, h2, h5, h6, hge]

theorem quote_roundtrip (s rest : List B) :
    ∀ n, s.length < n → unquoteBodyB n (quoteBodyB s ++ 34 :: rest) = some (s, rest) := by
  induction s with
  | nil => intro n hn; obtain ⟨m, rfl⟩ : ∃ m, n = m + 1 := ⟨n - 1, by simp at hn; omega⟩; simp [quoteBodyB, unquoteBodyB]
  | cons b bs ih =>
    intro n hn
    obtain ⟨m, rfl⟩ : ∃ m, n = m + 1 := ⟨n - 1, by simp at hn; omega⟩
    simp only [quoteBodyB, List.append_assoc]
    rw [esc_step, ih m (by simp at hn; omega)]
    rfl

theorem esc_length (b : B) : 1 ≤ (escB b).length := by
  unfold escB
  split <;> try simp
  split <;> try simp
  split <;> try simp
  split <;> try simp
  split <;> try simp
  split <;> try simp
  split <;> try simp
  split <;> simp

theorem quoteBodyB_length (s : List B) : s.length ≤ (quoteBodyB s).length := by
  induction s with
  | nil => simp [quoteBodyB]
  | cons b bs ih => simp only [quoteBodyB, List.length_append, List.length_cons]; have := esc_length b; omega

theorem unquoteB_quoteB (s rest : List B) : unquoteB (quoteB s ++ rest) = some (s, rest) := by
  simp only [quoteB, unquoteB, List.cons_append, List.append_assoc]
  apply quote_roundtrip
  have := quoteBodyB_length s
  simp; omega

/-- every byte `quoteString` emits between the two quotes is ≥ 0x20: the printed form of a string value never
contains a raw line terminator or other control byte (so `indent` never touches string values) -/
theorem escB_printable (b : B) : ∀ x ∈ escB b, 32 ≤ x := by
  have hd : ∀ n, n < 16 → 32 ≤ hexDigitB n := by
    intro n h
    have : n = 0 ∨ n = 1 ∨ n = 2 ∨ n = 3 ∨ n = 4 ∨ n = 5 ∨ n = 6 ∨ n = 7 ∨ n = 8 ∨ n = 9 ∨ n = 10 ∨ n = 11 ∨ n = 12 ∨
        n = 13 ∨ n = 14 ∨ n = 15 := by omega
    rcases this with h|h|h|h|h|h|h|h|h|h|h|h|h|h|h|h <;> subst h <;> decide
  have hlt : b.toNat / 16 < 16 := by have := b.toNat_lt; omega
  have hlt2 : b.toNat % 16 < 16 := by omega
  have h1 := hd _ hlt
  have h2 := hd _ hlt2
  intro x hx
  unfold escB at hx
  split at hx
  · simp at hx; rcases hx with rfl | rfl <;> decide
  split at hx
  · simp at hx; subst hx; decide
  split at hx
  · simp at hx; rcases hx with rfl | rfl <;> decide
  split at hx
  · simp at hx; rcases hx with rfl | rfl <;> decide
  split at hx
  · simp at hx; rcases hx with rfl | rfl <;> decide
  split at hx
  · simp at hx; rcases hx with rfl | rfl <;> decide
  split at hx
  · simp at hx; rcases hx with rfl | rfl <;> decide
  split at hx
  · simp at hx
    rcases hx with rfl | rfl | rfl | rfl | rfl
    · decide
    · decide
    · decide
    · exact h1
    · exact h2
  · rename_i h8
    simp at hx; subst hx
    have : ¬ (x < 32) := fun h => h8 (Or.inl h)
    exact UInt8.not_lt.mp this

end GqlModel.Printer.Bytes
