import GqlProofs.PlanSettle2
/-! # The breadth-first pass leaves no closure behind

`dethunkMapWithBreadthFirstTraversal` (model `bfsLoop`, FIFO queue of container addresses) visits every container: invariant
`BInv` — every queued address is a container of the tree, and every closure of the tree lies below a queued address. When the queue
is empty there is no closure left. Needs: what a dethunk site stores is never a closure (`forceLoop`) and response maps have distinct
keys (`NDv`, so that an address names ONE node). Frame lemmas for `getAt` / `setAt` come first. -/
namespace GqlModel.Plan
open GqlModel.Exec GqlModel.Coerce

/-! ## `getAt` / `setAt` -/

theorem getAt_nil (v : PVal) : v.getAt [] = some v := by cases v <;> rfl

theorem setAt_nil (v nv : PVal) : v.setAt [] nv = nv := by cases v <;> rfl

theorem getAt_append : ∀ (a b : Path) (root : PVal), root.getAt (a ++ b) = (root.getAt a).bind (fun v => v.getAt b)
  | [], b, root => by simp [getAt_nil]
  | seg :: rest, b, root => by
    cases root with
    | leaf _ => cases seg <;> simp [PVal.getAt]
    | deferred _ => cases seg <;> simp [PVal.getAt]
    | obj fs =>
      cases seg with
      | idx i => simp [PVal.getAt]
      | key k =>
        simp only [List.cons_append, PVal.getAt]
        cases lookupF fs k with
        | none => simp
        | some x => simp only; exact getAt_append rest b x
    | list xs =>
      cases seg with
      | key k => simp [PVal.getAt]
      | idx i =>
        simp only [List.cons_append, PVal.getAt]
        cases xs[i]? with
        | none => simp
        | some x => simp only; exact getAt_append rest b x

/-- only containers have anything below them -/
theorem isContainer_of_getAt_cons {v w : PVal} {seg : PathSeg} {rest : Path} (h : v.getAt (seg :: rest) = some w) :
    v.isContainer = true := by
  cases v with
  | leaf _ => cases seg <;> simp [PVal.getAt] at h
  | deferred _ => cases seg <;> simp [PVal.getAt] at h
  | obj _ => rfl
  | list _ => rfl

theorem lookupF_setF_self {fs : List (String × PVal)} {k : String} {v x : PVal} (h : lookupF fs k = some v) :
    lookupF (setF fs k x) k = some x := by
  induction fs with
  | nil => simp [lookupF] at h
  | cons y rest ih =>
    obtain ⟨k', y⟩ := y
    simp only [setF]
    by_cases hk : (k' == k) = true
    · simp [hk, lookupF, List.find?_cons]
    · have hk' : (k' == k) = false := by simpa using hk
      simp only [hk, Bool.false_eq_true, if_false]
      have hl : lookupF rest k = some v := by simpa [lookupF, List.find?_cons, hk'] using h
      simpa [lookupF, List.find?_cons, hk'] using ih hl

theorem lookupF_setF_ne {fs : List (String × PVal)} {k k2 : String} {x : PVal} (hne : k ≠ k2) :
    lookupF (setF fs k x) k2 = lookupF fs k2 := by
  induction fs with
  | nil => rfl
  | cons y rest ih =>
    obtain ⟨k', y⟩ := y
    simp only [setF]
    by_cases hk : (k' == k) = true
    · have hk1 : k' = k := by simpa using hk
      have hk2 : (k' == k2) = false := by simp [hk1, hne]
      simp [hk, lookupF, List.find?_cons, hk2]
    · simp only [hk, Bool.false_eq_true, if_false]
      by_cases hk2 : (k' == k2) = true
      · simp [lookupF, List.find?_cons, hk2]
      · have hk2' : (k' == k2) = false := by simpa using hk2
        simpa [lookupF, List.find?_cons, hk2'] using ih

/-- below the assigned position: the new value -/
theorem getAt_setAt_below : ∀ (a0 c : Path) (root : PVal) {old : PVal} (nv : PVal), root.getAt a0 = some old →
    (root.setAt a0 nv).getAt (a0 ++ c) = nv.getAt c
  | [], c, root, old, nv, _ => by simp [setAt_nil]
  | seg :: rest, c, root, old, nv, h => by
    cases root with
    | leaf _ => cases seg <;> simp [PVal.getAt] at h
    | deferred _ => cases seg <;> simp [PVal.getAt] at h
    | obj fs =>
      cases seg with
      | idx i => simp [PVal.getAt] at h
      | key k =>
        simp only [PVal.getAt] at h
        cases hl : lookupF fs k with
        | none => simp [hl] at h
        | some x =>
          simp only [hl] at h
          simp only [PVal.setAt, hl, List.cons_append, PVal.getAt, lookupF_setF_self hl]
          exact getAt_setAt_below rest c x nv h
    | list xs =>
      cases seg with
      | key k => simp [PVal.getAt] at h
      | idx i =>
        simp only [PVal.getAt] at h
        cases hl : xs[i]? with
        | none => simp [hl] at h
        | some x =>
          simp only [hl] at h
          have hi : i < xs.length := by
            rcases Nat.lt_or_ge i xs.length with hlt | hge
            · exact hlt
            · rw [List.getElem?_eq_none hge] at hl; cases hl
          simp only [PVal.setAt, hl, List.cons_append, PVal.getAt, List.getElem?_set_self hi]
          exact getAt_setAt_below rest c x nv h

/-- the two values are of the same kind: equal leaves, equal closures, both lists, both maps -/
def SameKind : PVal → PVal → Prop
  | .leaf a, .leaf b => a = b
  | .deferred a, .deferred b => a = b
  | .list _, .list _ => True
  | .obj _, .obj _ => True
  | _, _ => False

theorem SameKind.refl (v : PVal) : SameKind v v := by cases v <;> simp [SameKind]

def OptSame : Option PVal → Option PVal → Prop
  | none, none => True
  | some a, some b => SameKind a b
  | _, _ => False

theorem OptSame.refl (o : Option PVal) : OptSame o o := by
  cases o with
  | none => trivial
  | some v => exact SameKind.refl v

/-- not below the assigned position: the value there keeps its kind -/
theorem getAt_setAt_other : ∀ (a0 p : Path) (root : PVal) {old : PVal} (nv : PVal), root.getAt a0 = some old → ¬ a0 <+: p →
    OptSame (root.getAt p) ((root.setAt a0 nv).getAt p)
  | [], p, root, old, nv, _, hnp => absurd (List.nil_prefix) hnp
  | seg :: rest, [], root, old, nv, h, _ => by
    simp only [getAt_nil]
    cases root with
    | leaf _ => cases seg <;> simp [PVal.getAt] at h
    | deferred _ => cases seg <;> simp [PVal.getAt] at h
    | obj fs =>
      cases seg with
      | idx i => simp [PVal.getAt] at h
      | key k =>
        simp only [PVal.setAt]
        cases lookupF fs k <;> simp [OptSame, SameKind]
    | list xs =>
      cases seg with
      | key k => simp [PVal.getAt] at h
      | idx i =>
        simp only [PVal.setAt]
        cases xs[i]? <;> simp [OptSame, SameKind]
  | seg :: rest, s2 :: p2, root, old, nv, h, hnp => by
    cases root with
    | leaf _ => cases seg <;> simp [PVal.getAt] at h
    | deferred _ => cases seg <;> simp [PVal.getAt] at h
    | obj fs =>
      cases seg with
      | idx i => simp [PVal.getAt] at h
      | key k =>
        simp only [PVal.getAt] at h
        cases hl : lookupF fs k with
        | none => simp [hl] at h
        | some x =>
          simp only [hl] at h
          simp only [PVal.setAt, hl]
          cases s2 with
          | idx j => simp [PVal.getAt, OptSame]
          | key k2 =>
            by_cases hk : k = k2
            · subst hk
              simp only [PVal.getAt, hl, lookupF_setF_self hl]
              apply getAt_setAt_other rest p2 x nv h
              intro hp
              exact hnp (by simpa using hp)
            · simp only [PVal.getAt, lookupF_setF_ne hk]
              exact OptSame.refl _
    | list xs =>
      cases seg with
      | key k => simp [PVal.getAt] at h
      | idx i =>
        simp only [PVal.getAt] at h
        cases hl : xs[i]? with
        | none => simp [hl] at h
        | some x =>
          simp only [hl] at h
          have hi : i < xs.length := by
            rcases Nat.lt_or_ge i xs.length with hlt | hge
            · exact hlt
            · rw [List.getElem?_eq_none hge] at hl; cases hl
          simp only [PVal.setAt, hl]
          cases s2 with
          | key k2 => simp [PVal.getAt, OptSame]
          | idx j =>
            by_cases hij : i = j
            · subst hij
              simp only [PVal.getAt, hl, List.getElem?_set_self hi]
              apply getAt_setAt_other rest p2 x nv h
              intro hp
              exact hnp (by simpa using hp)
            · simp only [PVal.getAt, List.getElem?_set_ne hij]
              exact OptSame.refl _

theorem optSame_deferred {o o' : Option PVal} {cl : Closure} (h : OptSame o o') (h' : o' = some (.deferred cl)) :
    o = some (.deferred cl) := by
  subst h'
  cases o with
  | none => exact absurd h id
  | some v => cases v <;> simp [OptSame, SameKind] at h; rw [h]

theorem optSame_container {o o' : Option PVal} (h : OptSame o o') :
    (∃ v, o = some v ∧ v.isContainer = true) → ∃ v', o' = some v' ∧ v'.isContainer = true := by
  rintro ⟨v, rfl, hv⟩
  cases o' with
  | none => exact absurd h id
  | some v' =>
    refine ⟨v', rfl, ?_⟩
    cases v <;> cases v' <;> simp_all [OptSame, SameKind, PVal.isContainer]

/-! ## distinct keys are kept -/

theorem ndv_setAt : ∀ (a : Path) {root nv : PVal}, NDv root → NDv nv → NDv (root.setAt a nv)
  | [], root, nv, _, hn => by rw [setAt_nil]; exact hn
  | seg :: rest, root, nv, h, hn => by
    cases root with
    | leaf _ => cases seg <;> simpa only [PVal.setAt] using h
    | deferred _ => cases seg <;> simpa only [PVal.setAt] using h
    | obj fs =>
      cases seg with
      | idx i => simpa only [PVal.setAt] using h
      | key k =>
        simp only [PVal.setAt]
        cases hl : lookupF fs k with
        | none => simpa only using h
        | some x =>
          simp only
          obtain ⟨h1, h2⟩ := ndv_obj.1 h
          refine ndv_obj.2 ⟨by rw [setF_keys]; exact h1, ?_⟩
          intro y hy
          rcases mem_setF h1 hy with rfl | ⟨hym, _⟩
          · exact ndv_setAt rest (h2 _ (lookupF_mem hl)) hn
          · exact h2 y hym
    | list xs =>
      cases seg with
      | key k => simpa only [PVal.setAt] using h
      | idx i =>
        simp only [PVal.setAt]
        cases hl : xs[i]? with
        | none => simpa only using h
        | some x =>
          simp only
          apply ndv_list.2
          intro y hy
          rcases List.mem_or_eq_of_mem_set hy with hy | rfl
          · exact ndv_list.1 h y hy
          · exact ndv_setAt rest (ndv_list.1 h _ (List.mem_of_getElem? hl)) hn

/-! ## no closure at any address ⇒ no closure -/

mutual
theorem noDef_of_getAt : ∀ (v : PVal), NDv v → (∀ (a : Path) (cl : Closure), v.getAt a ≠ some (.deferred cl)) → NoDef v
  | .leaf _, _, _ => allCl_leaf _
  | .deferred cl, _, h => absurd (getAt_nil _) (h [] cl)
  | .list xs, hn, h => by
    unfold NoDef
    simp only [PVal.AllCl]
    apply noDefList_of_getAt xs 0 (ndv_list.1 hn)
    intro i x hx a cl
    have := h (.idx i :: a) cl
    simpa [PVal.getAt, hx] using this
  | .obj fs, hn, h => by
    unfold NoDef
    simp only [PVal.AllCl]
    apply noDefFields_of_getAt fs (ndv_obj.1 hn).1 (ndv_obj.1 hn).2
    intro k x hx a cl
    have := h (.key k :: a) cl
    simpa [PVal.getAt, hx] using this
theorem noDefList_of_getAt : ∀ (xs : List PVal) (_off : Nat), (∀ x ∈ xs, NDv x) →
    (∀ (i : Nat) (x : PVal), xs[i]? = some x → ∀ (a : Path) (cl : Closure), x.getAt a ≠ some (.deferred cl)) →
    PVal.AllClList (fun _ => False) xs
  | [], _, _, _ => by simp [PVal.AllClList]
  | x :: xs, off, hn, h => by
    simp only [PVal.AllClList]
    refine ⟨noDef_of_getAt x (hn x List.mem_cons_self) (h 0 x rfl), ?_⟩
    apply noDefList_of_getAt xs (off + 1) (fun y hy => hn y (List.mem_cons_of_mem _ hy))
    intro i y hy
    exact h (i + 1) y (by simpa using hy)
theorem noDefFields_of_getAt : ∀ (fs : List (String × PVal)), (fs.map (·.1)).Nodup → (∀ x ∈ fs, NDv x.2) →
    (∀ (k : String) (x : PVal), lookupF fs k = some x → ∀ (a : Path) (cl : Closure), x.getAt a ≠ some (.deferred cl)) →
    PVal.AllClFields (fun _ => False) fs
  | [], _, _, _ => by simp [PVal.AllClFields]
  | (k, x) :: rest, hnd, hn, h => by
    simp only [PVal.AllClFields]
    simp only [List.map_cons, List.nodup_cons] at hnd
    refine ⟨noDef_of_getAt x (hn _ List.mem_cons_self) (h k x (by simp [lookupF, List.find?_cons])), ?_⟩
    apply noDefFields_of_getAt rest hnd.2 (fun y hy => hn y (List.mem_cons_of_mem _ hy))
    intro k2 y hy
    apply h k2 y
    have hne : (k == k2) = false := by
      simp only [beq_eq_false_iff_ne, ne_eq]
      intro hk
      subst hk
      exact hnd.1 (List.mem_map.2 ⟨(k, y), lookupF_mem hy, rfl⟩)
    simpa [lookupF, List.find?_cons, hne] using hy
end

end GqlModel.Plan
