import GqlModel.Printer
import GqlModel.ValueReader
import GqlModel.StripLoc
/-! Round trip through the reference reader: `readValue (valueC v ++ rest) = (v.stripLoc, rest)`, same for types. -/
namespace GqlModel.Reader
open GqlModel GqlModel.Printer

/-! ## characters -/

theorem toNat_of_eq {c d : Char} (h : c = d) : c.toNat = d.toNat := by rw [h]

/-- the first character of `rest`, if any, fails `p` -/
def HeadNot (p : Char → Bool) (rest : Chars) : Prop := ∀ c r, rest = c :: r → p c = false

theorem span_all (p : Char → Bool) (xs rest : Chars) (hx : xs.all p = true) (hr : HeadNot p rest) :
    spanC p (xs ++ rest) = (xs, rest) := by
  induction xs with
  | nil =>
    cases rest with
    | nil => rfl
    | cons c r => simp [spanC, hr c r rfl]
  | cons x xs ih =>
    simp at hx
    have := ih (by simpa using hx.2)
    simp [spanC, hx.1, this]

theorem delim_nameCont {rest : Chars} (h : Delim rest) : HeadNot isNameCont rest := by
  intro c r e; subst e; exact h.1

theorem delim_digit {rest : Chars} (h : Delim rest) : HeadNot isDigit rest := by
  intro c r e; subst e
  have := h.1
  simp [isNameCont] at this
  exact this.2

theorem delim_ne {rest : Chars} (h : Delim rest) (d : Char) (hd : isNameCont d = true ∨ d = '.') :
    ∀ c r, rest = c :: r → c ≠ d := by
  intro c r e; subst e
  intro e; subst e
  rcases hd with hd | hd
  · have := h.1; simp [hd] at this
  · exact h.2 hd

theorem nameStart_not_ignored {c : Char} (h : isNameStart c = true) : isIgnored c = false := by
  simp only [isIgnored, Bool.or_eq_false_iff, decide_eq_false_iff_not]
  simp only [isNameStart, Bool.or_eq_true, Bool.and_eq_true, decide_eq_true_eq] at h
  refine ⟨⟨⟨⟨?_, ?_⟩, ?_⟩, ?_⟩, ?_⟩ <;> intro e <;> have := toNat_of_eq e <;> simp at this <;> omega

theorem nameStart_ne {c : Char} (h : isNameStart c = true) (d : Char) (hd : isNameStart d = false) : c ≠ d := by
  intro e; subst e; simp [h] at hd

theorem nameStart_not_digit {c : Char} (h : isNameStart c = true) : isDigit c = false := by
  simp only [isNameStart, Bool.or_eq_true, Bool.and_eq_true, decide_eq_true_eq] at h
  simp only [isDigit, Bool.and_eq_false_iff, decide_eq_false_iff_not]
  omega

theorem readName_name (nm rest : Chars) (h : isNameC nm = true) (hr : Delim rest) :
    readName (nm ++ rest) = some (nm, rest) := by
  cases nm with
  | nil => simp [isNameC] at h
  | cons c cs =>
    simp [isNameC] at h
    have := span_all isNameCont cs rest (by simpa using h.2) (delim_nameCont hr)
    simp [readName, h.1, this]

theorem skipIgnored_cons {c : Char} (h : isIgnored c = false) (r : Chars) : skipIgnored (c :: r) = c :: r := by
  simp [skipIgnored, h]

theorem skipIgnored_name (nm rest : Chars) (h : isNameC nm = true) : skipIgnored (nm ++ rest) = nm ++ rest := by
  cases nm with
  | nil => simp [isNameC] at h
  | cons c cs =>
    simp [isNameC] at h
    exact skipIgnored_cons (nameStart_not_ignored h.1) _

/-! ## numbers -/

theorem readDigits_digits (ds rest : Chars) (hne : ds ≠ []) (hd : ds.all isDigit = true) (hr : HeadNot isDigit rest) :
    readDigits (ds ++ rest) = some (ds, rest) := by
  have := span_all isDigit ds rest hd hr
  cases ds with
  | nil => exact absurd rfl hne
  | cons d ds' =>
    simp only [List.cons_append] at this
    simp [readDigits, this]

theorem headNot_append {p : Char → Bool} {xs ys : Chars} (hx : HeadNot p xs) (hy : xs = [] → HeadNot p ys) :
    HeadNot p (xs ++ ys) := by
  cases xs with
  | nil => simpa using hy rfl
  | cons x xs' => intro c r e; simp at e; exact hx c xs' (by rw [e.1])

theorem headNot_cons {p : Char → Bool} {x : Char} {xs : Chars} (h : p x = false) : HeadNot p (x :: xs) := by
  intro c r e; simp at e; rw [← e.1]; exact h

theorem readIntPart_body (b rest : Chars) (hb : isIntBody b = true) (hr : HeadNot isDigit rest) :
    readIntPart (b ++ rest) = some (b, rest) := by
  cases b with
  | nil => simp [isIntBody] at hb
  | cons c r =>
    simp only [isIntBody] at hb
    by_cases hc : c = '0'
    · subst hc
      simp at hb; subst hb
      cases rest with
      | nil => simp [readIntPart]
      | cons d r' => simp [readIntPart, hr d r' rfl]
    · simp [hc] at hb
      have := readDigits_digits (c :: r) rest (by simp) (by simpa [hb.1] using hb.2) hr
      simp only [List.cons_append] at this ⊢
      simp [readIntPart, hc, this]

theorem readFrac_none (cs : Chars) (h : ∀ c r, cs = c :: r → c ≠ '.') : readFrac cs = some ([], cs, false) := by
  cases cs with
  | nil => rfl
  | cons c r => simp [readFrac, h c r rfl]

theorem readFrac_some (fp rest : Chars) (hf : isFracPart fp = true) (hr : HeadNot isDigit rest) :
    readFrac (fp ++ rest) = some (fp, rest, true) := by
  cases fp with
  | nil => simp [isFracPart] at hf
  | cons c ds =>
    simp [isFracPart] at hf
    obtain ⟨⟨rfl, hne⟩, hd⟩ := hf
    have := readDigits_digits ds rest hne (by simpa using hd) hr
    simp [readFrac, this]

theorem readExp_none (cs : Chars) (h : ∀ c r, cs = c :: r → c ≠ 'e' ∧ c ≠ 'E') : readExp cs = some ([], cs, false) := by
  cases cs with
  | nil => rfl
  | cons c r => simp [readExp, h c r rfl]

theorem readExp_some (ep rest : Chars) (he : isExpPart ep = true) (hr : HeadNot isDigit rest) :
    readExp (ep ++ rest) = some (ep, rest, true) := by
  cases ep with
  | nil => simp [isExpPart] at he
  | cons e r =>
    simp only [isExpPart, Bool.and_eq_true, Bool.or_eq_true, decide_eq_true_eq] at he
    obtain ⟨hE, hrest⟩ := he
    cases r with
    | nil => simp at hrest
    | cons s ds =>
      simp only at hrest
      by_cases hs : s = '+' ∨ s = '-'
      · simp [hs] at hrest
        have := readDigits_digits ds rest hrest.1 (by simpa using hrest.2) hr
        simp [readExp, hE, readExpSign, hs, this]
      · simp [hs] at hrest
        have := readDigits_digits (s :: ds) rest (by simp) (by simpa [hrest.1] using hrest.2) hr
        simp only [List.cons_append] at this
        simp [readExp, hE, readExpSign, hs, this]

theorem readSign_intLit (ip rest : Chars) (h : isIntLit ip = true) :
    ∃ sg b, ip = sg ++ b ∧ isIntBody b = true ∧ readSign (ip ++ rest) = (sg, b ++ rest) := by
  cases ip with
  | nil => simp [isIntLit] at h
  | cons c r =>
    simp only [isIntLit] at h
    by_cases hc : c = '-'
    · subst hc; simp at h
      exact ⟨['-'], r, rfl, h, by simp [readSign]⟩
    · simp [hc] at h
      exact ⟨[], c :: r, rfl, h, by simp [readSign, hc]⟩

theorem headNot_digit_of_frac {fp : Chars} (h : isFracPart fp = true) : HeadNot isDigit fp := by
  cases fp with
  | nil => simp [isFracPart] at h
  | cons c ds => simp [isFracPart] at h; obtain ⟨⟨rfl, _⟩, _⟩ := h; exact headNot_cons (by decide)

theorem headNot_digit_of_exp {ep : Chars} (h : isExpPart ep = true) : HeadNot isDigit ep := by
  cases ep with
  | nil => simp [isExpPart] at h
  | cons c ds =>
    simp [isExpPart] at h
    rcases h.1 with rfl | rfl <;> exact headNot_cons (by decide)

theorem readNumber_of_parts {cs sg r0 b r1 fp r2 ep r3 : Chars} {f1 f2 : Bool}
    (hs : readSign cs = (sg, r0)) (h1 : readIntPart r0 = some (b, r1)) (h2 : readFrac r1 = some (fp, r2, f1))
    (h3 : readExp r2 = some (ep, r3, f2)) : readNumber cs = some (f1 || f2, sg ++ b ++ fp ++ ep, r3) := by
  simp [readNumber, hs, h1, h2, h3]

theorem readNumber_int (raw rest : Chars) (h : isIntLit raw = true) (hr : Delim rest) :
    readNumber (raw ++ rest) = some (false, raw, rest) := by
  obtain ⟨sg, b, rfl, hb, hs⟩ := readSign_intLit raw rest h
  have h1 := readIntPart_body b rest hb (delim_digit hr)
  have h2 := readFrac_none rest (delim_ne hr '.' (Or.inr rfl))
  have h3 := readExp_none rest (fun c r e => ⟨delim_ne hr 'e' (Or.inl (by decide)) c r e, delim_ne hr 'E' (Or.inl (by decide)) c r e⟩)
  simpa using readNumber_of_parts hs h1 h2 h3

theorem readNumber_float (raw rest : Chars) (h : IsFloatLit raw) (hr : Delim rest) :
    readNumber (raw ++ rest) = some (true, raw, rest) := by
  obtain ⟨ip, fp, ep, rfl, hip, hfp, hep, hne⟩ := h
  obtain ⟨sg, b, rfl, hb, hs⟩ := readSign_intLit ip (fp ++ (ep ++ rest)) hip
  have hdr := delim_digit hr
  have hEpRest : HeadNot isDigit (ep ++ rest) := by
    rcases hep with rfl | hep
    · simpa using hdr
    · exact headNot_append (headNot_digit_of_exp hep) (fun e => by subst e; simp [isExpPart] at hep)
  have hFpEpRest : HeadNot isDigit (fp ++ (ep ++ rest)) := by
    rcases hfp with rfl | hfp
    · simpa using hEpRest
    · exact headNot_append (headNot_digit_of_frac hfp) (fun e => by subst e; simp [isFracPart] at hfp)
  have h1 := readIntPart_body b (fp ++ (ep ++ rest)) hb hFpEpRest
  have hassoc : sg ++ b ++ fp ++ ep ++ rest = sg ++ b ++ (fp ++ (ep ++ rest)) := by simp [List.append_assoc]
  rw [hassoc]
  have hexpNone := readExp_none rest
    (fun c r e => ⟨delim_ne hr 'e' (Or.inl (by decide)) c r e, delim_ne hr 'E' (Or.inl (by decide)) c r e⟩)
  rcases hfp with rfl | hfp
  · -- no fraction: the exponent is present
    have hep' : isExpPart ep = true := by
      rcases hep with rfl | hep
      · simp at hne
      · exact hep
    have h2 : readFrac ([] ++ (ep ++ rest)) = some ([], ep ++ rest, false) := by
      apply readFrac_none
      intro c r e
      cases ep with
      | nil => simp [isExpPart] at hep'
      | cons x xs =>
        simp [isExpPart] at hep'
        simp at e
        rcases hep'.1 with rfl | rfl <;> (rw [← e.1]; decide)
    have h3 := readExp_some ep rest hep' hdr
    simpa using readNumber_of_parts hs h1 h2 h3
  · have h2 := readFrac_some fp (ep ++ rest) hfp hEpRest
    rcases hep with rfl | hep
    · have h3 : readExp ([] ++ rest) = some ([], rest, false) := by simpa using hexpNone
      simpa using readNumber_of_parts hs h1 h2 h3
    · have h3 := readExp_some ep rest hep hdr
      simpa using readNumber_of_parts hs h1 h2 h3

/-! ## strings -/

theorem hexValC_hexDigit (n : Nat) (h : n < 16) : hexValC (hexDigit n) = some n := by
  have : n = 0 ∨ n = 1 ∨ n = 2 ∨ n = 3 ∨ n = 4 ∨ n = 5 ∨ n = 6 ∨ n = 7 ∨ n = 8 ∨ n = 9 ∨ n = 10 ∨ n = 11 ∨ n = 12 ∨
      n = 13 ∨ n = 14 ∨ n = 15 := by omega
  rcases this with h|h|h|h|h|h|h|h|h|h|h|h|h|h|h|h <;> subst h <;> decide

theorem char_eq_of_toNat {c : Char} {n : Nat} (h : c.toNat = n) : c = Char.ofNat n := by
  rw [← h, Char.ofNat_toNat]

/-- one loop iteration of the string reader undoes one `escC` -/
theorem escC_step (c : Char) (n : Nat) (rest : Chars) :
    unquoteBodyC (n + 1) (escC c ++ rest) = (unquoteBodyC n rest).map (fun p => (c :: p.1, p.2)) := by
  unfold escC
  split
  · subst_vars; simp [unquoteBodyC, unescapeC]
  split
  · subst_vars; simp [unquoteBodyC, unescapeC]
  split
  · rename_i h; have := char_eq_of_toNat h; subst this; simp [unquoteBodyC, unescapeC]
  split
  · rename_i h; have := char_eq_of_toNat h; subst this; simp [unquoteBodyC, unescapeC]
  split
  · subst_vars; simp [unquoteBodyC, unescapeC]
  split
  · subst_vars; simp [unquoteBodyC, unescapeC]
  split
  · subst_vars; simp [unquoteBodyC, unescapeC]
  split
  · rename_i h8
    have hsmall : c.toNat < 128 := by omega
    have hlt : c.toNat / 16 < 16 := by omega
    have hlt2 : c.toNat % 16 < 16 := by omega
    have h0 : hexValC '0' = some 0 := by decide
    have hb : runeOf (c.toNat / 16 * 16 + c.toNat % 16) = c := by
      have e : c.toNat / 16 * 16 + c.toNat % 16 = c.toNat := by omega
      rw [e]
      have : ¬ (0xD800 ≤ c.toNat ∧ c.toNat < 0xE000) := by omega
      simp only [runeOf, this, if_false]
      exact Char.ofNat_toNat c
    simp [unquoteBodyC, unescapeC, hexValC_hexDigit _ hlt, hexValC_hexDigit _ hlt2, h0, hb]
  · rename_i h1 h2 h3 h4 h5 h6 h7 h8
    have hge : ¬ (c.toNat < 32) := fun h => h8 (Or.inl h)
    simp [unquoteBodyC, h1, h2, h5, h6, hge]

theorem quoteC_roundtrip (s rest : Chars) :
    ∀ n, s.length < n → unquoteBodyC n (quoteBodyC s ++ '"' :: rest) = some (s, rest) := by
  induction s with
  | nil => intro n hn; obtain ⟨m, rfl⟩ : ∃ m, n = m + 1 := ⟨n - 1, by simp at hn; omega⟩; simp [quoteBodyC, unquoteBodyC]
  | cons b bs ih =>
    intro n hn
    obtain ⟨m, rfl⟩ : ∃ m, n = m + 1 := ⟨n - 1, by simp at hn; omega⟩
    simp only [quoteBodyC, List.append_assoc]
    rw [escC_step, ih m (by simp at hn; omega)]
    rfl

theorem escC_length (c : Char) : 1 ≤ (escC c).length := by
  unfold escC
  split <;> try simp
  split <;> try simp
  split <;> try simp
  split <;> try simp
  split <;> try simp
  split <;> try simp
  split <;> try simp
  split <;> simp

theorem quoteBodyC_length (s : Chars) : s.length ≤ (quoteBodyC s).length := by
  induction s with
  | nil => simp [quoteBodyC]
  | cons b bs ih => simp only [quoteBodyC, List.length_append, List.length_cons]; have := escC_length b; omega

theorem unquoteC_quoteC (s rest : Chars) : unquoteC (quoteC s ++ rest) = some (s, rest) := by
  simp only [quoteC, unquoteC, List.cons_append, List.append_assoc, if_true]
  apply quoteC_roundtrip
  have := quoteBodyC_length s
  simp; omega

/-! ## types -/

def typeDepth : TypeRef → Nat
  | .named _ _ => 0
  | .list t _ => typeDepth t + 1
  | .nonNull t _ => typeDepth t

def isBaseType : TypeRef → Bool
  | .nonNull _ _ => false
  | _ => true

theorem readBang_none (t : TypeRef) (rest : Chars) (h : TypeDelim rest) : readBang t rest = (t, rest) := by
  have h2 := h.2
  unfold readBang
  split
  · rename_i c r heq
    rw [heq] at h2
    simp at h2
    simp [h2]
  · rfl

theorem readBang_bang (t : TypeRef) (rest : Chars) : readBang t ('!' :: rest) = (.nonNull t Loc.none, rest) := by
  simp [readBang, skipIgnored, isIgnored]

theorem delim_bang (rest : Chars) : Delim ('!' :: rest) := by
  refine ⟨by decide, by decide⟩

theorem typeDelim_bracket (rest : Chars) : TypeDelim (']' :: rest) := by
  refine ⟨⟨by decide, by decide⟩, ?_⟩
  simp [skipIgnored, isIgnored]

theorem readType_of_name {m : Nat} {cs r nm r1 : Chars} {c : Char} (h0 : skipIgnored cs = c :: r) (hc : c ≠ '[')
    (h1 : readName (c :: r) = some (nm, r1)) :
    readType (m + 1) cs = some (readBang (.named (String.ofList nm) Loc.none) r1) := by
  simp [readType, h0, hc, h1]

theorem readType_of_list {m : Nat} {cs r r1 r2 : Chars} {t : TypeRef} (h0 : skipIgnored cs = '[' :: r)
    (h1 : readType m r = some (t, r1)) (h2 : skipIgnored r1 = ']' :: r2) :
    readType (m + 1) cs = some (readBang (.list t Loc.none) r2) := by
  simp [readType, h0, h1, h2]

theorem readType_typeC_aux : ∀ t : TypeRef, WFType t →
    (isBaseType t = true → ∀ rest, Delim rest → ∀ n, typeDepth t < n →
        readType n (typeC t ++ rest) = some (readBang t.stripLoc rest)) ∧
    (∀ rest, TypeDelim rest → ∀ n, typeDepth t < n → readType n (typeC t ++ rest) = some (t.stripLoc, rest)) := by
  intro t
  induction t with
  | named nm l =>
    intro hwf
    have hB : ∀ rest, Delim rest → ∀ n, typeDepth (.named nm l) < n →
        readType n (typeC (.named nm l) ++ rest) = some (readBang (TypeRef.named nm l).stripLoc rest) := by
      intro rest hr n hn
      obtain ⟨m, rfl⟩ : ∃ m, n = m + 1 := ⟨n - 1, by omega⟩
      have hname : isNameC nm.toList = true := hwf
      have h1 := skipIgnored_name nm.toList rest hname
      have h2 := readName_name nm.toList rest hname hr
      cases hnm : nm.toList with
      | nil => rw [hnm] at hname; simp [isNameC] at hname
      | cons c cs =>
        rw [hnm] at h1 h2 hname
        simp [isNameC] at hname
        have hc : c ≠ '[' := nameStart_ne hname.1 '[' (by decide)
        simp only [typeC, hnm]
        rw [readType_of_name h1 hc h2, ← hnm, String.ofList_toList]
        rfl
    refine ⟨fun _ => hB, ?_⟩
    intro rest hr n hn
    rw [hB rest hr.1 n hn, readBang_none _ _ hr]
  | list t l ih =>
    intro hwf
    have hC := (ih hwf).2
    have hB : ∀ rest, Delim rest → ∀ n, typeDepth (.list t l) < n →
        readType n (typeC (.list t l) ++ rest) = some (readBang (TypeRef.list t l).stripLoc rest) := by
      intro rest hr n hn
      obtain ⟨m, rfl⟩ : ∃ m, n = m + 1 := ⟨n - 1, by omega⟩
      have h1 := hC (']' :: rest) (typeDelim_bracket rest) m (by simp [typeDepth] at hn; omega)
      have h0 : skipIgnored (typeC (.list t l) ++ rest) = '[' :: (typeC t ++ (']' :: rest)) := by
        simp [typeC, skipIgnored, isIgnored]
      have h2 : skipIgnored (']' :: rest) = ']' :: rest := by simp [skipIgnored, isIgnored]
      rw [readType_of_list h0 h1 h2]
      rfl
    refine ⟨fun _ => hB, ?_⟩
    intro rest hr n hn
    rw [hB rest hr.1 n hn, readBang_none _ _ hr]
  | nonNull t l ih =>
    intro hwf
    obtain ⟨hwft, hbase⟩ := hwf
    have hbase' : isBaseType t = true := by cases t <;> simp_all [isBaseType]
    have hB := (ih hwft).1 hbase'
    refine ⟨fun h => by simp [isBaseType] at h, ?_⟩
    intro rest hr n hn
    have := hB ('!' :: rest) (delim_bang rest) n (by simpa [typeDepth] using hn)
    simp only [typeC, List.append_assoc, List.singleton_append]
    rw [this, readBang_bang]
    rfl

theorem typeDepth_le (t : TypeRef) : typeDepth t ≤ (typeC t).length := by
  induction t with
  | named nm l => simp [typeDepth]
  | list t l ih => simp [typeDepth, typeC]; omega
  | nonNull t l ih => simp [typeDepth, typeC]; omega

/-! ## values -/

theorem readValue_of_scalar {m : Nat} {cs r : Chars} {c : Char} (h0 : skipIgnored cs = c :: r) (h1 : c ≠ '[')
    (h2 : c ≠ '{') : readValue (m + 1) cs = readScalar (c :: r) := by
  simp [readValue, h0, h1, h2]

theorem readValue_of_list {m : Nat} {cs r : Chars} (h0 : skipIgnored cs = '[' :: r) :
    readValue (m + 1) cs = (readList m r).map (fun p => (.list p.1 Loc.none, p.2)) := by
  simp [readValue, h0]

theorem readValue_of_obj {m : Nat} {cs r : Chars} (h0 : skipIgnored cs = '{' :: r) :
    readValue (m + 1) cs = (readFields m r).map (fun p => (.obj p.1 Loc.none, p.2)) := by
  simp [readValue, h0]

theorem readList_close {m : Nat} {cs r : Chars} (h0 : skipIgnored cs = ']' :: r) : readList (m + 1) cs = some ([], r) := by
  simp [readList, h0]

theorem readList_elem {m : Nat} {cs r r1 : Chars} {c : Char} {v : Value} (h0 : skipIgnored cs = c :: r) (h1 : c ≠ ']')
    (h2 : readValue m (c :: r) = some (v, r1)) :
    readList (m + 1) cs = (readList m r1).map (fun p => (v :: p.1, p.2)) := by
  simp [readList, h0, h1, h2]

theorem readFields_close {m : Nat} {cs r : Chars} (h0 : skipIgnored cs = '}' :: r) :
    readFields (m + 1) cs = some ([], r) := by
  simp [readFields, h0]

theorem readFields_field {m : Nat} {cs r nm r1 r2 r3 : Chars} {c : Char} {v : Value} (h0 : skipIgnored cs = c :: r)
    (h1 : c ≠ '}') (h2 : readName (c :: r) = some (nm, r1)) (h3 : skipIgnored r1 = ':' :: r2)
    (h4 : readValue m r2 = some (v, r3)) :
    readFields (m + 1) cs =
      (readFields m r3).map (fun p => (.mk ⟨String.ofList nm, Loc.none⟩ v Loc.none :: p.1, p.2)) := by
  simp [readFields, h0, h1, h2, h3, h4]

mutual
def fuelV : Value → Nat
  | .list vs _ => 1 + fuelL vs
  | .obj fs _ => 1 + fuelF fs
  | _ => 1
def fuelL : List Value → Nat
  | [] => 1
  | v :: vs => 1 + fuelV v + fuelL vs
def fuelFd : ObjField → Nat
  | .mk _ v _ => fuelV v
def fuelF : List ObjField → Nat
  | [] => 1
  | f :: fs => 1 + fuelFd f + fuelF fs
end

/-- `", " ++ x` for every element -/
def sepAll : List Chars → Chars
  | [] => []
  | x :: xs => commaSp ++ x ++ sepAll xs

theorem interC_cons_commaSp (x : Chars) (xs : List Chars) : interC commaSp (x :: xs) = x ++ sepAll xs := by
  induction xs generalizing x with
  | nil => simp [interC, sepAll]
  | cons y ys ih => simp [interC, sepAll, ih y, List.append_assoc]

/-- the text starts with a character that is not ignored and closes no list/object -/
def HeadOK (cs : Chars) : Prop := ∃ c r, cs = c :: r ∧ isIgnored c = false ∧ c ≠ ']' ∧ c ≠ '}'

theorem headOK_name {nm : Chars} (h : isNameC nm = true) : HeadOK nm := by
  cases nm with
  | nil => simp [isNameC] at h
  | cons c cs =>
    simp [isNameC] at h
    exact ⟨c, cs, rfl, nameStart_not_ignored h.1, nameStart_ne h.1 _ (by decide), nameStart_ne h.1 _ (by decide)⟩

theorem digit_facts {c : Char} (h : isDigit c = true) : isIgnored c = false ∧ c ≠ ']' ∧ c ≠ '}' ∧ c ≠ '[' ∧ c ≠ '{' ∧
    c ≠ '$' ∧ c ≠ '"' := by
  simp only [isDigit, Bool.and_eq_true, decide_eq_true_eq] at h
  simp only [isIgnored, Bool.or_eq_false_iff, decide_eq_false_iff_not]
  refine ⟨⟨⟨⟨⟨?_, ?_⟩, ?_⟩, ?_⟩, ?_⟩, ?_, ?_, ?_, ?_, ?_, ?_⟩ <;> intro e <;> have := toNat_of_eq e <;> simp at this <;> omega

theorem intLit_head {cs : Chars} (h : isIntLit cs = true) :
    ∃ c r, cs = c :: r ∧ (c = '-' ∨ isDigit c = true) := by
  cases cs with
  | nil => simp [isIntLit] at h
  | cons c r =>
    refine ⟨c, r, rfl, ?_⟩
    simp only [isIntLit] at h
    by_cases hc : c = '-'
    · exact Or.inl hc
    · simp only [hc, if_false, isIntBody] at h
      by_cases h0 : c = '0'
      · subst h0; exact Or.inr (by decide)
      · simp [h0] at h; exact Or.inr h.1

theorem minus_or_digit_facts {c : Char} (h : c = '-' ∨ isDigit c = true) : isIgnored c = false ∧ c ≠ ']' ∧ c ≠ '}' ∧
    c ≠ '[' ∧ c ≠ '{' ∧ c ≠ '$' ∧ c ≠ '"' := by
  rcases h with rfl | h
  · decide
  · exact digit_facts h

theorem headOK_of_number {cs : Chars} (h : ∃ c r, cs = c :: r ∧ (c = '-' ∨ isDigit c = true)) : HeadOK cs := by
  obtain ⟨c, r, rfl, hc⟩ := h
  have := minus_or_digit_facts hc
  exact ⟨c, r, rfl, this.1, this.2.1, this.2.2.1⟩

theorem floatLit_head {cs : Chars} (h : IsFloatLit cs) : ∃ c r, cs = c :: r ∧ (c = '-' ∨ isDigit c = true) := by
  obtain ⟨ip, fp, ep, rfl, hip, _⟩ := h
  obtain ⟨c, r, rfl, hc⟩ := intLit_head hip
  exact ⟨c, r ++ fp ++ ep, by simp, hc⟩

theorem headOK_valueC : ∀ v : Value, WFValue v → HeadOK (valueC v)
  | .var n _, _ => ⟨'$', n.toList, rfl, by decide, by decide, by decide⟩
  | .int r _, h => headOK_of_number (intLit_head h)
  | .float r _, h => headOK_of_number (floatLit_head h)
  | .str s _, _ => ⟨'"', _, rfl, by decide, by decide, by decide⟩
  | .bool true _, _ => ⟨'t', _, rfl, by decide, by decide, by decide⟩
  | .bool false _, _ => ⟨'f', _, rfl, by decide, by decide, by decide⟩
  | .enum v _, h => headOK_name h.1
  | .list vs _, _ => ⟨'[', _, rfl, by decide, by decide, by decide⟩
  | .obj fs _, _ => ⟨'{', _, rfl, by decide, by decide, by decide⟩

theorem headOK_skip {cs : Chars} (h : HeadOK cs) (rest : Chars) : skipIgnored (cs ++ rest) = cs ++ rest := by
  obtain ⟨c, r, rfl, hc, _⟩ := h
  exact skipIgnored_cons hc _

theorem headOK_ne_nil {cs : Chars} (h : HeadOK cs) : cs.isEmpty = false := by
  obtain ⟨c, r, rfl, _⟩ := h; rfl

theorem skipIgnored_commaSp (cs : Chars) : skipIgnored (commaSp ++ cs) = skipIgnored cs := by
  simp [commaSp, skipIgnored, isIgnored]

theorem readList_congr {cs cs' : Chars} (h : skipIgnored cs = skipIgnored cs') (n : Nat) : readList n cs = readList n cs' := by
  cases n with
  | zero => simp [readList]
  | succ m => simp [readList, h]

theorem readFields_congr {cs cs' : Chars} (h : skipIgnored cs = skipIgnored cs') (n : Nat) :
    readFields n cs = readFields n cs' := by
  cases n with
  | zero => simp [readFields]
  | succ m => simp [readFields, h]

theorem filter_nonempty_valuesC : ∀ vs : List Value, WFValues vs →
    (valuesC vs).filter (fun x => !x.isEmpty) = valuesC vs
  | [], _ => rfl
  | v :: vs, h => by
    have := headOK_ne_nil (headOK_valueC v h.1)
    simp [valuesC, this, filter_nonempty_valuesC vs h.2]

theorem fieldC_headOK : ∀ f : ObjField, WFField f → HeadOK (fieldC f)
  | .mk n v _, h => by
    obtain ⟨c, r, hc, h1, h2, h3⟩ := headOK_name h.1
    exact ⟨c, r ++ colonSp ++ valueC v, by simp [fieldC, hc], h1, h2, h3⟩

theorem filter_nonempty_fieldsC : ∀ fs : List ObjField, WFFields fs →
    (fieldsC fs).filter (fun x => !x.isEmpty) = fieldsC fs
  | [], _ => rfl
  | f :: fs, h => by
    have := headOK_ne_nil (fieldC_headOK f h.1)
    simp [fieldsC, this, filter_nonempty_fieldsC fs h.2]

/-- after an element: either the closing bracket or `", "` -/
theorem delim_sepAll (xs : List Chars) (close : Char) (hc : isNameCont close = false ∧ close ≠ '.') (rest : Chars) :
    Delim (sepAll xs ++ close :: rest) := by
  cases xs with
  | nil => exact hc
  | cons x xs => exact ⟨by decide, by decide⟩

/-! ### scalars -/

theorem readScalar_var (n : String) (rest : Chars) (h : isNameC n.toList = true) (hr : Delim rest) :
    readScalar ('$' :: n.toList ++ rest) = some (.var n Loc.none, rest) := by
  have h1 := skipIgnored_name n.toList rest h
  have h2 := readName_name n.toList rest h hr
  simp [readScalar, h1, h2]

theorem readScalar_str (s : String) (rest : Chars) :
    readScalar (quoteC s.toList ++ rest) = some (.str s Loc.none, rest) := by
  have h := unquoteC_quoteC s.toList rest
  have hq : quoteC s.toList ++ rest = '"' :: (quoteBodyC s.toList ++ ['"'] ++ rest) := by simp [quoteC]
  rw [hq] at h ⊢
  simp only [readScalar]
  rw [if_neg (by decide), h]
  simp

theorem readScalar_number (raw rest : Chars) (isF : Bool) (hhead : ∃ c r, raw = c :: r ∧ (c = '-' ∨ isDigit c = true))
    (h : readNumber (raw ++ rest) = some (isF, raw, rest)) :
    readScalar (raw ++ rest) =
      some (if isF then .float (String.ofList raw) Loc.none else .int (String.ofList raw) Loc.none, rest) := by
  obtain ⟨c, r, rfl, hc⟩ := hhead
  have hf := minus_or_digit_facts hc
  simp only [List.cons_append] at h ⊢
  simp only [readScalar]
  rw [if_neg hf.2.2.2.2.2.1, if_neg hf.2.2.2.2.2.2]
  have hc' : c = '-' ∨ isDigit c = true := hc
  rw [if_pos hc', h]
  rfl

theorem readScalar_name (nm rest : Chars) (h : isNameC nm = true) (hr : Delim rest) :
    readScalar (nm ++ rest) =
      (if nm = trueC then some (.bool true Loc.none, rest)
       else if nm = falseC then some (.bool false Loc.none, rest)
       else if nm = nullC then none
       else some (.enum (String.ofList nm) Loc.none, rest)) := by
  have h2 := readName_name nm rest h hr
  cases nm with
  | nil => simp [isNameC] at h
  | cons c cs =>
    simp [isNameC] at h
    have h1 : c ≠ '$' := nameStart_ne h.1 _ (by decide)
    have h3 : c ≠ '"' := nameStart_ne h.1 _ (by decide)
    have h4 : c ≠ '-' := nameStart_ne h.1 _ (by decide)
    have h5 : isDigit c = false := nameStart_not_digit h.1
    simp only [List.cons_append] at h2 ⊢
    simp only [readScalar]
    rw [if_neg h1, if_neg h3, if_neg (by simp [h4, h5]), h2]

end GqlModel.Reader
