import GqlProofs.PlanTree
/-! # Where M's events happen: every resolver call and thunk call is logged under the response path it belongs to

`PathP`: phase one at response path `p` only logs events under `p`, and every closure it leaves in the value was created for a
position under `p`. Forcing a closure created for a position under `p` logs under `p` again (`force_under`), so do the depth-first
passes. At the root of a mutation this gives one contiguous block of events per top-level field, in plan order
(`mRootMut_serial`). Holds for every instance of the sub-plan oracle `alt`. -/
namespace GqlModel.Plan
open GqlModel.Exec GqlModel.Coerce

def Event.path : Event → Path
  | .call e => e.path
  | .force p => p

/-- the closure was created for a position under `p` -/
def Under (p : Path) (cl : Closure) : Prop := p <+: cl.path

/-- the events added from `st` to `st'` (newest first) all lie under `p` -/
def EvExt (p : Path) (st st' : MSt) : Prop := ∃ d, st'.events = d ++ st.events ∧ ∀ e ∈ d, p <+: e.path

theorem EvExt.refl (p : Path) (st : MSt) : EvExt p st st := ⟨[], rfl, fun _ h => by cases h⟩

theorem EvExt.trans {p : Path} {a b c : MSt} (h1 : EvExt p a b) (h2 : EvExt p b c) : EvExt p a c := by
  obtain ⟨d1, e1, u1⟩ := h1
  obtain ⟨d2, e2, u2⟩ := h2
  refine ⟨d2 ++ d1, by rw [e2, e1, List.append_assoc], ?_⟩
  intro e he
  rcases List.mem_append.1 he with he | he
  · exact u2 e he
  · exact u1 e he

theorem EvExt.weaken {p q : Path} {a b : MSt} (hpq : q <+: p) (h : EvExt p a b) : EvExt q a b := by
  obtain ⟨d, e, u⟩ := h
  exact ⟨d, e, fun x hx => hpq.trans (u x hx)⟩

theorem EvExt.of_events_eq {p : Path} {a b : MSt} (h : b.events = a.events) : EvExt p a b :=
  ⟨[], by simp [h], fun _ h => by cases h⟩

theorem evExt_logEv {p : Path} (st : MSt) (e : Event) (h : p <+: e.path) : EvExt p st (st.logEv e) :=
  ⟨[e], rfl, fun x hx => by simp only [List.mem_singleton] at hx; subst hx; exact h⟩

theorem under_weaken {p q : Path} (hpq : q <+: p) : ∀ cl, Under p cl → Under q cl := fun _ h => hpq.trans h

section path
variable (c : Ctx) (alt : Alt)

structure PathP (fuel : Nat) : Prop where
  groups : ∀ dfr rt src path sid fps acc st, (∀ x ∈ acc, x.2.AllCl (Under path)) →
    EvExt path st (mGroups c alt fuel dfr rt src path sid fps acc st).2 ∧
    ∀ fs, (mGroups c alt fuel dfr rt src path sid fps acc st).1 = .ok fs → ∀ x ∈ fs, x.2.AllCl (Under path)
  field : ∀ dfr rt src p fid fp fd st,
    EvExt p st (mField c alt fuel dfr rt src p fid fp fd st).2 ∧
    ∀ v, (mField c alt fuel dfr rt src p fid fp fd st).1 = .ok v → v.AllCl (Under p)
  complete : ∀ dfr t rt fid fp p v st,
    EvExt p st (mComplete c alt fuel dfr t rt fid fp p v st).2 ∧
    ∀ x, (mComplete c alt fuel dfr t rt fid fp p v st).1 = .ok x → x.AllCl (Under p)
  items : ∀ dfr item rt fid fp p xs i acc st, (∀ x ∈ acc, x.AllCl (Under p)) →
    EvExt p st (mItems c alt fuel dfr item rt fid fp p xs i acc st).2 ∧
    ∀ ys, (mItems c alt fuel dfr item rt fid fp p xs i acc st).1 = .ok ys → ∀ y ∈ ys, y.AllCl (Under p)

variable {c alt}

theorem pathP_zero : PathP c alt 0 := by
  refine ⟨?_, ?_, ?_, ?_⟩
  · intro dfr rt src path sid fps acc st _; simp only [mGroups]; exact ⟨.refl _ _, fun _ h => by cases h⟩
  · intro dfr rt src p fid fp fd st; simp only [mField]; exact ⟨.refl _ _, fun _ h => by cases h⟩
  · intro dfr t rt fid fp p v st; simp only [mComplete]; exact ⟨.refl _ _, fun _ h => by cases h⟩
  · intro dfr item rt fid fp p xs i acc st _; simp only [mItems]; exact ⟨.refl _ _, fun _ h => by cases h⟩

theorem prefix_snoc (p : Path) (s : PathSeg) : p <+: p ++ [s] := List.prefix_append _ _

theorem pathP_groups (fuel : Nat) (ih : PathP c alt fuel) :
    ∀ dfr rt src path sid fps acc st, (∀ x ∈ acc, x.2.AllCl (Under path)) →
    EvExt path st (mGroups c alt (fuel + 1) dfr rt src path sid fps acc st).2 ∧
    ∀ fs, (mGroups c alt (fuel + 1) dfr rt src path sid fps acc st).1 = .ok fs → ∀ x ∈ fs, x.2.AllCl (Under path) := by
  intro dfr rt src path sid fps acc st hacc
  cases fps with
  | nil =>
    simp only [mGroups]
    exact ⟨.refl _ _, fun fs h => by simp only [Res.ok.injEq] at h; subst h; exact hacc⟩
  | cons fp rest =>
    simp only [mGroups]
    by_cases hp : (!(fp.pred.eval c.schema c.vars)) = true
    · simp only [hp, if_true]; exact ih.groups _ _ _ _ _ _ _ _ hacc
    · simp only [hp, Bool.false_eq_true, if_false]
      cases hfd : fp.fieldDef with
      | none => exact ih.groups _ _ _ _ _ _ _ _ hacc
      | some fd =>
        simp only
        have hf := ih.field dfr rt src (path ++ [.key fp.key]) (sid ++ [(rt, fp.key)]) fp fd st
        generalize mField c alt fuel dfr rt src (path ++ [.key fp.key]) (sid ++ [(rt, fp.key)]) fp fd st = x at hf ⊢
        obtain ⟨r1, st1⟩ := x
        obtain ⟨hev, hcl⟩ := hf
        simp only at hev hcl
        have hev' := hev.weaken (prefix_snoc path (.key fp.key))
        cases r1 with
        | ok v =>
          simp only
          have hacc' : ∀ x ∈ acc ++ [(fp.key, v)], x.2.AllCl (Under path) := by
            intro x hx
            rcases List.mem_append.1 hx with hx | hx
            · exact hacc x hx
            · simp only [List.mem_singleton] at hx
              rw [hx]
              exact allCl_imp (under_weaken (prefix_snoc path (.key fp.key))) _ (hcl v rfl)
          obtain ⟨h1, h2⟩ := ih.groups dfr rt src path sid rest _ st1 hacc'
          exact ⟨hev'.trans h1, h2⟩
        | fail => exact ⟨hev', fun _ h => by cases h⟩
        | fuelOut => exact ⟨hev', fun _ h => by cases h⟩

theorem pathP_field (fuel : Nat) (ih : PathP c alt fuel) :
    ∀ dfr rt src p fid fp fd st,
    EvExt p st (mField c alt (fuel + 1) dfr rt src p fid fp fd st).2 ∧
    ∀ v, (mField c alt (fuel + 1) dfr rt src p fid fp fd st).1 = .ok v → v.AllCl (Under p) := by
  intro dfr rt src p fid fp fd st
  simp only [mField]
  by_cases hn : (fd.name == "__typename") = true
  · simp only [hn, if_true]
    exact ⟨.refl _ _, fun v h => by simp only [Res.ok.injEq] at h; subst h; exact allCl_leaf _⟩
  · simp only [hn, Bool.false_eq_true, if_false]
    generalize hev : Event.call (LogEntry.mk p rt fd.name (plannedArgs c.schema fp.args c.vars) src fp.nodes.length dfr) = ev
    have hlog : EvExt p st (st.logEv ev) := evExt_logEv st ev (by rw [← hev]; exact List.prefix_refl _)
    cases hout : c.world.outcome src fd.name with
    | fail =>
      simp only
      have h2 : EvExt p st ((st.logEv ev).addErr p dfr) := hlog.trans (.of_events_eq rfl)
      by_cases hnn : fd.type.isNonNull = true
      · simp only [hnn, if_true]; exact ⟨h2, fun _ h => by cases h⟩
      · simp only [hnn, Bool.false_eq_true, if_false]
        exact ⟨h2, fun v h => by simp only [Res.ok.injEq] at h; subst h; exact allCl_leaf _⟩
    | value v =>
      simp only
      have hc := ih.complete dfr fd.type rt fid fp p v (st.logEv ev)
      generalize mComplete c alt fuel dfr fd.type rt fid fp p v (st.logEv ev) = x at hc ⊢
      obtain ⟨r1, st1⟩ := x
      obtain ⟨h1, h2⟩ := hc
      simp only at h1 h2
      cases r1 with
      | ok j => exact ⟨hlog.trans h1, fun v h => by simp only [Res.ok.injEq] at h; subst h; exact h2 _ rfl⟩
      | fail =>
        simp only
        by_cases hnn : fd.type.isNonNull = true
        · simp only [hnn, if_true]; exact ⟨hlog.trans h1, fun _ h => by cases h⟩
        · simp only [hnn, Bool.false_eq_true, if_false]
          exact ⟨hlog.trans h1, fun v h => by simp only [Res.ok.injEq] at h; subst h; exact allCl_leaf _⟩
      | fuelOut => exact ⟨hlog.trans h1, fun _ h => by cases h⟩

theorem pathP_items (fuel : Nat) (ih : PathP c alt fuel) :
    ∀ dfr item rt fid fp p xs i acc st, (∀ x ∈ acc, x.AllCl (Under p)) →
    EvExt p st (mItems c alt (fuel + 1) dfr item rt fid fp p xs i acc st).2 ∧
    ∀ ys, (mItems c alt (fuel + 1) dfr item rt fid fp p xs i acc st).1 = .ok ys → ∀ y ∈ ys, y.AllCl (Under p) := by
  intro dfr item rt fid fp p xs i acc st hacc
  cases xs with
  | nil =>
    simp only [mItems]
    exact ⟨.refl _ _, fun ys h => by simp only [Res.ok.injEq] at h; subst h; exact hacc⟩
  | cons x xs =>
    simp only [mItems]
    have hc := ih.complete dfr item rt fid fp (p ++ [.idx i]) x st
    generalize mComplete c alt fuel dfr item rt fid fp (p ++ [.idx i]) x st = z at hc ⊢
    obtain ⟨r1, st1⟩ := z
    obtain ⟨h1, h2⟩ := hc
    simp only at h1 h2
    have h1' := h1.weaken (prefix_snoc p (.idx i))
    have happ : ∀ (y : PVal), y.AllCl (Under p) → ∀ x ∈ acc ++ [y], x.AllCl (Under p) := by
      intro y hy x hx
      rcases List.mem_append.1 hx with hx | hx
      · exact hacc x hx
      · simp only [List.mem_singleton] at hx; rw [hx]; exact hy
    cases r1 with
    | ok j =>
      simp only
      obtain ⟨h3, h4⟩ := ih.items dfr item rt fid fp p xs (i + 1) (acc ++ [j]) st1
        (happ j (allCl_imp (under_weaken (prefix_snoc p (.idx i))) _ (h2 j rfl)))
      exact ⟨h1'.trans h3, h4⟩
    | fail =>
      simp only
      by_cases hnn : item.isNonNull = true
      · simp only [hnn, if_true]; exact ⟨h1', fun _ h => by cases h⟩
      · simp only [hnn, Bool.false_eq_true, if_false]
        obtain ⟨h3, h4⟩ := ih.items dfr item rt fid fp p xs (i + 1) (acc ++ [.leaf .null]) st1 (happ _ (allCl_leaf _))
        exact ⟨h1'.trans h3, h4⟩
    | fuelOut => exact ⟨h1', fun _ h => by cases h⟩

theorem pathP_complete (fuel : Nat) (ih : PathP c alt fuel) :
    ∀ dfr t rt fid fp p v st,
    EvExt p st (mComplete c alt (fuel + 1) dfr t rt fid fp p v st).2 ∧
    ∀ x, (mComplete c alt (fuel + 1) dfr t rt fid fp p v st).1 = .ok x → x.AllCl (Under p) := by
  intro dfr t rt fid fp p v st
  have hgroups : ∀ ot,
      EvExt p st
        (match mGroups c alt fuel dfr ot v p fid (alt st.memo fid fp ot).1 [] { st with memo := (alt st.memo fid fp ot).2 } with
          | (.ok fs, st) => ((Res.ok (PVal.obj fs) : Res PVal), st)
          | (.fail, st) => (.fail, st)
          | (.fuelOut, st) => (.fuelOut, st)).2 ∧
      ∀ x,
        (match mGroups c alt fuel dfr ot v p fid (alt st.memo fid fp ot).1 [] { st with memo := (alt st.memo fid fp ot).2 } with
          | (.ok fs, st) => ((Res.ok (PVal.obj fs) : Res PVal), st)
          | (.fail, st) => (.fail, st)
          | (.fuelOut, st) => (.fuelOut, st)).1 = .ok x → x.AllCl (Under p) := by
    intro ot
    have hg := ih.groups dfr ot v p fid (alt st.memo fid fp ot).1 [] { st with memo := (alt st.memo fid fp ot).2 }
      (fun _ h => by cases h)
    generalize mGroups c alt fuel dfr ot v p fid (alt st.memo fid fp ot).1 [] { st with memo := (alt st.memo fid fp ot).2 } = z at hg ⊢
    obtain ⟨r1, st1⟩ := z
    obtain ⟨h1, h2⟩ := hg
    simp only at h1 h2
    have h0 : EvExt p st { st with memo := (alt st.memo fid fp ot).2 } := .of_events_eq rfl
    cases r1 with
    | ok fs =>
      exact ⟨h0.trans h1, fun x h => by simp only [Res.ok.injEq] at h; subst h; exact allCl_obj.2 (h2 fs rfl)⟩
    | fail => exact ⟨h0.trans h1, fun _ h => by cases h⟩
    | fuelOut => exact ⟨h0.trans h1, fun _ h => by cases h⟩
  have hfail : EvExt p st (st.addErr p dfr) ∧ ∀ x, (Res.fail : Res PVal) = .ok x → x.AllCl (Under p) :=
    ⟨.of_events_eq rfl, fun _ h => by cases h⟩
  have hnull : EvExt p st st ∧ ∀ x, (Res.ok (PVal.leaf .null) : Res PVal) = .ok x → x.AllCl (Under p) :=
    ⟨.refl _ _, fun x h => by simp only [Res.ok.injEq] at h; subst h; exact allCl_leaf _⟩
  simp only [mComplete]
  cases hfo : funcOf v with
  | some r =>
    simp only
    exact ⟨.refl _ _, fun x h => by
      simp only [Res.ok.injEq] at h; subst h; exact allCl_deferred.2 (List.prefix_refl _)⟩
  | none =>
    simp only
    cases t with
    | nonNull inner =>
      simp only
      have hc := ih.complete dfr inner rt fid fp p v st
      generalize mComplete c alt fuel dfr inner rt fid fp p v st = z at hc ⊢
      obtain ⟨r1, st1⟩ := z
      obtain ⟨h1, h2⟩ := hc
      simp only at h1 h2
      split
      · rename_i heq
        simp only [Prod.mk.injEq] at heq
        obtain ⟨_, rfl⟩ := heq
        exact ⟨h1.trans (.of_events_eq rfl), fun _ h => by cases h⟩
      · exact ⟨h1, h2⟩
    | list item =>
      simp only
      by_cases hnull' : v.nullish = true
      · simp only [hnull', if_true]; exact hnull
      · simp only [hnull', Bool.false_eq_true, if_false]
        cases hl : listOf v with
        | none => simp only; exact hfail
        | some xs =>
          simp only
          have hi := ih.items dfr item rt fid fp p xs 0 [] st (fun _ h => by cases h)
          generalize mItems c alt fuel dfr item rt fid fp p xs 0 [] st = z at hi ⊢
          obtain ⟨r1, st1⟩ := z
          obtain ⟨h1, h2⟩ := hi
          simp only at h1 h2
          cases r1 with
          | ok js => exact ⟨h1, fun x h => by simp only [Res.ok.injEq] at h; subst h; exact allCl_list.2 (h2 js rfl)⟩
          | fail => exact ⟨h1, fun _ h => by cases h⟩
          | fuelOut => exact ⟨h1, fun _ h => by cases h⟩
    | named n =>
      simp only
      by_cases hnull' : v.nullish = true
      · simp only [hnull', if_true]; exact hnull
      · simp only [hnull', Bool.false_eq_true, if_false]
        by_cases hleaf : c.schema.isLeaf n = true
        · simp only [hleaf, if_true]
          cases hs : serializeLeaf c.schema n v with
          | none => simp only; exact hfail
          | some j =>
            simp only
            exact ⟨.refl _ _, fun x h => by simp only [Res.ok.injEq] at h; subst h; exact allCl_leaf _⟩
        · simp only [hleaf, Bool.false_eq_true, if_false]
          by_cases habs : c.schema.isAbstract n = true
          · simp only [habs, if_true]
            cases hrt : runtimeTypeOf c n v with
            | none => simp only; exact hfail
            | some ot =>
              simp only
              by_cases hposs : (!(c.schema.isObject ot && c.schema.isPossibleType n ot)) = true
              · simp only [hposs, if_true]; exact hfail
              · simp only [hposs, Bool.false_eq_true, if_false]; exact hgroups ot
          · simp only [habs, Bool.false_eq_true, if_false]
            by_cases hobj : c.schema.isObject n = true
            · simp only [hobj, if_true]
              by_cases hito : (objectHasIsTypeOf c.schema n && !c.world.isTypeOfAns n v) = true
              · simp only [hito, if_true]; exact hfail
              · simp only [hito, Bool.false_eq_true, if_false]; exact hgroups n
            · simp only [hobj, Bool.false_eq_true, if_false]; exact hfail

theorem pathP : ∀ fuel, PathP c alt fuel
  | 0 => pathP_zero
  | fuel + 1 =>
    have ih := pathP fuel
    ⟨pathP_groups fuel ih, pathP_field fuel ih, pathP_complete fuel ih, pathP_items fuel ih⟩

/-- forcing a closure created for a position under `p` logs under `p`, and leaves closures for positions under `p` -/
theorem force_under (fuel : Nat) (p : Path) (cl : Closure) (st : MSt) (hcl : Under p cl) :
    EvExt p st (force c alt fuel cl st).2 ∧ ∀ x, (force c alt fuel cl st).1 = .ok x → x.AllCl (Under p) := by
  unfold force
  have hleaf : ∀ x, (Res.ok (PVal.leaf .null) : Res PVal) = .ok x → x.AllCl (Under p) :=
    fun x h => by simp only [Res.ok.injEq] at h; subst h; exact allCl_leaf _
  cases hcr : cl.r with
  | none =>
    simp only
    by_cases hnn : cl.t.isNonNull = true
    · simp only [hnn, if_true]; exact ⟨.of_events_eq rfl, fun _ h => by cases h⟩
    · simp only [hnn, Bool.false_eq_true, if_false]; exact ⟨.of_events_eq rfl, hleaf⟩
  | some r =>
    simp only
    have hlog : EvExt p st (st.logEv (.force cl.path)) := evExt_logEv st _ hcl
    cases r with
    | err =>
      simp only
      by_cases hnn : cl.t.isNonNull = true
      · simp only [hnn, if_true]; exact ⟨hlog.trans (.of_events_eq rfl), fun _ h => by cases h⟩
      · simp only [hnn, Bool.false_eq_true, if_false]; exact ⟨hlog.trans (.of_events_eq rfl), hleaf⟩
    | ok v =>
      simp only
      have hc := (pathP (c := c) (alt := alt) fuel).complete true cl.t cl.rt cl.fid cl.fp cl.path v (st.logEv (.force cl.path))
      generalize mComplete c alt fuel true cl.t cl.rt cl.fid cl.fp cl.path v (st.logEv (.force cl.path)) = z at hc ⊢
      obtain ⟨r1, st1⟩ := z
      obtain ⟨h1, h2⟩ := hc
      simp only at h1 h2
      have h1' := hlog.trans (h1.weaken hcl)
      cases r1 with
      | ok x =>
        exact ⟨h1', fun y h => by
          simp only [Res.ok.injEq] at h; subst h; exact allCl_imp (under_weaken hcl) _ (h2 _ rfl)⟩
      | fail =>
        simp only
        by_cases hnn : cl.t.isNonNull = true
        · simp only [hnn, if_true]; exact ⟨h1', fun _ h => by cases h⟩
        · simp only [hnn, Bool.false_eq_true, if_false]; exact ⟨h1', hleaf⟩
      | fuelOut => exact ⟨h1', fun _ h => by cases h⟩

/-- the loop at a dethunk site: under `p` as long as the forcing function is -/
theorem forceLoop_under {frc : Closure → MSt → Res PVal × MSt}
    (hf : ∀ p cl st, Under p cl → EvExt p st (frc cl st).2 ∧ ∀ x, (frc cl st).1 = .ok x → x.AllCl (Under p)) (p : Path) :
    ∀ (n : Nat) (v : PVal) (st : MSt), v.AllCl (Under p) →
    EvExt p st (forceLoop frc n v st).2 ∧ ∀ x, (forceLoop frc n v st).1 = .ok x → x.AllCl (Under p)
  | 0, v, st, _ => by simp only [forceLoop]; exact ⟨.refl _ _, fun _ h => by cases h⟩
  | n + 1, .leaf j, st, hv => by
    simp only [forceLoop]; exact ⟨.refl _ _, fun x h => by simp only [Res.ok.injEq] at h; subst h; exact hv⟩
  | n + 1, .list xs, st, hv => by
    simp only [forceLoop]; exact ⟨.refl _ _, fun x h => by simp only [Res.ok.injEq] at h; subst h; exact hv⟩
  | n + 1, .obj fs, st, hv => by
    simp only [forceLoop]; exact ⟨.refl _ _, fun x h => by simp only [Res.ok.injEq] at h; subst h; exact hv⟩
  | n + 1, .deferred cl, st, hv => by
    simp only [forceLoop]
    have ha := hf p cl st (allCl_deferred.1 hv)
    generalize frc cl st = z at ha ⊢
    obtain ⟨r1, st1⟩ := z
    obtain ⟨h1, h2⟩ := ha
    simp only at h1 h2
    cases r1 with
    | ok x =>
      obtain ⟨h3, h4⟩ := forceLoop_under hf p n x st1 (h2 x rfl)
      exact ⟨h1.trans h3, h4⟩
    | fail => exact ⟨h1, fun _ h => by cases h⟩
    | fuelOut => exact ⟨h1, fun _ h => by cases h⟩

theorem forceAll_under (fuel : Nat) (p : Path) (cl : Closure) (st : MSt) (hcl : Under p cl) :
    EvExt p st (forceAll c alt fuel cl st).2 ∧ ∀ x, (forceAll c alt fuel cl st).1 = .ok x → x.AllCl (Under p) :=
  forceLoop_under (fun p cl st h => force_under fuel p cl st h) p (fuel + 2) (.deferred cl) st (allCl_deferred.2 hcl)

end path

/-! ## the depth-first pass stays under the position -/

/-- a forcing function that respects positions -/
def FrcUnder (frc : Closure → MSt → Res PVal × MSt) : Prop :=
  ∀ p cl st, Under p cl → EvExt p st (frc cl st).2 ∧ ∀ x, (frc cl st).1 = .ok x → x.AllCl (Under p)

structure DfsU (frc : Closure → MSt → Res PVal × MSt) (fuel : Nat) : Prop where
  val : ∀ p v st, v.AllCl (Under p) →
    EvExt p st (dfsVal frc fuel v st).2 ∧ ∀ x, (dfsVal frc fuel v st).1 = .ok x → x.AllCl (Under p)
  fields : ∀ p ks fs st, (∀ x ∈ fs, x.2.AllCl (Under p)) →
    EvExt p st (dfsFields frc fuel ks fs st).2 ∧ ∀ gs, (dfsFields frc fuel ks fs st).1 = .ok gs → ∀ x ∈ gs, x.2.AllCl (Under p)
  items : ∀ p xs acc st, (∀ x ∈ xs, x.AllCl (Under p)) → (∀ x ∈ acc, x.AllCl (Under p)) →
    EvExt p st (dfsItems frc fuel xs acc st).2 ∧ ∀ ys, (dfsItems frc fuel xs acc st).1 = .ok ys → ∀ y ∈ ys, y.AllCl (Under p)

theorem dfsU {frc : Closure → MSt → Res PVal × MSt} (hf : FrcUnder frc) : ∀ fuel, DfsU frc fuel
  | 0 => by
    refine ⟨?_, ?_, ?_⟩
    · intro p v st _; simp only [dfsVal]; exact ⟨.refl _ _, fun _ h => by cases h⟩
    · intro p ks fs st _; simp only [dfsFields]; exact ⟨.refl _ _, fun _ h => by cases h⟩
    · intro p xs acc st _ _; simp only [dfsItems]; exact ⟨.refl _ _, fun _ h => by cases h⟩
  | fuel + 1 => by
    have ih : DfsU frc fuel := dfsU hf fuel
    refine ⟨?_, ?_, ?_⟩
    · -- a value that is not a closure
      have key : ∀ (p : Path) (x : PVal) (st : MSt), (∀ cl, x ≠ .deferred cl) → x.AllCl (Under p) →
          EvExt p st (dfsVal frc (fuel + 1) x st).2 ∧ ∀ y, (dfsVal frc (fuel + 1) x st).1 = .ok y → y.AllCl (Under p) := by
        intro p x st hnd hx
        cases x with
        | leaf j =>
          simp only [dfsVal]
          exact ⟨.refl _ _, fun y h => by simp only [Res.ok.injEq] at h; subst h; exact hx⟩
        | deferred cl => exact absurd rfl (hnd cl)
        | obj fs =>
          simp only [dfsVal]
          have hfs := ih.fields p (sortedKeys fs) fs st (allCl_obj.1 hx)
          generalize dfsFields frc fuel (sortedKeys fs) fs st = z at hfs ⊢
          obtain ⟨r2, st2⟩ := z
          obtain ⟨h1, h2⟩ := hfs
          simp only at h1 h2
          cases r2 with
          | ok gs => exact ⟨h1, fun y h => by simp only [Res.ok.injEq] at h; subst h; exact allCl_obj.2 (h2 gs rfl)⟩
          | fail => exact ⟨h1, fun _ h => by cases h⟩
          | fuelOut => exact ⟨h1, fun _ h => by cases h⟩
        | list xs =>
          simp only [dfsVal]
          have hxs := ih.items p xs [] st (allCl_list.1 hx) (fun _ h => by cases h)
          generalize dfsItems frc fuel xs [] st = z at hxs ⊢
          obtain ⟨r2, st2⟩ := z
          obtain ⟨h1, h2⟩ := hxs
          simp only at h1 h2
          cases r2 with
          | ok ys => exact ⟨h1, fun y h => by simp only [Res.ok.injEq] at h; subst h; exact allCl_list.2 (h2 ys rfl)⟩
          | fail => exact ⟨h1, fun _ h => by cases h⟩
          | fuelOut => exact ⟨h1, fun _ h => by cases h⟩
      intro p v st hv
      cases v with
      | leaf j => exact key p _ st (fun _ h => by cases h) hv
      | list xs => exact key p _ st (fun _ h => by cases h) hv
      | obj fs => exact key p _ st (fun _ h => by cases h) hv
      | deferred cl =>
        simp only [dfsVal]
        have ha := hf p cl st (allCl_deferred.1 hv)
        generalize frc cl st = z at ha ⊢
        obtain ⟨r1, st1⟩ := z
        obtain ⟨h1, h2⟩ := ha
        simp only at h1 h2
        cases r1 with
        | fail => exact ⟨h1, fun _ h => by cases h⟩
        | fuelOut => exact ⟨h1, fun _ h => by cases h⟩
        | ok x =>
          have hx := h2 x rfl
          cases x with
          | leaf j => exact ⟨h1, fun y h => by simp only [Res.ok.injEq] at h; subst h; exact hx⟩
          | deferred cl' => exact ⟨h1, fun y h => by simp only [Res.ok.injEq] at h; subst h; exact hx⟩
          | obj fs =>
            have := key p (.obj fs) st1 (fun _ h => by cases h) hx
            simp only [dfsVal] at this
            exact ⟨h1.trans this.1, this.2⟩
          | list xs =>
            have := key p (.list xs) st1 (fun _ h => by cases h) hx
            simp only [dfsVal] at this
            exact ⟨h1.trans this.1, this.2⟩
    · intro p ks fs st hfs
      cases ks with
      | nil =>
        simp only [dfsFields]
        exact ⟨.refl _ _, fun gs h => by simp only [Res.ok.injEq] at h; subst h; exact hfs⟩
      | cons k ks =>
        simp only [dfsFields]
        cases hl : lookupF fs k with
        | none => exact ih.fields p ks fs st hfs
        | some v =>
          simp only
          have hvv := ih.val p v st (hfs _ (lookupF_mem hl))
          generalize dfsVal frc fuel v st = z at hvv ⊢
          obtain ⟨r1, st1⟩ := z
          obtain ⟨h1, h2⟩ := hvv
          simp only at h1 h2
          cases r1 with
          | ok v' =>
            simp only
            obtain ⟨h3, h4⟩ := ih.fields p ks (setF fs k v') st1 (allCl_setF hfs (h2 v' rfl))
            exact ⟨h1.trans h3, h4⟩
          | fail => exact ⟨h1, fun _ h => by cases h⟩
          | fuelOut => exact ⟨h1, fun _ h => by cases h⟩
    · intro p xs acc st hxs hacc
      cases xs with
      | nil =>
        simp only [dfsItems]
        exact ⟨.refl _ _, fun ys h => by simp only [Res.ok.injEq] at h; subst h; exact hacc⟩
      | cons x xs =>
        simp only [dfsItems]
        have hvv := ih.val p x st (hxs x List.mem_cons_self)
        generalize dfsVal frc fuel x st = z at hvv ⊢
        obtain ⟨r1, st1⟩ := z
        obtain ⟨h1, h2⟩ := hvv
        simp only at h1 h2
        cases r1 with
        | ok x' =>
          simp only
          have hacc' : ∀ y ∈ acc ++ [x'], y.AllCl (Under p) := by
            intro y hy
            rcases List.mem_append.1 hy with hy | hy
            · exact hacc y hy
            · simp only [List.mem_singleton] at hy; rw [hy]; exact h2 x' rfl
          obtain ⟨h3, h4⟩ := ih.items p xs (acc ++ [x']) st1 (fun y hy => hxs y (List.mem_cons_of_mem _ hy)) hacc'
          exact ⟨h1.trans h3, h4⟩
        | fail => exact ⟨h1, fun _ h => by cases h⟩
        | fuelOut => exact ⟨h1, fun _ h => by cases h⟩

/-! ## the root of a mutation: one contiguous block of events per top-level field, in plan order -/

/-- the event belongs to the top-level field with response key `k` -/
def evUnderTop (k : String) (e : Event) : Bool := e.path.head? == some (PathSeg.key k)

/-- `evs` (chronological) is the concatenation of one contiguous (possibly empty) segment per key, in key order, the segment of `k`
lying entirely under `k`: no resolver call and no thunk call of a later top-level field happens before everything of an earlier
one — its resolvers, the thunks it deferred, the resolvers run while forcing them — is done -/
def MSerial : List String → List Event → Prop
  | [], evs => evs = []
  | k :: ks, evs => ∃ b rest, evs = b ++ rest ∧ (∀ e ∈ b, evUnderTop k e = true) ∧ MSerial ks rest

theorem mserial_nil_block (k : String) (ks : List String) (evs : List Event) (h : MSerial ks evs) : MSerial (k :: ks) evs :=
  ⟨[], evs, rfl, fun _ hm => absurd hm List.not_mem_nil, h⟩

theorem mserial_all_nil : ∀ ks : List String, MSerial ks []
  | [] => rfl
  | k :: ks => mserial_nil_block k ks [] (mserial_all_nil ks)

theorem evUnderTop_of_prefix {k : String} {e : Event} (h : [PathSeg.key k] <+: e.path) : evUnderTop k e = true := by
  obtain ⟨t, ht⟩ := h
  unfold evUnderTop
  rw [← ht]
  simp

theorem mRootMut_serial (c : Ctx) (alt : Alt) (dfuel : Nat) (rt : String) :
    ∀ (fuel : Nat) (fps : List FieldPlan) (acc : List (String × PVal)) (st : MSt),
    ∃ new, (mRootMut c alt dfuel fuel rt fps acc st).2.events = new ++ st.events ∧
      MSerial (fps.map (·.key)) new.reverse
  | 0, fps, acc, st => ⟨[], by simp only [mRootMut, List.nil_append], by simpa using mserial_all_nil _⟩
  | fuel + 1, [], acc, st => ⟨[], by simp only [mRootMut, List.nil_append], by simp [MSerial]⟩
  | fuel + 1, fp :: rest, acc, st => by
    simp only [mRootMut]
    by_cases hp : (!(fp.pred.eval c.schema c.vars)) = true
    · simp only [hp, if_true]
      obtain ⟨new, h1, h2⟩ := mRootMut_serial c alt dfuel rt fuel rest acc st
      exact ⟨new, h1, mserial_nil_block _ _ _ h2⟩
    · simp only [hp, Bool.false_eq_true, if_false]
      cases hfd : fp.fieldDef with
      | none =>
        obtain ⟨new, h1, h2⟩ := mRootMut_serial c alt dfuel rt fuel rest acc st
        exact ⟨new, h1, mserial_nil_block _ _ _ h2⟩
      | some fd =>
        simp only
        have hf := (pathP (c := c) (alt := alt) fuel).field false rt .nil [.key fp.key] [(rt, fp.key)] fp fd st
        generalize mField c alt fuel false rt .nil [.key fp.key] [(rt, fp.key)] fp fd st = z at hf ⊢
        obtain ⟨r1, st1⟩ := z
        obtain ⟨⟨d1, e1, u1⟩, hcl⟩ := hf
        simp only at e1 hcl
        -- a block that ends here
        have stop : ∀ (d : List Event) (stE : MSt), stE.events = d ++ st.events → (∀ e ∈ d, [PathSeg.key fp.key] <+: e.path) →
            ∃ new, stE.events = new ++ st.events ∧ MSerial ((fp :: rest).map (·.key)) new.reverse := by
          intro d stE he hu
          refine ⟨d, he, d.reverse, [], by simp, ?_, mserial_all_nil _⟩
          intro e hm
          exact evUnderTop_of_prefix (hu e (List.mem_reverse.1 hm))
        cases r1 with
        | fail => exact stop d1 st1 e1 u1
        | fuelOut => exact stop d1 st1 e1 u1
        | ok v =>
          simp only
          have hd := (dfsU (frc := forceAll c alt dfuel) (fun p cl st h => forceAll_under dfuel p cl st h) dfuel).val
            [.key fp.key] v st1 (hcl v rfl)
          generalize dfsVal (forceAll c alt dfuel) dfuel v st1 = z2 at hd ⊢
          obtain ⟨r2, st2⟩ := z2
          obtain ⟨⟨d2, e2, u2⟩, _⟩ := hd
          simp only at e2
          have e12 : st2.events = (d2 ++ d1) ++ st.events := by rw [e2, e1, List.append_assoc]
          have u12 : ∀ e ∈ d2 ++ d1, [PathSeg.key fp.key] <+: e.path := by
            intro e he
            rcases List.mem_append.1 he with he | he
            · exact u2 e he
            · exact u1 e he
          cases r2 with
          | fail => exact stop _ st2 e12 u12
          | fuelOut => exact stop _ st2 e12 u12
          | ok v' =>
            simp only
            obtain ⟨new, h1, h2⟩ := mRootMut_serial c alt dfuel rt fuel rest (acc ++ [(fp.key, v')]) st2
            refine ⟨new ++ (d2 ++ d1), by rw [h1, e12]; simp only [List.append_assoc], ?_⟩
            refine ⟨(d2 ++ d1).reverse, new.reverse, by simp, ?_, h2⟩
            intro e hm
            exact evUnderTop_of_prefix (u12 e (List.mem_reverse.1 hm))

end GqlModel.Plan
