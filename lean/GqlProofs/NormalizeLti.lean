import GqlModel.Normalize
import GqlProofs.CoerceAgree
import GqlProofs.CoerceArgs
import GqlProofs.CoerceRange
/-! C06 (normaliser): a VALID variable-free literal and its client-variable form (`literalToInput`) coerce to the
same value — `coerceValue s t (lti l) = valueFromAST s t (some l) vars` and `isValidInputValue s t (lti l)`.
This is the literal→variable direction of C05's `literal_variable_agree` (which goes value→literal through `embed`);
it is proved directly because `embed (lti l)` is not syntactically `l` (locations, field order, number spelling). -/
set_option linter.unusedSimpArgs false
set_option linter.unusedVariables false
namespace GqlModel.Normalize
open GqlModel GqlModel.Coerce

/-! ## premises on the literal -/

mutual
/-- every Int token has the lexer's shape `-?digits` (what the parser produces; `-0` and any other spelling are fine
since 54b00d5). A premise only because the model's `Value.int` can hold any text. -/
def canonInts : Value → Bool
  | .int raw _ => (intOfChars raw.toList).isSome
  | .list vs _ => canonIntsList vs
  | .obj fs _ => canonIntsFields fs
  | _ => true
def canonIntsList : List Value → Bool
  | [] => true
  | v :: vs => canonInts v && canonIntsList vs
def canonIntsFields : List ObjField → Bool
  | [] => true
  | (.mk _ v _) :: fs => canonInts v && canonIntsFields fs
end

/-- a custom scalar's two user functions agree on a literal and on its client-variable form -/
def customLti (s : Schema) : Prop :=
  ∀ n n' sv pv pl d, s.find? n = some (.scalar n' (.custom sv pv pl) d) →
    ∀ l, hasVars l = false → tableLookup pl (litWire l) = tableLookup pv (lti l)

/-! ## small facts -/

theorem ltiList_eq_map (ls : List Value) : ltiList ls = ls.map lti := by
  induction ls with
  | nil => rfl
  | cons v vs ih => simp [ltiList, ih]

theorem normDec_num (m : Int) (e : Nat) : (∃ i, normDec m e = .int i) ∨ (∃ m' e', normDec m e = .dec m' e') := by
  induction e generalizing m with
  | zero => exact Or.inl ⟨m, rfl⟩
  | succ e ih =>
    simp only [normDec]
    split
    · exact ih _
    · exact Or.inr ⟨_, _, rfl⟩

theorem parseFloatLit_num {cs : List Char} {r : JVal} (hp : parseFloatLit cs = some r) :
    (∃ i, r = .int i) ∨ (∃ m e, r = .dec m e) := by
  unfold parseFloatLit at hp
  split at hp
  · obtain ⟨p, _, hp2⟩ := Option.map_eq_some_iff.mp hp
    rw [← hp2]; exact normDec_num _ _
  · split at hp
    · simp only [Option.some.injEq] at hp
      subst hp
      simp only [scale10]
      split
      · exact Or.inl ⟨_, rfl⟩
      · exact normDec_num _ _
    · cases hp

theorem lti_ne_null (l : Value) (h : hasVars l = false) : (lti l).isNull = false := by
  cases l with
  | var x loc => simp [hasVars] at h
  | int raw loc =>
    simp only [lti]
    split
    · split <;> rfl
    · rfl
  | float raw loc =>
    simp only [lti]
    cases hp : parseFloatLit raw.toList with
    | none => rfl
    | some r =>
      simp only [Option.getD]
      rcases parseFloatLit_num hp with ⟨i, rfl⟩ | ⟨m, e, rfl⟩ <;> rfl
  | str x loc => rfl
  | bool b loc => rfl
  | enum x loc => rfl
  | list vs loc => rfl
  | obj fs loc => rfl

theorem canon_mem_list {x : Value} {ls : List Value} (h : canonIntsList ls = true) (hx : x ∈ ls) : canonInts x = true := by
  induction ls with
  | nil => cases hx
  | cons y ys ih =>
    simp only [canonIntsList, Bool.and_eq_true] at h
    rcases List.mem_cons.mp hx with rfl | hx'
    · exact h.1
    · exact ih h.2 hx'

theorem canon_litLookup {fs : List ObjField} (h : canonIntsFields fs = true) (k : String) :
    ∀ v, litLookup fs k = some v → canonInts v = true := by
  induction fs with
  | nil => intro v hv; cases hv
  | cons f fs ih =>
    obtain ⟨nm, w, l⟩ := f
    simp only [canonIntsFields, Bool.and_eq_true] at h
    intro v hv
    simp only [litLookup] at hv
    cases hl : litLookup fs k with
    | some w' => rw [hl] at hv; simp only [Option.some.injEq] at hv; subst hv; exact ih h.2 _ hl
    | none =>
      rw [hl] at hv
      simp only [ObjField.name, ObjField.value] at hv
      by_cases hk : (nm.value == k) = true
      · simp only [hk, if_true, Option.some.injEq] at hv; subst hv; exact h.1
      · simp [hk] at hv

/-! ## the Go map built from an object literal -/

/-- value of the last entry with key `k` -/
def lastVal : List (String × JVal) → String → Option JVal
  | [], _ => none
  | e :: es, k => match lastVal es k with
    | some v => some v
    | none => if e.1 == k then some e.2 else none

theorem lookupD_foldl (es : List (String × JVal)) (acc : List (String × JVal)) (k : String) :
    lookupD (es.foldl (fun acc e => JVal.insertSorted e.1 e.2 acc) acc) k =
      match lastVal es k with
      | some v => v
      | none => lookupD acc k := by
  induction es generalizing acc with
  | nil => rfl
  | cons e es ih =>
    simp only [List.foldl_cons, lastVal]
    rw [ih]
    cases lastVal es k with
    | some v => rfl
    | none =>
      simp only [lookupD_insertSorted]
      by_cases h : (e.1 == k) = true <;> simp [h]

theorem lastVal_ltiFields (fs : List ObjField) (k : String) : lastVal (ltiFields fs) k = (litLookup fs k).map lti := by
  induction fs with
  | nil => rfl
  | cons f fs ih =>
    obtain ⟨nm, v, l⟩ := f
    simp only [ltiFields, lastVal, litLookup, ih, ObjField.name, ObjField.value]
    cases litLookup fs k with
    | some w => rfl
    | none =>
      simp only [Option.map_none]
      by_cases h : (nm.value == k) = true <;> simp [h]

theorem lookupD_lti_obj (fs : List ObjField) (k : String) :
    lookupD (mkObj (ltiFields fs)) k = match litLookup fs k with
      | some v => lti v
      | none => .null := by
  unfold mkObj
  rw [lookupD_foldl, lastVal_ltiFields]
  cases litLookup fs k with
  | some v => rfl
  | none => simp [lookupD, JVal.lookup]

theorem mem_insertSorted {k : String} {v : JVal} {l : List (String × JVal)} {p : String × JVal}
    (h : p ∈ JVal.insertSorted k v l) : p = (k, v) ∨ p ∈ l := by
  induction l with
  | nil => simp [JVal.insertSorted] at h; exact Or.inl h
  | cons q qs ih =>
    obtain ⟨k0, v0⟩ := q
    simp only [JVal.insertSorted] at h
    split at h
    · rcases List.mem_cons.mp h with h | h
      · exact Or.inl h
      · exact Or.inr h
    · split at h
      · rcases List.mem_cons.mp h with h | h
        · exact Or.inl h
        · exact Or.inr (List.mem_cons_of_mem _ h)
      · rcases List.mem_cons.mp h with h | h
        · exact Or.inr (h ▸ List.mem_cons_self)
        · rcases ih h with h | h
          · exact Or.inl h
          · exact Or.inr (List.mem_cons_of_mem _ h)

theorem mem_foldl_insert {es acc : List (String × JVal)} {p : String × JVal}
    (h : p ∈ es.foldl (fun acc e => JVal.insertSorted e.1 e.2 acc) acc) : p ∈ es ∨ p ∈ acc := by
  induction es generalizing acc with
  | nil => exact Or.inr h
  | cons e es ih =>
    simp only [List.foldl_cons] at h
    rcases ih h with h | h
    · exact Or.inl (List.mem_cons_of_mem _ h)
    · rcases mem_insertSorted h with h | h
      · exact Or.inl (h ▸ List.mem_cons_self)
      · exact Or.inr h

theorem mem_mkObj {es : List (String × JVal)} {p : String × JVal} (h : p ∈ mkObj es) : p ∈ es := by
  rcases mem_foldl_insert h with h | h
  · exact h
  · cases h

theorem mem_ltiFields {fs : List ObjField} {p : String × JVal} (h : p ∈ ltiFields fs) :
    ∃ f ∈ fs, f.name.value = p.1 ∧ lti f.value = p.2 := by
  induction fs with
  | nil => cases h
  | cons f fs ih =>
    obtain ⟨nm, v, l⟩ := f
    simp only [ltiFields] at h
    rcases List.mem_cons.mp h with rfl | h
    · exact ⟨_, List.mem_cons_self, rfl, rfl⟩
    · obtain ⟨g, hg, h1, h2⟩ := ih h
      exact ⟨g, List.mem_cons_of_mem _ hg, h1, h2⟩

/-! ## depth -/

theorem odepthFields_le {kv : List (String × JVal)} {D : Nat} (h : ∀ p ∈ kv, odepth p.2 ≤ D) : odepthFields kv ≤ D := by
  induction kv with
  | nil => simp [odepthFields]
  | cons p ps ih =>
    obtain ⟨k, v⟩ := p
    simp only [odepthFields]
    have h1 := h (k, v) List.mem_cons_self
    have h2 := ih (fun q hq => h q (List.mem_cons_of_mem _ hq))
    simp only at h1
    omega

mutual
theorem lti_depth : ∀ l : Value, odepth (lti l) ≤ litDepth l
  | .var _ _ => by simp [lti, odepth]
  | .int raw _ => by
    simp only [lti]
    split
    · split <;> simp [odepth]
    · simp [odepth]
  | .float raw _ => by
    simp only [lti, litDepth]
    cases hp : parseFloatLit raw.toList with
    | none => simp [odepth]
    | some r =>
      have : odepth r = 0 := by
        rcases parseFloatLit_num hp with ⟨i, rfl⟩ | ⟨m, e, rfl⟩ <;> rfl
      simp [this]
  | .str _ _ => by simp [lti, odepth]
  | .bool _ _ => by simp [lti, odepth]
  | .enum _ _ => by simp [lti, odepth]
  | .list vs _ => by simpa [lti, odepth, litDepth] using ltiList_depth vs
  | .obj fs _ => by
    simp only [lti, odepth, litDepth]
    apply Nat.succ_le_succ
    apply odepthFields_le
    intro p hp
    exact ltiFields_depth fs p (mem_mkObj hp)
theorem ltiList_depth : ∀ ls : List Value, odepthList (ltiList ls) ≤ litDepthList ls
  | [] => by simp [ltiList, odepthList, litDepthList]
  | v :: vs => by
    have h1 := lti_depth v
    have h2 := ltiList_depth vs
    simp only [ltiList, odepthList, litDepthList]
    omega
theorem ltiFields_depth : ∀ (fs : List ObjField), ∀ p ∈ ltiFields fs, odepth p.2 ≤ litDepthFields fs
  | [], p, hp => by cases hp
  | (.mk n v l) :: fs, p, hp => by
    simp only [ltiFields] at hp
    simp only [litDepthFields]
    rcases List.mem_cons.mp hp with rfl | hp
    · have := lti_depth v; simp only; omega
    · have := ltiFields_depth fs p hp; omega
end

/-! ## scalars -/

theorem inInt32_inInt64 {i : Int} (h : inInt32 i = true) : inInt64 i = true := by
  unfold inInt32 at h
  unfold inInt64
  simp only [Bool.and_eq_true, decide_eq_true_eq] at h ⊢
  unfold minInt32 maxInt32 at h
  unfold minInt64 maxInt64
  omega

theorem coerceFloat_parseFloatLit {cs : List Char} {r : JVal} (hp : parseFloatLit cs = some r) : coerceFloat r = r := by
  rcases parseFloatLit_num hp with ⟨i, rfl⟩ | ⟨m, e, rfl⟩ <;> rfl

theorem canon_int {raw : String} {loc : Loc} (h : canonInts (.int raw loc) = true) :
    ∃ i, intOfChars raw.toList = some i := by
  simp only [canonInts] at h
  cases hi : intOfChars raw.toList with
  | none => simp [hi] at h
  | some i => exact ⟨i, rfl⟩

theorem string_of_intChars {raw : String} {i : Int} (h : intChars i = raw.toList) : intString i = raw := by
  unfold intString; rw [h]; exact String.ofList_toList

theorem natOfDigits_allDigits {cs : List Char} {n : Nat} (h : natOfDigits cs = some n) : allDigits cs = true := by
  unfold natOfDigits at h
  split at h
  · assumption
  · cases h

theorem unsignedDec_digits {cs : List Char} {n : Nat} (h : natOfDigits cs = some n) : unsignedDec cs = some (n, 0) := by
  unfold unsignedDec
  rw [splitDot_digits (digits_of_allDigits (natOfDigits_allDigits h))]
  simp [h]

theorem intOfChars_cases {cs : List Char} {i : Int} (h : intOfChars cs = some i) :
    (∃ ds n, cs = '-' :: ds ∧ natOfDigits ds = some n ∧ i = -(n : Int)) ∨
    (∃ n, natOfDigits cs = some n ∧ i = (n : Int) ∧ ∀ ds, cs ≠ '-' :: ds) := by
  cases cs with
  | nil => simp [intOfChars, natOfDigits, allDigits] at h
  | cons c ds =>
    by_cases hc : c = '-'
    · subst hc
      have h' : intOfChars ('-' :: ds) = (natOfDigits ds).map (fun n => -(n : Int)) := rfl
      rw [h'] at h
      cases hn : natOfDigits ds with
      | none => simp [hn] at h
      | some n =>
        simp [hn] at h
        exact Or.inl ⟨ds, n, rfl, hn, by omega⟩
    · have hi : intOfChars (c :: ds) = (natOfDigits (c :: ds)).map (fun n => (n : Int)) := by
        unfold intOfChars
        split
        · rename_i heq; simp at heq; exact absurd heq.1 hc
        · rfl
      rw [hi] at h
      cases hn : natOfDigits (c :: ds) with
      | none => simp [hn] at h
      | some n =>
        simp [hn] at h
        exact Or.inr ⟨n, rfl, by omega, fun ds' e => hc (List.cons.inj e).1⟩

/-- an integer token read as a decimal / as a float literal denotes the same integer -/
theorem parseDec_of_int {cs : List Char} {i : Int} (h : intOfChars cs = some i) : parseDec cs = some (i, 0) := by
  rcases intOfChars_cases h with ⟨ds, n, rfl, hn, rfl⟩ | ⟨n, hn, rfl, hne⟩
  · have h' : parseDec ('-' :: ds) = (unsignedDec ds).map (fun p => (-(p.1 : Int), p.2)) := rfl
    rw [h', unsignedDec_digits hn]; rfl
  · rw [parseDec_digits (natOfDigits_allDigits hn), unsignedDec_digits hn]; rfl

theorem noExp_of_int {cs : List Char} {i : Int} (h : intOfChars cs = some i) : ∀ c ∈ cs, noExpChar c = true := by
  rcases intOfChars_cases h with ⟨ds, n, rfl, hn, rfl⟩ | ⟨n, hn, rfl, hne⟩
  · intro x hx
    rcases List.mem_cons.mp hx with rfl | hx
    · decide
    · exact noExp_of_digit (digits_of_allDigits (natOfDigits_allDigits hn) x hx)
  · intro x hx
    exact noExp_of_digit (digits_of_allDigits (natOfDigits_allDigits hn) x hx)

theorem toLower_digit (c : Char) (h : c.isDigit = true) : c.toLower = c := by
  unfold Char.toLower
  unfold Char.isDigit at h
  simp only [Bool.and_eq_true, decide_eq_true_eq] at h
  have h2 : c.val ≤ 57 := h.2
  have : ¬ (c.val ≥ 65 ∧ c.val ≤ 90) := by
    intro hh
    have := hh.1
    have a : c.val.toNat ≤ 57 := h2
    have b : 65 ≤ c.val.toNat := this
    omega
  simp [this]

theorem map_toLower_digits {ds : List Char} (h : ∀ c ∈ ds, c.isDigit = true) : ds.map Char.toLower = ds := by
  induction ds with
  | nil => rfl
  | cons d ds ih =>
    simp only [List.map_cons]
    rw [toLower_digit d (h d (by simp)), ih (fun c hc => h c (by simp [hc]))]

theorem digits_beq_word {ds : List Char} (hne : ds ≠ []) (h : ∀ c ∈ ds, c.isDigit = true) (w : Char) (ws : List Char)
    (hw : w.isDigit = false) : (ds == w :: ws) = false := by
  cases ds with
  | nil => exact absurd rfl hne
  | cons d ds =>
    have : d ≠ w := isDigit_ne (h d (by simp)) hw
    simp [this]

/-- an integer token is never one of the non-finite spellings (`inf`, `nan`, …) -/
theorem notNonFinite_of_int {raw : String} {i : Int} (h : intOfChars raw.toList = some i) :
    isNonFiniteSpelling raw = false := by
  unfold isNonFiniteSpelling
  rcases intOfChars_cases h with ⟨ds, n, hcs, hn, _⟩ | ⟨n, hn, _, hne⟩
  · have hd := digits_of_allDigits (natOfDigits_allDigits hn)
    have hnil : ds ≠ [] := by
      intro e; subst e; simp [natOfDigits, allDigits] at hn
    rw [hcs]
    simp only [List.map_cons, map_toLower_digits hd]
    have : Char.toLower '-' = '-' := by decide
    rw [this]
    simp [digits_beq_word hnil hd 'i' _ (by decide)]
  · have hd := digits_of_allDigits (natOfDigits_allDigits hn)
    have hnil : raw.toList ≠ [] := by
      intro e; rw [e] at hn; simp [natOfDigits, allDigits] at hn
    rw [map_toLower_digits hd]
    cases hr : raw.toList with
    | nil => exact absurd hr hnil
    | cons c cs =>
      rw [hr] at hd
      have hc : c.isDigit = true := hd c (by simp)
      have h1 : c ≠ '+' := isDigit_ne hc (by decide)
      have h2 : c ≠ '-' := isDigit_ne hc (by decide)
      have h3 : c ≠ 'i' := isDigit_ne hc (by decide)
      have h4 : c ≠ 'n' := isDigit_ne hc (by decide)
      simp [h1, h2, h3, h4]

theorem parseFloatLit_of_int {cs : List Char} {i : Int} (h : intOfChars cs = some i) : parseFloatLit cs = some (.int i) := by
  unfold parseFloatLit
  rw [splitExp_noexp (noExp_of_int h)]
  simp [parseDec_of_int h, normDec]

theorem intOfDec_zero {i : Int} (h : inInt32 i = true) : intOfDec i 0 = .int i := by
  unfold inInt32 at h
  simp only [Bool.and_eq_true, decide_eq_true_eq] at h
  unfold intOfDec
  have h1 : ¬ (i < minInt32 * 10 ^ 0) := by simp; omega
  have h2 : ¬ (i > maxInt32 * 10 ^ 0) := by simp; omega
  first
    | (simp [h1, h2]; done)
    | (simp [h1, h2]; exact h)

/-- a literal that `ParseLiteral` accepts: `ParseValue` of its client-variable form gives the same value -/
theorem scalar_lti (k : ScalarKind) (l : Value) (hv : hasVars l = false) (hcn : canonInts l = true)
    (hc : ∀ sv pv pl, k = .custom sv pv pl → tableLookup pl (litWire l) = tableLookup pv (lti l))
    (h : (parseLiteral k l).isNull = false) : parseValue k (lti l) = parseLiteral k l := by
  cases k with
  | int =>
    cases l <;> simp_all [parseLiteral, JVal.isNull]
    rename_i raw loc
    obtain ⟨i, hi⟩ := canon_int hcn
    simp only [hi] at h ⊢
    by_cases h32 : inInt32 i = true
    · simp only [h32, if_true, lti, hi]
      split
      · simp [parseValue, coerceInt, h32]
      · simp [parseValue, coerceInt, parseDec_of_int hi, intOfDec_zero h32, notNonFinite_of_int hi]
    · simp [h32, JVal.isNull] at h
  | float =>
    cases l <;> simp_all [parseLiteral, JVal.isNull]
    · rename_i raw loc
      obtain ⟨i, hi⟩ := canon_int hcn
      simp only [lti, hi, parseFloatLit_of_int hi, Option.getD, parseValue]
      split
      · rfl
      · simp [coerceFloat, parseDec_of_int hi, normDec, notNonFinite_of_int hi]
    · rename_i raw loc
      cases hp : parseFloatLit raw.toList with
      | none => simp [hp, JVal.isNull] at h
      | some r => simp [lti, hp, parseValue, coerceFloat_parseFloatLit hp]
  | string => cases l <;> simp_all [parseLiteral, JVal.isNull, lti, parseValue, fmtV]
  | boolean => cases l <;> simp_all [parseLiteral, JVal.isNull, lti, parseValue, coerceBool]
  | id =>
    cases l <;> simp_all [parseLiteral, JVal.isNull, lti, parseValue, fmtV]
    rename_i raw loc
    obtain ⟨i, hi⟩ := canon_int hcn
    rw [hi]
    simp only []
    by_cases hb : inInt64 i = true ∧ intChars i = raw.toList
    · simp only [hb, and_self, if_true, fmtV]; exact string_of_intChars hb.2
    · simp only [hb, if_false, fmtV]
  | custom sv pv pl =>
    simp only [parseLiteral, parseValue]
    exact (hc sv pv pl rfl).symm

/-! ## the step lemma and the fuel induction -/

theorem none_step (s : Schema) (vars : Vars) (selfL : GType → Option Value → Bool) (selfV : GType → JVal → Bool)
    (selfC : GType → JVal → JVal) (selfA : GType → Option Value → JVal) :
    ∀ t, validLitStep s selfL t none = true →
      validStep s selfV t .null = true ∧ coerceStep s selfC t .null = fromASTStep s vars selfA t none := by
  intro t h
  rw [coerceStep_null, fromASTStep_none]
  cases t with
  | nonNull t => simp [validLitStep] at h
  | list t => simp [validStep]
  | named n => simp [validStep, JVal.isNull]

theorem ltiStep (s : Schema) (vars : Vars) (hcc : customLti s)
    (selfL : GType → Option Value → Bool) (selfV : GType → JVal → Bool)
    (selfC : GType → JVal → JVal) (selfA : GType → Option Value → JVal)
    (ihNone : ∀ t, selfL t none = true → selfV t .null = true ∧ selfC t .null = selfA t none)
    (ih : ∀ t l, hasVars l = false → canonInts l = true → selfL t (some l) = true →
      selfV t (lti l) = true ∧ selfC t (lti l) = selfA t (some l)) :
    ∀ t l, hasVars l = false → canonInts l = true → validLitStep s selfL t (some l) = true →
      validStep s selfV t (lti l) = true ∧ coerceStep s selfC t (lti l) = fromASTStep s vars selfA t (some l) := by
  intro t
  induction t with
  | nonNull t iht =>
    intro l hv hcn h
    have hnn := lti_ne_null l hv
    have hnv : isVarLit l = false := by cases l <;> simp_all [isVarLit, hasVars]
    have h' : validLitStep s selfL t (some l) = true := by simpa only [validLitStep] using h
    obtain ⟨h1, h2⟩ := iht l hv hcn h'
    refine ⟨by simp only [validStep, hnn, Bool.false_eq_true, if_false]; exact h1, ?_⟩
    rw [fromASTStep_nonNull_some _ _ _ _ _ hnv]
    simp only [coerceStep, hnn, Bool.false_eq_true, if_false]; exact h2
  | list t iht =>
    intro l hv hcn h
    cases l with
    | var x loc => simp [hasVars] at hv
    | list ls loc =>
      simp only [hasVars] at hv
      simp only [canonInts] at hcn
      simp only [validLitStep, List.all_eq_true] at h
      simp only [lti, ltiList_eq_map, validStep, coerceStep, fromASTStep, List.all_map, List.all_eq_true, List.map_map]
      refine ⟨fun x hx => (iht x (hasVars_mem_list hv hx) (canon_mem_list hcn hx) (h x hx)).1, ?_⟩
      congr 1
      apply map_congr'
      intro x hx
      exact (iht x (hasVars_mem_list hv hx) (canon_mem_list hcn hx) (h x hx)).2
    | int raw loc =>
      have h' : validLitStep s selfL t (some (.int raw loc)) = true := by simpa only [validLitStep] using h
      obtain ⟨h1, h2⟩ := iht _ hv hcn h'
      have hnn := lti_ne_null (.int raw loc) hv
      rw [fromASTStep_list_one _ _ _ _ _ rfl rfl, ← h2]
      generalize hg : lti (.int raw loc) = v at *
      have : isListVal v = false := by
        rw [← hg]; simp only [lti]; split
        · split <;> rfl
        · rfl
      cases v <;> simp_all [validStep, coerceStep, isListVal, JVal.isNull]
    | float raw loc =>
      have h' : validLitStep s selfL t (some (.float raw loc)) = true := by simpa only [validLitStep] using h
      obtain ⟨h1, h2⟩ := iht _ hv hcn h'
      have hnn := lti_ne_null (.float raw loc) hv
      have hd : odepth (lti (.float raw loc)) ≤ 0 := lti_depth (.float raw loc)
      rw [fromASTStep_list_one _ _ _ _ _ rfl rfl, ← h2]
      generalize hg : lti (.float raw loc) = v at *
      have hnl : isListVal v = false := by
        rw [← hg]; simp only [lti]
        cases hp : parseFloatLit raw.toList with
        | none => rfl
        | some r =>
          have := coerceFloat_parseFloatLit hp
          cases r <;> simp_all [coerceFloat, isListVal]
      cases v <;> simp_all [validStep, coerceStep, isListVal, JVal.isNull]
    | str x loc =>
      have h' : validLitStep s selfL t (some (.str x loc)) = true := by simpa only [validLitStep] using h
      obtain ⟨h1, h2⟩ := iht _ hv hcn h'
      rw [fromASTStep_list_one _ _ _ _ _ rfl rfl, ← h2]
      simp_all [lti, validStep, coerceStep]
    | bool b loc =>
      have h' : validLitStep s selfL t (some (.bool b loc)) = true := by simpa only [validLitStep] using h
      obtain ⟨h1, h2⟩ := iht _ hv hcn h'
      rw [fromASTStep_list_one _ _ _ _ _ rfl rfl, ← h2]
      simp_all [lti, validStep, coerceStep]
    | enum x loc =>
      have h' : validLitStep s selfL t (some (.enum x loc)) = true := by simpa only [validLitStep] using h
      obtain ⟨h1, h2⟩ := iht _ hv hcn h'
      rw [fromASTStep_list_one _ _ _ _ _ rfl rfl, ← h2]
      simp_all [lti, validStep, coerceStep]
    | obj fs loc =>
      have h' : validLitStep s selfL t (some (.obj fs loc)) = true := by simpa only [validLitStep] using h
      obtain ⟨h1, h2⟩ := iht _ hv hcn h'
      rw [fromASTStep_list_one _ _ _ _ _ rfl rfl, ← h2]
      simp_all [lti, validStep, coerceStep]
  | named n =>
    intro l hv hcn h
    have hnn := lti_ne_null l hv
    have hnv : isVarLit l = false := by cases l <;> simp_all [isVarLit, hasVars]
    cases hf : s.find? n with
    | none =>
      cases l <;> simp_all [validStep, coerceStep, fromASTStep, isVarLit]
    | some td =>
      cases td with
      | scalar nm k d =>
        have hpl : (parseLiteral k l).isNull = false := by
          cases l <;> simp_all [validLitStep, isVarLit]
        have hs := scalar_lti k l hv hcn (fun sv pv pl hk => hcc n nm sv pv pl d (hk ▸ hf) l hv) hpl
        have hfa : fromASTStep s vars selfA (.named n) (some l) = parseLiteral k l := by
          cases l <;> simp_all [fromASTStep, isVarLit]
        rw [hfa]
        simp only [validStep, coerceStep, hnn, Bool.false_eq_true, if_false, hf, hs]
        exact ⟨by simp [hpl], trivial⟩
      | enum nm vals d =>
        cases l <;> simp_all [validLitStep, isVarLit, enumParseLiteral, JVal.isNull]
        simp [lti, validStep, coerceStep, fromASTStep, hf, enumParseValue, enumParseLiteral, JVal.isNull, h]
      | inputObject nm fields d =>
        cases l with
        | obj fs loc =>
          simp only [hasVars] at hv
          simp only [canonInts] at hcn
          simp only [validLitStep, hf, Bool.and_eq_true, List.all_eq_true] at h
          have hfield : ∀ f ∈ fields,
              selfV f.type (lookupD (mkObj (ltiFields fs)) f.name) = true ∧
              selfC f.type (lookupD (mkObj (ltiFields fs)) f.name) = selfA f.type (litLookup fs f.name) := by
            intro f hfm
            rw [lookupD_lti_obj]
            have hval := h.2 f hfm
            cases hl : litLookup fs f.name with
            | none => rw [hl] at hval; exact ihNone _ hval
            | some v =>
              rw [hl] at hval
              have hvv : hasVars v = false := by
                have := hasVars_litLookup hv f.name; rw [hl] at this; exact this
              exact ih _ v hvv (canon_litLookup hcn f.name v hl) hval
          refine ⟨?_, ?_⟩
          · simp only [lti, validStep, JVal.isNull, Bool.false_eq_true, if_false, hf, Bool.and_eq_true, List.all_eq_true]
            refine ⟨?_, fun f hfm => (hfield f hfm).1⟩
            intro p hp
            obtain ⟨g, hg, hg1, _⟩ := mem_ltiFields (mem_mkObj hp)
            rw [← hg1]; exact h.1 g hg
          · simp only [lti, coerceStep, JVal.isNull, Bool.false_eq_true, if_false, hf, fromASTStep]
            congr 2
            apply filterMap_congr'
            intro f hfm
            rw [(hfield f hfm).2]
        | _ => simp_all [validLitStep, isVarLit]
      | object _ _ _ _ _ => cases l <;> simp_all [validStep, coerceStep, fromASTStep, isVarLit]
      | interface _ _ _ _ => cases l <;> simp_all [validStep, coerceStep, fromASTStep, isVarLit]
      | union _ _ _ _ => cases l <;> simp_all [validStep, coerceStep, fromASTStep, isVarLit]

theorem ltiF (s : Schema) (vars : Vars) (hcc : customLti s) :
    ∀ (n : Nat) (t : GType) (l : Value), hasVars l = false → canonInts l = true →
      isValidLiteralValueF s n t (some l) = true →
      isValidInputValueF s n t (lti l) = true ∧ coerceValueF s n t (lti l) = valueFromASTF s vars n t (some l) := by
  intro n
  induction n with
  | zero => intro t l _ _ h; simp [isValidLiteralValueF, iter] at h
  | succ n ih =>
    intro t l hv hcn h
    refine ltiStep s vars hcc _ _ _ _ ?_ ih t l hv hcn h
    intro t' h'
    cases n with
    | zero => simp [isValidLiteralValueF, iter] at h'
    | succ n => exact none_step s vars _ _ _ _ t' h'

/-- **literalToInput agrees with the literal** (fuel-free): a valid, variable-free literal with canonically
spelled integers is, in client-variable form, a valid input value that coerces to what the literal evaluates to. -/
theorem lti_agree (s : Schema) (hcc : customLti s) (t : GType) (l : Value) (vars : Vars)
    (hv : hasVars l = false) (hcn : canonInts l = true) (h : isValidLiteralValue s t (some l) = true) :
    isValidInputValue s t (lti l) = true ∧ coerceValue s t (lti l) = valueFromAST s t (some l) vars := by
  have hd : odepth (lti l) < litDepth l + 1 := Nat.lt_succ_of_le (lti_depth l)
  obtain ⟨h1, h2⟩ := ltiF s vars hcc (litDepth l + 1) t l hv hcn h
  rw [isValidInputValueF_stable s _ t _ hd] at h1
  rw [coerceValueF_stable s _ t _ hd] at h2
  exact ⟨h1, h2⟩

end GqlModel.Normalize
