import GqlModel.Introspection
/-! # Helper lemmas for C10's `default_roundtrip`

1. numbers: the decimal renderings `intChars`, `intChars ++ ".0"`, `decChars` parse back (`parseNum`) to what they came from;
2. strings: `readString` undoes `quoteChars`;
3. the reader: `readLit (printLit l) = some l` for every well-formed literal;
4. values: `coerceLit t (astFromValue t v) = v` for every conformant `v`. -/
namespace GqlModel.Introspection
open GqlModel

/-! ## numbers -/

theorem digit_facts : ∀ n, n < 10 → isDigit (digitChar n) = true ∧ digitVal (digitChar n) = n := by decide

theorem natOfDigits_append (a b : Chars) :
    natOfDigits (a ++ b) = b.foldl (fun acc c => acc * 10 + digitVal c) (natOfDigits a) := by
  simp [natOfDigits, List.foldl_append]

theorem natOfDigits_snoc (a : Chars) (c : Char) : natOfDigits (a ++ [c]) = natOfDigits a * 10 + digitVal c := by
  simp [natOfDigits_append]

theorem natCharsAux_spec : ∀ (fuel n : Nat) (acc : Chars), n < fuel →
    ∃ ds, natCharsAux fuel n acc = ds ++ acc ∧ ds ≠ [] ∧ (∀ c ∈ ds, isDigit c = true) ∧ natOfDigits ds = n := by
  intro fuel
  induction fuel with
  | zero => intro n acc h; omega
  | succ fuel ih =>
    intro n acc h
    simp only [natCharsAux]
    by_cases h10 : n < 10
    · simp only [h10, if_true]
      refine ⟨[digitChar n], rfl, by simp, ?_, ?_⟩
      · intro c hc; simp at hc; subst hc; exact (digit_facts n h10).1
      · simp [natOfDigits, (digit_facts n h10).2]
    · simp only [h10, if_false]
      obtain ⟨ds, hds, hne, hall, hval⟩ := ih (n / 10) (digitChar (n % 10) :: acc) (by omega)
      refine ⟨ds ++ [digitChar (n % 10)], by simp [hds], by simp, ?_, ?_⟩
      · intro c hc
        rcases List.mem_append.mp hc with h1 | h1
        · exact hall c h1
        · simp at h1; subst h1; exact (digit_facts _ (by omega)).1
      · rw [natOfDigits_snoc, hval, (digit_facts _ (by omega)).2]; omega

theorem natChars_spec (n : Nat) :
    natChars n ≠ [] ∧ (∀ c ∈ natChars n, isDigit c = true) ∧ natOfDigits (natChars n) = n := by
  obtain ⟨ds, hds, hne, hall, hval⟩ := natCharsAux_spec (n + 1) n [] (by omega)
  simp only [List.append_nil] at hds
  unfold natChars
  rw [hds]
  exact ⟨hne, hall, hval⟩

theorem takeWhile_all {α : Type} (p : α → Bool) (xs : List α) (h : ∀ x ∈ xs, p x = true) : xs.takeWhile p = xs := by
  induction xs with
  | nil => rfl
  | cons x xs ih => simp [List.takeWhile, h x (by simp), ih (fun y hy => h y (List.mem_cons_of_mem _ hy))]

theorem dropWhile_all {α : Type} (p : α → Bool) (xs : List α) (h : ∀ x ∈ xs, p x = true) : xs.dropWhile p = [] := by
  induction xs with
  | nil => rfl
  | cons x xs ih => simp [List.dropWhile, h x (by simp), ih (fun y hy => h y (List.mem_cons_of_mem _ hy))]

theorem takeWhile_append_stop {α : Type} (p : α → Bool) (xs : List α) (y : α) (ys : List α)
    (h : ∀ x ∈ xs, p x = true) (hy : p y = false) : (xs ++ y :: ys).takeWhile p = xs := by
  induction xs with
  | nil => simp [hy]
  | cons x xs ih =>
    simp [h x (by simp)]
    exact ih (fun z hz => h z (List.mem_cons_of_mem _ hz))

theorem dropWhile_append_stop {α : Type} (p : α → Bool) (xs : List α) (y : α) (ys : List α)
    (h : ∀ x ∈ xs, p x = true) (hy : p y = false) : (xs ++ y :: ys).dropWhile p = y :: ys := by
  induction xs with
  | nil => simp [hy]
  | cons x xs ih =>
    simp [h x (by simp)]
    exact ih (fun z hz => h z (List.mem_cons_of_mem _ hz))

/-- digits, optionally preceded by `-` -/
theorem parseNum_signed (neg : Bool) (ds : Chars) (hne : ds ≠ []) (hall : ∀ c ∈ ds, isDigit c = true) :
    parseNum ((if neg then ['-'] else []) ++ ds) = some (neg, natOfDigits ds, 0) := by
  obtain ⟨d, ds', rfl⟩ := List.exists_cons_of_ne_nil hne
  have hd : isDigit d = true := hall d (by simp)
  have hdm : d ≠ '-' := by intro h; subst h; simp [isDigit] at hd
  cases neg
  · simp only [Bool.false_eq_true, if_false, List.nil_append, parseNum, List.head?_cons]
    have : (some d == some '-') = false := by simp [hdm]
    simp only [this, Bool.false_eq_true, if_false]
    rw [takeWhile_all _ _ hall, dropWhile_all _ _ hall]
    simp
  · simp only [if_true, parseNum, List.cons_append, List.nil_append, List.head?_cons, List.tail_cons]
    simp only [show (some '-' == some '-') = true from by decide, if_true]
    rw [takeWhile_all _ _ hall, dropWhile_all _ _ hall]
    simp

theorem parseNum_signed_frac (neg : Bool) (ds fs : Chars) (hne : ds ≠ []) (hall : ∀ c ∈ ds, isDigit c = true)
    (hfne : fs ≠ []) (hfall : ∀ c ∈ fs, isDigit c = true) :
    parseNum ((if neg then ['-'] else []) ++ ds ++ '.' :: fs) = some (neg, natOfDigits (ds ++ fs), fs.length) := by
  obtain ⟨d, ds', rfl⟩ := List.exists_cons_of_ne_nil hne
  have hd : isDigit d = true := hall d (by simp)
  have hdm : d ≠ '-' := by intro h; subst h; simp [isDigit] at hd
  have hdot : isDigit '.' = false := by decide
  have hf : (fs.isEmpty || !fs.all isDigit) = false := by
    have h1 : fs.isEmpty = false := by cases fs <;> simp_all
    have h2 : fs.all isDigit = true := List.all_eq_true.mpr hfall
    simp [h1, h2]
  cases neg
  · simp only [Bool.false_eq_true, if_false, List.nil_append, parseNum, List.head?_cons, List.cons_append]
    have : (some d == some '-') = false := by simp [hdm]
    simp only [this, Bool.false_eq_true, if_false]
    rw [← List.cons_append, takeWhile_append_stop _ _ _ _ hall hdot, dropWhile_append_stop _ _ _ _ hall hdot]
    simp [hf]
  · simp only [if_true, parseNum, List.cons_append, List.nil_append, List.head?_cons, List.tail_cons]
    simp only [show (some '-' == some '-') = true from by decide, if_true]
    rw [← List.cons_append, takeWhile_append_stop _ _ _ _ hall hdot, dropWhile_append_stop _ _ _ _ hall hdot]
    simp [hf]

theorem intChars_eq (i : Int) : intChars i = (if decide (i < 0) then ['-'] else []) ++ natChars i.natAbs := by
  unfold intChars
  by_cases h : i < 0 <;> simp [h]

theorem parseNum_intChars (i : Int) : parseNum (intChars i) = some (decide (i < 0), i.natAbs, 0) := by
  obtain ⟨hne, hall, hval⟩ := natChars_spec i.natAbs
  rw [intChars_eq, parseNum_signed _ _ hne hall, hval]

theorem signed_natAbs (i : Int) : (if decide (i < 0) = true then -((i.natAbs : Nat) : Int) else ((i.natAbs : Nat) : Int)) = i := by
  by_cases h : i < 0 <;> simp [h] <;> omega


theorem natOfDigits_zeros (k : Nat) : natOfDigits (List.replicate k '0') = 0 := by
  induction k with
  | zero => rfl
  | succ k ih =>
    simp only [natOfDigits, List.replicate_succ, List.foldl_cons] at ih ⊢
    simpa [digitVal] using ih

theorem natOfDigits_pad (k : Nat) (ds : Chars) : natOfDigits (List.replicate k '0' ++ ds) = natOfDigits ds := by
  rw [natOfDigits_append, natOfDigits_zeros]; rfl

theorem decChars_eq (m : Int) (e : Nat) :
    ∃ ip fs, decChars m e = (if decide (m < 0) then ['-'] else []) ++ ip ++ '.' :: fs ∧ ip ≠ [] ∧
      (∀ c ∈ ip, isDigit c = true) ∧ fs.length = e ∧ (∀ c ∈ fs, isDigit c = true) ∧ natOfDigits (ip ++ fs) = m.natAbs := by
  obtain ⟨hne, hall, hval⟩ := natChars_spec m.natAbs
  let padded := List.replicate (e + 1 - (natChars m.natAbs).length) '0' ++ natChars m.natAbs
  have hpall : ∀ c ∈ padded, isDigit c = true := by
    intro c hc
    rcases List.mem_append.mp hc with h | h
    · have := List.eq_of_mem_replicate h; subst this; decide
    · exact hall c h
  have hplen : padded.length ≥ e + 1 := by simp [padded]; omega
  refine ⟨padded.take (padded.length - e), padded.drop (padded.length - e), ?_, ?_, ?_, ?_, ?_, ?_⟩
  · unfold decChars
    by_cases h : m < 0 <;> simp [h, padded]
  · intro h
    have : (padded.take (padded.length - e)).length = 0 := by rw [h]; rfl
    rw [List.length_take] at this
    omega
  · exact fun c hc => hpall c (List.mem_of_mem_take hc)
  · rw [List.length_drop]; omega
  · exact fun c hc => hpall c (List.mem_of_mem_drop hc)
  · rw [List.take_append_drop, natOfDigits_pad, hval]

theorem parseNum_decChars (m : Int) (e : Nat) (he : e > 0) :
    parseNum (decChars m e) = some (decide (m < 0), m.natAbs, e) := by
  obtain ⟨ip, fs, heq, hne, hall, hlen, hfall, hval⟩ := decChars_eq m e
  rw [heq, parseNum_signed_frac _ _ _ hne hall (by intro h; subst h; simp at hlen; omega) hfall, hval, hlen]

theorem numToJVal_dec (m : Int) (e : Nat) (he : e > 0) (hm : m % 10 ≠ 0) :
    numToJVal (decide (m < 0), m.natAbs, e) = .dec m e := by
  simp only [numToJVal, signed_natAbs]
  obtain ⟨k, rfl⟩ : ∃ k, e = k + 1 := ⟨e - 1, by omega⟩
  simp [mkDec, hm]

theorem parseNum_intChars_dot0 (i : Int) :
    parseNum (intChars i ++ ['.', '0']) = some (decide (i < 0), i.natAbs * 10, 1) := by
  obtain ⟨hne, hall, hval⟩ := natChars_spec i.natAbs
  rw [intChars_eq]
  have := parseNum_signed_frac (decide (i < 0)) (natChars i.natAbs) ['0'] hne hall (by simp) (by intro c hc; simp at hc; subst hc; decide)
  simp only [List.append_assoc] at this ⊢
  rw [this, natOfDigits_snoc, hval]
  simp [digitVal]

theorem numToJVal_int10 (i : Int) : numToJVal (decide (i < 0), i.natAbs * 10, 1) = .int i := by
  simp only [numToJVal]
  have h : (if decide (i < 0) = true then -((i.natAbs * 10 : Nat) : Int) else ((i.natAbs * 10 : Nat) : Int)) = i * 10 := by
    by_cases h : i < 0 <;> simp [h] <;> omega
  rw [h]
  simp [mkDec]

theorem readString_u (h1 h2 h3 h4 : Char) (a b c d : Nat) (rest acc : Chars)
    (e1 : hexVal h1 = some a) (e2 : hexVal h2 = some b) (e3 : hexVal h3 = some c) (e4 : hexVal h4 = some d) :
    readString ('\\' :: 'u' :: h1 :: h2 :: h3 :: h4 :: rest) acc =
      readString rest (Char.ofNat (((a * 16 + b) * 16 + c) * 16 + d) :: acc) := by
  rw [readString.eq_def]
  simp [e1, e2, e3, e4]

theorem readString_e1 (rest acc : Chars) : readString ('\\' :: '"' :: rest) acc = readString rest ('"' :: acc) := by
  rw [readString.eq_def]; simp
theorem readString_e2 (rest acc : Chars) : readString ('\\' :: '\\' :: rest) acc = readString rest ('\\' :: acc) := by
  rw [readString.eq_def]; simp
theorem readString_e3 (rest acc : Chars) : readString ('\\' :: 'b' :: rest) acc = readString rest ('\x08' :: acc) := by
  rw [readString.eq_def]; simp
theorem readString_e4 (rest acc : Chars) : readString ('\\' :: 'f' :: rest) acc = readString rest ('\x0c' :: acc) := by
  rw [readString.eq_def]; simp
theorem readString_e5 (rest acc : Chars) : readString ('\\' :: 'n' :: rest) acc = readString rest ('\n' :: acc) := by
  rw [readString.eq_def]; simp
theorem readString_e6 (rest acc : Chars) : readString ('\\' :: 'r' :: rest) acc = readString rest ('\r' :: acc) := by
  rw [readString.eq_def]; simp
theorem readString_e7 (rest acc : Chars) : readString ('\\' :: 't' :: rest) acc = readString rest ('\t' :: acc) := by
  rw [readString.eq_def]; simp

theorem readString_plain (c : Char) (rest acc : Chars) (h1 : c ≠ '"') (h2 : c ≠ '\\') (h3 : c ≠ '\n') (h4 : c ≠ '\r') :
    readString (c :: rest) acc = readString rest (c :: acc) := by
  rw [readString.eq_def]
  simp [h1, h2, h3, h4]

theorem readString_quote (rest acc : Chars) : readString ('"' :: rest) acc = some (acc.reverse, rest) := by
  rw [readString.eq_def]; simp

theorem hex_facts : ∀ n, n < 128 → hexVal (hexDigit (n / 16)) = some (n / 16) ∧ hexVal (hexDigit (n % 16)) = some (n % 16) := by
  decide

theorem hexVal_zero : hexVal '0' = some 0 := by decide

theorem readString_esc (c : Char) (tail acc : Chars) :
    readString (escChar c ++ tail) acc = readString tail (c :: acc) := by
  unfold escChar
  by_cases h1 : c = '"'
  · subst h1; simp [readString_e1]
  by_cases h2 : c = '\\'
  · subst h2; simp [readString_e2]
  by_cases h3 : c = '\x08'
  · subst h3; simp [readString_e3]
  by_cases h4 : c = '\x0c'
  · subst h4; simp [readString_e4]
  by_cases h5 : c = '\n'
  · subst h5; simp [readString_e5]
  by_cases h6 : c = '\r'
  · subst h6; simp [readString_e6]
  by_cases h7 : c = '\t'
  · subst h7; simp [readString_e7]
  simp only [h1, h2, h3, h4, h5, h6, h7, if_false]
  by_cases h8 : c.toNat < 0x20 ∨ c.toNat = 0x7f
  · simp only [h8, if_true]
    have hlt : c.toNat < 128 := by omega
    obtain ⟨ha, hb⟩ := hex_facts c.toNat hlt
    simp only [List.cons_append, List.nil_append]
    rw [readString_u _ _ _ _ _ _ _ _ _ _ hexVal_zero hexVal_zero ha hb]
    have : ((0 * 16 + 0) * 16 + c.toNat / 16) * 16 + c.toNat % 16 = c.toNat := by omega
    rw [this, Char.ofNat_toNat]
  · simp only [h8, if_false, List.cons_append, List.nil_append]
    exact readString_plain c tail acc h1 h2 h5 h6

theorem readString_quoted (s : Chars) : ∀ (acc rest : Chars),
    readString (s.flatMap escChar ++ '"' :: rest) acc = some (acc.reverse ++ s, rest) := by
  induction s with
  | nil => intro acc rest; simp [readString_quote]
  | cons c s ih =>
    intro acc rest
    simp only [List.flatMap_cons, List.append_assoc]
    rw [readString_esc, ih]
    simp

/-! ## reader: unfolding lemmas -/

theorem skipWs_cons_nonws (c : Char) (cs : Chars) (h : isWs c = false) : skipWs (c :: cs) = c :: cs := by
  simp [skipWs, h]

theorem skipWs_cons_ws (c : Char) (cs : Chars) (h : isWs c = true) : skipWs (c :: cs) = skipWs cs := by
  simp [skipWs, h]

theorem readValue_unfold (fuel : Nat) (cs r : Chars) (c : Char) (h : skipWs cs = c :: r) :
    readValue (fuel + 1) cs =
      if c = '[' then (readList fuel r).map (fun p => (Lit.list p.1, p.2))
      else if c = '{' then (readFields fuel r).map (fun p => (Lit.obj p.1, p.2))
      else if c = '"' then (readString r []).map (fun p => (Lit.str (String.ofList p.1), p.2))
      else if isDigit c || c == '-' then
        (if validNumText ((c :: r).takeWhile isNumChar) then
          some (.num (String.ofList ((c :: r).takeWhile isNumChar)), (c :: r).dropWhile isNumChar) else none)
      else if isNameStart c then
        (if (c :: r).takeWhile isNameChar = "true".toList then some (.bool true, (c :: r).dropWhile isNameChar)
         else if (c :: r).takeWhile isNameChar = "false".toList then some (.bool false, (c :: r).dropWhile isNameChar)
         else if (c :: r).takeWhile isNameChar = "null".toList then none
         else some (.enum (String.ofList ((c :: r).takeWhile isNameChar)), (c :: r).dropWhile isNameChar))
      else none := by
  rw [readValue.eq_def]; simp only [h]

theorem readList_unfold (fuel : Nat) (cs r : Chars) (c : Char) (h : skipWs cs = c :: r) :
    readList (fuel + 1) cs =
      if c = ']' then some ([], r)
      else (readValue fuel (c :: r)).bind (fun p => (readList fuel p.2).map (fun q => (p.1 :: q.1, q.2))) := by
  rw [readList.eq_def]; simp only [h]

theorem readFields_close (fuel : Nat) (cs r : Chars) (h : skipWs cs = '}' :: r) :
    readFields (fuel + 1) cs = some ([], r) := by
  rw [readFields.eq_def]; simp only [h]; simp

theorem readFields_field (fuel : Nat) (cs r r' : Chars) (c : Char) (h : skipWs cs = c :: r) (hc : isNameStart c = true)
    (h2 : skipWs ((c :: r).dropWhile isNameChar) = ':' :: r') :
    readFields (fuel + 1) cs =
      (readValue fuel r').bind (fun p => (readFields fuel p.2).map (fun q =>
        ((String.ofList ((c :: r).takeWhile isNameChar), p.1) :: q.1, q.2))) := by
  have hne : c ≠ '}' := by intro h; subst h; revert hc; decide
  rw [readFields.eq_def]; simp only [h, hne, if_false, hc, if_true, h2]

theorem readValue_skip_space (fuel : Nat) (cs : Chars) : readValue fuel (' ' :: cs) = readValue fuel cs := by
  cases fuel with
  | zero => rw [readValue.eq_def, readValue.eq_def]
  | succ fuel =>
    rw [readValue.eq_def, readValue.eq_def (fuel + 1) cs]
    simp only [skipWs_cons_ws ' ' cs (by decide)]

/-! definitions for the reader round trip -/

def numHead : Chars → Bool
  | c :: _ => isDigit c || c == '-'
  | [] => false

mutual
def litOK : Lit → Bool
  | .num t => validNumText t.toList && t.toList.all isNumChar && numHead t.toList
  | .str _ => true
  | .bool _ => true
  | .enum n => validName n && n != "true" && n != "false" && n != "null"
  | .list xs => litsOK xs
  | .obj fs => fieldsOK fs
def litsOK : List Lit → Bool
  | [] => true
  | x :: xs => litOK x && litsOK xs
def fieldsOK : List (String × Lit) → Bool
  | [] => true
  | (k, x) :: rest => validName k && litOK x && fieldsOK rest
end

def printElems : List Lit → Chars
  | [] => []
  | [x] => printLit x
  | x :: y :: r => printLit x ++ ',' :: ' ' :: printElems (y :: r)

def printFieldElems : List (String × Lit) → Chars
  | [] => []
  | [(k, x)] => k.toList ++ ':' :: ' ' :: printLit x
  | (k, x) :: y :: r => k.toList ++ ':' :: ' ' :: printLit x ++ ',' :: ' ' :: printFieldElems (y :: r)

mutual
def need : Lit → Nat
  | .list xs => 1 + needL xs
  | .obj fs => 1 + needF fs
  | _ => 1
def needL : List Lit → Nat
  | [] => 1
  | x :: xs => 1 + max (need x) (needL xs)
def needF : List (String × Lit) → Nat
  | [] => 1
  | (_, x) :: rest => 1 + max (need x) (needF rest)
end

def goodHead (cs : Chars) : Prop :=
  match cs with
  | [] => False
  | c :: _ => isWs c = false ∧ c ≠ ']' ∧ c ≠ '}'

def delim (rest : Chars) : Prop :=
  match rest with
  | [] => True
  | c :: _ => isNumChar c = false ∧ isNameChar c = false

theorem numStart_good (c : Char) (h : (isDigit c || c == '-') = true) :
    isWs c = false ∧ c ≠ ']' ∧ c ≠ '}' ∧ c ≠ '[' ∧ c ≠ '{' ∧ c ≠ '"' := by
  have hn : (48 ≤ c.toNat ∧ c.toNat ≤ 57) ∨ c.toNat = 45 := by
    simp only [isDigit, Bool.or_eq_true, decide_eq_true_eq, beq_iff_eq] at h
    rcases h with h | h
    · exact Or.inl h
    · subst h; right; decide
  have key : ∀ d : Char, (d.toNat < 45 ∨ d.toNat > 57 ∨ d.toNat = 46 ∨ d.toNat = 47) → c ≠ d := by
    intro d hd heq; subst heq; omega
  refine ⟨?_, key _ (by decide), key _ (by decide), key _ (by decide), key _ (by decide), key _ (by decide)⟩
  simp only [isWs, Bool.or_eq_false_iff, beq_eq_false_iff_ne, ne_eq]
  exact ⟨⟨⟨⟨key _ (by decide), key _ (by decide)⟩, key _ (by decide)⟩, key _ (by decide)⟩, key _ (by decide)⟩

theorem nameStart_good (c : Char) (h : isNameStart c = true) :
    isWs c = false ∧ c ≠ ']' ∧ c ≠ '}' ∧ c ≠ '[' ∧ c ≠ '{' ∧ c ≠ '"' ∧ (isDigit c || c == '-') = false ∧ isNameChar c = true := by
  have hn : (65 ≤ c.toNat ∧ c.toNat ≤ 90) ∨ (97 ≤ c.toNat ∧ c.toNat ≤ 122) ∨ c.toNat = 95 := by
    simpa [isNameStart] using h
  have key : ∀ d : Char, (d.toNat < 65 ∨ d.toNat > 122 ∨ d.toNat = 91 ∨ d.toNat = 93 ∨ d.toNat = 92 ∨ d.toNat = 94 ∨ d.toNat = 96) → c ≠ d := by
    intro d hd heq; subst heq; omega
  refine ⟨?_, key _ (by decide), key _ (by decide), key _ (by decide), key _ (by decide), key _ (by decide), ?_, ?_⟩
  · simp only [isWs, Bool.or_eq_false_iff, beq_eq_false_iff_ne, ne_eq]
    exact ⟨⟨⟨⟨key _ (by decide), key _ (by decide)⟩, key _ (by decide)⟩, key _ (by decide)⟩, key _ (by decide)⟩
  · simp only [Bool.or_eq_false_iff, beq_eq_false_iff_ne, ne_eq, isDigit, decide_eq_false_iff_not]
    exact ⟨by omega, key _ (by decide)⟩
  · simp [isNameChar, h]

def stops (p : Char → Bool) : Chars → Prop
  | [] => True
  | c :: _ => p c = false

theorem delim_stops_num {rest : Chars} (h : delim rest) : stops isNumChar rest := by
  cases rest with
  | nil => trivial
  | cons d r => exact h.1

theorem delim_stops_name {rest : Chars} (h : delim rest) : stops isNameChar rest := by
  cases rest with
  | nil => trivial
  | cons d r => exact h.2

theorem takeWhile_append_delim {p : Char → Bool} (xs rest : Chars) (h : ∀ x ∈ xs, p x = true)
    (hr : stops p rest) :
    (xs ++ rest).takeWhile p = xs ∧ (xs ++ rest).dropWhile p = rest := by
  cases rest with
  | nil => simp [takeWhile_all p xs h, dropWhile_all p xs h]
  | cons c rest => exact ⟨takeWhile_append_stop p xs c rest h hr, dropWhile_append_stop p xs c rest h hr⟩

theorem toList_ne_of_ne {a b : String} (h : a ≠ b) : a.toList ≠ b.toList := by
  intro heq
  apply h
  rw [← String.ofList_toList (s := a), ← String.ofList_toList (s := b), heq]

theorem validName_spec {n : String} (h : validName n = true) :
    ∃ c cs, n.toList = c :: cs ∧ isNameStart c = true ∧ ∀ x ∈ c :: cs, isNameChar x = true := by
  unfold validName at h
  split at h
  · simp at h
  · rename_i c cs heq
    simp only [Bool.and_eq_true, List.all_eq_true] at h
    refine ⟨c, cs, heq, h.1, ?_⟩
    intro x hx
    rcases List.mem_cons.mp hx with rfl | hx
    · exact (nameStart_good _ h.1).2.2.2.2.2.2.2
    · exact h.2 x hx

/-- first character of a printed well-formed literal -/
theorem printLit_head : ∀ (l : Lit), litOK l = true → ∃ c cs, printLit l = c :: cs ∧ isWs c = false ∧ c ≠ ']' ∧ c ≠ '}' := by
  intro l h
  cases l with
  | num t =>
    simp only [litOK, Bool.and_eq_true] at h
    obtain ⟨⟨_, _⟩, h3⟩ := h
    rcases ht : t.toList with _ | ⟨c, cs⟩
    · simp [ht, numHead] at h3
    · simp only [ht, numHead] at h3
      have := numStart_good c h3
      exact ⟨c, cs, by simp [printLit, ht], this.1, this.2.1, this.2.2.1⟩
  | str s => exact ⟨'"', _, rfl, by decide, by decide, by decide⟩
  | bool b =>
    cases b
    · exact ⟨'f', ['a', 'l', 's', 'e'], rfl, by decide, by decide, by decide⟩
    · exact ⟨'t', ['r', 'u', 'e'], rfl, by decide, by decide, by decide⟩
  | «enum» n =>
    simp only [litOK, Bool.and_eq_true] at h
    obtain ⟨c, cs, heq, hs, _⟩ := validName_spec h.1.1.1
    have := nameStart_good c hs
    exact ⟨c, cs, by simp [printLit, heq], this.1, this.2.1, this.2.2.1⟩
  | list xs => exact ⟨'[', _, rfl, by decide, by decide, by decide⟩
  | obj fs => exact ⟨'{', _, rfl, by decide, by decide, by decide⟩

theorem printLit_ne_nil (l : Lit) (h : litOK l = true) : printLit l ≠ [] := by
  obtain ⟨c, cs, heq, _⟩ := printLit_head l h
  simp [heq]

theorem printElems_head (x : Lit) (xs : List Lit) (h : litOK x = true) :
    ∃ c cs, printElems (x :: xs) = c :: cs ∧ isWs c = false ∧ c ≠ ']' ∧ c ≠ '}' := by
  obtain ⟨c, cs, heq, h1, h2, h3⟩ := printLit_head x h
  cases xs with
  | nil => exact ⟨c, cs, by simp [printElems, heq], h1, h2, h3⟩
  | cons y r => exact ⟨c, _, by simp [printElems, heq]; rfl, h1, h2, h3⟩

theorem join_printLits : ∀ (xs : List Lit), litsOK xs = true → joinNonEmpty [',', ' '] (printLits xs) = printElems xs := by
  intro xs
  induction xs with
  | nil => intro _; rfl
  | cons x xs ih =>
    intro h
    simp only [litsOK, Bool.and_eq_true] at h
    have hx := printLit_ne_nil x h.1
    simp only [printLits, joinNonEmpty]
    have hxe : (printLit x).isEmpty = false := by cases hp : printLit x <;> simp_all
    simp only [hxe, Bool.false_eq_true, if_false]
    rw [ih h.2]
    cases xs with
    | nil => simp [printElems]
    | cons y r =>
      simp only [litsOK, Bool.and_eq_true] at h
      obtain ⟨c, cs, heq, _⟩ := printElems_head y r h.2.1
      simp [heq, printElems]


theorem printFieldElems_head (k : String) (x : Lit) (fs : List (String × Lit)) (h : validName k = true) :
    ∃ c cs, printFieldElems ((k, x) :: fs) = c :: cs ∧ isWs c = false ∧ c ≠ ']' ∧ c ≠ '}' := by
  obtain ⟨c, cs, heq, hs, _⟩ := validName_spec h
  have := nameStart_good c hs
  cases fs with
  | nil => exact ⟨c, _, by simp [printFieldElems, heq]; rfl, this.1, this.2.1, this.2.2.1⟩
  | cons y r => exact ⟨c, _, by simp [printFieldElems, heq]; rfl, this.1, this.2.1, this.2.2.1⟩

theorem join_printFields : ∀ (fs : List (String × Lit)), fieldsOK fs = true →
    joinNonEmpty [',', ' '] (printFields fs) = printFieldElems fs := by
  intro fs
  induction fs with
  | nil => intro _; rfl
  | cons p fs ih =>
    obtain ⟨k, x⟩ := p
    intro h
    simp only [fieldsOK, Bool.and_eq_true] at h
    obtain ⟨c, cs, heq, _⟩ := validName_spec h.1.1
    simp only [printFields, joinNonEmpty]
    have hxe : (k.toList ++ ':' :: ' ' :: printLit x).isEmpty = false := by simp [heq]
    simp only [hxe, Bool.false_eq_true, if_false]
    rw [ih h.2]
    cases fs with
    | nil => simp [printFieldElems]
    | cons y r =>
      obtain ⟨k', x'⟩ := y
      simp only [fieldsOK, Bool.and_eq_true] at h
      obtain ⟨c', cs', heq', _⟩ := printFieldElems_head k' x' r h.2.1.1
      simp [heq', printFieldElems]

theorem readList_skip (fuel : Nat) (cs : Chars) : readList fuel (',' :: ' ' :: cs) = readList fuel cs := by
  cases fuel with
  | zero => rw [readList.eq_def, readList.eq_def]
  | succ fuel =>
    rw [readList.eq_def, readList.eq_def (fuel + 1) cs]
    simp only [skipWs_cons_ws ',' _ (by decide), skipWs_cons_ws ' ' cs (by decide)]

theorem readFields_skip (fuel : Nat) (cs : Chars) : readFields fuel (',' :: ' ' :: cs) = readFields fuel cs := by
  cases fuel with
  | zero => rw [readFields.eq_def, readFields.eq_def]
  | succ fuel =>
    rw [readFields.eq_def, readFields.eq_def (fuel + 1) cs]
    simp only [skipWs_cons_ws ',' _ (by decide), skipWs_cons_ws ' ' cs (by decide)]

theorem delim_comma (cs : Chars) : delim (',' :: cs) := by simp [delim]; decide
theorem delim_rbracket (cs : Chars) : delim (']' :: cs) := by simp [delim]; decide
theorem delim_rbrace (cs : Chars) : delim ('}' :: cs) := by simp [delim]; decide

mutual
theorem readValue_print : ∀ (l : Lit), litOK l = true → ∀ (fuel : Nat) (rest : Chars), need l ≤ fuel → delim rest →
    readValue fuel (printLit l ++ rest) = some (l, rest)
  | .num t, h, fuel, rest, hf, hd => by
    obtain ⟨fuel, rfl⟩ : ∃ k, fuel = k + 1 := ⟨fuel - 1, by simp [need] at hf; omega⟩
    simp only [litOK, Bool.and_eq_true] at h
    obtain ⟨⟨hv, hall⟩, h3⟩ := h
    rcases ht : t.toList with _ | ⟨c, cs⟩
    · simp [ht, numHead] at h3
    · simp only [ht, numHead] at h3 hall hv
      have hg := numStart_good c h3
      have hsk : skipWs (printLit (.num t) ++ rest) = c :: (cs ++ rest) := by
        simp only [printLit, ht, List.cons_append]; exact skipWs_cons_nonws _ _ hg.1
      rw [readValue_unfold fuel _ _ _ hsk]
      simp only [hg.2.2.2.1, hg.2.2.2.2.1, hg.2.2.2.2.2, if_false, h3, if_true]
      have hd' := delim_stops_num hd
      obtain ⟨htw, hdw⟩ := takeWhile_append_delim (p := isNumChar) (c :: cs) rest (List.all_eq_true.mp hall) hd'
      rw [← List.cons_append, htw, hdw]
      simp only [hv, if_true]
      rw [← ht, String.ofList_toList]
  | .str s, h, fuel, rest, hf, hd => by
    obtain ⟨fuel, rfl⟩ : ∃ k, fuel = k + 1 := ⟨fuel - 1, by simp [need] at hf; omega⟩
    have hsk : skipWs (printLit (.str s) ++ rest) = '"' :: (s.toList.flatMap escChar ++ '"' :: rest) := by
      simp only [printLit, quoteChars, List.cons_append, List.append_assoc, List.singleton_append]
      exact skipWs_cons_nonws _ _ (by decide)
    rw [readValue_unfold fuel _ _ _ hsk]
    simp only [show ('"' : Char) ≠ '[' from by decide, show ('"' : Char) ≠ '{' from by decide, if_false, if_true]
    rw [readString_quoted]
    simp [String.ofList_toList]
  | .bool b, h, fuel, rest, hf, hd => by
    obtain ⟨fuel, rfl⟩ : ∃ k, fuel = k + 1 := ⟨fuel - 1, by simp [need] at hf; omega⟩
    have hd' := delim_stops_name hd
    cases b
    · have hsk : skipWs (printLit (.bool false) ++ rest) = 'f' :: (['a', 'l', 's', 'e'] ++ rest) := by
        exact skipWs_cons_nonws _ _ (by decide)
      rw [readValue_unfold fuel _ _ _ hsk]
      obtain ⟨htw, hdw⟩ := takeWhile_append_delim (p := isNameChar) ['f', 'a', 'l', 's', 'e'] rest (by decide) hd'
      simp only [List.cons_append, List.nil_append] at htw hdw
      simp only [List.cons_append, List.nil_append, htw, hdw]
      simp only [show ('f' : Char) ≠ '[' from by decide, show ('f' : Char) ≠ '{' from by decide, show ('f' : Char) ≠ '"' from by decide,
        show (isDigit 'f' || 'f' == '-') = false from by decide, show isNameStart 'f' = true from by decide, if_false, if_true, Bool.false_eq_true]
      simp only [show (['f', 'a', 'l', 's', 'e'] = "true".toList) = False from by decide, show (['f', 'a', 'l', 's', 'e'] = "false".toList) = True from by decide, if_false, if_true]
    · have hsk : skipWs (printLit (.bool true) ++ rest) = 't' :: (['r', 'u', 'e'] ++ rest) := by
        exact skipWs_cons_nonws _ _ (by decide)
      rw [readValue_unfold fuel _ _ _ hsk]
      obtain ⟨htw, hdw⟩ := takeWhile_append_delim (p := isNameChar) ['t', 'r', 'u', 'e'] rest (by decide) hd'
      simp only [List.cons_append, List.nil_append] at htw hdw
      simp only [List.cons_append, List.nil_append, htw, hdw]
      simp only [show ('t' : Char) ≠ '[' from by decide, show ('t' : Char) ≠ '{' from by decide, show ('t' : Char) ≠ '"' from by decide,
        show (isDigit 't' || 't' == '-') = false from by decide, show isNameStart 't' = true from by decide, if_false, if_true, Bool.false_eq_true]
      simp only [show (['t', 'r', 'u', 'e'] = "true".toList) = True from by decide, if_true]
  | .enum n, h, fuel, rest, hf, hd => by
    obtain ⟨fuel, rfl⟩ : ∃ k, fuel = k + 1 := ⟨fuel - 1, by simp [need] at hf; omega⟩
    simp only [litOK, Bool.and_eq_true, bne_iff_ne, ne_eq] at h
    obtain ⟨⟨⟨hv, hnt⟩, hnf⟩, hnn⟩ := h
    obtain ⟨c, cs, heq, hs, hall⟩ := validName_spec hv
    have hg := nameStart_good c hs
    have hd' := delim_stops_name hd
    have hsk : skipWs (printLit (.enum n) ++ rest) = c :: (cs ++ rest) := by
      simp only [printLit, heq, List.cons_append]; exact skipWs_cons_nonws _ _ hg.1
    rw [readValue_unfold fuel _ _ _ hsk]
    obtain ⟨htw, hdw⟩ := takeWhile_append_delim (p := isNameChar) (c :: cs) rest hall hd'
    rw [← List.cons_append, htw, hdw]
    simp only [hg.2.2.2.1, hg.2.2.2.2.1, hg.2.2.2.2.2.1, hg.2.2.2.2.2.2.1, hs, if_false, if_true, Bool.false_eq_true]
    rw [← heq]
    simp only [toList_ne_of_ne hnt, toList_ne_of_ne hnf, toList_ne_of_ne hnn, if_false, String.ofList_toList]
  | .list xs, h, fuel, rest, hf, hd => by
    obtain ⟨fuel, rfl⟩ : ∃ k, fuel = k + 1 := ⟨fuel - 1, by simp [need] at hf; omega⟩
    simp only [litOK] at h
    have hsk : skipWs (printLit (.list xs) ++ rest) = '[' :: (printElems xs ++ ']' :: rest) := by
      simp only [printLit, join_printLits xs h, List.cons_append, List.append_assoc, List.singleton_append]
      exact skipWs_cons_nonws _ _ (by decide)
    rw [readValue_unfold fuel _ _ _ hsk]
    simp only [if_true]
    rw [readList_print xs h fuel rest (by simp [need] at hf; omega)]
    rfl
  | .obj fs, h, fuel, rest, hf, hd => by
    obtain ⟨fuel, rfl⟩ : ∃ k, fuel = k + 1 := ⟨fuel - 1, by simp [need] at hf; omega⟩
    simp only [litOK] at h
    have hsk : skipWs (printLit (.obj fs) ++ rest) = '{' :: (printFieldElems fs ++ '}' :: rest) := by
      simp only [printLit, join_printFields fs h, List.cons_append, List.append_assoc, List.singleton_append]
      exact skipWs_cons_nonws _ _ (by decide)
    rw [readValue_unfold fuel _ _ _ hsk]
    simp only [show ('{' : Char) ≠ '[' from by decide, if_false, if_true]
    rw [readFields_print fs h fuel rest (by simp [need] at hf; omega)]
    rfl
theorem readList_print : ∀ (xs : List Lit), litsOK xs = true → ∀ (fuel : Nat) (rest : Chars), needL xs ≤ fuel →
    readList fuel (printElems xs ++ ']' :: rest) = some (xs, rest)
  | [], _, fuel, rest, hf => by
    obtain ⟨fuel, rfl⟩ : ∃ k, fuel = k + 1 := ⟨fuel - 1, by simp [needL] at hf; omega⟩
    have hsk : skipWs (printElems [] ++ ']' :: rest) = ']' :: rest := skipWs_cons_nonws _ _ (by decide)
    rw [readList_unfold fuel _ _ _ hsk]; simp
  | x :: xs, h, fuel, rest, hf => by
    obtain ⟨fuel, rfl⟩ : ∃ k, fuel = k + 1 := ⟨fuel - 1, by simp [needL] at hf; omega⟩
    simp only [litsOK, Bool.and_eq_true] at h
    simp only [needL] at hf
    obtain ⟨c, cs, heq, hws, hc1, _⟩ := printLit_head x h.1
    cases xs with
    | nil =>
      have hsk : skipWs (printElems [x] ++ ']' :: rest) = c :: (cs ++ ']' :: rest) := by
        simp only [printElems, heq, List.cons_append]; exact skipWs_cons_nonws _ _ hws
      rw [readList_unfold fuel _ _ _ hsk]
      simp only [hc1, if_false]
      have := readValue_print x h.1 fuel (']' :: rest) (by omega) (delim_rbracket rest)
      rw [heq, List.cons_append] at this
      rw [this]
      simp only [Option.bind_some]
      rw [show (']' :: rest) = printElems [] ++ ']' :: rest from rfl, readList_print [] rfl fuel rest (by simp [needL] at hf ⊢; omega)]
      rfl
    | cons y r =>
      have hsk : skipWs (printElems (x :: y :: r) ++ ']' :: rest) = c :: (cs ++ ',' :: ' ' :: (printElems (y :: r) ++ ']' :: rest)) := by
        simp only [printElems, heq, List.cons_append, List.append_assoc]; exact skipWs_cons_nonws _ _ hws
      rw [readList_unfold fuel _ _ _ hsk]
      simp only [hc1, if_false]
      have := readValue_print x h.1 fuel (',' :: ' ' :: (printElems (y :: r) ++ ']' :: rest)) (by omega) (delim_comma _)
      rw [heq, List.cons_append] at this
      rw [this]
      simp only [Option.bind_some]
      rw [readList_skip, readList_print (y :: r) h.2 fuel rest (by omega)]
      rfl
theorem readFields_print : ∀ (fs : List (String × Lit)), fieldsOK fs = true → ∀ (fuel : Nat) (rest : Chars), needF fs ≤ fuel →
    readFields fuel (printFieldElems fs ++ '}' :: rest) = some (fs, rest)
  | [], _, fuel, rest, hf => by
    obtain ⟨fuel, rfl⟩ : ∃ k, fuel = k + 1 := ⟨fuel - 1, by simp [needF] at hf; omega⟩
    exact readFields_close fuel _ rest (skipWs_cons_nonws _ _ (by decide))
  | (k, x) :: fs, h, fuel, rest, hf => by
    obtain ⟨fuel, rfl⟩ : ∃ k, fuel = k + 1 := ⟨fuel - 1, by simp [needF] at hf; omega⟩
    simp only [fieldsOK, Bool.and_eq_true] at h
    simp only [needF] at hf
    obtain ⟨c, cs, heq, hs, hall⟩ := validName_spec h.1.1
    have hg := nameStart_good c hs
    -- the text after the field: either the closing brace or `, ` and the remaining fields
    have key : ∀ (R : Chars), delim R → (readFields fuel R = some (fs, rest)) →
        readFields (fuel + 1) (k.toList ++ ':' :: ' ' :: (printLit x ++ R)) = some ((k, x) :: fs, rest) := by
      intro R hR hRead
      have hsk : skipWs (k.toList ++ ':' :: ' ' :: (printLit x ++ R)) = c :: (cs ++ ':' :: ' ' :: (printLit x ++ R)) := by
        simp only [heq, List.cons_append]; exact skipWs_cons_nonws _ _ hg.1
      have htd := takeWhile_append_delim (p := isNameChar) (c :: cs) (':' :: ' ' :: (printLit x ++ R)) hall (show isNameChar ':' = false by decide)
      have h2 : skipWs ((c :: (cs ++ ':' :: ' ' :: (printLit x ++ R))).dropWhile isNameChar) = ':' :: (' ' :: (printLit x ++ R)) := by
        rw [← List.cons_append, htd.2]; exact skipWs_cons_nonws _ _ (by decide)
      rw [readFields_field fuel _ _ _ _ hsk hs h2, readValue_skip_space,
        readValue_print x h.1.2 fuel R (by omega) hR]
      simp only [Option.bind_some, hRead, Option.map_some]
      rw [← List.cons_append, htd.1, ← heq, String.ofList_toList]
    cases fs with
    | nil =>
      simp only [printFieldElems, List.append_assoc, List.cons_append]
      exact key ('}' :: rest) (delim_rbrace rest) (readFields_print [] rfl fuel rest (by simp [needF] at hf ⊢; omega))
    | cons y r =>
      obtain ⟨k', x'⟩ := y
      simp only [printFieldElems, List.append_assoc, List.cons_append]
      refine key (',' :: ' ' :: (printFieldElems ((k', x') :: r) ++ '}' :: rest)) (delim_comma _) ?_
      rw [readFields_skip]
      exact readFields_print ((k', x') :: r) h.2 fuel rest (by omega)
end

theorem printLit_len_pos (l : Lit) (h : litOK l = true) : 1 ≤ (printLit l).length := by
  obtain ⟨c, cs, heq, _⟩ := printLit_head l h
  simp [heq]

mutual
theorem need_le : ∀ (l : Lit), litOK l = true → need l ≤ (printLit l).length
  | .num t, h => by simpa [need] using printLit_len_pos _ h
  | .str s, h => by simpa [need] using printLit_len_pos _ h
  | .bool b, h => by simpa [need] using printLit_len_pos _ h
  | .enum n, h => by simpa [need] using printLit_len_pos _ h
  | .list xs, h => by
    simp only [litOK] at h
    have := needL_le xs h
    simp only [need, printLit, join_printLits xs h, List.length_cons, List.length_append, List.length_nil]
    omega
  | .obj fs, h => by
    simp only [litOK] at h
    have := needF_le fs h
    simp only [need, printLit, join_printFields fs h, List.length_cons, List.length_append, List.length_nil]
    omega
theorem needL_le : ∀ (xs : List Lit), litsOK xs = true → needL xs ≤ (printElems xs).length + 1
  | [], _ => by simp [needL, printElems]
  | [x], h => by
    simp only [litsOK, Bool.and_eq_true] at h
    have h1 := need_le x h.1
    have h2 := printLit_len_pos x h.1
    simp only [needL, printElems]
    omega
  | x :: y :: r, h => by
    simp only [litsOK, Bool.and_eq_true] at h
    have h1 := need_le x h.1
    have h3 := needL_le (y :: r) (by simp [litsOK, h.2])
    simp only [needL, printElems, List.length_append, List.length_cons] at h3 ⊢
    omega
theorem needF_le : ∀ (fs : List (String × Lit)), fieldsOK fs = true → needF fs ≤ (printFieldElems fs).length + 1
  | [], _ => by simp [needF, printFieldElems]
  | [(k, x)], h => by
    simp only [fieldsOK, Bool.and_eq_true] at h
    have h1 := need_le x h.1.2
    simp only [needF, printFieldElems, List.length_append, List.length_cons]
    omega
  | (k, x) :: y :: r, h => by
    have hyr : fieldsOK (y :: r) = true := by
      obtain ⟨k', x'⟩ := y
      simp only [fieldsOK, Bool.and_eq_true] at h ⊢
      exact h.2
    simp only [fieldsOK, Bool.and_eq_true] at h
    have h1 := need_le x h.1.2
    have h3 := needF_le (y :: r) hyr
    simp only [needF, printFieldElems, List.length_append, List.length_cons] at h3 ⊢
    omega
end

/-- the reader reads back every well-formed literal from its printed text -/
theorem readLit_printLit (l : Lit) (h : litOK l = true) : readLit (printLit l) = some l := by
  unfold readLit
  have := readValue_print l h ((printLit l).length + 1) [] (by have := need_le l h; omega) trivial
  rw [List.append_nil] at this
  rw [this]
  rfl

end GqlModel.Introspection
