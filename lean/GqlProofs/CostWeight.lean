import GqlProofs.CostDepth
import GqlProofs.CostSize
/-! # C19: what ONE collection can put into the field plans — a counting argument

Every selection set is entered at most once per collection (inline fragments syntactically, fragment bodies by the
visited set), and a field node is appended to exactly one group when its set is entered. Hence any additive measure
of the appended field ASTs is bounded by the same measure of the syntax that was entered: the sets handed to the
collection plus every fragment definition once. Two instances: the NUMBER of merged field ASTs (`astCount`) and the
total number of selection sets at or below the merged sub-selections (`fieldsW`). No notion of node identity is
needed. -/
namespace GqlModel.Cost

/-- an additive measure of field plans: appending a field AST with sub-selection `sub` adds `φ sub` -/
structure Meas (c : Ctx) where
  M : List FieldPlan → Nat
  φ : Option SelectionSet → Nat
  add : ∀ (key name : String) (sub : Option SelectionSet) (ch : Chain) (fields : List FieldPlan),
    M (addField c key name (sub.map (·, ch)) fields) = M fields + φ sub

mutual
/-- the measure of the field nodes DIRECTLY in a selection (through inline fragments, not through spreads or fields) -/
def bSel (φ : Option SelectionSet → Nat) : Selection → Nat
  | .field _ _ _ _ sub _ => φ sub
  | .spread _ _ _ => 0
  | .inline _ _ ss _ => bSet φ ss
def bSet (φ : Option SelectionSet → Nat) : SelectionSet → Nat
  | .mk sels _ => bSels φ sels
def bSels (φ : Option SelectionSet → Nat) : List Selection → Nat
  | [] => 0
  | s :: rest => bSel φ s + bSels φ rest
end

variable {c : Ctx}

def pot (m : Meas c) (v : List String) : Nat := potential (fun f => bSet m.φ f.2.2) c.frags v

/-- `b` holds at most `budget` more than `a`, counting what the unvisited fragment definitions could still add -/
def WRel (m : Meas c) (a b : St) (budget : Nat) : Prop :=
  m.M b.fields + pot m b.visited ≤ m.M a.fields + pot m a.visited + budget

def RecW (m : Meas c) (rec : Chain → SelectionSet → St → St) : Prop :=
  ∀ ch body st, WRel m st (rec ch body st) (bSet m.φ body)

mutual
theorem collectSel_weight (m : Meas c) {rec} (hrec : RecW m rec) (ch : Chain) :
    ∀ (sel : Selection) (st : St), WRel m st (collectSel c rec ch sel st) (bSel m.φ sel)
  | .field alias name args dirs sub loc, st => by
    simp only [collectSel, bSel, WRel]
    split
    · omega
    · simp only [m.add]; omega
  | .inline tc dirs ss loc, st => by
    simp only [collectSel, bSel]
    split
    · simp only [WRel]; omega
    · split
      · simp only [WRel]; omega
      · exact collectSet_weight m hrec ch ss st
  | .spread name dirs loc, st => by
    simp only [collectSel, bSel]
    split
    · simp only [WRel]; omega
    · split
      · simp only [WRel]; omega
      · rename_i hv
        split
        · simp only [WRel]; omega
        · rename_i nm cond body hl
          have hnv : name.value ∉ st.visited := by
            intro hm
            exact hv (by simp [hm])
          have hp := potential_visit (fun f => bSet m.φ f.2.2) c.frags st.visited name.value (nm, cond, body) hl hnv
          split
          · simp only [WRel, pot] at *; omega
          · have h := hrec (name.value :: ch) body
              { st with visited := name.value :: st.visited, entered := name.value :: st.entered }
            simp only [WRel, pot] at *
            omega
theorem collectSet_weight (m : Meas c) {rec} (hrec : RecW m rec) (ch : Chain) :
    ∀ (ss : SelectionSet) (st : St), WRel m st (collectSet c rec ch ss st) (bSet m.φ ss)
  | .mk sels loc, st => by
    simp only [collectSet, bSet]
    have := collectSels_weight m hrec ch sels { st with collect := st.collect + 1 }
    simpa [WRel] using this
theorem collectSels_weight (m : Meas c) {rec} (hrec : RecW m rec) (ch : Chain) :
    ∀ (sels : List Selection) (st : St), WRel m st (collectSels c rec ch sels st) (bSels m.φ sels)
  | [], st => by simp [collectSels, bSels, WRel]
  | s :: rest, st => by
    simp only [collectSels, bSels]
    have h1 := collectSel_weight m hrec ch s st
    have h2 := collectSels_weight m hrec ch rest (collectSel c rec ch s st)
    simp only [WRel] at *
    omega
end

theorem collectFuel_weight (m : Meas c) : ∀ n, RecW m (collectFuel c n)
  | 0 => fun ch body st => by simp [collectFuel, WRel]
  | n + 1 => fun ch body st => by
    simp only [collectFuel]
    exact collectSet_weight m (collectFuel_weight m n) ch body st

/-- one `planMergedSelectionsForType`: the measure of the resulting field plans is at most the measure of the merged
sub-selections' direct fields plus that of every fragment definition once -/
theorem planMerged_weight (m : Meas c) : ∀ (subs : List (SelectionSet × Chain)) (st : St),
    WRel m st (planMerged c subs st) ((subs.map (fun s => bSet m.φ s.1)).sum)
  | [], st => by simp [planMerged, WRel]
  | (ss, ch) :: rest, st => by
    simp only [planMerged, List.map_cons, List.sum_cons]
    have h1 := collectFuel_weight m (fuelFor c) ch ss st
    have h2 := planMerged_weight m rest (collectTop c ch ss st)
    simp only [WRel, collectTop] at *
    omega

/-! ## instance 1: the number of merged field ASTs -/

def astCount (fields : List FieldPlan) : Nat := (fields.map (·.nAsts)).sum

theorem astCount_addField (c : Ctx) (key name : String) (sub : Option (SelectionSet × Chain)) :
    ∀ fields : List FieldPlan, astCount (addField c key name sub fields) = astCount fields + 1
  | [] => by simp [addField, astCount]
  | fp :: rest => by
    simp only [addField]
    split
    · simp only [astCount, List.map_cons, List.sum_cons]; omega
    · have := astCount_addField c key name sub rest
      simp only [astCount, List.map_cons, List.sum_cons] at *
      omega

/-- the measure "how many field ASTs were appended" -/
def countMeas (c : Ctx) : Meas c where
  M := astCount
  φ := fun _ => 1
  add := fun key name _ _ fields => astCount_addField c key name _ fields

/-! ## instance 2: selection sets at or below the merged sub-selections -/

def subsW (subs : List (SelectionSet × Chain)) : Nat := (subs.map (fun s => setsSet s.1)).sum
def fieldsW (fields : List FieldPlan) : Nat := (fields.map (fun fp => subsW fp.subs)).sum

def setsOpt' : Option SelectionSet → Nat
  | none => 0
  | some ss => setsSet ss

theorem subsW_append (a b : List (SelectionSet × Chain)) : subsW (a ++ b) = subsW a + subsW b := by
  simp [subsW]

theorem fieldsW_addField (c : Ctx) (key name : String) (sub : Option SelectionSet) (ch : Chain) :
    ∀ fields : List FieldPlan, fieldsW (addField c key name (sub.map (·, ch)) fields) = fieldsW fields + setsOpt' sub
  | [] => by cases sub <;> simp [addField, fieldsW, subsW, setsOpt']
  | fp :: rest => by
    simp only [addField]
    split
    · simp only [fieldsW, List.map_cons, List.sum_cons, subsW_append]
      cases sub <;> simp [subsW, setsOpt'] <;> omega
    · have := fieldsW_addField c key name sub ch rest
      simp only [fieldsW, List.map_cons, List.sum_cons] at *
      omega

def setsMeas (c : Ctx) : Meas c where
  M := fieldsW
  φ := setsOpt'
  add := fun key name sub ch fields => fieldsW_addField c key name sub ch fields

mutual
theorem bSel_sets_le : ∀ s : Selection, bSel setsOpt' s ≤ setsSel s
  | .field _ _ _ _ none _ => by simp [bSel, setsOpt', setsSel]
  | .field _ _ _ _ (some ss) _ => by simp [bSel, setsOpt', setsSel]
  | .spread _ _ _ => by simp [bSel]
  | .inline _ _ ss _ => by
    have := bSet_sets_le ss
    simp only [bSel, setsSel]; omega
theorem bSet_sets_le : ∀ ss : SelectionSet, bSet setsOpt' ss + 1 ≤ setsSet ss
  | .mk sels _ => by
    have := bSels_sets_le sels
    simp only [bSet, setsSet]; omega
theorem bSels_sets_le : ∀ sels : List Selection, bSels setsOpt' sels ≤ setsSels sels
  | [] => by simp [bSels, setsSels]
  | s :: rest => by
    have := bSel_sets_le s
    have := bSels_sets_le rest
    simp only [bSels, setsSels]; omega
end

/-- total of `setsSet body` over the fragment table -/
def fragSetsTbl (frags : List (String × String × SelectionSet)) : Nat := ((frags.map (fun f => setsSet f.2.2))).sum

theorem pot_sets_le (c : Ctx) (v : List String) : pot (setsMeas c) v ≤ fragSetsTbl c.frags := by
  have h1 := potential_le_total (fun f => bSet setsOpt' f.2.2) c.frags v
  have h2 : potential (fun f => bSet setsOpt' f.2.2) c.frags [] ≤ fragSetsTbl c.frags := by
    simp only [fragSetsTbl]
    generalize c.frags = l
    induction l with
    | nil => simp [potential]
    | cons f rest ih =>
      rw [potential_cons_frag]
      have := bSet_sets_le f.2.2
      have h0 : ¬ f.1 ∈ ([] : List String) := by simp
      simp only [if_neg h0, List.map_cons, List.sum_cons]
      omega
  simp only [pot, setsMeas] at *
  omega

theorem bSet_sum_le (subs : List (SelectionSet × Chain)) :
    (subs.map (fun s => bSet setsOpt' s.1)).sum + subs.length ≤ subsW subs := by
  induction subs with
  | nil => simp [subsW]
  | cons s rest ih =>
    have := bSet_sets_le s.1
    simp only [subsW, List.map_cons, List.sum_cons, List.length_cons] at ih ⊢
    omega

theorem fieldsW_nil : fieldsW [] = 0 := rfl

/-- the sub-selections of the field plans one `planMergedSelectionsForType` produces hold at most the selection sets
strictly below the merged ones plus those of every fragment definition once -/
theorem planMerged_fieldsW (c : Ctx) (subs : List (SelectionSet × Chain)) :
    fieldsW (planMerged c subs {}).fields + subs.length ≤ subsW subs + fragSetsTbl c.frags := by
  have h : fieldsW (planMerged c subs {}).fields + pot (setsMeas c) (planMerged c subs {}).visited ≤
      fieldsW [] + pot (setsMeas c) [] + (subs.map (fun s => bSet setsOpt' s.1)).sum :=
    planMerged_weight (setsMeas c) subs {}
  have hp := pot_sets_le c []
  have hb := bSet_sum_le subs
  rw [fieldsW_nil] at h
  omega

/-- the same for the root collection -/
theorem rootPlan_fieldsW (e : Env) (root : String) (ss : SelectionSet) :
    fieldsW (rootPlan e root ss).fields + 1 ≤ setsSet ss + fragSetsTbl e.frags := by
  have h : fieldsW (rootPlan e root ss).fields + pot (setsMeas (e.ctx root)) (rootPlan e root ss).visited ≤
      fieldsW [] + pot (setsMeas (e.ctx root)) [] + bSet setsOpt' ss :=
    collectFuel_weight (setsMeas (e.ctx root)) (fuelFor (e.ctx root)) [] ss {}
  have hp : pot (setsMeas (e.ctx root)) [] ≤ fragSetsTbl e.frags := pot_sets_le (e.ctx root) []
  have hb := bSet_sets_le ss
  rw [fieldsW_nil] at h
  omega

/-- each field node is appended to exactly one group, and every selection set is entered at most once per collection:
the merged field ASTs of all groups together are at most the field nodes directly in the collected sets plus those
directly in every fragment definition -/
theorem planMerged_astCount (c : Ctx) (subs : List (SelectionSet × Chain)) :
    astCount (planMerged c subs {}).fields ≤
      (subs.map (fun s => bSet (fun _ => 1) s.1)).sum + potential (fun f => bSet (fun _ => 1) f.2.2) c.frags [] := by
  have h : astCount (planMerged c subs {}).fields + pot (countMeas c) (planMerged c subs {}).visited ≤
      astCount [] + pot (countMeas c) [] + (subs.map (fun s => bSet (fun _ => 1) s.1)).sum :=
    planMerged_weight (countMeas c) subs {}
  have h0 : astCount [] = 0 := rfl
  have hp : pot (countMeas c) [] = potential (fun f => bSet (fun _ => 1) f.2.2) c.frags [] := rfl
  rw [h0, hp] at h
  omega

/-! ## along an execution: what one lazily planned sub-selection can cost -/

theorem fragsSize_le_fragSetsTbl (frags : List (String × String × SelectionSet)) : fragsSize frags ≤ fragSetsTbl frags := by
  simp only [fragsSize, fragSetsTbl]
  induction frags with
  | nil => simp [potential]
  | cons f rest ih =>
    rw [potential_cons_frag]
    have := inlSet_le f.2.2
    have h0 : ¬ f.1 ∈ ([] : List String) := by simp
    simp only [if_neg h0, List.map_cons, List.sum_cons, fragWeight]
    omega

theorem level_le_subsW (subs : List (SelectionSet × Chain)) :
    (subs.map (fun ss => 1 + inlSet ss.1)).sum ≤ subsW subs := by
  induction subs with
  | nil => simp [subsW]
  | cons s rest ih =>
    have := inlSet_le s.1
    simp only [subsW, List.map_cons, List.sum_cons] at ih ⊢
    omega

theorem subsW_le_fieldsW (fields : List FieldPlan) (fp : FieldPlan) (h : fp ∈ fields) : subsW fp.subs ≤ fieldsW fields := by
  induction fields with
  | nil => cases h
  | cons g rest ih =>
    simp only [fieldsW, List.map_cons, List.sum_cons]
    rcases List.mem_cons.1 h with rfl | h
    · omega
    · have := ih h
      simp only [fieldsW] at this
      omega

mutual
theorem execW_cost (e : Env) (B0 : Nat) : ∀ (w : World) (fields : List FieldPlan) (path : Path) (st : ESt),
    fieldsW fields ≤ B0 + path.length * fragSetsTbl e.frags →
    (∀ en ∈ st.log, en.cost ≤ B0 + en.id.length * fragSetsTbl e.frags) →
    ∀ en ∈ (execW e fields path w st).log, en.cost ≤ B0 + en.id.length * fragSetsTbl e.frags
  | .node cs, fields, path, st => by
    simp only [execW]; exact execCs_cost e B0 cs fields path st
theorem execCs_cost (e : Env) (B0 : Nat) : ∀ (cs : Comps) (fields : List FieldPlan) (path : Path) (st : ESt),
    fieldsW fields ≤ B0 + path.length * fragSetsTbl e.frags →
    (∀ en ∈ st.log, en.cost ≤ B0 + en.id.length * fragSetsTbl e.frags) →
    ∀ en ∈ (execCs e fields path cs st).log, en.cost ≤ B0 + en.id.length * fragSetsTbl e.frags
  | .nil, fields, path, st => by intro _ h; simpa [execCs] using h
  | .cons k rt child rest, fields, path, st => by
    intro hW hst
    simp only [execCs]
    apply execCs_cost e B0 rest fields path _ hW
    split
    · exact hst
    · rename_i fp hfind
      split
      · exact hst
      · split
        · exact hst
        · have hfp : fp ∈ fields := List.mem_of_find?_eq_some hfind
          have h1 := subsW_le_fieldsW fields fp hfp
          have h2 := planMerged_fieldsW (e.ctx rt) fp.subs
          have h3 := planMerged_collect_le (e.ctx rt) fp.subs
          have h4 := level_le_subsW fp.subs
          have h5 := fragsSize_le_fragSetsTbl e.frags
          have hfr : (e.ctx rt).frags = e.frags := rfl
          simp only [levelSize, hfr] at h3
          rw [hfr] at h2
          have hlen : (path ++ [(k, rt)]).length = path.length + 1 := by simp
          have hmul : (path.length + 1) * fragSetsTbl e.frags = path.length * fragSetsTbl e.frags + fragSetsTbl e.frags :=
            Nat.succ_mul _ _
          apply execW_cost e B0 child
          · rw [hlen, hmul]; omega
          · split
            · exact hst
            · intro en hen
              rcases List.mem_cons.1 hen with rfl | hen
              · simp only [hlen, hmul]; omega
              · exact hst en hen
end

theorem fragSetsTbl_le (doc : Document) : fragSetsTbl (fragTable doc) ≤ fragSets doc.defs := by
  unfold fragTable fragSetsTbl
  rw [List.map_reverse, List.sum_reverse]
  generalize doc.defs = defs
  induction defs with
  | nil => simp [fragSets]
  | cons d ds ih =>
    simp only [fragSets, List.map_cons, List.sum_cons] at *
    cases d with
    | fragment n tc dirs ss loc =>
      simp only [List.filterMap_cons, List.map_cons, List.sum_cons]
      omega
    | _ => simpa [List.filterMap_cons] using ih

end GqlModel.Cost
