import GqlModel.VisitorParallel
/-! Lemmas for `parallel_projection` (C14): a traversal nobody cuts short is a fold over the full event
list; a wrapped sub-visitor folded over that list ends where the sub-visitor's own traversal ends. -/
namespace GqlModel.Visitor
variable {σ : Type}

mutual
theorem node_fold (v : Visitor σ) (h : AlwaysCont v) : ∀ (n : Node) (c : Ctx) (st : σ),
    visitNode v n c st = ((n.events c).foldl (applyEv v) st, false)
  | .mk id slots, c, st => by
    have he := h.1 st id c
    rcases hE : v.enter st id c with ⟨st1, a⟩
    rw [hE] at he; simp only at he; subst he
    have hs := slots_fold v h slots id c.path (c.anc ++ [c.parent]) st1
    have hl := h.2 ((Slot.eventsList id c.path (c.anc ++ [c.parent]) slots).foldl (applyEv v) st1) id
      { c with path := c.path.dropLast }
    rcases hL : v.leave ((Slot.eventsList id c.path (c.anc ++ [c.parent]) slots).foldl (applyEv v) st1) id
      { c with path := c.path.dropLast } with ⟨st3, a3⟩
    rw [hL] at hl; simp only at hl; subst hl
    simp [visitNode, hE, hs, hL, Node.events, List.foldl_append, applyEv]
theorem slots_fold (v : Visitor σ) (h : AlwaysCont v) : ∀ (ss : List Slot) (pid : Nat) (path : List Key)
    (anc : List (Option Nat)) (st : σ),
    visitSlots v pid path anc ss st = ((Slot.eventsList pid path anc ss).foldl (applyEv v) st, false)
  | [], pid, path, anc, st => by simp [visitSlots, Slot.eventsList]
  | .absent _ :: rest, pid, path, anc, st => by
    simpa [visitSlots, Slot.eventsList] using slots_fold v h rest pid path anc st
  | .one k n :: rest, pid, path, anc, st => by
    simp [visitSlots, Slot.eventsList, node_fold v h n, slots_fold v h rest, List.foldl_append]
  | .many k n ns :: rest, pid, path, anc, st => by
    simp [visitSlots, Slot.eventsList, elems_fold v h (n :: ns), slots_fold v h rest, List.foldl_append]
theorem elems_fold (v : Visitor σ) (h : AlwaysCont v) : ∀ (ns : List Node) (i : Nat) (path : List Key)
    (anc : List (Option Nat)) (st : σ),
    visitElems v path anc ns i st = ((Node.eventsElems path anc ns i).foldl (applyEv v) st, false)
  | [], i, path, anc, st => by simp [visitElems, Node.eventsElems]
  | n :: ns, i, path, anc, st => by
    simp [visitElems, Node.eventsElems, node_fold v h n, elems_fold v h ns, List.foldl_append]
end

/-! ids occurring in the events of a subtree are ids of that subtree -/
mutual
theorem node_event_ids : ∀ (n : Node) (c : Ctx) (e : Ev), e ∈ n.events c → e.id ∈ n.pre
  | .mk id slots, c, e, he => by
    simp only [Node.events, List.mem_cons] at he
    rcases he with rfl | he
    · simp [Node.pre]
    · rcases List.mem_append.mp he with he | he
      · simp [Node.pre, slots_event_ids slots id c.path (c.anc ++ [c.parent]) e he]
      · simp only [List.mem_singleton] at he
        subst he
        simp [Node.pre]
theorem slots_event_ids : ∀ (ss : List Slot) (pid : Nat) (path : List Key) (anc : List (Option Nat)) (e : Ev),
    e ∈ Slot.eventsList pid path anc ss → e.id ∈ Slot.preList ss
  | [], _, _, _, e, he => by simp [Slot.eventsList] at he
  | .absent _ :: rest, pid, path, anc, e, he => by
    simpa [Slot.preList] using slots_event_ids rest pid path anc e (by simpa [Slot.eventsList] using he)
  | .one k n :: rest, pid, path, anc, e, he => by
    simp only [Slot.eventsList, List.mem_append] at he
    rcases he with he | he
    · simp [Slot.preList, node_event_ids n _ e he]
    · simp [Slot.preList, slots_event_ids rest pid path anc e he]
  | .many k n ns :: rest, pid, path, anc, e, he => by
    simp only [Slot.eventsList, List.mem_append] at he
    rcases he with he | he
    · have := elems_event_ids (n :: ns) 0 _ _ e he
      simp only [Node.preList, List.mem_append] at this
      simp only [Slot.preList, List.mem_append]
      exact Or.inl this
    · simp [Slot.preList, slots_event_ids rest pid path anc e he]
theorem elems_event_ids : ∀ (ns : List Node) (i : Nat) (path : List Key) (anc : List (Option Nat)) (e : Ev),
    e ∈ Node.eventsElems path anc ns i → e.id ∈ Node.preList ns
  | [], _, _, _, e, he => by simp [Node.eventsElems] at he
  | n :: ns, i, path, anc, e, he => by
    simp only [Node.eventsElems, List.mem_append] at he
    rcases he with he | he
    · simp [Node.preList, node_event_ids n _ e he]
    · simp [Node.preList, elems_event_ids ns (i + 1) path anc e he]
end

/-! inert marks -/
theorem fold_broken (v : Visitor σ) (st : σ) (evs : List Ev) :
    evs.foldl (applyEv (wrap v)) (st, .broken) = (st, .broken) := by
  induction evs with
  | nil => rfl
  | cons e evs ih =>
    have : applyEv (wrap v) (st, Mark.broken) e = (st, .broken) := by
      cases hp : e.phase <;> simp [applyEv, hp, wrap, subEnter, subLeave]
    simp [List.foldl_cons, this, ih]

theorem fold_skipping (v : Visitor σ) (st : σ) (j : Nat) (evs : List Ev) (h : ∀ e ∈ evs, e.id ≠ j) :
    evs.foldl (applyEv (wrap v)) (st, .skippingAt j) = (st, .skippingAt j) := by
  induction evs with
  | nil => rfl
  | cons e evs ih =>
    have hne : e.id ≠ j := h e (by simp)
    have : applyEv (wrap v) (st, Mark.skippingAt j) e = (st, .skippingAt j) := by
      cases hp : e.phase
      · simp [applyEv, hp, wrap, subEnter]
      · simp [applyEv, hp, wrap, subLeave, Ne.symm hne]
    rw [List.foldl_cons, this]
    exact ih (fun e he => h e (by simp [he]))

def markOf (b : Bool) : Mark := if b then .broken else .active

mutual
theorem wrap_node (v : Visitor σ) : ∀ (n : Node) (c : Ctx) (st : σ), n.pre.Nodup →
    (n.events c).foldl (applyEv (wrap v)) (st, .active) =
      ((visitNode v n c st).1, markOf (visitNode v n c st).2)
  | .mk id slots, c, st, hnd => by
    simp only [Node.pre, List.nodup_cons] at hnd
    obtain ⟨hid, hnd'⟩ := hnd
    simp only [Node.events, List.foldl_cons, List.foldl_append, List.foldl_nil]
    rcases hE : v.enter st id c with ⟨st1, a⟩
    have h0 : applyEv (wrap v) (st, Mark.active) ⟨.enter, id, c⟩ =
        (st1, match a with | .skip => Mark.skippingAt id | .brk => .broken | .cont => .active) := by
      cases a <;> simp [applyEv, wrap, subEnter, hE]
    rw [h0]
    cases a with
    | skip =>
      have hne : ∀ e ∈ Slot.eventsList id c.path (c.anc ++ [c.parent]) slots, e.id ≠ id := by
        intro e he heq
        exact hid (heq ▸ slots_event_ids slots id _ _ e he)
      simp only
      rw [fold_skipping v st1 id _ hne]
      simp [applyEv, wrap, subLeave, visitNode, hE, markOf]
    | brk =>
      simp only
      rw [fold_broken]
      simp [applyEv, wrap, subLeave, visitNode, hE, markOf]
    | cont =>
      simp only
      rw [wrap_slots v slots id c.path (c.anc ++ [c.parent]) st1 hnd']
      rcases hV : visitSlots v id c.path (c.anc ++ [c.parent]) slots st1 with ⟨st2, b⟩
      cases b with
      | true => simp [applyEv, wrap, subLeave, visitNode, hE, hV, markOf]
      | false =>
        rcases hL : v.leave st2 id { c with path := c.path.dropLast } with ⟨st3, a3⟩
        cases a3 <;> simp [applyEv, wrap, subLeave, visitNode, hE, hV, hL, markOf]
theorem wrap_slots (v : Visitor σ) : ∀ (ss : List Slot) (pid : Nat) (path : List Key) (anc : List (Option Nat))
    (st : σ), (Slot.preList ss).Nodup →
    (Slot.eventsList pid path anc ss).foldl (applyEv (wrap v)) (st, .active) =
      ((visitSlots v pid path anc ss st).1, markOf (visitSlots v pid path anc ss st).2)
  | [], _, _, _, st, _ => by simp [Slot.eventsList, visitSlots, markOf]
  | .absent _ :: rest, pid, path, anc, st, hnd => by
    simpa [Slot.eventsList, visitSlots] using wrap_slots v rest pid path anc st (by simpa [Slot.preList] using hnd)
  | .one k n :: rest, pid, path, anc, st, hnd => by
    simp only [Slot.preList] at hnd
    have hnd := List.nodup_append.mp hnd
    simp only [Slot.eventsList, List.foldl_append]
    rcases hV : visitNode v n ⟨some (.name k), some pid, path ++ [.name k], anc⟩ st with ⟨st1, b⟩
    rw [wrap_node v n _ st hnd.1, hV]
    cases b with
    | true => simp [markOf, fold_broken, visitSlots, hV]
    | false =>
      simp only [markOf, Bool.false_eq_true, if_false]
      rw [wrap_slots v rest pid path anc st1 hnd.2.1]
      simp [visitSlots, hV, markOf]
  | .many k n ns :: rest, pid, path, anc, st, hnd => by
    simp only [Slot.preList] at hnd
    have hnd := List.nodup_append.mp hnd
    simp only [Slot.eventsList, List.foldl_append]
    have hnd1 : (Node.preList (n :: ns)).Nodup := by simpa [Node.preList] using hnd.1
    rcases hV : visitElems v (path ++ [.name k]) (anc ++ [some pid]) (n :: ns) 0 st with ⟨st1, b⟩
    rw [wrap_elems v (n :: ns) 0 _ _ st hnd1, hV]
    cases b with
    | true => simp [markOf, fold_broken, visitSlots, hV]
    | false =>
      simp only [markOf, Bool.false_eq_true, if_false]
      rw [wrap_slots v rest pid path anc st1 hnd.2.1]
      simp [visitSlots, hV, markOf]
theorem wrap_elems (v : Visitor σ) : ∀ (ns : List Node) (i : Nat) (path : List Key) (anc : List (Option Nat))
    (st : σ), (Node.preList ns).Nodup →
    (Node.eventsElems path anc ns i).foldl (applyEv (wrap v)) (st, .active) =
      ((visitElems v path anc ns i st).1, markOf (visitElems v path anc ns i st).2)
  | [], _, _, _, st, _ => by simp [Node.eventsElems, visitElems, markOf]
  | n :: ns, i, path, anc, st, hnd => by
    simp only [Node.preList] at hnd
    have hnd := List.nodup_append.mp hnd
    simp only [Node.eventsElems, List.foldl_append]
    rcases hV : visitNode v n ⟨some (.idx i), none, path ++ [.idx i], anc⟩ st with ⟨st1, b⟩
    rw [wrap_node v n _ st hnd.1, hV]
    cases b with
    | true => simp [markOf, fold_broken, visitElems, hV]
    | false =>
      simp only [markOf, Bool.false_eq_true, if_false]
      rw [wrap_elems v ns (i + 1) path anc st1 hnd.2.1]
      simp [visitElems, hV, markOf]
end

theorem parallel_alwaysCont (vs : List (Visitor σ)) : AlwaysCont (parallel vs) :=
  ⟨fun _ _ _ => rfl, fun _ _ _ => rfl⟩

theorem applyEv_parallel (vs : List (Visitor σ)) (ss : List (σ × Mark)) (e : Ev) :
    applyEv (parallel vs) ss e = List.zipWith (fun v s => applyEv (wrap v) s e) vs ss := by
  cases hp : e.phase <;> simp [applyEv, hp, parallel, wrap]

/-- folding the parallel visitor = folding every wrapped sub-visitor separately -/
theorem parallel_fold (vs : List (Visitor σ)) (evs : List Ev) : ∀ (ss : List (σ × Mark)), ss.length = vs.length →
    evs.foldl (applyEv (parallel vs)) ss = List.zipWith (fun v s => evs.foldl (applyEv (wrap v)) s) vs ss := by
  induction evs with
  | nil =>
    intro ss hl
    induction vs generalizing ss with
    | nil => cases ss <;> simp_all
    | cons v vs ih => cases ss with
      | nil => simp at hl
      | cons s ss => simpa using ih ss (by simpa using hl)
  | cons e evs ih =>
    intro ss hl
    rw [List.foldl_cons, applyEv_parallel, ih _ (by simp [hl])]
    clear ih
    induction vs generalizing ss with
    | nil => simp
    | cons v vs ihv => cases ss with
      | nil => simp
      | cons s ss => simp [ihv ss (by simpa using hl)]

end GqlModel.Visitor
