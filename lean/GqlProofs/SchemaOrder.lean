import GqlProofs.SchemaTotal
import GqlProofs.SchemaAppend
/-! C11, part 5: acceptance does not depend on the order in which types reach the schema. Inside a *safe universe* —
a set of type objects whose constructors succeeded, with pairwise distinct names, closed under the reference graph
without parked errors, and passing the interface assertions — every reduction succeeds and stays inside the universe.
The type map of any successful construction is such a universe. -/
set_option linter.unusedSectionVars false
set_option linter.unusedVariables false
namespace GqlModel.SchemaBuild

variable {cfg : Config}

/-- `a ⊆ b` on type maps -/
def Sub (a b : TM) : Prop := ∀ e ∈ a, e ∈ b

structure Safe (U : TM) : Prop where
  inv : Inv cfg U
  closed : ∀ i ∈ U, ClosedE cfg U i

theorem runSteps_complete {U : TM} (fuel : Nat) (rec : TM → TRef → Except Err TM)
    (hok : ∀ tm t tm', rec tm t = .ok tm' → Inv cfg tm → Spec cfg tm t tm')
    (hrec : ∀ tm t, free cfg tm < fuel → Inv cfg tm → Sub tm U → Visited cfg U t → ∃ tm', rec tm t = .ok tm' ∧ Sub tm' U) :
    ∀ (steps : List Step) (tm : TM), (∀ s ∈ steps, ∃ t, s = .visit t ∧ Visited cfg U t) → free cfg tm < fuel →
      Inv cfg tm → Sub tm U → ∃ tm', runSteps rec tm steps = .ok tm' ∧ Sub tm' U := by
  intro steps
  induction steps with
  | nil => intro tm _ _ _ hsub; exact ⟨tm, rfl, hsub⟩
  | cons s rest ih =>
    intro tm hs hf hinv hsub
    obtain ⟨t, rfl, hv⟩ := hs s (List.mem_cons_self ..)
    obtain ⟨tm1, h1, hsub1⟩ := hrec tm t hf hinv hsub hv
    have sp := hok tm t tm1 h1 hinv
    obtain ⟨l, hl⟩ := sp.ext
    have hfm : free cfg tm1 ≤ free cfg tm := free_mono cfg (by intro x hx; rw [hl]; exact List.mem_append_left _ hx)
    obtain ⟨tm', h2, hsub2⟩ := ih tm1 (fun s' hs' => hs s' (List.mem_cons_of_mem _ hs')) (by omega) sp.inv hsub1
    exact ⟨tm', by simp only [runSteps, h1, h2], hsub2⟩

theorem reduce_complete {U : TM} (hU : Safe (cfg := cfg) U) : ∀ (fuel : Nat) (tm : TM) (t : TRef), free cfg tm < fuel →
    Inv cfg tm → Sub tm U → Visited cfg U t → ∃ tm', reduce cfg fuel tm t = .ok tm' ∧ Sub tm' U := by
  intro fuel
  induction fuel with
  | zero => intro tm t hf; omega
  | succ fuel ih =>
    intro tm t hf hinv hsub hv
    simp only [reduce]
    rcases hv with hnil | ⟨i, hs, hn, hiU⟩
    · rw [hnil]; exact ⟨tm, rfl, hsub⟩
    · rw [hs]
      have hce : ctorErr cfg i = none := hU.inv.1 i hiU
      have hnb : (nameOf cfg i == "") = false := by simpa using hn
      simp only [hce, hnb, Bool.false_eq_true, if_false]
      cases hl : TM.lookup cfg tm (nameOf cfg i) with
      | some x =>
        obtain ⟨hxm, hxn⟩ := lookup_some cfg hl
        have : x = i := inv_name_inj cfg hU.inv (hsub x hxm) hiU hxn
        subst this
        simp only [beq_self_eq_true, if_true]
        exact ⟨tm, rfl, hsub⟩
      | none =>
        simp only
        have hfresh := lookup_none cfg hl
        have hni : i ∉ tm := fun hm => hfresh i hm rfl
        have hinv1 : Inv cfg (tm ++ [i]) := inv_append_one cfg hinv hce hfresh
        have hf1 : free cfg (tm ++ [i]) < fuel := by
          have := free_lt cfg (nameOf_lt cfg hn) hni
          omega
        have hsub1 : Sub (tm ++ [i]) U := by
          intro e he
          rw [List.mem_append] at he
          rcases he with he | he
          · exact hsub e he
          · rw [List.mem_singleton.mp he]; exact hiU
        exact runSteps_complete fuel (reduce cfg fuel) (reduce_spec cfg fuel) ih (stepsOf cfg i) (tm ++ [i])
          (hU.closed i hiU) hf1 hinv1 hsub1

/-- a root of `initialTypes` / an argument of `AppendType` that a successful run has dealt with -/
def RootOk (U : TM) (t : TRef) : Prop := t = .nil ∨ (topErr cfg t = none ∧ Visited cfg U t)

theorem reduceRoots_complete {U : TM} (hU : Safe (cfg := cfg) U) : ∀ (roots : List TRef) (tm : TM),
    (∀ t ∈ roots, RootOk (cfg := cfg) U t) → Inv cfg tm → (∀ i ∈ tm, ClosedE cfg tm i) → Sub tm U →
    ∃ tm', reduceRoots cfg tm roots = .ok tm' ∧ Sub tm' U := by
  intro roots
  induction roots with
  | nil => intro tm _ _ _ hsub; exact ⟨tm, rfl, hsub⟩
  | cons t rest ih =>
    intro tm hr hinv hcl hsub
    have hrest : ∀ t ∈ rest, RootOk (cfg := cfg) U t := fun t' ht' => hr t' (List.mem_cons_of_mem _ ht')
    simp only [reduceRoots]
    rcases hr t (List.mem_cons_self ..) with hnil | ⟨hte, hv⟩
    · subst hnil
      simp only [beq_self_eq_true, if_true]
      exact ih tm hrest hinv hcl hsub
    · by_cases hnil : t = .nil
      · subst hnil
        simp only [beq_self_eq_true, if_true]
        exact ih tm hrest hinv hcl hsub
      · have : (t == TRef.nil) = false := by simpa using hnil
        simp only [this, Bool.false_eq_true, if_false, hte]
        obtain ⟨tm1, h1, hsub1⟩ := reduce_complete hU (cfg.size + 1) tm t (by have := free_le cfg tm; omega) hinv hsub hv
        have sp := reduce_spec cfg _ tm t tm1 h1 hinv
        obtain ⟨l, hl⟩ := sp.ext
        have sub0 : ∀ e ∈ tm, e ∈ tm1 := by intro e he; rw [hl]; exact List.mem_append_left _ he
        have hcl1 : ∀ i ∈ tm1, ClosedE cfg tm1 i := by
          intro i hi
          by_cases him : i ∈ tm
          · exact (hcl i him).mono cfg sub0
          · exact sp.closed i hi him
        simp only [h1]
        exact ih tm1 hrest sp.inv hcl1 hsub1

/-! the interface assertions inside a universe that passes them -/

theorem closed_typeRef_resolved {tm : TM} {i : Nat} (hc : ClosedE cfg tm i) {t : TRef}
    (ht : t ∈ BuiltSchema.typeRefs (builtType cfg i)) : Resolved cfg tm t := by
  have hv := typeRefs_visited cfg hc.noFail t ht
  obtain ⟨t', ht', hvis⟩ := hc _ hv
  cases ht'
  rcases hvis with h | h
  · obtain ⟨j, hj⟩ := typeRefs_named cfg t ht
    rw [hj] at h; cases h
  · exact h

theorem scan_sub {tm U : TM} (hU : Inv cfg U) (hsub : Sub tm U) {a o : Nat} (ho : o ∈ tm) :
    isPossibleScan cfg tm a o = isPossibleScan cfg U a o := by
  unfold isPossibleScan possibleTypesOf
  cases hka : kindOf cfg a with
  | interface =>
    simp only
    rw [Bool.eq_iff_iff]
    simp only [List.any_eq_true, beq_iff_eq]
    constructor
    · rintro ⟨p, hp, hn⟩
      refine ⟨p, ?_, hn⟩
      rw [mem_implsOf] at hp ⊢
      exact ⟨⟨hsub p hp.1.1, hp.1.2⟩, hp.2⟩
    · rintro ⟨p, hp, hn⟩
      rw [mem_implsOf] at hp
      have : p = o := inv_name_inj cfg hU hp.1.1 (hsub o ho) hn
      subst this
      exact ⟨p, (mem_implsOf (cfg := cfg)).mpr ⟨⟨ho, hp.1.2⟩, hp.2⟩, rfl⟩
  | union => rfl
  | scalar => rfl
  | object => rfl
  | enum => rfl
  | inputObject => rfl
  | list => rfl
  | nonNull => rfl

theorem assertAll_sub {tm U : TM} (hU : Inv cfg U) (hsub : Sub tm U) (hcl : ∀ i ∈ tm, ClosedE cfg tm i)
    (h : assertAll cfg U = none) : assertAll cfg tm = none := by
  unfold assertAll at h ⊢
  rw [List.findSome?_eq_none_iff] at h ⊢
  intro o ho
  obtain ⟨hom, hko⟩ := (mem_objects (cfg := cfg)).mp ho
  have h1 := h o ((mem_objects (cfg := cfg)).mpr ⟨hsub o hom, hko⟩)
  rw [List.findSome?_eq_none_iff] at h1 ⊢
  intro i hi
  have h2 := h1 i hi
  rw [← h2]
  unfold conformsTo
  apply findSome?_congr
  intro f hf
  unfold fieldConforms
  cases hfind : (builtType cfg o).fields.find? (fun g => g.name == f.name) with
  | none => rfl
  | some ofield =>
    have hofm : ofield ∈ (builtType cfg o).fields := List.mem_of_find?_eq_some hfind
    have hsubt : isSubType (kindOf cfg) (isPossibleScan cfg tm) ofield.type f.type =
        isSubType (kindOf cfg) (isPossibleScan cfg U) ofield.type f.type := by
      apply isSubType_congr
      intro a x hx ha _ _
      obtain ⟨x', hx', _, hxm⟩ := closed_typeRef_resolved (hcl o hom) (field_type_mem_typeRefs hofm)
      rw [hx] at hx'; cases hx'
      exact scan_sub hU hsub hxm
    simp only [hsubt]

/-! NewSchema / AppendType inside a safe universe -/

/-- the checks of `NewSchema` that precede the type map do not depend on `Types` -/
def Pre (cfg : Config) : Prop :=
  ∃ q, cfg.query = some q ∧ ctorErr cfg q = none ∧ cfg.mutation.bind (ctorErr cfg) = none ∧
    cfg.directives.findSome? (dirErr cfg) = none

theorem newSchemaTM_pre {more : List TRef} {tm : TM} (h : newSchemaTM cfg more = .ok tm) : Pre cfg := by
  unfold newSchemaTM at h
  cases hq : cfg.query with
  | none => simp [hq] at h
  | some q =>
    simp only [hq] at h
    cases h1 : ctorErr cfg q with
    | some e => simp [h1] at h
    | none =>
      simp only [h1] at h
      cases h2 : cfg.mutation.bind (ctorErr cfg) with
      | some e => simp [h2] at h
      | none =>
        simp only [h2] at h
        cases h3 : cfg.directives.findSome? (dirErr cfg) with
        | some e => simp [h3] at h
        | none => exact ⟨q, hq, h1, h2, h3⟩

theorem newSchemaTM_of_pre (hp : Pre cfg) (more : List TRef) :
    newSchemaTM cfg more = reduceRoots cfg [] (rootRefs cfg more) := by
  obtain ⟨q, hq, h1, h2, h3⟩ := hp
  unfold newSchemaTM
  simp only [hq, h1, h2, h3]

theorem newSchema_in_safe {U : TM} (hU : Safe (cfg := cfg) U) (hass : assertAll cfg U = none) (hp : Pre cfg)
    (more : List TRef) (hroots : ∀ t ∈ rootRefs cfg more, RootOk (cfg := cfg) U t) :
    ∃ s, newSchema cfg more = .ok s ∧ Sub s.tm U := by
  obtain ⟨tm, htm, hsub⟩ := reduceRoots_complete hU (rootRefs cfg more) [] hroots
    ⟨fun i hi => (by cases hi), List.Pairwise.nil⟩ (fun i hi => (by cases hi)) (fun e he => (by cases he))
  have htm' : newSchemaTM cfg more = .ok tm := by rw [newSchemaTM_of_pre hp]; exact htm
  have sp := (newSchemaTM_roots htm').1
  refine ⟨⟨tm⟩, ?_, hsub⟩
  unfold newSchema finishTM
  simp only [htm', assertAll_sub hU.inv hsub sp.closed hass]

theorem appendAll_in_safe {U : TM} (hU : Safe (cfg := cfg) U) (hass : assertAll cfg U = none) :
    ∀ (ys : List TRef) (s : St), Good cfg s.tm → Sub s.tm U → (∀ y ∈ ys, RootOk (cfg := cfg) U y.build) →
      ∃ s', appendAll cfg s ys = .ok s' ∧ Sub s'.tm U := by
  intro ys
  induction ys with
  | nil => intro s _ hsub _; exact ⟨s, rfl, hsub⟩
  | cons y rest ih =>
    intro s g hsub hr
    have hrest : ∀ y ∈ rest, RootOk (cfg := cfg) U y.build := fun y' hy' => hr y' (List.mem_cons_of_mem _ hy')
    have step : ∃ s1, appendType cfg s y = .ok s1 ∧ Sub s1.tm U := by
      unfold appendType appendTM
      simp only
      rcases hr y (List.mem_cons_self ..) with hnil | ⟨hte, hv⟩
      · simp only [hnil, beq_self_eq_true, if_true]
        exact ⟨s, rfl, hsub⟩
      · by_cases hnil : y.build = .nil
        · simp only [hnil, beq_self_eq_true, if_true]
          exact ⟨s, rfl, hsub⟩
        · have : (y.build == TRef.nil) = false := by simpa using hnil
          simp only [this, Bool.false_eq_true, if_false, hte]
          obtain ⟨tm1, h1, hsub1⟩ := reduce_complete hU (cfg.size + 1) s.tm y.build
            (by have := free_le cfg s.tm; omega) g.inv hsub hv
          have sp := reduce_spec cfg _ s.tm _ tm1 h1 g.inv
          obtain ⟨l, hl⟩ := sp.ext
          have sub0 : ∀ e ∈ s.tm, e ∈ tm1 := by intro e he; rw [hl]; exact List.mem_append_left _ he
          have hcl1 : ∀ i ∈ tm1, ClosedE cfg tm1 i := by
            intro i hi
            by_cases him : i ∈ s.tm
            · exact (g.closed i him).mono cfg sub0
            · exact sp.closed i hi him
          simp only [h1, finishTM, assertAll_sub hU.inv hsub1 hcl1 hass]
          exact ⟨⟨tm1⟩, rfl, hsub1⟩
    obtain ⟨s1, h1, hsub1⟩ := step
    obtain ⟨s', h2, hsub2⟩ := ih s1 (appendType_good g h1) hsub1 hrest
    exact ⟨s', by simp only [appendAll, h1, h2], hsub2⟩

theorem Good.safe {tm : TM} (g : Good cfg tm) : Safe (cfg := cfg) tm := ⟨g.inv, g.closed⟩

theorem newSchema_rootsSpec {more : List TRef} {s : St} (h : newSchema cfg more = .ok s) :
    RootsSpec (cfg := cfg) [] (rootRefs cfg more) s.tm ∧ Pre cfg := by
  unfold newSchema at h
  cases htm : newSchemaTM cfg more with
  | error e => simp [htm] at h
  | ok tm =>
    simp only [htm, finishTM] at h
    cases ha : assertAll cfg tm with
    | some e => simp [ha] at h
    | none =>
      simp only [ha, Except.ok.injEq] at h; subst h
      exact ⟨(newSchemaTM_roots htm).1, newSchemaTM_pre htm⟩

/-- supplying the types up front succeeds iff building without them and appending them in any order succeeds -/
theorem append_ok_iff {xs ys : List TRef} (hperm : ∀ x, x ∈ ys ↔ x ∈ xs) :
    (∃ s1, newSchema cfg xs = .ok s1) ↔ (∃ s0 s2, newSchema cfg [] = .ok s0 ∧ appendAll cfg s0 ys = .ok s2) := by
  constructor
  · rintro ⟨s1, h1⟩
    have g1 := newSchema_good h1
    obtain ⟨r1, hpre⟩ := newSchema_rootsSpec h1
    have rootOk : ∀ t ∈ rootRefs cfg xs, RootOk (cfg := cfg) s1.tm t := by
      intro t ht
      rcases r1.topOk t ht with h | h
      · exact Or.inl h
      · exact Or.inr ⟨h, r1.visited t ht⟩
    obtain ⟨s0, h0, hsub0⟩ := newSchema_in_safe g1.safe g1.asserted hpre []
      (fun t ht => rootOk t ((mem_rootRefs_more (cfg := cfg)).mpr (Or.inl ht)))
    obtain ⟨s2, h2, _⟩ := appendAll_in_safe g1.safe g1.asserted ys s0 (newSchema_good h0) hsub0
      (fun y hy => rootOk _ ((mem_rootRefs_more (cfg := cfg)).mpr (Or.inr ⟨y, (hperm y).mp hy, rfl⟩)))
    exact ⟨s0, s2, h0, h2⟩
  · rintro ⟨s0, s2, h0, h2⟩
    have g0 := newSchema_good h0
    have g2 := appendAll_good ys s0 s2 g0 h2
    have sp2 := appendAll_spec ys s0 s2 g0 h2
    obtain ⟨r0, hpre⟩ := newSchema_rootsSpec h0
    have rootOk : ∀ t ∈ rootRefs cfg xs, RootOk (cfg := cfg) s2.tm t := by
      intro t ht
      rcases (mem_rootRefs_more (cfg := cfg)).mp ht with h | ⟨x, hx, rfl⟩
      · rcases r0.topOk t h with hn | hn
        · exact Or.inl hn
        · exact Or.inr ⟨hn, (r0.visited t h).mono cfg sp2.sub⟩
      · have hy := (hperm x).mpr hx
        rcases sp2.topOk x hy with hn | hn
        · exact Or.inl hn
        · exact Or.inr ⟨hn, sp2.visited x hy⟩
    obtain ⟨s1, h1, _⟩ := newSchema_in_safe g2.safe g2.asserted hpre xs rootOk
    exact ⟨s1, h1⟩

end GqlModel.SchemaBuild
