import GqlProofs.PlanFx5
/-! # Forcing, the dethunk site loop, the depth-first and the breadth-first pass: effect accounting -/
namespace GqlModel.Plan
open GqlModel.Exec GqlModel.Coerce

section acct
variable {c : Ctx} {pv : Option Vars} {rank : String → Nat} {F : Nat}

local notation "alt0" => recompute c.schema c.frags pv

theorem kf_nil_of_app {d st : St} (h : (St.app d st).kfThunk = st.kfThunk) : d.kfThunk = [] := by
  simp only [St.app] at h
  have := congrArg List.length h
  simp only [List.length_append] at this
  exact List.eq_nil_of_length_eq_zero (by omega)

/-- ONE call of a closure works off the effects the algorithm records for that deferred value -/
theorem force_acct (hac : Acyclic c.frags rank) (hfr : FragsOK c pv) (cl : Closure) (j : JVal)
    (hwit : Wit c pv rank F cl j) (mst : MSt) :
    PendOut (pend c F) (wFx c F cl) mst (force c alt0 F cl mst) := by
  have hsv := force_sv hac hfr cl j hwit mst
  obtain ⟨hn, hr⟩ := hwit
  unfold force at hsv ⊢
  cases hcr : cl.r with
  | none =>
    rw [hcr] at hr
    simp only at hr
    obtain ⟨hnn, rfl⟩ := hr
    simp only [hnn, Bool.false_eq_true, if_false]
    refine ⟨⟨[(cl.path, true)], []⟩, Fx.nil, mExt_addErr mst cl.path true, ?_⟩
    simp only [wFx, hcr, pend]
    simpa using Fx.Perm.refl _
  | some r =>
    cases r with
    | err =>
      rw [hcr] at hr
      simp only at hr
      obtain ⟨hnn, rfl⟩ := hr
      simp only [hnn, Bool.false_eq_true, if_false]
      refine ⟨(Fx.mk [(cl.path, true)] []).app Fx.nil, Fx.nil,
        (mExt_force mst cl.path).trans (mExt_addErr _ cl.path true), ?_⟩
      simp only [wFx, hcr, pend]
      simpa using Fx.Perm.refl _
    | ok v =>
      rw [hcr] at hr hsv
      simp only at hr hsv ⊢
      obtain ⟨st, rS, stS, hS, hkf, hres⟩ := hr
      have hne : rS ≠ .fuelOut := by
        rcases hres with h | h
        · rw [h]; simp
        · rw [h.1]; simp
      obtain ⟨d, hd, hst⟩ := complete_from_empty c F hS
      have hkd : d.kfThunk = [] := kf_nil_of_app (by rw [← hst]; exact hkf)
      have hfx := (fxP (F := F) hac hfr F (Nat.le_refl _)).complete true cl.t cl.rt cl.fid cl.fp cl.path v St.empty
        (mst.logEv (.force cl.path)) rS d hn hd hne hkd
      have hw : wFx c F cl = fxS d := by
        simp only [wFx, hcr, wRun]
        rw [hd]
      rw [hw]
      generalize mComplete c alt0 F true cl.t cl.rt cl.fid cl.fp cl.path v (mst.logEv (.force cl.path)) = z at hfx hsv ⊢
      obtain ⟨rM, mst1⟩ := z
      obtain ⟨dS, dM, e, mm, ⟨D, hp⟩, _⟩ := hfx
      rw [St.app_empty] at e
      subst e
      simp only [Fx.app_nil] at hp
      cases rM with
      | ok x =>
        simp only [resPend_ok] at hp
        exact ⟨dM.app Fx.nil, D, (mExt_force mst cl.path).trans mm, by simpa using hp⟩
      | fail =>
        simp only [resPend_fail] at hp
        by_cases hnn : cl.t.isNonNull = true
        · simp only [hnn, if_true] at hsv
          exact absurd hsv id
        · simp only [hnn, Bool.false_eq_true, if_false]
          refine ⟨dM.app Fx.nil, D, (mExt_force mst cl.path).trans mm, ?_⟩
          simpa [pend] using hp
      | fuelOut => trivial

/-- a forcing function that works off what is pending in a closure -/
def FrcA (c : Ctx) (pv : Option Vars) (rank : String → Nat) (F : Nat) (frc : Closure → MSt → Res PVal × MSt) : Prop :=
  ∀ cl j mst, Wit c pv rank F cl j → PendOut (pend c F) (wFx c F cl) mst (frc cl mst)

/-- the loop at a dethunk site -/
theorem forceLoop_acct {frc : Closure → MSt → Res PVal × MSt} (hs : FrcSV c pv rank F frc) (ha : FrcA c pv rank F frc)
    (j : JVal) : ∀ (n : Nat) (v : PVal) (mst : MSt), SV c pv rank F v j →
    PendOut (pend c F) (pend c F v) mst (forceLoop frc n v mst)
  | 0, v, mst, _ => by simp only [forceLoop]; trivial
  | n + 1, .leaf _, mst, _ => by simp only [forceLoop]; exact pendOut_ret _ _ _
  | n + 1, .list _, mst, _ => by simp only [forceLoop]; exact pendOut_ret _ _ _
  | n + 1, .obj _, mst, _ => by simp only [forceLoop]; exact pendOut_ret _ _ _
  | n + 1, .deferred cl, mst, h => by
    simp only [forceLoop]
    cases h with
    | deferred hwit =>
      have h1 := ha cl j mst hwit
      have h2 := hs cl j mst hwit
      generalize frc cl mst = z at h1 h2 ⊢
      obtain ⟨r1, mst1⟩ := z
      cases r1 with
      | ok x =>
        obtain ⟨d1, D1, m1, p1⟩ := h1
        simp only [pend]
        exact pendOut_seq m1 p1 (forceLoop_acct hs ha j n x mst1 h2)
      | fail => exact h1
      | fuelOut => trivial

theorem frcA_forceAll (hac : Acyclic c.frags rank) (hfr : FragsOK c pv) : FrcA c pv rank F (forceAll c alt0 F) := by
  intro cl j mst hwit
  have := forceLoop_acct (c := c) (pv := pv) (rank := rank) (F := F)
    (fun cl j mst hw => force_sv hac hfr cl j hw mst) (fun cl j mst hw => force_acct hac hfr cl j hw mst) j (F + 2) (.deferred cl) mst
    (.deferred hwit)
  simpa [pend, forceAll] using this

variable {frc : Closure → MSt → Res PVal × MSt}

/-- the three depth-first functions: effect accounting -/
structure DfsA (c : Ctx) (pv : Option Vars) (rank : String → Nat) (F : Nat) (frc : Closure → MSt → Res PVal × MSt)
    (n : Nat) : Prop where
  val : ∀ v j mst, SV c pv rank F v j → PendOut (pend c F) (pend c F v) mst (dfsVal frc n v mst)
  fields : ∀ ks fs gs mst, SVf c pv rank F fs gs → PendOut (pendF c F) (pendF c F fs) mst (dfsFields frc n ks fs mst)
  items : ∀ xs js acc accj mst, SVl c pv rank F xs js → SVl c pv rank F acc accj →
    PendOut (pendL c F) ((pendL c F acc).app (pendL c F xs)) mst (dfsItems frc n xs acc mst)

theorem pendOut_conv {α β : Type} {pendOf : α → Fx} {pendOf' : β → Fx} {Pin : Fx} {mst m : MSt} {r : Res α} {r' : Res β}
    (h : PendOut pendOf Pin mst (r, m))
    (hr : match r, r' with
      | .ok x, .ok y => pendOf' y = pendOf x
      | .fail, .fail => True
      | .fuelOut, .fuelOut => True
      | _, _ => False) : PendOut pendOf' Pin mst (r', m) := by
  unfold PendOut at *
  cases r <;> cases r' <;> simp only at hr h ⊢
  · rw [hr]; exact h
  all_goals first | exact h | exact absurd hr id | trivial

theorem dfsA (hs : FrcSV c pv rank F frc) (ha : FrcA c pv rank F frc) : ∀ n, DfsA c pv rank F frc n
  | 0 => by
    refine ⟨?_, ?_, ?_⟩
    · intro v j mst _; simp only [dfsVal]; trivial
    · intro ks fs gs mst _; simp only [dfsFields]; trivial
    · intro xs js acc accj mst _ _; simp only [dfsItems]; trivial
  | n + 1 => by
    have ih : DfsA c pv rank F frc n := dfsA hs ha n
    have ihv : DfsV c pv rank F frc n := dfsV hs n
    refine ⟨?_, ?_, ?_⟩
    · have key : ∀ (x : PVal) (j : JVal) (mst : MSt), (∀ cl, x ≠ .deferred cl) → SV c pv rank F x j →
          PendOut (pend c F) (pend c F x) mst (dfsVal frc (n + 1) x mst) := by
        intro x j mst hnd hx
        cases hx with
        | leaf j => simp only [dfsVal]; exact pendOut_ret _ _ _
        | deferred _ => exact absurd rfl (hnd _)
        | @obj fs gs hfs =>
          simp only [dfsVal, pend]
          have h := ih.fields (sortedKeys fs) fs gs mst hfs
          generalize dfsFields frc n (sortedKeys fs) fs mst = z at h ⊢
          obtain ⟨r, mst1⟩ := z
          cases r with
          | ok fs' => exact pendOut_conv h (by simp [pend])
          | fail => exact h
          | fuelOut => trivial
        | @list xs js hxs =>
          simp only [dfsVal, pend]
          have h := ih.items xs js [] [] mst hxs .nil
          simp only [pendL, Fx.nil_app] at h
          generalize dfsItems frc n xs [] mst = z at h ⊢
          obtain ⟨r, mst1⟩ := z
          cases r with
          | ok ys => exact pendOut_conv h (by simp [pend])
          | fail => exact h
          | fuelOut => trivial
      intro v j mst hv
      cases v with
      | leaf j' => exact key _ j mst (fun _ h => by cases h) hv
      | list xs => exact key _ j mst (fun _ h => by cases h) hv
      | obj fs => exact key _ j mst (fun _ h => by cases h) hv
      | deferred cl =>
        cases hv with
        | deferred hwit =>
          simp only [dfsVal, pend]
          have h1 := ha cl j mst hwit
          have h2 := hs cl j mst hwit
          generalize frc cl mst = z at h1 h2 ⊢
          obtain ⟨r1, mst1⟩ := z
          cases r1 with
          | fail => exact h1
          | fuelOut => trivial
          | ok x =>
            obtain ⟨d1, D1, m1, p1⟩ := h1
            have hx : SV c pv rank F x j := h2
            cases x with
            | leaf j' => exact ⟨d1, D1, m1, p1⟩
            | deferred cl' => exact ⟨d1, D1, m1, p1⟩
            | obj fs =>
              have := key (.obj fs) j mst1 (fun _ h => by cases h) hx
              simp only [dfsVal] at this
              exact pendOut_seq m1 p1 this
            | list xs =>
              have := key (.list xs) j mst1 (fun _ h => by cases h) hx
              simp only [dfsVal] at this
              exact pendOut_seq m1 p1 this
    · intro ks fs gs mst hfs
      cases ks with
      | nil => simp only [dfsFields]; exact pendOut_ret _ _ _
      | cons k ks =>
        simp only [dfsFields]
        cases hl : lookupF fs k with
        | none => exact ih.fields ks fs gs mst hfs
        | some v =>
          simp only
          obtain ⟨j0, hj0⟩ := svf_lookup hfs hl
          have h1 := ih.val v j0 mst hj0
          have hvv : ∀ j, SV c pv rank F v j → SVRes (SV c pv rank F) (dfsVal frc n v mst).1 j :=
            fun j hj => ihv.val v j mst hj
          obtain ⟨R, s1, s2⟩ := pendF_split (c := c) (F := F) hl
          generalize dfsVal frc n v mst = z at h1 hvv ⊢
          obtain ⟨r1, mst1⟩ := z
          cases r1 with
          | fail => exact h1
          | fuelOut => trivial
          | ok v' =>
            obtain ⟨d1, D1, m1, p1⟩ := h1
            simp only
            have hfs' : SVf c pv rank F (setF fs k v') gs := svf_setF (fun j hj => hvv j hj) hfs hl
            have p1' : Fx.Perm (pendF c F fs) (d1.app ((pendF c F (setF fs k v')).app D1)) := by
              have t1 := perm_replace s1 p1
              have t2 : Fx.Perm (d1.app (((pend c F v').app R).app D1)) (d1.app ((pendF c F (setF fs k v')).app D1)) :=
                Fx.Perm.app (Fx.Perm.refl d1) (Fx.Perm.app (s2 v').symm (Fx.Perm.refl D1))
              exact t1.trans t2
            exact pendOut_seq m1 p1' (ih.fields ks _ gs mst1 hfs')
    · intro xs js acc accj mst hxs hacc
      cases hxs with
      | nil => simp only [dfsItems, pendL, Fx.app_nil]; exact pendOut_ret _ _ _
      | @cons x j xs js hx hrest =>
        simp only [dfsItems]
        have h1 := ih.val x j mst hx
        have hv := ihv.val x j mst hx
        generalize dfsVal frc n x mst = z at h1 hv ⊢
        obtain ⟨r1, mst1⟩ := z
        cases r1 with
        | fail => exact h1
        | fuelOut => trivial
        | ok x' =>
          obtain ⟨d1, D1, m1, p1⟩ := h1
          simp only
          have h2 := ih.items xs js (acc ++ [x']) (accj ++ [j]) mst1 hrest (svl_append hv hacc)
          rw [pendL_snoc] at h2
          have p1' : Fx.Perm ((pendL c F acc).app (pendL c F (x :: xs)))
              (d1.app ((((pendL c F acc).app (pend c F x')).app (pendL c F xs)).app D1)) := by
            simp only [pendL]
            have t1 : Fx.Perm ((pendL c F acc).app ((pend c F x).app (pendL c F xs)))
                ((pend c F x).app ((pendL c F acc).app (pendL c F xs))) := by
              simpa [Fx.flat] using Fx.rearr [pendL c F acc, pend c F x, pendL c F xs] [0, 1, 2] [1, 0, 2] (by decide)
            have t2 := perm_replace t1 p1
            have t3 : Fx.Perm (d1.app (((pend c F x').app ((pendL c F acc).app (pendL c F xs))).app D1))
                (d1.app ((((pendL c F acc).app (pend c F x')).app (pendL c F xs)).app D1)) := by
              simpa [Fx.flat] using Fx.rearr [d1, pend c F x', pendL c F acc, pendL c F xs, D1] [0, 1, 2, 3, 4] [0, 2, 1, 3, 4]
                (by decide)
            exact t2.trans t3
          exact pendOut_seq m1 p1' h2

/-! ## the breadth-first pass -/

theorem bfsEntries_acct (hs : FrcSV c pv rank F frc) (ha : FrcA c pv rank F frc) (p : Path) (j : JVal) :
    ∀ (segs : List PathSeg) (root : PVal) (q : List Path) (mst : MSt), SV c pv rank F root j →
    PendOut (fun (r : PVal × List Path) => pend c F r.1) (pend c F root) mst (bfsEntries frc p segs root q mst)
  | [], root, q, mst, _ => by simp only [bfsEntries]; exact pendOut_ret (fun (r : PVal × List Path) => pend c F r.1) mst (root, q)
  | seg :: rest, root, q, mst, h => by
    simp only [bfsEntries]
    cases hg : root.getAt (p ++ [seg]) with
    | none => exact bfsEntries_acct hs ha p j rest root q mst h
    | some x =>
      cases x with
      | deferred cl =>
        simp only
        obtain ⟨j', hj'⟩ := sv_getAt _ h hg
        have hwit : Wit c pv rank F cl j' := by cases hj' with | deferred hw => exact hw
        have h1 := ha cl j' mst hwit
        have hvv : ∀ j'', SV c pv rank F (.deferred cl) j'' → SVRes (SV c pv rank F) (frc cl mst).1 j'' := by
          intro j'' hj''
          cases hj'' with
          | deferred hw => exact hs cl j'' mst hw
        obtain ⟨R, s1, s2⟩ := pend_split (c := c) (F := F) _ hg
        generalize frc cl mst = z at h1 hvv ⊢
        obtain ⟨r1, mst1⟩ := z
        cases r1 with
        | ok v =>
          obtain ⟨d1, D1, m1, p1⟩ := h1
          simp only
          have hroot' : SV c pv rank F (root.setAt (p ++ [seg]) v) j := sv_setAt (fun j'' hj'' => hvv j'' hj'') _ h hg
          have p1' : Fx.Perm (pend c F root) (d1.app ((pend c F (root.setAt (p ++ [seg]) v)).app D1)) := by
            have t1 := perm_replace (by simpa [pend] using s1) p1
            have t2 : Fx.Perm (d1.app (((pend c F v).app R).app D1))
                (d1.app ((pend c F (root.setAt (p ++ [seg]) v)).app D1)) :=
              Fx.Perm.app (Fx.Perm.refl d1) (Fx.Perm.app (s2 v).symm (Fx.Perm.refl D1))
            exact t1.trans t2
          exact pendOut_seq m1 p1' (bfsEntries_acct hs ha p j rest _ _ mst1 hroot')
        | fail => exact h1
        | fuelOut => trivial
      | leaf _ => exact bfsEntries_acct hs ha p j rest root _ mst h
      | list _ => exact bfsEntries_acct hs ha p j rest root _ mst h
      | obj _ => exact bfsEntries_acct hs ha p j rest root _ mst h

theorem bfsLoop_acct (hs : FrcSV c pv rank F frc) (ha : FrcA c pv rank F frc) (j : JVal) :
    ∀ (n : Nat) (root : PVal) (q : List Path) (mst : MSt), SV c pv rank F root j →
    PendOut (pend c F) (pend c F root) mst (bfsLoop frc n root q mst)
  | 0, root, q, mst, _ => by simp only [bfsLoop]; trivial
  | n + 1, root, [], mst, _ => by simp only [bfsLoop]; exact pendOut_ret _ _ _
  | n + 1, root, p :: q, mst, h => by
    simp only [bfsLoop]
    cases hg : root.getAt p with
    | none => exact bfsLoop_acct hs ha j n root q mst h
    | some cont =>
      simp only
      have he := bfsEntries_acct hs ha p j (childSegs cont) root q mst h
      have hv := bfsEntries_sv hs p j (childSegs cont) root q mst h
      generalize bfsEntries frc p (childSegs cont) root q mst = z at he hv ⊢
      obtain ⟨r1, mst1⟩ := z
      cases r1 with
      | ok x =>
        obtain ⟨root', q'⟩ := x
        obtain ⟨d1, D1, m1, p1⟩ := he
        exact pendOut_seq m1 p1 (bfsLoop_acct hs ha j n root' q' mst1 hv)
      | fail => exact he
      | fuelOut => trivial

end acct

end GqlModel.Plan
