import GqlModel.Printer
import GqlModel.StripLoc
/-! Printing does not look at locations: every printer function gives the same text on `x` and `x.stripLoc`. -/
namespace GqlModel.Printer
open GqlModel

theorem typeC_stripLoc : ∀ t : TypeRef, typeC t.stripLoc = typeC t
  | .named _ _ => rfl
  | .list t _ => by simp [TypeRef.stripLoc, typeC, typeC_stripLoc t]
  | .nonNull t _ => by simp [TypeRef.stripLoc, typeC, typeC_stripLoc t]

theorem optTypeC_stripLoc (t : Option TypeRef) : optTypeC (t.map TypeRef.stripLoc) = optTypeC t := by
  cases t <;> simp [optTypeC, typeC_stripLoc]

mutual
theorem valueC_stripLoc : ∀ v : Value, valueC v.stripLoc = valueC v
  | .var _ _ | .int _ _ | .float _ _ | .str _ _ | .bool _ _ | .enum _ _ => rfl
  | .list vs _ => by simp [Value.stripLoc, valueC, valuesC_stripLoc vs]
  | .obj fs _ => by simp [Value.stripLoc, valueC, fieldsC_stripLoc fs]
theorem valuesC_stripLoc : ∀ vs : List Value, valuesC (Value.stripLocList vs) = valuesC vs
  | [] => rfl
  | v :: vs => by simp [Value.stripLocList, valuesC, valueC_stripLoc v, valuesC_stripLoc vs]
theorem fieldC_stripLoc : ∀ f : ObjField, fieldC f.stripLoc = fieldC f
  | .mk n v _ => by simp [ObjField.stripLoc, fieldC, Name.stripLoc, valueC_stripLoc v]
theorem fieldsC_stripLoc : ∀ fs : List ObjField, fieldsC (ObjField.stripLocList fs) = fieldsC fs
  | [] => rfl
  | f :: fs => by simp [ObjField.stripLocList, fieldsC, fieldC_stripLoc f, fieldsC_stripLoc fs]
end

theorem optValueC_stripLoc (v : Option Value) : optValueC (v.map Value.stripLoc) = optValueC v := by
  cases v <;> simp [optValueC, valueC_stripLoc]

theorem argC_stripLoc (a : Argument) : argC a.stripLoc = argC a := by
  simp [Argument.stripLoc, argC, Name.stripLoc, valueC_stripLoc]

theorem map_argC_stripLoc : argC ∘ Argument.stripLoc = argC := funext argC_stripLoc

theorem directiveC_stripLoc (d : Directive) : directiveC d.stripLoc = directiveC d := by
  simp [Directive.stripLoc, directiveC, Name.stripLoc, map_argC_stripLoc]

theorem directivesC_stripLoc (ds : List Directive) : directivesC (ds.map Directive.stripLoc) = directivesC ds := by
  simp [directivesC, List.map_map, Function.comp_def, directiveC_stripLoc]

theorem optNameC_stripLoc (n : Option Name) : optNameC (n.map Name.stripLoc) = optNameC n := by
  cases n <;> simp [optNameC, Name.stripLoc]

mutual
theorem selectionC_stripLoc : ∀ s : Selection, selectionC s.stripLoc = selectionC s
  | .field alias name args dirs sel _ => by
    simp [Selection.stripLoc, selectionC, optNameC_stripLoc, Name.stripLoc, map_argC_stripLoc, directivesC_stripLoc,
      optSelSetC_stripLoc sel]
  | .spread name dirs _ => by simp [Selection.stripLoc, selectionC, Name.stripLoc, directivesC_stripLoc]
  | .inline tc dirs sel _ => by
    simp [Selection.stripLoc, selectionC, optTypeC_stripLoc, directivesC_stripLoc, selSetC_stripLoc sel]
theorem selSetC_stripLoc : ∀ s : SelectionSet, selSetC s.stripLoc = selSetC s
  | .mk sels _ => by simp [SelectionSet.stripLoc, selSetC, selectionsC_stripLoc sels]
theorem optSelSetC_stripLoc : ∀ s : Option SelectionSet, optSelSetC (SelectionSet.stripLocOpt s) = optSelSetC s
  | none => rfl
  | some s => by simp [SelectionSet.stripLocOpt, optSelSetC, selSetC_stripLoc s]
theorem selectionsC_stripLoc : ∀ ss : List Selection, selectionsC (Selection.stripLocList ss) = selectionsC ss
  | [] => rfl
  | s :: ss => by simp [Selection.stripLocList, selectionsC, selectionC_stripLoc s, selectionsC_stripLoc ss]
end

theorem varDefC_stripLoc (v : VarDef) : varDefC v.stripLoc = varDefC v := by
  simp [VarDef.stripLoc, varDefC, Name.stripLoc, optTypeC_stripLoc, optValueC_stripLoc]

theorem inputValueDefC_stripLoc (d : InputValueDef) : inputValueDefC d.stripLoc = inputValueDefC d := by
  simp [InputValueDef.stripLoc, inputValueDefC, Name.stripLoc, typeC_stripLoc, optValueC_stripLoc, directivesC_stripLoc]

theorem map_inputValueDefC_stripLoc : inputValueDefC ∘ InputValueDef.stripLoc = inputValueDefC :=
  funext inputValueDefC_stripLoc

theorem hasArgDesc_stripLoc (ds : List InputValueDef) : hasArgDesc (ds.map InputValueDef.stripLoc) = hasArgDesc ds := by
  simp [hasArgDesc, List.any_map, Function.comp_def, InputValueDef.stripLoc]

theorem argDefsC_stripLoc (ds : List InputValueDef) : argDefsC (ds.map InputValueDef.stripLoc) = argDefsC ds := by
  simp [argDefsC, hasArgDesc_stripLoc, map_inputValueDefC_stripLoc]

theorem fieldDefC_stripLoc (d : FieldDef) : fieldDefC d.stripLoc = fieldDefC d := by
  simp [FieldDef.stripLoc, fieldDefC, Name.stripLoc, typeC_stripLoc, argDefsC_stripLoc, directivesC_stripLoc]

theorem map_fieldDefC_stripLoc : fieldDefC ∘ FieldDef.stripLoc = fieldDefC := funext fieldDefC_stripLoc

theorem enumValueDefC_stripLoc (d : EnumValueDef) : enumValueDefC d.stripLoc = enumValueDefC d := by
  simp [EnumValueDef.stripLoc, enumValueDefC, Name.stripLoc, directivesC_stripLoc]

theorem opTypeDefC_stripLoc (d : OpTypeDef) : opTypeDefC d.stripLoc = opTypeDefC d := by
  simp [OpTypeDef.stripLoc, opTypeDefC, typeC_stripLoc]

theorem map_typeC_stripLoc : typeC ∘ TypeRef.stripLoc = typeC := funext typeC_stripLoc

theorem objectDefC_stripLoc (d : ObjectDef) : objectDefC d.stripLoc = objectDefC d := by
  simp [ObjectDef.stripLoc, objectDefC, Name.stripLoc, map_typeC_stripLoc, directivesC_stripLoc, map_fieldDefC_stripLoc]

theorem definitionC_stripLoc (d : Definition) : definitionC d.stripLoc = definitionC d := by
  cases d with
  | operation op name vars dirs sel l =>
    have h : List.map varDefC (List.map VarDef.stripLoc vars) = List.map varDefC vars := by
      simp [List.map_map, Function.comp_def, varDefC_stripLoc]
    simp only [Definition.stripLoc, definitionC, operationC, optNameC_stripLoc, directivesC_stripLoc, selSetC_stripLoc, h]
  | fragment name tc dirs sel l =>
    simp [Definition.stripLoc, definitionC, fragmentC, Name.stripLoc, typeC_stripLoc, directivesC_stripLoc, selSetC_stripLoc]
  | schema dirs ops l =>
    simp [Definition.stripLoc, definitionC, schemaC, directivesC_stripLoc, List.map_map, Function.comp_def, opTypeDefC_stripLoc]
  | scalar d name dirs l => simp [Definition.stripLoc, definitionC, scalarC, Name.stripLoc, directivesC_stripLoc]
  | object d => simp [Definition.stripLoc, definitionC, objectDefC_stripLoc]
  | interface d name dirs fields l =>
    simp [Definition.stripLoc, definitionC, interfaceC, Name.stripLoc, directivesC_stripLoc, map_fieldDefC_stripLoc]
  | union d name dirs types l =>
    simp [Definition.stripLoc, definitionC, unionC, Name.stripLoc, directivesC_stripLoc, map_typeC_stripLoc]
  | «enum» d name dirs values l =>
    simp [Definition.stripLoc, definitionC, enumC, Name.stripLoc, directivesC_stripLoc, List.map_map, Function.comp_def,
      enumValueDefC_stripLoc]
  | inputObject d name dirs fields l =>
    simp [Definition.stripLoc, definitionC, inputObjectC, Name.stripLoc, directivesC_stripLoc, map_inputValueDefC_stripLoc]
  | extend d l => simp [Definition.stripLoc, definitionC, extendC, objectDefC_stripLoc]
  | directive d name args locations l =>
    simp [Definition.stripLoc, definitionC, directiveDefC, Name.stripLoc, argDefsC_stripLoc, List.map_map, Function.comp_def]

theorem documentC_stripLoc (d : Document) : documentC d.stripLoc = documentC d := by
  simp [Document.stripLoc, documentC, List.map_map, Function.comp_def, definitionC_stripLoc]

end GqlModel.Printer
