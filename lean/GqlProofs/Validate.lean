import GqlModel.Validate.Local
/-! # Lemmas for C02 (local rules): the "report later occurrences of a name" fold and its declarative reading -/
namespace GqlModel.Validate

/-! ## `dupErrsFrom`: declarative characterisation -/

theorem NameMap.get?_eq_none {m : NameMap} {k : String} :
    NameMap.get? m k = none ↔ ∀ y ∈ m, y.value ≠ k := by
  unfold NameMap.get?
  rw [List.find?_eq_none]
  constructor
  · intro h y hy; have := h y hy; simpa using this
  · intro h y hy; simpa using h y hy

theorem NameMap.get?_some {m : NameMap} {k : String} {f : Name} (h : NameMap.get? m k = some f) :
    f ∈ m ∧ f.value = k := by
  unfold NameMap.get? at h
  have h1 := List.mem_of_find?_eq_some h
  have h2 := List.find?_some h
  exact ⟨h1, by simpa using h2⟩

/-- no error ⇔ the new names are pairwise distinct and distinct from the names already seen -/
theorem dupErrsFrom_eq_nil (rule : String) (seen names : List Name) :
    dupErrsFrom rule seen names = [] ↔
      (names.map (·.value)).Nodup ∧ ∀ x ∈ names, ∀ y ∈ seen, y.value ≠ x.value := by
  induction names generalizing seen with
  | nil => simp [dupErrsFrom]
  | cons x xs ih =>
    unfold dupErrsFrom
    cases hf : seen.find? (fun y => y.value == x.value) with
    | some f =>
      have hm := NameMap.get?_some (m := seen) (k := x.value) hf
      simp only [reduceCtorEq, false_iff, not_and]
      intro _ hall
      exact absurd hm.2 (hall x (List.mem_cons_self ..) f hm.1)
    | none =>
      have hn := (NameMap.get?_eq_none (m := seen) (k := x.value)).1 hf
      simp only
      rw [ih]
      simp only [List.map_cons, List.nodup_cons, List.mem_map, not_exists, not_and, List.mem_cons,
        List.mem_append, List.not_mem_nil, or_false, forall_eq_or_imp]
      constructor
      · rintro ⟨hnd, hall⟩
        refine ⟨⟨?_, hnd⟩, hn, ?_⟩
        · intro y hy heq
          exact (hall y hy x (Or.inr rfl)) heq.symm
        · intro y hy z hz
          exact hall y hy z (Or.inl hz)
      · rintro ⟨⟨hx, hnd⟩, _, hall⟩
        refine ⟨hnd, ?_⟩
        intro y hy z hz
        rcases hz with hz | hz
        · exact hall y hy z hz
        · subst hz; intro heq; exact hx y hy heq.symm

theorem dupErrs_eq_nil (rule : String) (names : List Name) :
    dupErrs rule names = [] ↔ (names.map (·.value)).Nodup := by
  unfold dupErrs
  rw [dupErrsFrom_eq_nil]
  simp

/-- location soundness: every reported pair is (an earlier node, a later node of the same name) -/
theorem dupErrsFrom_sound (rule : String) (seen names : List Name) (e : VErr)
    (h : e ∈ dupErrsFrom rule seen names) :
    ∃ pre x post f, names = pre ++ x :: post ∧ f ∈ seen ++ pre ∧ f.value = x.value ∧ e = ⟨rule, [f.loc, x.loc]⟩ := by
  induction names generalizing seen with
  | nil => simp [dupErrsFrom] at h
  | cons x xs ih =>
    unfold dupErrsFrom at h
    cases hf : seen.find? (fun y => y.value == x.value) with
    | some f =>
      rw [hf] at h
      simp only [List.mem_cons] at h
      have hm := NameMap.get?_some (m := seen) (k := x.value) hf
      rcases h with h | h
      · exact ⟨[], x, xs, f, rfl, by simpa using hm.1, hm.2, h⟩
      · obtain ⟨pre, y, post, g, hxs, hg, hv, he⟩ := ih seen h
        refine ⟨x :: pre, y, post, g, by simp [hxs], ?_, hv, he⟩
        simp only [List.mem_append, List.mem_cons] at hg ⊢
        rcases hg with hg | hg
        · exact Or.inl hg
        · exact Or.inr (Or.inr hg)
    | none =>
      rw [hf] at h
      simp only at h
      obtain ⟨pre, y, post, g, hxs, hg, hv, he⟩ := ih (seen ++ [x]) h
      refine ⟨x :: pre, y, post, g, by simp [hxs], ?_, hv, he⟩
      simp only [List.mem_append, List.mem_cons, List.not_mem_nil, or_false] at hg ⊢
      rcases hg with (hg | hg) | hg
      · exact Or.inl hg
      · exact Or.inr (Or.inl hg)
      · exact Or.inr (Or.inr hg)

theorem dupErrs_sound (rule : String) (names : List Name) (e : VErr) (h : e ∈ dupErrs rule names) :
    ∃ pre x post f, names = pre ++ x :: post ∧ f ∈ pre ∧ f.value = x.value ∧ e = ⟨rule, [f.loc, x.loc]⟩ := by
  obtain ⟨pre, x, post, f, h1, h2, h3, h4⟩ := dupErrsFrom_sound rule [] names e h
  exact ⟨pre, x, post, f, h1, by simpa using h2, h3, h4⟩

/-! ## the stateful step computes `dupErrsFrom` -/

/-- folding the visitor's `if known {report} else {remember}` step over a list of name nodes appends exactly
`dupErrsFrom` of the names already known -/
theorem foldl_uniqStep (rule : String) (names : List Name) (known : NameMap) (errs : List VErr) :
    (names.foldl (uniqStep rule) (known, errs)).2 = errs ++ dupErrsFrom rule known names := by
  induction names generalizing known errs with
  | nil => simp [dupErrsFrom]
  | cons x xs ih =>
    simp only [List.foldl_cons]
    unfold dupErrsFrom
    cases hf : List.find? (fun y => y.value == x.value) known with
    | some f =>
      have hs : uniqStep rule (known, errs) x = (known, errs ++ [⟨rule, [f.loc, x.loc]⟩]) := by
        simp [uniqStep, NameMap.get?, hf]
      rw [hs, ih]; simp
    | none =>
      have hs : uniqStep rule (known, errs) x = (known ++ [x], errs) := by
        simp [uniqStep, NameMap.get?, hf]
      rw [hs, ih]

/-- same with a projection (arguments, variable definitions → their name nodes) -/
theorem foldl_uniqStep_map {α : Type} (rule : String) (g : α → Name) (xs : List α) (known : NameMap) (errs : List VErr) :
    (xs.foldl (fun st a => uniqStep rule st (g a)) (known, errs)).2 = errs ++ dupErrsFrom rule known (xs.map g) := by
  have := foldl_uniqStep rule (xs.map g) known errs
  rw [List.foldl_map] at this
  exact this

/-! ## a fold that resets its private state at the start of each group -/

/-- the shape shared by UniqueArgumentNames (group = the arguments of one field / directive) and UniqueVariableNames
(group = the variable definitions of one operation): the name map is reset when the group's owner is entered, the
error list is carried on. -/
def groupStep {ι : Type} (rule : String) (groupOf : ι → Option (List Name)) (st : NameMap × List VErr) (it : ι) :
    NameMap × List VErr :=
  match groupOf it with
  | some names => names.foldl (uniqStep rule) (([] : NameMap), st.2)
  | none => st

/-- the result is the concatenation of the per-group reports: nothing leaks between groups -/
theorem foldl_groups {ι : Type} (rule : String) (groupOf : ι → Option (List Name)) (its : List ι)
    (st : NameMap × List VErr) :
    (its.foldl (groupStep rule groupOf) st).2 = st.2 ++ (its.filterMap groupOf).flatMap (dupErrs rule) := by
  induction its generalizing st with
  | nil => simp
  | cons it rest ih =>
    simp only [List.foldl_cons]
    rw [ih]
    unfold groupStep
    cases hg : groupOf it with
    | none => simp [hg]
    | some names =>
      simp only [List.filterMap_cons, hg, List.flatMap_cons]
      rw [foldl_uniqStep]
      simp [dupErrs, List.append_assoc]

/-- a visitor that steps only on some nodes -/
def selectStep {ι : Type} (rule : String) (sel : ι → Option Name) (st : NameMap × List VErr) (it : ι) :
    NameMap × List VErr :=
  match sel it with
  | some nm => uniqStep rule st nm
  | none => st

theorem foldl_select {ι : Type} (rule : String) (sel : ι → Option Name) (its : List ι) (st : NameMap × List VErr) :
    its.foldl (selectStep rule sel) st = (its.filterMap sel).foldl (uniqStep rule) st := by
  induction its generalizing st with
  | nil => rfl
  | cons it rest ih =>
    simp only [List.foldl_cons, List.filterMap_cons]
    rw [ih]
    cases h : sel it with
    | none => simp [selectStep, h]
    | some nm => simp [selectStep, h]

theorem filterMap_congr' {α β : Type} {f g : α → Option β} {l : List α} (h : ∀ x ∈ l, f x = g x) :
    l.filterMap f = l.filterMap g := by
  induction l with
  | nil => rfl
  | cons x xs ih =>
    simp only [List.filterMap_cons]
    rw [h x (List.mem_cons_self ..), ih (fun y hy => h y (List.mem_cons_of_mem _ hy))]

end GqlModel.Validate
