import GqlModel.TwoWorlds
import GqlProofs.ExecWorlds
/-! C04 two-world theorem, infrastructure: canonical runs (from the empty state, empty accumulator), `getAt` lemmas,
the relation `Good` between the outcomes of one call in the two worlds. -/
namespace GqlModel.Exec
open GqlModel.Coerce

/-! ## canonical runs -/

def Res.mapOk {α β : Type} (f : α → β) : Res α → Res β
  | .ok a => .ok (f a)
  | .fail => .fail
  | .fuelOut => .fuelOut

theorem execGroups_acc (c : Ctx) : ∀ fuel dfr rt src path groups acc s,
    execGroups c fuel dfr rt src path groups acc s =
      ((execGroups c fuel dfr rt src path groups [] s).1.mapOk (acc ++ ·), (execGroups c fuel dfr rt src path groups [] s).2)
  | 0, dfr, rt, src, path, groups, acc, s => by simp [execGroups, Res.mapOk]
  | fuel + 1, dfr, rt, src, path, [], acc, s => by simp [execGroups, Res.mapOk]
  | fuel + 1, dfr, rt, src, path, (key, nodes) :: rest, acc, s => by
    simp only [execGroups]
    split
    · exact execGroups_acc c fuel _ _ _ _ _ _ _
    · split
      · exact execGroups_acc c fuel _ _ _ _ _ _ _
      · rename_i fd hfd
        rcases hf : execField c fuel dfr rt src (path ++ [.key key]) fd nodes s with ⟨r1, st1⟩
        simp only [hf]
        cases r1 with
        | ok v =>
          simp only
          rw [execGroups_acc c fuel _ _ _ _ rest (acc ++ [(key, v)]) st1,
            execGroups_acc c fuel _ _ _ _ rest ([] ++ [(key, v)]) st1]
          cases (execGroups c fuel dfr rt src path rest [] st1).1 <;> simp [Res.mapOk]
        | fail => simp [Res.mapOk]
        | fuelOut => simp [Res.mapOk]

theorem completeItems_acc (c : Ctx) : ∀ fuel dfr item rt fname nodes p xs i acc s,
    completeItems c fuel dfr item rt fname nodes p xs i acc s =
      ((completeItems c fuel dfr item rt fname nodes p xs i [] s).1.mapOk (acc ++ ·),
       (completeItems c fuel dfr item rt fname nodes p xs i [] s).2)
  | 0, dfr, item, rt, fname, nodes, p, xs, i, acc, s => by simp [completeItems, Res.mapOk]
  | fuel + 1, dfr, item, rt, fname, nodes, p, [], i, acc, s => by simp [completeItems, Res.mapOk]
  | fuel + 1, dfr, item, rt, fname, nodes, p, x :: xs, i, acc, s => by
    simp only [completeItems]
    rcases hc : complete c fuel dfr item rt fname nodes (p ++ [.idx i]) x s with ⟨r1, st1⟩
    have hgo : ∀ y, completeItems c fuel dfr item rt fname nodes p xs (i + 1) (acc ++ [y]) st1 =
        ((completeItems c fuel dfr item rt fname nodes p xs (i + 1) ([] ++ [y]) st1).1.mapOk (acc ++ ·),
         (completeItems c fuel dfr item rt fname nodes p xs (i + 1) ([] ++ [y]) st1).2) := by
      intro y
      rw [completeItems_acc c fuel _ _ _ _ _ _ xs (i + 1) (acc ++ [y]) st1,
        completeItems_acc c fuel _ _ _ _ _ _ xs (i + 1) ([] ++ [y]) st1]
      cases (completeItems c fuel dfr item rt fname nodes p xs (i + 1) [] st1).1 <;> simp [Res.mapOk]
    simp only [hc]
    cases r1 with
    | ok j => exact hgo j
    | fail =>
      simp only
      split
      · simp [Res.mapOk]
      · exact hgo .null
    | fuelOut => simp [Res.mapOk]

theorem St.app_empty (d : St) : d.app St.empty = d := by cases d; simp [St.app, St.empty]

theorem execGroups_canon (c : Ctx) (fuel : Nat) (dfr : Bool) (rt : String) (src : GoVal) (path : Path) (groups : Groups)
    (acc : List (String × JVal)) (s : St) :
    execGroups c fuel dfr rt src path groups acc s =
      ((execGroups c fuel dfr rt src path groups [] St.empty).1.mapOk (acc ++ ·),
       (execGroups c fuel dfr rt src path groups [] St.empty).2.app s) := by
  rw [execGroups_acc]
  obtain ⟨r, d, h⟩ := (stP c fuel).groups dfr rt src path groups []
  rw [h s, h St.empty, St.app_empty]

theorem completeItems_canon (c : Ctx) (fuel : Nat) (dfr : Bool) (item : GType) (rt fname : String) (nodes : List FieldNode)
    (p : Path) (xs : List GoVal) (i : Nat) (acc : List JVal) (s : St) :
    completeItems c fuel dfr item rt fname nodes p xs i acc s =
      ((completeItems c fuel dfr item rt fname nodes p xs i [] St.empty).1.mapOk (acc ++ ·),
       (completeItems c fuel dfr item rt fname nodes p xs i [] St.empty).2.app s) := by
  rw [completeItems_acc]
  obtain ⟨r, d, h⟩ := (stP c fuel).items dfr item rt fname nodes p xs i []
  rw [h s, h St.empty, St.app_empty]

theorem execField_canon (c : Ctx) (fuel : Nat) (dfr : Bool) (rt : String) (src : GoVal) (p : Path) (fd : FieldDefS)
    (nodes : List FieldNode) (s : St) :
    execField c fuel dfr rt src p fd nodes s =
      ((execField c fuel dfr rt src p fd nodes St.empty).1, (execField c fuel dfr rt src p fd nodes St.empty).2.app s) := by
  obtain ⟨r, d, h⟩ := (stP c fuel).field dfr rt src p fd nodes
  rw [h s, h St.empty, St.app_empty]

theorem complete_canon (c : Ctx) (fuel : Nat) (dfr : Bool) (t : GType) (rt fname : String) (nodes : List FieldNode)
    (p : Path) (v : GoVal) (s : St) :
    complete c fuel dfr t rt fname nodes p v s =
      ((complete c fuel dfr t rt fname nodes p v St.empty).1, (complete c fuel dfr t rt fname nodes p v St.empty).2.app s) := by
  obtain ⟨r, d, h⟩ := (stP c fuel).complete dfr t rt fname nodes p v
  rw [h s, h St.empty, St.app_empty]

/-! ## `getAt` -/

theorem getAt_nil (v : JVal) : v.getAt [] = some v := by cases v <;> rfl

theorem getAt_null_cons (seg : PathSeg) (r : Path) : JVal.getAt .null (seg :: r) = none := by cases seg <;> rfl

theorem getAt_obj_cons (k : String) (v : JVal) (m : List (String × JVal)) (k' : String) (r : Path) :
    (JVal.obj ((k, v) :: m)).getAt (.key k' :: r) = if k == k' then v.getAt r else (JVal.obj m).getAt (.key k' :: r) := by
  simp only [JVal.getAt, JVal.lookup, List.find?]
  by_cases h : (k == k') = true
  · simp [h]
  · simp [h]

theorem getAt_obj_idx (fs : List (String × JVal)) (i : Nat) (r : Path) : (JVal.obj fs).getAt (.idx i :: r) = none := rfl
theorem getAt_list_key (xs : List JVal) (k : String) (r : Path) : (JVal.list xs).getAt (.key k :: r) = none := rfl

theorem getAt_list_idx (xs : List JVal) (i : Nat) (r : Path) :
    (JVal.list xs).getAt (.idx i :: r) = (xs[i]?).bind (fun v => v.getAt r) := by
  simp only [JVal.getAt]
  cases xs[i]? <;> rfl

/-- `r` is a prefix or an extension of `a` -/
def Cmp (a r : Path) : Prop := a <+: r ∨ r <+: a

theorem cmp_nil_left (r : Path) : Cmp [] r := Or.inl (List.nil_prefix)
theorem cmp_nil_right (a : Path) : Cmp a [] := Or.inr (List.nil_prefix)

theorem cmp_cons_iff (s : PathSeg) (a r : Path) : Cmp (s :: a) (s :: r) ↔ Cmp a r := by
  simp [Cmp, List.cons_prefix_cons]

theorem not_cmp_cons_of_ne {s s' : PathSeg} (h : s ≠ s') (a r : Path) : ¬ Cmp (s :: a) (s' :: r) := by
  simp [Cmp, List.cons_prefix_cons, h, Ne.symm h]

/-! ## errors / log outside a position -/

theorem errsOutside_append (a : Path) (l1 l2 : List (Path × Bool)) :
    errsOutside a (l1 ++ l2) = errsOutside a l1 ++ errsOutside a l2 := List.filter_append _ _
theorem logOutside_append (a : Path) (l1 l2 : List LogEntry) :
    logOutside a (l1 ++ l2) = logOutside a l1 ++ logOutside a l2 := List.filter_append _ _

theorem errsOutside_eq_nil {a : Path} {l : List (Path × Bool)} (h : ∀ e, e ∈ l → a <+: e.1) : errsOutside a l = [] := by
  unfold errsOutside
  rw [List.filter_eq_nil_iff]
  intro e he
  simp [List.isPrefixOf_iff_prefix.mpr (h e he)]

theorem logOutside_eq_nil {a : Path} {l : List LogEntry} (h : ∀ e, e ∈ l → a <+: e.path) : logOutside a l = [] := by
  unfold logOutside
  rw [List.filter_eq_nil_iff]
  intro e he
  simp [List.isPrefixOf_iff_prefix.mpr (h e he)]

/-! ## the relation between the outcomes of one call in the two worlds -/

/-- the two values `j1 j2` produced at position `pos` (with `p = pos ++ rel` the divergent position) and the two state
deltas agree outside some position `pos ++ arel` on the way to `p`, which is `p` itself or holds `null` in one of them -/
def Good (pos rel : Path) (j1 j2 : JVal) (d1 d2 : St) : Prop :=
  ∃ arel, arel <+: rel ∧ (∀ r, ¬ Cmp arel r → j1.getAt r = j2.getAt r) ∧
    (arel = rel ∨ j1.getAt arel = some .null ∨ j2.getAt arel = some .null) ∧
    errsOutside (pos ++ arel) d1.errs = errsOutside (pos ++ arel) d2.errs ∧
    logOutside (pos ++ arel) d1.log = logOutside (pos ++ arel) d2.log

theorem Good.same (pos rel : Path) (j : JVal) (d : St) : Good pos rel j j d d :=
  ⟨rel, List.prefix_refl _, fun _ _ => rfl, Or.inl rfl, rfl, rfl⟩

/-- absorption at `pos`: everything recorded lies at or below `pos`, and one of the values is `null` (or `pos = p`) -/
theorem Good.absorb {pos rel : Path} {j1 j2 : JVal} {d1 d2 : St}
    (he1 : ∀ e, e ∈ d1.errs → pos <+: e.1) (he2 : ∀ e, e ∈ d2.errs → pos <+: e.1)
    (hl1 : ∀ e, e ∈ d1.log → pos <+: e.path) (hl2 : ∀ e, e ∈ d2.log → pos <+: e.path)
    (h : rel = [] ∨ j1 = .null ∨ j2 = .null) : Good pos rel j1 j2 d1 d2 := by
  refine ⟨[], List.nil_prefix, fun r hr => absurd (cmp_nil_left r) hr, ?_, ?_, ?_⟩
  · rcases h with h | h | h
    · exact Or.inl h.symm
    · exact Or.inr (Or.inl (by rw [h]; rfl))
    · exact Or.inr (Or.inr (by rw [h]; rfl))
  · simp only [List.append_nil]; rw [errsOutside_eq_nil he1, errsOutside_eq_nil he2]
  · simp only [List.append_nil]; rw [logOutside_eq_nil hl1, logOutside_eq_nil hl2]

/-- the same additional delta on both sides -/
theorem Good.app_same {pos rel : Path} {j1 j2 : JVal} {d1 d2 : St} (h : Good pos rel j1 j2 d1 d2) (d : St) :
    Good pos rel j1 j2 (d1.app d) (d2.app d) := by
  obtain ⟨arel, h1, h2, h3, h4, h5⟩ := h
  refine ⟨arel, h1, h2, h3, ?_, ?_⟩
  · simp only [St.app, errsOutside_append, h4]
  · simp only [St.app, logOutside_append, h5]

theorem Good.app_left {pos rel : Path} {j1 j2 : JVal} {d1 d2 : St} (h : Good pos rel j1 j2 d1 d2) (d : St) :
    Good pos rel j1 j2 (d.app d1) (d.app d2) := by
  obtain ⟨arel, h1, h2, h3, h4, h5⟩ := h
  refine ⟨arel, h1, h2, h3, ?_, ?_⟩
  · simp only [St.app, errsOutside_append, h4]
  · simp only [St.app, logOutside_append, h5]

/-- an object value is never `null`: the divergence point of two objects lies strictly inside -/
theorem Good.obj_arel {pos rel : Path} {m1 m2 : List (String × JVal)} {d1 d2 : St}
    (h : Good pos rel (.obj m1) (.obj m2) d1 d2) (hrel : rel ≠ []) :
    ∃ arel, arel ≠ [] ∧ arel <+: rel ∧ (∀ r, ¬ Cmp arel r → (JVal.obj m1).getAt r = (JVal.obj m2).getAt r) ∧
    (arel = rel ∨ (JVal.obj m1).getAt arel = some .null ∨ (JVal.obj m2).getAt arel = some .null) ∧
    errsOutside (pos ++ arel) d1.errs = errsOutside (pos ++ arel) d2.errs ∧
    logOutside (pos ++ arel) d1.log = logOutside (pos ++ arel) d2.log := by
  obtain ⟨arel, h1, h2, h3, h4, h5⟩ := h
  refine ⟨arel, ?_, h1, h2, h3, h4, h5⟩
  intro ha
  subst ha
  rcases h3 with h3 | h3 | h3
  · exact hrel h3.symm
  · simp [getAt_nil] at h3
  · simp [getAt_nil] at h3

/-- prepending the same entry (key other than the one on the way to `p`) -/
theorem Good.obj_cons_same {path rel' : Path} {k0 k : String} {v : JVal} {m1 m2 : List (String × JVal)} {d1 d2 : St}
    (h : Good path (.key k0 :: rel') (.obj m1) (.obj m2) d1 d2) (hk : k ≠ k0) :
    Good path (.key k0 :: rel') (.obj ((k, v) :: m1)) (.obj ((k, v) :: m2)) d1 d2 := by
  obtain ⟨arel, hne, h1, h2, h3, h4, h5⟩ := h.obj_arel (by simp)
  obtain ⟨arel', rfl⟩ : ∃ arel', arel = .key k0 :: arel' := by
    cases arel with
    | nil => exact absurd rfl hne
    | cons s t =>
      have := List.cons_prefix_cons.mp h1
      exact ⟨t, by rw [this.1]⟩
  have hkk : (k == k0) = false := by simpa using hk
  refine ⟨.key k0 :: arel', h1, ?_, ?_, h4, h5⟩
  · intro r hr
    cases r with
    | nil => exact absurd (cmp_nil_right _) hr
    | cons s r' =>
      cases s with
      | idx i => rfl
      | key k' =>
        rw [getAt_obj_cons, getAt_obj_cons]
        split
        · rfl
        · exact h2 _ hr
  · rcases h3 with h3 | h3 | h3
    · exact Or.inl h3
    · exact Or.inr (Or.inl (by rw [getAt_obj_cons, hkk]; exact h3))
    · exact Or.inr (Or.inr (by rw [getAt_obj_cons, hkk]; exact h3))

/-- the entry on the way to `p` in front of identical remainders -/
theorem Good.obj_cons_div {path rel' : Path} {k0 : String} {v1 v2 : JVal} {m : List (String × JVal)} {d1 d2 : St}
    (h : Good (path ++ [.key k0]) rel' v1 v2 d1 d2) :
    Good path (.key k0 :: rel') (.obj ((k0, v1) :: m)) (.obj ((k0, v2) :: m)) d1 d2 := by
  obtain ⟨arel', h1, h2, h3, h4, h5⟩ := h
  refine ⟨.key k0 :: arel', List.cons_prefix_cons.mpr ⟨rfl, h1⟩, ?_, ?_, ?_, ?_⟩
  · intro r hr
    cases r with
    | nil => exact absurd (cmp_nil_right _) hr
    | cons s r' =>
      cases s with
      | idx i => rfl
      | key k' =>
        rw [getAt_obj_cons, getAt_obj_cons]
        split
        · rename_i hk
          have : k0 = k' := by simpa using hk
          subst this
          exact h2 r' (fun hc => hr ((cmp_cons_iff _ _ _).mpr hc))
        · rfl
  · rcases h3 with h3 | h3 | h3
    · exact Or.inl (by rw [h3])
    · exact Or.inr (Or.inl (by rw [getAt_obj_cons]; simpa using h3))
    · exact Or.inr (Or.inr (by rw [getAt_obj_cons]; simpa using h3))
  · simpa [List.append_assoc] using h4
  · simpa [List.append_assoc] using h5

theorem getElem?_append_cons_self {α : Type} (pre : List α) (y : α) (m : List α) :
    (pre ++ y :: m)[pre.length]? = some y := by
  rw [List.getElem?_append_right (Nat.le_refl _)]; simp

theorem getElem?_append_cons_ne {α : Type} (pre : List α) (y1 y2 : α) (m : List α) {n : Nat} (h : n ≠ pre.length) :
    (pre ++ y1 :: m)[n]? = (pre ++ y2 :: m)[n]? := by
  by_cases hlt : n < pre.length
  · rw [List.getElem?_append_left hlt, List.getElem?_append_left hlt]
  · have hle : pre.length ≤ n := by omega
    rw [List.getElem?_append_right hle, List.getElem?_append_right hle]
    obtain ⟨k, hk⟩ : ∃ k, n - pre.length = k + 1 := ⟨n - pre.length - 1, by omega⟩
    rw [hk]; simp

/-- the list item on the way to `p` between identical neighbours -/
theorem Good.list_div {pl rel' : Path} {i : Nat} {y1 y2 : JVal} {pre m : List JVal} {d1 d2 : St}
    (h : Good (pl ++ [.idx i]) rel' y1 y2 d1 d2) (hi : pre.length = i) :
    Good pl (.idx i :: rel') (.list (pre ++ y1 :: m)) (.list (pre ++ y2 :: m)) d1 d2 := by
  obtain ⟨arel', h1, h2, h3, h4, h5⟩ := h
  subst hi
  refine ⟨.idx pre.length :: arel', List.cons_prefix_cons.mpr ⟨rfl, h1⟩, ?_, ?_, ?_, ?_⟩
  · intro r hr
    cases r with
    | nil => exact absurd (cmp_nil_right _) hr
    | cons s r' =>
      cases s with
      | key k => rfl
      | idx n =>
        rw [getAt_list_idx, getAt_list_idx]
        by_cases hn : n = pre.length
        · subst hn
          rw [getElem?_append_cons_self, getElem?_append_cons_self]
          exact h2 r' (fun hc => hr ((cmp_cons_iff _ _ _).mpr hc))
        · rw [getElem?_append_cons_ne pre y1 y2 m hn]
  · rcases h3 with h3 | h3 | h3
    · exact Or.inl (by rw [h3])
    · exact Or.inr (Or.inl (by rw [getAt_list_idx, getElem?_append_cons_self]; exact h3))
    · exact Or.inr (Or.inr (by rw [getAt_list_idx, getElem?_append_cons_self]; exact h3))
  · simpa [List.append_assoc] using h4
  · simpa [List.append_assoc] using h5

end GqlModel.Exec
