import GqlProofs.Normalize
/-! C06 (normaliser), piece 1 of the end-to-end proof: `getVariableValues` on the user's definitions followed by
the synthetic ones, with `SynthArgs` merged over the client's variables, yields the client's coerced map extended by
the coerced client form of every extracted literal — or the same error. -/
set_option linter.unusedSimpArgs false
set_option linter.unusedVariables false
namespace GqlModel.Normalize
open GqlModel GqlModel.Coerce

theorem typeOfRef_typeRefOf (t : GType) : typeOfRef (typeRefOf t) = t := by
  induction t with
  | named n => rfl
  | list t ih => simp [typeRefOf, typeOfRef, ih]
  | nonNull t ih => simp [typeRefOf, typeOfRef, ih]

theorem getVariableValuesGo_append (s : Schema) (inputs : Vars) : ∀ (ds1 ds2 : List VarDef) (acc : Vars),
    getVariableValuesGo s inputs (ds1 ++ ds2) acc =
      match getVariableValuesGo s inputs ds1 acc with
      | .error e => .error e
      | .ok a => getVariableValuesGo s inputs ds2 a := by
  intro ds1
  induction ds1 with
  | nil => intro ds2 acc; rfl
  | cons d ds ih =>
    intro ds2 acc
    simp only [List.cons_append, getVariableValuesGo]
    cases getVariableValue s d (lookupD inputs d.var.value) with
    | error e => rfl
    | ok v => exact ih ds2 _

theorem getVariableValuesGo_congr_inputs (s : Schema) (in1 in2 : Vars) : ∀ (ds : List VarDef) (acc : Vars),
    (∀ d ∈ ds, lookupD in1 d.var.value = lookupD in2 d.var.value) →
    getVariableValuesGo s in1 ds acc = getVariableValuesGo s in2 ds acc := by
  intro ds
  induction ds with
  | nil => intro acc _; rfl
  | cons d ds ih =>
    intro acc h
    simp only [getVariableValuesGo]
    rw [h d List.mem_cons_self]
    cases getVariableValue s d (lookupD in2 d.var.value) with
    | error e => rfl
    | ok v => exact ih _ (fun d' hd' => h d' (List.mem_cons_of_mem _ hd'))

theorem lookupD_append_not_mem (a b : List (String × JVal)) (k : String) (h : ∀ p ∈ a, p.1 ≠ k) :
    lookupD (a ++ b) k = lookupD b k := by
  induction a with
  | nil => rfl
  | cons p ps ih =>
    have hne : (p.1 == k) = false := by simpa using h p List.mem_cons_self
    have := ih (fun q hq => h q (List.mem_cons_of_mem _ hq))
    simp only [lookupD, JVal.lookup, List.cons_append, List.find?, hne] at this ⊢
    exact this

theorem lookupD_append_mem (a b : List (String × JVal)) (k : String) (v : JVal)
    (hnd : (a.map (·.1)).Nodup) (hm : (k, v) ∈ a) : lookupD (a ++ b) k = v := by
  induction a with
  | nil => cases hm
  | cons p ps ih =>
    simp only [List.map_cons, List.nodup_cons] at hnd
    rcases List.mem_cons.mp hm with rfl | hm'
    · simp [lookupD, JVal.lookup, List.find?]
    · have hne : (p.1 == k) = false := by
        simp only [beq_eq_false_iff_ne, ne_eq]
        intro e
        exact hnd.1 (e ▸ List.mem_map.mpr ⟨(k, v), hm', rfl⟩)
      have := ih hnd.2 hm'
      simp only [lookupD, JVal.lookup, List.cons_append, List.find?, hne] at this ⊢
      exact this

/-- the coerced variable map of the normalised request: the client's map plus one entry per extracted literal -/
def extendVars (s : Schema) (es : List Entry) (acc : Vars) : Vars :=
  es.foldl (fun a e => JVal.insertSorted e.name (coerceValue s e.type (lti e.lit)) a) acc

theorem extendVars_eq (s : Schema) (es : List Entry) (acc : Vars) :
    extendVars s es acc =
      (es.map (fun e => (e.name, coerceValue s e.type (lti e.lit)))).foldl
        (fun a p => JVal.insertSorted p.1 p.2 a) acc := by
  unfold extendVars
  rw [List.foldl_map]

theorem getVariableValue_nodefault (s : Schema) (d : VarDef) (tr : TypeRef) (input : JVal)
    (ht : d.type = some tr) (hd : d.default = none) (hi : isInputType s (typeOfRef tr) = true)
    (hv : isValidInputValue s (typeOfRef tr) input = true) :
    getVariableValue s d input = .ok (coerceValue s (typeOfRef tr) input) := by
  unfold getVariableValue
  rw [ht]
  simp only [hi, hv, Bool.not_true, Bool.false_eq_true, if_false, if_true]
  rw [hd]
  cases input.isNull <;> rfl

theorem synthDefs_go (s : Schema) (inputs' : Vars) : ∀ (es : List Entry) (acc : Vars),
    (∀ e ∈ es, lookupD inputs' e.name = lti e.lit) →
    (∀ e ∈ es, isInputType s e.type = true ∧ isValidInputValue s e.type (lti e.lit) = true) →
    getVariableValuesGo s inputs' (es.map mkVarDef) acc = .ok (extendVars s es acc) := by
  intro es
  induction es with
  | nil => intro acc _ _; rfl
  | cons e es ih =>
    intro acc hin hok
    obtain ⟨h1, h2⟩ := hok e List.mem_cons_self
    have hv : getVariableValue s (mkVarDef e) (lookupD inputs' (mkVarDef e).var.value) =
        .ok (coerceValue s e.type (lti e.lit)) := by
      have : (mkVarDef e).var.value = e.name := rfl
      rw [this, hin e List.mem_cons_self]
      have := getVariableValue_nodefault s (mkVarDef e) (typeRefOf e.type) (lti e.lit) rfl rfl
        (by rw [typeOfRef_typeRefOf]; exact h1) (by rw [typeOfRef_typeRefOf]; exact h2)
      rw [typeOfRef_typeRefOf] at this
      exact this
    simp only [List.map_cons, getVariableValuesGo, hv]
    rw [ih _ (fun e' he' => hin e' (List.mem_cons_of_mem _ he')) (fun e' he' => hok e' (List.mem_cons_of_mem _ he'))]
    rfl

theorem lastVal_some_mem : ∀ (qs : List (String × JVal)) (k : String) (w : JVal),
    lastVal qs k = some w → k ∈ qs.map (·.1) := by
  intro qs
  induction qs with
  | nil => intro k w h; cases h
  | cons q qs ihq =>
    intro k w h
    simp only [lastVal] at h
    cases hq : lastVal qs k with
    | some w' => simp only [List.map_cons, List.mem_cons]; exact Or.inr (ihq k w' hq)
    | none =>
      rw [hq] at h
      by_cases hk : (q.1 == k) = true
      · simp only [List.map_cons, List.mem_cons]; exact Or.inl (beq_iff_eq.mp hk).symm
      · simp [hk] at h

theorem lastVal_of_nodup : ∀ (es : List (String × JVal)) (k : String) (v : JVal),
    (es.map (·.1)).Nodup → (k, v) ∈ es → lastVal es k = some v := by
  intro es
  induction es with
  | nil => intro k v _ h; cases h
  | cons p ps ih =>
    intro k v hnd hm
    simp only [List.map_cons, List.nodup_cons] at hnd
    simp only [lastVal]
    rcases List.mem_cons.mp hm with rfl | hm'
    · have : lastVal ps k = none := by
        cases hl : lastVal ps k with
        | none => rfl
        | some w => exact absurd (lastVal_some_mem ps k w hl) hnd.1
      simp [this]
    · rw [ih k v hnd.2 hm']

theorem lastVal_none_of_not_mem : ∀ (es : List (String × JVal)) (k : String),
    (∀ p ∈ es, p.1 ≠ k) → lastVal es k = none := by
  intro es
  induction es with
  | nil => intro k _; rfl
  | cons p ps ih =>
    intro k h
    have hne : (p.1 == k) = false := by simpa using h p List.mem_cons_self
    simp [lastVal, ih k (fun q hq => h q (List.mem_cons_of_mem _ hq)), hne]

/-- names other than the synthetic ones keep their value -/
theorem lookupD_extendVars_other (s : Schema) (es : List Entry) (acc : Vars) (x : String)
    (h : ∀ e ∈ es, e.name ≠ x) : lookupD (extendVars s es acc) x = lookupD acc x := by
  rw [extendVars_eq, lookupD_foldl, lastVal_none_of_not_mem]
  intro p hp
  obtain ⟨e, he, rfl⟩ := List.mem_map.mp hp
  exact h e he

/-- every synthetic variable holds the coerced client form of its literal -/
theorem realises_extendVars (s : Schema) (es : List Entry) (acc : Vars) (hnd : (es.map (·.name)).Nodup) :
    Realises s (extendVars s es acc) es := by
  intro e he
  rw [extendVars_eq, lookupD_foldl, lastVal_of_nodup _ e.name (coerceValue s e.type (lti e.lit))]
  · have : (es.map (fun e => (e.name, coerceValue s e.type (lti e.lit)))).map (·.1) = es.map (·.name) := by
      simp [List.map_map, Function.comp_def]
    rw [this]; exact hnd
  · exact List.mem_map.mpr ⟨e, he, rfl⟩

/-- **piece 1.** `getVariableValues` of the normalised operation on (SynthArgs over the client's variables): the
client's own result, extended by the synthetic variables — or the client's own error. -/
theorem getVariableValues_normalised (s : Schema) (vars : List VarDef) (es : List Entry) (inputs : Vars)
    (hfresh : ∀ e ∈ es, e.name ∉ userVarNames vars) (hnd : (es.map (·.name)).Nodup)
    (hok : ∀ e ∈ es, isInputType s e.type = true ∧ isValidInputValue s e.type (lti e.lit) = true) :
    getVariableValues s (vars ++ es.map mkVarDef) (es.map (fun e => (e.name, lti e.lit)) ++ inputs) =
      match getVariableValues s vars inputs with
      | .error e => .error e
      | .ok v => .ok (extendVars s es v) := by
  unfold getVariableValues
  rw [getVariableValuesGo_append]
  have hsame : getVariableValuesGo s (es.map (fun e => (e.name, lti e.lit)) ++ inputs) vars [] =
      getVariableValuesGo s inputs vars [] := by
    apply getVariableValuesGo_congr_inputs
    intro d hd
    apply lookupD_append_not_mem
    intro p hp
    obtain ⟨e, he, rfl⟩ := List.mem_map.mp hp
    intro heq
    have heq' : e.name = d.var.value := heq
    apply hfresh e he
    rw [heq']
    exact List.mem_map.mpr ⟨d, hd, rfl⟩
  rw [hsame]
  cases getVariableValuesGo s inputs vars [] with
  | error e => rfl
  | ok v =>
    simp only []
    apply synthDefs_go
    · intro e he
      apply lookupD_append_mem
      · have : (es.map (fun e => (e.name, lti e.lit))).map (·.1) = es.map (·.name) := by
          simp [List.map_map, Function.comp_def]
        rw [this]; exact hnd
      · exact List.mem_map.mpr ⟨e, he, rfl⟩
    · exact hok

end GqlModel.Normalize
