import GqlModel.Serial
import GqlProofs.ExecLog
/-! C13 helper lemmas: from the log-shape invariant (`Blocks`) to `SerialBlocks`, and — with pairwise distinct keys — to the
decomposition by first path segment. -/
namespace GqlModel.Exec

theorem serialBlocks_of_blocks : ∀ {ks : List String} {log : List LogEntry}, Blocks [] ks log → SerialBlocks ks log
  | [], _, h => h
  | k :: ks, _, h => by
    obtain ⟨b, rest, rfl, hb, -, hr⟩ := h
    refine ⟨b, rest, rfl, ?_, serialBlocks_of_blocks hr⟩
    intro e he
    obtain ⟨t, ht⟩ := hb e he
    simp only [underTop, ← ht, List.nil_append, List.singleton_append, List.head?_cons, beq_self_eq_true]

theorem SerialBlocks.mem : ∀ {ks : List String} {log : List LogEntry}, SerialBlocks ks log →
    ∀ e, e ∈ log → ∃ k, k ∈ ks ∧ underTop k e = true
  | [], log, h, e, he => by simp only [SerialBlocks] at h; subst h; cases he
  | k :: ks, log, h, e, he => by
    obtain ⟨b, rest, rfl, hb, hr⟩ := h
    rcases List.mem_append.mp he with he | he
    · exact ⟨k, List.mem_cons_self, hb e he⟩
    · obtain ⟨k', hk', hp⟩ := SerialBlocks.mem hr e he
      exact ⟨k', List.mem_cons_of_mem _ hk', hp⟩

theorem underTop_unique {k k' : String} {e : LogEntry} (h : underTop k e = true) (h' : underTop k' e = true) : k = k' := by
  simp only [underTop, beq_iff_eq] at h h'
  rw [h] at h'
  simpa using h'

/-- with pairwise distinct keys the decomposition is the one by first path segment -/
theorem SerialBlocks.eq_flatten : ∀ {ks : List String} {log : List LogEntry}, SerialBlocks ks log → ks.Nodup →
    log = (blocksOf ks log).flatten
  | [], log, h, _ => by simp only [SerialBlocks] at h; subst h; rfl
  | k :: ks, log, h, hn => by
    obtain ⟨b, rest, rfl, hb, hr⟩ := h
    rw [List.nodup_cons] at hn
    have ih := SerialBlocks.eq_flatten hr hn.2
    have h1 : blockOf (b ++ rest) k = b := by
      simp only [blockOf, List.filter_append]
      have : rest.filter (underTop k) = [] := by
        rw [List.filter_eq_nil_iff]
        intro e he hk
        obtain ⟨k', hk', hp⟩ := hr.mem e he
        exact hn.1 (underTop_unique hk hp ▸ hk')
      rw [this, List.append_nil, List.filter_eq_self]
      exact hb
    have h2 : ∀ k', k' ∈ ks → blockOf (b ++ rest) k' = blockOf rest k' := by
      intro k' hk'
      simp only [blockOf, List.filter_append]
      have : b.filter (underTop k') = [] := by
        rw [List.filter_eq_nil_iff]
        intro e he hk
        exact hn.1 (underTop_unique (hb e he) hk ▸ hk')
      rw [this, List.nil_append]
    simp only [blocksOf, List.map_cons, List.flatten_cons, h1]
    congr 1
    rw [List.map_congr_left h2]
    exact ih

end GqlModel.Exec
