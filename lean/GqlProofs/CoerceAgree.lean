import GqlProofs.CoerceNum
import GqlProofs.CoerceFuel
/-! C05: a conformant value written as a literal evaluates (valueFromAST) to what the value coerces to (coerceValue). -/
set_option linter.unusedSimpArgs false
namespace GqlModel.Coerce
open Spec

def isVarLit : Value → Bool
  | .var _ _ => true
  | _ => false
def isListLit : Value → Bool
  | .list _ _ => true
  | _ => false
def isListVal : JVal → Bool
  | .list _ => true
  | _ => false

theorem coerceStep_null (s : Schema) (self : GType → JVal → JVal) (t : GType) : coerceStep s self t .null = .null := by
  induction t with
  | named n => simp [coerceStep, JVal.isNull]
  | list t ih => simp [coerceStep]
  | nonNull t ih => simp [coerceStep, JVal.isNull]

theorem fromASTStep_none (s : Schema) (vars : Vars) (self : GType → Option Value → JVal) (t : GType) :
    fromASTStep s vars self t none = .null := by
  cases t <;> simp [fromASTStep]

theorem embedStep_null (s : Schema) (self : GType → JVal → Option Value) (t : GType) : embedStep s self t .null = none := by
  induction t with
  | named n => simp [embedStep, JVal.isNull]
  | list t ih => simp [embedStep]
  | nonNull t ih => simpa [embedStep] using ih

theorem fromASTStep_nonNull_some (s : Schema) (vars : Vars) (self : GType → Option Value → JVal) (t : GType)
    (l : Value) (h : isVarLit l = false) :
    fromASTStep s vars self (.nonNull t) (some l) = fromASTStep s vars self t (some l) := by
  cases l <;> simp_all [fromASTStep, isVarLit]

theorem fromASTStep_list_one (s : Schema) (vars : Vars) (self : GType → Option Value → JVal) (t : GType)
    (l : Value) (h : isVarLit l = false) (h' : isListLit l = false) :
    fromASTStep s vars self (.list t) (some l) = .list [fromASTStep s vars self t (some l)] := by
  cases l <;> simp_all [fromASTStep, isVarLit, isListLit]

theorem filterMap_map_eq {α β γ : Type} (e : α → Option β) (h : β → γ) (c : α → γ) (xs : List α)
    (H : ∀ x ∈ xs, ∃ l, e x = some l ∧ h l = c x) : (xs.filterMap e).map h = xs.map c := by
  induction xs with
  | nil => rfl
  | cons x xs ih =>
    obtain ⟨l, hl, hh⟩ := H x (by simp)
    simp [List.filterMap_cons, hl, hh, ih (fun y hy => H y (by simp [hy]))]

/-- scalars: the literal form reads back as the value parses -/
theorem scalar_embed (k : ScalarKind) (v : JVal)
    (hc : ∀ sv pv pl, k = .custom sv pv pl →
      (∀ i, tableLookup pl (.int i) = tableLookup pv (.int i)) ∧
      (∀ x, tableLookup pl (.str x) = tableLookup pv (.str x)) ∧
      (∀ b, tableLookup pl (.bool b) = tableLookup pv (.bool b)))
    (h : conformScalar k v = true) :
    ∃ l, embedScalar k v = some l ∧ parseLiteral k l = parseValue k v ∧ isVarLit l = false ∧ isListLit l = false := by
  cases k with
  | int =>
    cases v <;> simp_all [conformScalar, embedScalar, parseLiteral, parseValue, coerceInt, isVarLit, isListLit,
      intString, intOfChars_intChars]
  | float =>
    cases v <;> simp_all [conformScalar, embedScalar, parseLiteral, parseValue, coerceFloat, isVarLit, isListLit,
      intString, parseFloatLit_intChars]
    rename_i m e
    simp [parseFloatLit_decChars m e h.1 h.2]
  | string => cases v <;> simp_all [conformScalar, embedScalar, parseLiteral, parseValue, fmtV, isVarLit, isListLit]
  | boolean => cases v <;> simp_all [conformScalar, embedScalar, parseLiteral, parseValue, coerceBool, isVarLit, isListLit]
  | id => cases v <;> simp_all [conformScalar, embedScalar, parseLiteral, parseValue, fmtV, isVarLit, isListLit]
  | custom sv pv pl =>
    obtain ⟨h1, h2, h3⟩ := hc sv pv pl rfl
    cases v <;> simp_all [conformScalar, embedScalar, parseLiteral, parseValue, litWire, isVarLit, isListLit,
      intString, intOfChars_intChars]
    rename_i b; cases b <;> simp [h3]


def customOK (s : Schema) (n : String) : Prop :=
  ∀ n' sv pv pl d, s.find? n = some (.scalar n' (.custom sv pv pl) d) →
    (∀ i, tableLookup pl (.int i) = tableLookup pv (.int i)) ∧
    (∀ x, tableLookup pl (.str x) = tableLookup pv (.str x)) ∧
    (∀ b, tableLookup pl (.bool b) = tableLookup pv (.bool b))

/-- a non-null conformant value has a literal form, which is no variable and is a list literal only for lists -/
theorem embed_some (s : Schema) (hc : customCoherent s) (selfK : GType → JVal → Bool) (selfE : GType → JVal → Option Value) :
    ∀ t v, conformStep s selfK t v = true → v.isNull = false →
      ∃ l, embedStep s selfE t v = some l ∧ isVarLit l = false ∧ (isListLit l = true → isListVal v = true) := by
  intro t
  induction t with
  | nonNull t ih =>
    intro v hk hv
    simp only [conformStep, Bool.and_eq_true] at hk
    simpa only [embedStep] using ih v hk.2 hv
  | list t ih =>
    intro v hk hv
    cases v with
    | null => simp [JVal.isNull] at hv
    | list xs => exact ⟨.list (xs.filterMap (embedStep s selfE t)) Loc.none, by simp only [embedStep], rfl, fun _ => rfl⟩
    | _ =>
      simp only [conformStep] at hk
      obtain ⟨l, h1, h2, h3⟩ := ih _ hk hv
      exact ⟨l, by simpa only [embedStep] using h1, h2, fun h => by simpa [isListVal] using h3 h⟩
  | named n =>
    intro v hk hv
    simp only [conformStep, embedStep, hv, Bool.false_eq_true, if_false] at hk ⊢
    cases hf : s.find? n with
    | none => simp [hf] at hk
    | some td =>
      cases td with
      | scalar nm k d =>
        simp only [hf] at hk ⊢
        obtain ⟨l, h1, _, h3, h4⟩ := scalar_embed k v (fun sv pv pl hkk => hc n nm sv pv pl d (hkk ▸ hf)) hk
        exact ⟨l, h1, h3, fun h => by rw [h4] at h; cases h⟩
      | enum nm vals d =>
        simp only [hf] at hk ⊢
        cases v <;> simp_all [isVarLit, isListLit]
      | inputObject nm fields d =>
        simp only [hf] at hk ⊢
        cases v <;> simp_all [isVarLit, isListLit]
      | _ => simp [hf] at hk

theorem litLookup_not_mem (fields : List InputFieldS) (g : InputFieldS → Option Value) (k : String)
    (h : k ∉ fields.map (·.name)) :
    litLookup (fields.filterMap (fun f => (g f).map (fun l => ObjField.mk ⟨f.name, Loc.none⟩ l Loc.none))) k = none := by
  induction fields with
  | nil => rfl
  | cons f fs ih =>
    simp only [List.map_cons, List.mem_cons, not_or] at h
    have ih' := ih h.2
    cases hg : g f with
    | none => simpa [List.filterMap_cons, hg] using ih'
    | some l =>
      simp only [List.filterMap_cons, hg, Option.map_some, litLookup, ih', ObjField.name, ObjField.value]
      have : (f.name == k) = false := by simpa using fun e => h.1 e.symm
      simp [this]

theorem litLookup_embed (fields : List InputFieldS) (g : InputFieldS → Option Value)
    (hnd : (fields.map (·.name)).Nodup) (f : InputFieldS) (hf : f ∈ fields) :
    litLookup (fields.filterMap (fun f => (g f).map (fun l => ObjField.mk ⟨f.name, Loc.none⟩ l Loc.none))) f.name = g f := by
  induction fields with
  | nil => cases hf
  | cons f0 fs ih =>
    simp only [List.map_cons, List.nodup_cons] at hnd
    rcases List.mem_cons.mp hf with rfl | hmem
    · have hnone := litLookup_not_mem fs g f.name hnd.1
      cases hg : g f with
      | none => simpa [List.filterMap_cons, hg] using hnone
      | some l => simp [List.filterMap_cons, hg, litLookup, hnone, ObjField.name, ObjField.value]
    · have ih' := ih hnd.2 hmem
      have hne : (f0.name == f.name) = false := by
        simp only [beq_eq_false_iff_ne, ne_eq]
        intro e
        exact hnd.1 (e ▸ List.mem_map.mpr ⟨f, hmem, rfl⟩)
      cases hg : g f0 with
      | none => simpa [List.filterMap_cons, hg] using ih'
      | some l =>
        simp only [List.filterMap_cons, hg, Option.map_some, litLookup, ih', ObjField.name, ObjField.value, hne]
        cases g f <;> simp

theorem agreeStep (s : Schema) (vars : Vars) (hwf : inputFieldsNodup s) (hc : customCoherent s)
    (selfK : GType → JVal → Bool) (selfE : GType → JVal → Option Value)
    (selfA : GType → Option Value → JVal) (selfC : GType → JVal → JVal)
    (ih : ∀ t v, selfK t v = true → selfA t (selfE t v) = selfC t v) :
    ∀ t v, conformStep s selfK t v = true →
      fromASTStep s vars selfA t (embedStep s selfE t v) = coerceStep s selfC t v := by
  intro t
  induction t with
  | nonNull t iht =>
    intro v hk
    have hk' := hk
    simp only [conformStep, Bool.and_eq_true, Bool.not_eq_true'] at hk'
    obtain ⟨l, hl, hnv, _⟩ := embed_some s hc selfK selfE t v hk'.2 hk'.1
    simp only [embedStep, coerceStep, hk'.1, Bool.false_eq_true, if_false]
    rw [hl, fromASTStep_nonNull_some _ _ _ _ _ hnv, ← hl]
    exact iht v hk'.2
  | list t iht =>
    intro v hk
    cases v with
    | null => simp [embedStep, fromASTStep, coerceStep]
    | list xs =>
      simp only [conformStep, List.all_eq_true, Bool.and_eq_true, Bool.not_eq_true'] at hk
      simp only [embedStep, fromASTStep, coerceStep]
      congr 1
      apply filterMap_map_eq
      intro x hx
      obtain ⟨l, hl, _, _⟩ := embed_some s hc selfK selfE t x (hk x hx).2 (hk x hx).1
      exact ⟨l, hl, by rw [← hl]; exact iht x (hk x hx).2⟩
    | _ =>
      simp only [conformStep] at hk
      obtain ⟨l, hl, hnv, hnl⟩ := embed_some s hc selfK selfE t _ hk rfl
      have hnl' : isListLit l = false := by
        cases h : isListLit l
        · rfl
        · have := hnl h; simp [isListVal] at this
      simp only [embedStep, coerceStep]
      rw [hl, fromASTStep_list_one _ _ _ _ _ hnv hnl', ← hl, iht _ hk]
  | named n =>
    intro v hk
    by_cases hv : v.isNull = true
    · cases v <;> simp_all [JVal.isNull, embedStep, fromASTStep, coerceStep]
    · have hv' : v.isNull = false := by simpa using hv
      simp only [conformStep, embedStep, coerceStep, hv', Bool.false_eq_true, if_false] at hk ⊢
      cases hf : s.find? n with
      | none => simp [hf] at hk
      | some td =>
        cases td with
        | scalar nm k d =>
          simp only [hf] at hk ⊢
          obtain ⟨l, h1, h2, h3, _⟩ := scalar_embed k v (fun sv pv pl hkk => hc n nm sv pv pl d (hkk ▸ hf)) hk
          rw [h1]
          cases l <;> simp_all [fromASTStep, isVarLit]
        | enum nm vals d =>
          simp only [hf] at hk ⊢
          cases v <;> simp_all [fromASTStep, enumParseLiteral, enumParseValue]
        | inputObject nm fields d =>
          simp only [hf] at hk ⊢
          cases v with
          | obj kv =>
            simp only [Bool.and_eq_true, List.all_eq_true] at hk
            simp only [fromASTStep, hf]
            congr 2
            apply filterMap_congr'
            intro f hfm
            rw [litLookup_embed fields (fun f => selfE f.type (lookupD kv f.name)) (hwf n nm fields d hf) f hfm]
            rw [ih _ _ (hk.2 f hfm)]
          | _ => simp at hk
        | _ => simp [hf] at hk


/-! ## depth of the literal form, fuel induction, fuel-free statement -/

theorem litDepthList_filterMap_le (e : JVal → Option Value) (xs : List JVal)
    (h : ∀ x ∈ xs, optLitDepth (e x) ≤ odepth x) : litDepthList (xs.filterMap e) ≤ odepthList xs := by
  induction xs with
  | nil => simp [litDepthList, odepthList]
  | cons x xs ih =>
    have hx := h x (by simp)
    have ih' := ih (fun y hy => h y (by simp [hy]))
    simp only [odepthList]
    cases he : e x with
    | none => simp only [List.filterMap_cons, he]; omega
    | some l =>
      simp only [List.filterMap_cons, he, litDepthList]
      rw [he] at hx; simp only [optLitDepth] at hx
      omega

theorem litDepthFields_filterMap_le (g : InputFieldS → Option Value) (fields : List InputFieldS) (D : Nat)
    (h : ∀ f ∈ fields, optLitDepth (g f) ≤ D) :
    litDepthFields (fields.filterMap (fun f => (g f).map (fun l => ObjField.mk ⟨f.name, Loc.none⟩ l Loc.none))) ≤ D := by
  induction fields with
  | nil => simp [litDepthFields]
  | cons f fs ih =>
    have hf := h f (by simp)
    have ih' := ih (fun y hy => h y (by simp [hy]))
    cases hg : g f with
    | none => simpa only [List.filterMap_cons, hg, Option.map_none] using ih'
    | some l =>
      simp only [List.filterMap_cons, hg, Option.map_some, litDepthFields]
      rw [hg] at hf; simp only [optLitDepth] at hf
      omega

theorem embedScalar_depth (k : ScalarKind) (v : JVal) : optLitDepth (embedScalar k v) = 0 := by
  cases k <;> cases v <;> simp [embedScalar, optLitDepth, litDepth]

theorem embedStep_depth (s : Schema) (selfE : GType → JVal → Option Value)
    (h : ∀ t v, optLitDepth (selfE t v) ≤ odepth v) :
    ∀ t v, optLitDepth (embedStep s selfE t v) ≤ odepth v := by
  intro t
  induction t with
  | nonNull t ih => intro v; simpa only [embedStep] using ih v
  | list t ih =>
    intro v
    cases v with
    | null => simp [embedStep, optLitDepth]
    | list xs =>
      simp only [embedStep, optLitDepth, litDepth, odepth]
      exact litDepthList_filterMap_le _ xs (fun x _ => ih x)
    | _ => simpa only [embedStep] using ih _
  | named n =>
    intro v
    simp only [embedStep]
    split
    · simp [optLitDepth]
    · cases hf : s.find? n with
      | none => simp [optLitDepth]
      | some td =>
        cases td with
        | scalar nm k d => simp [embedScalar_depth]
        | enum nm vals d => cases v <;> simp [optLitDepth, litDepth]
        | inputObject nm fields d =>
          cases v with
          | obj kv =>
            simp only [optLitDepth, litDepth, odepth]
            apply Nat.succ_le_succ
            exact litDepthFields_filterMap_le _ fields _
              (fun f _ => Nat.le_trans (h f.type (lookupD kv f.name)) (odepth_lookupD kv f.name))
          | _ => simp [optLitDepth]
        | _ => simp [optLitDepth]

theorem embedF_depth (s : Schema) : ∀ (n : Nat) (t : GType) (v : JVal), optLitDepth (embedF s n t v) ≤ odepth v := by
  intro n
  induction n with
  | zero => intro t v; simp [embedF, iter, optLitDepth]
  | succ n ih => intro t v; exact embedStep_depth s _ ih t v

theorem agreeF (s : Schema) (vars : Vars) (hwf : inputFieldsNodup s) (hc : customCoherent s) :
    ∀ (n : Nat) (t : GType) (v : JVal), conformantF s n t v = true →
      valueFromASTF s vars n t (embedF s n t v) = coerceValueF s n t v := by
  intro n
  induction n with
  | zero => intro t v h; simp [conformantF, iter] at h
  | succ n ih => intro t v h; exact agreeStep s vars hwf hc _ _ _ _ ih t v h

theorem literal_variable_agree' (s : Schema) (hwf : inputFieldsNodup s) (hc : customCoherent s)
    (t : GType) (v : JVal) (vars : Vars) (h : conformant s t v = true) :
    valueFromAST s t (embed s t v) vars = coerceValue s t v := by
  have h1 := agreeF s vars hwf hc (odepth v + 1) t v h
  have hd : optLitDepth (embed s t v) < odepth v + 1 := Nat.lt_succ_of_le (embedF_depth s _ t v)
  rw [← valueFromASTF_stable s vars (odepth v + 1) t (embed s t v) hd]
  exact h1

/-! ## conformant values are strictly typed and valid -/

theorem conformScalar_strict_valid (k : ScalarKind) (v : JVal) (h : conformScalar k v = true) :
    strictScalar k v = true ∧ (parseValue k v).isNull = false := by
  cases k <;> cases v <;>
    simp_all [conformScalar, strictScalar, parseValue, coerceInt, coerceFloat, coerceBool, JVal.isNull]

theorem enum_name_valid (vals : List EnumValueS) (x : String) (h : vals.any (fun ev => ev.name == x) = true) :
    (enumParseValue vals (.str x)).isNull = false := by
  simp only [enumParseValue, enumByName_isNull]
  cases hf : vals.find? (fun ev => ev.name == x) with
  | some ev => rfl
  | none =>
    rw [List.find?_eq_none] at hf
    simp only [List.any_eq_true] at h
    obtain ⟨ev, hm, he⟩ := h
    exact absurd he (hf ev hm)

theorem conform_strict_valid_step (s : Schema) (selfK selfT selfV : GType → JVal → Bool)
    (ih : ∀ t v, selfK t v = true → selfT t v = true ∧ selfV t v = true) :
    ∀ t v, conformStep s selfK t v = true → strictStep s selfT t v = true ∧ validStep s selfV t v = true := by
  intro t
  induction t with
  | nonNull t iht =>
    intro v hk
    simp only [conformStep, Bool.and_eq_true, Bool.not_eq_true'] at hk
    simp only [strictStep, validStep, hk.1, Bool.false_eq_true, if_false]
    exact iht v hk.2
  | list t iht =>
    intro v hk
    cases v with
    | null => simp [strictStep, validStep]
    | list xs =>
      simp only [conformStep, List.all_eq_true, Bool.and_eq_true] at hk
      simp only [strictStep, validStep, List.all_eq_true]
      exact ⟨fun x hx => (iht x (hk x hx).2).1, fun x hx => (iht x (hk x hx).2).2⟩
    | _ =>
      simp only [conformStep] at hk
      simpa only [strictStep, validStep] using iht _ hk
  | named n =>
    intro v hk
    by_cases hv : v.isNull = true
    · simp [strictStep, validStep, hv]
    · simp only [conformStep, strictStep, validStep, hv, Bool.false_eq_true, if_false] at hk ⊢
      cases hf : s.find? n with
      | none => simp [hf] at hk
      | some td =>
        cases td with
        | scalar nm k d =>
          simp only [hf] at hk ⊢
          have := conformScalar_strict_valid k v hk
          simp [this.1, this.2]
        | enum nm vals d =>
          simp only [hf] at hk ⊢
          cases v <;> simp_all
          rename_i x
          exact enum_name_valid vals x (by simpa using hk)
        | inputObject nm fields d =>
          simp only [hf] at hk ⊢
          cases v with
          | obj kv =>
            simp only [Bool.and_eq_true, List.all_eq_true] at hk ⊢
            exact ⟨fun f hfm => (ih _ _ (hk.2 f hfm)).1, hk.1, fun f hfm => (ih _ _ (hk.2 f hfm)).2⟩
          | _ => simp at hk
        | _ => simp [hf] at hk

theorem conformant_strict_valid (s : Schema) (t : GType) (v : JVal) (h : conformant s t v = true) :
    strictlyTyped s v t = true ∧ isValidInputValue s t v = true := by
  have : ∀ (n : Nat) (t : GType) (v : JVal), conformantF s n t v = true →
      strictlyTypedF s n t v = true ∧ isValidInputValueF s n t v = true := by
    intro n
    induction n with
    | zero => intro t v h; simp [conformantF, iter] at h
    | succ n ih => intro t v h; exact conform_strict_valid_step s _ _ _ ih t v h
  exact this _ t v h

end GqlModel.Coerce
