import GqlProofs.PlanExec2
import GqlProofs.ExecBasic
/-! # `Plan.run` (PlanQuery + ExecutePlan) against `Exec.execute`, worlds without func values: the request level -/
namespace GqlModel.Plan
open GqlModel.Exec GqlModel.Coerce

/-- the two responses agree: same class; same data (M's tree read as a JSON value); the same errors in the same order; M's events
are exactly the algorithm's resolver invocations, in order. Request-error TEXTS are not compared. -/
inductive RespEq : Response → MResponse → Prop
  | reqErr (a b : String) : RespEq (.requestError a) (.requestError b)
  | data {fs : List (String × JVal)} {pfs : List (String × PVal)} {errs : List (Path × Bool)} {log : List LogEntry}
      {kf : List Path} : PVal.fieldsToJ? pfs = some fs →
      RespEq (.result (some fs) errs log kf) (.result (some pfs) errs (log.map Event.call))
  | nodata {errs : List (Path × Bool)} {log : List LogEntry} {kf : List Path} :
      RespEq (.result none errs log kf) (.result none errs (log.map Event.call))

/-! ## `docDynamic = false`: every directive of the operation and of every fragment is variable-free -/

theorem go_mem (opName : String) : ∀ (defs : List Definition) (cur : Option Definition) (d : Definition),
    selectOperation.go opName defs cur = .ok (some d) → d ∈ defs ∨ cur = some d
  | [], cur, d, h => by simp only [selectOperation.go, Except.ok.injEq] at h; exact .inr h
  | x :: rest, cur, d, h => by
    cases x with
    | operation op name vars dirs sel loc =>
      simp only [selectOperation.go] at h
      split at h
      · cases h
      · split at h
        · rcases go_mem opName rest _ d h with hm | hm
          · exact .inl (List.mem_cons_of_mem _ hm)
          · simp only [Option.some.injEq] at hm; subst hm; exact .inl List.mem_cons_self
        · rcases go_mem opName rest _ d h with hm | hm
          · exact .inl (List.mem_cons_of_mem _ hm)
          · exact .inr hm
    | fragment name tc dirs sel loc =>
      simp only [selectOperation.go] at h
      rcases go_mem opName rest _ d h with hm | hm
      · exact .inl (List.mem_cons_of_mem _ hm)
      · exact .inr hm
    | _ => simp [selectOperation.go] at h

theorem selectOperation_mem {doc : Document} {opName : String} {d : Definition} (h : selectOperation doc opName = .ok d) :
    d ∈ doc.defs := by
  unfold selectOperation at h
  cases hg : selectOperation.go opName doc.defs none with
  | error e => simp [hg] at h
  | ok o =>
    cases o with
    | none => simp [hg] at h
    | some d' =>
      simp only [hg, Except.ok.injEq] at h
      subst h
      rcases go_mem opName doc.defs none d' hg with hm | hm
      · exact hm
      · cases hm

theorem static_of_docDynamic_op {doc : Document} (hd : docDynamic doc = false) {op : OpType} {name : Option Name}
    {vars : List VarDef} {dirs : List Directive} {sel : SelectionSet} {loc : Loc}
    (hm : Definition.operation op name vars dirs sel loc ∈ doc.defs) : setDynamic sel = false := by
  unfold docDynamic at hd
  have := List.any_eq_false.1 hd _ hm
  simpa using this

theorem static_of_docDynamic_frag {doc : Document} (hd : docDynamic doc = false) {n : String} {tc : TypeRef}
    {sel : SelectionSet} (hf : fragOf doc.fragments n = some (tc, sel)) : setDynamic sel = false := by
  unfold fragOf at hf
  cases hl : (doc.fragments.filter (fun p => p.1 == n)).getLast? with
  | none => simp [hl] at hf
  | some e =>
    obtain ⟨k, d⟩ := e
    have hm : (k, d) ∈ doc.fragments := (List.mem_filter.1 (List.mem_of_getLast? hl)).1
    unfold Document.fragments at hm
    obtain ⟨d0, hd0, hmap⟩ := List.mem_filterMap.1 hm
    cases d0 with
    | fragment nm tc0 ds ss l =>
      simp only [Option.some.injEq, Prod.mk.injEq] at hmap
      obtain ⟨_, rfl⟩ := hmap
      simp only [hl, Option.some.injEq, Prod.mk.injEq] at hf
      obtain ⟨_, rfl⟩ := hf
      unfold docDynamic at hd
      have := List.any_eq_false.1 hd _ hd0
      simpa using this
    | _ => simp at hmap

/-! ## the request level -/

theorem memoValid_nil (p : Plan) : p.MemoValid [] := fun _ h => by cases h

theorem run_eq_ref (s : Schema) (doc : Document) (opName : String) (inputs : Vars) (w : World) (fuel : Nat) (p : Plan)
    (hp : planQuery s doc opName = .ok p) : run s doc opName inputs w fuel = executePlanRef p inputs w fuel := by
  have hr : KeysNodup p.root := by
    unfold planQuery at hp
    split at hp
    · cases hp
    · split at hp
      · cases hp
      · simp only [Except.ok.injEq] at hp
        subst hp
        simp only
        split
        · exact List.nodup_nil
        · exact keysNodup_planSelectionSet _ _ _ _ _
    · cases hp
  unfold run
  rw [hp]
  simp only [executePlan]
  exact (executePlanCore_eq_ref p hr inputs w [] (memoValid_nil p) fuel).1

/-- the walk of a plan whose root was collected in the right regime, against the algorithm's walk of the root groups -/
theorem runPlan_corr {c : Ctx} {pv : Option Vars} {rank : String → Nat} (hw : worldFuncFree c.world = true)
    (hac : Acyclic c.frags rank) (hfr : FragsOK c pv) (q : Plan) (_hpv : q.planVars = pv) (sel : SelectionSet)
    (hroot : q.root = planSelectionSet c.schema c.frags pv q.rootType sel) (hreg : Regime pv c.vars (setDynamic sel))
    (fuel : Nat) :
    let x := execGroups c fuel false q.rootType .nil [] (collect c q.rootType sel ([], [])).1 [] St.empty
    let y := runPlan c (recompute c.schema c.frags pv) q fuel { errs := [], events := [], memo := [] }
    y.1 = .fuelOut ∨ Corr (fun fs pfs => PVal.fieldsToJ? pfs = some fs) x y := by
  intro x y
  obtain ⟨hgo, hfps⟩ := planSelectionSet_sim (rt := q.rootType) hac hfr sel hreg
  have h0 : SRel St.empty { errs := [], events := [], memo := [] } := ⟨rfl, rfl⟩
  show (runPlan c (recompute c.schema c.frags pv) q fuel { errs := [], events := [], memo := [] }).1 = .fuelOut ∨
    Corr (fun fs pfs => PVal.fieldsToJ? pfs = some fs)
      (execGroups c fuel false q.rootType .nil [] (collect c q.rootType sel ([], [])).1 [] St.empty)
      (runPlan c (recompute c.schema c.frags pv) q fuel { errs := [], events := [], memo := [] })
  rw [← hgo, ← hroot]
  rw [← hroot] at hfps
  unfold runPlan
  by_cases hmut : q.isMutation = true
  · simp only [hmut, if_true]
    rcases mRootMut_corr hw hac hfr fuel q.rootType fuel q.root [] [] St.empty _ hfps rfl h0 with h1 | h1
    · left
      generalize mRootMut c (recompute c.schema c.frags pv) fuel fuel q.rootType q.root [] _ = z at h1 ⊢
      obtain ⟨r, st⟩ := z
      simp only at h1
      subst h1
      rfl
    · generalize mRootMut c (recompute c.schema c.frags pv) fuel fuel q.rootType q.root [] _ = z at h1 ⊢
      generalize execGroups c fuel false q.rootType .nil [] (groupsOf q.root) [] St.empty = zS at h1 ⊢
      obtain ⟨r, st⟩ := z
      obtain ⟨rS, stS⟩ := zS
      obtain ⟨hr, hst⟩ := h1
      simp only at hr hst
      cases hr with
      | @ok fs pfs hab =>
        simp only
        have hnd : ∀ p ∈ pfs, NoDef p.2 := allCl_obj.1 (noDef_of_toJ? (.obj pfs) (.obj fs) (toJ?_obj hab))
        rcases (dfsId (frc := forceAll c (recompute c.schema c.frags pv) fuel) fuel).fields (sortedKeys pfs) pfs st hnd
          with h2 | h2 <;> rw [h2]
        · exact .inl rfl
        · exact .inr (corr_ok hst hab)
      | fail => exact .inr (corr_fail hst)
      | fuelOut => exact .inl rfl
  · simp only [hmut, Bool.false_eq_true, if_false]
    have hg := (execP hw hac hfr fuel).groups false q.rootType .nil [] [] q.root [] [] St.empty _ hfps rfl h0
    generalize mGroups c (recompute c.schema c.frags pv) fuel false q.rootType .nil [] [] q.root [] _ = z at hg ⊢
    generalize execGroups c fuel false q.rootType .nil [] (groupsOf q.root) [] St.empty = zS at hg ⊢
    obtain ⟨r, st⟩ := z
    obtain ⟨rS, stS⟩ := zS
    obtain ⟨hr, hst⟩ := hg
    simp only at hr hst
    cases hr with
    | @ok fs pfs hab =>
      simp only
      have hnd : NoDef (.obj pfs) := noDef_of_toJ? (.obj pfs) (.obj fs) (toJ?_obj hab)
      rcases bfsLoop_noDef (frc := forceAll c (recompute c.schema c.frags pv) fuel) fuel (.obj pfs) [[]] st hnd with h2 | h2 <;>
        rw [h2]
      · exact .inl rfl
      · exact .inr (corr_ok hst hab)
    | fail => exact .inr (corr_fail hst)
    | fuelOut => exact .inl rfl

theorem respEq_of_corr {x : Res (List (String × JVal)) × St} {y : Res (List (String × PVal)) × MSt}
    (h : Corr (fun fs pfs => PVal.fieldsToJ? pfs = some fs) x y) (hy : y.1 ≠ .fuelOut) :
    RespEq (respond x) (MResponse.of y) := by
  obtain ⟨rS, stS⟩ := x
  obtain ⟨rM, stM⟩ := y
  obtain ⟨hr, hst⟩ := h
  simp only at hr hst hy
  obtain ⟨he, hev⟩ := hst
  cases hr with
  | ok hab =>
    simp only [respond, MResponse.of, he, hev, ← List.map_reverse]
    exact .data hab
  | fail =>
    simp only [respond, MResponse.of, he, hev, ← List.map_reverse]
    exact .nodata
  | fuelOut => exact absurd rfl hy

theorem mresponse_of_fuelOut {y : Res (List (String × PVal)) × MSt} (h : y.1 = .fuelOut) : MResponse.of y = .fuelOut := by
  obtain ⟨r, st⟩ := y
  simp only at h
  subst h
  rfl

/-- **`run` = `execute` on worlds without func values** (every schema, document with an acyclic fragment table, operation name,
variables, fuel): unless M runs out of fuel, the responses agree — data, the error list, the invocation log, in order -/
theorem run_respEq_execute (s : Schema) (doc : Document) (opName : String) (inputs : Vars) (w : World) (fuel : Nat)
    (rank : String → Nat) (hw : worldFuncFree w = true) (hac : Acyclic doc.fragments rank)
    (hM : run s doc opName inputs w fuel ≠ .fuelOut) :
    RespEq (execute s doc opName inputs w fuel) (run s doc opName inputs w fuel) := by
  cases hsel : selectOperation doc opName with
  | error e =>
    have h1 : execute s doc opName inputs w fuel = .requestError (reprStr e) := by unfold execute; rw [hsel]
    have h2 : run s doc opName inputs w fuel = .requestError (reprStr e) := by unfold run planQuery; rw [hsel]
    rw [h1, h2]; exact .reqErr _ _
  | ok d =>
    have hmem := selectOperation_mem hsel
    cases d with
    | operation op name varDefs dirs sel loc =>
      cases hroot : s.rootFor op.toString with
      | none =>
        have h1 : execute s doc opName inputs w fuel = .requestError "noRootType" := by
          unfold execute; rw [hsel]; simp only [hroot]
        have h2 : run s doc opName inputs w fuel = .requestError (reprStr OpError.noRootType) := by
          unfold run planQuery; rw [hsel]; simp only [hroot]
        rw [h1, h2]; exact .reqErr _ _
      | some root =>
        have hp : planQuery s doc opName = .ok
            (Plan.mk s varDefs sel doc.fragments root (op == .mutation) (docDynamic doc) none
              (if docDynamic doc then [] else planSelectionSet s doc.fragments none root sel)) := by
          unfold planQuery; rw [hsel]; simp only [hroot]
        have hrun := run_eq_ref s doc opName inputs w fuel _ hp
        rw [hrun] at hM ⊢
        unfold executePlanRef at hM ⊢
        cases hvars : getVariableValues s varDefs inputs with
        | error e =>
          have h1 : execute s doc opName inputs w fuel = .requestError ("variables: " ++ e) := by
            unfold execute; rw [hsel]; simp only [hroot, hvars]
          rw [h1]; exact .reqErr _ _
        | ok vars =>
          have hctx : requestCtx s doc opName inputs w =
              some ({ schema := s, frags := doc.fragments, vars := vars, world := w }, root, sel) := by
            unfold requestCtx; rw [hsel]; simp only [hroot, hvars]
          rw [execute_of_ctx hctx]
          simp only [hvars, rootGroups] at hM ⊢
          by_cases hd : docDynamic doc = true
          · -- specialised per request
            simp only [hd, if_true] at hM ⊢
            have hc := runPlan_corr (c := { schema := s, frags := doc.fragments, vars := vars, world := w })
              (pv := some vars) (rank := rank) hw hac (fun _ _ _ _ => .inl rfl)
              (Plan.specialise (Plan.mk s varDefs sel doc.fragments root (op == .mutation) true none []) vars)
              rfl sel rfl (.inl rfl) fuel
            simp only [Plan.specialise] at hc hM ⊢
            rcases hc with hc | hc
            · rw [mresponse_of_fuelOut hc] at hM; exact absurd rfl hM
            · exact respEq_of_corr hc (fun hf => by rw [mresponse_of_fuelOut hf] at hM; exact hM rfl)
          · have hd' : docDynamic doc = false := by simpa using hd
            simp only [hd', Bool.false_eq_true, if_false] at hM ⊢
            have hc := runPlan_corr (c := { schema := s, frags := doc.fragments, vars := vars, world := w })
              (pv := none) (rank := rank) hw hac (fun n tc body hf => .inr ⟨rfl, static_of_docDynamic_frag hd' hf⟩)
              (Plan.mk s varDefs sel doc.fragments root (op == .mutation) false none (planSelectionSet s doc.fragments none root sel))
              rfl sel rfl (.inr ⟨rfl, static_of_docDynamic_op hd' hmem⟩) fuel
            simp only at hc
            rcases hc with hc | hc
            · rw [mresponse_of_fuelOut hc] at hM; exact absurd rfl hM
            · exact respEq_of_corr hc (fun hf => by rw [mresponse_of_fuelOut hf] at hM; exact hM rfl)
    | _ =>
      have h1 : execute s doc opName inputs w fuel = .requestError "noOperation" := by unfold execute; rw [hsel]
      have h2 : run s doc opName inputs w fuel = .requestError (reprStr OpError.noOperation) := by
        unfold run planQuery; rw [hsel]
      rw [h1, h2]; exact .reqErr _ _

end GqlModel.Plan
