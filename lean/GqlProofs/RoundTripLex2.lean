import GqlProofs.RoundTripLex1
/-! # C08 byte level — INT and FLOAT tokens: a printed number text followed by a delimiter lexes to itself

`Reader.isIntLit` / `Reader.IsFloatLit` (what `WFValue` demands of number texts — the raws the parser copied from the
source) against C03's spec scanner `Spec.number` = `integerPart`, `fractionalPart`, `exponentPart`. -/
namespace GqlModel.RoundTrip
open GqlModel GqlModel.Lexer GqlModel.Lexer.Spec

def NextNotDigit (tail : Bytes) : Prop := ∀ d, tail.head? = some d → ¬ isDigitByte d

theorem digitsLen_lit (ds : Chars) (tail : Bytes) (h : ds.all Reader.isDigit = true) (ht : NextNotDigit tail) :
    digitsLen (utf8 ds ++ tail) = ds.length := by
  have := spanLen_append (fun c => decide (isDigitByte c)) (utf8 ds) tail
    (fun b hb => decide_eq_true (all_B (fun c => digit_ascii) (fun c => digit_B) h b hb))
    (fun d hd => decide_eq_false (ht d hd))
  rw [utf8_ascii_length ds (asciiC_of_all (fun c => digit_ascii) h)] at this
  exact this

theorem char_toNat_ne {c d : Char} (h : c ≠ d) : c.toNat ≠ d.toNat := fun e => h ((char_eq_iff c d).mpr e)
 where char_eq_iff (c d : Char) : c = d ↔ c.toNat = d.toNat :=
  ⟨fun h => by rw [h], fun h => by rw [← Char.ofNat_toNat c, ← Char.ofNat_toNat d, h]⟩

theorem integerPart_zero (tail : Bytes) (ht : NextNotDigit tail) :
    integerPart (48 :: tail) = .ok 1 ∧ integerPart (45 :: 48 :: tail) = .ok 2 := by
  constructor
  · cases tail with
    | nil => rfl
    | cons d r =>
      have := ht d rfl
      simp [integerPart, this]
  · cases tail with
    | nil => rfl
    | cons d r =>
      have := ht d rfl
      simp [integerPart, this]

theorem integerPart_digits (c : UInt8) (r : Bytes) (hd : isDigitByte c) (h0 : c ≠ 48) :
    integerPart (c :: r) = .ok (digitsLen (c :: r)) ∧ integerPart (45 :: c :: r) = .ok (1 + digitsLen (c :: r)) := by
  have h45 : c ≠ 45 := by unfold isDigitByte at hd; bnorm; omega
  constructor
  · simp [integerPart, h45, h0, hd]
  · simp [integerPart, h0, hd]

theorem integerPart_body (body : Chars) (tail : Bytes) (h : Reader.isIntBody body = true) (ht : NextNotDigit tail) :
    integerPart (utf8 body ++ tail) = .ok body.length ∧
    integerPart (45 :: (utf8 body ++ tail)) = .ok (body.length + 1) := by
  match body, h with
  | c :: r, h =>
    simp only [Reader.isIntBody] at h
    by_cases hc : c = '0'
    · subst hc
      simp only [if_true, List.isEmpty_iff] at h
      subst h
      exact integerPart_zero tail ht
    · simp only [hc, if_false, Bool.and_eq_true] at h
      have ha := digit_ascii h.1
      have hd := digit_B h.1
      have h0 : B c ≠ 48 := by
        have h1 := B_toNat c ha
        have h2 := char_toNat_ne hc
        have h3 : ('0' : Char).toNat = 48 := rfl
        bnorm; omega
      have hall : (c :: r).all Reader.isDigit = true := by simp [h.1, h.2]
      have hl := digitsLen_lit (c :: r) tail hall ht
      rw [utf8_cons_ascii c r ha] at hl ⊢
      obtain ⟨e1, e2⟩ := integerPart_digits (B c) (utf8 r ++ tail) hd h0
      simp only [List.cons_append] at hl ⊢
      rw [e1, e2, hl]
      exact ⟨rfl, by simp only [List.length_cons]; congr 1; omega⟩

theorem intBody_head_ne_minus {body : Chars} (h : Reader.isIntBody body = true) (tail : Bytes) :
    ∃ b r, utf8 body ++ tail = b :: r ∧ b ≠ 45 := by
  match body, h with
  | c :: r, h =>
    simp only [Reader.isIntBody] at h
    by_cases hc : c = '0'
    · subst hc; exact ⟨48, utf8 r ++ tail, by rw [utf8_cons_ascii _ _ (by decide)]; rfl, by decide⟩
    · simp only [hc, if_false, Bool.and_eq_true] at h
      have ha := digit_ascii h.1
      have hd := digit_B h.1
      refine ⟨B c, utf8 r ++ tail, by rw [utf8_cons_ascii c r ha]; rfl, ?_⟩
      unfold isDigitByte at hd; bnorm; omega

/-- IntegerPart of a printed integer text -/
theorem integerPart_lit (ip : Chars) (tail : Bytes) (h : Reader.isIntLit ip = true) (ht : NextNotDigit tail) :
    integerPart (utf8 ip ++ tail) = .ok ip.length := by
  match ip, h with
  | c :: r, h =>
    simp only [Reader.isIntLit] at h
    by_cases hc : c = '-'
    · subst hc
      simp only [if_true] at h
      rw [utf8_cons_ascii _ _ (by decide)]
      exact (integerPart_body r tail h ht).2
    · simp only [hc, if_false] at h
      exact (integerPart_body (c :: r) tail h ht).1

theorem isIntLit_ascii {ip : Chars} (h : Reader.isIntLit ip = true) : asciiC ip := by
  have body : ∀ b : Chars, Reader.isIntBody b = true → asciiC b := by
    intro b hb
    match b, hb with
    | c :: r, hb =>
      simp only [Reader.isIntBody] at hb
      by_cases hc : c = '0'
      · subst hc
        simp only [if_true, List.isEmpty_iff] at hb
        subst hb
        intro x hx; simp at hx; subst hx; decide
      · simp only [hc, if_false, Bool.and_eq_true] at hb
        intro x hx
        rcases List.mem_cons.mp hx with rfl | hx
        · exact digit_ascii hb.1
        · exact digit_ascii (List.all_eq_true.mp hb.2 x hx)
  match ip, h with
  | c :: r, h =>
    simp only [Reader.isIntLit] at h
    by_cases hc : c = '-'
    · subst hc
      simp only [if_true] at h
      intro x hx
      rcases List.mem_cons.mp hx with rfl | hx
      · decide
      · exact body r h x hx
    · simp only [hc, if_false] at h
      exact body _ h

/-! ## fraction and exponent -/

theorem fractionalPart_none (tail : Bytes) (h : ∀ d, tail.head? = some d → d ≠ 46) : fractionalPart tail = .ok 0 := by
  cases tail with
  | nil => rfl
  | cons d r => simp [fractionalPart, h d rfl]

theorem exponentPart_none (tail : Bytes) (h : ∀ d, tail.head? = some d → d ≠ 69 ∧ d ≠ 101) : exponentPart tail = .ok 0 := by
  cases tail with
  | nil => rfl
  | cons d r => simp [exponentPart, (h d rfl).1, (h d rfl).2]

theorem fractionalPart_lit (fp : Chars) (tail : Bytes) (h : Reader.isFracPart fp = true) (ht : NextNotDigit tail) :
    fractionalPart (utf8 fp ++ tail) = .ok fp.length ∧ asciiC fp ∧ 0 < fp.length := by
  match fp, h with
  | c :: ds, h =>
    simp only [Reader.isFracPart, Bool.and_eq_true, decide_eq_true_eq, Bool.not_eq_true', List.isEmpty_eq_false_iff] at h
    obtain ⟨⟨rfl, hne⟩, hd⟩ := h
    have hl := digitsLen_lit ds tail hd ht
    refine ⟨?_, ?_, by simp⟩
    · rw [utf8_cons_ascii _ _ (by decide)]
      have e : B '.' = 46 := by decide
      have hpos : ds.length ≠ 0 := by
        cases ds with
        | nil => exact absurd rfl hne
        | cons _ _ => simp
      simp only [List.cons_append, e, fractionalPart, if_true, hl, hpos, if_false, List.length_cons]
      congr 1; omega
    · intro x hx
      rcases List.mem_cons.mp hx with rfl | hx
      · decide
      · exact digit_ascii (List.all_eq_true.mp hd x hx)

theorem exponentPart_lit (ep : Chars) (tail : Bytes) (h : Reader.isExpPart ep = true) (ht : NextNotDigit tail) :
    exponentPart (utf8 ep ++ tail) = .ok ep.length ∧ asciiC ep ∧ 0 < ep.length := by
  match ep, h with
  | e :: r, h =>
    simp only [Reader.isExpPart, Bool.and_eq_true, Bool.or_eq_true, decide_eq_true_eq] at h
    obtain ⟨he, hr⟩ := h
    have hea : e.toNat < 128 := by rcases he with rfl | rfl <;> decide
    have heB : B e = 69 ∨ B e = 101 := by rcases he with rfl | rfl <;> decide
    match r, hr with
    | s :: ds, hr =>
      by_cases hs : s = '+' ∨ s = '-'
      · simp only [hs, if_true, Bool.and_eq_true, Bool.not_eq_true', List.isEmpty_eq_false_iff] at hr
        obtain ⟨hne, hd⟩ := hr
        have hsa : s.toNat < 128 := by rcases hs with rfl | rfl <;> decide
        have hsB : B s = 43 ∨ B s = 45 := by rcases hs with rfl | rfl <;> decide
        have hl := digitsLen_lit ds tail hd ht
        have hpos : ds.length ≠ 0 := by
          cases ds with
          | nil => exact absurd rfl hne
          | cons _ _ => simp
        refine ⟨?_, ?_, by simp⟩
        · rw [utf8_cons_ascii e _ hea, utf8_cons_ascii s _ hsa]
          simp only [List.cons_append, exponentPart, heB, if_true, hsB, List.drop_succ_cons, List.drop_zero, hl, hpos,
            if_false, List.length_cons]
          congr 1; omega
        · intro x hx
          rcases List.mem_cons.mp hx with rfl | hx
          · exact hea
          · rcases List.mem_cons.mp hx with rfl | hx
            · exact hsa
            · exact digit_ascii (List.all_eq_true.mp hd x hx)
      · simp only [hs, if_false] at hr
        have hd : (s :: ds).all Reader.isDigit = true := hr
        have hsd : Reader.isDigit s = true := by simp only [List.all_cons, Bool.and_eq_true] at hd; exact hd.1
        have hsa := digit_ascii hsd
        have hsB : ¬ (B s = 43 ∨ B s = 45) := by
          have := digit_B hsd
          unfold isDigitByte at this; bnorm; omega
        have hl := digitsLen_lit (s :: ds) tail hd ht
        refine ⟨?_, ?_, by simp⟩
        · rw [utf8_cons_ascii e _ hea]
          rw [utf8_cons_ascii s _ hsa] at hl ⊢
          simp only [List.cons_append] at hl ⊢
          simp only [exponentPart, heB, if_true, hsB, if_false, List.drop_zero, hl, List.length_cons]
          simp
          omega
        · intro x hx
          rcases List.mem_cons.mp hx with rfl | hx
          · exact hea
          · exact digit_ascii (List.all_eq_true.mp hd x hx)

end GqlModel.RoundTrip
