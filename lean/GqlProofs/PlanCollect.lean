import GqlModel.Plan
import GqlProofs.CoerceArgs
/-! # Plan-time collection (`collectInto` of plan.go, model `GqlModel.Plan`) = `CollectFields` (`GqlModel.Exec.collect`)

The simulation is proved once, for both regimes of the planner:

* specialised plan (`planVars = some vars`, `Plan.specialise`): no premise on directives — every `@skip/@include` is folded with
  the request's variables, which is literally what `Exec.included` does;
* static plan (`planVars = none`, `PlanQuery` on a document without variable-driven directives): every directive argument is
  variable-free (`setDynamic = false`, deep), so folding with the empty variable map gives the same answer for every request.

In both regimes `planDirectives` never leaves a run-time predicate: all `pred`s are `[]` (`FpOK.pred`).

The chain guard (`chain.has(fragName)`, commit 8e56ec3) is shown inert on fragment tables whose spread graph is acyclic, stated
with a rank function: `Acyclic frags rank` = every fragment spread anywhere inside a fragment's body (at any depth, also below
fields) has a smaller rank than the fragment. On such tables a field node's chain only contains fragments of larger rank than
anything spread below that node (`ChainOK`), so the guard never fires. -/
namespace GqlModel.Plan
open GqlModel.Exec GqlModel.Coerce

/-! ## vocabulary -/

/-- the groups a list of field plans stands for: response key ↦ merged field nodes, in plan order -/
def groupsOf (fps : List FieldPlan) : Groups := fps.map (fun fp => (fp.key, fp.fieldNodes))

/-- the groups a request sees: field plans whose run-time predicate holds under the request's variables -/
def liveGroups (s : Schema) (vars : Vars) (fps : List FieldPlan) : Groups :=
  groupsOf (fps.filter (fun fp => fp.pred.eval s vars))

mutual
/-- every fragment name spread anywhere inside a selection (also below fields and inline fragments) -/
def selSpreads : Selection → List String
  | .field _ _ _ _ none _ => []
  | .field _ _ _ _ (some ss) _ => setSpreads ss
  | .spread n _ _ => [n.value]
  | .inline _ _ ss _ => setSpreads ss
def setSpreads : SelectionSet → List String
  | .mk sels _ => selsSpreads sels
def selsSpreads : List Selection → List String
  | [] => []
  | x :: rest => selSpreads x ++ selsSpreads rest
end

/-- the spread graph of the fragment table is acyclic, witnessed by a rank (all valid documents: rule NoFragmentCycles) -/
def Acyclic (frags : List (String × Definition)) (rank : String → Nat) : Prop :=
  ∀ n tc sel, fragOf frags n = some (tc, sel) → ∀ m ∈ setSpreads sel, rank m < rank n

/-- every fragment on the chain outranks every fragment spread in `names` -/
def ChainOK (rank : String → Nat) (ch : Chain) (names : List String) : Prop :=
  ∀ F ∈ ch, ∀ G ∈ names, rank G < rank F

/-- the planner's regime: specialised with the request's variables, or static on variable-free directives -/
def Regime (pv : Option Vars) (vars : Vars) (dyn : Bool) : Prop := pv = some vars ∨ (pv = none ∧ dyn = false)

theorem Regime.mono {pv : Option Vars} {vars : Vars} {a b : Bool} (h : Regime pv vars a) (hab : a = false → b = false) :
    Regime pv vars b := by
  rcases h with h | ⟨h1, h2⟩
  · exact .inl h
  · exact .inr ⟨h1, hab h2⟩

/-! ## `planDirectives` folds to `Exec.included` -/

theorem fragOf_eq (c : Ctx) (n : String) : c.frag? n = fragOf c.frags n := rfl

theorem ifVal_static (s : Schema) (vars : Vars) (d : Directive) (h : astHasVariables d.args = false) :
    ifVal s [] d = ifVal s vars d := by
  unfold ifVal
  rw [getArgumentValues_static s ifArg d.args [] vars h]

theorem lastDir_mem {n : String} {dirs : List Directive} {d : Directive} (h : lastDir n dirs = some d) : d ∈ dirs := by
  unfold lastDir at h
  exact (List.mem_filter.1 (List.mem_of_getLast? h)).1

theorem included_eq (s : Schema) (vars : Vars) (dirs : List Directive) :
    included s vars dirs =
      !((match lastDir "skip" dirs with | some d => ifVal s vars d == some true | none => false) ||
        (match lastDir "include" dirs with | some d => ifVal s vars d == some false | none => false)) := rfl

theorem planDir_eq (s : Schema) (pv : Option Vars) (vars : Vars) (want : Bool) (n : String) (dirs : List Directive)
    (h : Regime pv vars (dirsDynamic dirs)) :
    planDir s pv want (lastDir n dirs) =
      (none, match lastDir n dirs with | some d => ifVal s vars d == some want | none => false) := by
  cases hd : lastDir n dirs with
  | none => rfl
  | some d =>
    rcases h with h | ⟨h1, h2⟩
    · subst h; simp [planDir]
    · subst h1
      have hm := lastDir_mem hd
      have hv : astHasVariables d.args = false := by
        unfold dirsDynamic at h2
        have := List.any_eq_false.1 h2 d hm
        simpa using this
      simp [planDir, hv, ifVal_static s vars d hv]

/-- in either regime `planDirectives` decides the occurrence at plan time, exactly as `Exec.included` does per request -/
theorem planDirectives_eq (s : Schema) (pv : Option Vars) (vars : Vars) (dirs : List Directive)
    (h : Regime pv vars (dirsDynamic dirs)) :
    planDirectives s pv dirs = (none, !included s vars dirs) := by
  unfold planDirectives
  rw [planDir_eq s pv vars true "skip" dirs h, planDir_eq s pv vars false "include" dirs h, included_eq]
  cases (match lastDir "skip" dirs with | some d => ifVal s vars d == some true | none => false) <;>
  cases (match lastDir "include" dirs with | some d => ifVal s vars d == some false | none => false) <;> rfl

/-! ## `addField` is `Groups.add` -/

theorem groupsOf_addField (s : Schema) (rt : String) (fps : List FieldPlan) (f : FieldNode) (ch : Chain) (pred : Pred) :
    groupsOf (addField s rt fps f ch pred) = (groupsOf fps).add f := by
  unfold addField Groups.add groupsOf
  have hany : (List.map (fun fp : FieldPlan => (fp.key, fp.fieldNodes)) fps).any (fun p => p.1 == f.key) =
      fps.any (fun fp => fp.key == f.key) := by
    rw [List.any_map]; rfl
  rw [hany]
  by_cases h : fps.any (fun fp => fp.key == f.key) = true
  · rw [if_pos h, if_pos h, List.map_map, List.map_map]
    apply List.map_congr_left
    intro fp _
    by_cases hk : fp.key = f.key
    · simp [hk, FieldPlan.fieldNodes]
    · simp [hk]
  · rw [if_neg h, if_neg h]
    simp [FieldPlan.fieldNodes]

/-! ## the invariant of planned field lists -/

/-- what a field plan produced by `collectInto` for parent type `rt` looks like, in either regime; `P` is an invariant of
(node, chain) pairs -/
structure FpOK (s : Schema) (rt : String) (P : FieldNode → Chain → Prop) (fp : FieldPlan) : Prop where
  pred : fp.pred = []
  head : ∃ n0 ch0 rest, fp.nodes = (n0, ch0) :: rest ∧ fp.fieldName = n0.name ∧ fp.fieldDef = fieldDef? s rt n0.name ∧
    fp.args = (match fieldDef? s rt n0.name with
      | some d => planArguments s d.args n0.args
      | none => .empty)
  keys : ∀ x ∈ fp.nodes, x.1.key = fp.key
  nodes : ∀ x ∈ fp.nodes, P x.1 x.2

theorem fpOK_addField {s : Schema} {rt : String} {P : FieldNode → Chain → Prop} {fps : List FieldPlan} {f : FieldNode}
    {ch : Chain} (hfps : ∀ fp ∈ fps, FpOK s rt P fp) (hP : P f ch) :
    ∀ fp ∈ addField s rt fps f ch [], FpOK s rt P fp := by
  intro fp hfp
  unfold addField at hfp
  by_cases h : fps.any (fun fp => fp.key == f.key) = true
  · rw [if_pos h] at hfp
    obtain ⟨fp0, h0, rfl⟩ := List.mem_map.1 hfp
    have ok := hfps fp0 h0
    by_cases hk : (fp0.key == f.key) = true
    · simp only [hk, if_true]
      obtain ⟨n0, ch0, rest, hn, h1, h2, h3⟩ := ok.head
      refine ⟨ok.pred, ⟨n0, ch0, rest ++ [(f, ch)], by simp [hn], h1, h2, h3⟩, ?_, ?_⟩
      · intro x hx
        rcases List.mem_append.1 hx with hx | hx
        · exact ok.keys x hx
        · simp only [List.mem_singleton] at hx; subst hx; exact (beq_iff_eq.1 hk).symm
      · intro x hx
        rcases List.mem_append.1 hx with hx | hx
        · exact ok.nodes x hx
        · simp only [List.mem_singleton] at hx; subst hx; exact hP
    · simp only [hk]; exact ok
  · rw [if_neg h] at hfp
    rcases List.mem_append.1 hfp with hfp | hfp
    · exact hfps fp hfp
    · simp only [List.mem_singleton] at hfp
      subst hfp
      refine ⟨rfl, ⟨f, ch, [], rfl, rfl, rfl, rfl⟩, ?_, ?_⟩
      · intro x hx; simp only [List.mem_singleton] at hx; subst hx; rfl
      · intro x hx; simp only [List.mem_singleton] at hx; subst hx; exact hP

/-! ## the simulation -/

section sim
variable (c : Ctx) (pv : Option Vars) (rt : String) (rank : String → Nat)

/-- invariant of a stored (node, chain) pair: its sub-selection is in the regime and its chain outranks everything spread below it -/
def NodeOK (f : FieldNode) (ch : Chain) : Prop :=
  ∀ sel, f.sel = some sel → Regime pv c.vars (setDynamic sel) ∧ ChainOK rank ch (setSpreads sel)

/-- the planner's accumulator and the algorithm's accumulator agree -/
def Sim (pa : PAcc) (sa : Groups × List String) : Prop :=
  groupsOf pa.1 = sa.1 ∧ pa.2 = sa.2 ∧ ∀ fp ∈ pa.1, FpOK c.schema rt (NodeOK c pv rank) fp

/-- the two spread expanders agree on every name that the chain outranks -/
def ExpSim (expP : String → Pred → Chain → PAcc → PAcc) (expS : String → Groups × List String → Groups × List String) : Prop :=
  ∀ n ch pa sa, Sim c pv rt rank pa sa → (∀ F ∈ ch, rank n < rank F) → Sim c pv rt rank (expP n [] ch pa) (expS n sa)

variable {c pv rt rank}
variable {expP : String → Pred → Chain → PAcc → PAcc} {expS : String → Groups × List String → Groups × List String}

theorem andPred_nil : andPred [] (predOf none) = [] := rfl

mutual
theorem collectSelP_sim (he : ExpSim c pv rt rank expP expS) : ∀ (x : Selection) (ch : Chain) (pa : PAcc)
    (sa : Groups × List String), Sim c pv rt rank pa sa → Regime pv c.vars (selDynamic x) → ChainOK rank ch (selSpreads x) →
    Sim c pv rt rank (collectSelP c.schema pv rt expP x [] ch pa) (collectSel c rt expS x sa)
  | .field alias name args dirs sel loc, ch, (fps, vis), (g, vis'), hs, hr, hc => by
    have hd : Regime pv c.vars (dirsDynamic dirs) := hr.mono (by
      cases sel <;> simp only [selDynamic, Bool.or_eq_false_iff] <;> intro h
      · exact h
      · exact h.1)
    obtain ⟨h1, h2, h3⟩ := hs
    simp only at h1 h2 h3
    simp only [collectSelP, collectSel, planDirectives_eq c.schema pv c.vars dirs hd]
    by_cases hi : included c.schema c.vars dirs = true
    · simp only [hi, Bool.not_true, if_true, andPred_nil]
      refine ⟨?_, h2, ?_⟩
      · simp only [groupsOf_addField, h1]
      · apply fpOK_addField h3
        intro ss hss
        simp only at hss
        subst hss
        refine ⟨hr.mono (by simp only [selDynamic, Bool.or_eq_false_iff]; exact fun h => h.2), ?_⟩
        simpa only [selSpreads] using hc
    · have hi' : included c.schema c.vars dirs = false := by simpa using hi
      simp only [hi', Bool.not_false, Bool.false_eq_true, if_false]
      exact ⟨h1, h2, h3⟩
  | .inline tc dirs (.mk inner l1) l2, ch, pa, sa, hs, hr, hc => by
    have hd : Regime pv c.vars (dirsDynamic dirs) := hr.mono (by
      simp only [selDynamic, Bool.or_eq_false_iff]; exact fun h => h.1)
    simp only [collectSelP, collectSel, planDirectives_eq c.schema pv c.vars dirs hd]
    by_cases hi : included c.schema c.vars dirs = true
    · simp only [hi, Bool.not_true, Bool.true_and, andPred_nil]
      by_cases hca : condApplies c.schema tc rt = true
      · simp only [hca, if_true, collectSetP, collectSet]
        exact collectListP_sim he inner ch pa sa hs
          (hr.mono (by simp only [selDynamic, setDynamic, Bool.or_eq_false_iff]; exact fun h => h.2))
          (by simpa only [selSpreads, setSpreads] using hc)
      · simp only [hca, Bool.false_eq_true, if_false]; exact hs
    · have hi' : included c.schema c.vars dirs = false := by simpa using hi
      simp only [hi', Bool.not_false, Bool.false_and, Bool.false_eq_true, if_false]
      exact hs
  | .spread name dirs l, ch, pa, sa, hs, hr, hc => by
    have hd : Regime pv c.vars (dirsDynamic dirs) := hr.mono (by simp only [selDynamic]; exact fun h => h)
    simp only [collectSelP, collectSel, planDirectives_eq c.schema pv c.vars dirs hd]
    by_cases hi : included c.schema c.vars dirs = true
    · simp only [hi, Bool.not_true, if_true, andPred_nil]
      exact he name.value ch pa sa hs (fun F hF => hc F hF name.value (by simp [selSpreads]))
    · have hi' : included c.schema c.vars dirs = false := by simpa using hi
      simp only [hi', Bool.not_false, Bool.false_eq_true, if_false]
      exact hs
theorem collectListP_sim (he : ExpSim c pv rt rank expP expS) : ∀ (xs : List Selection) (ch : Chain) (pa : PAcc)
    (sa : Groups × List String), Sim c pv rt rank pa sa → Regime pv c.vars (selsDynamic xs) → ChainOK rank ch (selsSpreads xs) →
    Sim c pv rt rank (collectListP c.schema pv rt expP xs [] ch pa) (collectList c rt expS xs sa)
  | [], _, _, _, hs, _, _ => by simp only [collectListP, collectList]; exact hs
  | x :: rest, ch, pa, sa, hs, hr, hc => by
    simp only [collectListP, collectList]
    refine collectListP_sim he rest ch _ _
      (collectSelP_sim he x ch pa sa hs
        (hr.mono (by simp only [selsDynamic, Bool.or_eq_false_iff]; exact fun h => h.1))
        (fun F hF G hG => hc F hF G (by simp only [selsSpreads, List.mem_append]; exact .inl hG)))
      (hr.mono (by simp only [selsDynamic, Bool.or_eq_false_iff]; exact fun h => h.2))
      (fun F hF G hG => hc F hF G (by simp only [selsSpreads, List.mem_append]; exact .inr hG))
end

theorem collectSetP_sim (he : ExpSim c pv rt rank expP expS) (sel : SelectionSet) (ch : Chain) (pa : PAcc)
    (sa : Groups × List String) (hs : Sim c pv rt rank pa sa) (hr : Regime pv c.vars (setDynamic sel))
    (hc : ChainOK rank ch (setSpreads sel)) :
    Sim c pv rt rank (collectSetP c.schema pv rt expP sel [] ch pa) (collectSet c rt expS sel sa) := by
  cases sel with
  | mk sels l =>
    simp only [collectSetP, collectSet]
    exact collectListP_sim he sels ch pa sa hs (by simpa only [setDynamic] using hr) (by simpa only [setSpreads] using hc)

/-- regime of the fragment table: specialised, or every fragment body variable-free -/
def FragsOK (c : Ctx) (pv : Option Vars) : Prop :=
  ∀ n tc sel, fragOf c.frags n = some (tc, sel) → Regime pv c.vars (setDynamic sel)

/-- **`chain_guard_inert` at the level of one spread**: on an acyclic fragment table the planner's expander (visited set AND
chain guard) is the algorithm's expander (visited set only), for every fuel -/
theorem expandP_sim (hac : Acyclic c.frags rank) (hfr : FragsOK c pv) :
    ∀ fuel, ExpSim c pv rt rank (expandP c.schema c.frags pv rt fuel) (expandSpread c rt fuel)
  | 0 => fun n ch pa sa hs _ => by simp only [expandP, expandSpread]; exact hs
  | fuel + 1 => fun n ch (fps, vis) (g, vis') hs hch => by
    obtain ⟨h1, h2, h3⟩ := hs
    simp only at h1 h2 h3
    subst h2
    have hnch : ch.contains n = false := by
      cases hcn : ch.contains n with
      | false => rfl
      | true => exact absurd (hch n (List.contains_iff_mem.1 hcn)) (Nat.lt_irrefl _)
    simp only [expandP, expandSpread, hnch, Bool.or_false, fragOf_eq]
    by_cases hv : vis.contains n = true
    · simp only [hv, if_true]; exact ⟨h1, rfl, h3⟩
    · simp only [hv, Bool.false_eq_true, if_false]
      rcases hf : fragOf c.frags n with _ | ⟨tc, sel⟩
      · exact ⟨h1, rfl, h3⟩
      · simp only
        by_cases hca : condApplies c.schema (some tc) rt = true
        · simp only [hca, if_true]
          refine collectSetP_sim (expandP_sim hac hfr fuel) sel (n :: ch) (fps, n :: vis) (g, n :: vis) ⟨h1, rfl, h3⟩
            (hfr n tc sel hf) ?_
          intro F hF G hG
          rcases List.mem_cons.1 hF with rfl | hF
          · exact hac _ tc sel hf G hG
          · exact Nat.lt_trans (hac n tc sel hf G hG) (hch F hF)
        · simp only [hca, Bool.false_eq_true, if_false]; exact ⟨h1, rfl, h3⟩

theorem collectInto_sim (hac : Acyclic c.frags rank) (hfr : FragsOK c pv) (sel : SelectionSet) (ch : Chain) (pa : PAcc)
    (sa : Groups × List String) (hs : Sim c pv rt rank pa sa) (hr : Regime pv c.vars (setDynamic sel))
    (hc : ChainOK rank ch (setSpreads sel)) :
    Sim c pv rt rank (collectInto c.schema c.frags pv rt sel ch pa) (collect c rt sel sa) :=
  collectSetP_sim (expandP_sim hac hfr _) sel ch pa sa hs hr hc

theorem sim_nil : Sim c pv rt rank ([], []) ([], []) := ⟨rfl, rfl, fun _ h => by cases h⟩

/-- `planMergedSelectionsForType` = `collectMerged`, and the planned fields satisfy the invariant again -/
theorem planMerged_sim (hac : Acyclic c.frags rank) (hfr : FragsOK c pv) (nodes : List (FieldNode × Chain))
    (hn : ∀ x ∈ nodes, NodeOK c pv rank x.1 x.2) :
    groupsOf (planMerged c.schema c.frags pv rt nodes) = collectMerged c rt (nodes.map (·.1)) ∧
    ∀ fp ∈ planMerged c.schema c.frags pv rt nodes, FpOK c.schema rt (NodeOK c pv rank) fp := by
  have key : ∀ (nodes : List (FieldNode × Chain)) (pa : PAcc) (sa : Groups × List String),
      (∀ x ∈ nodes, NodeOK c pv rank x.1 x.2) → Sim c pv rt rank pa sa →
      Sim c pv rt rank
        (nodes.foldl (fun acc n => match n.1.sel with
          | some sel => collectInto c.schema c.frags pv rt sel n.2 acc
          | none => acc) pa)
        ((nodes.map (·.1)).foldl (fun acc n => match n.sel with
          | some sel => collect c rt sel acc
          | none => acc) sa) := by
    intro nodes
    induction nodes with
    | nil => intro pa sa _ hs; exact hs
    | cons x rest ih =>
      intro pa sa hn hs
      simp only [List.foldl_cons, List.map_cons]
      apply ih _ _ (fun y hy => hn y (List.mem_cons_of_mem _ hy))
      have hx := hn x List.mem_cons_self
      cases hsel : x.1.sel with
      | none => exact hs
      | some sel =>
        obtain ⟨hr, hc⟩ := hx sel hsel
        exact collectInto_sim hac hfr sel x.2 pa sa hs hr hc
  have := key nodes ([], []) ([], []) hn sim_nil
  exact ⟨this.1, this.2.2⟩

/-- `planSelectionSet` (the root selection, empty chain) = `collect` from the empty accumulator -/
theorem planSelectionSet_sim (hac : Acyclic c.frags rank) (hfr : FragsOK c pv) (sel : SelectionSet)
    (hr : Regime pv c.vars (setDynamic sel)) :
    groupsOf (planSelectionSet c.schema c.frags pv rt sel) = (collect c rt sel ([], [])).1 ∧
    ∀ fp ∈ planSelectionSet c.schema c.frags pv rt sel, FpOK c.schema rt (NodeOK c pv rank) fp := by
  have := collectInto_sim (rt := rt) hac hfr sel [] ([], []) ([], []) sim_nil hr (fun _ h => by cases h)
  exact ⟨this.1, this.2.2⟩

end sim

/-! ## all predicates are trivial ⇒ the live groups are all groups -/

theorem liveGroups_eq_groupsOf {s : Schema} {vars : Vars} {fps : List FieldPlan} (h : ∀ fp ∈ fps, fp.pred = []) :
    liveGroups s vars fps = groupsOf fps := by
  unfold liveGroups
  congr 1
  apply List.filter_eq_self.2
  intro fp hfp
  rw [h fp hfp]; rfl

end GqlModel.Plan
