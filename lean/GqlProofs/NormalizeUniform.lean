import GqlProofs.NormalizeEnd
/-! C06 (normaliser): a STATIC, decidable sufficient condition for the premise `ExecUniform` of `normalized_transparent`:
if response keys determine field names throughout the document (`KeysFunctional`), every group of field nodes any
execution merges has one field name, hereditarily. (Stricter than OverlappingFieldsCanBeMerged, which also allows equal
keys with different names under disjoint type conditions; enough to show the premise is satisfiable and to `decide`
it on concrete documents.) -/
set_option linter.unusedSimpArgs false
set_option linter.unusedVariables false
set_option linter.unusedSectionVars false
namespace GqlModel.Normalize
open GqlModel GqlModel.Coerce GqlModel.Exec

abbrev FKey := Option String × String      -- (alias, field name)

def keyOf (f : FKey) : String := f.1.getD f.2

mutual
/-- every field selection nested anywhere in a selection -/
def selFields : Selection → List FKey
  | .field al nm _ _ sel _ => (al.map (·.value), nm.value) :: optFields sel
  | .inline _ _ ss _ => setFields ss
  | .spread _ _ _ => []
def optFields : Option SelectionSet → List FKey
  | none => []
  | some ss => setFields ss
def setFields : SelectionSet → List FKey
  | .mk sels _ => listFields sels
def listFields : List Selection → List FKey
  | [] => []
  | x :: xs => selFields x ++ listFields xs
end

def defFields : Definition → List FKey
  | .operation _ _ _ _ sel _ => setFields sel
  | .fragment _ _ _ sel _ => setFields sel
  | _ => []

def docFields (doc : Document) : List FKey := doc.defs.flatMap defFields

/-- response keys determine field names, document-wide -/
def KeysFunctionalOn (D : List FKey) : Prop := ∀ f ∈ D, ∀ g ∈ D, keyOf f = keyOf g → f.2 = g.2

def KeysFunctional (doc : Document) : Prop := KeysFunctionalOn (docFields doc)

instance (D : List FKey) : Decidable (KeysFunctionalOn D) := by unfold KeysFunctionalOn; infer_instance
instance (doc : Document) : Decidable (KeysFunctional doc) := by unfold KeysFunctional; infer_instance

section Inv
variable (c : Ctx) (D : List FKey)

def NodeIn (n : FieldNode) : Prop := (n.alias, n.name) ∈ D ∧ ∀ f ∈ optFields n.sel, f ∈ D

def GroupsIn (g : Groups) : Prop := ∀ p ∈ g, ∀ n ∈ p.2, n.key = p.1 ∧ NodeIn D n

theorem groupsIn_add {g : Groups} {n : FieldNode} (hg : GroupsIn D g) (hn : NodeIn D n) : GroupsIn D (g.add n) := by
  unfold Groups.add
  split
  · intro p hp m hm
    obtain ⟨q, hq, rfl⟩ := List.mem_map.mp hp
    by_cases hk : (q.1 == n.key) = true
    · simp only [hk, if_true] at hm ⊢
      rcases List.mem_append.mp hm with hm | hm
      · exact hg q hq m hm
      · simp only [List.mem_singleton] at hm; subst hm
        exact ⟨(beq_iff_eq.mp hk).symm, hn⟩
    · simp only [hk, Bool.false_eq_true, if_false] at hm ⊢
      exact hg q hq m hm
  · intro p hp m hm
    rcases List.mem_append.mp hp with hp | hp
    · exact hg p hp m hm
    · simp only [List.mem_singleton] at hp; subst hp
      simp only [List.mem_singleton] at hm; subst hm
      exact ⟨rfl, hn⟩

def ExpandIn (rt : String) (e : Expand) : Prop := ∀ n g vis, GroupsIn D g → GroupsIn D (e n (g, vis)).1

mutual
theorem collectSel_in (rt : String) (e : Expand) (he : ExpandIn D rt e) :
    ∀ (x : Selection) (g : Groups) (vis : List String), (∀ f ∈ selFields x, f ∈ D) → GroupsIn D g →
      GroupsIn D (collectSel c rt e x (g, vis)).1
  | .field al nm args dirs sel loc, g, vis, hx, hg => by
    simp only [selFields] at hx
    simp only [collectSel]
    split
    · exact groupsIn_add D hg ⟨hx _ List.mem_cons_self, fun f hf => hx f (List.mem_cons_of_mem _ hf)⟩
    · exact hg
  | .inline tc dirs ss loc, g, vis, hx, hg => by
    simp only [selFields] at hx
    simp only [collectSel]
    split
    · exact collectSet_in rt e he ss g vis hx hg
    · exact hg
  | .spread n d l, g, vis, hx, hg => by
    simp only [collectSel]
    split
    · exact he n.value g vis hg
    · exact hg
theorem collectSet_in (rt : String) (e : Expand) (he : ExpandIn D rt e) :
    ∀ (x : SelectionSet) (g : Groups) (vis : List String), (∀ f ∈ setFields x, f ∈ D) → GroupsIn D g →
      GroupsIn D (collectSet c rt e x (g, vis)).1
  | .mk sels loc, g, vis, hx, hg => by
    simp only [setFields] at hx
    simp only [collectSet]
    exact collectList_in rt e he sels g vis hx hg
theorem collectList_in (rt : String) (e : Expand) (he : ExpandIn D rt e) :
    ∀ (xs : List Selection) (g : Groups) (vis : List String), (∀ f ∈ listFields xs, f ∈ D) → GroupsIn D g →
      GroupsIn D (collectList c rt e xs (g, vis)).1
  | [], g, vis, _, hg => by simp only [collectList]; exact hg
  | x :: xs, g, vis, hx, hg => by
    simp only [listFields, List.mem_append] at hx
    simp only [collectList]
    have h1 := collectSel_in rt e he x g vis (fun f hf => hx f (Or.inl hf)) hg
    have e1 : collectSel c rt e x (g, vis) = ((collectSel c rt e x (g, vis)).1, (collectSel c rt e x (g, vis)).2) := rfl
    rw [e1]
    exact collectList_in rt e he xs _ _ (fun f hf => hx f (Or.inr hf)) h1
end

/-- fragment bodies only contain fields of `D` -/
def FragsIn : Prop := ∀ n tc sel, c.frag? n = some (tc, sel) → ∀ f ∈ setFields sel, f ∈ D

theorem expandSpread_in (hf : FragsIn c D) (rt : String) : ∀ fuel : Nat, ExpandIn D rt (expandSpread c rt fuel)
  | 0 => by intro n g vis hg; simp only [expandSpread]; exact hg
  | fuel + 1 => by
    intro n g vis hg
    simp only [expandSpread]
    split
    · exact hg
    · cases hfr : c.frag? n with
      | none => exact hg
      | some p =>
        obtain ⟨tc, sel⟩ := p
        simp only []
        split
        · exact collectSet_in c D rt _ (expandSpread_in hf rt fuel) sel g (n :: vis) (hf n tc sel hfr) hg
        · exact hg

theorem collect_in (hf : FragsIn c D) (rt : String) (x : SelectionSet) (g : Groups) (vis : List String)
    (hx : ∀ f ∈ setFields x, f ∈ D) (hg : GroupsIn D g) : GroupsIn D (collect c rt x (g, vis)).1 := by
  unfold collect
  exact collectSet_in c D rt _ (expandSpread_in c D hf rt _) x g vis hx hg

theorem collectMerged_in (hf : FragsIn c D) (ot : String) (nodes : List FieldNode) (hn : ∀ n ∈ nodes, NodeIn D n) :
    GroupsIn D (collectMerged c ot nodes) := by
  unfold collectMerged
  have key : ∀ (nodes : List FieldNode) (g : Groups) (vis : List String), (∀ n ∈ nodes, NodeIn D n) → GroupsIn D g →
      GroupsIn D (nodes.foldl (fun acc n => match n.sel with | some sel => collect c ot sel acc | none => acc) (g, vis)).1 := by
    intro nodes
    induction nodes with
    | nil => intro g vis _ hg; exact hg
    | cons n ns ih =>
      intro g vis hn hg
      simp only [List.foldl_cons]
      cases hs : n.sel with
      | none => exact ih g vis (fun m hm => hn m (List.mem_cons_of_mem _ hm)) hg
      | some sel =>
        simp only []
        have hsel : ∀ f ∈ setFields sel, f ∈ D := by
          have := (hn n List.mem_cons_self).2
          rw [hs] at this
          simpa [optFields] using this
        have h1 := collect_in c D hf ot sel g vis hsel hg
        have e1 : collect c ot sel (g, vis) = ((collect c ot sel (g, vis)).1, (collect c ot sel (g, vis)).2) := rfl
        rw [e1]
        exact ih _ _ (fun m hm => hn m (List.mem_cons_of_mem _ hm)) h1
  exact key nodes [] [] hn (by intro p hp; cases hp)

/-- groups made of the document's fields are hereditarily uniform when keys determine names -/
theorem HU_of_in (hf : FragsIn c D) (hk : KeysFunctionalOn D) : ∀ (k : Nat) (rt : String) (g : Groups),
    GroupsIn D g → HU c k rt g
  | 0, _, _, _ => trivial
  | k + 1, rt, g, hg => by
    intro p hp
    refine ⟨?_, ?_⟩
    · intro h hh n hn
      have hmem : h ∈ p.2 := List.mem_of_mem_head? hh
      obtain ⟨hk1, hin1⟩ := hg p hp n hn
      obtain ⟨hk2, hin2⟩ := hg p hp h hmem
      exact hk (n.alias, n.name) hin1.1 (h.alias, h.name) hin2.1 (by
        show n.alias.getD n.name = h.alias.getD h.name
        have a : n.key = h.key := by rw [hk1, hk2]
        exact a)
    · intro h fd hh hfd ot hot _
      exact HU_of_in hf hk k ot _ (collectMerged_in c D hf ot p.2 (fun n hn => (hg p hp n hn).2))

end Inv

/-! ## the document level -/

theorem defFields_subset (doc : Document) (d : Definition) (hd : d ∈ doc.defs) : ∀ f ∈ defFields d, f ∈ docFields doc := by
  intro f hf
  simp only [docFields, List.mem_flatMap]
  exact ⟨d, hd, hf⟩

/-- **`KeysFunctional` is a static sufficient condition for `ExecUniform`** (any schema, variables, world) -/
theorem execUniform_of_keysFunctional (s : Schema) (doc : Document) (opName : String) (inputs : Vars) (w : World)
    (h : KeysFunctional doc) : ExecUniform s doc opName inputs w := by
  intro op name vars dirs sel loc root v hsel _ _ k
  have hmem : Definition.operation op name vars dirs sel loc ∈ doc.defs := by
    unfold selectOperation at hsel
    cases hg : selectOperation.go opName doc.defs none with
    | error e => rw [hg] at hsel; cases hsel
    | ok r =>
      rw [hg] at hsel
      cases r with
      | none => cases hsel
      | some d =>
        simp only [Except.ok.injEq] at hsel
        subst hsel
        rcases go_mem opName doc.defs none _ hg with h' | h'
        · exact h'
        · cases h'
  have hfr : FragsIn ⟨s, doc.fragments, v, w⟩ (docFields doc) := by
    intro n tc sel0 hfrag f hf
    obtain ⟨nm, ds, l, hm⟩ := frag_mem _ n tc sel0 hfrag
    have hm' : (n, Definition.fragment nm tc ds sel0 l) ∈ doc.defs.filterMap fragOf := by
      rw [← fragments_eq]; exact hm
    obtain ⟨d, hd, hfo⟩ := List.mem_filterMap.mp hm'
    have hdd : d = Definition.fragment nm tc ds sel0 l := by
      cases d <;> simp [fragOf] at hfo
      obtain ⟨_, h2, h3, h4, h5, h6⟩ := hfo
      subst h2 h3 h4 h5 h6
      rfl
    apply defFields_subset doc d hd
    rw [hdd]
    exact hf
  apply HU_of_in _ (docFields doc) hfr h k root
  apply collect_in _ (docFields doc) hfr root sel [] []
  · intro f hf
    exact defFields_subset doc _ hmem f hf
  · intro p hp; cases hp

end GqlModel.Normalize
