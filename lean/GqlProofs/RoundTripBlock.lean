import GqlProofs.RoundTripClass
import GqlProofs.PrinterBlockScan
import GqlProofs.PrinterTokens
/-! # C08 byte level — block-string descriptions: the character-level printer text is the byte-level `Block.blockText`

`Printer.descC` prints a block-safe description `s` as `"""` … `"""` on characters, and each enclosing block applies
`indentC` once more.  `Printer.Block.blockText k d` (bytes, `k` spaces of indentation) is what `description_block_token`
(Props/C08.lean) is about.  Here: `descBlockSafeC t = blockSafeB (utf8 t)` and
`utf8 (indentC^j (descText t)) = blockText (2·j) (utf8 t)` — until now this correspondence was only sampled by the
driver. -/
namespace GqlModel.RoundTrip
open GqlModel GqlModel.Lexer GqlModel.Printer GqlModel.Printer.Block

/-! ## lines -/

theorem splitLF_cons10 (r : (List UInt8)) : splitLF (10 :: r) = [] :: splitLF r := by simp [splitLF]

theorem splitLF_cons_ne {b : UInt8} (hb : b ≠ 10) {r l : (List UInt8)} {ls : List (List UInt8)} (h : splitLF r = l :: ls) :
    splitLF (b :: r) = (b :: l) :: ls := by simp [splitLF, hb, h]

theorem splitLF_append_ne : ∀ bs : (List UInt8), (∀ b ∈ bs, b ≠ 10) → ∀ {r l : (List UInt8)} {ls : List (List UInt8)}, splitLF r = l :: ls →
    splitLF (bs ++ r) = (bs ++ l) :: ls
  | [], _, _, _, _, h => h
  | b :: bs, hb, r, l, ls, h => by
    have ih := splitLF_append_ne bs (fun x hx => hb x (by simp [hx])) h
    exact splitLF_cons_ne (hb b (by simp)) ih

theorem enc_nl : String.utf8EncodeChar '\n' = [10] := by decide
theorem enc_quote : String.utf8EncodeChar '"' = [34] := by decide
theorem enc_space : String.utf8EncodeChar ' ' = [32] := by decide

theorem enc_no10 (c : Char) (hc : c ≠ '\n') : ∀ b ∈ String.utf8EncodeChar c, b ≠ 10 := by
  intro b hb he
  have := compat_nl c b hb
  simp only [he, beq_self_eq_true] at this
  exact hc (by simpa using this.symm)

theorem splitLF_utf8 : ∀ t : Chars, splitLF (utf8 t) = (Printer.splitLines t).map utf8
  | [] => rfl
  | c :: cs => by
    have ih := splitLF_utf8 cs
    by_cases hc : c = '\n'
    · subst hc
      simp only [utf8_cons, enc_nl, List.singleton_append, splitLF_cons10, ih, Printer.splitLines, if_true, List.map_cons,
        utf8_nil]
    · simp only [Printer.splitLines, hc, if_false]
      match hs : Printer.splitLines cs with
      | [] => rw [hs] at ih; exact absurd ih (splitLF_ne_nil _)
      | l :: ls =>
        rw [hs] at ih
        simp only [List.map_cons] at ih ⊢
        rw [utf8_cons, splitLF_append_ne _ (enc_no10 c hc) ih, utf8_cons]

/-! ## `"""` -/

def startsQ : Nat → (List UInt8) → Bool
  | 0, _ => true
  | _+1, [] => false
  | n+1, b :: r => b == 34 && startsQ n r

def startsQC : Nat → Chars → Bool
  | 0, _ => true
  | _+1, [] => false
  | n+1, c :: r => c == '"' && startsQC n r

theorem startsQ_utf8 : ∀ (n : Nat) (cs : Chars), startsQ n (utf8 cs) = startsQC n cs
  | 0, _ => rfl
  | n+1, [] => rfl
  | n+1, c :: cs => by
    by_cases hq : c = '"'
    · subst hq
      simp only [utf8_cons, enc_quote, List.singleton_append, startsQ, startsQC, beq_self_eq_true, Bool.true_and,
        startsQ_utf8 n cs]
    · obtain ⟨b, bs, he, hb⟩ := head_utf8 compat_quote c cs
      have hqb : (c == '"') = false := by simpa using hq
      simp only [hqb] at hb
      simp only [he, startsQ, startsQC, hb, hqb, Bool.false_and]

theorem starts3_eq (bs : (List UInt8)) : starts3 bs = startsQ 3 bs := by
  match bs with
  | [] => rfl
  | [_] => simp [starts3, startsQ]
  | [_, _] => simp [starts3, startsQ]
  | a :: b :: c :: r => simp [starts3, startsQ, Bool.and_assoc]

theorem hasTripleC_cons (c : Char) (cs : Chars) :
    Printer.hasTripleQuote (c :: cs) = (startsQC 3 (c :: cs) || Printer.hasTripleQuote cs) := by
  cases hs : startsQC 3 (c :: cs) with
  | true =>
    match cs, hs with
    | a :: b :: r, hs =>
      simp only [startsQC, Bool.and_true, Bool.and_eq_true, beq_iff_eq] at hs
      obtain ⟨rfl, rfl, rfl⟩ := hs
      rw [Printer.hasTripleQuote.eq_1]; rfl
    | [a], hs => simp [startsQC] at hs
    | [], hs => simp [startsQC] at hs
  | false =>
    rw [Bool.false_or]
    apply Printer.hasTripleQuote.eq_2
    intro tail h1 h2
    subst h1 h2
    simp [startsQC] at hs

theorem hasTriple_high : ∀ (bs : (List UInt8)), (∀ b ∈ bs, 128 ≤ b.toNat) → ∀ r : (List UInt8),
    Block.hasTripleQuote (bs ++ r) = Block.hasTripleQuote r
  | [], _, _ => rfl
  | b :: bs, h, r => by
    have hb : b ≠ 34 := by
      intro he; have := h b (by simp); rw [he] at this; exact absurd this (by decide)
    rw [List.cons_append, hasTriple_cons_ne hb, hasTriple_high bs (fun x hx => h x (by simp [hx]))]

theorem hasTriple_utf8 : ∀ cs : Chars, Block.hasTripleQuote (utf8 cs) = Printer.hasTripleQuote cs
  | [] => rfl
  | c :: cs => by
    rw [hasTripleC_cons, ← hasTriple_utf8 cs]
    rcases enc_cases c with ⟨_, b, he, _⟩ | ⟨hge, hall⟩
    · rw [← startsQ_utf8, utf8_cons, he, List.singleton_append, hasTriple_cons, starts3_eq]
    · have hq : (c == '"') = false := by
        rw [Bool.eq_false_iff]; intro h; simp only [beq_iff_eq] at h; subst h; exact absurd hge (by decide)
      rw [utf8_cons, hasTriple_high _ hall]
      simp [startsQC, hq]

/-! ## `blockStringSafe` -/

theorem isWs_fun : Block.isWs = fun b => b == 32 || b == 9 := rfl

theorem blank_utf8 (l : Chars) : (utf8 l).all Block.isWs = Printer.isBlankLine l := by
  rw [isWs_fun, all_utf8 compat_ws]; rfl

theorem opt_beq_some {α : Type} [BEq α] (o : Option α) (x : α) :
    (o == some x) = (o.map (fun y => y == x)).getD false := by
  cases o <;> rfl

theorem getLast_quote (l : Chars) : ((utf8 l).getLast? == some 34) = (l.getLast? == some '"') := by
  rw [opt_beq_some, opt_beq_some, getLast_utf8 compat_quote]

theorem getLast_bslash (l : Chars) : ((utf8 l).getLast? == some 92) = (l.getLast? == some '\\') := by
  rw [opt_beq_some, opt_beq_some, getLast_utf8 compat_bslash]

theorem col0_utf8 (l : Chars) : Block.startsInColumn0 (utf8 l) = Printer.startsInColumn0 l := by
  cases l with
  | nil => rfl
  | cons c cs =>
    obtain ⟨b, bs, he, hb⟩ := head_utf8 compat_ws c cs
    simp only [he, Block.startsInColumn0, Printer.startsInColumn0, isWs_fun, hb]

theorem okAll_utf8 (t : Chars) :
    (utf8 t).all (fun c => decide (32 ≤ c.toNat) || c == 9 || c == 10) =
      t.all (fun c => decide (c.toNat ≥ 32) || c == '\t' || c == '\n') :=
  all_utf8 (compat_or (compat_or compat_ge32 (compat_eq 9 (by omega) _ rfl _ rfl)) compat_nl) t

theorem getLastD_map (rest : List Chars) : (rest.map utf8).getLast?.getD [] = utf8 (rest.getLast?.getD []) := by
  rw [List.getLast?_map]; cases rest.getLast? <;> rfl

/-- printer.go `blockStringSafe` on characters (what `descC` tests) and on bytes (what the lexer-side proofs use) agree -/
theorem blockSafe_utf8 (t : Chars) : blockSafeB (utf8 t) = descBlockSafeC t := by
  unfold blockSafeB descBlockSafeC
  rw [utf8_isEmpty, hasTriple_utf8, okAll_utf8, splitLF_utf8]
  congr 1
  match Printer.splitLines t with
  | [] => rfl
  | [l] => simp only [List.map_cons, List.map_nil, blank_utf8, getLast_quote, getLast_bslash]
  | first :: second :: rest =>
    simp only [List.map_cons, blank_utf8, List.any_cons, col0_utf8, List.any_map]
    rw [← List.map_cons, getLastD_map, blank_utf8]
    simp only [Function.comp_def, blank_utf8, col0_utf8]

/-! ## the printed text -/

/-- `n` applications of `indent` -/
def indentIter : Nat → Chars → Chars
  | 0, t => t
  | j+1, t => indentC (indentIter j t)

/-- every newline followed by `k` spaces -/
def indentN (k : Nat) : Chars → Chars
  | [] => []
  | c :: cs => if c = '\n' then '\n' :: (List.replicate k ' ' ++ indentN k cs) else c :: indentN k cs

def indentB (k : Nat) : (List UInt8) → (List UInt8)
  | [] => []
  | b :: r => if b = 10 then 10 :: (spaces k ++ indentB k r) else b :: indentB k r

theorem indentN_zero : ∀ cs : Chars, indentN 0 cs = cs
  | [] => rfl
  | c :: cs => by by_cases h : c = '\n' <;> simp [indentN, h, indentN_zero cs]

theorem indentC_spaces (k : Nat) : indentC (List.replicate k ' ') = List.replicate k ' ' := by
  induction k with
  | zero => rfl
  | succ k ih =>
    have : (' ' : Char) ≠ '\n' := by decide
    simp [List.replicate_succ, indentC, this, ih]

theorem indentC_indentN (k : Nat) : ∀ cs : Chars, indentC (indentN k cs) = indentN (k + 2) cs
  | [] => rfl
  | c :: cs => by
    by_cases h : c = '\n'
    · simp [indentN, h, indentC, indentC_append, indentC_spaces, indentC_indentN k cs, List.replicate_succ]
    · simp [indentN, h, indentC, indentC_indentN k cs]

theorem indentIter_eq : ∀ (j : Nat) (t : Chars), indentIter j t = indentN (2 * j) t
  | 0, t => (indentN_zero t).symm
  | j+1, t => by
    rw [indentIter, indentIter_eq j t, indentC_indentN]; congr 1

theorem indentN_no_nl (k : Nat) : ∀ cs : Chars, '\n' ∉ cs → indentN k cs = cs
  | [], _ => rfl
  | c :: cs, h => by
    simp only [List.mem_cons, not_or] at h
    have hc : c ≠ '\n' := fun e => h.1 e.symm
    simp [indentN, hc, indentN_no_nl k cs h.2]

theorem indentB_append (k : Nat) (a b : (List UInt8)) : indentB k (a ++ b) = indentB k a ++ indentB k b := by
  induction a with
  | nil => rfl
  | cons x xs ih => by_cases h : x = 10 <;> simp [indentB, h, ih]

theorem indentB_no10 (k : Nat) : ∀ bs : (List UInt8), (∀ b ∈ bs, b ≠ 10) → indentB k bs = bs
  | [], _ => rfl
  | b :: bs, h => by
    simp [indentB, h b (by simp), indentB_no10 k bs (fun x hx => h x (by simp [hx]))]

theorem utf8_spaces (k : Nat) : utf8 (List.replicate k ' ') = spaces k := by
  induction k with
  | zero => rfl
  | succ k ih => simp [List.replicate_succ, enc_space, ih, spaces]

theorem utf8_indentN (k : Nat) : ∀ cs : Chars, utf8 (indentN k cs) = indentB k (utf8 cs)
  | [] => rfl
  | c :: cs => by
    by_cases h : c = '\n'
    · subst h
      simp [indentN, enc_nl, indentB, utf8_spaces, utf8_indentN k cs]
    · simp only [indentN, h, if_false, utf8_cons, indentB_append, indentB_no10 k _ (enc_no10 c h), utf8_indentN k cs]

theorem indentedLines_splitLF (k : Nat) : ∀ d : (List UInt8), indentedLines k (splitLF d) = 10 :: (spaces k ++ indentB k d)
  | [] => by simp [splitLF, indentedLines, indentB]
  | b :: r => by
    have ih := indentedLines_splitLF k r
    by_cases hb : b = 10
    · subst hb
      rw [splitLF_cons10]
      simp only [indentedLines, ih, indentB, if_true, List.append_nil]
      simp
    · match hs : splitLF r with
      | [] => exact absurd hs (splitLF_ne_nil r)
      | l :: ls =>
        rw [hs] at ih
        simp only [indentedLines, List.cons_append, List.cons.injEq, true_and, List.append_assoc] at ih
        have ih' := List.append_cancel_left ih
        rw [splitLF_cons_ne hb hs]
        simp only [indentedLines, indentB, hb, if_false, List.cons_append, List.append_assoc, ih']

theorem contains_nl_utf8 (t : Chars) : (utf8 t).contains 10 = t.contains '\n' := contains_utf8 compat_nl t

/-- the printed block form of a description (before any `indent`) -/
def descText (t : Chars) : Chars :=
  if t.contains '\n' then tq ++ ['\n'] ++ t ++ ['\n'] ++ tq else tq ++ t ++ tq

theorem utf8_tq : utf8 tq = [34, 34, 34] := by decide

/-- **the bridge for block-string descriptions**: the description text after `j` enclosing `indent`s is, as bytes, the
byte-level `blockText` at indentation `2·j` -/
theorem utf8_descText (j : Nat) (t : Chars) : utf8 (indentIter j (descText t)) = blockText (2 * j) (utf8 t) := by
  rw [indentIter_eq, utf8_indentN]
  unfold descText blockText blockRaw
  rw [contains_nl_utf8]
  by_cases h : t.contains '\n' = true
  · simp only [h, if_true, utf8_append, utf8_tq, utf8_cons, utf8_nil, enc_nl, indentB_append, indentedLines_splitLF]
    simp [indentB]
  · simp only [h, Bool.false_eq_true, if_false, utf8_append, utf8_tq]
    apply indentB_no10
    intro b hb
    simp only [List.mem_append, List.mem_cons, List.mem_nil_iff, or_false] at hb
    have hno : (utf8 t).contains 10 = false := by rw [contains_nl_utf8]; simpa using h
    rcases hb with (hb | hb) | hb
    · rcases hb with rfl | rfl | rfl <;> decide
    · intro he; subst he; simp [hb] at hno
    · rcases hb with rfl | rfl | rfl <;> decide

theorem descC_some (s : String) :
    descC (some s) = if descBlockSafeC s.toList then descText s.toList else quoteC s.toList := by
  simp only [descC, descText]
  by_cases h : descBlockSafeC s.toList = true <;> simp [h]

end GqlModel.RoundTrip
