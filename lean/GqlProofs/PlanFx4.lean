import GqlProofs.PlanFx3
/-! # `FxP`: the `complete` step and the induction -/
namespace GqlModel.Plan
open GqlModel.Exec GqlModel.Coerce

/-- effects that are all flagged `deferred` may simply stay pending -/
theorem acct_pending (X : Fx) (hX : X.AllDf) (dfr : Bool) : Acct X Fx.nil Fx.nil X dfr :=
  ⟨⟨Fx.nil, by simpa using Fx.Perm.refl X⟩, fun _ => by rw [hX.nd]; rfl⟩

theorem allDf_single (p : Path) : (Fx.mk [(p, true)] []).AllDf := by
  constructor
  · intro e he
    simp only [List.mem_singleton] at he
    rw [he]
  · intro e he
    exact absurd he List.not_mem_nil

section fx
variable {c : Ctx} {pv : Option Vars} {rank : String → Nat} {F : Nat}

local notation "alt0" => recompute c.schema c.frags pv

theorem fxP_complete (hac : Acyclic c.frags rank) (hfr : FragsOK c pv) (fuel : Nat) (hle : fuel ≤ F)
    (ih : FxP c pv rank F fuel) :
    ∀ dfr t rt fid fp p v st mst rS stS, (∀ x ∈ fp.nodes, NodeOK c pv rank x.1 x.2) →
    complete c (fuel + 1) dfr t rt fp.fieldName fp.fieldNodes p v st = (rS, stS) → rS ≠ .fuelOut → stS.kfThunk = st.kfThunk →
    FxOut dfr st stS mst Fx.nil (mComplete c alt0 (fuel + 1) dfr t rt fid fp p v mst) (pend c F) := by
  intro dfr t rt fid fp p v st mst rS stS hn h hr hkf
  cases hfo : funcOf v with
  | some r =>
    have hM : mComplete c alt0 (fuel + 1) dfr t rt fid fp p v mst =
        (.ok (.deferred { t := t, rt := rt, fid := fid, fp := fp, path := p, r := r }), mst) := by
      simp only [mComplete, hfo]
    rw [hM]
    -- the two failing shapes
    have hbad : r = none ∨ r = some .err → ∀ st0 : St,
        ((Res.fail : Res JVal), ({ addErr st0 p true with kfThunk := if t.isNonNull then p :: st0.kfThunk else st0.kfThunk } : St))
          = (rS, stS) → st0 = st →
        FxOut dfr st stS mst Fx.nil
          ((Res.ok (PVal.deferred { t := t, rt := rt, fid := fid, fp := fp, path := p, r := r }) : Res PVal), mst) (pend c F) := by
      intro hr' st0 h0 hst0
      subst hst0
      simp only [Prod.mk.injEq] at h0
      obtain ⟨rfl, rfl⟩ := h0
      have hnn : t.isNonNull = false := by
        cases hnn : t.isNonNull with
        | false => rfl
        | true =>
          simp only [hnn, if_true] at hkf
          exact absurd hkf (cons_ne_self _ _)
      refine ⟨⟨[(p, true)], [], []⟩, Fx.nil, by simp only [hnn, Bool.false_eq_true, if_false]; rfl, MExt.refl mst, ?_⟩
      have hw : resPend (pend c F) (Res.ok (PVal.deferred { t := t, rt := rt, fid := fid, fp := fp, path := p, r := r })) =
          ⟨[(p, true)], []⟩ := by
        rcases hr' with rfl | rfl
        · show pend c F _ = _
          simp only [pend, wFx]
        · show pend c F _ = _
          simp only [pend, wFx]
      rw [hw]
      exact acct_pending _ (allDf_single p) dfr
    cases v with
    | badFunc =>
      simp only [funcOf, Option.some.injEq] at hfo
      subst hfo
      simp only [complete] at h
      exact hbad (.inl rfl) st h rfl
    | thunk tr =>
      simp only [funcOf, Option.some.injEq] at hfo
      subst hfo
      cases tr with
      | err =>
        simp only [complete] at h
        exact hbad (.inr rfl) st h rfl
      | ok v' =>
        simp only [complete] at h
        have hk1 := kfExt_complete c fuel true t rt fp.fieldName fp.fieldNodes p v' st
        rcases hS : complete c fuel true t rt fp.fieldName fp.fieldNodes p v' st with ⟨r1, st1⟩
        rw [hS] at h hk1
        simp only at hk1
        -- the run that `wFx` refers to: from the empty state, with the request's fuel
        have key : r1 ≠ .fuelOut → stS = st1 →
            FxOut dfr st stS mst Fx.nil
              ((Res.ok (PVal.deferred { t := t, rt := rt, fid := fid, fp := fp, path := p, r := some (.ok v') }) : Res PVal), mst)
              (pend c F) := by
          intro hne hst
          subst hst
          have hF := complete_fuel_le c hle true t rt fp.fieldName fp.fieldNodes p v' st _ _ hS hne
          obtain ⟨d, hd, hst1⟩ := complete_from_empty c F hF
          refine ⟨d, Fx.nil, hst1, MExt.refl mst, ?_⟩
          have hw : resPend (pend c F) (Res.ok (PVal.deferred { t := t, rt := rt, fid := fid, fp := fp, path := p, r := some (.ok v') })) =
              fxS d := by
            simp only [resPend_ok, pend, wFx, wRun]
            rw [hd]
          rw [hw]
          have hall : (fxS d).AllDf := by
            have := (trueP (c := c) F).complete t rt fp.fieldName fp.fieldNodes p v' St.empty (by rw [fxS_empty]; exact Fx.allDf_nil)
            rw [hd] at this
            exact this
          exact acct_pending _ hall dfr
        cases r1 with
        | ok j =>
          simp only [Prod.mk.injEq] at h
          exact key (by simp) h.2.symm
        | fail =>
          simp only [Prod.mk.injEq] at h
          obtain ⟨rfl, hst⟩ := h
          have hnn : t.isNonNull = false := by
            cases hnn : t.isNonNull with
            | false => rfl
            | true =>
              rw [← hst] at hkf
              simp only [hnn, if_true] at hkf
              obtain ⟨k, hk⟩ := hk1
              have := congrArg List.length hkf
              simp only [List.length_cons, hk, List.length_append] at this
              omega
          simp only [hnn, Bool.false_eq_true, if_false] at hst
          exact key (by simp) hst.symm
        | fuelOut =>
          simp only [Prod.mk.injEq] at h
          exact absurd h.1.symm hr
    | _ => simp [funcOf] at hfo
  | none =>
    rw [complete_succ_notFunc c fuel dfr t rt fp.fieldName fp.fieldNodes p v st (notFunc_of_funcOf hfo)] at h
    have hfail : ∀ (st0 : St), ((Res.fail : Res JVal), addErr st0 p dfr) = (rS, stS) → st0 = st →
        FxOut dfr st stS mst Fx.nil ((Res.fail : Res PVal), mst.addErr p dfr) (pend c F) := by
      intro st0 h0 hst0
      subst hst0
      simp only [Prod.mk.injEq] at h0
      obtain ⟨rfl, rfl⟩ := h0
      exact fxOut_err p dfr rfl
    have hleaf : ∀ (j : JVal), ((Res.ok j : Res JVal), st) = (rS, stS) →
        FxOut dfr st stS mst Fx.nil ((Res.ok (PVal.leaf j) : Res PVal), mst) (pend c F) := by
      intro j h0
      simp only [Prod.mk.injEq] at h0
      obtain ⟨rfl, rfl⟩ := h0
      exact fxOut_ret (.inl (by simp [pend]))
    -- the object / abstract tail
    have hgroups : ∀ ot,
        (match execGroups c fuel dfr ot v p (collectMerged c ot fp.fieldNodes) [] st with
          | (.ok fs, st) => ((Res.ok (JVal.obj fs) : Res JVal), st)
          | (.fail, st) => (.fail, st)
          | (.fuelOut, st) => (.fuelOut, st)) = (rS, stS) →
        FxOut dfr st stS mst Fx.nil
          (match mGroups c alt0 fuel dfr ot v p fid (alt0 mst.memo fid fp ot).1 [] { mst with memo := (alt0 mst.memo fid fp ot).2 } with
            | (.ok fs, st) => ((Res.ok (PVal.obj fs) : Res PVal), st)
            | (.fail, st) => (.fail, st)
            | (.fuelOut, st) => (.fuelOut, st)) (pend c F) := by
      intro ot h
      obtain ⟨hgo, hfps⟩ := planMerged_sim (rt := ot) hac hfr fp.nodes hn
      have hsub : (alt0 mst.memo fid fp ot).1 = planMerged c.schema c.frags pv ot fp.nodes := rfl
      have hmst : ({ mst with memo := (alt0 mst.memo fid fp ot).2 } : MSt) = mst := rfl
      rw [hsub, hmst]
      have hfn : fp.fieldNodes = fp.nodes.map (·.1) := rfl
      rw [hfn, ← hgo] at h
      rcases hS : execGroups c fuel dfr ot v p (groupsOf (planMerged c.schema c.frags pv ot fp.nodes)) [] st with ⟨r1, st1⟩
      rw [hS] at h
      rcases hM1 : mGroups c alt0 fuel dfr ot v p fid (planMerged c.schema c.frags pv ot fp.nodes) [] mst with ⟨rM1, mst1⟩
      have hst : stS = st1 ∧ r1 ≠ .fuelOut := by
        cases r1 <;> simp only [Prod.mk.injEq] at h
        · exact ⟨h.2.symm, by simp⟩
        · exact ⟨h.2.symm, by simp⟩
        · exact absurd h.1.symm hr
      obtain ⟨rfl, hr1⟩ := hst
      have hdat := (genP (F := F) hac hfr fuel hle).groups dfr ot v p fid _ [] [] st mst _ _ hfps .nil hS hr1 hkf
      have hfx := ih.groups dfr ot v p fid _ [] [] st mst _ _ hfps .nil hS hr1 hkf
      simp only [hM1] at hdat hfx
      have hnil : pendF c F [] = Fx.nil := by simp [pendF]
      rw [hnil] at hfx
      cases r1 with
      | ok fs =>
        obtain ⟨pfs, hp, _⟩ := hdat
        subst hp
        exact fxOut_conv hfx (.inl (by simp [pend]))
      | fail =>
        subst hdat
        exact fxOut_conv hfx (.inr rfl)
      | fuelOut => exact absurd rfl hr1
    simp only [mComplete, hfo]
    cases t with
    | nonNull inner =>
      simp only [completeBody] at h
      simp only
      have hk1 := kfExt_complete c fuel dfr inner rt fp.fieldName fp.fieldNodes p v st
      rcases hS : complete c fuel dfr inner rt fp.fieldName fp.fieldNodes p v st with ⟨r1, st1⟩
      rw [hS] at h hk1
      simp only at hk1
      rcases hM1 : mComplete c alt0 fuel dfr inner rt fid fp p v mst with ⟨rM1, mst1⟩
      cases r1 with
      | ok j =>
        have hk : st1.kfThunk = st.kfThunk := by
          by_cases hj : j = .null
          · subst hj
            simp only [Prod.mk.injEq] at h
            rw [← h.2] at hkf
            exact hkf
          · split at h
            · rename_i heq
              simp only [Prod.mk.injEq, Res.ok.injEq] at heq
              exact absurd heq.1 hj
            · simp only [Prod.mk.injEq] at h
              rw [← h.2] at hkf
              exact hkf
        have hdat := (genP (F := F) hac hfr fuel hle).complete dfr inner rt fid fp p v st mst _ _ hn hS (by simp) hk
        have hfx := ih.complete dfr inner rt fid fp p v st mst _ _ hn hS (by simp) hk
        simp only [CompleteRel, hM1] at hdat hfx
        obtain ⟨x, hx, hsv⟩ := hdat
        subst hx
        have hnd : ∀ cl, x ≠ .deferred cl :=
          mComplete_not_deferred fuel dfr inner rt fid fp p v mst hfo x (by rw [hM1])
        by_cases hj : j = .null
        · subst hj
          have hx := (sv_null_iff hsv hnd).2 rfl
          subst hx
          simp only [Prod.mk.injEq] at h
          obtain ⟨rfl, rfl⟩ := h
          exact fxOut_then_err hfx p dfr rfl
        · split at h
          · rename_i heq
            simp only [Prod.mk.injEq, Res.ok.injEq] at heq
            exact absurd heq.1 hj
          simp only [Prod.mk.injEq] at h
          obtain ⟨rfl, rfl⟩ := h
          have hx : x ≠ .leaf .null := fun hx => hj ((sv_null_iff hsv hnd).1 hx)
          split
          · rename_i heq
            simp only [Prod.mk.injEq, Res.ok.injEq] at heq
            exact absurd heq.1 hx
          · exact hfx
      | fail =>
        simp only [Prod.mk.injEq] at h
        obtain ⟨rfl, rfl⟩ := h
        have hdat := (genP (F := F) hac hfr fuel hle).complete dfr inner rt fid fp p v st mst _ _ hn hS (by simp) hkf
        have hfx := ih.complete dfr inner rt fid fp p v st mst _ _ hn hS (by simp) hkf
        simp only [CompleteRel, hM1] at hdat hfx
        rcases hdat with hc | ⟨cl, _, hne, _, _⟩
        · subst hc; exact hfx
        · exact absurd hfo hne
      | fuelOut =>
        simp only [Prod.mk.injEq] at h
        exact absurd h.1.symm hr
    | list item =>
      simp only [completeBody] at h
      simp only
      by_cases hnull : v.nullish = true
      · simp only [hnull, if_true] at h ⊢; exact hleaf _ h
      · simp only [hnull, Bool.false_eq_true, if_false] at h ⊢
        cases v with
        | list xs =>
          simp only [listOf]
          simp only at h
          rcases hS : completeItems c fuel dfr item rt fp.fieldName fp.fieldNodes p xs 0 [] st with ⟨r1, st1⟩
          rw [hS] at h
          rcases hM1 : mItems c alt0 fuel dfr item rt fid fp p xs 0 [] mst with ⟨rM1, mst1⟩
          have hst : stS = st1 ∧ r1 ≠ .fuelOut := by
            cases r1 <;> simp only [Prod.mk.injEq] at h
            · exact ⟨h.2.symm, by simp⟩
            · exact ⟨h.2.symm, by simp⟩
            · exact absurd h.1.symm hr
          obtain ⟨rfl, hr1⟩ := hst
          have hdat := (genP (F := F) hac hfr fuel hle).items dfr item rt fid fp p xs 0 [] [] st mst _ _ hn .nil hS hr1 hkf
          have hfx := ih.items dfr item rt fid fp p xs 0 [] [] st mst _ _ hn .nil hS hr1 hkf
          simp only [hM1] at hdat hfx
          have hnil : pendL c F [] = Fx.nil := by simp [pendL]
          rw [hnil] at hfx
          cases r1 with
          | ok js =>
            obtain ⟨ys, hy, _⟩ := hdat
            subst hy
            exact fxOut_conv hfx (.inl (by simp [pend]))
          | fail =>
            subst hdat
            exact fxOut_conv hfx (.inr rfl)
          | fuelOut => exact absurd rfl hr1
        | _ => simp only [listOf]; exact hfail _ h rfl
    | named n =>
      simp only [completeBody] at h
      simp only
      by_cases hnull : v.nullish = true
      · simp only [hnull, if_true] at h ⊢; exact hleaf _ h
      · simp only [hnull, Bool.false_eq_true, if_false] at h ⊢
        by_cases hleaf' : c.schema.isLeaf n = true
        · simp only [hleaf', if_true] at h ⊢
          cases hs : serializeLeaf c.schema n v with
          | none => simp only [hs] at h ⊢; exact hfail _ h rfl
          | some j => simp only [hs] at h ⊢; exact hleaf _ h
        · simp only [hleaf', Bool.false_eq_true, if_false] at h ⊢
          by_cases habs : c.schema.isAbstract n = true
          · simp only [habs, if_true] at h ⊢
            cases hrt : runtimeTypeOf c n v with
            | none => simp only [hrt] at h ⊢; exact hfail _ h rfl
            | some ot =>
              simp only [hrt] at h ⊢
              by_cases hposs : (!(c.schema.isObject ot && c.schema.isPossibleType n ot)) = true
              · simp only [hposs, if_true] at h ⊢; exact hfail _ h rfl
              · simp only [hposs, Bool.false_eq_true, if_false] at h ⊢
                exact hgroups ot h
          · simp only [habs, Bool.false_eq_true, if_false] at h ⊢
            by_cases hobj : c.schema.isObject n = true
            · simp only [hobj, if_true] at h ⊢
              by_cases hito : (objectHasIsTypeOf c.schema n && !c.world.isTypeOfAns n v) = true
              · simp only [hito, if_true] at h ⊢; exact hfail _ h rfl
              · simp only [hito, Bool.false_eq_true, if_false] at h ⊢
                exact hgroups n h
            · simp only [hobj, Bool.false_eq_true, if_false] at h ⊢; exact hfail _ h rfl

/-- phase one of M (memo-free instance) against the algorithm, with deferred values, outside D-04c: the effects -/
theorem fxP (hac : Acyclic c.frags rank) (hfr : FragsOK c pv) : ∀ fuel, fuel ≤ F → FxP c pv rank F fuel
  | 0, _ => fxP_zero
  | fuel + 1, hle =>
    have hle' := Nat.le_of_succ_le hle
    have ih := fxP hac hfr fuel hle'
    ⟨fxP_groups hac hfr fuel hle' ih, fxP_field hac hfr fuel hle' ih, fxP_complete hac hfr fuel hle' ih,
     fxP_items hac hfr fuel hle' ih⟩

end fx

end GqlModel.Plan
