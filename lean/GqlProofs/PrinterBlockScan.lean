import GqlProofs.PrinterBlock
/-! The lexer's block-string scan of a printed block-safe description ends exactly at the printed closing quotes and
returns the text between the quotes verbatim (no premature `"""`, no `\"""` escape, no rejected control byte). -/
namespace GqlModel.Printer.Block
open GqlModel.Lexer GqlModel.Lexer.Spec

/-- a byte the block-string scan accepts -/
def okByte (c : UInt8) : Prop := ¬ (c.toNat < 32 ∧ c ≠ 9 ∧ c ≠ 10 ∧ c ≠ 13)

theorem starts3_cons3 (a b c : UInt8) (r : Bytes) : starts3 (a :: b :: c :: r) = (a == 34 && b == 34 && c == 34) := rfl

theorem hasTriple_cons (c : UInt8) (r : Bytes) : hasTripleQuote (c :: r) = (starts3 (c :: r) || hasTripleQuote r) := rfl

/-- one step of the scan over an ordinary byte -/
theorem blockBody_step (c q1 q2 q3 : UInt8) (r3 : Bytes) (h1 : ¬ (c = 34 ∧ q1 = 34 ∧ q2 = 34)) (h2 : okByte c)
    (h3 : ¬ (c = 92 ∧ q1 = 34 ∧ q2 = 34 ∧ q3 = 34)) :
    blockBody (c :: q1 :: q2 :: q3 :: r3) = adv 1 [c] (blockBody (q1 :: q2 :: q3 :: r3)) := by
  rw [blockBody]
  simp only [h1, if_false, h3]
  rw [if_neg h2]

theorem blockBody_close (rest : Bytes) : blockBody (34 :: 34 :: 34 :: rest) = .ok (3, []) := by
  cases rest with
  | nil => simp [blockBody]
  | cons x xs => simp [blockBody]

/-- the scan of `b` followed by the closing quotes -/
theorem blockBody_scan (rest : Bytes) : ∀ b : Bytes, hasTripleQuote (b ++ [34, 34]) = false → b.getLast? ≠ some 92 →
    (∀ c ∈ b, okByte c) → blockBody (b ++ 34 :: 34 :: 34 :: rest) = .ok (b.length + 3, b)
  | [], _, _, _ => by simpa using blockBody_close rest
  | c :: b', h1, h2, h3 => by
    have hc : okByte c := h3 c (by simp)
    have h1' : hasTripleQuote (b' ++ [34, 34]) = false := by
      simp only [List.cons_append, hasTriple_cons, Bool.or_eq_false_iff] at h1; exact h1.2
    have hs : starts3 (c :: (b' ++ [34, 34])) = false := by
      simp only [List.cons_append, hasTriple_cons, Bool.or_eq_false_iff] at h1; exact h1.1
    have h2' : b'.getLast? ≠ some 92 := by
      cases b' with
      | nil => simp
      | cons x xs => simpa using h2
    have ih := blockBody_scan rest b' h1' h2' (fun x hx => h3 x (by simp [hx]))
    -- expose the next three bytes
    cases b' with
    | nil =>
      -- c is the last byte: followed by the three closing quotes
      have hc34 : c ≠ 34 := by
        intro e; subst e; simp [starts3] at hs
      have hc92 : c ≠ 92 := by simpa using h2
      simp only [List.nil_append, List.cons_append] at ih ⊢
      cases rest with
      | nil =>
        have : blockBody [c, 34, 34, 34] = adv 1 [c] (blockBody [34, 34, 34]) :=
          blockBody_step c 34 34 34 [] (by simp [hc34]) hc (by simp [hc92])
        rw [this, ih]; simp [adv]
      | cons x xs =>
        have : blockBody (c :: 34 :: 34 :: 34 :: x :: xs) = adv 1 [c] (blockBody (34 :: 34 :: 34 :: x :: xs)) :=
          blockBody_step c 34 34 34 (x :: xs) (by simp [hc34]) hc (by simp [hc92])
        rw [this, ih]; simp [adv]
    | cons x b'' =>
      cases b'' with
      | nil =>
        -- c x " " "
        have hnot : ¬ (c = 34 ∧ x = 34 ∧ (34 : UInt8) = 34) := by
          intro ⟨e1, e2, _⟩; subst e1; subst e2; simp [starts3] at hs
        have hx34 : x ≠ 34 := by
          intro e; subst e
          simp only [List.cons_append, List.nil_append, hasTriple_cons, Bool.or_eq_false_iff] at h1'
          simp [starts3] at h1'
        simp only [List.cons_append, List.nil_append] at ih ⊢
        have : blockBody (c :: x :: 34 :: 34 :: 34 :: rest) = adv 1 [c] (blockBody (x :: 34 :: 34 :: 34 :: rest)) :=
          blockBody_step c x 34 34 (34 :: rest) hnot hc (by intro ⟨_, e, _⟩; exact hx34 e)
        rw [this, ih]; simp [adv]
      | cons y b''' =>
        cases b''' with
        | nil =>
          -- c x y " " "
          have hnot : ¬ (c = 34 ∧ x = 34 ∧ y = 34) := by
            intro ⟨e1, e2, e3⟩; subst e1; subst e2; subst e3; simp [starts3] at hs
          have hesc : ¬ (c = 92 ∧ x = 34 ∧ y = 34 ∧ (34 : UInt8) = 34) := by
            intro ⟨_, e2, e3, _⟩; subst e2; subst e3
            simp only [List.cons_append, List.nil_append, hasTriple_cons, Bool.or_eq_false_iff] at h1'
            simp [starts3] at h1'
          simp only [List.cons_append, List.nil_append] at ih ⊢
          have : blockBody (c :: x :: y :: 34 :: 34 :: 34 :: rest) = adv 1 [c] (blockBody (x :: y :: 34 :: 34 :: 34 :: rest)) :=
            blockBody_step c x y 34 (34 :: 34 :: rest) hnot hc hesc
          rw [this, ih]; simp [adv]
        | cons z b4 =>
          have hnot : ¬ (c = 34 ∧ x = 34 ∧ y = 34) := by
            intro ⟨e1, e2, e3⟩; subst e1; subst e2; subst e3; simp [starts3] at hs
          have hesc : ¬ (c = 92 ∧ x = 34 ∧ y = 34 ∧ z = 34) := by
            intro ⟨_, e2, e3, e4⟩; subst e2; subst e3; subst e4
            simp only [List.cons_append, hasTriple_cons, Bool.or_eq_false_iff] at h1'
            simp [starts3] at h1'
          simp only [List.cons_append] at ih ⊢
          have : blockBody (c :: x :: y :: z :: (b4 ++ 34 :: 34 :: 34 :: rest)) =
              adv 1 [c] (blockBody (x :: y :: z :: (b4 ++ 34 :: 34 :: 34 :: rest))) :=
            blockBody_step c x y z _ hnot hc hesc
          rw [this, ih]; simp [adv]

/-! ## the printed text satisfies the three conditions of the scan -/

theorem hasTriple_cons_ne {c : UInt8} (hc : c ≠ 34) (r : Bytes) : hasTripleQuote (c :: r) = hasTripleQuote r := by
  rw [hasTriple_cons]
  have : starts3 (c :: r) = false := by
    match r with
    | [] => rfl
    | [_] => rfl
    | a :: b :: _ => simp [starts3, hc]
  simp [this]

theorem hasTriple_spaces_append (k : Nat) (x : Bytes) : hasTripleQuote (spaces k ++ x) = hasTripleQuote x := by
  induction k with
  | zero => simp [spaces]
  | succ n ih =>
    have : spaces (n + 1) = 32 :: spaces n := by simp [spaces, List.replicate_succ]
    rw [this, List.cons_append, hasTriple_cons_ne (by decide), ih]

theorem starts3_append_sep (x : UInt8) (a : Bytes) {c : UInt8} (hc : c ≠ 34) (b : Bytes) :
    starts3 (x :: (a ++ c :: b)) = starts3 (x :: a) := by
  match a with
  | [] =>
    match b with
    | [] => rfl
    | y :: _ => simp [starts3, hc]
  | [y] => simp [starts3, hc]
  | y :: z :: _ => rfl

theorem hasTriple_append_sep : ∀ (a : Bytes) {c : UInt8} (_ : c ≠ 34) (b : Bytes),
    hasTripleQuote (a ++ c :: b) = (hasTripleQuote a || hasTripleQuote b)
  | [], c, hc, b => by simp [hasTriple_cons_ne hc, hasTripleQuote]
  | x :: a, c, hc, b => by
    rw [List.cons_append, hasTriple_cons, hasTriple_cons, starts3_append_sep x a hc b,
      hasTriple_append_sep a hc b, Bool.or_assoc]

theorem hasTriple_joinLines : ∀ ls : List Bytes, hasTripleQuote (joinLines ls) = ls.any hasTripleQuote
  | [] => rfl
  | [l] => by simp [joinLines]
  | l :: m :: ls => by
    have ih := hasTriple_joinLines (m :: ls)
    simp only [joinLines, List.any_cons] at ih ⊢
    rw [hasTriple_append_sep l (by decide), ih]

theorem indentedLines_head' (k : Nat) (ls : List Bytes) (z : Bytes) :
    ∃ y, indentedLines k ls ++ 10 :: z = 10 :: y := by
  cases ls with
  | nil => exact ⟨z, rfl⟩
  | cons l ls => simp only [indentedLines, List.cons_append, List.append_assoc]; exact ⟨_, rfl⟩

theorem hasTriple_indentedLines (k : Nat) (z : Bytes) : ∀ ls : List Bytes,
    hasTripleQuote (indentedLines k ls ++ 10 :: z) = (ls.any hasTripleQuote || hasTripleQuote z)
  | [] => by simp [indentedLines, hasTriple_cons_ne]
  | l :: ls => by
    have ih := hasTriple_indentedLines k z ls
    obtain ⟨y, hy⟩ := indentedLines_head' k ls z
    rw [hy, hasTriple_cons_ne (by decide)] at ih
    simp only [indentedLines, List.cons_append, List.append_assoc]
    rw [hasTriple_cons_ne (by decide), hy, ← List.append_assoc, hasTriple_append_sep _ (by decide),
      hasTriple_spaces_append, ih]
    simp [Bool.or_assoc]

theorem noTriple_append_quotes : ∀ x : Bytes, hasTripleQuote x = false → x.getLast? ≠ some 34 →
    hasTripleQuote (x ++ [34, 34]) = false
  | [], _, _ => by decide
  | [a], _, h2 => by
    have : a ≠ 34 := by simpa using h2
    simp [hasTripleQuote, starts3, this]
  | [a, b], _, h2 => by
    have : b ≠ 34 := by simpa using h2
    simp [hasTripleQuote, starts3, this]
  | a :: b :: c :: r, h1, h2 => by
    rw [hasTriple_cons, Bool.or_eq_false_iff] at h1
    have ih := noTriple_append_quotes (b :: c :: r) h1.2 (by simpa using h2)
    rw [List.cons_append, hasTriple_cons, ih]
    have : starts3 (a :: ((b :: c :: r) ++ [34, 34])) = starts3 (a :: b :: c :: r) := rfl
    rw [this, h1.1]; rfl

theorem getLast_indented (k : Nat) (x : Bytes) : (x ++ 10 :: spaces k).getLast? ≠ some 92 := by
  rw [List.getLast?_append]
  cases k with
  | zero => simp [spaces]
  | succ n =>
    have : (10 :: spaces (n + 1)).getLast? = some 32 := by
      have e : (10 : UInt8) :: spaces (n + 1) = (10 :: spaces n) ++ [32] := by
        simp [spaces, List.replicate_succ']
      rw [e, List.getLast?_append]; rfl
    simp [this]

theorem okByte_of_safe {c : UInt8} (h : 32 ≤ c.toNat ∨ c = 9 ∨ c = 10) : okByte c := by
  intro ⟨h1, h2, h3, _⟩
  rcases h with h | h | h
  · omega
  · exact h2 h
  · exact h3 h

theorem mem_indentedLines (k : Nat) : ∀ (ls : List Bytes) (c : UInt8), c ∈ indentedLines k ls →
    c = 10 ∨ c = 32 ∨ ∃ l ∈ ls, c ∈ l
  | [], c, h => by simp [indentedLines] at h
  | l :: ls, c, h => by
    simp only [indentedLines, List.cons_append, List.mem_cons, List.mem_append] at h
    rcases h with h | (h | h) | h
    · exact Or.inl h
    · right; left; simp [spaces] at h; exact h.2
    · right; right; exact ⟨l, by simp, h⟩
    · rcases mem_indentedLines k ls c h with h | h | ⟨m, hm, hc⟩
      · exact Or.inl h
      · exact Or.inr (Or.inl h)
      · exact Or.inr (Or.inr ⟨m, by simp [hm], hc⟩)

/-- **the scan**: the lexer's block-string body scan of the printed description followed by the closing quotes (and
anything after them) succeeds, consumes exactly the printed text, and returns it verbatim -/
theorem blockBody_blockRaw (k : Nat) (d rest : Bytes) (h : blockSafeB d = true) :
    blockBody (blockRaw k d ++ 34 :: 34 :: 34 :: rest) = .ok ((blockRaw k d).length + 3, blockRaw k d) := by
  have hf := safeFacts h
  have hjoin := joinLines_splitLF d
  apply blockBody_scan
  · -- no `"""` before the closing quotes
    rcases hf.shape with ⟨l, hs, _, h34, _⟩ | ⟨first, second, rest', hs, _⟩
    · have hnc : d.contains 10 = false := by
        cases hc : d.contains 10 with
        | false => rfl
        | true => obtain ⟨a, b, r, e⟩ := (contains_lf_iff d).mp hc; rw [hs] at e; simp at e
      rw [hs] at hjoin; simp only [joinLines] at hjoin; subst hjoin
      simp only [blockRaw, hnc, Bool.false_eq_true, if_false]
      exact noTriple_append_quotes _ hf.noTriple h34
    · have hc : d.contains 10 = true := (contains_lf_iff d).mpr ⟨first, second, rest', hs⟩
      have hlines : (splitLF d).any hasTripleQuote = false := by
        rw [← hasTriple_joinLines, hjoin]; exact hf.noTriple
      simp only [blockRaw, hc, if_true, List.append_assoc, List.cons_append]
      rw [hasTriple_indentedLines, hlines, hasTriple_spaces_append]
      decide
  · -- the text does not end in a backslash
    rcases hf.shape with ⟨l, hs, _, _, h92⟩ | ⟨first, second, rest', hs, _⟩
    · have hnc : d.contains 10 = false := by
        cases hc : d.contains 10 with
        | false => rfl
        | true => obtain ⟨a, b, r, e⟩ := (contains_lf_iff d).mp hc; rw [hs] at e; simp at e
      rw [hs] at hjoin; simp only [joinLines] at hjoin; subst hjoin
      simp only [blockRaw, hnc, Bool.false_eq_true, if_false]
      exact h92
    · have hc : d.contains 10 = true := (contains_lf_iff d).mpr ⟨first, second, rest', hs⟩
      simp only [blockRaw, hc, if_true]
      exact getLast_indented k _
  · -- every byte is one the scan accepts
    intro c hc
    by_cases hnl : d.contains 10 = true
    · simp only [blockRaw, hnl, if_true, List.mem_append, List.mem_cons] at hc
      rcases hc with hc | hc | hc
      · rcases mem_indentedLines k _ c hc with h | h | ⟨l, hl, hcl⟩
        · subst h; exact okByte_of_safe (Or.inr (Or.inr rfl))
        · subst h; exact okByte_of_safe (Or.inl (by decide))
        · exact okByte_of_safe (hf.bytesOK c (mem_splitLF d l c hl hcl).1)
      · subst hc; exact okByte_of_safe (Or.inr (Or.inr rfl))
      · simp [spaces] at hc; rw [hc.2]; exact okByte_of_safe (Or.inl (by decide))
    · simp only [blockRaw, hnl, if_false] at hc
      exact okByte_of_safe (hf.bytesOK c hc)

end GqlModel.Printer.Block
