import GqlModel.Visitor
/-! Simulation lemmas for C14: running the machine over a subtree emits what the reference walk emits
and returns to the same continuation, or breaks. -/
namespace GqlModel.Visitor
variable {σ : Type}

theorem runN_add (v : Visitor σ) (a b : Nat) (m : MS) (st : σ) :
    runN v (a + b) m st = runN v b (runN v a m st).1 (runN v a m st).2 := by
  induction a generalizing m st with
  | zero => simp [runN]
  | succ a ih =>
    have : a + 1 + b = (a + b) + 1 := by omega
    rw [this]; simp only [runN]; rw [ih]

theorem run_one (v : Visitor σ) (m : MS) (st : σ) : runN v 1 m st = step v m st := by simp [runN]

def fin (b : Bool) (s : St) : MS := if b then .broken else .run s

mutual
theorem sim_node (v : Visitor σ) : ∀ (n : Node) (s : St) (k : Key) (after : Keys) (st : σ), s.stack ≠ [] →
    ∃ N, (let r := enterNode v s n (some k) after st; runN v N r.1 r.2) =
      (fin (visitNode v n ⟨some k, s.parent, s.path ++ [k], s.anc⟩ st).2 { s with keys := after },
       (visitNode v n ⟨some k, s.parent, s.path ++ [k], s.anc⟩ st).1)
  | .mk id slots, s, k, after, st, hst => by
    rcases hE : v.enter st id ⟨some k, s.parent, s.path ++ [k], s.anc⟩ with ⟨st1, a⟩
    cases a with
    | brk => exact ⟨0, by simp [enterNode, visitNode, hE, runN, fin]⟩
    | skip => exact ⟨0, by simp [enterNode, visitNode, hE, runN, fin]⟩
    | cont =>
      let s1 : St := { keys := .slots slots, stack := after :: s.stack, parent := some id,
                       path := s.path ++ [k], anc := s.anc ++ [s.parent] }
      obtain ⟨N, hN⟩ := sim_slots v slots s1 id st1 rfl rfl (by simp [s1])
      rcases hV : visitSlots v id (s.path ++ [k]) (s.anc ++ [s.parent]) slots st1 with ⟨st2, b⟩
      simp only [s1, hV] at hN
      cases b with
      | true =>
        refine ⟨N, ?_⟩
        simp only [enterNode, hE, visitNode, hV]
        simp only [fin, if_true] at hN
        simp [hN, fin]
      | false =>
        refine ⟨N + 1, ?_⟩
        simp only [enterNode, hE, visitNode, hV]
        rw [runN_add, hN, run_one]
        have hne : s.stack.isEmpty = false := by cases hs : s.stack <;> simp_all
        rcases hL : v.leave st2 id ⟨some k, s.parent, s.path, s.anc⟩ with ⟨st3, a⟩
        cases a <;>
          simp [fin, step, leaveFrame, hL, hne, List.dropLast_concat, List.getLast?_append]
theorem sim_slots (v : Visitor σ) : ∀ (ss : List Slot) (s : St) (pid : Nat) (st : σ), s.keys = .slots ss →
    s.parent = some pid → s.stack ≠ [] →
    ∃ N, runN v N (.run s) st =
      (fin (visitSlots v pid s.path s.anc ss st).2 { s with keys := .slots [] }, (visitSlots v pid s.path s.anc ss st).1)
  | [], s, pid, st, hk, hp, hst => ⟨0, by
      obtain ⟨keys, stack, parent, path, anc⟩ := s
      simp at hk; subst hk
      simp [runN, visitSlots, fin]⟩
  | .absent key :: rest, s, pid, st, hk, hp, hst => by
      obtain ⟨N, hN⟩ := sim_slots v rest { s with keys := .slots rest } pid st rfl hp hst
      refine ⟨1 + N, ?_⟩
      obtain ⟨keys, stack, parent, path, anc⟩ := s
      simp at hk; subst hk
      rw [runN_add, run_one]
      simp only [step]
      rw [hN]
      simp [visitSlots]
  | .one key n :: rest, s, pid, st, hk, hp, hst => by
      obtain ⟨N1, h1⟩ := sim_node v n s (.name key) (.slots rest) st hst
      obtain ⟨keys, stack, parent, path, anc⟩ := s
      simp at hk hp; subst hk; subst hp
      rcases hV : visitNode v n ⟨some (.name key), some pid, path ++ [.name key], anc⟩ st with ⟨st1, b⟩
      simp only [hV] at h1
      cases b with
      | true =>
        refine ⟨1 + N1, ?_⟩
        rw [runN_add, run_one]
        simp only [step]
        simp only [fin, if_true] at h1
        rw [h1]
        simp [visitSlots, hV, fin]
      | false =>
        obtain ⟨N2, h2⟩ := sim_slots v rest ⟨.slots rest, stack, some pid, path, anc⟩ pid st1 rfl rfl hst
        refine ⟨1 + (N1 + N2), ?_⟩
        rw [runN_add, run_one, runN_add]
        simp only [step]
        simp only [fin, Bool.false_eq_true, if_false] at h1
        rw [h1]
        simp only [] at h2
        rw [h2]
        simp [visitSlots, hV, fin]
  | .many key n ns :: rest, s, pid, st, hk, hp, hst => by
      obtain ⟨keys, stack, parent, path, anc⟩ := s
      simp at hk hp; subst hk; subst hp
      let s2 : St := { keys := .elems (n :: ns) 0, stack := .slots rest :: stack, parent := none,
                       path := path ++ [.name key], anc := anc ++ [some pid] }
      obtain ⟨N1, h1⟩ := sim_elems v (n :: ns) 0 s2 st rfl rfl (by simp [s2])
      rcases hV : visitElems v (path ++ [.name key]) (anc ++ [some pid]) (n :: ns) 0 st with ⟨st1, b⟩
      simp only [s2, hV] at h1
      cases b with
      | true =>
        refine ⟨1 + N1, ?_⟩
        rw [runN_add, run_one]
        simp only [step]
        simp only [fin, if_true] at h1
        rw [h1]
        simp [visitSlots, hV, fin]
      | false =>
        obtain ⟨N2, h2⟩ := sim_slots v rest ⟨.slots rest, stack, some pid, path, anc⟩ pid st1 rfl rfl hst
        refine ⟨1 + (N1 + (1 + N2)), ?_⟩
        rw [runN_add, run_one, runN_add, runN_add, run_one]
        simp only [step]
        simp only [fin, Bool.false_eq_true, if_false] at h1
        rw [h1]
        simp only [step, leaveFrame, List.dropLast_concat, List.getLast?_append, List.getLast?_singleton,
          Option.some_or, Option.join, Option.bind_some, id_eq]
        simp only [] at h2
        rw [h2]
        simp [visitSlots, hV, fin]
theorem sim_elems (v : Visitor σ) : ∀ (ns : List Node) (i : Nat) (s : St) (st : σ), s.keys = .elems ns i →
    s.parent = none → s.stack ≠ [] →
    ∃ N, runN v N (.run s) st =
      (fin (visitElems v s.path s.anc ns i st).2 { s with keys := .elems [] (i + ns.length) },
       (visitElems v s.path s.anc ns i st).1)
  | [], i, s, st, hk, hp, hst => ⟨0, by
      obtain ⟨keys, stack, parent, path, anc⟩ := s
      simp at hk; subst hk
      simp [runN, visitElems, fin]⟩
  | n :: ns, i, s, st, hk, hp, hst => by
      obtain ⟨N1, h1⟩ := sim_node v n s (.idx i) (.elems ns (i+1)) st hst
      obtain ⟨keys, stack, parent, path, anc⟩ := s
      simp at hk hp; subst hk; subst hp
      rcases hV : visitNode v n ⟨some (.idx i), none, path ++ [.idx i], anc⟩ st with ⟨st1, b⟩
      simp only [hV] at h1
      cases b with
      | true =>
        refine ⟨1 + N1, ?_⟩
        rw [runN_add, run_one]
        simp only [step]
        simp only [fin, if_true] at h1
        rw [h1]
        simp [visitElems, hV, fin]
      | false =>
        obtain ⟨N2, h2⟩ := sim_elems v ns (i+1) ⟨.elems ns (i+1), stack, none, path, anc⟩ st1 rfl rfl hst
        refine ⟨1 + (N1 + N2), ?_⟩
        rw [runN_add, run_one, runN_add]
        simp only [step]
        simp only [fin, Bool.false_eq_true, if_false] at h1
        rw [h1]
        simp only [] at h2
        rw [h2]
        have : i + 1 + ns.length = i + (ns.length + 1) := by omega
        simp [visitElems, hV, fin, this]
end

end GqlModel.Visitor
