import GqlModel.Plan
/-! # Generic invariants of plan-time collection; addresses of field plans

* `collectInto_inv`: any property of `sp.fields` that `addField` preserves is preserved by `collectInto` (every regime, every
  fragment table — cyclic, undefined, duplicated ones included).
* `KeysNodup`: a response key sits at one position of a planned field list (the `keyed` index of plan.go).
* `At`: the address (`FpId`) of a field plan in the lazily unfolded plan tree, and its functionality: one address, one field plan.
  This is what makes "the `*fieldPlan` pointer" and "the path of (runtime type, response key) pairs" interchangeable. -/
namespace GqlModel.Plan
open GqlModel.Exec GqlModel.Coerce

section inv
variable {s : Schema} {frags : List (String × Definition)} {pv : Option Vars} {rt : String}
variable (I : List FieldPlan → Prop)

def ExpInv (expP : String → Pred → Chain → PAcc → PAcc) : Prop := ∀ n pp ch pa, I pa.1 → I (expP n pp ch pa).1

variable {I}
variable {expP : String → Pred → Chain → PAcc → PAcc}

mutual
theorem collectSelP_inv (hadd : ∀ fps f ch pred, I fps → I (addField s rt fps f ch pred)) (he : ExpInv I expP) :
    ∀ (x : Selection) (pp : Pred) (ch : Chain) (pa : PAcc), I pa.1 → I (collectSelP s pv rt expP x pp ch pa).1
  | .field alias name args dirs sel loc, pp, ch, (fps, vis), h => by
    rcases hd : planDirectives s pv dirs with ⟨pred, b⟩
    cases b
    · simp only [collectSelP, hd]; exact hadd _ _ _ _ h
    · simp only [collectSelP, hd]; exact h
  | .inline tc dirs (.mk inner l1) l2, pp, ch, pa, h => by
    rcases hd : planDirectives s pv dirs with ⟨pred, b⟩
    cases b
    · simp only [collectSelP, hd]
      by_cases hc : condApplies s tc rt = true
      · simp only [hc, if_true, collectSetP]; exact collectListP_inv hadd he inner _ ch pa h
      · simp only [hc, Bool.false_eq_true, if_false]; exact h
    · simp only [collectSelP, hd]; exact h
  | .spread name dirs l, pp, ch, pa, h => by
    rcases hd : planDirectives s pv dirs with ⟨pred, b⟩
    cases b
    · simp only [collectSelP, hd]; exact he _ _ _ _ h
    · simp only [collectSelP, hd]; exact h
theorem collectListP_inv (hadd : ∀ fps f ch pred, I fps → I (addField s rt fps f ch pred)) (he : ExpInv I expP) :
    ∀ (xs : List Selection) (pp : Pred) (ch : Chain) (pa : PAcc), I pa.1 → I (collectListP s pv rt expP xs pp ch pa).1
  | [], _, _, _, h => by simp only [collectListP]; exact h
  | x :: rest, pp, ch, pa, h => by
    simp only [collectListP]
    exact collectListP_inv hadd he rest pp ch _ (collectSelP_inv hadd he x pp ch pa h)
end

theorem collectSetP_inv (hadd : ∀ fps f ch pred, I fps → I (addField s rt fps f ch pred)) (he : ExpInv I expP)
    (sel : SelectionSet) (pp : Pred) (ch : Chain) (pa : PAcc) (h : I pa.1) :
    I (collectSetP s pv rt expP sel pp ch pa).1 := by
  cases sel with
  | mk sels l => simp only [collectSetP]; exact collectListP_inv hadd he sels pp ch pa h

theorem expandP_inv (hadd : ∀ fps f ch pred, I fps → I (addField s rt fps f ch pred)) :
    ∀ fuel, ExpInv I (expandP s frags pv rt fuel)
  | 0 => fun n pp ch pa h => by simp only [expandP]; exact h
  | fuel + 1 => fun n pp ch (fps, vis) h => by
    simp only [expandP]
    by_cases hv : (vis.contains n || ch.contains n) = true
    · simp only [hv, if_true]; exact h
    · simp only [hv, Bool.false_eq_true, if_false]
      rcases hf : fragOf frags n with _ | ⟨tc, sel⟩
      · exact h
      · simp only
        by_cases hc : condApplies s (some tc) rt = true
        · simp only [hc, if_true]
          exact collectSetP_inv hadd (expandP_inv hadd fuel) sel pp (n :: ch) (fps, n :: vis) h
        · simp only [hc, Bool.false_eq_true, if_false]; exact h

theorem collectInto_inv (hadd : ∀ fps f ch pred, I fps → I (addField s rt fps f ch pred)) (sel : SelectionSet) (ch : Chain)
    (pa : PAcc) (h : I pa.1) : I (collectInto s frags pv rt sel ch pa).1 :=
  collectSetP_inv hadd (expandP_inv hadd _) sel [] ch pa h

theorem planMerged_inv (hadd : ∀ fps f ch pred, I fps → I (addField s rt fps f ch pred)) (h0 : I [])
    (nodes : List (FieldNode × Chain)) : I (planMerged s frags pv rt nodes) := by
  unfold planMerged
  have key : ∀ (nodes : List (FieldNode × Chain)) (pa : PAcc), I pa.1 →
      I (nodes.foldl (fun acc n => match n.1.sel with
        | some sel => collectInto s frags pv rt sel n.2 acc
        | none => acc) pa).1 := by
    intro nodes
    induction nodes with
    | nil => intro pa h; exact h
    | cons x rest ih =>
      intro pa h
      simp only [List.foldl_cons]
      apply ih
      cases hs : x.1.sel with
      | none => exact h
      | some sel => exact collectInto_inv hadd sel x.2 pa h
  exact key nodes ([], []) h0

theorem planSelectionSet_inv (hadd : ∀ fps f ch pred, I fps → I (addField s rt fps f ch pred)) (h0 : I [])
    (sel : SelectionSet) : I (planSelectionSet s frags pv rt sel) :=
  collectInto_inv hadd sel [] ([], []) h0

end inv

/-! ## a response key sits at one position -/

def KeysNodup (fps : List FieldPlan) : Prop := (fps.map (·.key)).Nodup

theorem keysNodup_addField (s : Schema) (rt : String) (fps : List FieldPlan) (f : FieldNode) (ch : Chain) (pred : Pred)
    (h : KeysNodup fps) : KeysNodup (addField s rt fps f ch pred) := by
  unfold KeysNodup addField at *
  by_cases ha : fps.any (fun fp => fp.key == f.key) = true
  · rw [if_pos ha, List.map_map]
    have : (List.map ((fun fp : FieldPlan => fp.key) ∘ fun fp : FieldPlan =>
        if (fp.key == f.key) = true then { fp with nodes := fp.nodes ++ [(f, ch)] } else fp) fps) = fps.map (·.key) := by
      apply List.map_congr_left
      intro fp _
      by_cases hk : fp.key = f.key <;> simp [hk]
    rw [this]; exact h
  · rw [if_neg ha]
    simp only [List.map_append, List.map_cons, List.map_nil]
    refine List.nodup_append.2 ⟨h, by simp, ?_⟩
    intro a hm b hb
    simp only [List.mem_singleton] at hb
    subst hb
    intro heq
    subst heq
    apply ha
    obtain ⟨fp, hfp, hk⟩ := List.mem_map.1 hm
    exact List.any_eq_true.2 ⟨fp, hfp, by simp [hk]⟩

theorem keysNodup_planMerged (s : Schema) (frags : List (String × Definition)) (pv : Option Vars) (rt : String)
    (nodes : List (FieldNode × Chain)) : KeysNodup (planMerged s frags pv rt nodes) :=
  planMerged_inv (I := KeysNodup) (fun fps f ch pred h => keysNodup_addField s rt fps f ch pred h) List.nodup_nil nodes

theorem keysNodup_planSelectionSet (s : Schema) (frags : List (String × Definition)) (pv : Option Vars) (rt : String)
    (sel : SelectionSet) : KeysNodup (planSelectionSet s frags pv rt sel) :=
  planSelectionSet_inv (I := KeysNodup) (fun fps f ch pred h => keysNodup_addField s rt fps f ch pred h) List.nodup_nil sel

theorem KeysNodup.eq_of_key {fps : List FieldPlan} (h : KeysNodup fps) {a b : FieldPlan} (ha : a ∈ fps) (hb : b ∈ fps)
    (hk : a.key = b.key) : a = b := by
  unfold KeysNodup at h
  induction fps with
  | nil => cases ha
  | cons x rest ih =>
    simp only [List.map_cons, List.nodup_cons] at h
    rcases List.mem_cons.1 ha with rfl | ha' <;> rcases List.mem_cons.1 hb with rfl | hb'
    · rfl
    · exact absurd (List.mem_map.2 ⟨b, hb', hk.symm⟩) h.1
    · exact absurd (List.mem_map.2 ⟨a, ha', hk⟩) h.1
    · exact ih h.2 ha' hb'

theorem KeysNodup.tail {x : FieldPlan} {rest : List FieldPlan} (h : KeysNodup (x :: rest)) : KeysNodup rest := by
  unfold KeysNodup at *
  exact (List.nodup_cons.1 h).2

/-! ## addresses -/

section addr
variable (s : Schema) (frags : List (String × Definition)) (pv : Option Vars) (rootType : String) (root : List FieldPlan)

/-- `At fid fp`: `fp` is the field plan with address `fid` in the plan tree unfolded from `root` -/
inductive At : FpId → FieldPlan → Prop
  | root {fp : FieldPlan} : fp ∈ root → At [(rootType, fp.key)] fp
  | step {fid : FpId} {fp : FieldPlan} {rt : String} {fp' : FieldPlan} :
      At fid fp → fp' ∈ planMerged s frags pv rt fp.nodes → At (fid ++ [(rt, fp'.key)]) fp'

variable {s frags pv rootType root}

theorem At.ne_nil {fid : FpId} {fp : FieldPlan} (h : At s frags pv rootType root fid fp) : fid ≠ [] := by
  cases h with
  | root _ => simp
  | step _ _ => simp

/-- one address, one field plan -/
theorem At.functional (hr : KeysNodup root) : ∀ {fid : FpId} {a b : FieldPlan},
    At s frags pv rootType root fid a → At s frags pv rootType root fid b → a = b := by
  intro fid a b ha
  induction ha generalizing b with
  | @root fp hm =>
    intro hb
    generalize hid : [(rootType, fp.key)] = fid' at hb
    cases hb with
    | @root fpb hmb =>
      simp only [List.cons.injEq, Prod.mk.injEq, and_true] at hid
      exact hr.eq_of_key hm hmb hid.2
    | @step fid0 fp0 rt0 _ h0 _ =>
      exfalso
      have hlen := congrArg List.length hid
      simp only [List.length_cons, List.length_nil, List.length_append] at hlen
      have : fid0 = [] := List.eq_nil_of_length_eq_zero (by omega)
      exact h0.ne_nil this
  | @step fid0 fp0 rt0 fp' h0 hm ih =>
    intro hb
    generalize hid : fid0 ++ [(rt0, fp'.key)] = fid' at hb
    cases hb with
    | @root fpb hmb =>
      exfalso
      have hlen := congrArg List.length hid
      simp only [List.length_cons, List.length_nil, List.length_append] at hlen
      have : fid0 = [] := List.eq_nil_of_length_eq_zero (by omega)
      exact h0.ne_nil this
    | @step fid1 fp1 rt1 _ h1 hm1 =>
      have hinj := List.append_inj' hid (by simp)
      obtain ⟨hfid, hlast⟩ := hinj
      simp only [List.cons.injEq, Prod.mk.injEq, and_true] at hlast
      subst hfid
      obtain ⟨hrt, hk⟩ := hlast
      subst hrt
      have := ih h1
      subst this
      exact (keysNodup_planMerged s frags pv rt0 fp0.nodes).eq_of_key hm hm1 hk

end addr

end GqlModel.Plan
