import GqlProofs.PlanFuel
/-! # Fuel bounds in terms of the response tree: sums over keys, positions in the algorithm's data; the depth-first pass -/
namespace GqlModel.Plan
open GqlModel.Exec GqlModel.Coerce

/-! ## sums over the keys of a map -/

/-- `g` of the entry that `lookup` finds -/
def lookG (g : JVal → Nat) (gs : List (String × JVal)) (k : String) : Nat :=
  match JVal.lookup gs k with
  | some x => g x
  | none => 0

/-- Σ over the keys `ks` of `g` (entry that `lookup` finds) -/
def sumLook (g : JVal → Nat) (gs : List (String × JVal)) (ks : List String) : Nat := (ks.map (lookG g gs)).sum

def sumAll (g : JVal → Nat) (gs : List (String × JVal)) : Nat := (gs.map (fun p => g p.2)).sum

theorem sumLook_perm (g : JVal → Nat) (gs : List (String × JVal)) {ks ks' : List String} (h : ks.Perm ks') :
    sumLook g gs ks = sumLook g gs ks' := (h.map _).sum_nat

theorem sumLook_cons (g : JVal → Nat) (gs : List (String × JVal)) (k : String) (ks : List String) :
    sumLook g gs (k :: ks) = lookG g gs k + sumLook g gs ks := by
  simp [sumLook]

theorem jlookup_of_mem {gs : List (String × JVal)} (hnd : (gs.map (·.1)).Nodup) {k : String} {x : JVal} (h : (k, x) ∈ gs) :
    JVal.lookup gs k = some x := by
  induction gs with
  | nil => cases h
  | cons y rest ih =>
    obtain ⟨k', y⟩ := y
    simp only [List.map_cons, List.nodup_cons] at hnd
    rcases List.mem_cons.1 h with heq | hm
    · simp only [Prod.mk.injEq] at heq
      obtain ⟨rfl, rfl⟩ := heq
      simp [JVal.lookup]
    · have hne : (k' == k) = false := by
        simp only [beq_eq_false_iff_ne, ne_eq]
        intro hk; subst hk
        exact hnd.1 (List.mem_map.2 ⟨(k', x), hm, rfl⟩)
      have := ih hnd.2 hm
      simpa [JVal.lookup, List.find?_cons, hne] using this

theorem sumLook_self (g : JVal → Nat) {gs : List (String × JVal)} (hnd : (gs.map (·.1)).Nodup) :
    sumLook g gs (gs.map (·.1)) = sumAll g gs := by
  unfold sumLook sumAll
  rw [List.map_map]
  congr 1
  apply List.map_congr_left
  intro p hp
  obtain ⟨k, x⟩ := p
  simp only [Function.comp, lookG, jlookup_of_mem hnd hp]

theorem insertKey_perm (k : String) (l : List String) : (insertKey k l).Perm (k :: l) := by
  induction l with
  | nil => exact List.Perm.refl _
  | cons x xs ih =>
    simp only [insertKey]
    by_cases h : k < x
    · simp only [h, if_true]; exact List.Perm.refl _
    · simp only [h, if_false]
      exact (List.Perm.cons x ih).trans (List.Perm.swap k x xs)

theorem sortedKeys_perm (fs : List (String × PVal)) : (sortedKeys fs).Perm (fs.map (·.1)) := by
  unfold sortedKeys
  induction fs.map (·.1) with
  | nil => exact List.Perm.refl _
  | cons k ks ih =>
    simp only [List.foldr_cons]
    exact (insertKey_perm k _).trans (List.Perm.cons k ih)

section
variable {c : Ctx} {pv : Option Vars} {rank : String → Nat} {F : Nat}

theorem svf_keys : ∀ {fs : List (String × PVal)} {gs : List (String × JVal)}, SVf c pv rank F fs gs →
    fs.map (·.1) = gs.map (·.1)
  | [], _, h => by cases h; rfl
  | _ :: _, _, h => by
    cases h with
    | cons _ h2 => simp [svf_keys h2]

theorem svl_length : ∀ {xs : List PVal} {js : List JVal}, SVl c pv rank F xs js → xs.length = js.length
  | [], _, h => by cases h; rfl
  | _ :: _, _, h => by
    cases h with
    | cons _ h2 => simp [svl_length h2]

/-- the partner of the entry that `lookupF` finds -/
theorem svf_lookup' {k : String} {v : PVal} : ∀ {fs : List (String × PVal)} {gs : List (String × JVal)},
    SVf c pv rank F fs gs → lookupF fs k = some v → ∃ j, JVal.lookup gs k = some j ∧ SV c pv rank F v j
  | [], _, h, hl => by simp [lookupF] at hl
  | (k', x) :: rest, _, h, hl => by
    cases h with
    | @cons _ _ j _ js h1 h2 =>
      by_cases hk : (k' == k) = true
      · simp only [lookupF, List.find?_cons, hk, Option.map_some, Option.some.injEq] at hl
        subst hl
        exact ⟨j, by simp [JVal.lookup, hk], h1⟩
      · have hk' : (k' == k) = false := by simpa using hk
        have hl' : lookupF rest k = some v := by simpa [lookupF, List.find?_cons, hk'] using hl
        obtain ⟨j', hj', hsv⟩ := svf_lookup' h2 hl'
        exact ⟨j', by simpa [JVal.lookup, List.find?_cons, hk'] using hj', hsv⟩

theorem svl_get {v : PVal} : ∀ {xs : List PVal} {js : List JVal} (i : Nat), SVl c pv rank F xs js → xs[i]? = some v →
    ∃ j, js[i]? = some j ∧ SV c pv rank F v j
  | [], _, _, _, hl => by simp at hl
  | x :: xs, _, 0, h, hl => by
    cases h with
    | cons h1 h2 =>
      simp only [List.getElem?_cons_zero, Option.some.injEq] at hl
      subst hl
      exact ⟨_, by simp, h1⟩
  | x :: xs, _, i + 1, h, hl => by
    cases h with
    | cons h1 h2 =>
      simp only [List.getElem?_cons_succ] at hl
      obtain ⟨j, hj, hsv⟩ := svl_get i h2 hl
      exact ⟨j, by simpa using hj, hsv⟩

end

/-! ## positions in the algorithm's data -/

/-- the value at a response path below `j` -/
def jAt : JVal → Path → Option JVal
  | j, [] => some j
  | .obj gs, .key k :: p =>
    (match JVal.lookup gs k with
    | some x => jAt x p
    | none => none)
  | .list js, .idx i :: p =>
    (match js[i]? with
    | some x => jAt x p
    | none => none)
  | _, _ => none

theorem jAt_nil (j : JVal) : jAt j [] = some j := by cases j <;> rfl

theorem jAt_append : ∀ (a b : Path) (j : JVal), jAt j (a ++ b) = (jAt j a).bind (fun x => jAt x b)
  | [], b, j => by simp [jAt_nil]
  | seg :: rest, b, j => by
    cases j with
    | obj gs =>
      cases seg with
      | idx i => simp [jAt]
      | key k =>
        simp only [List.cons_append, jAt]
        cases JVal.lookup gs k with
        | none => simp
        | some x => simp only; exact jAt_append rest b x
    | list js =>
      cases seg with
      | key k => simp [jAt]
      | idx i =>
        simp only [List.cons_append, jAt]
        cases js[i]? with
        | none => simp
        | some x => simp only; exact jAt_append rest b x
    | _ => cases seg <;> simp [jAt]

section
variable {c : Ctx} {pv : Option Vars} {rank : String → Nat} {F : Nat}

/-- the relation at a position, with the algorithm's value at that position -/
theorem sv_getAt' : ∀ (a : Path) {root : PVal} {j : JVal} {v : PVal}, SV c pv rank F root j → root.getAt a = some v →
    ∃ j', jAt j a = some j' ∧ SV c pv rank F v j'
  | [], root, j, v, h, hg => by
    rw [getAt_nil] at hg
    simp only [Option.some.injEq] at hg
    subst hg
    exact ⟨j, jAt_nil j, h⟩
  | seg :: rest, root, j, v, h, hg => by
    cases root with
    | leaf _ => cases seg <;> simp [PVal.getAt] at hg
    | deferred _ => cases seg <;> simp [PVal.getAt] at hg
    | obj fs =>
      cases seg with
      | idx i => simp [PVal.getAt] at hg
      | key k =>
        simp only [PVal.getAt] at hg
        cases hl : lookupF fs k with
        | none => simp [hl] at hg
        | some x =>
          simp only [hl] at hg
          cases h with
          | obj hf =>
            obtain ⟨jx, hjx, hsv⟩ := svf_lookup' hf hl
            obtain ⟨j', hj', hsv'⟩ := sv_getAt' rest hsv hg
            exact ⟨j', by simp only [jAt, hjx]; exact hj', hsv'⟩
    | list xs =>
      cases seg with
      | key k => simp [PVal.getAt] at hg
      | idx i =>
        simp only [PVal.getAt] at hg
        cases hl : xs[i]? with
        | none => simp [hl] at hg
        | some x =>
          simp only [hl] at hg
          cases h with
          | list hxs =>
            obtain ⟨jx, hjx, hsv⟩ := svl_get i hxs hl
            obtain ⟨j', hj', hsv'⟩ := sv_getAt' rest hsv hg
            exact ⟨j', by simp only [jAt, hjx]; exact hj', hsv'⟩

end

/-! ## two measures of a response value -/

mutual
/-- fuel that suffices for the depth-first pass over anything that stands for this value: per level, the number of entries + 2 -/
def jdep : JVal → Nat
  | .obj gs => gs.length + 2 + jmaxF gs
  | .list js => js.length + 2 + jmaxL js
  | _ => 1
def jmaxL : List JVal → Nat
  | [] => 0
  | x :: xs => max (jdep x) (jmaxL xs)
def jmaxF : List (String × JVal) → Nat
  | [] => 0
  | (_, x) :: xs => max (jdep x) (jmaxF xs)
end

mutual
/-- the number of maps and lists in a response value -/
def jcont : JVal → Nat
  | .obj gs => jcontF gs + 1
  | .list js => jcontL js + 1
  | _ => 0
def jcontL : List JVal → Nat
  | [] => 0
  | x :: xs => jcont x + jcontL xs
def jcontF : List (String × JVal) → Nat
  | [] => 0
  | (_, x) :: xs => jcont x + jcontF xs
end

theorem jdep_pos (j : JVal) : 1 ≤ jdep j := by
  cases j <;> simp only [jdep] <;> omega

theorem jmaxF_mem : ∀ {gs : List (String × JVal)} {k : String} {x : JVal}, (k, x) ∈ gs → jdep x ≤ jmaxF gs
  | [], _, _, h => by cases h
  | (k', y) :: rest, k, x, h => by
    simp only [jmaxF]
    rcases List.mem_cons.1 h with heq | hm
    · simp only [Prod.mk.injEq] at heq
      rw [heq.2]; exact Nat.le_max_left _ _
    · exact Nat.le_trans (jmaxF_mem hm) (Nat.le_max_right _ _)

theorem jlookup_mem {gs : List (String × JVal)} {k : String} {x : JVal} (h : JVal.lookup gs k = some x) : ∃ k', (k', x) ∈ gs := by
  induction gs with
  | nil => simp [JVal.lookup] at h
  | cons y rest ih =>
    obtain ⟨k', y⟩ := y
    by_cases hk : (k' == k) = true
    · simp only [JVal.lookup, List.find?_cons, hk, Option.map_some, Option.some.injEq] at h
      exact ⟨k', by rw [← h]; exact List.mem_cons_self⟩
    · have hk' : (k' == k) = false := by simpa using hk
      have : JVal.lookup rest k = some x := by simpa [JVal.lookup, List.find?_cons, hk'] using h
      obtain ⟨k2, h2⟩ := ih this
      exact ⟨k2, List.mem_cons_of_mem _ h2⟩

theorem jmaxF_lookup {gs : List (String × JVal)} {k : String} {x : JVal} (h : JVal.lookup gs k = some x) : jdep x ≤ jmaxF gs := by
  obtain ⟨k', hm⟩ := jlookup_mem h
  exact jmaxF_mem hm

theorem jcontF_eq (gs : List (String × JVal)) : jcontF gs = sumAll jcont gs := by
  induction gs with
  | nil => rfl
  | cons y rest ih => obtain ⟨k, y⟩ := y; simp [jcontF, sumAll, ih] at *

theorem sortedKeys_length (fs : List (String × PVal)) : (sortedKeys fs).length = fs.length := by
  simpa using (sortedKeys_perm fs).length_eq

/-! ## the depth-first pass never runs out of fuel when the fuel is at least `jdep` of the response value -/

section
variable {c : Ctx} {pv : Option Vars} {rank : String → Nat} {F : Nat}

/-- a forcing function that never runs out of fuel on closures the algorithm forced -/
def FrcNF (c : Ctx) (pv : Option Vars) (rank : String → Nat) (F : Nat) (frc : Closure → MSt → Res PVal × MSt) : Prop :=
  ∀ cl j mst, Wit c pv rank F cl j → (frc cl mst).1 ≠ .fuelOut

structure DfsNF (c : Ctx) (pv : Option Vars) (rank : String → Nat) (F : Nat) (frc : Closure → MSt → Res PVal × MSt)
    (n : Nat) : Prop where
  val : ∀ v j mst, SV c pv rank F v j → jdep j ≤ n → (dfsVal frc n v mst).1 ≠ .fuelOut
  fields : ∀ ks fs gs mst, SVf c pv rank F fs gs → ks.length + 1 + jmaxF gs ≤ n → (dfsFields frc n ks fs mst).1 ≠ .fuelOut
  items : ∀ xs js acc mst, SVl c pv rank F xs js → xs.length + 1 + jmaxL js ≤ n → (dfsItems frc n xs acc mst).1 ≠ .fuelOut

theorem dfsNF {frc : Closure → MSt → Res PVal × MSt} (hf : FrcSV c pv rank F frc) (hn : FrcNF c pv rank F frc) :
    ∀ n, DfsNF c pv rank F frc n
  | 0 => by
    refine ⟨?_, ?_, ?_⟩
    · intro v j mst _ h; have := jdep_pos j; omega
    · intro ks fs gs mst _ h; omega
    · intro xs js acc mst _ h; omega
  | n + 1 => by
    have ih : DfsNF c pv rank F frc n := dfsNF hf hn n
    refine ⟨?_, ?_, ?_⟩
    · have key : ∀ (x : PVal) (j : JVal) (mst : MSt), (∀ cl, x ≠ .deferred cl) → SV c pv rank F x j → jdep j ≤ n + 1 →
          (dfsVal frc (n + 1) x mst).1 ≠ .fuelOut := by
        intro x j mst hnd hx hb
        cases hx with
        | leaf j => simp [dfsVal]
        | deferred _ => exact absurd rfl (hnd _)
        | @obj fs gs hfs =>
          simp only [dfsVal]
          have hlen : (sortedKeys fs).length = gs.length := by
            rw [sortedKeys_length]
            have := congrArg List.length (svf_keys hfs)
            simpa using this
          have h := ih.fields (sortedKeys fs) fs gs mst hfs (by simp only [jdep] at hb; omega)
          generalize dfsFields frc n (sortedKeys fs) fs mst = z at h ⊢
          obtain ⟨r, mst1⟩ := z
          cases r with
          | ok fs' => simp
          | fail => simp
          | fuelOut => exact absurd rfl h
        | @list xs js hxs =>
          simp only [dfsVal]
          have hlen := svl_length hxs
          have h := ih.items xs js [] mst hxs (by simp only [jdep] at hb; omega)
          generalize dfsItems frc n xs [] mst = z at h ⊢
          obtain ⟨r, mst1⟩ := z
          cases r with
          | ok ys => simp
          | fail => simp
          | fuelOut => exact absurd rfl h
      intro v j mst hv hb
      cases v with
      | leaf j' => exact key _ j mst (fun _ h => by cases h) hv hb
      | list xs => exact key _ j mst (fun _ h => by cases h) hv hb
      | obj fs => exact key _ j mst (fun _ h => by cases h) hv hb
      | deferred cl =>
        cases hv with
        | deferred hwit =>
          simp only [dfsVal]
          have ha := hf cl j mst hwit
          have hb' := hn cl j mst hwit
          generalize frc cl mst = z at ha hb' ⊢
          obtain ⟨r1, mst1⟩ := z
          cases r1 with
          | fail => simp
          | fuelOut => exact absurd rfl hb'
          | ok x =>
            have hx : SV c pv rank F x j := ha
            cases x with
            | leaf j' => simp
            | deferred cl' => simp
            | obj fs =>
              have := key (.obj fs) j mst1 (fun _ h => by cases h) hx hb
              simp only [dfsVal] at this
              exact this
            | list xs =>
              have := key (.list xs) j mst1 (fun _ h => by cases h) hx hb
              simp only [dfsVal] at this
              exact this
    · intro ks fs gs mst hfs hb
      cases ks with
      | nil => simp [dfsFields]
      | cons k ks =>
        simp only [dfsFields]
        simp only [List.length_cons] at hb
        cases hl : lookupF fs k with
        | none => exact ih.fields ks fs gs mst hfs (by omega)
        | some v =>
          simp only
          have hvv : ∀ j, SV c pv rank F v j → SVRes (SV c pv rank F) (dfsVal frc n v mst).1 j :=
            fun j hj => (dfsV hf n).val v j mst hj
          obtain ⟨j0, hj0, hsv0⟩ := svf_lookup' hfs hl
          have hj0b := jmaxF_lookup hj0
          have hne := ih.val v j0 mst hsv0 (by omega)
          generalize hz : dfsVal frc n v mst = z at hvv hne
          obtain ⟨r1, mst1⟩ := z
          cases r1 with
          | fail => simp
          | fuelOut => exact absurd rfl hne
          | ok v' =>
            simp only
            exact ih.fields ks _ gs mst1 (svf_setF (fun j hj => hvv j hj) hfs hl) (by omega)
    · intro xs js acc mst hxs hb
      cases hxs with
      | nil => simp [dfsItems]
      | @cons x j xs js hx hrest =>
        simp only [dfsItems]
        simp only [List.length_cons, jmaxL] at hb
        have hne := ih.val x j mst hx (by omega)
        generalize dfsVal frc n x mst = z at hne ⊢
        obtain ⟨r1, mst1⟩ := z
        cases r1 with
        | fail => simp
        | fuelOut => exact absurd rfl hne
        | ok x' =>
          simp only
          exact ih.items xs js (acc ++ [x']) mst1 hrest (by omega)

theorem frcNF_forceAll (hac : Acyclic c.frags rank) (hfr : FragsOK c pv) :
    FrcNF c pv rank F (forceAll c (recompute c.schema c.frags pv) F) :=
  fun cl j mst hwit => forceAll_nf hac hfr cl j hwit mst

end

end GqlModel.Plan
