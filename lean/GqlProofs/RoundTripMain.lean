import GqlProofs.RoundTripDocB
import GqlProofs.ParserTop
import GqlProofs.PrinterDerive3
import GqlProofs.PrinterTokNF2
import GqlProofs.ParserComplete
import GqlModel.ParseBytes
/-! # C08 byte level — assembling the lexer half

* `lexAllG_print`: the spec tokeniser on the UTF-8 bytes of `print d` yields `lexItems (docI d)` (tokens with gaps);
* the expected stream split into the tokens before EOF (`lexToks`) and the EOF offset (`lexEnd`);
* kinds and values of `lexToks`, converted to the shared `Token`, are `printTokens d`. -/
namespace GqlModel.RoundTrip
open GqlModel GqlModel.Lexer GqlModel.Lexer.Spec GqlModel.Printer

/-- the bytes of the printed document -/
def printBytes (d : Document) : List UInt8 := (print d).toUTF8.data.toList

theorem printBytes_eq (d : Document) : printBytes d = utf8 (render (docI d)) := by
  rw [printBytes, toUTF8_eq, render_docI]; simp [print]

/-- the spec tokeniser on the bytes of any rendered item list satisfying the invariant -/
theorem lexAllG_items (is : List Item) (h : LexK is []) :
    lexAllG (utf8 (render is)) = ⟨lexItems is [] 0, none⟩ := by
  rw [lexAllG]
  have := lexLoopG_items is [] 0 ((utf8 (render is)).length + 1) h (by intro b hb; simp at hb) (by simp)
  simpa using this

/-- both known-finding predicates of D-03a are false on such bytes: every Ignored gap is ASCII, and there is no error -/
theorem kf_false_items (is : List Item) (h : LexK is []) :
    nameAfterMultibyteIgnored (utf8 (render is)) = false ∧ errorAfterMultibyte (utf8 (render is)) = false := by
  constructor
  · simp only [nameAfterMultibyteIgnored, lexAllG_items is h, List.any_eq_false, Bool.and_eq_true, beq_iff_eq, not_and,
      Bool.not_eq_true]
    intro gt hgt _
    exact lexItems_gaps is [] 0 h (by intro b hb; simp at hb) gt hgt
  · simp only [errorAfterMultibyte, lexAllG_items is h]

/-- the spec tokeniser on the printed bytes -/
theorem lexAllG_print (d : Document) (h : WFDocument d) :
    lexAllG (printBytes d) = ⟨lexItems (docI d) [] 0, none⟩ := by
  rw [printBytes_eq]; exact lexAllG_items _ (lexK_docI d h)

/-! ## the expected stream without gaps -/

/-- tokens before EOF: kind, byte offsets in the rendered text, value as bytes -/
def lexToks : List Item → Nat → List LTok
  | [], _ => []
  | .sep t :: is, off => lexToks is (off + (utf8 t).length)
  | .tok k v t :: is, off => ⟨k, off, off + (utf8 t).length, utf8 v.toList⟩ :: lexToks is (off + (utf8 t).length)

theorem lexItems_split : ∀ (is : List Item) (g : List UInt8) (off : Nat),
    (lexItems is g off).map (·.2) =
      lexToks is (off + g.length) ++ [⟨.eof, off + g.length + (utf8 (render is)).length, off + g.length + (utf8 (render is)).length, []⟩]
  | [], g, off => by simp [lexItems, lexToks]
  | .sep t :: is, g, off => by
    simp only [lexItems, lexToks, lexItems_split is (g ++ utf8 t) off, List.length_append, render_cons, Item.text,
      utf8_append, Nat.add_assoc]
  | .tok k v t :: is, g, off => by
    simp only [lexItems, lexToks, List.map_cons, lexItems_split is [] _, List.length_nil, Nat.add_zero, render_cons,
      Item.text, utf8_append, List.length_append, List.cons_append, Nat.add_assoc]

theorem lexToks_kv : ∀ (is : List Item) (off : Nat),
    (lexToks is off).map (fun t => kvOf t.toToken) = tokensOf is
  | [], _ => rfl
  | .sep t :: is, off => by simp only [lexToks, tokensOf, lexToks_kv is]
  | .tok k v t :: is, off => by
    have ih := lexToks_kv is (off + (utf8 t).length)
    simp only [lexToks, tokensOf, List.map_cons, ih]
    simp only [kvOf, LTok.toToken, bytesToString_utf8_toList]

theorem lexToks_ne_eof : ∀ (is : List Item) (off : Nat) (rest : Chars), LexK is rest → ∀ t ∈ lexToks is off, t.kind ≠ .eof
  | [], _, _, _, t, ht => by simp [lexToks] at ht
  | .sep _ :: is, off, rest, h, t, ht => lexToks_ne_eof is _ rest h.2 t ht
  | .tok k v tx :: is, off, rest, h, t, ht => by
    simp only [lexToks, List.mem_cons] at ht
    rcases ht with rfl | ht
    · intro hk
      have hk' : k = .eof := hk
      subst hk'
      exact h.1
    · exact lexToks_ne_eof is _ rest h.2.2 t ht

/-- **offsets**: `lexToks` places every token at the byte offset of its text in the rendered bytes -/
theorem lexToks_extent : ∀ (is : List Item) (pre : List UInt8), ∀ t ∈ lexToks is pre.length,
    ∃ k v tx, Item.tok k v tx ∈ is ∧ t.kind = k ∧ t.value = utf8 v.toList ∧ t.stop = t.start + (utf8 tx).length ∧
      ((pre ++ utf8 (render is)).drop t.start).take (t.stop - t.start) = utf8 tx
  | [], _, t, ht => by simp [lexToks] at ht
  | .sep s :: is, pre, t, ht => by
    have e : pre.length + (utf8 s).length = (pre ++ utf8 s).length := by simp
    simp only [lexToks] at ht
    rw [e] at ht
    obtain ⟨k, v, tx, hm, h1, h2, h3, h4⟩ := lexToks_extent is (pre ++ utf8 s) t ht
    refine ⟨k, v, tx, List.mem_cons_of_mem _ hm, h1, h2, h3, ?_⟩
    simpa [Item.text] using h4
  | .tok k v tx :: is, pre, t, ht => by
    simp only [lexToks, List.mem_cons] at ht
    rcases ht with rfl | ht
    · refine ⟨k, v, tx, by simp, rfl, rfl, rfl, ?_⟩
      simp [Item.text]
    · have e : pre.length + (utf8 tx).length = (pre ++ utf8 tx).length := by simp
      rw [e] at ht
      obtain ⟨k', v', tx', hm, h1, h2, h3, h4⟩ := lexToks_extent is (pre ++ utf8 tx) t ht
      refine ⟨k', v', tx', List.mem_cons_of_mem _ hm, h1, h2, h3, ?_⟩
      simpa [Item.text] using h4

/-- the token list handed to the parser model: the printed tokens, then EOF -/
theorem stream_tokens (is : List Item) (h : LexK is []) :
    ((lexItems is [] 0).map (·.2)).map LTok.toToken =
      (lexToks is 0).map LTok.toToken ++ [⟨.eof, (utf8 (render is)).length, (utf8 (render is)).length, ""⟩] ∧
    (∀ t ∈ (lexToks is 0).map LTok.toToken, t.kind ≠ .eof) := by
  constructor
  · rw [lexItems_split]
    simp only [List.length_nil, Nat.add_zero, Nat.zero_add, List.map_append, List.map_cons, List.map_nil]
    rfl
  · intro t ht
    obtain ⟨lt, hlt, rfl⟩ := List.mem_map.mp ht
    exact lexToks_ne_eof is _ [] h lt hlt

end GqlModel.RoundTrip
