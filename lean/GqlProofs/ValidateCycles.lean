import GqlProofs.ValidateGraph
/-! # Helper lemmas for C02 / C09: the cycle DFS of NoFragmentCycles

* `detect_frame` (unconditional): a call of `detectCycleRecursive` with fuel above the number of unvisited table
  names preserves `oof`, only adds to `visitedFrags` and marks its own fragment — hence `cycleRun_no_oof`: the DFS
  terminates on ARBITRARY fragment tables (cyclic, duplicate names, undefined spreads).
* `detect_spec`: frame of `spreadPath` / `spreadPathIndexByName` (restored on return), soundness (an error is reported
  only on a back edge to a fragment on the current path, which lies on a cycle) and completeness (without a new
  error the finished — "black" — fragments stay closed under defined successors and acyclic).
* `cycleRun_spec`: with unique fragment names, `errs ≠ [] ↔ Cyclic`. -/
namespace GqlModel.Validate.Graph

/-! ## small facts -/

def keys (st : CState) : List String := st.index.map Prod.fst

theorem lookup_none_iff (k : String) (l : List (String × Nat)) :
    List.lookup k l = none ↔ k ∉ l.map Prod.fst := by
  induction l with
  | nil => simp
  | cons p l ih =>
    obtain ⟨a, b⟩ := p
    by_cases h : k = a
    · subst h; simp
    · have : (k == a) = false := by simpa using h
      simp [List.lookup_cons, this, ih, h]

theorem lookup_some_mem {k : String} {l : List (String × Nat)} {v : Nat} (h : List.lookup k l = some v) :
    k ∈ l.map Prod.fst := by
  by_cases hk : k ∈ l.map Prod.fst
  · exact hk
  · rw [(lookup_none_iff k l).2 hk] at h; cases h

theorem filter_keys_ne (l : List (String × Nat)) (k : String) (h : k ∉ l.map Prod.fst) :
    l.filter (fun p => p.1 != k) = l := by
  induction l with
  | nil => rfl
  | cons p l ih =>
    have h1 : p.1 ≠ k := fun e => h (by simp [e])
    have h2 : k ∉ l.map Prod.fst := fun e => h (by simp [List.mem_map] at e ⊢; exact .inr e)
    simp [h1, ih h2]

def Defined (tbl : List Frag) (b : String) : Prop := b ∈ fragNames tbl

theorem defined_of_edge {tbl : List Frag} {a b : String} (h : SpreadEdge tbl a b) : Defined tbl a := by
  rcases spreadEdge_iff.1 h with ⟨f, hf, _⟩
  exact lookupFrag_mem_names hf

theorem reaches_defined {tbl : List Frag} {b c : String} (h : Reaches tbl b c) : b = c ∨ Defined tbl b := by
  cases h with
  | refl => exact .inl rfl
  | step e _ => exact .inr (defined_of_edge e)

/-- closed under edges into DEFINED fragments (undefined spread names are never entered) -/
def ClosedP (tbl : List Frag) (B : String → Prop) : Prop :=
  ∀ a b, B a → SpreadEdge tbl a b → Defined tbl b → B b

def AcycP (tbl : List Frag) (B : String → Prop) : Prop := ∀ a, B a → ¬ ReachesPlus tbl a a

theorem closed_reach {tbl : List Frag} {B : String → Prop} (hcl : ClosedP tbl B) {a c : String}
    (h : Reaches tbl a c) (hc : Defined tbl c) (ha : B a) : B c := by
  induction h with
  | refl => exact ha
  | step e hr ih =>
    rename_i a b c
    have hb : Defined tbl b := by
      rcases reaches_defined hr with rfl | h
      · exact hc
      · exact h
    exact ih hc (hcl _ _ ha e hb)

/-- finished fragments: visited and no longer on the current path -/
def Black (st : CState) (x : String) : Prop := x ∈ st.visited ∧ x ∉ keys st

def BlackOK (tbl : List Frag) (st : CState) : Prop := ClosedP tbl (Black st) ∧ AcycP tbl (Black st)

theorem BlackOK.congr {tbl : List Frag} {st st' : CState} (h : ∀ x, Black st x ↔ Black st' x)
    (hb : BlackOK tbl st) : BlackOK tbl st' :=
  ⟨fun a b ha e d => (h b).1 (hb.1 a b ((h a).2 ha) e d), fun a ha => hb.2 a ((h a).2 ha)⟩

/-! ## frame: fuel, `visitedFrags` (unconditional) -/

def FSpec (tbl : List Frag) (fuel : Nat) (rec : Frag → CState → CState) : Prop :=
  ∀ g st, g.name.value ∈ fragNames tbl → g.name.value ∉ st.visited → unc (fragNames tbl) st.visited < fuel →
    (rec g st).oof = st.oof ∧ (∀ x, x ∈ st.visited → x ∈ (rec g st).visited) ∧ g.name.value ∈ (rec g st).visited

theorem step_frame {tbl : List Frag} {fuel : Nat} {rec : Frag → CState → CState} (hrec : FSpec tbl fuel rec)
    (st : CState) (sp : Spread) (hf : unc (fragNames tbl) st.visited < fuel) :
    (stepSpread tbl rec st sp).oof = st.oof ∧ ∀ x, x ∈ st.visited → x ∈ (stepSpread tbl rec st sp).visited := by
  unfold stepSpread
  split
  · by_cases hv : sp.name ∈ st.visited
    · simp [hv]
    · simp only [hv, if_false]
      cases hl : lookupFrag tbl sp.name with
      | none => simp
      | some g =>
        have hg := lookupFrag_some hl
        have := hrec g { st with path := st.path ++ [sp] } (hg.2 ▸ lookupFrag_mem_names hl)
          (by rw [hg.2]; exact hv) hf
        exact ⟨this.1, this.2.1⟩
  · simp

theorem loop_frame {tbl : List Frag} {fuel : Nat} {rec : Frag → CState → CState} (hrec : FSpec tbl fuel rec)
    (sps : List Spread) (st : CState) (hf : unc (fragNames tbl) st.visited < fuel) :
    (sps.foldl (stepSpread tbl rec) st).oof = st.oof ∧
    ∀ x, x ∈ st.visited → x ∈ (sps.foldl (stepSpread tbl rec) st).visited := by
  induction sps generalizing st with
  | nil => simp
  | cons sp rest ih =>
    have h1 := step_frame hrec st sp hf
    have hf' : unc (fragNames tbl) (stepSpread tbl rec st sp).visited < fuel :=
      Nat.lt_of_le_of_lt (unc_mono _ h1.2) hf
    have h2 := ih (stepSpread tbl rec st sp) hf'
    simp only [List.foldl_cons]
    exact ⟨h2.1.trans h1.1, fun x hx => h2.2 x (h1.2 x hx)⟩

theorem detect_frame (tbl : List Frag) (fuel : Nat) : FSpec tbl fuel (detect tbl fuel) := by
  induction fuel with
  | zero => intro g st _ _ h; cases h
  | succ fuel ih =>
    intro g st hg hfresh hfuel
    have hlt : unc (fragNames tbl) (g.name.value :: st.visited) < fuel := by
      have := unc_cons_lt (fragNames tbl) st.visited g.name.value hg hfresh
      omega
    simp only [detect, detectBody]
    split
    · exact ⟨rfl, fun x hx => List.mem_cons_of_mem _ hx, List.mem_cons_self⟩
    · have := loop_frame ih (fragmentSpreads g.sel)
        { st with visited := g.name.value :: st.visited,
                  index := (g.name.value, st.path.length) :: st.index } hlt
      exact ⟨this.1, fun x hx => this.2 x (List.mem_cons_of_mem _ hx), this.2 _ List.mem_cons_self⟩

/-- top-level loop of the FragmentDefinition visitor -/
theorem cycleRun_frame (tbl : List Frag) (defs : List Frag) (hsub : ∀ f, f ∈ defs → f ∈ tbl) (st : CState) :
    (defs.foldl (fun st f => if f.name.value ∈ st.visited then st else detect tbl (tbl.length + 1) f st) st).oof
      = st.oof := by
  induction defs generalizing st with
  | nil => rfl
  | cons f rest ih =>
    simp only [List.foldl_cons]
    rw [ih (fun g hg => hsub g (List.mem_cons_of_mem _ hg))]
    split
    · rfl
    · rename_i hv
      have hn : f.name.value ∈ fragNames tbl := List.mem_map.2 ⟨f, hsub f List.mem_cons_self, rfl⟩
      have hfuel : unc (fragNames tbl) st.visited < tbl.length + 1 := by
        have := unc_le_length (fragNames tbl) st.visited
        have hl : (fragNames tbl).length = tbl.length := by simp [fragNames]
        omega
      exact (detect_frame tbl (tbl.length + 1) f st hn hv hfuel).1

/-- **termination** of the cycle DFS on arbitrary fragment tables: the fuel `|table| + 1` is never exhausted -/
theorem cycleRun_no_oof (tbl : List Frag) : (cycleRun tbl).oof = false := by
  unfold cycleRun
  rw [cycleRun_frame tbl tbl (fun _ h => h)]
  rfl

/-! ## soundness and completeness -/

structure Pre (tbl : List Frag) (fuel : Nat) (g : Frag) (st : CState) : Prop where
  self : lookupFrag tbl g.name.value = some g
  fresh : g.name.value ∉ st.visited
  offPath : g.name.value ∉ keys st
  fuelOK : unc (fragNames tbl) st.visited < fuel
  pathReach : ∀ k, k ∈ keys st → Reaches tbl k g.name.value

/-- what a call (or a stretch of the spread loop) does to the state -/
structure Eff (tbl : List Frag) (st st' : CState) (extra : Prop) : Prop where
  path : st'.path = st.path
  index : st'.index = st.index
  mono : ∀ x, x ∈ st.visited → x ∈ st'.visited
  errs : ∃ new, st'.errs = st.errs ++ new ∧ (new ≠ [] → Cyclic tbl) ∧
    (new = [] → BlackOK tbl st → BlackOK tbl st' ∧ extra)

def DSpec (tbl : List Frag) (fuel : Nat) (rec : Frag → CState → CState) : Prop :=
  ∀ g st, Pre tbl fuel g st → Eff tbl st (rec g st) (Black (rec g st) g.name.value)

theorem black_mono {st st' : CState} (hidx : st'.index = st.index) (hm : ∀ x, x ∈ st.visited → x ∈ st'.visited)
    {x : String} (h : Black st x) : Black st' x :=
  ⟨hm x h.1, by unfold keys; rw [hidx]; exact h.2⟩

theorem step_spec {tbl : List Frag} {fuel : Nat} {rec : Frag → CState → CState}
    (hfr : FSpec tbl fuel rec) (hrec : DSpec tbl fuel rec) (f : Frag)
    (hself : lookupFrag tbl f.name.value = some f) (st : CState) (sp : Spread)
    (hsp : sp.name ∈ spreadNames f.sel) (_hon : f.name.value ∈ keys st)
    (hpath : ∀ k, k ∈ keys st → Reaches tbl k f.name.value)
    (hfuel : unc (fragNames tbl) st.visited < fuel) :
    Eff tbl st (stepSpread tbl rec st sp) (Defined tbl sp.name → Black (stepSpread tbl rec st sp) sp.name) := by
  have hedge : SpreadEdge tbl f.name.value sp.name := spreadEdge_iff.2 ⟨f, hself, hsp⟩
  unfold stepSpread
  split
  · rename_i hnone
    have hoff : sp.name ∉ keys st := (lookup_none_iff _ _).1 hnone
    by_cases hv : sp.name ∈ st.visited
    · simp only [hv, if_true]
      refine ⟨by simp, rfl, fun x hx => hx, [], by simp, by simp, fun _ hb => ⟨hb, fun _ => ⟨hv, hoff⟩⟩⟩
    · simp only [hv, if_false]
      cases hl : lookupFrag tbl sp.name with
      | none =>
        refine ⟨by simp, rfl, fun x hx => hx, [], by simp, by simp, fun _ hb => ⟨hb, fun hd => ?_⟩⟩
        rcases lookupFrag_of_mem_names hd with ⟨g, hg⟩
        rw [hl] at hg; cases hg
      | some g =>
        have hg := lookupFrag_some hl
        have hpre : Pre tbl fuel g { st with path := st.path ++ [sp] } :=
          ⟨by rw [hg.2]; exact hl, by rw [hg.2]; exact hv, by rw [hg.2]; exact hoff, hfuel,
           fun k hk => by rw [hg.2]; exact (hpath k hk).tail hedge⟩
        have he := hrec g _ hpre
        have hfrm := hfr g { st with path := st.path ++ [sp] } (hg.2 ▸ lookupFrag_mem_names hl)
          (by rw [hg.2]; exact hv) hfuel
        refine ⟨?_, he.index, he.mono, ?_⟩
        · show (rec g _).path.dropLast = st.path
          rw [he.path]; simp
        · rcases he.errs with ⟨new, h1, h2, h3⟩
          refine ⟨new, h1, h2, fun hn hb => ?_⟩
          have := h3 hn hb
          refine ⟨this.1, fun _ => ?_⟩
          rw [← hg.2]
          exact this.2
  · rename_i ci hsome
    have hk : sp.name ∈ keys st := lookup_some_mem hsome
    refine ⟨rfl, rfl, fun x hx => hx, _, rfl, fun _ => ?_, fun hn => by simp at hn⟩
    exact ⟨f.name.value, sp.name, hedge, hpath _ hk⟩

theorem loop_spec {tbl : List Frag} {fuel : Nat} {rec : Frag → CState → CState}
    (hfr : FSpec tbl fuel rec) (hrec : DSpec tbl fuel rec) (f : Frag)
    (hself : lookupFrag tbl f.name.value = some f) (sps : List Spread) (st : CState)
    (hsp : ∀ sp, sp ∈ sps → sp.name ∈ spreadNames f.sel) (hon : f.name.value ∈ keys st)
    (hpath : ∀ k, k ∈ keys st → Reaches tbl k f.name.value)
    (hfuel : unc (fragNames tbl) st.visited < fuel) :
    Eff tbl st (sps.foldl (stepSpread tbl rec) st)
      (∀ sp, sp ∈ sps → Defined tbl sp.name → Black (sps.foldl (stepSpread tbl rec) st) sp.name) := by
  induction sps generalizing st with
  | nil =>
    exact ⟨rfl, rfl, fun x hx => hx, [], by simp, by simp, fun _ hb => ⟨hb, fun sp h => by cases h⟩⟩
  | cons sp rest ih =>
    have h1 := step_spec hfr hrec f hself st sp (hsp sp List.mem_cons_self) hon hpath hfuel
    have hkeys : keys (stepSpread tbl rec st sp) = keys st := by unfold keys; rw [h1.index]
    have hfuel' : unc (fragNames tbl) (stepSpread tbl rec st sp).visited < fuel :=
      Nat.lt_of_le_of_lt (unc_mono _ h1.mono) hfuel
    have h2 := ih (stepSpread tbl rec st sp) (fun sp' h => hsp sp' (List.mem_cons_of_mem _ h))
      (by rw [hkeys]; exact hon) (by rw [hkeys]; exact hpath) hfuel'
    simp only [List.foldl_cons]
    refine ⟨h2.path.trans h1.path, h2.index.trans h1.index, fun x hx => h2.mono x (h1.mono x hx), ?_⟩
    rcases h1.errs with ⟨n1, e1, c1, b1⟩
    rcases h2.errs with ⟨n2, e2, c2, b2⟩
    refine ⟨n1 ++ n2, by rw [e2, e1, List.append_assoc], fun hne => ?_, fun hnil hb => ?_⟩
    · by_cases hn1 : n1 = []
      · subst hn1; exact c2 (by simpa using hne)
      · exact c1 hn1
    · have hn1 : n1 = [] := (List.append_eq_nil_iff.1 hnil).1
      have hn2 : n2 = [] := (List.append_eq_nil_iff.1 hnil).2
      have s1 := b1 hn1 hb
      have s2 := b2 hn2 s1.1
      refine ⟨s2.1, fun sp' hmem hd => ?_⟩
      rcases List.mem_cons.1 hmem with rfl | hmem
      · exact black_mono h2.index h2.mono (s1.2 hd)
      · exact s2.2 sp' hmem hd

theorem detect_spec (tbl : List Frag) (fuel : Nat) : DSpec tbl fuel (detect tbl fuel) := by
  induction fuel with
  | zero => intro g st h; exact absurd h.fuelOK (Nat.not_lt_zero _)
  | succ fuel ih =>
    intro g st hpre
    have hgn : g.name.value ∈ fragNames tbl := lookupFrag_mem_names hpre.self
    have hlt : unc (fragNames tbl) (g.name.value :: st.visited) < fuel := by
      have := unc_cons_lt (fragNames tbl) st.visited g.name.value hgn hpre.fresh
      have := hpre.fuelOK
      omega
    simp only [detect, detectBody]
    split
    · -- a fragment without spreads: finished at once
      rename_i hempty
      have hnos : ∀ b, ¬ SpreadEdge tbl g.name.value b := by
        intro b hb
        rcases spreadEdge_iff.1 hb with ⟨f', hf', hb'⟩
        rw [hpre.self] at hf'; cases hf'
        rcases (mem_fragmentSpreads_names g.sel b).2 hb' with hm
        rw [List.isEmpty_iff.1 hempty] at hm
        cases hm
      refine ⟨rfl, rfl, fun x hx => List.mem_cons_of_mem _ hx, [], by simp, by simp, fun _ hb => ⟨⟨?_, ?_⟩, ?_⟩⟩
      · intro a b ha e d
        rcases List.mem_cons.1 ha.1 with h | h
        · exact absurd (h ▸ e) (hnos b)
        · exact ⟨List.mem_cons_of_mem _ (hb.1 a b ⟨h, ha.2⟩ e d).1, (hb.1 a b ⟨h, ha.2⟩ e d).2⟩
      · intro a ha
        rcases List.mem_cons.1 ha.1 with h | h
        · rintro ⟨b, e, _⟩; exact hnos b (h ▸ e)
        · exact hb.2 a ⟨h, ha.2⟩
      · exact ⟨List.mem_cons_self, hpre.offPath⟩
    · rename_i hne
      -- state at the start of the spread loop
      let st1 : CState := { st with visited := g.name.value :: st.visited,
                                    index := (g.name.value, st.path.length) :: st.index }
      have hkeys1 : keys st1 = g.name.value :: keys st := rfl
      have hloop := loop_spec (detect_frame tbl fuel) ih g hpre.self (fragmentSpreads g.sel) st1
        (fun sp h => (mem_fragmentSpreads_names g.sel sp.name).1 (List.mem_map.2 ⟨sp, h, rfl⟩))
        (by rw [hkeys1]; exact List.mem_cons_self)
        (by
          intro k hk
          rw [hkeys1] at hk
          rcases List.mem_cons.1 hk with rfl | hk
          · exact .refl _
          · exact hpre.pathReach k hk)
        hlt
      have hblack1 : ∀ x, Black st x ↔ Black st1 x := by
        intro x
        constructor
        · rintro ⟨h1, h2⟩
          refine ⟨List.mem_cons_of_mem _ h1, ?_⟩
          rw [hkeys1]
          intro h
          rcases List.mem_cons.1 h with rfl | h
          · exact hpre.fresh h1
          · exact h2 h
        · rintro ⟨h1, h2⟩
          rw [hkeys1] at h2
          have hx : x ≠ g.name.value := fun e => h2 (e ▸ List.mem_cons_self)
          rcases List.mem_cons.1 h1 with h | h
          · exact absurd h hx
          · exact ⟨h, fun hk => h2 (List.mem_cons_of_mem _ hk)⟩
      have hidx : ((fragmentSpreads g.sel).foldl (stepSpread tbl (detect tbl fuel)) st1).index.filter
          (fun p => p.1 != g.name.value) = st.index := by
        rw [hloop.index]
        show ((g.name.value, st.path.length) :: st.index).filter (fun p => p.1 != g.name.value) = st.index
        simp only [List.filter_cons, bne_self_eq_false, Bool.false_eq_true, if_false]
        exact filter_keys_ne _ _ hpre.offPath
      refine ⟨hloop.path, hidx, fun x hx => hloop.mono x (List.mem_cons_of_mem _ hx), ?_⟩
      rcases hloop.errs with ⟨new, e1, c1, b1⟩
      refine ⟨new, e1, c1, fun hn hb => ?_⟩
      have hb1 := b1 hn (hb.congr hblack1)
      -- the final state: index restored, so `g` turns black
      let st2 := (fragmentSpreads g.sel).foldl (stepSpread tbl (detect tbl fuel)) st1
      have hkeys2 : keys st2 = g.name.value :: keys st := by
        show st2.index.map Prod.fst = _
        rw [hloop.index]; rfl
      have hgv : g.name.value ∈ st2.visited := hloop.mono _ List.mem_cons_self
      -- membership in the final black set
      have hfin : ∀ x, (x ∈ st2.visited ∧ x ∉ keys st) ↔ (Black st2 x ∨ x = g.name.value) := by
        intro x
        constructor
        · rintro ⟨h1, h2⟩
          by_cases hx : x = g.name.value
          · exact .inr hx
          · refine .inl ⟨h1, ?_⟩
            rw [hkeys2]
            intro h
            rcases List.mem_cons.1 h with h | h
            · exact hx h
            · exact h2 h
        · rintro (⟨h1, h2⟩ | rfl)
          · rw [hkeys2] at h2
            exact ⟨h1, fun h => h2 (List.mem_cons_of_mem _ h)⟩
          · exact ⟨hgv, hpre.offPath⟩
      have hsucc : ∀ b, SpreadEdge tbl g.name.value b → Defined tbl b → Black st2 b := by
        intro b e d
        rcases spreadEdge_iff.1 e with ⟨f', hf', hb'⟩
        rw [hpre.self] at hf'; cases hf'
        rcases List.mem_map.1 ((mem_fragmentSpreads_names g.sel b).2 hb') with ⟨sp, hsp, rfl⟩
        exact hb1.2 sp hsp d
      have hgnb : ¬ Black st2 g.name.value := by
        rintro ⟨_, h2⟩
        rw [hkeys2] at h2
        exact h2 List.mem_cons_self
      have hBlackFinal : ∀ x, Black { st2 with index := st2.index.filter (fun p => p.1 != g.name.value) } x ↔
          (Black st2 x ∨ x = g.name.value) := by
        intro x
        rw [← hfin x]
        show (x ∈ st2.visited ∧ x ∉ (st2.index.filter (fun p => p.1 != g.name.value)).map Prod.fst) ↔ _
        rw [hidx]
        rfl
      refine ⟨⟨?_, ?_⟩, (hBlackFinal _).2 (.inr rfl)⟩
      · intro a b ha e d
        rw [hBlackFinal] at ha ⊢
        rcases ha with ha | rfl
        · exact .inl (hb1.1.1 a b ha e d)
        · exact .inl (hsucc b e d)
      · intro a ha
        rw [hBlackFinal] at ha
        rcases ha with ha | rfl
        · exact hb1.1.2 a ha
        · rintro ⟨b, e, hr⟩
          have hbd : Defined tbl b := by
            rcases reaches_defined hr with rfl | h
            · exact hgn
            · exact h
          exact hgnb (closed_reach hb1.1.1 hr hgn (hsucc b e hbd))

/-! ## the whole rule -/

/-- invariant of the top-level visitor loop -/
structure TopInv (tbl : List Frag) (st : CState) : Prop where
  index : st.index = []
  sound : st.errs ≠ [] → Cyclic tbl
  complete : st.errs = [] → BlackOK tbl st

theorem cycleRun_top (tbl : List Frag) (hnd : (fragNames tbl).Nodup) (defs : List Frag)
    (hsub : ∀ f, f ∈ defs → f ∈ tbl) (st : CState) (hinv : TopInv tbl st) :
    let st' := defs.foldl (fun st f => if f.name.value ∈ st.visited then st else detect tbl (tbl.length + 1) f st) st
    TopInv tbl st' ∧ (∀ x, x ∈ st.visited → x ∈ st'.visited) ∧ ∀ f, f ∈ defs → f.name.value ∈ st'.visited := by
  induction defs generalizing st with
  | nil => exact ⟨hinv, fun x hx => hx, fun f h => by cases h⟩
  | cons f rest ih =>
    simp only [List.foldl_cons]
    have hrest : ∀ g, g ∈ rest → g ∈ tbl := fun g hg => hsub g (List.mem_cons_of_mem _ hg)
    by_cases hv : f.name.value ∈ st.visited
    · simp only [hv, if_true]
      have := ih hrest st hinv
      refine ⟨this.1, this.2.1, fun g hg => ?_⟩
      rcases List.mem_cons.1 hg with rfl | hg
      · exact this.2.1 _ hv
      · exact this.2.2 g hg
    · simp only [hv, if_false]
      have hft : f ∈ tbl := hsub f List.mem_cons_self
      have hfuel : unc (fragNames tbl) st.visited < tbl.length + 1 := by
        have := unc_le_length (fragNames tbl) st.visited
        have hl : (fragNames tbl).length = tbl.length := by simp [fragNames]
        omega
      have hkeys : keys st = [] := by unfold keys; rw [hinv.index]; rfl
      have hpre : Pre tbl (tbl.length + 1) f st :=
        ⟨lookupFrag_self hnd hft, hv, by rw [hkeys]; simp, hfuel, by rw [hkeys]; intro k hk; cases hk⟩
      have he := detect_spec tbl (tbl.length + 1) f st hpre
      have hfr := detect_frame tbl (tbl.length + 1) f st (List.mem_map.2 ⟨f, hft, rfl⟩) hv hfuel
      have hinv' : TopInv tbl (detect tbl (tbl.length + 1) f st) := by
        rcases he.errs with ⟨new, e1, c1, b1⟩
        refine ⟨he.index.trans hinv.index, fun hne => ?_, fun hnil => ?_⟩
        · by_cases hn : new = []
          · subst hn
            rw [e1, List.append_nil] at hne
            exact hinv.sound hne
          · exact c1 hn
        · rw [e1] at hnil
          have h1 := (List.append_eq_nil_iff.1 hnil)
          exact (b1 h1.2 (hinv.complete h1.1)).1
      have := ih hrest _ hinv'
      refine ⟨this.1, fun x hx => this.2.1 x (he.mono x hx), fun g hg => ?_⟩
      rcases List.mem_cons.1 hg with rfl | hg
      · exact this.2.1 _ hfr.2.2
      · exact this.2.2 g hg

/-- **NoFragmentCycles is exact** (unique fragment names): the DFS reports an error iff the spread graph is cyclic -/
theorem cycleRun_spec (tbl : List Frag) (hnd : (fragNames tbl).Nodup) :
    (cycleRun tbl).errs ≠ [] ↔ Cyclic tbl := by
  have hinit : TopInv tbl CState.init :=
    ⟨rfl, fun h => absurd rfl h, fun _ =>
      ⟨fun a b ha _ _ => absurd ha.1 (by simp [CState.init]), fun a ha => absurd ha.1 (by simp [CState.init])⟩⟩
  have h : TopInv tbl (cycleRun tbl) ∧ (∀ x, x ∈ CState.init.visited → x ∈ (cycleRun tbl).visited) ∧
      ∀ f, f ∈ tbl → f.name.value ∈ (cycleRun tbl).visited :=
    cycleRun_top tbl hnd tbl (fun _ h => h) CState.init hinit
  constructor
  · exact h.1.sound
  · rintro ⟨a, b, e, hr⟩
    intro hnil
    have hb := h.1.complete hnil
    have hd : Defined tbl a := defined_of_edge e
    rcases List.mem_map.1 hd with ⟨f, hf, hfa⟩
    have hvis : a ∈ (cycleRun tbl).visited := hfa ▸ h.2.2 f hf
    have hk : keys (cycleRun tbl) = [] := by
      show (cycleRun tbl).index.map Prod.fst = []
      have : (cycleRun tbl).index = [] := h.1.index
      rw [this]; rfl
    exact hb.2 a ⟨hvis, by rw [hk]; simp⟩ ⟨b, e, hr⟩

end GqlModel.Validate.Graph
