import GqlProofs.PrinterDerive
/-! Derivations for definitions and the document (continuation of `PrinterDerive.lean`). -/
namespace GqlModel.Printer
open GqlModel GqlModel.Grammar GqlModel.Reader

/-! ## descriptions, defaults -/

theorem derive_description (d : Option String) {p : Pos} {k : List KV} (h : kvs p = descT d ++ k)
    (hf1 : NextNe .string k) (hf2 : NextNe .blockString k) :
    ∃ p', DDescription p d p' ∧ kvs p' = k := by
  cases d with
  | none =>
    have hk : kvs p = k := by simpa [descT] using h
    exact ⟨p, DDescription.none (kind_ne_of_next hk hf1 (by decide)) (kind_ne_of_next hk hf2 (by decide)), hk⟩
  | some s =>
    by_cases hs : descBlockSafeC s.toList = true
    · obtain ⟨t, p', ht, hv, hk, _, _⟩ := tok_step (k := .blockString) (v := s) (by simpa [descT, hs] using h)
      exact ⟨p', hv ▸ DDescription.blockString ht, hk⟩
    · obtain ⟨t, p', ht, hv, hk, _, _⟩ := tok_step (k := .string) (v := s) (by simpa [descT, hs] using h)
      exact ⟨p', hv ▸ DDescription.string ht, hk⟩

/-- a keyword follows: neither a string nor a block string -/
theorem nextNe_nT {c : TokenKind} (hc : c ≠ .name) (s : String) (k : List KV) : NextNe c (nT s ++ k) := by
  simp only [nT, List.cons_append, List.nil_append]; exact nextNe_cons (fun e => hc e.symm)

theorem nextNe_pT {c c' : TokenKind} (hc : c ≠ c') (k : List KV) : NextNe c (pT c' ++ k) := by
  simp only [pT, List.cons_append, List.nil_append]; exact nextNe_cons (fun e => hc e.symm)

theorem derive_default (d : Option Value) (hwf : WFDefault d) {p : Pos} {k : List KV} (h : kvs p = defaultT d ++ k)
    (hf : NextNe .equals k) :
    ∃ d' p', DDefault p d' p' ∧ kvs p' = k ∧ d'.map Value.stripLoc = d.map Value.stripLoc := by
  cases d with
  | none =>
    have hk : kvs p = k := by simpa [defaultT] using h
    exact ⟨none, p, DDefault.none (kind_ne_of_next hk hf (by decide)), hk, rfl⟩
  | some v =>
    simp only [defaultT, List.append_assoc] at h
    obtain ⟨q, p1, hq, h1⟩ := derive_punct h
    obtain ⟨v', p2, hv, h2, hs⟩ := derive_value true v hwf.1 (fun _ => hwf.2) p1 k h1
    exact ⟨some v', p2, DDefault.some hq hv, h2, by simp [hs]⟩

theorem nextNe_defaultT {c : TokenKind} (hc : c ≠ .equals) (d : Option Value) {k : List KV} (hk : NextNe c k) :
    NextNe c (defaultT d ++ k) := by
  cases d with
  | none => simpa [defaultT] using hk
  | some v => simp only [defaultT, List.append_assoc]; exact nextNe_pT hc _

/-! ## variable definitions -/

theorem derive_varDef (v : VarDef) (hwf : WFVarDef v) {p : Pos} {k : List KV} (h : kvs p = varDefT v ++ k)
    (hb : NextNe .bang k) (he : NextNe .equals k) :
    ∃ v' p', DVarDef p v' p' ∧ kvs p' = k ∧ v'.stripLoc = v.stripLoc := by
  obtain ⟨_, ⟨t, ht, hwt⟩, hd⟩ := hwf
  simp only [varDefT, ht, optTypeT, List.append_assoc] at h
  obtain ⟨d, p1, hdl, h1⟩ := derive_punct h
  obtain ⟨nm, p2, hn, h2, hnv⟩ := derive_name h1
  obtain ⟨cl, p3, hcl, h3⟩ := derive_punct h2
  obtain ⟨t', p4, htd, h4, hst⟩ := derive_type hwt h3 (nextNe_defaultT (by decide) v.default hb)
  obtain ⟨d', p5, hdd, h5, hsd⟩ := derive_default v.default hd h4 he
  exact ⟨_, p5, DVarDef.mk (DVariable.mk hdl hn) hcl htd hdd, h5,
    by simp [VarDef.stripLoc, Name.stripLoc, hnv, ht, hst, hsd]⟩

theorem varDefListT_follow (c : TokenKind) (hc1 : c ≠ .dollar) (hc2 : c ≠ .parenR) (vs : List VarDef) (k : List KV) :
    NextNe c (varDefListT vs ++ (pT .parenR ++ k)) := by
  cases vs with
  | nil => simp only [varDefListT, List.nil_append]; exact nextNe_pT hc2 _
  | cons v vs => simp only [varDefListT, varDefT, List.append_assoc]; exact nextNe_pT hc1 _

theorem derive_varDefList : ∀ vs : List VarDef, WFVarDefs vs → ∀ (p : Pos) (k : List KV),
    kvs p = varDefListT vs ++ (pT .parenR ++ k) →
    ∃ vs' p', Many DVarDef p vs' p' ∧ kvs p' = pT .parenR ++ k ∧ vs'.map VarDef.stripLoc = vs.map VarDef.stripLoc
  | [], _, p, k, h => ⟨[], p, Many.nil, by simpa [varDefListT] using h, rfl⟩
  | v :: vs, hwf, p, k, h => by
    simp only [varDefListT, List.append_assoc] at h
    obtain ⟨v', p1, hv, h1, hs1⟩ := derive_varDef v hwf.1 h
      (varDefListT_follow _ (by decide) (by decide) vs k) (varDefListT_follow _ (by decide) (by decide) vs k)
    obtain ⟨vs', p2, hvs, h2, hs2⟩ := derive_varDefList vs hwf.2 p1 k h1
    exact ⟨v' :: vs', p2, Many.cons hv hvs, h2, by simp [hs1, hs2]⟩

theorem derive_varDefs (vs : List VarDef) (hwf : WFVarDefs vs) {p : Pos} {k : List KV} (h : kvs p = varDefsT vs ++ k)
    (hf : vs = [] → NextNe .parenL k) :
    ∃ vs' p', DVarDefs p vs' p' ∧ kvs p' = k ∧ vs'.map VarDef.stripLoc = vs.map VarDef.stripLoc := by
  cases vs with
  | nil =>
    have hk : kvs p = k := by simpa [varDefsT] using h
    exact ⟨[], p, DVarDefs.none (kind_ne_of_next hk (hf rfl) (by decide)), hk, rfl⟩
  | cons v vs =>
    simp only [varDefsT, List.append_assoc] at h
    obtain ⟨o, p1, ho, h1⟩ := derive_punct h
    obtain ⟨vs', p2, hvs, h2, hs⟩ := derive_varDefList (v :: vs) hwf p1 k h1
    obtain ⟨cl, p3, hcl, h3⟩ := derive_punct h2
    exact ⟨vs', p3, DVarDefs.some ho hvs (ne_nil_of_map_eq hs) hcl, h3, hs⟩

/-! ## operations and fragments -/

theorem derive_opType (op : OpType) {p : Pos} {k : List KV} (h : kvs p = nT op.toString ++ k) :
    ∃ p', DOpType p op p' ∧ kvs p' = k := by
  obtain ⟨p', hkw, hk⟩ := derive_kw h
  cases op with
  | query => exact ⟨p', DOpType.query hkw, hk⟩
  | mutation => exact ⟨p', DOpType.mutation hkw, hk⟩
  | subscription => exact ⟨p', DOpType.subscription hkw, hk⟩

theorem derive_optName (n : Option Name) {p : Pos} {k : List KV} (h : kvs p = optNameT n ++ k) (hf : NextNe .name k) :
    ∃ n' p', DOptName p n' p' ∧ kvs p' = k ∧ n'.map Name.stripLoc = n.map Name.stripLoc := by
  cases n with
  | none =>
    have hk : kvs p = k := by simpa [optNameT] using h
    exact ⟨none, p, DOptName.none (kind_ne_of_next hk hf (by decide)), hk, rfl⟩
  | some n =>
    obtain ⟨nm, p', hn, hk, hv⟩ := derive_name (s := n.value) (by simpa [optNameT] using h)
    exact ⟨some nm, p', DOptName.some hn, hk, by simp [Name.stripLoc, hv]⟩

theorem nextNe_varDefsT {c : TokenKind} (hc : c ≠ .parenL) (vs : List VarDef) {k : List KV} (hk : NextNe c k) :
    NextNe c (varDefsT vs ++ k) := by
  cases vs with
  | nil => simpa [varDefsT] using hk
  | cons v vs => simp only [varDefsT, List.append_assoc]; exact nextNe_pT hc _

theorem nextNe_selSetT {c : TokenKind} (hc : c ≠ .braceL) (s : SelectionSet) (k : List KV) : NextNe c (selSetT s ++ k) := by
  obtain ⟨r, hr⟩ := selSetT_head s k
  rw [hr]; exact nextNe_cons (fun e => hc e.symm)

theorem derive_operation (op : OpType) (name : Option Name) (vars : List VarDef) (dirs : List Directive)
    (sel : SelectionSet) (l : Loc) (hwf : WFDefinition (.operation op name vars dirs sel l)) {p : Pos} {k : List KV}
    (h : kvs p = operationT op name vars dirs sel ++ k) :
    ∃ d' p', DDefinition p d' p' ∧ kvs p' = k ∧ d'.stripLoc = (Definition.operation op name vars dirs sel l).stripLoc := by
  obtain ⟨hn, hv, hd, hs⟩ := hwf
  simp only [operationT] at h
  by_cases hsf : isShortForm op name vars dirs = true
  · rw [if_pos hsf] at h
    obtain ⟨s', p', hsd, hk, hst⟩ := derive_selSet sel hs p k h
    simp only [isShortForm, Bool.and_eq_true, Option.isNone_iff_eq_none, List.isEmpty_iff, beq_iff_eq] at hsf
    obtain ⟨⟨⟨rfl, rfl⟩, rfl⟩, rfl⟩ := hsf
    exact ⟨_, p', DDefinition.query hsd, hk, by simp [Definition.stripLoc, hst]⟩
  · rw [if_neg hsf] at h
    simp only [List.append_assoc] at h
    obtain ⟨p1, hop, h1⟩ := derive_opType op h
    obtain ⟨n', p2, hnd, h2, hsn⟩ := derive_optName name h1
      (nextNe_varDefsT (by decide) vars (nextNe_directivesT (by decide) dirs (nextNe_selSetT (by decide) sel k)))
    obtain ⟨vs', p3, hvd, h3, hsv⟩ := derive_varDefs vars hv h2
      (fun _ => nextNe_directivesT (by decide) dirs (nextNe_selSetT (by decide) sel k))
    obtain ⟨ds', p4, hdd, h4, hsd⟩ := derive_directives dirs hd p3 _ h3 (nextNe_selSetT (by decide) sel k)
      (nextNe_selSetT (by decide) sel k)
    obtain ⟨s', p5, hsd', h5, hst⟩ := derive_selSet sel hs p4 k h4
    exact ⟨_, p5, DDefinition.operation hop hnd hvd hdd hsd', h5, by simp [Definition.stripLoc, hsn, hsv, hsd, hst]⟩

theorem derive_fragment (name : Name) (tc : TypeRef) (dirs : List Directive) (sel : SelectionSet) (l : Loc)
    (hwf : WFDefinition (.fragment name tc dirs sel l)) {p : Pos} {k : List KV}
    (h : kvs p = fragmentT name tc dirs sel ++ k) :
    ∃ d' p', DDefinition p d' p' ∧ kvs p' = k ∧ d'.stripLoc = (Definition.fragment name tc dirs sel l).stripLoc := by
  obtain ⟨_, hon, htc, hd, hs⟩ := hwf
  simp only [fragmentT, List.append_assoc] at h
  obtain ⟨p1, hkw, h1⟩ := derive_kw h
  obtain ⟨nm, p2, hn, h2, hnv⟩ := derive_name h1
  obtain ⟨p3, hkon, h3⟩ := derive_kw h2
  obtain ⟨t', p4, ht, h4, hst⟩ := derive_namedType htc h3
  obtain ⟨ds', p5, hdd, h5, hsd⟩ := derive_directives dirs hd p4 _ h4 (nextNe_selSetT (by decide) sel k)
    (nextNe_selSetT (by decide) sel k)
  obtain ⟨s', p6, hsd', h6, hss⟩ := derive_selSet sel hs p5 k h5
  exact ⟨_, p6, DDefinition.fragment hkw (DFragmentName.mk hn (by rw [hnv]; exact hon)) hkon ht hdd hsd', h6,
    by simp [Definition.stripLoc, Name.stripLoc, hnv, hst, hsd, hss]⟩

/-! ## members of type-system definitions -/

/-- what may follow a member (input value / field / enum value definition) -/
structure FollowMember (k : List KV) : Prop where
  hBang : NextNe .bang k
  hEquals : NextNe .equals k
  hAt : NextNe .at k
  hParenL : NextNe .parenL k

theorem followMember_cons {kd : TokenKind} {v : String} {r : List KV} (h1 : kd ≠ .bang) (h2 : kd ≠ .equals)
    (h3 : kd ≠ .at) (h4 : kd ≠ .parenL) : FollowMember ((kd, v) :: r) :=
  ⟨nextNe_cons h1, nextNe_cons h2, nextNe_cons h3, nextNe_cons h4⟩

theorem descT_cases (d : Option String) : descT d = [] ∨ ∃ s, descT d = [(.string, s)] ∨ descT d = [(.blockString, s)] := by
  cases d with
  | none => exact Or.inl rfl
  | some s =>
    right; refine ⟨s, ?_⟩
    by_cases hs : descBlockSafeC s.toList = true
    · right; simp [descT, hs]
    · left; simp [descT, hs]

/-- a member starts with a description (string / block string) or its name -/
theorem member_head (d : Option String) (n : String) (k : List KV) :
    ∃ kd v r, descT d ++ (nT n ++ k) = (kd, v) :: r ∧ (kd = .name ∨ kd = .string ∨ kd = .blockString) := by
  rcases descT_cases d with h | ⟨s, h | h⟩
  · rw [h]; exact ⟨.name, n, k, by simp [nT], Or.inl rfl⟩
  · rw [h]; exact ⟨.string, s, _, rfl, Or.inr (Or.inl rfl)⟩
  · rw [h]; exact ⟨.blockString, s, _, rfl, Or.inr (Or.inr rfl)⟩

theorem followMember_of_head {l : List KV} (h : ∃ kd v r, l = (kd, v) :: r ∧
    (kd = .name ∨ kd = .string ∨ kd = .blockString ∨ kd = .parenR ∨ kd = .braceR)) : FollowMember l := by
  obtain ⟨kd, v, r, rfl, hk⟩ := h
  rcases hk with rfl | rfl | rfl | rfl | rfl <;> exact followMember_cons (by decide) (by decide) (by decide) (by decide)

theorem derive_inputValueDef (d : InputValueDef) (hwf : WFInputValueDef d) {p : Pos} {k : List KV}
    (h : kvs p = inputValueDefT d ++ k) (hf : FollowMember k) :
    ∃ d' p', DInputValueDef p d' p' ∧ kvs p' = k ∧ d'.stripLoc = d.stripLoc := by
  obtain ⟨_, ht, hd, hdir⟩ := hwf
  simp only [inputValueDefT, List.append_assoc] at h
  obtain ⟨p1, hdesc, h1⟩ := derive_description d.description h (nextNe_nT (by decide) _ _) (nextNe_nT (by decide) _ _)
  obtain ⟨nm, p2, hn, h2, hnv⟩ := derive_name h1
  obtain ⟨cl, p3, hcl, h3⟩ := derive_punct h2
  obtain ⟨t', p4, htd, h4, hst⟩ := derive_type ht h3
    (nextNe_defaultT (by decide) d.default (nextNe_directivesT (by decide) d.dirs hf.hBang))
  obtain ⟨df', p5, hdd, h5, hsd⟩ := derive_default d.default hd h4 (nextNe_directivesT (by decide) d.dirs hf.hEquals)
  obtain ⟨ds', p6, hds, h6, hss⟩ := derive_directives d.dirs hdir p5 k h5 hf.hAt hf.hParenL
  exact ⟨_, p6, DInputValueDef.mk hdesc hn hcl htd hdd hds, h6,
    by simp [InputValueDef.stripLoc, Name.stripLoc, hnv, hst, hsd, hss]⟩

theorem inputValueDefListT_head (ds : List InputValueDef) (close : TokenKind) (k : List KV)
    (hc : close = .parenR ∨ close = .braceR) :
    ∃ kd v r, inputValueDefListT ds ++ (pT close ++ k) = (kd, v) :: r ∧
      (kd = .name ∨ kd = .string ∨ kd = .blockString ∨ kd = .parenR ∨ kd = .braceR) := by
  cases ds with
  | nil =>
    rcases hc with rfl | rfl
    · exact ⟨.parenR, "", k, by simp [inputValueDefListT, pT], by simp⟩
    · exact ⟨.braceR, "", k, by simp [inputValueDefListT, pT], by simp⟩
  | cons d ds =>
    obtain ⟨kd, v, r, hr, hk⟩ := member_head d.description d.name.value
      (pT .colon ++ (typeT d.type ++ (defaultT d.default ++ (directivesT d.dirs ++ (inputValueDefListT ds ++ (pT close ++ k))))))
    refine ⟨kd, v, r, ?_, ?_⟩
    · simp only [inputValueDefListT, inputValueDefT, List.append_assoc]; exact hr
    · rcases hk with h | h | h <;> simp [h]

theorem derive_inputValueDefList (close : TokenKind) (hc : close = .parenR ∨ close = .braceR) :
    ∀ ds : List InputValueDef, WFInputValueDefs ds → ∀ (p : Pos) (k : List KV),
    kvs p = inputValueDefListT ds ++ (pT close ++ k) →
    ∃ ds' p', Many DInputValueDef p ds' p' ∧ kvs p' = pT close ++ k ∧
      ds'.map InputValueDef.stripLoc = ds.map InputValueDef.stripLoc
  | [], _, p, k, h => ⟨[], p, Many.nil, by simpa [inputValueDefListT] using h, rfl⟩
  | d :: ds, hwf, p, k, h => by
    simp only [inputValueDefListT, List.append_assoc] at h
    obtain ⟨d', p1, hd, h1, hs1⟩ := derive_inputValueDef d hwf.1 h
      (followMember_of_head (inputValueDefListT_head ds close k hc))
    obtain ⟨ds', p2, hds, h2, hs2⟩ := derive_inputValueDefList close hc ds hwf.2 p1 k h1
    exact ⟨d' :: ds', p2, Many.cons hd hds, h2, by simp [hs1, hs2]⟩

theorem derive_argDefs (ds : List InputValueDef) (hwf : WFInputValueDefs ds) {p : Pos} {k : List KV}
    (h : kvs p = argDefsT ds ++ k) (hf : ds = [] → NextNe .parenL k) :
    ∃ ds' p', DArgumentDefs p ds' p' ∧ kvs p' = k ∧ ds'.map InputValueDef.stripLoc = ds.map InputValueDef.stripLoc := by
  cases ds with
  | nil =>
    have hk : kvs p = k := by simpa [argDefsT] using h
    exact ⟨[], p, DArgumentDefs.none (kind_ne_of_next hk (hf rfl) (by decide)), hk, rfl⟩
  | cons d ds =>
    simp only [argDefsT, List.append_assoc] at h
    obtain ⟨o, p1, ho, h1⟩ := derive_punct h
    obtain ⟨ds', p2, hds, h2, hs⟩ := derive_inputValueDefList .parenR (Or.inl rfl) (d :: ds) hwf p1 k h1
    obtain ⟨cl, p3, hcl, h3⟩ := derive_punct h2
    exact ⟨ds', p3, DArgumentDefs.some ho hds (ne_nil_of_map_eq hs) hcl, h3, hs⟩

theorem derive_fieldDef (d : FieldDef) (hwf : WFFieldDef d) {p : Pos} {k : List KV}
    (h : kvs p = fieldDefT d ++ k) (hf : FollowMember k) :
    ∃ d' p', DFieldDef p d' p' ∧ kvs p' = k ∧ d'.stripLoc = d.stripLoc := by
  obtain ⟨_, ha, ht, hdir⟩ := hwf
  simp only [fieldDefT, List.append_assoc] at h
  obtain ⟨p1, hdesc, h1⟩ := derive_description d.description h (nextNe_nT (by decide) _ _) (nextNe_nT (by decide) _ _)
  obtain ⟨nm, p2, hn, h2, hnv⟩ := derive_name h1
  obtain ⟨as', p3, had, h3, hsa⟩ := derive_argDefs d.args ha h2 (fun _ => nextNe_pT (by decide) _)
  obtain ⟨cl, p4, hcl, h4⟩ := derive_punct h3
  obtain ⟨t', p5, htd, h5, hst⟩ := derive_type ht h4 (nextNe_directivesT (by decide) d.dirs hf.hBang)
  obtain ⟨ds', p6, hds, h6, hss⟩ := derive_directives d.dirs hdir p5 k h5 hf.hAt hf.hParenL
  exact ⟨_, p6, DFieldDef.mk hdesc hn had hcl htd hds, h6,
    by simp [FieldDef.stripLoc, Name.stripLoc, hnv, hsa, hst, hss]⟩

theorem fieldDefListT_head (ds : List FieldDef) (k : List KV) :
    ∃ kd v r, fieldDefListT ds ++ (pT .braceR ++ k) = (kd, v) :: r ∧
      (kd = .name ∨ kd = .string ∨ kd = .blockString ∨ kd = .parenR ∨ kd = .braceR) := by
  cases ds with
  | nil => exact ⟨.braceR, "", k, by simp [fieldDefListT, pT], by simp⟩
  | cons d ds =>
    obtain ⟨kd, v, r, hr, hk⟩ := member_head d.description d.name.value
      (argDefsT d.args ++ (pT .colon ++ (typeT d.type ++ (directivesT d.dirs ++ (fieldDefListT ds ++ (pT .braceR ++ k))))))
    refine ⟨kd, v, r, ?_, ?_⟩
    · simp only [fieldDefListT, fieldDefT, List.append_assoc]; exact hr
    · rcases hk with h | h | h <;> simp [h]

theorem derive_fieldDefList : ∀ ds : List FieldDef, WFFieldDefs ds → ∀ (p : Pos) (k : List KV),
    kvs p = fieldDefListT ds ++ (pT .braceR ++ k) →
    ∃ ds' p', Many DFieldDef p ds' p' ∧ kvs p' = pT .braceR ++ k ∧ ds'.map FieldDef.stripLoc = ds.map FieldDef.stripLoc
  | [], _, p, k, h => ⟨[], p, Many.nil, by simpa [fieldDefListT] using h, rfl⟩
  | d :: ds, hwf, p, k, h => by
    simp only [fieldDefListT, List.append_assoc] at h
    obtain ⟨d', p1, hd, h1, hs1⟩ := derive_fieldDef d hwf.1 h (followMember_of_head (fieldDefListT_head ds k))
    obtain ⟨ds', p2, hds, h2, hs2⟩ := derive_fieldDefList ds hwf.2 p1 k h1
    exact ⟨d' :: ds', p2, Many.cons hd hds, h2, by simp [hs1, hs2]⟩

theorem derive_fieldBlock (ds : List FieldDef) (hwf : WFFieldDefs ds) {p : Pos} {k : List KV}
    (h : kvs p = pT .braceL ++ (fieldDefListT ds ++ (pT .braceR ++ k))) :
    ∃ ds' p', Braced DFieldDef p ds' p' ∧ kvs p' = k ∧ ds'.map FieldDef.stripLoc = ds.map FieldDef.stripLoc := by
  obtain ⟨o, p1, ho, h1⟩ := derive_punct h
  obtain ⟨ds', p2, hds, h2, hs⟩ := derive_fieldDefList ds hwf p1 k h1
  obtain ⟨cl, p3, hcl, h3⟩ := derive_punct h2
  exact ⟨ds', p3, Braced.mk ho hds hcl, h3, hs⟩

theorem derive_inputBlock (ds : List InputValueDef) (hwf : WFInputValueDefs ds) {p : Pos} {k : List KV}
    (h : kvs p = pT .braceL ++ (inputValueDefListT ds ++ (pT .braceR ++ k))) :
    ∃ ds' p', Braced DInputValueDef p ds' p' ∧ kvs p' = k ∧
      ds'.map InputValueDef.stripLoc = ds.map InputValueDef.stripLoc := by
  obtain ⟨o, p1, ho, h1⟩ := derive_punct h
  obtain ⟨ds', p2, hds, h2, hs⟩ := derive_inputValueDefList .braceR (Or.inr rfl) ds hwf p1 k h1
  obtain ⟨cl, p3, hcl, h3⟩ := derive_punct h2
  exact ⟨ds', p3, Braced.mk ho hds hcl, h3, hs⟩

theorem derive_enumValueDef (d : EnumValueDef) (hwf : WFEnumValueDef d) {p : Pos} {k : List KV}
    (h : kvs p = enumValueDefT d ++ k) (hf : FollowMember k) :
    ∃ d' p', DEnumValueDef p d' p' ∧ kvs p' = k ∧ d'.stripLoc = d.stripLoc := by
  simp only [enumValueDefT, List.append_assoc] at h
  obtain ⟨p1, hdesc, h1⟩ := derive_description d.description h (nextNe_nT (by decide) _ _) (nextNe_nT (by decide) _ _)
  obtain ⟨nm, p2, hn, h2, hnv⟩ := derive_name h1
  obtain ⟨ds', p3, hds, h3, hss⟩ := derive_directives d.dirs hwf.2 p2 k h2 hf.hAt hf.hParenL
  exact ⟨_, p3, DEnumValueDef.mk hdesc hn hds, h3, by simp [EnumValueDef.stripLoc, Name.stripLoc, hnv, hss]⟩

theorem enumValueDefListT_head (ds : List EnumValueDef) (k : List KV) :
    ∃ kd v r, enumValueDefListT ds ++ (pT .braceR ++ k) = (kd, v) :: r ∧
      (kd = .name ∨ kd = .string ∨ kd = .blockString ∨ kd = .parenR ∨ kd = .braceR) := by
  cases ds with
  | nil => exact ⟨.braceR, "", k, by simp [enumValueDefListT, pT], by simp⟩
  | cons d ds =>
    obtain ⟨kd, v, r, hr, hk⟩ := member_head d.description d.name.value
      (directivesT d.dirs ++ (enumValueDefListT ds ++ (pT .braceR ++ k)))
    refine ⟨kd, v, r, ?_, ?_⟩
    · simp only [enumValueDefListT, enumValueDefT, List.append_assoc]; exact hr
    · rcases hk with h | h | h <;> simp [h]

theorem derive_enumValueDefList : ∀ ds : List EnumValueDef, WFEnumValueDefs ds → ∀ (p : Pos) (k : List KV),
    kvs p = enumValueDefListT ds ++ (pT .braceR ++ k) →
    ∃ ds' p', Many DEnumValueDef p ds' p' ∧ kvs p' = pT .braceR ++ k ∧
      ds'.map EnumValueDef.stripLoc = ds.map EnumValueDef.stripLoc
  | [], _, p, k, h => ⟨[], p, Many.nil, by simpa [enumValueDefListT] using h, rfl⟩
  | d :: ds, hwf, p, k, h => by
    simp only [enumValueDefListT, List.append_assoc] at h
    obtain ⟨d', p1, hd, h1, hs1⟩ := derive_enumValueDef d hwf.1 h (followMember_of_head (enumValueDefListT_head ds k))
    obtain ⟨ds', p2, hds, h2, hs2⟩ := derive_enumValueDefList ds hwf.2 p1 k h1
    exact ⟨d' :: ds', p2, Many.cons hd hds, h2, by simp [hs1, hs2]⟩

theorem derive_opTypeDef (d : OpTypeDef) (hwf : WFOpTypeDef d) {p : Pos} {k : List KV} (h : kvs p = opTypeDefT d ++ k) :
    ∃ d' p', DOpTypeDef p d' p' ∧ kvs p' = k ∧ d'.stripLoc = d.stripLoc := by
  simp only [opTypeDefT, List.append_assoc] at h
  obtain ⟨p1, hop, h1⟩ := derive_opType d.operation h
  obtain ⟨cl, p2, hcl, h2⟩ := derive_punct h1
  obtain ⟨t', p3, ht, h3, hst⟩ := derive_namedType hwf h2
  exact ⟨_, p3, DOpTypeDef.mk hop hcl ht, h3, by simp [OpTypeDef.stripLoc, hst]⟩

theorem derive_opTypeDefList : ∀ ds : List OpTypeDef, WFOpTypeDefs ds → ∀ (p : Pos) (k : List KV),
    kvs p = opTypeDefListT ds ++ k →
    ∃ ds' p', Many DOpTypeDef p ds' p' ∧ kvs p' = k ∧ ds'.map OpTypeDef.stripLoc = ds.map OpTypeDef.stripLoc
  | [], _, p, k, h => ⟨[], p, Many.nil, by simpa [opTypeDefListT] using h, rfl⟩
  | d :: ds, hwf, p, k, h => by
    simp only [opTypeDefListT, List.append_assoc] at h
    obtain ⟨d', p1, hd, h1, hs1⟩ := derive_opTypeDef d hwf.1 h
    obtain ⟨ds', p2, hds, h2, hs2⟩ := derive_opTypeDefList ds hwf.2 p1 k h1
    exact ⟨d' :: ds', p2, Many.cons hd hds, h2, by simp [hs1, hs2]⟩

/-! ## separated lists -/

theorem derive_sepBy_namedTypes (sep : TokenKind) (hsep : sep ≠ .eof) : ∀ (t : TypeRef) (ts : List TypeRef),
    WFNamedTypes (t :: ts) → ∀ (p : Pos) (k : List KV), kvs p = sepByT sep ((t :: ts).map typeT) ++ k → NextNe sep k →
    ∃ ts' p', SepBy sep DNamedType p ts' p' ∧ kvs p' = k ∧ ts'.map TypeRef.stripLoc = (t :: ts).map TypeRef.stripLoc
  | t, [], hwf, p, k, h, hf => by
    obtain ⟨t', p1, ht, h1, hst⟩ := derive_namedType hwf.1 (by simpa [sepByT] using h)
    exact ⟨[t'], p1, SepBy.one ht (kind_ne_of_next h1 hf hsep), h1, by simp [hst]⟩
  | t, u :: us, hwf, p, k, h, hf => by
    simp only [List.map_cons, sepByT, List.append_assoc] at h
    obtain ⟨t', p1, ht, h1, hst⟩ := derive_namedType hwf.1 h
    obtain ⟨s, p2, hs, h2⟩ := derive_punct h1
    obtain ⟨ts', p3, hts, h3, hss⟩ := derive_sepBy_namedTypes sep hsep u us hwf.2 p2 k
      (by simpa [List.map_cons] using h2) hf
    exact ⟨t' :: ts', p3, SepBy.cons ht hs hts, h3, by simp [hst] ; simpa using hss⟩

theorem derive_sepBy_names (sep : TokenKind) (hsep : sep ≠ .eof) : ∀ (n : Name) (ns : List Name),
    ∀ (p : Pos) (k : List KV), kvs p = sepByT sep ((n :: ns).map (fun n => nT n.value)) ++ k → NextNe sep k →
    ∃ ns' p', SepBy sep DName p ns' p' ∧ kvs p' = k ∧ ns'.map Name.stripLoc = (n :: ns).map Name.stripLoc
  | n, [], p, k, h, hf => by
    obtain ⟨nm, p1, hn, h1, hv⟩ := derive_name (s := n.value) (by simpa [sepByT] using h)
    exact ⟨[nm], p1, SepBy.one hn (kind_ne_of_next h1 hf hsep), h1, by simp [Name.stripLoc, hv]⟩
  | n, m :: ms, p, k, h, hf => by
    simp only [List.map_cons, sepByT, List.append_assoc] at h
    obtain ⟨nm, p1, hn, h1, hv⟩ := derive_name h
    obtain ⟨s, p2, hs, h2⟩ := derive_punct h1
    obtain ⟨ns', p3, hns, h3, hss⟩ := derive_sepBy_names sep hsep m ms p2 k (by simpa [List.map_cons] using h2) hf
    refine ⟨nm :: ns', p3, SepBy.cons hn hs hns, h3, ?_⟩
    rw [List.map_cons, List.map_cons, hss]
    simp [Name.stripLoc, hv]

end GqlModel.Printer
