import GqlModel.Validate.Graph
/-! # Helper lemmas for C02 (graph rules): fragment table, `FragmentSpreads` worklist, `RecursivelyReferencedFragments`

* `fsLoop_ok` / `mem_fragmentSpreads`: the explicit-stack loop of `FragmentSpreads` never runs out of the fuel
  `setsSet node` and collects exactly the spreads of the structural definition `spreadsSet`.
* `rrf_spec`: `RecursivelyReferencedFragments` never runs out of the fuel `|fragment table| + 1` and returns exactly
  the defined fragments whose name is reachable in the spread graph from a spread of the operation. -/
namespace GqlModel.Validate.Graph

/-! ## fragment table -/

theorem lookupFrag_some {tbl : List Frag} {n : String} {f : Frag} (h : lookupFrag tbl n = some f) :
    f ∈ tbl ∧ f.name.value = n := by
  induction tbl with
  | nil => simp [lookupFrag] at h
  | cons g gs ih =>
    unfold lookupFrag at h
    split at h
    · rename_i g' hg
      cases h
      exact ⟨List.mem_cons_of_mem _ (ih hg).1, (ih hg).2⟩
    · split at h
      · rename_i hn
        cases h
        exact ⟨List.mem_cons_self, hn⟩
      · cases h

theorem lookupFrag_isSome_of_mem {tbl : List Frag} {f : Frag} (h : f ∈ tbl) :
    (lookupFrag tbl f.name.value).isSome = true := by
  induction tbl with
  | nil => cases h
  | cons g gs ih =>
    unfold lookupFrag
    split
    · rfl
    · rename_i hnone
      rcases List.mem_cons.1 h with rfl | h'
      · simp
      · have := ih h'
        rw [hnone] at this
        cases this

theorem lookupFrag_mem_names {tbl : List Frag} {n : String} {f : Frag} (h : lookupFrag tbl n = some f) :
    n ∈ fragNames tbl := by
  have := lookupFrag_some h
  rw [← this.2]
  exact List.mem_map.2 ⟨f, this.1, rfl⟩

theorem lookupFrag_of_mem_names {tbl : List Frag} {n : String} (h : n ∈ fragNames tbl) :
    ∃ f, lookupFrag tbl n = some f := by
  rcases List.mem_map.1 h with ⟨f, hf, rfl⟩
  have := lookupFrag_isSome_of_mem hf
  exact Option.isSome_iff_exists.1 this

/-- with unique names the table resolves every definition to itself -/
theorem lookupFrag_self {tbl : List Frag} (hnd : (fragNames tbl).Nodup) {f : Frag} (h : f ∈ tbl) :
    lookupFrag tbl f.name.value = some f := by
  induction tbl with
  | nil => cases h
  | cons g gs ih =>
    have hnd' : (fragNames gs).Nodup := (List.nodup_cons.1 hnd).2
    have hg : g.name.value ∉ fragNames gs := (List.nodup_cons.1 hnd).1
    unfold lookupFrag
    rcases List.mem_cons.1 h with rfl | h'
    · split
      · rename_i g' hg'
        exact absurd (lookupFrag_mem_names hg') hg
      · simp
    · rw [ih hnd' h']

/-! ## `FragmentSpreads` -/

/-- spreads still to be collected from the stack -/
def pend : List SelectionSet → List Spread
  | [] => []
  | s :: stk => spreadsSet s ++ pend stk

/-- iterations still to be made for the stack -/
def wt : List SelectionSet → Nat
  | [] => 0
  | s :: stk => setsSet s + wt stk

theorem fsScan_spec (sels : List Selection) (acc : List Spread) (stk : List SelectionSet) :
    wt (fsScan sels acc stk).2 = wt stk + setsSels sels ∧
    ∀ x, (x ∈ (fsScan sels acc stk).1 ∨ x ∈ pend (fsScan sels acc stk).2) ↔
      (x ∈ acc ∨ x ∈ pend stk ∨ x ∈ spreadsSels sels) := by
  induction sels generalizing acc stk with
  | nil => simp [fsScan, setsSels, spreadsSels]
  | cons sel rest ih =>
    cases sel with
    | spread n ds l =>
      have := ih (acc ++ [⟨n.value, l⟩]) stk
      refine ⟨by simp [fsScan, setsSels, setsSel, this.1], fun x => ?_⟩
      simp only [fsScan, spreadsSels, spreadsSel]
      rw [this.2 x]
      simp only [List.mem_append, List.mem_cons, List.not_mem_nil, or_false]
      constructor
      · rintro ((h | h) | h | h) <;> simp [h]
      · rintro (h | h | (h | h)) <;> simp [h]
    | field a n args ds sel l =>
      cases sel with
      | none =>
        have := ih acc stk
        refine ⟨by simp [fsScan, setsSels, setsSel, setsOpt, this.1], fun x => ?_⟩
        simp only [fsScan, spreadsSels, spreadsSel, spreadsOpt]
        rw [this.2 x]
        simp
      | some ss =>
        have := ih acc (ss :: stk)
        refine ⟨by simp [fsScan, setsSels, setsSel, setsOpt, this.1, wt]; try omega, fun x => ?_⟩
        simp only [fsScan, spreadsSels, spreadsSel, spreadsOpt]
        rw [this.2 x]
        simp only [pend, List.mem_append]
        constructor
        · rintro (h | (h | h) | h) <;> simp [h]
        · rintro (h | h | (h | h)) <;> simp [h]
    | inline tc ds ss l =>
      have := ih acc (ss :: stk)
      refine ⟨by simp [fsScan, setsSels, setsSel, this.1, wt]; try omega, fun x => ?_⟩
      simp only [fsScan, spreadsSels, spreadsSel]
      rw [this.2 x]
      simp only [pend, List.mem_append]
      constructor
      · rintro (h | (h | h) | h) <;> simp [h]
      · rintro (h | h | (h | h)) <;> simp [h]

theorem fsLoop_ok (fuel : Nat) (stk : List SelectionSet) (acc : List Spread) (h : wt stk ≤ fuel) :
    (fsLoop fuel stk acc).2 = false ∧ ∀ x, x ∈ (fsLoop fuel stk acc).1 ↔ (x ∈ acc ∨ x ∈ pend stk) := by
  induction fuel generalizing stk acc with
  | zero =>
    cases stk with
    | nil => simp [fsLoop, pend]
    | cons s stk =>
      exfalso
      cases s with
      | mk sels l => simp [wt, setsSet] at h
  | succ fuel ih =>
    cases stk with
    | nil => simp [fsLoop, pend]
    | cons s stk =>
      cases s with
      | mk sels l =>
        have hs := fsScan_spec sels acc stk
        have hw : wt (fsScan sels acc stk).2 ≤ fuel := by
          rw [hs.1]; simp [wt, setsSet] at h; omega
        have := ih (fsScan sels acc stk).2 (fsScan sels acc stk).1 hw
        simp only [fsLoop, SelectionSet.sels]
        refine ⟨this.1, fun x => ?_⟩
        rw [this.2 x, hs.2 x]
        simp only [pend, spreadsSet, List.mem_append]
        constructor
        · rintro (h | h | h) <;> simp [h]
        · rintro (h | h | h) <;> simp [h]

/-- the `FragmentSpreads` loop terminates within its fuel -/
theorem fragmentSpreads_no_oof (ss : SelectionSet) : (fragmentSpreadsF ss).2 = false :=
  (fsLoop_ok (setsSet ss) [ss] [] (by simp [wt])).1

/-- … and collects exactly the spreads below the selection set -/
theorem mem_fragmentSpreads (ss : SelectionSet) (x : Spread) : x ∈ fragmentSpreads ss ↔ x ∈ spreadsSet ss := by
  have := (fsLoop_ok (setsSet ss) [ss] [] (by simp [wt])).2 x
  simpa [fragmentSpreads, fragmentSpreadsF, pend] using this

theorem mem_fragmentSpreads_names (ss : SelectionSet) (n : String) :
    n ∈ (fragmentSpreads ss).map (·.name) ↔ n ∈ spreadNames ss := by
  simp only [spreadNames, List.mem_map]
  constructor
  · rintro ⟨x, hx, rfl⟩; exact ⟨x, (mem_fragmentSpreads ss x).1 hx, rfl⟩
  · rintro ⟨x, hx, rfl⟩; exact ⟨x, (mem_fragmentSpreads ss x).2 hx, rfl⟩

/-! ## reachability -/

theorem Reaches.trans {tbl : List Frag} {a b c : String} (h1 : Reaches tbl a b) (h2 : Reaches tbl b c) :
    Reaches tbl a c := by
  induction h1 with
  | refl => exact h2
  | step e _ ih => exact .step e (ih h2)

theorem Reaches.single {tbl : List Frag} {a b : String} (h : SpreadEdge tbl a b) : Reaches tbl a b :=
  .step h (.refl b)

theorem Reaches.tail {tbl : List Frag} {a b c : String} (h1 : Reaches tbl a b) (h2 : SpreadEdge tbl b c) :
    Reaches tbl a c := h1.trans (.single h2)

/-- a set of names that contains the roots and is closed under the edges contains everything reachable -/
theorem Reaches.mem_of_closed {tbl : List Frag} {C : String → Prop}
    (hcl : ∀ a b, C a → SpreadEdge tbl a b → C b) {a b : String} (h : Reaches tbl a b) (ha : C a) : C b := by
  induction h with
  | refl => exact ha
  | step e _ ih => exact ih (hcl _ _ ha e)

theorem spreadEdge_iff {tbl : List Frag} {a b : String} :
    SpreadEdge tbl a b ↔ ∃ f, lookupFrag tbl a = some f ∧ b ∈ spreadNames f.sel := by
  unfold SpreadEdge succs
  cases h : lookupFrag tbl a with
  | none => simp
  | some f => simp

/-! ## `RecursivelyReferencedFragments` -/

/-- number of entries of `names` that are not in `col` -/
def unc : List String → List String → Nat
  | [], _ => 0
  | m :: ms, col => (if m ∈ col then 0 else 1) + unc ms col

theorem unc_le_length (names col : List String) : unc names col ≤ names.length := by
  induction names with
  | nil => simp [unc]
  | cons m ms ih => simp only [unc, List.length_cons]; split <;> omega

theorem unc_cons_le (names col : List String) (n : String) : unc names (n :: col) ≤ unc names col := by
  induction names with
  | nil => simp [unc]
  | cons m ms ih =>
    simp only [unc]
    by_cases h2 : m ∈ col
    · have h1 : m ∈ n :: col := List.mem_cons_of_mem _ h2
      simp only [h1, h2, if_true]; omega
    · simp only [h2, if_false]; split <;> omega

theorem unc_cons_lt (names col : List String) (n : String) (hn : n ∈ names) (hc : n ∉ col) :
    unc names (n :: col) < unc names col := by
  induction names with
  | nil => cases hn
  | cons m ms ih =>
    simp only [unc]
    by_cases hm : m = n
    · subst hm
      have h1 : m ∈ m :: col := List.mem_cons_self
      have := unc_cons_le ms col m
      simp only [h1, hc, if_true, if_false]; omega
    · have hn' : n ∈ ms := by
        rcases List.mem_cons.1 hn with h | h
        · exact absurd h.symm hm
        · exact h
      have := ih hn'
      by_cases h2 : m ∈ col
      · have h1 : m ∈ n :: col := List.mem_cons_of_mem _ h2
        simp only [h1, h2, if_true]; omega
      · have h1 : m ∉ n :: col := by
          intro h; rcases List.mem_cons.1 h with h | h
          · exact hm h
          · exact h2 h
        simp only [h1, h2, if_false]; omega

theorem unc_mono (names : List String) {c1 c2 : List String} (h : ∀ x, x ∈ c1 → x ∈ c2) :
    unc names c2 ≤ unc names c1 := by
  induction names with
  | nil => simp [unc]
  | cons m ms ih =>
    simp only [unc]
    by_cases h1 : m ∈ c1
    · simp only [h1, h _ h1, if_true]; omega
    · simp only [h1, if_false]; split <;> omega

/-- a selection set has been dealt with: it is still on the stack, or each of its spreads is collected (or about
to be: `pending` are the names of the spreads the current scan has yet to look at) -/
def Done (stk : List SelectionSet) (col pending : List String) (ss : SelectionSet) : Prop :=
  ss ∈ stk ∨ ∀ m, m ∈ spreadNames ss → m ∈ col ∨ m ∈ pending

/-- invariant of the `RecursivelyReferencedFragments` loops -/
structure RInv (tbl : List Frag) (root : SelectionSet) (pending : List String)
    (stk : List SelectionSet) (col : List String) (frs : List Frag) : Prop where
  sound : ∀ n, n ∈ col → FragUsed tbl root n
  stkSound : ∀ s, s ∈ stk → ∀ n, n ∈ spreadNames s → FragUsed tbl root n
  frsIff : ∀ f, f ∈ frs ↔ (f.name.value ∈ col ∧ lookupFrag tbl f.name.value = some f)
  doneRoot : Done stk col pending root
  done : ∀ n, n ∈ col → ∀ f, lookupFrag tbl n = some f → Done stk col pending f.sel

theorem Done.mono {stk stk' : List SelectionSet} {col col' pending pending' : List String} {ss : SelectionSet}
    (h : Done stk col pending ss) (hs : ∀ x, x ∈ stk → x ∈ stk')
    (hc : ∀ m, m ∈ col ∨ m ∈ pending → m ∈ col' ∨ m ∈ pending') : Done stk' col' pending' ss := by
  rcases h with h | h
  · exact .inl (hs _ h)
  · exact .inr (fun m hm => hc m (h m hm))

theorem rrfScan_inv (tbl : List Frag) (root : SelectionSet) (sps : List Spread) (col : List String)
    (frs : List Frag) (stk : List SelectionSet)
    (hinv : RInv tbl root (sps.map (·.name)) stk col frs)
    (hsp : ∀ sp, sp ∈ sps → FragUsed tbl root sp.name) :
    RInv tbl root [] (rrfScan tbl sps col frs stk).2.2 (rrfScan tbl sps col frs stk).1 (rrfScan tbl sps col frs stk).2.1 ∧
    (rrfScan tbl sps col frs stk).2.2.length + unc (fragNames tbl) (rrfScan tbl sps col frs stk).1
      ≤ stk.length + unc (fragNames tbl) col := by
  induction sps generalizing col frs stk with
  | nil => exact ⟨by simpa [rrfScan] using hinv, by simp [rrfScan]⟩
  | cons sp rest ih =>
    have hrest : ∀ sp', sp' ∈ rest → FragUsed tbl root sp'.name := fun sp' h => hsp sp' (List.mem_cons_of_mem _ h)
    unfold rrfScan
    by_cases hc : sp.name ∈ col
    · simp only [hc, if_true]
      refine ih col frs stk ⟨hinv.sound, hinv.stkSound, hinv.frsIff, ?_, ?_⟩ hrest
      · refine hinv.doneRoot.mono (fun _ h => h) (fun m hm => ?_)
        rcases hm with hm | hm
        · exact .inl hm
        · rcases List.mem_cons.1 hm with rfl | hm
          · exact .inl hc
          · exact .inr hm
      · intro n hn f hf
        refine (hinv.done n hn f hf).mono (fun _ h => h) (fun m hm => ?_)
        rcases hm with hm | hm
        · exact .inl hm
        · rcases List.mem_cons.1 hm with rfl | hm
          · exact .inl hc
          · exact .inr hm
    · simp only [hc, if_false]
      have hpend : ∀ m, m ∈ col ∨ m ∈ (sp :: rest).map (·.name) → m ∈ sp.name :: col ∨ m ∈ rest.map (·.name) := by
        intro m hm
        rcases hm with hm | hm
        · exact .inl (List.mem_cons_of_mem _ hm)
        · rcases List.mem_cons.1 hm with rfl | hm
          · exact .inl List.mem_cons_self
          · exact .inr hm
      have hspU : FragUsed tbl root sp.name := hsp sp List.mem_cons_self
      cases hl : lookupFrag tbl sp.name with
      | none =>
        simp only []
        have := ih (sp.name :: col) frs stk ⟨?_, hinv.stkSound, ?_, ?_, ?_⟩ hrest
        · refine ⟨this.1, Nat.le_trans this.2 ?_⟩
          have := unc_cons_le (fragNames tbl) col sp.name
          omega
        · intro n hn
          rcases List.mem_cons.1 hn with rfl | hn
          · exact hspU
          · exact hinv.sound n hn
        · intro f
          rw [hinv.frsIff f]
          constructor
          · rintro ⟨h1, h2⟩; exact ⟨List.mem_cons_of_mem _ h1, h2⟩
          · rintro ⟨h1, h2⟩
            rcases List.mem_cons.1 h1 with h | h
            · rw [h, hl] at h2; cases h2
            · exact ⟨h, h2⟩
        · exact hinv.doneRoot.mono (fun _ h => h) hpend
        · intro n hn f hf
          rcases List.mem_cons.1 hn with rfl | hn
          · rw [hl] at hf; cases hf
          · exact (hinv.done n hn f hf).mono (fun _ h => h) hpend
      | some g =>
        simp only []
        have hg := lookupFrag_some hl
        have := ih (sp.name :: col) (frs ++ [g]) (g.sel :: stk) ⟨?_, ?_, ?_, ?_, ?_⟩ hrest
        · refine ⟨this.1, Nat.le_trans this.2 ?_⟩
          have := unc_cons_lt (fragNames tbl) col sp.name (lookupFrag_mem_names hl) hc
          simp only [List.length_cons]
          omega
        · intro n hn
          rcases List.mem_cons.1 hn with rfl | hn
          · exact hspU
          · exact hinv.sound n hn
        · intro s hs n hn
          rcases List.mem_cons.1 hs with rfl | hs
          · rcases hspU with ⟨r, hr, hreach⟩
            exact ⟨r, hr, hreach.tail (spreadEdge_iff.2 ⟨g, hl, hn⟩)⟩
          · exact hinv.stkSound s hs n hn
        · intro f
          rw [List.mem_append, hinv.frsIff f]
          constructor
          · rintro (⟨h1, h2⟩ | h)
            · exact ⟨List.mem_cons_of_mem _ h1, h2⟩
            · have : f = g := by simpa using h
              subst this
              rw [hg.2]
              exact ⟨List.mem_cons_self, hl⟩
          · rintro ⟨h1, h2⟩
            rcases List.mem_cons.1 h1 with h | h
            · rw [h, hl] at h2
              cases h2
              exact .inr (by simp)
            · exact .inl ⟨h, h2⟩
        · exact hinv.doneRoot.mono (fun _ h => List.mem_cons_of_mem _ h) hpend
        · intro n hn f hf
          rcases List.mem_cons.1 hn with rfl | hn
          · rw [hl] at hf; cases hf
            exact .inl List.mem_cons_self
          · exact (hinv.done n hn f hf).mono (fun _ h => List.mem_cons_of_mem _ h) hpend

theorem rrfLoop_inv (tbl : List Frag) (root : SelectionSet) (fuel : Nat) (stk : List SelectionSet)
    (col : List String) (frs : List Frag) (hinv : RInv tbl root [] stk col frs)
    (hfuel : stk.length + unc (fragNames tbl) col ≤ fuel) :
    (rrfLoop tbl fuel stk col frs).2 = false ∧
    ∃ col', RInv tbl root [] [] col' (rrfLoop tbl fuel stk col frs).1 := by
  induction fuel generalizing stk col frs with
  | zero =>
    cases stk with
    | nil => exact ⟨by simp [rrfLoop], col, by simpa [rrfLoop] using hinv⟩
    | cons s stk => simp at hfuel
  | succ fuel ih =>
    cases stk with
    | nil => exact ⟨by simp [rrfLoop], col, by simpa [rrfLoop] using hinv⟩
    | cons s stk =>
      simp only [rrfLoop]
      have hsc := rrfScan_inv tbl root (fragmentSpreads s) col frs stk ⟨hinv.sound, ?_, hinv.frsIff, ?_, ?_⟩ ?_
      · refine ih _ _ _ hsc.1 ?_
        have := hsc.2
        simp only [List.length_cons] at hfuel
        omega
      · exact fun s' hs' => hinv.stkSound s' (List.mem_cons_of_mem _ hs')
      · rcases hinv.doneRoot with h | h
        · rcases List.mem_cons.1 h with rfl | h
          · exact .inr (fun m hm => .inr ((mem_fragmentSpreads_names _ m).2 hm))
          · exact .inl h
        · exact .inr (fun m hm => (h m hm).imp id (fun h => by cases h))
      · intro n hn f hf
        rcases hinv.done n hn f hf with h | h
        · rcases List.mem_cons.1 h with h | h
          · exact .inr (fun m hm => .inr ((mem_fragmentSpreads_names _ m).2 (h ▸ hm)))
          · exact .inl h
        · exact .inr (fun m hm => (h m hm).imp id (fun h => by cases h))
      · intro sp hsp
        exact hinv.stkSound s List.mem_cons_self sp.name
          ((mem_fragmentSpreads_names s sp.name).1 (List.mem_map.2 ⟨sp, hsp, rfl⟩))

/-- **`RecursivelyReferencedFragments` = reachability**: the worklist stays within its fuel and returns exactly the
defined fragments whose name is reachable from a spread of the operation's selection set. -/
theorem rrf_spec (tbl : List Frag) (sel : SelectionSet) :
    (recursivelyReferencedF tbl sel).2 = false ∧
    ∀ f, f ∈ recursivelyReferenced tbl sel ↔
      (FragUsed tbl sel f.name.value ∧ lookupFrag tbl f.name.value = some f) := by
  have hinit : RInv tbl sel [] [sel] [] [] :=
    ⟨by simp, fun s hs n hn => by
        have : s = sel := by simpa using hs
        subst this
        exact ⟨n, hn, .refl n⟩,
      by simp, .inl (by simp), by simp⟩
  have hf : [sel].length + unc (fragNames tbl) [] ≤ tbl.length + 1 := by
    have := unc_le_length (fragNames tbl) []
    simp [fragNames] at this ⊢
    omega
  have h := rrfLoop_inv tbl sel (tbl.length + 1) [sel] [] [] hinit hf
  refine ⟨h.1, fun f => ?_⟩
  rcases h.2 with ⟨col, hc⟩
  unfold recursivelyReferenced recursivelyReferencedF
  rw [hc.frsIff f]
  constructor
  · rintro ⟨h1, h2⟩; exact ⟨hc.sound _ h1, h2⟩
  · rintro ⟨⟨r, hr, hreach⟩, h2⟩
    refine ⟨?_, h2⟩
    have hroot : r ∈ col := by
      rcases hc.doneRoot with h | h
      · cases h
      · rcases h r hr with h | h
        · exact h
        · cases h
    refine Reaches.mem_of_closed (C := fun x => x ∈ col) ?_ hreach hroot
    intro a b ha hab
    rcases spreadEdge_iff.1 hab with ⟨g, hg, hb⟩
    rcases hc.done a ha g hg with h | h
    · cases h
    · rcases h b hb with h | h
      · exact h
      · cases h

end GqlModel.Validate.Graph
