import GqlProofs.LexerBlock
/-! `blockStringValue` of lexer.go (regexp split, `commonIndent` loop with early exit, in-place slicing, two trimming
loops, `strings.Join`) computes the spec's `BlockStringValue()`. -/
namespace GqlModel.Lexer
open GqlModel.Utf8 GqlModel.Lexer.Spec

/-! ### splitting into lines -/

theorem lines_ne_nil (bs : Bytes) : lines bs ≠ [] := by
  induction bs with
  | nil => simp [lines]
  | cons c r ih =>
    by_cases h10 : c = 10
    · subst h10; rw [lines.eq_4]; simp
    by_cases h13 : c = 13
    · subst h13
      match r with
      | [] => rw [lines.eq_3 _ (by simp)]; simp
      | d :: r' =>
        by_cases hd : d = 10
        · subst hd; rw [lines.eq_2]; simp
        · rw [lines.eq_3 _ (by simp [hd])]; simp
    · rw [lines.eq_5 c r (fun _ h => absurd h h13) h13 h10]
      split <;> simp

theorem splitLinesAux_spec : ∀ (bs : Bytes),
    splitLinesAux false bs = lines bs ∧
    splitLinesAux true bs = (match bs with | d :: r => if d = 10 then lines r else lines bs | [] => lines bs) := by
  intro bs
  induction bs with
  | nil => simp [splitLinesAux, lines]
  | cons c r ih =>
    obtain ⟨ih1, ih2⟩ := ih
    have key : ∀ flag, (c ≠ 10) → splitLinesAux flag (c :: r) = lines (c :: r) := by
      intro flag h10
      by_cases h13 : c = 13
      · subst h13
        simp only [splitLinesAux, h10, if_false, if_true, ih2]
        match r with
        | [] => rw [lines.eq_3 _ (by simp)]
        | d :: r' =>
          by_cases hd : d = 10
          · subst hd; rw [lines.eq_2]; simp
          · rw [lines.eq_3 _ (by simp [hd])]; simp [hd]
      · simp only [splitLinesAux, h10, h13, if_false, ih1]
        rw [lines.eq_5 c r (fun _ h => absurd h h13) h13 h10]
        cases lines r <;> rfl
    constructor
    · by_cases h10 : c = 10
      · subst h10; simp only [splitLinesAux, if_true, ih1]; rw [lines.eq_4]; simp
      · exact key false h10
    · by_cases h10 : c = 10
      · subst h10; simp only [splitLinesAux, if_true, ih1]
      · simp only [h10, if_false]; exact key true h10

theorem splitLines_eq (bs : Bytes) : splitLines bs = lines bs := (splitLinesAux_spec bs).1

/-! ### indentation, blank lines -/

theorem leadingWhitespaceLen_eq (l : Bytes) : leadingWhitespaceLen l = indentOf l := by
  induction l with
  | nil => simp [leadingWhitespaceLen, indentOf, spanLen]
  | cons c r ih =>
    simp only [leadingWhitespaceLen, indentOf, spanLen, isWhiteSpace] at ih ⊢
    by_cases h : c = 32 ∨ c = 9
    · rcases h with rfl | rfl <;> simp [ih]
    · have h1 : ¬ c = 32 := fun e => h (Or.inl e)
      have h2 : ¬ c = 9 := fun e => h (Or.inr e)
      simp [h1, h2]

theorem spanLen_eq_length (p : UInt8 → Bool) (l : Bytes) : (spanLen p l = l.length) ↔ l.all p = true := by
  induction l with
  | nil => simp [spanLen]
  | cons c r ih =>
    simp only [spanLen, List.length_cons, List.all_cons, Bool.and_eq_true]
    cases h : p c
    · have := spanLen_le p r
      simp only [Bool.false_eq_true, if_false, false_and, iff_false]; omega
    · simp only [if_true, true_and, ← ih]; omega

theorem lineIsBlank_eq (l : Bytes) : lineIsBlank l = isBlank l := by
  simp only [lineIsBlank, isBlank, leadingWhitespaceLen_eq, indentOf]
  rw [Bool.eq_iff_iff]
  simp only [beq_iff_eq]
  exact spanLen_eq_length isWhiteSpace l

/-- minimum where `none` is "no candidate yet" -/
def minOpt : Option Nat → Option Nat → Option Nat
  | none, x => x
  | some a, none => some a
  | some a, some b => some (min a b)

theorem commonIndentLoop_spec : ∀ (ls : List Bytes) (acc : Option Nat),
    commonIndentLoop ls acc = minOpt acc (commonIndent ls) := by
  intro ls
  induction ls with
  | nil => intro acc; cases acc <;> simp [commonIndentLoop, commonIndent, minOpt]
  | cons line ls ih =>
    intro acc
    simp only [commonIndentLoop, commonIndent, leadingWhitespaceLen_eq]
    by_cases h1 : indentOf line < line.length
    · simp only [h1, true_and, if_true]
      cases acc with
      | none =>
        simp only [true_or, if_true, minOpt]
        by_cases h0 : indentOf line = 0
        · simp only [h0, if_true]
          cases commonIndent ls <;> simp
        · simp only [h0, if_false, ih]
          cases commonIndent ls <;> simp [minOpt]
      | some a =>
        simp only [reduceCtorEq, false_or, Option.getD_some]
        by_cases h2 : indentOf line < a
        · simp only [h2, if_true]
          by_cases h0 : indentOf line = 0
          · simp only [h0, if_true]
            cases commonIndent ls <;> simp [minOpt]
          · simp only [h0, if_false, ih]
            cases commonIndent ls <;> simp [minOpt] <;> omega
        · simp only [h2, if_false, ih]
          cases commonIndent ls <;> simp [minOpt] <;> omega
    · simp only [h1, false_and, if_false, ih]

theorem dropLeadingBlank_eq (ls : List Bytes) : dropLeadingBlank ls = stripLeadingBlank ls := by
  induction ls with
  | nil => rfl
  | cons l ls ih => simp only [dropLeadingBlank, stripLeadingBlank, lineIsBlank_eq, ih]

theorem stripLeadingBlank_append_singleton (a : List Bytes) (l : Bytes) :
    stripLeadingBlank (a ++ [l]) =
      if stripLeadingBlank a = [] then (if isBlank l then [] else [l]) else stripLeadingBlank a ++ [l] := by
  induction a with
  | nil => simp [stripLeadingBlank]
  | cons x a ih =>
    simp only [List.cons_append, stripLeadingBlank]
    by_cases hx : isBlank x = true
    · simp only [hx, if_true, ih]
    · simp [hx]

theorem stripTrailingBlank_eq (ls : List Bytes) : stripTrailingBlank ls = (stripLeadingBlank ls.reverse).reverse := by
  induction ls with
  | nil => rfl
  | cons l ls ih =>
    rw [List.reverse_cons, stripLeadingBlank_append_singleton, stripTrailingBlank, ih]
    by_cases he : stripLeadingBlank ls.reverse = []
    · simp only [he, List.reverse_nil, if_true]
      by_cases hb : isBlank l = true <;> simp [hb]
    · simp only [he, if_false, List.reverse_append, List.reverse_cons, List.reverse_nil, List.nil_append, List.singleton_append]
      have : (stripLeadingBlank ls.reverse).reverse ≠ [] := by simpa using he
      split
      · rename_i heq; exact absurd heq this
      · rfl

theorem dropTrailingBlank_eq (ls : List Bytes) : dropTrailingBlank ls = stripTrailingBlank ls := by
  rw [stripTrailingBlank_eq, dropTrailingBlank, dropLeadingBlank_eq]

theorem joinLF_eq : ∀ (ls : List Bytes), joinLF ls = joinLines ls
  | [] => rfl
  | [_] => rfl
  | l :: l2 :: ls => by simp only [joinLF, joinLines, joinLF_eq (l2 :: ls)]

theorem map_dropGo (ci : Nat) (ls : List Bytes) :
    ls.map (fun line => if ci > line.length then [] else line.drop ci) = ls.map (fun l => l.drop ci) := by
  apply List.map_congr_left
  intro l _
  split
  · rw [List.drop_eq_nil_of_le (by omega)]
  · rfl

/-- **blockString_spec**: the library's `blockStringValue` is the spec's `BlockStringValue()` on every raw value
(CR, LF and CRLF line ends, common indentation of all lines but the first, leading/trailing blank lines). -/
theorem blockStringValue_eq (raw : Bytes) : Lexer.blockStringValue raw = Spec.blockStringValue raw := by
  unfold Lexer.blockStringValue Spec.blockStringValue
  simp only [splitLines_eq, dropTrailingBlank_eq, dropLeadingBlank_eq, joinLF_eq]
  match hl : lines raw with
  | [] => exact absurd hl (lines_ne_nil raw)
  | first :: others =>
    simp only [List.drop_succ_cons, List.drop_zero, commonIndentLoop_spec, minOpt]
    cases commonIndent others with
    | none => simp
    | some ci =>
      simp only [Option.getD_some]
      by_cases h0 : ci > 0
      · simp only [h0, if_true, removeIndentGo, map_dropGo]
      · have : ci = 0 := by omega
        subst this
        simp

end GqlModel.Lexer
