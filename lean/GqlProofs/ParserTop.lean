import GqlProofs.ParserSound
import GqlProofs.ParserComplete
import GqlProofs.ParserLoc
/-! Top-level helpers for Props/C03Parser.lean: splitting at EOF, the D-03b witness token lists, a sample document,
"delimited by" for locations. -/
namespace GqlModel.Parser
open GqlModel GqlModel.Grammar

theorem splitEOF_append {toks : List Token} {e : Token} (hk : e.kind = .eof) (hn : ∀ t ∈ toks, t.kind ≠ .eof) :
    splitEOF (toks ++ [e]) = some (toks, e) := by
  induction toks with
  | nil => simp [splitEOF, hk]
  | cons t r ih =>
    have h1 : t.kind ≠ .eof := hn t (by simp)
    have h2 := ih (fun x hx => hn x (by simp [hx]))
    simp [splitEOF, h1, h2]

theorem splitEOF_some {all toks : List Token} {e : Token} (h : splitEOF all = some (toks, e)) :
    e.kind = .eof ∧ (∀ t ∈ toks, t.kind ≠ .eof) ∧ ∃ rest, all = toks ++ e :: rest := by
  induction all generalizing toks with
  | nil => simp [splitEOF] at h
  | cons t r ih =>
    unfold splitEOF at h
    split at h
    · rename_i hk
      simp only [Option.some.injEq, Prod.mk.injEq] at h
      obtain ⟨rfl, rfl⟩ := h
      exact ⟨hk, by simp, r, by simp⟩
    · rename_i hk
      cases hs : splitEOF r with
      | none => simp [hs] at h
      | some p =>
        obtain ⟨ts, e'⟩ := p
        simp only [hs, Option.map_some, Option.some.injEq, Prod.mk.injEq] at h
        obtain ⟨rfl, rfl⟩ := h
        obtain ⟨h1, h2, rest, h3⟩ := ih hs
        refine ⟨h1, ?_, rest, by rw [h3]; simp⟩
        intro x hx
        rcases List.mem_cons.mp hx with rfl | hx
        · exact hk
        · exact h2 x hx

/-- `query($a: [Int}) {f}` -/
def d03b_closing : List Token :=
  [⟨.name, 0, 5, "query"⟩, ⟨.parenL, 5, 6, ""⟩, ⟨.dollar, 6, 7, ""⟩, ⟨.name, 7, 8, "a"⟩, ⟨.colon, 8, 9, ""⟩,
   ⟨.bracketL, 10, 11, ""⟩, ⟨.name, 11, 14, "Int"⟩, ⟨.braceR, 14, 15, ""⟩, ⟨.parenR, 15, 16, ""⟩, ⟨.braceL, 17, 18, ""⟩,
   ⟨.name, 18, 19, "f"⟩, ⟨.braceR, 19, 20, ""⟩]
/-- `query($a: ]) {f}` -/
def d03b_leading : List Token :=
  [⟨.name, 0, 5, "query"⟩, ⟨.parenL, 5, 6, ""⟩, ⟨.dollar, 6, 7, ""⟩, ⟨.name, 7, 8, "a"⟩, ⟨.colon, 8, 9, ""⟩,
   ⟨.bracketR, 10, 11, ""⟩, ⟨.parenR, 11, 12, ""⟩, ⟨.braceL, 13, 14, ""⟩, ⟨.name, 14, 15, "f"⟩, ⟨.braceR, 15, 16, ""⟩]
/-- `query($a: ) {f}` -/
def d03b_missing : List Token :=
  [⟨.name, 0, 5, "query"⟩, ⟨.parenL, 5, 6, ""⟩, ⟨.dollar, 6, 7, ""⟩, ⟨.name, 7, 8, "a"⟩, ⟨.colon, 8, 9, ""⟩,
   ⟨.parenR, 10, 11, ""⟩, ⟨.braceL, 12, 13, ""⟩, ⟨.name, 13, 14, "f"⟩, ⟨.braceR, 14, 15, ""⟩]

theorem not_derivable_of_flag {toks : List Token} {eofPos : Nat} (h : verdict toks eofPos = some true) :
    ¬ ∃ d, DerivesDoc toks eofPos d := by
  rintro ⟨d, hd⟩
  have := parseToks_complete hd
  simp [verdict, this] at h

/-- the tokens between two positions, their first and last element, and the location they delimit -/
def DelimitedBy (p p' : Pos) (l : Loc) : Prop :=
  ∃ consumed first last, p.ts = consumed ++ p'.ts ∧ consumed.head? = some first ∧ consumed.getLast? = some last ∧
    l.start = first.start ∧ l.stop = last.stop

theorem delimited_of {p p' : Pos} {l : Loc} (hs : SpanLe p p') (hlt : p'.ts.length < p.ts.length) (hl : l = ⟨p.start, p'.e⟩) :
    DelimitedBy p p' l := by
  obtain ⟨consumed, first, last, h1, h2, h3, h4, h5⟩ := span_delimits hs hlt
  exact ⟨consumed, first, last, h1, h2, h3, by rw [hl]; exact h4, by rw [hl]; exact h5⟩

/-- `query Q($a: [Int!] = [1]) @d { x: f(a: $a) ... on T { g } }  type T implements I & J { "d" f(x: Int = 1): [T]! }` -/
def sampleDoc : List Token :=
  [⟨.name, 0, 5, "query"⟩, ⟨.name, 6, 7, "Q"⟩, ⟨.parenL, 7, 8, ""⟩, ⟨.dollar, 8, 9, ""⟩, ⟨.name, 9, 10, "a"⟩, ⟨.colon, 10, 11, ""⟩,
   ⟨.bracketL, 12, 13, ""⟩, ⟨.name, 13, 16, "Int"⟩, ⟨.bang, 16, 17, ""⟩, ⟨.bracketR, 17, 18, ""⟩, ⟨.equals, 19, 20, ""⟩,
   ⟨.bracketL, 21, 22, ""⟩, ⟨.int, 22, 23, "1"⟩, ⟨.bracketR, 23, 24, ""⟩, ⟨.parenR, 24, 25, ""⟩, ⟨.at, 26, 27, ""⟩, ⟨.name, 27, 28, "d"⟩,
   ⟨.braceL, 29, 30, ""⟩, ⟨.name, 31, 32, "x"⟩, ⟨.colon, 32, 33, ""⟩, ⟨.name, 34, 35, "f"⟩, ⟨.parenL, 35, 36, ""⟩, ⟨.name, 36, 37, "a"⟩,
   ⟨.colon, 37, 38, ""⟩, ⟨.dollar, 39, 40, ""⟩, ⟨.name, 40, 41, "a"⟩, ⟨.parenR, 41, 42, ""⟩, ⟨.spread, 43, 46, ""⟩, ⟨.name, 47, 49, "on"⟩,
   ⟨.name, 50, 51, "T"⟩, ⟨.braceL, 52, 53, ""⟩, ⟨.name, 54, 55, "g"⟩, ⟨.braceR, 56, 57, ""⟩, ⟨.braceR, 58, 59, ""⟩,
   ⟨.name, 61, 65, "type"⟩, ⟨.name, 66, 67, "T"⟩, ⟨.name, 68, 78, "implements"⟩, ⟨.name, 79, 80, "I"⟩, ⟨.amp, 81, 82, ""⟩,
   ⟨.name, 83, 84, "J"⟩, ⟨.braceL, 85, 86, ""⟩, ⟨.string, 87, 90, "d"⟩, ⟨.name, 91, 92, "f"⟩, ⟨.parenL, 92, 93, ""⟩, ⟨.name, 93, 94, "x"⟩,
   ⟨.colon, 94, 95, ""⟩, ⟨.name, 96, 99, "Int"⟩, ⟨.equals, 100, 101, ""⟩, ⟨.int, 102, 103, "1"⟩, ⟨.parenR, 103, 104, ""⟩,
   ⟨.colon, 104, 105, ""⟩, ⟨.bracketL, 106, 107, ""⟩, ⟨.name, 107, 108, "T"⟩, ⟨.bracketR, 108, 109, ""⟩, ⟨.bang, 109, 110, ""⟩,
   ⟨.braceR, 111, 112, ""⟩]

end GqlModel.Parser
