import GqlProofs.ParserProgress
/-! Error positions (C18, syntax clause): every syntax error M reports is at the start offset of one of the tokens
still ahead (or at the EOF offset), and actions only ever drop tokens from the front.  Composed by type-class
resolution over the `do` blocks, like `Mono`/`NFb`. -/
namespace GqlModel.Parser
open GqlModel GqlModel.Grammar

set_option linter.unusedSimpArgs false
set_option linter.unusedVariables false
set_option synthInstance.maxSize 1024
set_option synthInstance.maxHeartbeats 200000

/-- `ts` is the beginning of some document of the grammar -/
def ViablePrefix (ts : List Token) : Prop := ∃ rest eofPos d, DerivesDoc (ts ++ rest) eofPos d

/-- start offset of the `k`-th token ahead, the EOF offset past the end -/
def posAt (σ : PState) (k : Nat) : Nat :=
  match σ.toks.drop k with
  | t :: _ => t.start
  | [] => σ.eofPos

/-- `pos` is the start of a token still ahead of `σ` (index ≤ number of tokens; the EOF offset for the last index) -/
def AtToken (σ : PState) (pos : Nat) : Prop := ∃ k, k ≤ σ.toks.length ∧ pos = posAt σ k

/-- `σ'` is `σ` with some tokens dropped from the front -/
def Drops (σ σ' : PState) : Prop := ∃ pre, σ.toks = pre ++ σ'.toks ∧ σ'.eofPos = σ.eofPos

/-- what a syntax error raised from `σ` satisfies: `left` counts the tokens from the blamed one on, and the reported
offset is the start of exactly that token (the EOF offset when `left = 0`) -/
def ErrOK (σ : PState) (pos left : Nat) : Prop := left ≤ σ.toks.length ∧ pos = posAt σ (σ.toks.length - left)

class ErrAt {α} (m : P α) : Prop where
  ok : ∀ σ a σ', m σ = .ok (a, σ') → Drops σ σ'
  err : ∀ σ pos b l, m σ = .error (.syntax pos b l) → ErrOK σ pos l

theorem Drops.refl (σ : PState) : Drops σ σ := ⟨[], rfl, rfl⟩

theorem Drops.trans {a b c : PState} (h1 : Drops a b) (h2 : Drops b c) : Drops a c := by
  obtain ⟨p1, e1, f1⟩ := h1
  obtain ⟨p2, e2, f2⟩ := h2
  exact ⟨p1 ++ p2, by rw [e1, e2, List.append_assoc], by rw [f2, f1]⟩

theorem AtToken.of_drops {a b : PState} {pos : Nat} (h : Drops a b) (hp : AtToken b pos) : AtToken a pos := by
  obtain ⟨pre, e1, f1⟩ := h
  obtain ⟨k, hk, rfl⟩ := hp
  refine ⟨pre.length + k, by rw [e1]; simp; omega, ?_⟩
  unfold posAt
  rw [e1, f1]
  have : (pre ++ b.toks).drop (pre.length + k) = b.toks.drop k := by
    rw [← List.drop_drop]; simp
  rw [this]

theorem ErrOK.atToken {σ : PState} {pos l : Nat} (h : ErrOK σ pos l) : AtToken σ pos :=
  ⟨σ.toks.length - l, Nat.sub_le _ _, h.2⟩

theorem ErrOK.of_drops {a b : PState} {pos l : Nat} (h : Drops a b) (hp : ErrOK b pos l) : ErrOK a pos l := by
  obtain ⟨pre, e1, f1⟩ := h
  obtain ⟨hl, hpos⟩ := hp
  refine ⟨by rw [e1]; simp; omega, ?_⟩
  rw [hpos]
  unfold posAt
  rw [e1, f1]
  have : (pre ++ b.toks).length - l = pre.length + (b.toks.length - l) := by simp; omega
  rw [this]
  have : (pre ++ b.toks).drop (pre.length + (b.toks.length - l)) = b.toks.drop (b.toks.length - l) := by
    rw [← List.drop_drop]; simp
  rw [this]

theorem errOK_cur (σ : PState) : ErrOK σ σ.cur.start σ.toks.length := by
  refine ⟨Nat.le_refl _, ?_⟩
  unfold posAt PState.cur
  cases σ.toks <;> simp [eofToken]

theorem errOK_next (σ : PState) (h : σ.toks ≠ []) : ErrOK σ σ.adv.cur.start (σ.toks.length - 1) := by
  refine ⟨Nat.sub_le _ _, ?_⟩
  unfold posAt
  cases ht : σ.toks with
  | nil => exact absurd ht h
  | cons t r =>
    have : (t :: r).length - ((t :: r).length - 1) = 1 := by simp
    rw [this]
    simp only [PState.adv, ht, PState.cur, List.drop_succ_cons, List.drop_zero]
    cases r <;> simp [eofToken]

theorem atToken_cur (σ : PState) : AtToken σ σ.cur.start := by
  refine ⟨0, Nat.zero_le _, ?_⟩
  unfold posAt PState.cur
  cases σ.toks <;> simp [eofToken]

theorem atToken_next (σ : PState) (h : σ.toks ≠ []) : AtToken σ σ.adv.cur.start := by
  refine ⟨1, ?_, ?_⟩
  · cases ht : σ.toks with
    | nil => exact absurd ht h
    | cons t r => simp
  · unfold posAt
    cases ht : σ.toks with
    | nil => exact absurd ht h
    | cons t r =>
      simp only [PState.adv, ht, PState.cur, List.drop_succ_cons, List.drop_zero]
      cases r <;> simp [eofToken]

theorem drops_adv (σ : PState) : Drops σ σ.adv := by
  cases ht : σ.toks with
  | nil => exact ⟨[], by simp [PState.adv, ht], by simp [PState.adv, ht]⟩
  | cons t r => exact ⟨[t], by simp [PState.adv, ht], by simp [PState.adv, ht]⟩

/-! ### combinators and primitives -/

instance {α} (a : α) : ErrAt (pure a : P α) :=
  ⟨fun σ b σ' h => by obtain ⟨_, rfl⟩ := pure_ok.mp h; exact .refl _, fun σ pos b l h => by simp at h⟩

instance ErrAt.bind {α β} {m : P α} {f : α → P β} [hm : ErrAt m] [hf : ∀ a, ErrAt (f a)] : ErrAt (m >>= f) :=
  ⟨fun σ b σ' h => by
      obtain ⟨a, σ1, h1, h2⟩ := bind_ok.mp h
      exact (hm.ok _ _ _ h1).trans ((hf a).ok _ _ _ h2),
   fun σ pos b l h => by
      rcases bind_error.mp h with h1 | ⟨a, σ1, h1, h2⟩
      · exact hm.err _ _ _ _ h1
      · exact .of_drops (hm.ok _ _ _ h1) ((hf a).err _ _ _ _ h2)⟩

instance {α} {c : Prop} [Decidable c] {a b : P α} [ErrAt a] [ErrAt b] : ErrAt (if c then a else b) := by
  split <;> infer_instance

instance : ErrAt cur := ⟨fun σ a σ' h => by simp at h; rw [← h.2]; exact .refl _, fun σ pos b l h => by simp at h⟩
instance : ErrAt advance := ⟨fun σ a σ' h => by simp at h; rw [← h]; exact drops_adv σ, fun σ pos b l h => by simp at h⟩
instance : ErrAt flagBad :=
  ⟨fun σ a σ' h => by simp at h; rw [← h]; exact ⟨[], rfl, rfl⟩, fun σ pos b l h => by simp at h⟩
instance (s : Nat) : ErrAt (loc s) := ⟨fun σ a σ' h => by simp at h; rw [← h.2]; exact .refl _, fun σ pos b l h => by simp at h⟩
instance : ErrAt loopFuel := ⟨fun σ a σ' h => by simp at h; rw [← h.2]; exact .refl _, fun σ pos b l h => by simp at h⟩
instance : ErrAt lookahead := ⟨fun σ a σ' h => by simp at h; rw [← h.2]; exact .refl _, fun σ pos b l h => by simp at h⟩
instance (k : TokenKind) : ErrAt (peek k) :=
  ⟨fun σ a σ' h => by simp at h; rw [← h.2]; exact .refl _, fun σ pos b l h => by simp at h⟩
instance {α} : ErrAt (outOfFuel : P α) := ⟨fun σ a σ' h => by simp at h, fun σ pos b l h => by simp at h⟩
instance {α} : ErrAt (unexpected : P α) :=
  ⟨fun σ a σ' h => by simp at h, fun σ pos b l h => by simp at h; rw [← h.1, ← h.2.2]; exact errOK_cur σ⟩

instance (k : TokenKind) : ErrAt (skip k) :=
  ⟨fun σ a σ' h => by
      unfold skip at h
      split at h <;> simp at h <;> rw [← h.2]
      · exact drops_adv σ
      · exact .refl _,
   fun σ pos b l h => by unfold skip at h; split at h <;> simp at h⟩

instance (k : TokenKind) : ErrAt (expect k) :=
  ⟨fun σ a σ' h => by
      unfold expect at h
      split at h <;> simp at h
      rw [← h.2]; exact drops_adv σ,
   fun σ pos b l h => by
      unfold expect at h
      split at h <;> simp at h
      rw [← h.1, ← h.2.2]; exact errOK_cur σ⟩

instance (s : String) : ErrAt (expectKeyword s) :=
  ⟨fun σ a σ' h => by
      unfold expectKeyword at h
      split at h <;> simp at h
      rw [← h.2]; exact drops_adv σ,
   fun σ pos b l h => by
      unfold expectKeyword at h
      split at h <;> simp at h
      rw [← h.1, ← h.2.2]; exact errOK_cur σ⟩

instance : ErrAt skipEOF :=
  ⟨fun σ a σ' h => by
      unfold skipEOF at h
      split at h <;> simp at h <;> rw [← h.2]
      · exact drops_adv σ
      · exact .refl _,
   fun σ pos b l h => by unfold skipEOF at h; split at h <;> simp at h⟩

/-! ### loops -/

instance many_errAt {α} {close : TokenKind} {item : P α} [ErrAt item] (k : Nat) : ErrAt (many close item k) := by
  induction k with
  | zero => unfold many; infer_instance
  | succ k ih => unfold many; infer_instance

/-- an empty result of the loop: the closing token was current at the start -/
theorem many_nil {α} {close : TokenKind} {item : P α} {k : Nat} {σ σ' : PState}
    (h : many close item k σ = .ok ([], σ')) : σ.cur.kind = close := by
  cases k with
  | zero => simp [many] at h
  | succ k =>
    simp only [many] at h
    obtain ⟨b, σ1, hs, h⟩ := bind_ok.mp h
    cases b
    · simp only [Bool.false_eq_true, if_false, bind_ok, pure_ok] at h
      obtain ⟨x, σ2, _, xs, σ3, _, hc, _⟩ := h
      cases hc
    · unfold skip at hs
      split at hs
      · assumption
      · simp at hs

instance reverse_errAt {α} {opn close : TokenKind} {item : P α} [hi : ErrAt item] {z : Bool} :
    ErrAt (reverse opn item close z) := by
  constructor
  · intro σ a σ' h
    simp only [reverse, bind_ok, cur_run, loopFuel_run, Except.ok.injEq, Prod.mk.injEq] at h
    obtain ⟨o, σ1, h1, _, _, ⟨rfl, rfl⟩, h⟩ := h
    split at h
    · simp at h
    · simp only [bind_ok, loopFuel_run, Except.ok.injEq, Prod.mk.injEq] at h
      obtain ⟨k, _, ⟨rfl, rfl⟩, nodes, σ2, hm, h⟩ := h
      split at h
      · simp at h
      · obtain ⟨rfl, rfl⟩ := pure_ok.mp h
        exact ((inferInstance : ErrAt (expect opn)).ok _ _ _ h1).trans ((many_errAt _).ok _ _ _ hm)
  · intro σ pos b l h
    simp only [reverse] at h
    rcases bind_error.mp h with h1 | ⟨o, σ1, h1, h2⟩
    · exact (inferInstance : ErrAt (expect opn)).err _ _ _ _ h1
    · have hd := (inferInstance : ErrAt (expect opn)).ok _ _ _ h1
      refine .of_drops hd ?_
      simp only [bind_error, cur_run, Except.ok.injEq, Prod.mk.injEq, reduceCtorEq, false_or] at h2
      obtain ⟨_, _, ⟨rfl, rfl⟩, h2⟩ := h2
      split at h2
      · simp only [fail_run, Except.error.injEq, PErr.syntax.injEq] at h2
        rw [← h2.1, ← h2.2.2]; exact errOK_cur σ1
      · simp only [bind_error, loopFuel_run, Except.ok.injEq, Prod.mk.injEq, reduceCtorEq, false_or] at h2
        obtain ⟨k, _, ⟨rfl, rfl⟩, h2⟩ := h2
        rcases h2 with h3 | ⟨nodes, σ2, _, h4⟩
        · exact (many_errAt _).err _ _ _ _ h3
        · split at h4
          · simp only [fail_run, Except.error.injEq, PErr.syntax.injEq] at h4
            -- unreachable: an empty list means the first `skip close` succeeded, which the early check excludes
            rename_i hnc hm hz
            exfalso
            have hemp : nodes = [] := by
              cases nodes with
              | nil => rfl
              | cons _ _ => simp at hz
            subst hemp
            have hz' : z = true := by cases z <;> simp_all
            exact hnc ⟨hz', many_nil hm⟩
          · simp at h4

/-! ### the parser's functions -/

instance : ErrAt parseName := by unfold parseName; infer_instance
instance : ErrAt parseVariable := by unfold parseVariable; infer_instance
instance {value : P Value} [ErrAt value] : ErrAt (parseObjectFieldWith value) := by unfold parseObjectFieldWith; infer_instance

instance parseValueLiteral_errAt (c : Bool) : ∀ n, ErrAt (parseValueLiteral c n) := by
  intro n
  induction n with
  | zero => unfold parseValueLiteral; infer_instance
  | succ n ih =>
    unfold parseValueLiteral
    haveI : ∀ tok : Token, ErrAt (match tok.kind with
        | .bracketL => do
          let vs ← reverse .bracketL (parseValueLiteral c n) .bracketR false
          pure (Value.list vs (← loc tok.start))
        | .braceL => do
          let _ ← expect .braceL
          let fs ← many .braceR (parseObjectFieldWith (parseValueLiteral c n)) (← loopFuel)
          pure (Value.obj fs (← loc tok.start))
        | .int => do advance; pure (Value.int tok.value (← loc tok.start))
        | .float => do advance; pure (Value.float tok.value (← loc tok.start))
        | .string => do advance; pure (Value.str tok.value (← loc tok.start))
        | .blockString => do advance; pure (Value.str tok.value (← loc tok.start))
        | .name =>
          if tok.value = "true" then do advance; pure (Value.bool true (← loc tok.start))
          else if tok.value = "false" then do advance; pure (Value.bool false (← loc tok.start))
          else if tok.value = "null" then unexpected
          else do advance; pure (Value.enum tok.value (← loc tok.start))
        | .dollar =>
          if c then unexpected
          else do
            let r ← parseVariable
            pure (Value.var r.1.value r.2)
        | _ => unexpected : P Value) := by intro tok; split <;> infer_instance
    infer_instance

instance (c : Bool) : ErrAt (parseValue c) :=
  ⟨fun σ a σ' h => (parseValueLiteral_errAt c _).ok σ a σ' h, fun σ pos b l h => (parseValueLiteral_errAt c _).err σ pos b l h⟩

instance : ErrAt parseArgument := by unfold parseArgument; infer_instance
instance : ErrAt parseArguments := by unfold parseArguments; infer_instance
instance : ErrAt parseDirective := by unfold parseDirective; infer_instance
instance (k : Nat) : ErrAt (parseDirectivesLoop k) := by
  induction k with
  | zero => unfold parseDirectivesLoop; infer_instance
  | succ k ih => unfold parseDirectivesLoop; infer_instance
instance : ErrAt parseDirectives := by unfold parseDirectives; infer_instance
instance : ErrAt parseNamed := by unfold parseNamed; infer_instance

instance {inner : P (Option TypeRef)} [ErrAt inner] (tok : Token) : ErrAt (parseTypeBaseWith inner tok) := by
  unfold parseTypeBaseWith; split <;> infer_instance
instance parseTypeFuel_errAt : ∀ n, ErrAt (parseTypeFuel n) := by
  intro n
  induction n with
  | zero => unfold parseTypeFuel; infer_instance
  | succ n ih => unfold parseTypeFuel; infer_instance
instance : ErrAt parseTypeOpt :=
  ⟨fun σ a σ' h => (parseTypeFuel_errAt _).ok σ a σ' h, fun σ pos b l h => (parseTypeFuel_errAt _).err σ pos b l h⟩
instance : ErrAt parseType := by unfold parseType; infer_instance

instance : ErrAt parseFragmentName := by unfold parseFragmentName; infer_instance
instance {selSet : P SelectionSet} [ErrAt selSet] {st : Nat} {al : Option Name} {nm : Name} :
    ErrAt (parseFieldRest selSet st al nm) := by unfold parseFieldRest; infer_instance
instance {selSet : P SelectionSet} [ErrAt selSet] : ErrAt (parseFieldWith selSet) := by unfold parseFieldWith; infer_instance
instance {selSet : P SelectionSet} [ErrAt selSet] {st : Nat} {tc : Option TypeRef} :
    ErrAt (parseInlineRest selSet st tc) := by unfold parseInlineRest; infer_instance
instance {selSet : P SelectionSet} [ErrAt selSet] : ErrAt (parseFragmentWith selSet) := by unfold parseFragmentWith; infer_instance
instance {selSet : P SelectionSet} [ErrAt selSet] : ErrAt (parseSelectionWith selSet) := by
  unfold parseSelectionWith; infer_instance
instance parseSelectionSetFuel_errAt : ∀ n, ErrAt (parseSelectionSetFuel n) := by
  intro n
  induction n with
  | zero => unfold parseSelectionSetFuel; infer_instance
  | succ n ih => unfold parseSelectionSetFuel; infer_instance
instance : ErrAt parseSelectionSet :=
  ⟨fun σ a σ' h => (parseSelectionSetFuel_errAt _).ok σ a σ' h, fun σ pos b l h => (parseSelectionSetFuel_errAt _).err σ pos b l h⟩

instance : ErrAt parseOperationType := by
  constructor
  · intro σ a σ' h
    simp only [parseOperationType, bind_ok, cur_run, Except.ok.injEq, Prod.mk.injEq] at h
    obtain ⟨_, _, ⟨rfl, rfl⟩, h⟩ := h
    split at h
    · simp at h
    · obtain ⟨t, σ1, h1, h2⟩ := bind_ok.mp h
      have hd := (inferInstance : ErrAt (expect .name)).ok _ _ _ h1
      have : σ' = σ1 := by
        split at h2
        · exact (pure_ok.mp h2).2.symm
        · split at h2
          · exact (pure_ok.mp h2).2.symm
          · exact (pure_ok.mp h2).2.symm
      rw [this]; exact hd
  · intro σ pos b l h
    simp only [parseOperationType, bind_error, cur_run, Except.ok.injEq, Prod.mk.injEq, reduceCtorEq, false_or] at h
    obtain ⟨_, _, ⟨rfl, rfl⟩, h⟩ := h
    split at h
    · simp only [fail_run, Except.error.injEq, PErr.syntax.injEq] at h
      rw [← h.1, ← h.2.2]; exact errOK_cur σ
    · rcases bind_error.mp h with h1 | ⟨t, σ1, h1, h2⟩
      · exact (inferInstance : ErrAt (expect .name)).err _ _ _ _ h1
      · split at h2
        · simp at h2
        · split at h2 <;> simp at h2

instance : ErrAt parseVariableDefinition := by unfold parseVariableDefinition; infer_instance
instance : ErrAt parseVariableDefinitions := by unfold parseVariableDefinitions; infer_instance
instance : ErrAt parseOptName := by unfold parseOptName; infer_instance
instance : ErrAt parseOperationDefinition := by unfold parseOperationDefinition; infer_instance
instance : ErrAt parseFragmentDefinition := by unfold parseFragmentDefinition; infer_instance
instance : ErrAt parseDescription := by unfold parseDescription; infer_instance
instance : ErrAt parseOperationTypeDefinition := by unfold parseOperationTypeDefinition; infer_instance
instance : ErrAt parseSchemaDefinition := by unfold parseSchemaDefinition; infer_instance
instance : ErrAt parseScalarTypeDefinition := by unfold parseScalarTypeDefinition; infer_instance
instance (sep : TokenKind) (k : Nat) : ErrAt (parseNamedSep sep k) := by
  induction k with
  | zero => unfold parseNamedSep; infer_instance
  | succ k ih => unfold parseNamedSep; infer_instance
instance (k : Nat) : ErrAt (parseDirectiveLocations k) := by
  induction k with
  | zero => unfold parseDirectiveLocations; infer_instance
  | succ k ih => unfold parseDirectiveLocations; infer_instance
instance : ErrAt parseImplementsInterfaces := by unfold parseImplementsInterfaces; infer_instance
instance : ErrAt parseDefaultValue := by unfold parseDefaultValue; infer_instance
instance : ErrAt parseInputValueDef := by unfold parseInputValueDef; infer_instance
instance : ErrAt parseArgumentDefs := by unfold parseArgumentDefs; infer_instance
instance : ErrAt parseFieldDefinition := by unfold parseFieldDefinition; infer_instance
instance : ErrAt parseObjectDef := by unfold parseObjectDef; infer_instance
instance : ErrAt parseObjectTypeDefinition := by unfold parseObjectTypeDefinition; infer_instance
instance : ErrAt parseInterfaceTypeDefinition := by unfold parseInterfaceTypeDefinition; infer_instance
instance : ErrAt parseUnionTypeDefinition := by unfold parseUnionTypeDefinition; infer_instance
instance : ErrAt parseEnumValueDefinition := by unfold parseEnumValueDefinition; infer_instance
instance : ErrAt parseEnumTypeDefinition := by unfold parseEnumTypeDefinition; infer_instance
instance : ErrAt parseInputObjectTypeDefinition := by unfold parseInputObjectTypeDefinition; infer_instance
instance : ErrAt parseTypeExtensionDefinition := by unfold parseTypeExtensionDefinition; infer_instance
instance : ErrAt parseDirectiveDefinition := by unfold parseDirectiveDefinition; infer_instance

/-- what `left` is recorded for a blame of the current (`ahead = false`) or the next token -/
def leftOf (ahead : Bool) (σ : PState) : Nat := if ahead then σ.toks.length - 1 else σ.toks.length

/-- `failAt ahead p` where `p` is the start of the token it blames -/
theorem failAt_errAt {α} (ahead : Bool) (σ : PState) (p : Nat) (hp : ErrOK σ p (leftOf ahead σ)) :
    (∀ a σ', (failAt ahead p : P α) σ = .ok (a, σ') → Drops σ σ') ∧
      (∀ pos b l, (failAt ahead p : P α) σ = .error (.syntax pos b l) → ErrOK σ pos l) :=
  ⟨fun a σ' h => by simp at h, fun pos b l h => by simp at h; rw [← h.1, ← h.2.2]; exact hp⟩

theorem dispatch_errAt (ahead : Bool) (kw : Token) (σ : PState) (hkw : ErrOK σ kw.start (leftOf ahead σ)) :
    (∀ a σ', dispatchKeyword ahead kw σ = .ok (a, σ') → Drops σ σ') ∧
      (∀ pos b l, dispatchKeyword ahead kw σ = .error (.syntax pos b l) → ErrOK σ pos l) := by
  unfold dispatchKeyword
  by_cases h0 : kw.kind ≠ .name
  · rw [if_pos h0]; exact failAt_errAt ahead σ _ hkw
  rw [if_neg h0]
  by_cases c0 : kw.value = "fragment"
  · rw [if_pos c0]
    exact ⟨fun a σ' h => (inferInstance : ErrAt parseFragmentDefinition).ok σ a σ' h, fun pos b l h => (inferInstance : ErrAt parseFragmentDefinition).err σ pos b l h⟩
  rw [if_neg c0]
  by_cases c1 : kw.value = "query" ∨ kw.value = "mutation" ∨ kw.value = "subscription"
  · rw [if_pos c1]
    exact ⟨fun a σ' h => (inferInstance : ErrAt parseOperationDefinition).ok σ a σ' h, fun pos b l h => (inferInstance : ErrAt parseOperationDefinition).err σ pos b l h⟩
  rw [if_neg c1]
  by_cases c2 : kw.value = "schema"
  · rw [if_pos c2]
    exact ⟨fun a σ' h => (inferInstance : ErrAt parseSchemaDefinition).ok σ a σ' h, fun pos b l h => (inferInstance : ErrAt parseSchemaDefinition).err σ pos b l h⟩
  rw [if_neg c2]
  by_cases c3 : kw.value = "scalar"
  · rw [if_pos c3]
    exact ⟨fun a σ' h => (inferInstance : ErrAt parseScalarTypeDefinition).ok σ a σ' h, fun pos b l h => (inferInstance : ErrAt parseScalarTypeDefinition).err σ pos b l h⟩
  rw [if_neg c3]
  by_cases c4 : kw.value = "type"
  · rw [if_pos c4]
    exact ⟨fun a σ' h => (inferInstance : ErrAt parseObjectTypeDefinition).ok σ a σ' h, fun pos b l h => (inferInstance : ErrAt parseObjectTypeDefinition).err σ pos b l h⟩
  rw [if_neg c4]
  by_cases c5 : kw.value = "interface"
  · rw [if_pos c5]
    exact ⟨fun a σ' h => (inferInstance : ErrAt parseInterfaceTypeDefinition).ok σ a σ' h, fun pos b l h => (inferInstance : ErrAt parseInterfaceTypeDefinition).err σ pos b l h⟩
  rw [if_neg c5]
  by_cases c6 : kw.value = "union"
  · rw [if_pos c6]
    exact ⟨fun a σ' h => (inferInstance : ErrAt parseUnionTypeDefinition).ok σ a σ' h, fun pos b l h => (inferInstance : ErrAt parseUnionTypeDefinition).err σ pos b l h⟩
  rw [if_neg c6]
  by_cases c7 : kw.value = "enum"
  · rw [if_pos c7]
    exact ⟨fun a σ' h => (inferInstance : ErrAt parseEnumTypeDefinition).ok σ a σ' h, fun pos b l h => (inferInstance : ErrAt parseEnumTypeDefinition).err σ pos b l h⟩
  rw [if_neg c7]
  by_cases c8 : kw.value = "input"
  · rw [if_pos c8]
    exact ⟨fun a σ' h => (inferInstance : ErrAt parseInputObjectTypeDefinition).ok σ a σ' h, fun pos b l h => (inferInstance : ErrAt parseInputObjectTypeDefinition).err σ pos b l h⟩
  rw [if_neg c8]
  by_cases c9 : kw.value = "extend"
  · rw [if_pos c9]
    exact ⟨fun a σ' h => (inferInstance : ErrAt parseTypeExtensionDefinition).ok σ a σ' h, fun pos b l h => (inferInstance : ErrAt parseTypeExtensionDefinition).err σ pos b l h⟩
  rw [if_neg c9]
  by_cases c10 : kw.value = "directive"
  · rw [if_pos c10]
    exact ⟨fun a σ' h => (inferInstance : ErrAt parseDirectiveDefinition).ok σ a σ' h, fun pos b l h => (inferInstance : ErrAt parseDirectiveDefinition).err σ pos b l h⟩
  rw [if_neg c10]
  exact failAt_errAt ahead σ _ hkw

/-- `keywordToken` leaves the state alone and returns the current token or, after a description, the one after it -/
theorem keywordToken_spec (σ : PState) :
    (∀ kw σ', keywordToken σ = .ok (kw, σ') → σ' = σ ∧
        ErrOK σ kw.start (leftOf (decide (σ.cur.kind = .string ∨ σ.cur.kind = .blockString)) σ)) ∧
      (∀ pos b l, keywordToken σ = .error (.syntax pos b l) → ErrOK σ pos l) := by
  unfold keywordToken
  constructor
  · intro kw σ' h
    simp only [bind_ok, cur_run, Except.ok.injEq, Prod.mk.injEq] at h
    obtain ⟨_, _, ⟨rfl, rfl⟩, h⟩ := h
    split at h
    · rename_i hk
      have hne : σ.toks ≠ [] := by
        intro he
        rw [cur_nil he] at hk
        simp [eofToken] at hk
      simp only [bind_ok, lookahead_run, Except.ok.injEq, Prod.mk.injEq] at h
      obtain ⟨_, _, ⟨rfl, rfl⟩, h⟩ := h
      split at h
      · simp at h
      · obtain ⟨rfl, rfl⟩ := pure_ok.mp h
        refine ⟨rfl, ?_⟩
        simp only [leftOf, hk, decide_true, if_true]
        exact errOK_next σ hne
    · rename_i hk
      obtain ⟨rfl, rfl⟩ := pure_ok.mp h
      refine ⟨rfl, ?_⟩
      simp only [leftOf, hk, decide_false, Bool.false_eq_true, if_false]
      exact errOK_cur σ
  · intro pos b l h
    simp only [bind_error, cur_run, Except.ok.injEq, Prod.mk.injEq, reduceCtorEq, false_or] at h
    obtain ⟨_, _, ⟨rfl, rfl⟩, h⟩ := h
    split at h
    · rename_i hk
      have hne : σ.toks ≠ [] := by
        intro he
        rw [cur_nil he] at hk
        simp [eofToken] at hk
      simp only [bind_error, lookahead_run, Except.ok.injEq, Prod.mk.injEq, reduceCtorEq, false_or] at h
      obtain ⟨_, _, ⟨rfl, rfl⟩, h⟩ := h
      split at h
      · simp only [failAt_run, if_true, Except.error.injEq, PErr.syntax.injEq] at h
        rw [← h.1, ← h.2.2]; exact errOK_next σ hne
      · simp at h
    · simp at h

instance : ErrAt parseTypeSystemDefinition := by
  constructor
  · intro σ a σ' h
    simp only [parseTypeSystemDefinition, bind_ok, cur_run, Except.ok.injEq, Prod.mk.injEq] at h
    obtain ⟨_, _, ⟨rfl, rfl⟩, kw, σ1, h1, h2⟩ := h
    obtain ⟨rfl, hkw⟩ := (keywordToken_spec σ).1 kw σ1 h1
    exact (dispatch_errAt _ kw σ1 hkw).1 a σ' h2
  · intro σ pos b l h
    simp only [parseTypeSystemDefinition, bind_error, cur_run, Except.ok.injEq, Prod.mk.injEq, reduceCtorEq, false_or] at h
    obtain ⟨_, _, ⟨rfl, rfl⟩, h⟩ := h
    rcases h with h1 | ⟨kw, σ1, h1, h2⟩
    · exact (keywordToken_spec σ).2 pos b l h1
    · obtain ⟨rfl, hkw⟩ := (keywordToken_spec σ).1 kw σ1 h1
      exact (dispatch_errAt _ kw σ1 hkw).2 pos b l h2

instance : ErrAt parseDefinition := by
  unfold parseDefinition
  haveI : ∀ tok : Token, ErrAt (match tok.kind with
      | .braceL => parseOperationDefinition
      | .name => parseTypeSystemDefinition
      | .string => parseTypeSystemDefinition
      | .blockString => parseTypeSystemDefinition
      | _ => unexpected) := by intro tok; split <;> infer_instance
  infer_instance

instance (k : Nat) : ErrAt (parseDefinitions k) := by
  induction k with
  | zero => unfold parseDefinitions; infer_instance
  | succ k ih => unfold parseDefinitions; infer_instance

instance : ErrAt parseDocument := by unfold parseDocument; infer_instance

/-- every syntax error of the whole parser is reported at the start of a token of the input, or at the EOF offset -/
theorem parseToks_error_at_token {toks : List Token} {eofPos pos : Nat} {b : Bool}
    {l : Nat} (h : parseToks toks eofPos = .error (.syntax pos b l)) :
    ∃ k, k ≤ toks.length ∧ pos = posAt (initState toks eofPos) k := by
  unfold parseToks at h
  cases hp : parseDocument (initState toks eofPos) with
  | ok r => obtain ⟨d, σ⟩ := r; simp [hp] at h
  | error e =>
    simp only [hp, Except.error.injEq] at h
    subst h
    exact ((inferInstance : ErrAt parseDocument).err _ _ _ _ hp).atToken

/-- a type reference never reports a syntax error itself (D-03b: `parseType` has no failing path) -/
theorem parseTypeFuel_no_syntax_error : ∀ (n : Nat) (σ : PState) (pos : Nat) (b : Bool) (l : Nat),
    parseTypeFuel n σ ≠ .error (.syntax pos b l) := by
  intro n
  induction n with
  | zero => intro σ pos b l h; simp [parseTypeFuel] at h
  | succ n ih =>
    intro σ pos b l h
    simp only [parseTypeFuel] at h
    rcases bind_error.mp h with h1 | ⟨tok, σ0, h1, h2⟩
    · simp at h1
    · simp only [cur_run, Except.ok.injEq, Prod.mk.injEq] at h1
      obtain ⟨rfl, rfl⟩ := h1
      rcases bind_error.mp h2 with h3 | ⟨base, σ1, _, h4⟩
      · unfold parseTypeBaseWith at h3
        cases hk : σ.cur.kind <;> simp only [hk] at h3
        case bracketL =>
          rcases bind_error.mp h3 with h5 | ⟨_, σa, h5, h6⟩
          · simp at h5
          · rcases bind_error.mp h6 with h7 | ⟨inner, σ2, _, h8⟩
            · exact ih _ _ _ _ h7
            · rcases bind_error.mp h8 with h9 | ⟨c, σ3, h9, h10⟩
              · simp at h9
              · split at h10 <;> simp [bind_error] at h10
        case name =>
          rcases bind_error.mp h3 with h5 | ⟨t, σa, _, h6⟩
          · simp only [parseNamed, bind_error, cur_run, parseName, Except.ok.injEq, Prod.mk.injEq, reduceCtorEq, false_or] at h5
            obtain ⟨_, _, ⟨rfl, rfl⟩, h5⟩ := h5
            rcases h5 with h5 | ⟨_, _, _, h5⟩
            · rcases h5 with h5 | ⟨_, _, _, h5⟩
              · unfold expect at h5
                rw [if_pos hk] at h5
                simp at h5
              · simp [bind_error] at h5
            · simp [bind_error] at h5
          · simp at h6
        all_goals simp [bind_error] at h3
      · rcases bind_error.mp h4 with h5 | ⟨sk, σ2, _, h6⟩
        · unfold skip at h5; split at h5 <;> simp at h5
        · split at h6 <;> simp [bind_error] at h6

end GqlModel.Parser
