import GqlProofs.PlanExec3
/-! # Every field plan reachable in a plan stands for the algorithm's groups; shape of `planQuery`'s result -/
namespace GqlModel.Plan
open GqlModel.Exec GqlModel.Coerce

/-- every field plan at some address of the (lazily unfolded) plan tree satisfies the collection invariant -/
theorem at_fpOK {c : Ctx} {pv : Option Vars} {rank : String → Nat} {rootType : String} {root : List FieldPlan}
    (hac : Acyclic c.frags rank) (hfr : FragsOK c pv)
    (hroot : ∀ fp ∈ root, FpOK c.schema rootType (NodeOK c pv rank) fp) {fid : FpId} {fp : FieldPlan}
    (h : At c.schema c.frags pv rootType root fid fp) : ∃ rt, FpOK c.schema rt (NodeOK c pv rank) fp := by
  induction h with
  | root hm => exact ⟨rootType, hroot _ hm⟩
  | @step fid fp rt fp' _ hm ih =>
    obtain ⟨rt0, hok⟩ := ih
    exact ⟨rt, (planMerged_sim (rt := rt) hac hfr fp.nodes hok.nodes).2 fp' hm⟩

/-- what `planQuery` returns when it succeeds -/
theorem planQuery_ok {s : Schema} {doc : Document} {opName : String} {p : Plan} (hp : planQuery s doc opName = .ok p) :
    ∃ op name varDefs dirs sel loc root, selectOperation doc opName = .ok (.operation op name varDefs dirs sel loc) ∧
      s.rootFor op.toString = some root ∧
      p = Plan.mk s varDefs sel doc.fragments root (op == .mutation) (docDynamic doc) none
        (if docDynamic doc then [] else planSelectionSet s doc.fragments none root sel) := by
  unfold planQuery at hp
  split at hp
  · cases hp
  · rename_i op name varDefs dirs sel loc hsel
    split at hp
    · cases hp
    · rename_i root hroot
      simp only [Except.ok.injEq] at hp
      exact ⟨op, name, varDefs, dirs, sel, loc, root, hsel, hroot, hp.symm⟩
  · cases hp

theorem planQuery_root_nodup {s : Schema} {doc : Document} {opName : String} {p : Plan} (hp : planQuery s doc opName = .ok p) :
    KeysNodup p.root := by
  obtain ⟨op, name, varDefs, dirs, sel, loc, root, _, _, rfl⟩ := planQuery_ok hp
  simp only
  split
  · exact List.nodup_nil
  · exact keysNodup_planSelectionSet _ _ _ _ _

end GqlModel.Plan
