import GqlModel.Invocations
/-! C20: every entry of the resolver invocation log is the invocation of a selected field of a legitimate position with
accurate parameters (`Accurate`), by simultaneous induction on the fuel of the four mutually recursive functions. -/
namespace GqlModel.Exec
open GqlModel.Coerce

structure AccP (c : Ctx) (root : String) (rootG : Groups) (fuel : Nat) : Prop where
  groups : ∀ dfr rt src path groups acc st r st' (G : Groups),
    execGroups c fuel dfr rt src path groups acc st = (r, st') →
    Position c root rootG rt src path G → (∀ g, g ∈ groups → g ∈ G) →
    (∀ e, e ∈ st.log → Accurate c root rootG e) → ∀ e, e ∈ st'.log → Accurate c root rootG e
  field : ∀ dfr rt src path (G : Groups) k nodes node fd st r st',
    execField c fuel dfr rt src (path ++ [.key k]) fd nodes st = (r, st') →
    Position c root rootG rt src path G → (k, nodes) ∈ G → nodes.head? = some node →
    fieldDef? c.schema rt node.name = some fd →
    (∀ e, e ∈ st.log → Accurate c root rootG e) → ∀ e, e ∈ st'.log → Accurate c root rootG e
  complete : ∀ dfr t rt fname nodes p v st r st',
    complete c fuel dfr t rt fname nodes p v st = (r, st') →
    (∀ ot o p', ObjAt c t p v ot o p' → Position c root rootG ot o p' (collectMerged c ot nodes)) →
    (∀ e, e ∈ st.log → Accurate c root rootG e) → ∀ e, e ∈ st'.log → Accurate c root rootG e
  items : ∀ dfr item rt fname nodes p xs i acc st r st',
    completeItems c fuel dfr item rt fname nodes p xs i acc st = (r, st') →
    (∀ j x ot o p', xs[j]? = some x → ObjAt c item (p ++ [.idx (i + j)]) x ot o p' →
      Position c root rootG ot o p' (collectMerged c ot nodes)) →
    (∀ e, e ∈ st.log → Accurate c root rootG e) → ∀ e, e ∈ st'.log → Accurate c root rootG e

variable {c : Ctx} {root : String} {rootG : Groups}

theorem accP_zero : AccP c root rootG 0 := by
  refine ⟨?_, ?_, ?_, ?_⟩
  · intro dfr rt src path groups acc st r st' G h _ _ hst
    simp only [execGroups, Prod.mk.injEq] at h
    rw [← h.2]; exact hst
  · intro dfr rt src path G k nodes node fd st r st' h _ _ _ _ hst
    simp only [execField, Prod.mk.injEq] at h
    rw [← h.2]; exact hst
  · intro dfr t rt fname nodes p v st r st' h _ hst
    simp only [complete, Prod.mk.injEq] at h
    rw [← h.2]; exact hst
  · intro dfr item rt fname nodes p xs i acc st r st' h _ hst
    simp only [completeItems, Prod.mk.injEq] at h
    rw [← h.2]; exact hst

theorem accP_groups (fuel : Nat) (ih : AccP c root rootG fuel) :
    ∀ dfr rt src path groups acc st r st' (G : Groups),
    execGroups c (fuel + 1) dfr rt src path groups acc st = (r, st') →
    Position c root rootG rt src path G → (∀ g, g ∈ groups → g ∈ G) →
    (∀ e, e ∈ st.log → Accurate c root rootG e) → ∀ e, e ∈ st'.log → Accurate c root rootG e := by
  intro dfr rt src path groups acc st r st' G h hpos hG hst
  cases groups with
  | nil =>
    simp only [execGroups, Prod.mk.injEq] at h
    rw [← h.2]; exact hst
  | cons g rest =>
    obtain ⟨key, nodes⟩ := g
    simp only [execGroups] at h
    have hrest : ∀ g, g ∈ rest → g ∈ G := fun g hg => hG g (List.mem_cons_of_mem _ hg)
    split at h
    · exact ih.groups _ _ _ _ _ _ _ _ _ G h hpos hrest hst
    · rename_i node hnode
      split at h
      · exact ih.groups _ _ _ _ _ _ _ _ _ G h hpos hrest hst
      · rename_i fd hfd
        rcases hf : execField c fuel dfr rt src (path ++ [.key key]) fd nodes st with ⟨r1, st1⟩
        rw [hf] at h
        have h1 := ih.field _ _ _ _ G _ _ _ _ _ _ _ hf hpos (hG _ List.mem_cons_self) hnode hfd hst
        cases r1 with
        | ok v => exact ih.groups _ _ _ _ _ _ _ _ _ G h hpos hrest h1
        | fail => simp only [Prod.mk.injEq] at h; rw [← h.2]; exact h1
        | fuelOut => simp only [Prod.mk.injEq] at h; rw [← h.2]; exact h1

theorem accP_field (fuel : Nat) (ih : AccP c root rootG fuel) :
    ∀ dfr rt src path (G : Groups) k nodes node fd st r st',
    execField c (fuel + 1) dfr rt src (path ++ [.key k]) fd nodes st = (r, st') →
    Position c root rootG rt src path G → (k, nodes) ∈ G → nodes.head? = some node →
    fieldDef? c.schema rt node.name = some fd →
    (∀ e, e ∈ st.log → Accurate c root rootG e) → ∀ e, e ∈ st'.log → Accurate c root rootG e := by
  intro dfr rt src path G k nodes node fd st r st' h hpos hk hnode hfd hst
  simp only [execField] at h
  split at h
  · simp only [Prod.mk.injEq] at h
    rw [← h.2]; exact hst
  · rename_i hn
    have hn' : fd.name ≠ "__typename" := by simpa using hn
    simp only [hnode] at h
    -- the new entry is accurate
    have hent : ∀ (st0 : St), st0.log = LogEntry.mk (path ++ [.key k]) rt fd.name
          (getArgumentValues c.schema fd.args node.args c.vars) src nodes.length dfr :: st.log →
        ∀ e, e ∈ st0.log → Accurate c root rootG e := by
      intro st0 h0 e he
      rw [h0] at he
      rcases List.mem_cons.mp he with he | he
      · subst he
        exact ⟨rt, src, path, G, k, nodes, node, fd, hpos, ⟨hk, hnode, hfd, hn'⟩, rfl, rfl, rfl, rfl, rfl, rfl⟩
      · exact hst e he
    split at h
    · split at h <;> (simp only [Prod.mk.injEq] at h; rw [← h.2]; exact hent _ rfl)
    · rename_i v hv
      generalize hst0 : ({ st with log := _ :: st.log } : St) = st0 at h
      have h0 := hent st0 (by rw [← hst0])
      rcases hc : complete c fuel dfr fd.type rt fd.name nodes (path ++ [.key k]) v st0 with ⟨r1, st1⟩
      rw [hc] at h
      have h1 := ih.complete _ _ _ _ _ _ _ _ _ _ hc
        (fun ot o p' ho => PosFrom.child hpos ⟨hk, hnode, hfd, hn'⟩ hv ho) h0
      cases r1 with
      | ok j => simp only [Prod.mk.injEq] at h; rw [← h.2]; exact h1
      | fail => simp only at h; split at h <;> (simp only [Prod.mk.injEq] at h; rw [← h.2]; exact h1)
      | fuelOut => simp only [Prod.mk.injEq] at h; rw [← h.2]; exact h1

theorem accP_items (fuel : Nat) (ih : AccP c root rootG fuel) :
    ∀ dfr item rt fname nodes p xs i acc st r st',
    completeItems c (fuel + 1) dfr item rt fname nodes p xs i acc st = (r, st') →
    (∀ j x ot o p', xs[j]? = some x → ObjAt c item (p ++ [.idx (i + j)]) x ot o p' →
      Position c root rootG ot o p' (collectMerged c ot nodes)) →
    (∀ e, e ∈ st.log → Accurate c root rootG e) → ∀ e, e ∈ st'.log → Accurate c root rootG e := by
  intro dfr item rt fname nodes p xs i acc st r st' h hH hst
  cases xs with
  | nil =>
    simp only [completeItems, Prod.mk.injEq] at h
    rw [← h.2]; exact hst
  | cons x xs =>
    simp only [completeItems] at h
    rcases hc : complete c fuel dfr item rt fname nodes (p ++ [.idx i]) x st with ⟨r1, st1⟩
    rw [hc] at h
    have h1 := ih.complete _ _ _ _ _ _ _ _ _ _ hc
      (fun ot o p' ho => hH 0 x ot o p' (by simp) (by simpa using ho)) hst
    have hH' : ∀ j y ot o p', xs[j]? = some y → ObjAt c item (p ++ [.idx (i + 1 + j)]) y ot o p' →
        Position c root rootG ot o p' (collectMerged c ot nodes) := by
      intro j y ot o p' hj ho
      refine hH (j + 1) y ot o p' (by simpa using hj) ?_
      have : i + (j + 1) = i + 1 + j := by omega
      rw [this]; exact ho
    cases r1 with
    | ok j => exact ih.items _ _ _ _ _ _ _ _ _ _ _ _ h hH' h1
    | fail =>
      simp only at h
      split at h
      · simp only [Prod.mk.injEq] at h; rw [← h.2]; exact h1
      · exact ih.items _ _ _ _ _ _ _ _ _ _ _ _ h hH' h1
    | fuelOut => simp only [Prod.mk.injEq] at h; rw [← h.2]; exact h1

theorem accP_complete (fuel : Nat) (ih : AccP c root rootG fuel) :
    ∀ dfr t rt fname nodes p v st r st',
    complete c (fuel + 1) dfr t rt fname nodes p v st = (r, st') →
    (∀ ot o p', ObjAt c t p v ot o p' → Position c root rootG ot o p' (collectMerged c ot nodes)) →
    (∀ e, e ∈ st.log → Accurate c root rootG e) → ∀ e, e ∈ st'.log → Accurate c root rootG e := by
  intro dfr t rt fname nodes p v st r st' h hH hst
  have hsame : ∀ (stx : St), stx.log = st.log → (∀ e, e ∈ stx.log → Accurate c root rootG e) :=
    fun stx hx => by rw [hx]; exact hst
  simp only [complete] at h
  split at h
  · -- thunk
    split at h
    · simp only [Prod.mk.injEq] at h; rw [← h.2]; exact hsame _ rfl
    · rename_i v'
      rcases hc : complete c fuel true t rt fname nodes p v' st with ⟨r1, st1⟩
      rw [hc] at h
      have h1 := ih.complete _ _ _ _ _ _ _ _ _ _ hc (fun ot o p' ho => hH ot o p' (.thunk ho)) hst
      cases r1 <;> (simp only [Prod.mk.injEq] at h; rw [← h.2]; exact h1)
  · simp only [Prod.mk.injEq] at h; rw [← h.2]; exact hsame _ rfl
  · rename_i hnt hnb
    have hfun : v.isFunc = false := by
      cases v <;> first | rfl | (exfalso; first | exact hnt _ rfl | exact hnb rfl)
    split at h
    · -- nonNull
      rename_i inner
      rcases hc : complete c fuel dfr inner rt fname nodes p v st with ⟨r1, st1⟩
      rw [hc] at h
      have h1 := ih.complete _ _ _ _ _ _ _ _ _ _ hc (fun ot o p' ho => hH ot o p' (.nonNull ho)) hst
      split at h
      · rename_i heq
        simp only [Prod.mk.injEq] at h heq
        rw [← h.2, ← heq.2]; exact h1
      · simp only [Prod.mk.injEq] at h; rw [← h.2]; exact h1
    · -- list
      rename_i item
      split at h
      · simp only [Prod.mk.injEq] at h; rw [← h.2]; exact hst
      · split at h
        · rename_i xs _
          rcases hi : completeItems c fuel dfr item rt fname nodes p xs 0 [] st with ⟨r1, st1⟩
          rw [hi] at h
          have h1 := ih.items _ _ _ _ _ _ _ _ _ _ _ _ hi
            (fun j x ot o p' hj ho => hH ot o p' (.item hj (by simpa using ho))) hst
          cases r1 <;> (simp only [Prod.mk.injEq] at h; rw [← h.2]; exact h1)
        · simp only [Prod.mk.injEq] at h; rw [← h.2]; exact hsame _ rfl
    · -- named
      rename_i n
      split at h
      · simp only [Prod.mk.injEq] at h; rw [← h.2]; exact hst
      · rename_i hnull
        have hnull' : v.nullish = false := by simpa using hnull
        split at h
        · split at h
          · simp only [Prod.mk.injEq] at h; rw [← h.2]; exact hst
          · simp only [Prod.mk.injEq] at h; rw [← h.2]; exact hsame _ rfl
        · split at h
          · rename_i habs
            split at h
            · simp only [Prod.mk.injEq] at h; rw [← h.2]; exact hsame _ rfl
            · rename_i ot hot
              split at h
              · simp only [Prod.mk.injEq] at h; rw [← h.2]; exact hsame _ rfl
              · rename_i hposs
                have hp : c.schema.isObject ot = true ∧ c.schema.isPossibleType n ot = true := by
                  simpa using hposs
                rcases hg : execGroups c fuel dfr ot v p (collectMerged c ot nodes) [] st with ⟨r1, st1⟩
                rw [hg] at h
                have h1 := ih.groups _ _ _ _ _ _ _ _ _ _ hg
                  (hH ot v p (.abstract hfun hnull' habs hot hp.1 hp.2)) (fun g hg => hg) hst
                cases r1 <;> (simp only [Prod.mk.injEq] at h; rw [← h.2]; exact h1)
          · split at h
            · rename_i hobj
              split at h
              · simp only [Prod.mk.injEq] at h; rw [← h.2]; exact hsame _ rfl
              · rename_i hito
                rcases hg : execGroups c fuel dfr n v p (collectMerged c n nodes) [] st with ⟨r1, st1⟩
                rw [hg] at h
                have h1 := ih.groups _ _ _ _ _ _ _ _ _ _ hg
                  (hH n v p (.object hfun hnull' hobj (by simpa using hito))) (fun g hg => hg) hst
                cases r1 <;> (simp only [Prod.mk.injEq] at h; rw [← h.2]; exact h1)
            · simp only [Prod.mk.injEq] at h; rw [← h.2]; exact hsame _ rfl

theorem accP (c : Ctx) (root : String) (rootG : Groups) : ∀ fuel, AccP c root rootG fuel
  | 0 => accP_zero
  | fuel + 1 =>
    have ih := accP c root rootG fuel
    ⟨accP_groups fuel ih, accP_field fuel ih, accP_complete fuel ih, accP_items fuel ih⟩

end GqlModel.Exec
