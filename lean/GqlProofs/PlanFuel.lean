import GqlProofs.PlanFx7
/-! # Fuel: what the request's fuel certainly suffices for

Phase one of M consumes fuel exactly along the algorithm's recursion (`GenP`: when the algorithm's run is not `fuelOut`, M's is `ok`
or `fail`), and ONE call of a closure runs phase one again with the request's fuel, for which the algorithm's in-place run is
lifted (`complete_fuel_le`). So neither ever runs out (`force_no_fuelOut`). The loop at a dethunk site (counter: fuel + 2) never
runs out either: the algorithm unwraps one nested deferred value per unit of fuel (`forceAll_nf`). What can run out although the
algorithm does not — at the SAME fuel value — are the two traversals of the dethunk phase: the FIFO queue of the breadth-first pass
(one unit per container of the response: their number is not bounded by the algorithm's recursion depth) and the depth-first
recursion (one unit per key and per level, keys in SORTED order while the algorithm visits them in plan order).
`Props/C01Plan.fuel_is_not_shared_witness` is a kernel-checked request where `execute` answers and `run` is `fuelOut` for the fuels
19…26. `PlanFuel2`–`PlanFuel4` bound both traversals by measures of the response (`run_no_fuelOut`). -/
namespace GqlModel.Plan
open GqlModel.Exec GqlModel.Coerce

section
variable {c : Ctx} {pv : Option Vars} {rank : String → Nat} {F : Nat}

local notation "alt0" => recompute c.schema c.frags pv

/-- one call of a closure (with the request's fuel) never runs out of fuel -/
theorem force_no_fuelOut (hac : Acyclic c.frags rank) (hfr : FragsOK c pv) (cl : Closure) (j : JVal)
    (hwit : Wit c pv rank F cl j) (mst : MSt) : (force c alt0 F cl mst).1 ≠ .fuelOut := by
  obtain ⟨hn, hr⟩ := hwit
  unfold force
  cases hcr : cl.r with
  | none => simp only; split <;> simp
  | some r =>
    cases r with
    | err => simp only; split <;> simp
    | ok v =>
      rw [hcr] at hr
      simp only at hr ⊢
      obtain ⟨st, rS, stS, hS, hkf, hres⟩ := hr
      have hne : rS ≠ .fuelOut := by
        rcases hres with h | h
        · rw [h]; simp
        · rw [h.1]; simp
      have hc := (genP (F := F) hac hfr F (Nat.le_refl _)).complete true cl.t cl.rt cl.fid cl.fp cl.path v st
        (mst.logEv (.force cl.path)) rS stS hn hS hne hkf
      generalize mComplete c alt0 F true cl.t cl.rt cl.fid cl.fp cl.path v (mst.logEv (.force cl.path)) = z at hc ⊢
      obtain ⟨rM, mst1⟩ := z
      cases rS with
      | ok j' =>
        simp only [CompleteRel] at hc
        obtain ⟨x, hx, _⟩ := hc
        subst hx
        simp
      | fail =>
        simp only [CompleteRel] at hc
        rcases hc with hc | ⟨cl', hcl', _⟩
        · subst hc; simp only; split <;> simp
        · subst hcl'; simp
      | fuelOut => exact absurd rfl hne

end

/-! ## the site loop never runs out: nesting of deferred values is bounded by the algorithm's fuel -/

mutual
/-- how many times a value has to be called until something that is no func comes out (a failing thunk / a func of another signature
counts once) -/
def thunkDepth : GoVal → Nat
  | .thunk r => resDepth r
  | .badFunc => 1
  | _ => 0
def resDepth : ThunkRes → Nat
  | .ok v => thunkDepth v + 1
  | .err => 1
end

def rDepth : Option ThunkRes → Nat
  | some r => resDepth r
  | none => 1

/-- calls still needed for a value under construction -/
def pdepth : PVal → Nat
  | .deferred cl => rDepth cl.r
  | _ => 0

theorem thunkDepth_of_funcOf {v : GoVal} {r : Option ThunkRes} (h : funcOf v = some r) : thunkDepth v = rDepth r := by
  cases v with
  | thunk tr => simp only [funcOf, Option.some.injEq] at h; subst h; simp [thunkDepth, rDepth]
  | badFunc => simp only [funcOf, Option.some.injEq] at h; subst h; simp [thunkDepth, rDepth]
  | _ => simp [funcOf] at h

/-- the algorithm unwraps one level of deferred values per unit of fuel -/
theorem complete_thunkDepth_le (c : Ctx) : ∀ (f : Nat) (dfr : Bool) (t : GType) (rt fname : String) (nodes : List FieldNode)
    (p : Path) (v : GoVal) (st : St) (r : Res JVal) (st' : St),
    complete c f dfr t rt fname nodes p v st = (r, st') → r ≠ .fuelOut → thunkDepth v ≤ f
  | 0, dfr, t, rt, fname, nodes, p, v, st, r, st', h, hr => by
    simp only [complete, Prod.mk.injEq] at h; exact absurd h.1.symm hr
  | f + 1, dfr, t, rt, fname, nodes, p, v, st, r, st', h, hr => by
    cases v with
    | thunk tr =>
      cases tr with
      | err => simp [thunkDepth, resDepth]
      | ok v' =>
        simp only [complete] at h
        rcases hS : complete c f true t rt fname nodes p v' st with ⟨r1, st1⟩
        rw [hS] at h
        have hne : r1 ≠ .fuelOut := by
          intro he; subst he
          simp only [Prod.mk.injEq] at h
          exact hr h.1.symm
        have := complete_thunkDepth_le c f true t rt fname nodes p v' st r1 st1 hS hne
        simp only [thunkDepth, resDepth]
        omega
    | badFunc => simp [thunkDepth]
    | _ => simp [thunkDepth]

section
variable {c : Ctx} {pv : Option Vars} {rank : String → Nat} {F : Nat}

local notation "alt0" => recompute c.schema c.frags pv

/-- a closure the algorithm forced needs at most `F + 1` calls -/
theorem wit_rDepth {cl : Closure} {j : JVal} (hwit : Wit c pv rank F cl j) : rDepth cl.r ≤ F + 1 := by
  obtain ⟨_, hr⟩ := hwit
  cases hcr : cl.r with
  | none => simp [rDepth]
  | some r =>
    cases r with
    | err => simp [rDepth, resDepth]
    | ok v =>
      rw [hcr] at hr
      simp only at hr
      obtain ⟨st, rS, stS, hS, _, hres⟩ := hr
      have hne : rS ≠ .fuelOut := by
        rcases hres with h | h
        · rw [h]; simp
        · rw [h.1]; simp
      have := complete_thunkDepth_le c F true cl.t cl.rt _ _ cl.path v st rS stS hS hne
      simp only [rDepth, resDepth]
      omega

/-- what one call yields needs fewer calls -/
theorem force_pdepth (cl : Closure) (mst : MSt) (x : PVal) (h : (force c alt0 F cl mst).1 = .ok x) :
    pdepth x + 1 ≤ rDepth cl.r := by
  unfold force at h
  cases hcr : cl.r with
  | none =>
    simp only [hcr] at h
    split at h
    · cases h
    · simp only [Res.ok.injEq] at h; subst h; simp [pdepth, rDepth]
  | some r =>
    cases r with
    | err =>
      simp only [hcr] at h
      split at h
      · cases h
      · simp only [Res.ok.injEq] at h; subst h; simp [pdepth, rDepth, resDepth]
    | ok v =>
      simp only [hcr] at h
      rcases hM : mComplete c alt0 F true cl.t cl.rt cl.fid cl.fp cl.path v (mst.logEv (.force cl.path)) with ⟨rM, mst1⟩
      rw [hM] at h
      cases rM with
      | ok y =>
        simp only [Res.ok.injEq] at h
        subst h
        cases hfo : funcOf v with
        | none =>
          have hnd := mComplete_not_deferred F true cl.t cl.rt cl.fid cl.fp cl.path v (mst.logEv (.force cl.path)) hfo y (by rw [hM])
          cases y with
          | deferred cl' => exact absurd rfl (hnd cl')
          | leaf _ => simp [pdepth, rDepth, resDepth]
          | list _ => simp [pdepth, rDepth, resDepth]
          | obj _ => simp [pdepth, rDepth, resDepth]
        | some r' =>
          -- the value is a func: M wrapped it at once
          have hy : y = .deferred { t := cl.t, rt := cl.rt, fid := cl.fid, fp := cl.fp, path := cl.path, r := r' } := by
            cases F with
            | zero => simp [mComplete] at hM
            | succ n =>
              simp only [mComplete, hfo, Prod.mk.injEq, Res.ok.injEq] at hM
              exact hM.1.symm
          subst hy
          simp only [pdepth, rDepth, resDepth, thunkDepth_of_funcOf hfo]
          exact Nat.le_refl _
      | fail =>
        simp only at h
        split at h
        · cases h
        · simp only [Res.ok.injEq] at h; subst h; simp [pdepth, rDepth, resDepth]
      | fuelOut => simp only at h; cases h

/-- **the loop at a dethunk site never runs out of fuel** (its counter is the request's fuel + 2) -/
theorem forceLoop_nf (hac : Acyclic c.frags rank) (hfr : FragsOK c pv) (j : JVal) :
    ∀ (n : Nat) (v : PVal) (mst : MSt), SV c pv rank F v j → pdepth v + 1 ≤ n →
    (forceLoop (force c alt0 F) n v mst).1 ≠ .fuelOut
  | 0, v, mst, _, h => by omega
  | n + 1, .leaf _, mst, _, _ => by simp [forceLoop]
  | n + 1, .list _, mst, _, _ => by simp [forceLoop]
  | n + 1, .obj _, mst, _, _ => by simp [forceLoop]
  | n + 1, .deferred cl, mst, hsv, hd => by
    simp only [forceLoop]
    cases hsv with
    | deferred hwit =>
      have h1 := force_no_fuelOut hac hfr cl j hwit mst
      have h2 := force_sv hac hfr cl j hwit mst
      have h3 := force_pdepth (c := c) (pv := pv) (F := F) cl mst
      generalize force c alt0 F cl mst = z at h1 h2 h3 ⊢
      obtain ⟨r1, mst1⟩ := z
      cases r1 with
      | ok x =>
        have hx := h3 x rfl
        simp only [pdepth] at hd
        exact forceLoop_nf hac hfr j n x mst1 h2 (by omega)
      | fail => simp
      | fuelOut => exact absurd rfl h1

theorem forceAll_nf (hac : Acyclic c.frags rank) (hfr : FragsOK c pv) (cl : Closure) (j : JVal)
    (hwit : Wit c pv rank F cl j) (mst : MSt) : (forceAll c alt0 F cl mst).1 ≠ .fuelOut := by
  have := wit_rDepth hwit
  exact forceLoop_nf hac hfr j (F + 2) (.deferred cl) mst (.deferred hwit) (by simp only [pdepth]; omega)

end

end GqlModel.Plan
