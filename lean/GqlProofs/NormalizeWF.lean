import GqlProofs.NormalizeRel
import GqlModel.PrinterWF

/-!
# C06 — the normaliser keeps a document printer-well-formed

`Printer.WFDocument` is the premise of C08's read-back theorem (`parse (print d)` gives `d` back up to source positions).
A cache key that is the PRINTED normalised document identifies that document only if the normalised document is
itself well-formed: the synthetic variable names `__pcvN` are GraphQL names, the synthetic definitions carry the
argument's declared type (well-formed by `SchemaOK`), everything else is the caller's.
-/

namespace GqlModel.Normalize
open GqlModel GqlModel.Reader GqlModel.Printer

theorem isNameCont_of_toDigits (k : Nat) : ∀ c ∈ Nat.toDigits 10 k, isNameCont c = true := by
  intro c hc
  have h := Nat.isDigit_of_mem_toDigits (by decide) (by decide) hc
  simp only [Char.isDigit, Bool.and_eq_true, decide_eq_true_eq] at h
  have h1 : 48 ≤ c.toNat := UInt32.le_iff_toNat_le.mp h.1
  have h2 : c.toNat ≤ 57 := UInt32.le_iff_toNat_le.mp h.2
  simp only [isNameCont, isDigit, Bool.or_eq_true, Bool.and_eq_true, decide_eq_true_eq]
  exact Or.inr ⟨h1, h2⟩

theorem pcv_chars : "__pcv".toList = ['_', '_', 'p', 'c', 'v'] := by decide

/-- `__pcvN` is a GraphQL name -/
theorem synthName_wf (k : Nat) : isNameC (synthName k).toList = true := by
  unfold synthName
  rw [String.toList_ofList, pcv_chars]
  show isNameC ('_' :: ('_' :: 'p' :: 'c' :: 'v' :: Nat.toDigits 10 k)) = true
  unfold isNameC
  rw [Bool.and_eq_true]
  refine ⟨by decide, ?_⟩
  rw [List.all_eq_true]
  intro c hc
  simp only [List.mem_cons] at hc
  rcases hc with rfl | rfl | rfl | rfl | hc
  · decide
  · decide
  · decide
  · decide
  · exact isNameCont_of_toDigits k c hc

/-- invariant of the walk for well-formedness: every recorded entry has a GraphQL name and a well-formed type -/
def EntriesWF (st : NState) : Prop :=
  ∀ e ∈ st.entries, isNameC e.name.toList = true ∧ Reader.WFType (typeRefOf e.type)

theorem tryExtract_wf (s : Schema) (st : NState) (v : Value) (t : GType)
    (h : EntriesWF st) (hv : Reader.WFValue v) (ht : Reader.WFType (typeRefOf t)) :
    Reader.WFValue (tryExtract s st v t).1 ∧ EntriesWF (tryExtract s st v t).2 := by
  unfold tryExtract
  split
  · exact ⟨hv, h⟩
  split
  · exact ⟨hv, h⟩
  · split
    · exact ⟨hv, h⟩
    · split
      · exact ⟨hv, h⟩
      · split
        · rename_i e he
          exact ⟨by simpa only [Reader.WFValue] using (h e (List.mem_of_find?_eq_some he)).1, h⟩
        · obtain ⟨_, c', _, _, hn⟩ := nextName_spec st.taken st.counter
          have hw : isNameC (nextName st.taken st.counter).1.toList = true := by rw [hn]; exact synthName_wf c'
          refine ⟨by simpa only [Reader.WFValue] using hw, ?_⟩
          intro e he
          simp only [List.mem_append, List.mem_singleton] at he
          rcases he with he | rfl
          · exact h e he
          · exact ⟨hw, ht⟩

theorem normArgs_wf (s : Schema) (defs : List ArgDef) (hd : ∀ d ∈ defs, Reader.WFType (typeRefOf d.type)) :
    ∀ (as : List Argument) (st : NState), EntriesWF st → WFArguments as →
      WFArguments (normArgs s defs as st).1 ∧ EntriesWF (normArgs s defs as st).2 := by
  intro as
  induction as with
  | nil => intro st h _; exact ⟨trivial, h⟩
  | cons a as ih =>
    intro st h ha
    simp only [WFArguments] at ha
    simp only [normArgs]
    cases hf : defs.find? (fun d => d.name == a.name.value) with
    | none =>
      simp only
      obtain ⟨h1, h2⟩ := ih st h ha.2
      exact ⟨⟨ha.1, h1⟩, h2⟩
    | some d =>
      simp only
      obtain ⟨hv, hst⟩ := tryExtract_wf s st a.value d.type h ha.1.2 (hd d (List.mem_of_find?_eq_some hf))
      obtain ⟨h1, h2⟩ := ih _ hst ha.2
      exact ⟨⟨⟨ha.1.1, hv⟩, h1⟩, h2⟩

/-! ## printer-well-formed documents satisfy `LexSet` (the lexical premise of `normalized_transparent`) -/

theorem wfArguments_mem : ∀ (as : List Argument), WFArguments as → ∀ a ∈ as, Reader.WFValue a.value
  | [], _, a, ha => by cases ha
  | x :: xs, h, a, ha => by
    simp only [WFArguments] at h
    rcases List.mem_cons.mp ha with rfl | ha
    · exact h.1.2
    · exact wfArguments_mem xs h.2 a ha

mutual
theorem lexSel_of_wf : ∀ (x : Selection), WFSelection x → LexSel x
  | .field _ _ args _ sel _, h => by
    simp only [WFSelection] at h
    simp only [LexSel]
    exact ⟨wfArguments_mem args h.2.2.1, lexOpt_of_wf sel h.2.2.2.2⟩
  | .inline _ _ ss _, h => by
    simp only [WFSelection] at h
    simp only [LexSel]
    exact lexSet_of_wf ss h.2.2
  | .spread _ _ _, _ => by simp only [LexSel]
theorem lexOpt_of_wf : ∀ (x : Option SelectionSet), WFOptSelSet x → LexOpt x
  | none, _ => by simp only [LexOpt]
  | some ss, h => by
    simp only [WFOptSelSet] at h
    simp only [LexOpt]
    exact lexSet_of_wf ss h
theorem lexSet_of_wf : ∀ (x : SelectionSet), WFSelSet x → LexSet x
  | .mk sels _, h => by
    simp only [WFSelSet] at h
    simp only [LexSet]
    exact lexList_of_wf sels h.2
theorem lexList_of_wf : ∀ (xs : List Selection), WFSelections xs → LexList xs
  | [], _ => by simp only [LexList]
  | x :: xs, h => by
    simp only [WFSelections] at h
    simp only [LexList]
    exact ⟨lexSel_of_wf x h.1, lexList_of_wf xs h.2⟩
end

section Walk
variable (s : Schema) (hsch : SchemaOK s)
include hsch

mutual
theorem normSel_wf : ∀ (x : Selection) (P : String) (st : NState), EntriesWF st → WFSelection x →
    WFSelection (normSel s keep P x st).1 ∧ EntriesWF (normSel s keep P x st).2
  | .field al nm args dirs sel loc, P, st, h, hw => by
    simp only [WFSelection] at hw
    cases hfd : fieldDefN s P nm.value with
    | none => simp only [normSel, hfd]; exact ⟨by simpa only [WFSelection] using hw, h⟩
    | some fd =>
      have hd : ∀ d ∈ argDefsFor keep (respKey al nm) fd, Reader.WFType (typeRefOf d.type) :=
        fun d hdm => ((hsch.1 P nm.value fd hfd).2 d (mem_argDefsFor hdm)).2
      obtain ⟨ha, hst⟩ := normArgs_wf s (argDefsFor keep (respKey al nm) fd) hd args st h hw.2.2.1
      by_cases ho : s.isObject fd.type.namedName = true
      · simp only [normSel, hfd, ho, if_true]
        obtain ⟨hs, hst'⟩ := normOpt_wf sel fd.type.namedName _ hst hw.2.2.2.2
        exact ⟨by simp only [WFSelection]; exact ⟨hw.1, hw.2.1, ha, hw.2.2.2.1, hs⟩, hst'⟩
      · simp only [normSel, hfd, ho, if_false, Bool.false_eq_true]
        exact ⟨by simp only [WFSelection]; exact ⟨hw.1, hw.2.1, ha, hw.2.2.2.1, hw.2.2.2.2⟩, hst⟩
  | .inline tc dirs ss loc, P, st, h, hw => by
    simp only [WFSelection] at hw
    simp only [normSel]
    obtain ⟨hs, hst⟩ := normSet_wf ss (inlineParent s P tc) st h hw.2.2
    exact ⟨by simp only [WFSelection]; exact ⟨hw.1, hw.2.1, hs⟩, hst⟩
  | .spread n d l, P, st, h, hw => by simp only [normSel]; exact ⟨hw, h⟩
theorem normOpt_wf : ∀ (x : Option SelectionSet) (P : String) (st : NState), EntriesWF st → WFOptSelSet x →
    WFOptSelSet (normOpt s keep P x st).1 ∧ EntriesWF (normOpt s keep P x st).2
  | none, P, st, h, _ => by simp only [normOpt]; exact ⟨trivial, h⟩
  | some ss, P, st, h, hw => by
    simp only [WFOptSelSet] at hw
    simp only [normOpt]
    obtain ⟨hs, hst⟩ := normSet_wf ss P st h hw
    exact ⟨by simpa only [WFOptSelSet] using hs, hst⟩
theorem normSet_wf : ∀ (x : SelectionSet) (P : String) (st : NState), EntriesWF st → WFSelSet x →
    WFSelSet (normSet s keep P x st).1 ∧ EntriesWF (normSet s keep P x st).2
  | .mk sels loc, P, st, h, hw => by
    simp only [WFSelSet] at hw
    simp only [normSet]
    obtain ⟨hs, hst⟩ := normList_wf sels P st h hw.2
    refine ⟨?_, hst⟩
    simp only [WFSelSet]
    refine ⟨?_, hs⟩
    cases sels with
    | nil => exact absurd rfl hw.1
    | cons x xs => simp only [normList]; exact List.cons_ne_nil _ _
theorem normList_wf : ∀ (xs : List Selection) (P : String) (st : NState), EntriesWF st → WFSelections xs →
    WFSelections (normList s keep P xs st).1 ∧ EntriesWF (normList s keep P xs st).2
  | [], P, st, h, _ => by simp only [normList]; exact ⟨trivial, h⟩
  | x :: xs, P, st, h, hw => by
    simp only [WFSelections] at hw
    simp only [normList]
    obtain ⟨h1, hst⟩ := normSel_wf x P st h hw.1
    obtain ⟨h2, hst'⟩ := normList_wf xs P _ hst hw.2
    exact ⟨by simp only [WFSelections]; exact ⟨h1, h2⟩, hst'⟩
end

omit hsch in
theorem wfVarDefs_append : ∀ (a b : List VarDef), WFVarDefs a → WFVarDefs b → WFVarDefs (a ++ b)
  | [], _, _, hb => hb
  | x :: a, b, ha, hb => by
    simp only [WFVarDefs] at ha
    simp only [List.cons_append, WFVarDefs]
    exact ⟨ha.1, wfVarDefs_append a b ha.2 hb⟩

omit hsch in
theorem wfVarDefs_entries : ∀ (es : List Entry), (∀ e ∈ es, isNameC e.name.toList = true ∧ Reader.WFType (typeRefOf e.type)) →
    WFVarDefs (es.map mkVarDef)
  | [], _ => trivial
  | e :: es, h => by
    simp only [List.map_cons, WFVarDefs]
    refine ⟨?_, wfVarDefs_entries es (fun x hx => h x (List.mem_cons_of_mem _ hx))⟩
    obtain ⟨h1, h2⟩ := h e (List.mem_cons_self ..)
    exact ⟨h1, ⟨_, rfl, h2⟩, trivial⟩

theorem normalizeOperation_wf (keep : List String) (root : String) (docNames : List String) (d : Definition) (h : WFDefinition d) :
    WFDefinition (normalizeOperation s keep root docNames d).1 := by
  cases d with
  | operation op name vars dirs sel loc =>
    simp only [WFDefinition] at h
    simp only [normalizeOperation, WFDefinition]
    have h0 : EntriesWF (initState vars docNames) := by intro e he; simp [initState] at he
    obtain ⟨hs, hst⟩ := normSet_wf s hsch sel root _ h0 h.2.2.2
    exact ⟨h.1, wfVarDefs_append _ _ h.2.1 (wfVarDefs_entries _ hst), h.2.2.1, hs⟩
  | _ => simpa only [normalizeOperation] using h

omit hsch in
theorem wfDefinitions_replaceAt : ∀ (ds : List Definition) (i : Nat) (d : Definition), WFDefinitions ds → WFDefinition d →
    WFDefinitions (replaceAt ds i d)
  | [], _, _, _, _ => by simp only [replaceAt]; trivial
  | x :: xs, 0, d, h, hd => by simp only [WFDefinitions] at h; simp only [replaceAt, WFDefinitions]; exact ⟨hd, h.2⟩
  | x :: xs, i + 1, d, h, hd => by
    simp only [WFDefinitions] at h
    simp only [replaceAt, WFDefinitions]
    exact ⟨h.1, wfDefinitions_replaceAt xs i d h.2 hd⟩

omit hsch in
theorem replaceAt_ne_nil {α : Type} : ∀ (ds : List α) (i : Nat) (d : α), ds ≠ [] → replaceAt ds i d ≠ []
  | [], _, _, h => absurd rfl h
  | _ :: _, 0, _, _ => by simp only [replaceAt]; exact List.cons_ne_nil _ _
  | _ :: _, _ + 1, _, _ => by simp only [replaceAt]; exact List.cons_ne_nil _ _

omit hsch in
theorem wfDefinitions_mem : ∀ (ds : List Definition), WFDefinitions ds → ∀ d ∈ ds, WFDefinition d
  | [], _, d, hd => by cases hd
  | x :: xs, h, d, hd => by
    simp only [WFDefinitions] at h
    rcases List.mem_cons.mp hd with rfl | hd
    · exact h.1
    · exact wfDefinitions_mem xs h.2 d hd

/-- **the normalised document is printer-well-formed when the request's document is** -/
theorem normalizeDocument_wf (doc docN : Document) (opName : String) (synth : List (String × JVal))
    (hwf : WFDocument doc) (h : normalizeDocument s doc opName = .ok docN synth) : WFDocument docN := by
  unfold normalizeDocument at h
  split at h
  · cases h
  · rename_i i n _
    split at h
    · cases h
    · split at h
      · cases h
      · rename_i opDef hget
        split at h
        · cases h
        · rename_i root _
          simp only at h
          split at h
          · cases h; exact hwf
          · cases h
            have hmem : opDef ∈ doc.defs := List.mem_of_getElem? hget
            have hd := normalizeOperation_wf s hsch (fragKeys doc) root (docVarNames doc) opDef (wfDefinitions_mem doc.defs hwf.2 opDef hmem)
            exact ⟨replaceAt_ne_nil _ _ _ hwf.1, wfDefinitions_replaceAt _ _ _ hwf.2 hd⟩

end Walk

end GqlModel.Normalize
