import GqlModel.Conforms
import GqlModel.TwoWorlds
/-! A small concrete request (schema, document with fragments / aliases / a cyclic fragment / a variable-driven
directive, world with failures) used by the non-vacuity `example`s of Props/C01, C04, C13, C20. Definitions only. -/
namespace GqlModel.Exec.Ex
open GqlModel GqlModel.Exec GqlModel.Coerce

def nm (s : String) : Name := ⟨s, Loc.none⟩

def fld (name : String) (sel : Option (List Selection) := none) (alias : Option String := none)
    (dirs : List Directive := []) : Selection :=
  .field (alias.map nm) (nm name) [] dirs (sel.map (fun l => .mk l Loc.none)) Loc.none

def spread (name : String) (dirs : List Directive := []) : Selection := .spread (nm name) dirs Loc.none

def skipIf (var : String) : Directive :=
  { name := nm "skip", args := [{ name := nm "if", value := .var var Loc.none, loc := Loc.none }], loc := Loc.none }

def schema : Schema :=
  { types := [
      .scalar "Int" .int "", .scalar "String" .string "", .scalar "Boolean" .boolean "",
      .object "Query" [] [
        { name := "a", type := .nonNull (.named "Int"), args := [] },
        { name := "b", type := .list (.named "Int"), args := [] },
        { name := "o", type := .named "O", args := [] },
        { name := "n", type := .named "Node", args := [] }] false "",
      .object "Mutation" [] [
        { name := "m1", type := .named "O", args := [] },
        { name := "m2", type := .named "Int", args := [] }] false "",
      .interface "Node" [{ name := "y", type := .named "Int", args := [] }] false "",
      .object "O" ["Node"] [
        { name := "x", type := .nonNull (.named "String"), args := [] },
        { name := "y", type := .named "Int", args := [] }] true ""],
    query := "Query", mutation := some "Mutation", subscription := none, directives := [] }

/-- `query Q($s: Boolean!) { a b ...F o { y } w: o @skip(if: $s) { x } n { __typename y } }`,
`fragment F on Query { o { ...G } }`, `fragment G on O { y ...G }` (cyclic),
`mutation M { m1 { y } m2 m1 { x } }` -/
def doc : Document :=
  { defs := [
      .operation .query (some (nm "Q"))
        [{ var := nm "s", varLoc := Loc.none, type := some (.nonNull (.named "Boolean" Loc.none) Loc.none),
           default := none, loc := Loc.none }] []
        (.mk [fld "a", fld "b", spread "F", fld "o" (some [fld "y"]),
              fld "o" (some [fld "x"]) (some "w") [skipIf "s"],
              fld "n" (some [fld "__typename", fld "y"])] Loc.none) Loc.none,
      .fragment (nm "F") (.named "Query" Loc.none) [] (.mk [fld "o" (some [spread "G"])] Loc.none) Loc.none,
      .fragment (nm "G") (.named "O" Loc.none) [] (.mk [fld "y", spread "G"] Loc.none) Loc.none,
      .operation .mutation (some (nm "M")) [] []
        (.mk [fld "m1" (some [fld "y"]), fld "m2", fld "m1" (some [fld "x"])] Loc.none) Loc.none],
    loc := Loc.none }

/-- object 1 is an `O` whose `x` resolver fails; `b` returns a list with a string and an out-of-range integer -/
def world : World :=
  { objects := [(1, { typeName := "O", fields := [("x", .fail), ("y", .value (.int 2))] })],
    rootFields := [("a", .value (.int 7)), ("b", .value (.list [.int 1, .str "zz", .int 5000000000])),
                   ("o", .value (.ref 1)), ("n", .value (.ref 1)), ("m1", .value (.thunk (.ok (.ref 1)))),
                   ("m2", .value (.int 3))],
    isTypeOf := [], resolveType := [] }

def varsT : Vars := [("s", .bool true)]
def varsF : Vars := [("s", .bool false)]

/-- observations as plain data (so that `decide` can compare them) -/
def pathStr (p : Path) : String :=
  String.intercalate "." (p.map (fun | .key k => k | .idx i => toString i))

def obsLog (r : Response) : List String :=
  match r with
  | .result _ _ log _ => log.map (fun e => pathStr e.path)
  | _ => ["<no result>"]

def obsErrs (r : Response) : List String :=
  match r with
  | .result _ errs _ _ => errs.map (fun e => pathStr e.1)
  | _ => ["<no result>"]

def obsData (r : Response) : Option (List (String × JVal)) :=
  match r with
  | .result d _ _ _ => d
  | _ => none

def obsKeys (r : Response) : List String := ((obsData r).getD []).map (·.1)

/-! ## a second request for the two-world theorem: a list of objects with a non-null field -/

def schemaTW : Schema :=
  { types := [
      .scalar "Int" .int "",
      .object "Query" [] [
        { name := "items", type := .list (.named "Item"), args := [] },
        { name := "z", type := .named "Int", args := [] }] false "",
      .object "Item" [] [
        { name := "a", type := .nonNull (.named "Int"), args := [] },
        { name := "b", type := .named "Int", args := [] }] false ""],
    query := "Query", mutation := none, subscription := none, directives := [] }

/-- `{ items { a b } z }` -/
def docTW : Document :=
  { defs := [.operation .query none [] [] (.mk [fld "items" (some [fld "a", fld "b"]), fld "z"] Loc.none) Loc.none],
    loc := Loc.none }

/-- `items` is a list of two `Item`s; the resolver `(object 2, field a)` fails -/
def worldTW1 : World :=
  { objects := [(1, { typeName := "Item", fields := [("a", .value (.int 1)), ("b", .value (.int 2))] }),
                (2, { typeName := "Item", fields := [("a", .fail), ("b", .value (.int 3))] })],
    rootFields := [("items", .value (.list [.ref 1, .ref 2])), ("z", .value (.int 5))],
    isTypeOf := [], resolveType := [] }

/-- the same world, except that `(object 2, field a)` returns 7 -/
def worldTW2 : World :=
  { worldTW1 with objects := [(1, { typeName := "Item", fields := [("a", .value (.int 1)), ("b", .value (.int 2))] }),
                             (2, { typeName := "Item", fields := [("a", .value (.int 7)), ("b", .value (.int 3))] })] }

/-- the position of the differing resolver: `items[1].a` (depth 3, inside a list) -/
def pTW : Path := [.key "items", .idx 1, .key "a"]
/-- its nearest nullable ancestor: the list item `items[1]` (the field `a` is non-null) -/
def qTW : Path := [.key "items", .idx 1]

/-- does the log entry invoke the resolver `(object id, field f)`? (`Touches`, as a Boolean) -/
def touchesB (id : Nat) (f : String) (e : LogEntry) : Bool :=
  (match e.source with | .ref i => i == id | _ => false) && e.fieldName == f

/-- the paths at which a response's log invokes the resolver `(object id, field f)` -/
def touchPaths (id : Nat) (f : String) (r : Response) : List String :=
  match r with
  | .result _ _ log _ => (log.filter (touchesB id f)).map (fun e => pathStr e.path)
  | _ => ["<no result>"]

def errsOutsideS (q : Path) (r : Response) : List String :=
  match r with
  | .result _ errs _ _ => (errsOutside q errs).map (fun e => pathStr e.1)
  | _ => ["<no result>"]

def logOutsideS (q : Path) (r : Response) : List String :=
  match r with
  | .result _ _ log _ => (logOutside q log).map (fun e => pathStr e.path)
  | _ => ["<no result>"]

def showAt (d : Option (List (String × JVal))) (r : Path) : Option String :=
  (d.bind (fun fs => (JVal.obj fs).getAt r)).map fmtV

end GqlModel.Exec.Ex
