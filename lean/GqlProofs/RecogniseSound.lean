import GqlProofs.RecogniseRun
import GqlProofs.RecogniseComplete
/-! What the EBNF interpreter matches is derivable in the grammar relations (big-step form):
`Run (nt X) ts (rest r) → ∀ e, ∃ x e', DX ⟨e, ts⟩ x ⟨e', r⟩`. -/
namespace GqlModel.Grammar
open GqlModel

set_option linter.unusedSimpArgs false
set_option linter.unusedVariables false

/-- `D` derives some node from `ts` leaving `r`, whatever the incoming end offset -/
def Ex {α : Type} (D : Pos → α → Pos → Prop) (ts r : List Token) : Prop := ∀ e, ∃ x e', D ⟨e, ts⟩ x ⟨e', r⟩

/-! ## inversion of the big-step semantics -/

theorem run_nt_iff {x : NT} {ts : List Token} {o : Out} : Run (.nt x) ts o ↔ Run (rule x) ts o :=
  ⟨fun h => by cases h; assumption, .nt⟩

theorem run_seq_rest {a b : G} {ts r : List Token} :
    Run (.seq a b) ts (.rest r) ↔ ∃ r1, Run a ts (.rest r1) ∧ Run b r1 (.rest r) :=
  ⟨fun h => by cases h with | seq_ok h1 h2 => exact ⟨_, h1, h2⟩, fun ⟨_, h1, h2⟩ => .seq_ok h1 h2⟩

theorem run_tok_rest {k : TokenKind} {ts r : List Token} : Run (.tok k) ts (.rest r) ↔ ∃ t, ts = t :: r ∧ t.kind = k :=
  ⟨fun h => by cases h with | tok_ok hk => exact ⟨_, rfl, hk⟩, fun ⟨t, h1, h2⟩ => by subst h1; exact .tok_ok h2⟩

theorem run_kw_rest {s : String} {ts r : List Token} :
    Run (.kw s) ts (.rest r) ↔ ∃ t, ts = t :: r ∧ t.kind = .name ∧ t.value = s :=
  ⟨fun h => by cases h with | kw_ok hk => exact ⟨_, rfl, hk⟩, fun ⟨t, h1, h2⟩ => by subst h1; exact .kw_ok h2⟩

theorem run_nb_rest {ex : List String} {ts r : List Token} :
    Run (.nameBut ex) ts (.rest r) ↔ ∃ t, ts = t :: r ∧ t.kind = .name ∧ ¬ t.value ∈ ex :=
  ⟨fun h => by cases h with | nb_ok hk => exact ⟨_, rfl, hk⟩, fun ⟨t, h1, h2⟩ => by subst h1; exact .nb_ok h2⟩

theorem run_alt_rest {a b : G} {ts r : List Token} :
    Run (.alt a b) ts (.rest r) ↔ Run a ts (.rest r) ∨ (Run a ts .no ∧ Run b ts (.rest r)) :=
  ⟨fun h => by
    cases h with
    | alt_l h => exact .inl h
    | alt_r h1 h2 => exact .inr ⟨h1, h2⟩,
   fun h => by
    rcases h with h | ⟨h1, h2⟩
    · exact .alt_l h
    · exact .alt_r h1 h2⟩

theorem run_opt_rest {a : G} {ts r : List Token} :
    Run (.opt a) ts (.rest r) ↔ Run a ts (.rest r) ∨ (Run a ts .no ∧ r = ts) :=
  ⟨fun h => by
    cases h with
    | opt_some h => exact .inl h
    | opt_none h => exact .inr ⟨h, rfl⟩,
   fun h => by
    rcases h with h | ⟨h1, rfl⟩
    · exact .opt_some h
    · exact .opt_none h1⟩

theorem run_optIf_rest {c : Look} {a : G} {ts r : List Token} :
    Run (.optIf c a) ts (.rest r) ↔ (c.holds ts = true ∧ Run a ts (.rest r)) ∨ (c.holds ts = false ∧ r = ts) :=
  ⟨fun h => by
    cases h with
    | optIf_yes hc h => exact .inl ⟨hc, h⟩
    | optIf_no hc => exact .inr ⟨hc, rfl⟩,
   fun h => by
    rcases h with ⟨hc, h⟩ | ⟨hc, rfl⟩
    · exact .optIf_yes hc h
    · exact .optIf_no hc⟩

theorem run_tok_no {k : TokenKind} {ts : List Token} : Run (.tok k) ts .no ↔ (Pos.mk 0 ts).kind ≠ k ∨ ts = [] := by
  constructor
  · intro h
    cases h with
    | tok_no hk => exact .inl (by simpa [Pos.kind] using hk)
    | tok_nil => exact .inr rfl
  · rintro (h | rfl)
    · cases ts with
      | nil => exact .tok_nil
      | cons t r => exact .tok_no (by simpa [Pos.kind] using h)
    · exact .tok_nil

/-! ## terminals -/

theorem kind_of_holds {k : TokenKind} {e : Nat} {ts : List Token} (h : (Look.kind k).holds ts = true) : (Pos.mk e ts).kind = k := by
  cases ts with
  | nil => simp [Look.holds] at h
  | cons t r => simpa [Look.holds, Pos.kind] using h

theorem kind_of_not_holds {k : TokenKind} (hk : k ≠ .eof) {e : Nat} {ts : List Token} (h : (Look.kind k).holds ts = false) :
    (Pos.mk e ts).kind ≠ k := by
  cases ts with
  | nil => simp [Pos.kind]; exact fun h => hk h.symm
  | cons t r => simpa [Look.holds, Pos.kind] using h

theorem isName_of_holds {s : String} {e : Nat} {ts : List Token} (h : (Look.kw s).holds ts = true) : (Pos.mk e ts).isName s := by
  cases ts with
  | nil => simp [Look.holds] at h
  | cons t r => simpa [Look.holds, Pos.isName] using h

theorem not_isName_of_not_holds {s : String} {e : Nat} {ts : List Token} (h : (Look.kw s).holds ts = false) :
    ¬ (Pos.mk e ts).isName s := by
  cases ts with
  | nil => simp [Pos.isName]
  | cons t r => simpa [Look.holds, Pos.isName] using h

theorem tok_of_run {k : TokenKind} {ts r : List Token} (h : Run (.tok k) ts (.rest r)) (e : Nat) :
    ∃ t, Tok k ⟨e, ts⟩ t ⟨t.stop, r⟩ := by
  obtain ⟨t, rfl, hk⟩ := run_tok_rest.mp h
  exact ⟨t, .mk e t r hk⟩

theorem kw_of_run {s : String} {ts r : List Token} (h : Run (.kw s) ts (.rest r)) (e : Nat) :
    ∃ e', Kw s ⟨e, ts⟩ ⟨e', r⟩ := by
  obtain ⟨t, rfl, hk, hv⟩ := run_kw_rest.mp h
  exact ⟨t.stop, .mk (.mk e t r hk) hv⟩

theorem dname_of_run {ts r : List Token} (h : Run (.tok .name) ts (.rest r)) : Ex DName ts r := by
  intro e
  obtain ⟨t, ht⟩ := tok_of_run h e
  exact ⟨_, _, .mk ht⟩

theorem run_tok_lt {k : TokenKind} {ts r : List Token} (h : Run (.tok k) ts (.rest r)) : r.length < ts.length := by
  obtain ⟨t, rfl, _⟩ := run_tok_rest.mp h
  simp

theorem run_kw_lt {s : String} {ts r : List Token} (h : Run (.kw s) ts (.rest r)) : r.length < ts.length := by
  obtain ⟨t, rfl, _⟩ := run_kw_rest.mp h
  simp

/-! ## repetition -/

theorem star_many {α} {D : Pos → α → Pos → Prop} {g : G} {N : Nat}
    (hitem : ∀ ts r, ts.length ≤ N → Run g ts (.rest r) → Ex D ts r)
    (hlt : ∀ p x p', D p x p' → p'.ts.length < p.ts.length) :
    ∀ {g' : G} {ts : List Token} {o : Out}, Run g' ts o → g' = .star g → ts.length ≤ N → ∀ r, o = .rest r →
      (Ex (Many D) ts r ∧ Run g r .no) := by
  intro g' ts o h
  induction h with
  | star_done hno _ =>
    intro hg hN r ho
    cases hg; cases ho
    exact ⟨fun e => ⟨[], e, .nil⟩, hno⟩
  | star_more h1 hlt h2 _ ih2 =>
    intro hg hN r ho
    cases hg
    obtain ⟨hM, hno⟩ := ih2 rfl (by omega) r ho
    refine ⟨fun e => ?_, hno⟩
    obtain ⟨x, e1, hx⟩ := hitem _ _ hN h1 e
    obtain ⟨xs, e2, hxs⟩ := hM e1
    exact ⟨x :: xs, e2, .cons hx hxs⟩
  | star_stuck h1 hnlt _ =>
    intro hg hN r ho
    cases hg; cases ho
    obtain ⟨x, e1, hx⟩ := hitem _ _ hN h1 0
    exact absurd (hlt _ _ _ hx) hnlt
  | _ => intro hg; cases hg

/-! ## values -/

theorem many_to_dvalues {c : Bool} {p : Pos} {vs : List Value} {p' : Pos} (h : Many (DValue c) p vs p') : DValues c p vs p' := by
  induction h with
  | nil => exact .nil
  | cons hx _ ih => exact .cons hx ih

theorem many_to_dobjFields {c : Bool} {p : Pos} {fs : List ObjField} {p' : Pos} (h : Many (DObjField c) p fs p') :
    DObjFields c p fs p' := by
  induction h with
  | nil => exact .nil
  | cons hx _ ih => exact .cons hx ih

theorem var_sound {ts r : List Token} (h : Run (.nt .var) ts (.rest r)) : Ex DVariable ts r := by
  intro e
  simp only [run_nt_iff, rule, run_seq_rest] at h
  obtain ⟨r1, h1, h2⟩ := h
  obtain ⟨d, hd⟩ := tok_of_run h1 e
  obtain ⟨n, e', hn⟩ := dname_of_run h2 d.stop
  exact ⟨_, _, .mk hd hn⟩

theorem value_sound : ∀ (N : Nat) (c : Bool) (ts r : List Token), ts.length < N → Run (.nt (valNT c)) ts (.rest r) →
    Ex (DValue c) ts r := by
  intro N
  induction N with
  | zero => intro c ts r h; omega
  | succ N ih =>
    intro c ts r hlen h
    -- the alternatives shared by Value and Value[Const]
    have hshared : (Run (.tok .int) ts (.rest r) ∨ Run (.tok .float) ts (.rest r) ∨ Run (.tok .string) ts (.rest r) ∨
        Run (.tok .blockString) ts (.rest r) ∨ Run (.nt .booleanValue) ts (.rest r) ∨ Run (.nt .enumValue) ts (.rest r) ∨
        Run (.nt (listNT c)) ts (.rest r) ∨ Run (.nt (objNT c)) ts (.rest r)) → Ex (DValue c) ts r := by
      intro hs e
      rcases hs with h | h | h | h | h | h | h | h
      · obtain ⟨t, ht⟩ := tok_of_run h e; exact ⟨_, _, .int ht⟩
      · obtain ⟨t, ht⟩ := tok_of_run h e; exact ⟨_, _, .float ht⟩
      · obtain ⟨t, ht⟩ := tok_of_run h e; exact ⟨_, _, .string ht⟩
      · obtain ⟨t, ht⟩ := tok_of_run h e; exact ⟨_, _, .blockString ht⟩
      · simp only [run_nt_iff, rule, run_alt_rest] at h
        rcases h with h | ⟨-, h⟩
        · obtain ⟨e', hk⟩ := kw_of_run h e; exact ⟨_, _, .tru hk⟩
        · obtain ⟨e', hk⟩ := kw_of_run h e; exact ⟨_, _, .fls hk⟩
      · simp only [run_nt_iff, rule, run_nb_rest] at h
        obtain ⟨t, rfl, hk, hv⟩ := h
        simp only [List.mem_cons, List.not_mem_nil, or_false, not_or] at hv
        exact ⟨_, _, .enum (.mk e t r hk) hv.1 hv.2.1 hv.2.2⟩
      · have h' : Run (G.seqs [.tok .bracketL, .star (.nt (valNT c)), .tok .bracketR]) ts (.rest r) := by
          cases c <;> simpa [run_nt_iff, rule, listNT, valNT] using h
        simp only [G.seqs, run_seq_rest] at h'
        obtain ⟨r1, h1, r2, h2, h3⟩ := h'
        obtain ⟨o, ho⟩ := tok_of_run h1 e
        have hl1 : r1.length < N := by
          have := run_tok_lt h1
          omega
        obtain ⟨hM, _⟩ := star_many (D := DValue c) (N := r1.length)
          (fun ts' r' hl h' => ih c ts' r' (by omega) h') (fun _ _ _ => DValue.lt) h2 rfl (Nat.le_refl _) r2 rfl
        obtain ⟨vs, e2, hvs⟩ := hM o.stop
        obtain ⟨cl, hc⟩ := tok_of_run h3 e2
        exact ⟨_, _, .list ho (many_to_dvalues hvs) hc⟩
      · have h' : Run (G.seqs [.tok .braceL, .star (.nt (fieldNT c)), .tok .braceR]) ts (.rest r) := by
          cases c <;> simpa [run_nt_iff, rule, objNT, fieldNT] using h
        simp only [G.seqs, run_seq_rest] at h'
        obtain ⟨r1, h1, r2, h2, h3⟩ := h'
        obtain ⟨o, ho⟩ := tok_of_run h1 e
        have hl1 : r1.length < N := by
          have := run_tok_lt h1
          omega
        have hfield : ∀ ts' r', ts'.length ≤ r1.length → Run (.nt (fieldNT c)) ts' (.rest r') → Ex (DObjField c) ts' r' := by
          intro ts' r' hl hf e0
          have hf' : Run (G.seqs [.tok .name, .tok .colon, .nt (valNT c)]) ts' (.rest r') := by
            cases c <;> simpa [run_nt_iff, rule, fieldNT, valNT] using hf
          simp only [G.seqs, run_seq_rest] at hf'
          obtain ⟨q1, g1, q2, g2, g3⟩ := hf'
          obtain ⟨n, e1, hn⟩ := dname_of_run g1 e0
          obtain ⟨cl, hcl⟩ := tok_of_run g2 e1
          have hq2 : q2.length < N := by
            have := run_tok_lt g1
            have := Run.le g2 _ rfl
            omega
          obtain ⟨v, e3, hv⟩ := ih c q2 r' hq2 g3 cl.stop
          exact ⟨_, _, .mk hn hcl hv⟩
        obtain ⟨hM, _⟩ := star_many (D := DObjField c) (N := r1.length) hfield (fun _ _ _ => DObjField.lt) h2 rfl
          (Nat.le_refl _) r2 rfl
        obtain ⟨fs, e2, hfs⟩ := hM o.stop
        obtain ⟨cl, hc⟩ := tok_of_run h3 e2
        exact ⟨_, _, .obj ho (many_to_dobjFields hfs) hc⟩
    rw [run_nt_iff] at h
    cases c
    · simp only [valNT, Bool.false_eq_true, if_false, rule, G.alts, run_alt_rest] at h
      rcases h with h | ⟨-, h⟩
      · intro e
        obtain ⟨⟨n, l⟩, e', hv⟩ := var_sound h e
        exact ⟨_, _, .var hv⟩
      · refine hshared ?_
        rcases h with h | ⟨-, h | ⟨-, h | ⟨-, h | ⟨-, h | ⟨-, h | ⟨-, h | ⟨-, h⟩⟩⟩⟩⟩⟩⟩
        · exact .inl h
        · exact .inr (.inl h)
        · exact .inr (.inr (.inl h))
        · exact .inr (.inr (.inr (.inl h)))
        · exact .inr (.inr (.inr (.inr (.inl h))))
        · exact .inr (.inr (.inr (.inr (.inr (.inl h)))))
        · exact .inr (.inr (.inr (.inr (.inr (.inr (.inl h))))))
        · exact .inr (.inr (.inr (.inr (.inr (.inr (.inr h))))))
    · simp only [valNT, if_true, rule, G.alts, run_alt_rest] at h
      refine hshared ?_
      rcases h with h | ⟨-, h | ⟨-, h | ⟨-, h | ⟨-, h | ⟨-, h | ⟨-, h | ⟨-, h⟩⟩⟩⟩⟩⟩⟩
      · exact .inl h
      · exact .inr (.inl h)
      · exact .inr (.inr (.inl h))
      · exact .inr (.inr (.inr (.inl h)))
      · exact .inr (.inr (.inr (.inr (.inl h))))
      · exact .inr (.inr (.inr (.inr (.inr (.inl h)))))
      · exact .inr (.inr (.inr (.inr (.inr (.inr (.inl h))))))
      · exact .inr (.inr (.inr (.inr (.inr (.inr (.inr h))))))

theorem value_snd' (c : Bool) {ts r : List Token} (h : Run (.nt (valNT c)) ts (.rest r)) : Ex (DValue c) ts r :=
  value_sound (ts.length + 1) c ts r (Nat.lt_succ_self _) h

/-! ## more inversion: failure -/

theorem run_alt_no {a b : G} {ts : List Token} : Run (.alt a b) ts .no ↔ Run a ts .no ∧ Run b ts .no :=
  ⟨fun h => by cases h with | alt_r h1 h2 => exact ⟨h1, h2⟩, fun ⟨h1, h2⟩ => .alt_r h1 h2⟩

theorem run_seq_no {a b : G} {ts : List Token} :
    Run (.seq a b) ts .no ↔ Run a ts .no ∨ ∃ r1, Run a ts (.rest r1) ∧ Run b r1 .no :=
  ⟨fun h => by
    cases h with
    | seq_ok h1 h2 => exact .inr ⟨_, h1, h2⟩
    | seq_no h1 => exact .inl h1,
   fun h => by
    rcases h with h | ⟨_, h1, h2⟩
    · exact .seq_no h
    · exact .seq_ok h1 h2⟩

theorem kind_ne_of_tok_no {k : TokenKind} (hk : k ≠ .eof) {ts : List Token} (h : Run (.tok k) ts .no) (e : Nat) :
    (Pos.mk e ts).kind ≠ k := by
  cases h with
  | tok_no hne => simpa [Pos.kind] using hne
  | tok_nil => simp [Pos.kind]; exact fun h => hk h.symm

/-- after a match of `a`, a failing `a b` means `b` fails right there -/
theorem seq_no_after {a b : G} {ts r : List Token} (hs : Run (.seq a b) ts .no) (ha : Run a ts (.rest r)) : Run b r .no := by
  rcases run_seq_no.mp hs with h | ⟨r1, h1, h2⟩
  · cases Run.det h ha
  · cases Run.det h1 ha; exact h2

/-! ## `g+`, look-ahead loops -/

theorem plus_many {α} {D : Pos → α → Pos → Prop} {g : G} (hitem : ∀ ts r, Run g ts (.rest r) → Ex D ts r)
    (hlt : ∀ p x p', D p x p' → p'.ts.length < p.ts.length) {ts r : List Token} (h : Run (G.plus g) ts (.rest r)) :
    ∀ e, ∃ xs e', Many D ⟨e, ts⟩ xs ⟨e', r⟩ ∧ xs ≠ [] := by
  intro e
  obtain ⟨r1, h1, h2⟩ := run_seq_rest.mp h
  obtain ⟨x, e1, hx⟩ := hitem _ _ h1 e
  obtain ⟨hM, _⟩ := star_many (D := D) (N := r1.length) (fun ts' r' _ h' => hitem ts' r' h') hlt h2 rfl (Nat.le_refl _) r rfl
  obtain ⟨xs, e2, hxs⟩ := hM e1
  exact ⟨x :: xs, e2, .cons hx hxs, by simp⟩

theorem star_many' {α} {D : Pos → α → Pos → Prop} {g : G} (hitem : ∀ ts r, Run g ts (.rest r) → Ex D ts r)
    (hlt : ∀ p x p', D p x p' → p'.ts.length < p.ts.length) {ts r : List Token} (h : Run (.star g) ts (.rest r)) :
    Ex (Many D) ts r :=
  (star_many (D := D) (N := ts.length) (fun ts' r' _ h' => hitem ts' r' h') hlt h rfl (Nat.le_refl _) r rfl).1

/-- `first (sep item)*` read as `SepBy` -/
theorem sepTail_sound {α} {D : Pos → α → Pos → Prop} {g : G} {sep : TokenKind} (hsep : sep ≠ .eof)
    (hitem : ∀ ts r, Run g ts (.rest r) → Ex D ts r) :
    ∀ {g' : G} {ts : List Token} {o : Out}, Run g' ts o → g' = .starIf (.kind sep) (.seq (.tok sep) g) → ∀ r, o = .rest r →
      ∀ (p0 : Pos) (x : α) (e1 : Nat), D p0 x ⟨e1, ts⟩ → ∃ xs e', SepBy sep D p0 xs ⟨e', r⟩ := by
  intro g' ts o h
  induction h with
  | starIf_done hc =>
    intro hg r ho p0 x e1 hx
    cases hg; cases ho
    exact ⟨[x], e1, .one hx (kind_of_not_holds hsep hc)⟩
  | starIf_more hc h1 hlt h2 _ ih2 =>
    intro hg r ho p0 x e1 hx
    cases hg
    obtain ⟨q, g1, g2⟩ := run_seq_rest.mp h1
    obtain ⟨s, hs⟩ := tok_of_run g1 e1
    obtain ⟨y, e2, hy⟩ := hitem _ _ g2 s.stop
    obtain ⟨xs, e', hxs⟩ := ih2 rfl r ho _ y e2 hy
    exact ⟨x :: xs, e', .cons hx hs hxs⟩
  | starIf_stuck hc h1 hnlt _ =>
    intro hg r ho
    cases hg; cases ho
    obtain ⟨q, g1, g2⟩ := run_seq_rest.mp h1
    have := run_tok_lt g1
    have := Run.le g2 _ rfl
    omega
  | starIf_no hc h1 _ => intro hg r ho; cases ho
  | _ => intro hg; cases hg

theorem sepBy_sound {α} {D : Pos → α → Pos → Prop} {g : G} {sep : TokenKind} (hsep : sep ≠ .eof)
    (hitem : ∀ ts r, Run g ts (.rest r) → Ex D ts r) {ts r : List Token}
    (h : Run (.seq g (.starIf (.kind sep) (.seq (.tok sep) g))) ts (.rest r)) : Ex (SepBy sep D) ts r := by
  intro e
  obtain ⟨r1, h1, h2⟩ := run_seq_rest.mp h
  obtain ⟨x, e1, hx⟩ := hitem _ _ h1 e
  exact sepTail_sound hsep hitem h2 rfl r rfl _ x e1 hx

/-! ## arguments, directives -/

theorem argument_sound {ts r : List Token} (h : Run (.nt .argument) ts (.rest r)) : Ex DArgument ts r := by
  intro e
  simp only [run_nt_iff, rule, G.seqs, run_seq_rest] at h
  obtain ⟨r1, h1, r2, h2, h3⟩ := h
  obtain ⟨n, e1, hn⟩ := dname_of_run h1 e
  obtain ⟨cl, hc⟩ := tok_of_run h2 e1
  obtain ⟨v, e3, hv⟩ := value_snd' false (.nt h3) cl.stop
  exact ⟨_, _, .mk hn hc hv⟩

theorem arguments_sound {ts r : List Token} (h : Run (.optIf (.kind .parenL) (.nt .arguments)) ts (.rest r)) :
    Ex DArguments ts r := by
  intro e
  rcases run_optIf_rest.mp h with ⟨hc, h⟩ | ⟨hc, rfl⟩
  · rw [run_nt_iff] at h
    simp only [rule, G.seqs, run_seq_rest] at h
    obtain ⟨r1, h1, r2, h2, h3⟩ := h
    obtain ⟨o, ho⟩ := tok_of_run h1 e
    obtain ⟨xs, e2, hxs, hne⟩ := plus_many (fun _ _ => argument_sound) (fun _ _ _ => dargument_lt) h2 o.stop
    obtain ⟨cl, hcl⟩ := tok_of_run h3 e2
    exact ⟨_, _, .some ho hxs hne hcl⟩
  · exact ⟨[], e, .none (kind_of_not_holds (by decide) hc)⟩

theorem directive_sound {ts r : List Token} (h : Run (.nt .directive) ts (.rest r)) : Ex DDirective ts r := by
  intro e
  rw [run_nt_iff] at h
  simp only [rule, G.seqs, run_seq_rest] at h
  obtain ⟨r1, h1, r2, h2, h3⟩ := h
  obtain ⟨a, ha⟩ := tok_of_run h1 e
  obtain ⟨n, e2, hn⟩ := dname_of_run h2 a.stop
  obtain ⟨args, e3, hargs⟩ := arguments_sound h3 e2
  exact ⟨_, _, .mk ha hn hargs⟩

theorem directivesLoop_sound : ∀ {g' : G} {ts : List Token} {o : Out}, Run g' ts o →
    g' = .starIf (.kind .at) (.nt .directive) → ∀ r, o = .rest r → Ex DDirectives ts r := by
  intro g' ts o h
  induction h with
  | starIf_done hc =>
    intro hg r ho e
    cases hg; cases ho
    exact ⟨[], e, .nil (kind_of_not_holds (by decide) hc)⟩
  | starIf_more hc h1 hlt h2 _ ih2 =>
    intro hg r ho e
    cases hg
    obtain ⟨d, e1, hd⟩ := directive_sound h1 e
    obtain ⟨ds, e2, hds⟩ := ih2 rfl r ho e1
    exact ⟨d :: ds, e2, .cons hd hds⟩
  | starIf_stuck hc h1 hnlt _ =>
    intro hg r ho e
    cases hg; cases ho
    obtain ⟨d, e1, hd⟩ := directive_sound h1 e
    exact absurd (ddirective_lt hd) hnlt
  | starIf_no hc h1 _ => intro hg r ho; cases ho
  | _ => intro hg; cases hg

theorem directives_sound {ts r : List Token} (h : Run (.nt .directives) ts (.rest r)) : Ex DDirectives ts r := by
  rw [run_nt_iff] at h
  exact directivesLoop_sound h rfl r rfl

/-! ## types -/

theorem namedType_sound {ts r : List Token} (h : Run (.nt .namedType) ts (.rest r)) : Ex DNamedType ts r := by
  intro e
  rw [run_nt_iff] at h
  obtain ⟨n, e1, hn⟩ := dname_of_run h e
  exact ⟨_, _, .mk hn⟩

theorem type_sound : ∀ (N : Nat) (ts r : List Token), ts.length < N → Run (.nt .type) ts (.rest r) → Ex DType ts r := by
  intro N
  induction N with
  | zero => intro ts r h; omega
  | succ N ih =>
    intro ts r hlen h e
    have hlist : ∀ r', Run (.nt .listType) ts (.rest r') → ∃ t e', DBaseType ⟨e, ts⟩ t ⟨e', r'⟩ := by
      intro r' hl
      rw [run_nt_iff] at hl
      simp only [rule, G.seqs, run_seq_rest] at hl
      obtain ⟨r1, h1, r2, h2, h3⟩ := hl
      obtain ⟨o, ho⟩ := tok_of_run h1 e
      have := run_tok_lt h1
      obtain ⟨t, e2, ht⟩ := ih r1 r2 (by omega) h2 o.stop
      obtain ⟨cl, hcl⟩ := tok_of_run h3 e2
      exact ⟨_, _, .list ho ht hcl⟩
    have hnamed : ∀ r', Run (.nt .namedType) ts (.rest r') → ∃ t e', DBaseType ⟨e, ts⟩ t ⟨e', r'⟩ := by
      intro r' hn
      obtain ⟨t, e1, ht⟩ := namedType_sound hn e
      exact ⟨_, _, .named ht⟩
    rw [run_nt_iff] at h
    simp only [rule, G.alts, run_alt_rest] at h
    rcases h with h | ⟨hnn, h⟩
    · -- NonNullType
      rw [run_nt_iff] at h
      simp only [rule, run_alt_rest, run_seq_rest] at h
      rcases h with ⟨r1, h1, h2⟩ | ⟨-, r1, h1, h2⟩
      · obtain ⟨t, e1, ht⟩ := hnamed r1 h1
        obtain ⟨b, hb⟩ := tok_of_run h2 e1
        exact ⟨_, _, .nonNull ht hb⟩
      · obtain ⟨t, e1, ht⟩ := hlist r1 h1
        obtain ⟨b, hb⟩ := tok_of_run h2 e1
        exact ⟨_, _, .nonNull ht hb⟩
    · rw [run_nt_iff] at hnn
      simp only [rule, run_alt_no] at hnn
      rcases h with h | ⟨-, h⟩
      · obtain ⟨t, e1, ht⟩ := hnamed r h
        exact ⟨_, _, .plain ht (kind_ne_of_tok_no (by decide) (seq_no_after hnn.1 h) e1)⟩
      · obtain ⟨t, e1, ht⟩ := hlist r h
        exact ⟨_, _, .plain ht (kind_ne_of_tok_no (by decide) (seq_no_after hnn.2 h) e1)⟩

theorem type_snd' {ts r : List Token} (h : Run (.nt .type) ts (.rest r)) : Ex DType ts r :=
  type_sound (ts.length + 1) ts r (Nat.lt_succ_self _) h

/-! ## selection sets -/

theorem many_to_dselections {p : Pos} {ss : List Selection} {p' : Pos} (h : Many DSelection p ss p') : DSelections p ss p' := by
  induction h with
  | nil => exact .nil
  | cons hx _ ih => exact .cons hx ih

theorem fragmentName_sound {ts r : List Token} (h : Run (.nt .fragmentName) ts (.rest r)) : Ex DFragmentName ts r := by
  intro e
  rw [run_nt_iff] at h
  simp only [rule, run_nb_rest] at h
  obtain ⟨t, rfl, hk, hv⟩ := h
  exact ⟨_, _, .mk (.mk (.mk e t r hk)) (by simpa using hv)⟩

theorem typeCondition_sound {ts r : List Token} (h : Run (.nt .typeCondition) ts (.rest r)) (e : Nat) :
    ∃ t e', DTypeCondition ⟨e, ts⟩ (some t) ⟨e', r⟩ ∧ ∃ e1 r1 e2, Kw "on" ⟨e, ts⟩ ⟨e1, r1⟩ ∧ DNamedType ⟨e1, r1⟩ t ⟨e2, r⟩ ∧ e2 = e' := by
  rw [run_nt_iff] at h
  simp only [rule, run_seq_rest] at h
  obtain ⟨r1, h1, h2⟩ := h
  obtain ⟨e1, hk⟩ := kw_of_run h1 e
  obtain ⟨t, e2, ht⟩ := namedType_sound h2 e1
  exact ⟨t, e2, .some hk ht, e1, r1, e2, hk, ht, rfl⟩

theorem optTypeCondition_sound {ts r : List Token} (h : Run (.optIf (.kw "on") (.nt .typeCondition)) ts (.rest r)) :
    Ex DTypeCondition ts r := by
  intro e
  rcases run_optIf_rest.mp h with ⟨hc, h⟩ | ⟨hc, rfl⟩
  · obtain ⟨t, e', ht, _⟩ := typeCondition_sound h e
    exact ⟨_, _, ht⟩
  · exact ⟨none, e, .none (not_isName_of_not_holds hc)⟩

theorem selectionSet_sound : ∀ (N : Nat) (ts r : List Token), ts.length < N → Run (.nt .selectionSet) ts (.rest r) →
    Ex DSelectionSet ts r := by
  intro N
  induction N with
  | zero => intro ts r h; omega
  | succ N ih =>
    intro ts r hlen h e
    rw [run_nt_iff] at h
    simp only [rule, G.seqs, run_seq_rest] at h
    obtain ⟨r1, h1, r2, h2, h3⟩ := h
    obtain ⟨o, ho⟩ := tok_of_run h1 e
    have hr1 := run_tok_lt h1
    -- optional nested selection set, on inputs shorter than N
    have hopt : ∀ ts' r', ts'.length < N → Run (.optIf (.kind .braceL) (.nt .selectionSet)) ts' (.rest r') →
        Ex DOptSelectionSet ts' r' := by
      intro ts' r' hl hh e0
      rcases run_optIf_rest.mp hh with ⟨hc, hh⟩ | ⟨hc, rfl⟩
      · obtain ⟨s, e1, hs⟩ := ih ts' r' hl hh e0
        exact ⟨_, _, .some hs⟩
      · exact ⟨none, e0, .none (kind_of_not_holds (by decide) hc)⟩
    -- one selection, on inputs no longer than what follows the brace
    have hsel : ∀ ts' r', ts'.length ≤ r1.length → Run (.nt .selection) ts' (.rest r') → Ex DSelection ts' r' := by
      intro ts' r' hl hs e0
      rw [run_nt_iff] at hs
      simp only [rule, G.alts, run_alt_rest] at hs
      rcases hs with hf | ⟨-, hs⟩
      · -- Field
        rw [run_nt_iff] at hf
        simp only [rule, G.seqs, run_seq_rest] at hf
        obtain ⟨q0, g0, q1, g1, q2, g2, q3, g3, g4⟩ := hf
        rcases run_opt_rest.mp g0 with ga | ⟨gno, rfl⟩
        · -- alias
          rw [run_nt_iff] at ga
          simp only [rule, run_seq_rest] at ga
          obtain ⟨qa, ga1, ga2⟩ := ga
          obtain ⟨a, ea, hA⟩ := dname_of_run ga1 e0
          obtain ⟨cl, hC⟩ := tok_of_run ga2 ea
          obtain ⟨n, e1, hN⟩ := dname_of_run g1 cl.stop
          obtain ⟨args, e2, hArgs⟩ := arguments_sound g2 e1
          obtain ⟨dirs, e3, hD⟩ := directives_sound g3 e2
          have hq3 : q3.length < N := by
            have := run_tok_lt ga1; have := Run.le ga2 _ rfl; have := Run.le g1 _ rfl
            have := Run.le g2 _ rfl; have := Run.le g3 _ rfl; omega
          obtain ⟨sel, e4, hS⟩ := hopt q3 r' hq3 g4 e3
          exact ⟨_, _, .aliased hA hC hN hArgs hD hS⟩
        · obtain ⟨n, e1, hN⟩ := dname_of_run g1 e0
          have hcolon : Run (.tok .colon) q1 .no := by
            rw [run_nt_iff] at gno
            exact seq_no_after gno g1
          obtain ⟨args, e2, hArgs⟩ := arguments_sound g2 e1
          obtain ⟨dirs, e3, hD⟩ := directives_sound g3 e2
          have hq3 : q3.length < N := by
            have := run_tok_lt g1; have := Run.le g2 _ rfl; have := Run.le g3 _ rfl; omega
          obtain ⟨sel, e4, hS⟩ := hopt q3 r' hq3 g4 e3
          exact ⟨_, _, .field hN (kind_ne_of_tok_no (by decide) hcolon e1) hArgs hD hS⟩
      · rcases hs with hsp | ⟨-, hin⟩
        · -- FragmentSpread
          rw [run_nt_iff] at hsp
          simp only [rule, G.seqs, run_seq_rest] at hsp
          obtain ⟨q1, g1, q2, g2, g3⟩ := hsp
          obtain ⟨sp, hSp⟩ := tok_of_run g1 e0
          obtain ⟨n, e2, hN⟩ := fragmentName_sound g2 sp.stop
          obtain ⟨dirs, e3, hD⟩ := directives_sound g3 e2
          exact ⟨_, _, .spread hSp hN hD⟩
        · -- InlineFragment
          rw [run_nt_iff] at hin
          simp only [rule, G.seqs, run_seq_rest] at hin
          obtain ⟨q1, g1, q2, g2, q3, g3, g4⟩ := hin
          obtain ⟨sp, hSp⟩ := tok_of_run g1 e0
          obtain ⟨tc, e2, hT⟩ := optTypeCondition_sound g2 sp.stop
          obtain ⟨dirs, e3, hD⟩ := directives_sound g3 e2
          have hq3 : q3.length < N := by
            have := run_tok_lt g1; have := Run.le g2 _ rfl; have := Run.le g3 _ rfl; omega
          obtain ⟨sel, e4, hS⟩ := ih q3 r' hq3 g4 e3
          exact ⟨_, _, .inline hSp hT hD hS⟩
    -- Selection+
    obtain ⟨q1, g1, g2⟩ := run_seq_rest.mp h2
    obtain ⟨s, e1, hs⟩ := hsel r1 q1 (Nat.le_refl _) g1 o.stop
    obtain ⟨hM, _⟩ := star_many (D := DSelection) (N := q1.length)
      (fun ts' r' hl h' => hsel ts' r' (by have := Run.le g1 _ rfl; omega) h') (fun _ _ _ => DSelection.lt) g2 rfl
      (Nat.le_refl _) r2 rfl
    obtain ⟨ss, e2, hss⟩ := hM e1
    obtain ⟨cl, hcl⟩ := tok_of_run h3 e2
    exact ⟨_, _, .mk ho (.cons hs (many_to_dselections hss)) (by simp) hcl⟩

theorem selectionSet_snd' {ts r : List Token} (h : Run (.nt .selectionSet) ts (.rest r)) : Ex DSelectionSet ts r :=
  selectionSet_sound (ts.length + 1) ts r (Nat.lt_succ_self _) h

/-! ## operations -/

theorem opType_sound {ts r : List Token} (h : Run (.nt .operationType) ts (.rest r)) : Ex DOpType ts r := by
  intro e
  rw [run_nt_iff] at h
  simp only [rule, G.alts, run_alt_rest] at h
  rcases h with h | ⟨-, h | ⟨-, h⟩⟩
  · obtain ⟨e', hk⟩ := kw_of_run h e; exact ⟨_, _, .query hk⟩
  · obtain ⟨e', hk⟩ := kw_of_run h e; exact ⟨_, _, .mutation hk⟩
  · obtain ⟨e', hk⟩ := kw_of_run h e; exact ⟨_, _, .subscription hk⟩

theorem default_sound {ts r : List Token} (h : Run (.optIf (.kind .equals) (.nt .defaultValue)) ts (.rest r)) :
    Ex DDefault ts r := by
  intro e
  rcases run_optIf_rest.mp h with ⟨hc, h⟩ | ⟨hc, rfl⟩
  · rw [run_nt_iff] at h
    simp only [rule, run_seq_rest] at h
    obtain ⟨r1, h1, h2⟩ := h
    obtain ⟨q, hq⟩ := tok_of_run h1 e
    obtain ⟨v, e2, hv⟩ := value_snd' true h2 q.stop
    exact ⟨_, _, .some hq hv⟩
  · exact ⟨none, e, .none (kind_of_not_holds (by decide) hc)⟩

theorem varDef_sound {ts r : List Token} (h : Run (.nt .variableDefinition) ts (.rest r)) : Ex DVarDef ts r := by
  intro e
  rw [run_nt_iff] at h
  simp only [rule, G.seqs, run_seq_rest] at h
  obtain ⟨r1, h1, r2, h2, r3, h3, h4⟩ := h
  obtain ⟨⟨n, vl⟩, e1, hv⟩ := var_sound h1 e
  obtain ⟨cl, hc⟩ := tok_of_run h2 e1
  obtain ⟨t, e3, ht⟩ := type_snd' h3 cl.stop
  obtain ⟨d, e4, hd⟩ := default_sound h4 e3
  exact ⟨_, _, .mk hv hc ht hd⟩

theorem varDefs_sound {ts r : List Token} (h : Run (.optIf (.kind .parenL) (.nt .variableDefinitions)) ts (.rest r)) :
    Ex DVarDefs ts r := by
  intro e
  rcases run_optIf_rest.mp h with ⟨hc, h⟩ | ⟨hc, rfl⟩
  · rw [run_nt_iff] at h
    simp only [rule, G.seqs, run_seq_rest] at h
    obtain ⟨r1, h1, r2, h2, h3⟩ := h
    obtain ⟨o, ho⟩ := tok_of_run h1 e
    obtain ⟨xs, e2, hxs, hne⟩ := plus_many (fun _ _ => varDef_sound) (fun _ _ _ => dvarDef_lt) h2 o.stop
    obtain ⟨cl, hcl⟩ := tok_of_run h3 e2
    exact ⟨_, _, .some ho hxs hne hcl⟩
  · exact ⟨[], e, .none (kind_of_not_holds (by decide) hc)⟩

theorem optName_sound {ts r : List Token} (h : Run (.opt (.tok .name)) ts (.rest r)) : Ex DOptName ts r := by
  intro e
  rcases run_opt_rest.mp h with h | ⟨hno, rfl⟩
  · obtain ⟨n, e1, hn⟩ := dname_of_run h e
    exact ⟨_, _, .some hn⟩
  · exact ⟨none, e, .none (kind_ne_of_tok_no (by decide) hno e)⟩

/-! ## type system -/

theorem description_sound {ts r : List Token} (h : Run (.opt (.nt .description)) ts (.rest r)) : Ex DDescription ts r := by
  intro e
  rcases run_opt_rest.mp h with h | ⟨hno, rfl⟩
  · rw [run_nt_iff] at h
    simp only [rule, run_alt_rest] at h
    rcases h with h | ⟨-, h⟩
    · obtain ⟨t, ht⟩ := tok_of_run h e; exact ⟨_, _, .string ht⟩
    · obtain ⟨t, ht⟩ := tok_of_run h e; exact ⟨_, _, .blockString ht⟩
  · rw [run_nt_iff] at hno
    simp only [rule, run_alt_no] at hno
    exact ⟨none, e, .none (kind_ne_of_tok_no (by decide) hno.1 e) (kind_ne_of_tok_no (by decide) hno.2 e)⟩

theorem opTypeDef_sound {ts r : List Token} (h : Run (.nt .operationTypeDefinition) ts (.rest r)) : Ex DOpTypeDef ts r := by
  intro e
  rw [run_nt_iff] at h
  simp only [rule, G.seqs, run_seq_rest] at h
  obtain ⟨r1, h1, r2, h2, h3⟩ := h
  obtain ⟨op, e1, ho⟩ := opType_sound h1 e
  obtain ⟨cl, hc⟩ := tok_of_run h2 e1
  obtain ⟨t, e3, ht⟩ := namedType_sound h3 cl.stop
  exact ⟨_, _, .mk ho hc ht⟩

theorem implements_sound {ts r : List Token} (h : Run (.optIf (.kw "implements") (.nt .implementsInterfaces)) ts (.rest r)) :
    Ex DImplements ts r := by
  intro e
  rcases run_optIf_rest.mp h with ⟨hc, h⟩ | ⟨hc, rfl⟩
  · rw [run_nt_iff] at h
    simp only [rule, G.seqs, run_seq_rest] at h
    obtain ⟨r1, h1, r2, h2, h3⟩ := h
    obtain ⟨e1, hk⟩ := kw_of_run h1 e
    have h3' : Run (.seq (.nt .namedType) (.starIf (.kind .amp) (.seq (.tok .amp) (.nt .namedType)))) r2 (.rest r) := by
      obtain ⟨q, g1, g2⟩ := h3
      exact .seq_ok g1 g2
    rcases run_opt_rest.mp h2 with ha | ⟨hno, rfl⟩
    · obtain ⟨a, hA⟩ := tok_of_run ha e1
      obtain ⟨xs, e3, hxs⟩ := sepBy_sound (by decide) (fun _ _ => namedType_sound) h3' a.stop
      exact ⟨_, _, .leadingAmp hk hA hxs⟩
    · obtain ⟨xs, e3, hxs⟩ := sepBy_sound (by decide) (fun _ _ => namedType_sound) h3' e1
      exact ⟨_, _, .plain hk (kind_ne_of_tok_no (by decide) hno e1) hxs⟩
  · exact ⟨[], e, .none (not_isName_of_not_holds hc)⟩

theorem inputValueDef_sound {ts r : List Token} (h : Run (.nt .inputValueDefinition) ts (.rest r)) : Ex DInputValueDef ts r := by
  intro e
  rw [run_nt_iff] at h
  simp only [rule, G.seqs, run_seq_rest] at h
  obtain ⟨r1, h1, r2, h2, r3, h3, r4, h4, r5, h5, h6⟩ := h
  obtain ⟨desc, e1, hde⟩ := description_sound h1 e
  obtain ⟨n, e2, hn⟩ := dname_of_run h2 e1
  obtain ⟨cl, hc⟩ := tok_of_run h3 e2
  obtain ⟨t, e4, ht⟩ := type_snd' h4 cl.stop
  obtain ⟨d, e5, hd⟩ := default_sound h5 e4
  obtain ⟨dirs, e6, hdirs⟩ := directives_sound h6 e5
  exact ⟨_, _, .mk hde hn hc ht hd hdirs⟩

theorem argumentDefs_sound {ts r : List Token} (h : Run (.optIf (.kind .parenL) (.nt .argumentsDefinition)) ts (.rest r)) :
    Ex DArgumentDefs ts r := by
  intro e
  rcases run_optIf_rest.mp h with ⟨hc, h⟩ | ⟨hc, rfl⟩
  · rw [run_nt_iff] at h
    simp only [rule, G.seqs, run_seq_rest] at h
    obtain ⟨r1, h1, r2, h2, h3⟩ := h
    obtain ⟨o, ho⟩ := tok_of_run h1 e
    obtain ⟨xs, e2, hxs, hne⟩ := plus_many (fun _ _ => inputValueDef_sound) (fun _ _ _ => dinputValueDef_lt) h2 o.stop
    obtain ⟨cl, hcl⟩ := tok_of_run h3 e2
    exact ⟨_, _, .some ho hxs hne hcl⟩
  · exact ⟨[], e, .none (kind_of_not_holds (by decide) hc)⟩

theorem fieldDef_sound {ts r : List Token} (h : Run (.nt .fieldDefinition) ts (.rest r)) : Ex DFieldDef ts r := by
  intro e
  rw [run_nt_iff] at h
  simp only [rule, G.seqs, run_seq_rest] at h
  obtain ⟨r1, h1, r2, h2, r3, h3, r4, h4, r5, h5, h6⟩ := h
  obtain ⟨desc, e1, hde⟩ := description_sound h1 e
  obtain ⟨n, e2, hn⟩ := dname_of_run h2 e1
  obtain ⟨args, e3, ha⟩ := argumentDefs_sound h3 e2
  obtain ⟨cl, hc⟩ := tok_of_run h4 e3
  obtain ⟨t, e5, ht⟩ := type_snd' h5 cl.stop
  obtain ⟨dirs, e6, hdirs⟩ := directives_sound h6 e5
  exact ⟨_, _, .mk hde hn ha hc ht hdirs⟩

theorem enumValueDef_sound {ts r : List Token} (h : Run (.nt .enumValueDefinition) ts (.rest r)) : Ex DEnumValueDef ts r := by
  intro e
  rw [run_nt_iff] at h
  simp only [rule, G.seqs, run_seq_rest] at h
  obtain ⟨r1, h1, r2, h2, h3⟩ := h
  obtain ⟨desc, e1, hde⟩ := description_sound h1 e
  obtain ⟨n, e2, hn⟩ := dname_of_run h2 e1
  obtain ⟨dirs, e3, hdirs⟩ := directives_sound h3 e2
  exact ⟨_, _, .mk hde hn hdirs⟩

theorem braced_sound {α} {D : Pos → α → Pos → Prop} {g : G} (hitem : ∀ ts r, Run g ts (.rest r) → Ex D ts r)
    (hlt : ∀ p x p', D p x p' → p'.ts.length < p.ts.length) {ts r : List Token}
    (h : Run (G.seqs [.tok .braceL, .star g, .tok .braceR]) ts (.rest r)) : Ex (Braced D) ts r := by
  intro e
  simp only [G.seqs, run_seq_rest] at h
  obtain ⟨r1, h1, r2, h2, h3⟩ := h
  obtain ⟨o, ho⟩ := tok_of_run h1 e
  obtain ⟨xs, e2, hxs⟩ := star_many' hitem hlt h2 o.stop
  obtain ⟨cl, hcl⟩ := tok_of_run h3 e2
  exact ⟨_, _, .mk ho hxs hcl⟩

theorem objectDef_sound {ts r : List Token} (h : Run (.nt .objectTypeDefinition) ts (.rest r)) : Ex DObjectDef ts r := by
  intro e
  rw [run_nt_iff] at h
  simp only [rule, G.seqs, run_seq_rest] at h
  obtain ⟨r1, h1, r2, h2, r3, h3, r4, h4, r5, h5, r6, h6, r7, h7, h8⟩ := h
  obtain ⟨desc, e1, hde⟩ := description_sound h1 e
  obtain ⟨e2, hk⟩ := kw_of_run h2 e1
  obtain ⟨n, e3, hn⟩ := dname_of_run h3 e2
  obtain ⟨ifs, e4, hi⟩ := implements_sound h4 e3
  obtain ⟨dirs, e5, hd⟩ := directives_sound h5 e4
  have hb : Run (G.seqs [.tok .braceL, .star (.nt .fieldDefinition), .tok .braceR]) r5 (.rest r) :=
    .seq_ok h6 (.seq_ok h7 h8)
  obtain ⟨fs, e6, hfs⟩ := braced_sound (fun _ _ => fieldDef_sound) (fun _ _ _ => dfieldDef_lt) hb e5
  exact ⟨_, _, .mk hde hk hn hi hd hfs⟩

/-! ## definitions, document -/

theorem tsd_sound {ts r : List Token} (h : Run (.nt .typeSystemDefinition) ts (.rest r)) : Ex DDefinition ts r := by
  intro e
  rw [run_nt_iff] at h
  simp only [rule, G.alts, run_alt_rest] at h
  rcases h with h | ⟨-, h | ⟨-, h | ⟨-, h | ⟨-, h | ⟨-, h | ⟨-, h | ⟨-, h | ⟨-, h⟩⟩⟩⟩⟩⟩⟩⟩
  · -- schema
    rw [run_nt_iff] at h
    simp only [rule, G.seqs, run_seq_rest] at h
    obtain ⟨r1, h1, r2, h2, r3, h3, r4, h4, h5⟩ := h
    obtain ⟨e1, hk⟩ := kw_of_run h1 e
    obtain ⟨dirs, e2, hd⟩ := directives_sound h2 e1
    obtain ⟨o, ho⟩ := tok_of_run h3 e2
    obtain ⟨ops, e4, hops, hne⟩ := plus_many (fun _ _ => opTypeDef_sound) (fun _ _ _ => dopTypeDef_lt) h4 o.stop
    obtain ⟨cl, hcl⟩ := tok_of_run h5 e4
    exact ⟨_, _, .schema hk hd ho hops hne hcl⟩
  · -- scalar
    rw [run_nt_iff] at h
    simp only [rule, G.seqs, run_seq_rest] at h
    obtain ⟨r1, h1, r2, h2, r3, h3, h4⟩ := h
    obtain ⟨desc, e1, hde⟩ := description_sound h1 e
    obtain ⟨e2, hk⟩ := kw_of_run h2 e1
    obtain ⟨n, e3, hn⟩ := dname_of_run h3 e2
    obtain ⟨dirs, e4, hd⟩ := directives_sound h4 e3
    exact ⟨_, _, .scalar hde hk hn hd⟩
  · -- object
    obtain ⟨d, e1, hd⟩ := objectDef_sound h e
    exact ⟨_, _, .object hd⟩
  · -- interface
    rw [run_nt_iff] at h
    simp only [rule, G.seqs, run_seq_rest] at h
    obtain ⟨r1, h1, r2, h2, r3, h3, r4, h4, r5, h5, r6, h6, h7⟩ := h
    obtain ⟨desc, e1, hde⟩ := description_sound h1 e
    obtain ⟨e2, hk⟩ := kw_of_run h2 e1
    obtain ⟨n, e3, hn⟩ := dname_of_run h3 e2
    obtain ⟨dirs, e4, hd⟩ := directives_sound h4 e3
    have hb : Run (G.seqs [.tok .braceL, .star (.nt .fieldDefinition), .tok .braceR]) r4 (.rest r) :=
      .seq_ok h5 (.seq_ok h6 h7)
    obtain ⟨fs, e5, hfs⟩ := braced_sound (fun _ _ => fieldDef_sound) (fun _ _ _ => dfieldDef_lt) hb e4
    exact ⟨_, _, .interface hde hk hn hd hfs⟩
  · -- union
    rw [run_nt_iff] at h
    simp only [rule, G.seqs, run_seq_rest] at h
    obtain ⟨r1, h1, r2, h2, r3, h3, r4, h4, r5, h5, h6⟩ := h
    obtain ⟨desc, e1, hde⟩ := description_sound h1 e
    obtain ⟨e2, hk⟩ := kw_of_run h2 e1
    obtain ⟨n, e3, hn⟩ := dname_of_run h3 e2
    obtain ⟨dirs, e4, hd⟩ := directives_sound h4 e3
    obtain ⟨q, hq⟩ := tok_of_run h5 e4
    rw [run_nt_iff] at h6
    obtain ⟨ms, e6, hms⟩ := sepBy_sound (by decide) (fun _ _ => namedType_sound) h6 q.stop
    exact ⟨_, _, .union hde hk hn hd hq hms⟩
  · -- enum
    rw [run_nt_iff] at h
    simp only [rule, G.seqs, run_seq_rest] at h
    obtain ⟨r1, h1, r2, h2, r3, h3, r4, h4, r5, h5, r6, h6, h7⟩ := h
    obtain ⟨desc, e1, hde⟩ := description_sound h1 e
    obtain ⟨e2, hk⟩ := kw_of_run h2 e1
    obtain ⟨n, e3, hn⟩ := dname_of_run h3 e2
    obtain ⟨dirs, e4, hd⟩ := directives_sound h4 e3
    have hb : Run (G.seqs [.tok .braceL, .star (.nt .enumValueDefinition), .tok .braceR]) r4 (.rest r) :=
      .seq_ok h5 (.seq_ok h6 h7)
    obtain ⟨vs, e5, hvs⟩ := braced_sound (fun _ _ => enumValueDef_sound) (fun _ _ _ => denumValueDef_lt) hb e4
    exact ⟨_, _, .enum hde hk hn hd hvs⟩
  · -- input object
    rw [run_nt_iff] at h
    simp only [rule, G.seqs, run_seq_rest] at h
    obtain ⟨r1, h1, r2, h2, r3, h3, r4, h4, r5, h5, r6, h6, h7⟩ := h
    obtain ⟨desc, e1, hde⟩ := description_sound h1 e
    obtain ⟨e2, hk⟩ := kw_of_run h2 e1
    obtain ⟨n, e3, hn⟩ := dname_of_run h3 e2
    obtain ⟨dirs, e4, hd⟩ := directives_sound h4 e3
    have hb : Run (G.seqs [.tok .braceL, .star (.nt .inputValueDefinition), .tok .braceR]) r4 (.rest r) :=
      .seq_ok h5 (.seq_ok h6 h7)
    obtain ⟨fs, e5, hfs⟩ := braced_sound (fun _ _ => inputValueDef_sound) (fun _ _ _ => dinputValueDef_lt) hb e4
    exact ⟨_, _, .inputObject hde hk hn hd hfs⟩
  · -- extend
    rw [run_nt_iff] at h
    simp only [rule, run_seq_rest] at h
    obtain ⟨r1, h1, h2⟩ := h
    obtain ⟨e1, hk⟩ := kw_of_run h1 e
    obtain ⟨d, e2, hd⟩ := objectDef_sound h2 e1
    exact ⟨_, _, .extend hk hd⟩
  · -- directive
    rw [run_nt_iff] at h
    simp only [rule, G.seqs, run_seq_rest] at h
    obtain ⟨r1, h1, r2, h2, r3, h3, r4, h4, r5, h5, r6, h6, h7⟩ := h
    obtain ⟨desc, e1, hde⟩ := description_sound h1 e
    obtain ⟨e2, hk⟩ := kw_of_run h2 e1
    obtain ⟨a, ha⟩ := tok_of_run h3 e2
    obtain ⟨n, e4, hn⟩ := dname_of_run h4 a.stop
    obtain ⟨args, e5, hargs⟩ := argumentDefs_sound h5 e4
    obtain ⟨e6, hk2⟩ := kw_of_run h6 e5
    rw [run_nt_iff] at h7
    obtain ⟨locs, e7, hlocs⟩ := sepBy_sound (by decide) (fun _ _ => dname_of_run) h7 e6
    exact ⟨_, _, .directive hde hk ha hn hargs hk2 hlocs⟩

theorem definition_sound {ts r : List Token} (h : Run (.nt .definition) ts (.rest r)) : Ex DDefinition ts r := by
  intro e
  rw [run_nt_iff] at h
  simp only [rule, G.alts, run_alt_rest] at h
  rcases h with h | ⟨-, h | ⟨-, h⟩⟩
  · -- OperationDefinition
    rw [run_nt_iff] at h
    simp only [rule, run_alt_rest] at h
    rcases h with h | ⟨-, h⟩
    · obtain ⟨s, e1, hs⟩ := selectionSet_snd' h e
      exact ⟨_, _, .query hs⟩
    · simp only [G.seqs, run_seq_rest] at h
      obtain ⟨r1, h1, r2, h2, r3, h3, r4, h4, h5⟩ := h
      obtain ⟨op, e1, ho⟩ := opType_sound h1 e
      obtain ⟨n, e2, hn⟩ := optName_sound h2 e1
      obtain ⟨vs, e3, hv⟩ := varDefs_sound h3 e2
      obtain ⟨dirs, e4, hd⟩ := directives_sound h4 e3
      obtain ⟨s, e5, hs⟩ := selectionSet_snd' h5 e4
      exact ⟨_, _, .operation ho hn hv hd hs⟩
  · -- FragmentDefinition
    rw [run_nt_iff] at h
    simp only [rule, G.seqs, run_seq_rest] at h
    obtain ⟨r1, h1, r2, h2, r3, h3, r4, h4, h5⟩ := h
    obtain ⟨e1, hk⟩ := kw_of_run h1 e
    obtain ⟨n, e2, hn⟩ := fragmentName_sound h2 e1
    obtain ⟨tc, e3, -, ea, ra, eb, hon, hnt, rfl⟩ := typeCondition_sound h3 e2
    obtain ⟨dirs, e4, hd⟩ := directives_sound h4 eb
    obtain ⟨s, e5, hs⟩ := selectionSet_snd' h5 e4
    exact ⟨_, _, .fragment hk hn hon hnt hd hs⟩
  · exact tsd_sound h e

/-- **recogniser soundness** (big-step form) -/
theorem run_derivesDoc {toks : List Token} (eofPos : Nat) (h : Run (.nt .document) toks (.rest [])) :
    ∃ d, DerivesDoc toks eofPos d := by
  rw [run_nt_iff] at h
  obtain ⟨defs, e, hM, hne⟩ := plus_many (fun _ _ => definition_sound) (fun _ _ _ => ddefinition_lt) h 0
  exact ⟨_, .mk hM hne⟩

end GqlModel.Grammar
