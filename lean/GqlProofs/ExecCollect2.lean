import GqlProofs.ExecCollect
/-! # CollectFields: helper lemmas for C01 (part 2: the DFS closure argument — completeness, fuel)

`collect` explores the fragment graph depth first with a visited set.  Completeness does not follow by
induction on a derivation of `Occurs` directly (a fragment met for the second time is skipped); the
argument is the usual closure one:

* `unvisited c vis` = number of fragment definitions whose name is not in `vis`; marking a new defined name
  decreases it, so `expandSpread` with `unvisited c vis < fuel` never runs out of fuel;
* `Direct` / `DirectSpread`: the field nodes / spread names of a selection list reachable through included,
  applicable inline fragments only (no spread is followed);
* a call from `a` to `b` (i) is monotone, (ii) *covers* the list it processes — its direct nodes are stored in
  `b`, its direct defined spreads are visited in `b` —, (iii) *closes* every name it newly visits: the body of
  that fragment is covered by `b`;
* from `visited = []` everything visited is closed, hence (induction on `Occurs`) every occurring node is stored. -/
namespace GqlModel.Exec

/-! ## the measure -/

theorem frag?_some_mem {c : Ctx} {n : String} {x : TypeRef × SelectionSet} (h : c.frag? n = some x) :
    n ∈ c.frags.map (·.1) := by
  unfold Ctx.frag? at h
  split at h
  · rename_i hl
    have hm := List.mem_of_getLast? hl
    rw [List.mem_filter] at hm
    exact List.mem_map.2 ⟨_, hm.1, by simpa using hm.2⟩
  · cases h

theorem unvisited_le_length (c : Ctx) (vis : List String) : unvisited c vis ≤ c.frags.length := by
  unfold unvisited
  exact Nat.le_trans List.countP_le_length (by simp)

theorem unvisited_nil_lt_fragFuel (c : Ctx) : unvisited c [] < c.fragFuel := by
  have := unvisited_le_length c []
  unfold Ctx.fragFuel; omega

theorem unvisited_mono (c : Ctx) {vis vis' : List String} (h : ∀ n ∈ vis, n ∈ vis') :
    unvisited c vis' ≤ unvisited c vis := by
  unfold unvisited
  apply List.countP_mono_left
  intro x _ hx
  simp only [Bool.not_eq_true', ← Bool.not_eq_true, List.contains_iff_mem] at hx ⊢
  exact fun hm => hx (h x hm)

theorem countP_lt_of_mem {α : Type} {p q : α → Bool} (hpq : ∀ x, p x = true → q x = true) {a : α}
    (hq : q a = true) (hp : p a = false) : ∀ {l : List α}, a ∈ l → l.countP p < l.countP q
  | x :: l, hm => by
    rcases List.mem_cons.1 hm with rfl | hm
    · have := List.countP_mono_left (l := l) (fun x _ => hpq x)
      rw [List.countP_cons_of_neg (by simp [hp]), List.countP_cons_of_pos hq]
      omega
    · have ih := countP_lt_of_mem hpq hq hp hm
      by_cases hx : p x = true
      · rw [List.countP_cons_of_pos hx, List.countP_cons_of_pos (hpq x hx)]; omega
      · rw [List.countP_cons_of_neg hx]
        by_cases hx' : q x = true
        · rw [List.countP_cons_of_pos hx']; omega
        · rw [List.countP_cons_of_neg hx']; exact ih

/-- marking a NEW defined name strictly decreases the measure -/
theorem unvisited_cons_lt (c : Ctx) {vis : List String} {n : String} (hd : n ∈ c.frags.map (·.1)) (hn : n ∉ vis) :
    unvisited c (n :: vis) < unvisited c vis := by
  unfold unvisited
  apply countP_lt_of_mem (a := n) _ _ _ hd
  · intro x hx
    simp only [Bool.not_eq_true', ← Bool.not_eq_true, List.contains_iff_mem] at hx ⊢
    exact fun hm => hx (List.mem_cons_of_mem _ hm)
  · simpa [← Bool.not_eq_true, List.contains_iff_mem] using hn
  · simp

theorem Mono.unvisited_le {c : Ctx} {a b : Groups × List String} (h : Mono a b) :
    unvisited c b.2 ≤ unvisited c a.2 := unvisited_mono c h.2

/-! ## direct occurrences -/

inductive Direct (c : Ctx) (rt : String) : List Selection → FieldNode → Prop
  | field {sels alias name args dirs sel loc} :
      Selection.field alias name args dirs sel loc ∈ sels →
      included c.schema c.vars dirs = true →
      Direct c rt sels (mkNode alias name args sel loc)
  | inline {sels tc dirs inner l1 l2 f} :
      Selection.inline tc dirs (.mk inner l1) l2 ∈ sels →
      included c.schema c.vars dirs = true →
      condApplies c.schema tc rt = true →
      Direct c rt inner f →
      Direct c rt sels f

inductive DirectSpread (c : Ctx) (rt : String) : List Selection → String → Prop
  | spread {sels name dirs l} :
      Selection.spread name dirs l ∈ sels →
      included c.schema c.vars dirs = true →
      DirectSpread c rt sels name.value
  | inline {sels tc dirs inner l1 l2 n} :
      Selection.inline tc dirs (.mk inner l1) l2 ∈ sels →
      included c.schema c.vars dirs = true →
      condApplies c.schema tc rt = true →
      DirectSpread c rt inner n →
      DirectSpread c rt sels n

section closure
variable (c : Ctx) (rt : String)

/-- the accumulator covers a selection list: direct nodes stored, direct DEFINED spreads visited -/
def Covered (a : Groups × List String) (sels : List Selection) : Prop :=
  (∀ f, Direct c rt sels f → Stored a.1 f) ∧
  (∀ n, DirectSpread c rt sels n → (c.frag? n).isSome = true → n ∈ a.2)

/-- the fragment `F` is closed in the accumulator: if it applies, its body is covered -/
def ClosedName (a : Groups × List String) (F : String) : Prop :=
  ∀ tc body l, c.frag? F = some (tc, .mk body l) → condApplies c.schema (some tc) rt = true → Covered c rt a body

/-- what one call achieves -/
def Good (a b : Groups × List String) : Prop := Mono a b ∧ ∀ F ∈ b.2, F ∉ a.2 → ClosedName c rt b F

/-- `expand` is good on every accumulator within budget `m` -/
def GoodExp (m : Nat) (expand : String → Groups × List String → Groups × List String) : Prop :=
  ∀ n a, unvisited c a.2 ≤ m →
    Good c rt a (expand n a) ∧ ((c.frag? n).isSome = true → n ∈ (expand n a).2)

variable {c rt}

theorem Covered.mono {a b : Groups × List String} {sels : List Selection} (h : Covered c rt a sels) (hm : Mono a b) :
    Covered c rt b sels :=
  ⟨fun f hf => hm.1 f (h.1 f hf), fun n hn hs => hm.2 n (h.2 n hn hs)⟩

theorem ClosedName.mono {a b : Groups × List String} {F : String} (h : ClosedName c rt a F) (hm : Mono a b) :
    ClosedName c rt b F := fun tc body l hf hc => (h tc body l hf hc).mono hm

theorem Good.refl (a : Groups × List String) : Good c rt a a := ⟨Mono.refl a, fun _ h h' => absurd h h'⟩

theorem Good.trans {a b d : Groups × List String} (h1 : Good c rt a b) (h2 : Good c rt b d) : Good c rt a d := by
  refine ⟨h1.1.trans h2.1, fun F hF hFa => ?_⟩
  by_cases hb : F ∈ b.2
  · exact (h1.2 F hb hFa).mono h2.1
  · exact h2.2 F hF hb

theorem covered_nil (a : Groups × List String) : Covered c rt a [] := by
  constructor
  · intro f hf
    cases hf with
    | field hm _ => cases hm
    | inline hm _ _ _ => cases hm
  · intro n hn
    cases hn with
    | spread hm _ => cases hm
    | inline hm _ _ _ => cases hm

theorem covered_cons {a : Groups × List String} {s : Selection} {rest : List Selection}
    (h1 : Covered c rt a [s]) (h2 : Covered c rt a rest) : Covered c rt a (s :: rest) := by
  constructor
  · intro f hf
    cases hf with
    | field hm hi =>
      rcases List.mem_cons.1 hm with rfl | hm
      · exact h1.1 _ (.field (List.mem_singleton.2 rfl) hi)
      · exact h2.1 _ (.field hm hi)
    | inline hm hi hc hd =>
      rcases List.mem_cons.1 hm with rfl | hm
      · exact h1.1 _ (.inline (List.mem_singleton.2 rfl) hi hc hd)
      · exact h2.1 _ (.inline hm hi hc hd)
  · intro n hn
    cases hn with
    | spread hm hi =>
      rcases List.mem_cons.1 hm with rfl | hm
      · exact h1.2 _ (.spread (List.mem_singleton.2 rfl) hi)
      · exact h2.2 _ (.spread hm hi)
    | inline hm hi hc hd =>
      rcases List.mem_cons.1 hm with rfl | hm
      · exact h1.2 _ (.inline (List.mem_singleton.2 rfl) hi hc hd)
      · exact h2.2 _ (.inline hm hi hc hd)

/-- a field selection: covered as soon as (when included) its node is stored -/
theorem covered_field {a : Groups × List String} {alias name args dirs sel loc}
    (h : included c.schema c.vars dirs = true → Stored a.1 (mkNode alias name args sel loc)) :
    Covered c rt a [Selection.field alias name args dirs sel loc] := by
  constructor
  · intro f hf
    cases hf with
    | field hm hi =>
      have he := List.mem_singleton.1 hm
      injection he with e1 e2 e3 e4 e5 e6
      subst e1 e2 e3 e4 e5 e6
      exact h hi
    | inline hm _ _ _ => have he := List.mem_singleton.1 hm; cases he
  · intro n hn
    cases hn with
    | spread hm _ => have he := List.mem_singleton.1 hm; cases he
    | inline hm _ _ _ => have he := List.mem_singleton.1 hm; cases he

theorem covered_inline {a : Groups × List String} {tc dirs inner l1 l2}
    (h : included c.schema c.vars dirs = true → condApplies c.schema tc rt = true → Covered c rt a inner) :
    Covered c rt a [Selection.inline tc dirs (.mk inner l1) l2] := by
  constructor
  · intro f hf
    cases hf with
    | field hm _ => have he := List.mem_singleton.1 hm; cases he
    | inline hm hi hc hd =>
      have he := List.mem_singleton.1 hm
      injection he with e1 e2 e3 e4
      injection e3 with e5 e6
      subst e1 e2 e5
      exact (h hi hc).1 _ hd
  · intro n hn
    cases hn with
    | spread hm _ => have he := List.mem_singleton.1 hm; cases he
    | inline hm hi hc hd =>
      have he := List.mem_singleton.1 hm
      injection he with e1 e2 e3 e4
      injection e3 with e5 e6
      subst e1 e2 e5
      exact (h hi hc).2 _ hd

theorem covered_spread {a : Groups × List String} {name dirs l}
    (h : included c.schema c.vars dirs = true → (c.frag? name.value).isSome = true → name.value ∈ a.2) :
    Covered c rt a [Selection.spread name dirs l] := by
  constructor
  · intro f hf
    cases hf with
    | field hm _ => have he := List.mem_singleton.1 hm; cases he
    | inline hm _ _ _ => have he := List.mem_singleton.1 hm; cases he
  · intro n hn
    cases hn with
    | spread hm hi =>
      have he := List.mem_singleton.1 hm
      injection he with e1 e2 e3
      subst e1 e2
      exact h hi
    | inline hm _ _ _ => have he := List.mem_singleton.1 hm; cases he

variable {expand : String → Groups × List String → Groups × List String} {m : Nat}

mutual
theorem collectSel_good (he : GoodExp c rt m expand) : ∀ (s : Selection) (a : Groups × List String),
    unvisited c a.2 ≤ m →
    Good c rt a (collectSel c rt expand s a) ∧ Covered c rt (collectSel c rt expand s a) [s]
  | .field alias name args dirs sel loc, (g, vis), _ => by
    by_cases hi : included c.schema c.vars dirs = true
    · simp only [collectSel, hi, if_true]
      refine ⟨⟨(Reach.add (Q := fun _ => True) trivial).mono, fun F hF hFa => absurd hF hFa⟩, ?_⟩
      exact covered_field (fun _ => stored_add_self g _)
    · simp only [collectSel, hi]
      exact ⟨Good.refl _, covered_field (fun h => absurd h hi)⟩
  | .inline tc dirs (.mk inner l1) l2, a, hm => by
    by_cases hi : (included c.schema c.vars dirs && condApplies c.schema tc rt) = true
    · simp only [collectSel, hi, if_true, collectSet]
      have h := collectList_good he inner a hm
      exact ⟨h.1, covered_inline (fun _ _ => h.2)⟩
    · simp only [collectSel, hi]
      refine ⟨Good.refl _, covered_inline (fun h1 h2 => absurd ?_ hi)⟩
      simp [h1, h2]
  | .spread name dirs l, a, hm => by
    by_cases hi : included c.schema c.vars dirs = true
    · simp only [collectSel, hi, if_true]
      have h := he name.value a hm
      exact ⟨h.1, covered_spread (fun _ hs => h.2 hs)⟩
    · simp only [collectSel, hi]
      exact ⟨Good.refl _, covered_spread (fun h => absurd h hi)⟩
theorem collectList_good (he : GoodExp c rt m expand) : ∀ (sels : List Selection) (a : Groups × List String),
    unvisited c a.2 ≤ m →
    Good c rt a (collectList c rt expand sels a) ∧ Covered c rt (collectList c rt expand sels a) sels
  | [], a, _ => by simp only [collectList]; exact ⟨Good.refl _, covered_nil _⟩
  | s :: rest, a, hm => by
    simp only [collectList]
    have h1 := collectSel_good he s a hm
    have hm1 : unvisited c (collectSel c rt expand s a).2 ≤ m := Nat.le_trans h1.1.1.unvisited_le hm
    have h2 := collectList_good he rest _ hm1
    exact ⟨h1.1.trans h2.1, covered_cons (h1.2.mono h2.1.1) h2.2⟩
end

/-- `expandSpread` with more fuel than unvisited fragment definitions is good -/
theorem expandSpread_good : ∀ (fuel m : Nat), m < fuel → GoodExp c rt m (expandSpread c rt fuel)
  | 0, _, h => absurd h (Nat.not_lt_zero _)
  | fuel + 1, m, hlt => fun n (g, vis) hm => by
    simp only [expandSpread]
    by_cases hv : vis.contains n = true
    · rw [if_pos hv]
      exact ⟨Good.refl _, fun _ => List.contains_iff_mem.1 hv⟩
    · rw [if_neg hv]
      have hn : n ∉ vis := fun hm => hv (List.contains_iff_mem.2 hm)
      rcases hf : c.frag? n with _ | ⟨tc, ⟨body, l⟩⟩
      · exact ⟨Good.refl _, fun h => by simp at h⟩
      · simp only
        have hlt' : unvisited c (n :: vis) < unvisited c vis := unvisited_cons_lt c (frag?_some_mem hf) hn
        have hmark : Mono (g, vis) (g, n :: vis) := (Reach.mark (Q := fun _ => True) (g := g) hn).mono
        by_cases hc : condApplies c.schema (some tc) rt = true
        · rw [if_pos hc]
          simp only [collectSet]
          have hm' : unvisited c (n :: vis) ≤ m - 1 := by simp only at hm; omega
          have h := collectList_good (expandSpread_good fuel (m - 1) (by simp only at hm; omega)) body (g, n :: vis) hm'
          refine ⟨⟨hmark.trans h.1.1, fun F hF hFa => ?_⟩, fun _ => h.1.1.2 n List.mem_cons_self⟩
          by_cases hFn : F = n
          · subst hFn
            intro tc' body' l' hf' _
            rw [hf] at hf'
            injection hf' with e; injection e with e1 e2; injection e2 with e3 e4
            subst e3
            exact h.2
          · exact h.1.2 F hF (fun hmem => by
              rcases List.mem_cons.1 hmem with h' | h'
              · exact hFn h'
              · exact hFa h')
        · rw [if_neg hc]
          refine ⟨⟨hmark, fun F hF hFa => ?_⟩, fun _ => List.mem_cons_self⟩
          rcases List.mem_cons.1 hF with rfl | h'
          · intro tc' body' l' hf' hc'
            rw [hf] at hf'
            injection hf' with e; injection e with e1 e2
            subst e1
            exact absurd hc' hc
          · exact absurd h' hFa

/-- `collect` from an accumulator within the fuel budget: good, and covers its selection list -/
theorem collect_good (sels : List Selection) (l : Loc) (a : Groups × List String) (h : unvisited c a.2 < c.fragFuel) :
    Good c rt a (collect c rt (.mk sels l) a) ∧ Covered c rt (collect c rt (.mk sels l) a) sels := by
  simp only [collect, collectSet]
  exact collectList_good (expandSpread_good c.fragFuel (c.fragFuel - 1) (by unfold Ctx.fragFuel; omega)) sels a
    (by omega)

/-- everything visited is closed -/
def AllClosed (c : Ctx) (rt : String) (a : Groups × List String) : Prop := ∀ F ∈ a.2, ClosedName c rt a F

theorem Good.allClosed {a b : Groups × List String} (h : Good c rt a b) (ha : AllClosed c rt a) : AllClosed c rt b := by
  intro F hF
  by_cases hFa : F ∈ a.2
  · exact (ha F hFa).mono h.1
  · exact h.2 F hF hFa

/-- the final step: in an all-closed accumulator, covering a list stores everything that occurs in it -/
theorem stored_of_occurs {b : Groups × List String} (hcl : AllClosed c rt b) {sels : List Selection} {f : FieldNode}
    (ho : Occurs c rt sels f) : Covered c rt b sels → Stored b.1 f := by
  induction ho with
  | field hm hi => exact fun hc => hc.1 _ (.field hm hi)
  | inline hm hi hc _ ih =>
    exact fun hcov => ih ⟨fun f hf => hcov.1 f (.inline hm hi hc hf), fun n hn => hcov.2 n (.inline hm hi hc hn)⟩
  | spread hm hi hf hc _ ih =>
    exact fun hcov => ih (hcl _ (hcov.2 _ (.spread hm hi) (by simp [hf])) _ _ _ hf hc)

end closure

end GqlModel.Exec
