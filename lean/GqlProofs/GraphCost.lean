import GqlModel.GraphCost
import GqlProofs.ValidateCycles
/-! # C19: the step counters of `GqlModel/GraphCost.lean` — erasure (the twins ARE the modelled algorithms) and bounds -/
namespace GqlModel.Validate.Graph
open GqlModel.Validate

/-! ## `FragmentSpreads` -/

theorem fsLoopC_erase : ∀ (fuel : Nat) (stk : List SelectionSet) (acc : List Spread) (n : Nat),
    (fsLoopC fuel stk acc n).1 = fsLoop fuel stk acc
  | _, [], acc, n => by cases ‹Nat› <;> simp [fsLoopC, fsLoop]
  | 0, _ :: _, acc, n => by simp [fsLoopC, fsLoop]
  | fuel + 1, ss :: stk, acc, n => by
    simp only [fsLoopC, fsLoop]
    exact fsLoopC_erase fuel _ _ _

/-- sets and selections still to be visited for the stack -/
def wtN : List SelectionSet → Nat
  | [] => 0
  | s :: stk => setsSet s + selsSet s + wtN stk

def pendLen : List SelectionSet → Nat
  | [] => 0
  | s :: stk => nSpreadsSet s + pendLen stk

theorem fsScan_count (sels : List Selection) (acc : List Spread) (stk : List SelectionSet) :
    wtN (fsScan sels acc stk).2 + sels.length = wtN stk + setsSels sels + selsSels sels ∧
    (fsScan sels acc stk).1.length + pendLen (fsScan sels acc stk).2 =
      acc.length + pendLen stk + (spreadsSels sels).length := by
  induction sels generalizing acc stk with
  | nil => simp [fsScan, setsSels, selsSels, spreadsSels]
  | cons sel rest ih =>
    cases sel with
    | spread n ds l =>
      have := ih (acc ++ [⟨n.value, l⟩]) stk
      simp only [fsScan, setsSels, setsSel, selsSels, selsSel, spreadsSels, spreadsSel, List.length_cons,
        List.length_append, List.length_nil] at this ⊢
      omega
    | field a n args ds sel l =>
      cases sel with
      | none =>
        have := ih acc stk
        simp only [fsScan, setsSels, setsSel, setsOpt, selsSels, selsSel, selsOpt, spreadsSels, spreadsSel, spreadsOpt,
          List.length_cons, List.nil_append] at this ⊢
        omega
      | some ss =>
        have := ih acc (ss :: stk)
        simp only [fsScan, setsSels, setsSel, setsOpt, selsSels, selsSel, selsOpt, spreadsSels, spreadsSel, spreadsOpt,
          List.length_cons, List.length_append, wtN, pendLen, nSpreadsSet] at this ⊢
        omega
    | inline tc ds ss l =>
      have := ih acc (ss :: stk)
      simp only [fsScan, setsSels, setsSel, selsSels, selsSel, spreadsSels, spreadsSel,
        List.length_cons, List.length_append, wtN, pendLen, nSpreadsSet] at this ⊢
      omega

theorem wt_le_wtN (stk : List SelectionSet) : wt stk ≤ wtN stk := by
  induction stk with
  | nil => simp [wt, wtN]
  | cons s stk ih => simp only [wt, wtN]; omega

theorem fsLoopC_count (fuel : Nat) (stk : List SelectionSet) (acc : List Spread) (n : Nat) (h : wt stk ≤ fuel) :
    (fsLoopC fuel stk acc n).2 = n + wtN stk ∧
    (fsLoopC fuel stk acc n).1.1.length = acc.length + pendLen stk := by
  induction fuel generalizing stk acc n with
  | zero =>
    cases stk with
    | nil => simp [fsLoopC, wtN, pendLen]
    | cons s stk =>
      exfalso
      cases s with
      | mk sels l => simp [wt, setsSet] at h
  | succ fuel ih =>
    cases stk with
    | nil => simp [fsLoopC, wtN, pendLen]
    | cons s stk =>
      cases s with
      | mk sels l =>
        have hs := fsScan_spec sels acc stk
        have hc := fsScan_count sels acc stk
        have hw : wt (fsScan sels acc stk).2 ≤ fuel := by
          rw [hs.1]; simp [wt, setsSet] at h; omega
        have := ih (fsScan sels acc stk).2 (fsScan sels acc stk).1 (n + 1 + sels.length) hw
        simp only [fsLoopC, SelectionSet.sels]
        rw [this.1, this.2]
        simp only [wtN, pendLen, setsSet, selsSet, nSpreadsSet, spreadsSet]
        omega

/-- one uncached `FragmentSpreads(ss)` pops every selection set at or below `ss` once and scans every selection once -/
theorem fsSteps_eq (ss : SelectionSet) : fsSteps ss = setsSet ss + selsSet ss := by
  have := (fsLoopC_count (setsSet ss) [ss] [] 0 (by simp [wt])).1
  simpa [fsSteps, wtN] using this

theorem fragmentSpreads_length (ss : SelectionSet) : (fragmentSpreads ss).length = nSpreadsSet ss := by
  have h := (fsLoopC_count (setsSet ss) [ss] [] 0 (by simp [wt])).2
  rw [fsLoopC_erase] at h
  simpa [fragmentSpreads, fragmentSpreadsF, pendLen] using h

/-! ## `RecursivelyReferencedFragments` -/

theorem rrfLoopC_erase (tbl : List Frag) (fsCost : SelectionSet → Nat) :
    ∀ (fuel : Nat) (stk : List SelectionSet) (col : List String) (frs : List Frag) (n : Nat),
    (rrfLoopC tbl fsCost fuel stk col frs n).1 = rrfLoop tbl fuel stk col frs
  | _, [], col, frs, n => by cases ‹Nat› <;> simp [rrfLoopC, rrfLoop]
  | 0, _ :: _, col, frs, n => by simp [rrfLoopC, rrfLoop]
  | fuel + 1, ss :: stk, col, frs, n => by
    simp only [rrfLoopC, rrfLoop]
    exact rrfLoopC_erase tbl fsCost fuel _ _ _ _

/-- what one scan of a node's spreads does to the three accumulators -/
theorem rrfScan_shape (tbl : List Frag) : ∀ (sps : List Spread) (col : List String) (frs : List Frag)
    (stk : List SelectionSet),
    ∃ added : List Frag,
      (rrfScan tbl sps col frs stk).2.1 = frs ++ added ∧
      (rrfScan tbl sps col frs stk).2.2 = (added.map (·.sel)).reverse ++ stk ∧
      added.length + unc (fragNames tbl) (rrfScan tbl sps col frs stk).1 ≤ unc (fragNames tbl) col ∧
      ∀ f, f ∈ added → f ∈ tbl
  | [], col, frs, stk => ⟨[], by simp [rrfScan]⟩
  | sp :: rest, col, frs, stk => by
    simp only [rrfScan]
    split
    · exact rrfScan_shape tbl rest col frs stk
    · rename_i hcol
      split
      · rename_i f hl
        obtain ⟨added, h1, h2, h3, h4⟩ := rrfScan_shape tbl rest (sp.name :: col) (frs ++ [f]) (f.sel :: stk)
        refine ⟨f :: added, ?_, ?_, ?_, ?_⟩
        · rw [h1]; simp
        · rw [h2]; simp
        · have := unc_cons_lt (fragNames tbl) col sp.name (lookupFrag_mem_names hl) hcol
          simp only [List.length_cons]
          omega
        · intro g hg
          rcases List.mem_cons.1 hg with rfl | hg
          · exact (lookupFrag_some hl).1
          · exact h4 g hg
      · obtain ⟨added, h1, h2, h3, h4⟩ := rrfScan_shape tbl rest (sp.name :: col) frs stk
        refine ⟨added, h1, h2, ?_, h4⟩
        have := unc_cons_le (fragNames tbl) col sp.name
        omega

def popSum (fsCost : SelectionSet → Nat) (l : List SelectionSet) : Nat := (l.map (popCost fsCost)).sum

theorem popSum_append (fsCost) (a b : List SelectionSet) : popSum fsCost (a ++ b) = popSum fsCost a + popSum fsCost b := by
  simp [popSum]

theorem popSum_reverse (fsCost) (a : List SelectionSet) : popSum fsCost a.reverse = popSum fsCost a := by
  simp [popSum, List.sum_reverse]

theorem rrfLoopC_count (tbl : List Frag) (fsCost : SelectionSet → Nat) :
    ∀ (fuel : Nat) (stk : List SelectionSet) (col : List String) (frs : List Frag) (n : Nat),
    stk.length + unc (fragNames tbl) col ≤ fuel →
    ∃ added : List Frag,
      (rrfLoopC tbl fsCost fuel stk col frs n).1.1 = frs ++ added ∧
      (rrfLoopC tbl fsCost fuel stk col frs n).2 = n + popSum fsCost stk + popSum fsCost (added.map (·.sel)) ∧
      added.length ≤ unc (fragNames tbl) col ∧ ∀ f, f ∈ added → f ∈ tbl := by
  intro fuel
  induction fuel with
  | zero =>
    intro stk col frs n h
    cases stk with
    | nil => exact ⟨[], by simp [rrfLoopC, popSum]⟩
    | cons s stk => simp at h
  | succ fuel ih =>
    intro stk col frs n h
    cases stk with
    | nil => exact ⟨[], by simp [rrfLoopC, popSum]⟩
    | cons s stk =>
      simp only [rrfLoopC]
      obtain ⟨a1, h1, h2, h3, h4⟩ := rrfScan_shape tbl (fragmentSpreads s) col frs stk
      rw [h1, h2]
      have hf : ((a1.map (·.sel)).reverse ++ stk).length +
          unc (fragNames tbl) (rrfScan tbl (fragmentSpreads s) col frs stk).1 ≤ fuel := by
        simp only [List.length_append, List.length_reverse, List.length_map, List.length_cons] at h ⊢
        omega
      obtain ⟨a2, g1, g2, g3, g4⟩ := ih ((a1.map (·.sel)).reverse ++ stk)
        (rrfScan tbl (fragmentSpreads s) col frs stk).1 (frs ++ a1)
        (n + 1 + fsCost s + (fragmentSpreads s).length) hf
      refine ⟨a1 ++ a2, ?_, ?_, ?_, ?_⟩
      · rw [g1]; simp
      · rw [g2]
        simp only [popSum_append, popSum_reverse, List.map_append, popSum, List.map_cons, List.sum_cons, popCost,
          fragmentSpreads_length]
        omega
      · simp only [List.length_append]; omega
      · intro f hf
        rcases List.mem_append.1 hf with hf | hf
        · exact h4 f hf
        · exact g4 f hf

/-- steps of one `RecursivelyReferencedFragments(op)`: the operation's selection set and the selection set of every
fragment it returns are popped exactly once -/
theorem rrfSteps_eq (tbl : List Frag) (fsCost : SelectionSet → Nat) (opSel : SelectionSet) :
    rrfSteps tbl fsCost opSel =
      popCost fsCost opSel + popSum fsCost ((recursivelyReferenced tbl opSel).map (·.sel)) ∧
    (recursivelyReferenced tbl opSel).length ≤ tbl.length ∧
    ∀ f, f ∈ recursivelyReferenced tbl opSel → f ∈ tbl := by
  have hf : [opSel].length + unc (fragNames tbl) [] ≤ tbl.length + 1 := by
    have := unc_le_length (fragNames tbl) []
    simp [fragNames] at this ⊢
    omega
  obtain ⟨added, h1, h2, h3, h4⟩ := rrfLoopC_count tbl fsCost (tbl.length + 1) [opSel] [] [] 0 hf
  have he : recursivelyReferenced tbl opSel = added := by
    have := congrArg Prod.fst (rrfLoopC_erase tbl fsCost (tbl.length + 1) [opSel] [] [] 0)
    simp only [recursivelyReferenced, recursivelyReferencedF]
    rw [← this, h1]; simp
  rw [he]
  refine ⟨?_, ?_, h4⟩
  · simp only [rrfSteps]; rw [h2]; simp [popSum]
  · have := unc_le_length (fragNames tbl) []
    simp [fragNames] at this
    omega

theorem popCost_le_maxPop (fsCost) (tbl : List Frag) (f : Frag) (h : f ∈ tbl) : popCost fsCost f.sel ≤ maxPop fsCost tbl := by
  induction tbl with
  | nil => cases h
  | cons g gs ih =>
    simp only [maxPop]
    rcases List.mem_cons.1 h with rfl | h
    · omega
    · have := ih h; omega

theorem popSum_le (fsCost) (tbl : List Frag) (l : List Frag) (h : ∀ f, f ∈ l → f ∈ tbl) :
    popSum fsCost (l.map (·.sel)) ≤ l.length * maxPop fsCost tbl := by
  induction l with
  | nil => simp [popSum]
  | cons f rest ih =>
    have h1 := popCost_le_maxPop fsCost tbl f (h f List.mem_cons_self)
    have h2 := ih (fun g hg => h g (List.mem_cons_of_mem _ hg))
    simp only [popSum, List.map_cons, List.sum_cons, List.length_cons, Nat.succ_mul] at *
    omega

/-- closed bound: the closure of one operation costs its own node plus at most one pop per fragment DEFINITION —
whatever the spread graph looks like (cycles, duplicate names) -/
theorem rrfSteps_le (tbl : List Frag) (fsCost : SelectionSet → Nat) (opSel : SelectionSet) :
    rrfSteps tbl fsCost opSel ≤ popCost fsCost opSel + tbl.length * maxPop fsCost tbl := by
  obtain ⟨h1, h2, h3⟩ := rrfSteps_eq tbl fsCost opSel
  have := popSum_le fsCost tbl _ h3
  have hm := Nat.mul_le_mul_right (maxPop fsCost tbl) h2
  omega

end GqlModel.Validate.Graph
