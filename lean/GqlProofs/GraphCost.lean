import GqlModel.GraphCost
import GqlProofs.ValidateCycles
/-! # C19: the step counters of `GqlModel/GraphCost.lean` — erasure (the twins ARE the modelled algorithms) and bounds -/
namespace GqlModel.Validate.Graph
open GqlModel.Validate

/-! ## `FragmentSpreads` -/

theorem fsLoopC_erase : ∀ (fuel : Nat) (stk : List SelectionSet) (acc : List Spread) (n : Nat),
    (fsLoopC fuel stk acc n).1 = fsLoop fuel stk acc
  | _, [], acc, n => by cases ‹Nat› <;> simp [fsLoopC, fsLoop]
  | 0, _ :: _, acc, n => by simp [fsLoopC, fsLoop]
  | fuel + 1, ss :: stk, acc, n => by
    simp only [fsLoopC, fsLoop]
    exact fsLoopC_erase fuel _ _ _

/-- sets and selections still to be visited for the stack -/
def wtN : List SelectionSet → Nat
  | [] => 0
  | s :: stk => setsSet s + selsSet s + wtN stk

def pendLen : List SelectionSet → Nat
  | [] => 0
  | s :: stk => nSpreadsSet s + pendLen stk

theorem fsScan_count (sels : List Selection) (acc : List Spread) (stk : List SelectionSet) :
    wtN (fsScan sels acc stk).2 + sels.length = wtN stk + setsSels sels + selsSels sels ∧
    (fsScan sels acc stk).1.length + pendLen (fsScan sels acc stk).2 =
      acc.length + pendLen stk + (spreadsSels sels).length := by
  induction sels generalizing acc stk with
  | nil => simp [fsScan, setsSels, selsSels, spreadsSels]
  | cons sel rest ih =>
    cases sel with
    | spread n ds l =>
      have := ih (acc ++ [⟨n.value, l⟩]) stk
      simp only [fsScan, setsSels, setsSel, selsSels, selsSel, spreadsSels, spreadsSel, List.length_cons,
        List.length_append, List.length_nil] at this ⊢
      omega
    | field a n args ds sel l =>
      cases sel with
      | none =>
        have := ih acc stk
        simp only [fsScan, setsSels, setsSel, setsOpt, selsSels, selsSel, selsOpt, spreadsSels, spreadsSel, spreadsOpt,
          List.length_cons, List.nil_append] at this ⊢
        omega
      | some ss =>
        have := ih acc (ss :: stk)
        simp only [fsScan, setsSels, setsSel, setsOpt, selsSels, selsSel, selsOpt, spreadsSels, spreadsSel, spreadsOpt,
          List.length_cons, List.length_append, wtN, pendLen, nSpreadsSet] at this ⊢
        omega
    | inline tc ds ss l =>
      have := ih acc (ss :: stk)
      simp only [fsScan, setsSels, setsSel, selsSels, selsSel, spreadsSels, spreadsSel,
        List.length_cons, List.length_append, wtN, pendLen, nSpreadsSet] at this ⊢
      omega

theorem wt_le_wtN (stk : List SelectionSet) : wt stk ≤ wtN stk := by
  induction stk with
  | nil => simp [wt, wtN]
  | cons s stk ih => simp only [wt, wtN]; omega

theorem fsLoopC_count (fuel : Nat) (stk : List SelectionSet) (acc : List Spread) (n : Nat) (h : wt stk ≤ fuel) :
    (fsLoopC fuel stk acc n).2 = n + wtN stk ∧
    (fsLoopC fuel stk acc n).1.1.length = acc.length + pendLen stk := by
  induction fuel generalizing stk acc n with
  | zero =>
    cases stk with
    | nil => simp [fsLoopC, wtN, pendLen]
    | cons s stk =>
      exfalso
      cases s with
      | mk sels l => simp [wt, setsSet] at h
  | succ fuel ih =>
    cases stk with
    | nil => simp [fsLoopC, wtN, pendLen]
    | cons s stk =>
      cases s with
      | mk sels l =>
        have hs := fsScan_spec sels acc stk
        have hc := fsScan_count sels acc stk
        have hw : wt (fsScan sels acc stk).2 ≤ fuel := by
          rw [hs.1]; simp [wt, setsSet] at h; omega
        have := ih (fsScan sels acc stk).2 (fsScan sels acc stk).1 (n + 1 + sels.length) hw
        simp only [fsLoopC, SelectionSet.sels]
        rw [this.1, this.2]
        simp only [wtN, pendLen, setsSet, selsSet, nSpreadsSet, spreadsSet]
        omega

/-- one uncached `FragmentSpreads(ss)` pops every selection set at or below `ss` once and scans every selection once -/
theorem fsSteps_eq (ss : SelectionSet) : fsSteps ss = setsSet ss + selsSet ss := by
  have := (fsLoopC_count (setsSet ss) [ss] [] 0 (by simp [wt])).1
  simpa [fsSteps, wtN] using this

theorem fragmentSpreads_length (ss : SelectionSet) : (fragmentSpreads ss).length = nSpreadsSet ss := by
  have h := (fsLoopC_count (setsSet ss) [ss] [] 0 (by simp [wt])).2
  rw [fsLoopC_erase] at h
  simpa [fragmentSpreads, fragmentSpreadsF, pendLen] using h

/-! ## `RecursivelyReferencedFragments` -/

theorem rrfLoopC_erase (tbl : List Frag) (fsCost : SelectionSet → Nat) :
    ∀ (fuel : Nat) (stk : List SelectionSet) (col : List String) (frs : List Frag) (n : Nat),
    (rrfLoopC tbl fsCost fuel stk col frs n).1 = rrfLoop tbl fuel stk col frs
  | _, [], col, frs, n => by cases ‹Nat› <;> simp [rrfLoopC, rrfLoop]
  | 0, _ :: _, col, frs, n => by simp [rrfLoopC, rrfLoop]
  | fuel + 1, ss :: stk, col, frs, n => by
    simp only [rrfLoopC, rrfLoop]
    exact rrfLoopC_erase tbl fsCost fuel _ _ _ _

/-- what one scan of a node's spreads does to the three accumulators -/
theorem rrfScan_shape (tbl : List Frag) : ∀ (sps : List Spread) (col : List String) (frs : List Frag)
    (stk : List SelectionSet),
    ∃ added : List Frag,
      (rrfScan tbl sps col frs stk).2.1 = frs ++ added ∧
      (rrfScan tbl sps col frs stk).2.2 = (added.map (·.sel)).reverse ++ stk ∧
      added.length + unc (fragNames tbl) (rrfScan tbl sps col frs stk).1 ≤ unc (fragNames tbl) col ∧
      (∀ f, f ∈ added → f ∈ tbl) ∧
      (∀ x, x ∈ col → x ∈ (rrfScan tbl sps col frs stk).1) ∧
      (∀ f, f ∈ added → f.name.value ∉ col ∧ f.name.value ∈ (rrfScan tbl sps col frs stk).1) ∧
      (added.map (·.name.value)).Nodup
  | [], col, frs, stk => ⟨[], by simp [rrfScan]⟩
  | sp :: rest, col, frs, stk => by
    simp only [rrfScan]
    split
    · exact rrfScan_shape tbl rest col frs stk
    · rename_i hcol
      split
      · rename_i f hl
        obtain ⟨added, h1, h2, h3, h4, h5, h6, h7⟩ := rrfScan_shape tbl rest (sp.name :: col) (frs ++ [f]) (f.sel :: stk)
        have hfn : f.name.value = sp.name := (lookupFrag_some hl).2
        refine ⟨f :: added, ?_, ?_, ?_, ?_, ?_, ?_, ?_⟩
        · rw [h1]; simp
        · rw [h2]; simp
        · have := unc_cons_lt (fragNames tbl) col sp.name (lookupFrag_mem_names hl) hcol
          simp only [List.length_cons]
          omega
        · intro g hg
          rcases List.mem_cons.1 hg with rfl | hg
          · exact (lookupFrag_some hl).1
          · exact h4 g hg
        · exact fun x hx => h5 x (List.mem_cons_of_mem _ hx)
        · intro g hg
          rcases List.mem_cons.1 hg with rfl | hg
          · rw [hfn]; exact ⟨hcol, h5 _ List.mem_cons_self⟩
          · exact ⟨fun hc => (h6 g hg).1 (List.mem_cons_of_mem _ hc), (h6 g hg).2⟩
        · simp only [List.map_cons]
          refine List.nodup_cons.2 ⟨fun hm => ?_, h7⟩
          obtain ⟨g, hg, hge⟩ := List.mem_map.1 hm
          exact (h6 g hg).1 (by rw [hge, hfn]; exact List.mem_cons_self)
      · obtain ⟨added, h1, h2, h3, h4, h5, h6, h7⟩ := rrfScan_shape tbl rest (sp.name :: col) frs stk
        refine ⟨added, h1, h2, ?_, h4, fun x hx => h5 x (List.mem_cons_of_mem _ hx),
          fun g hg => ⟨fun hc => (h6 g hg).1 (List.mem_cons_of_mem _ hc), (h6 g hg).2⟩, h7⟩
        have := unc_cons_le (fragNames tbl) col sp.name
        omega

def popSum (fsCost : SelectionSet → Nat) (l : List SelectionSet) : Nat := (l.map (popCost fsCost)).sum

theorem popSum_append (fsCost) (a b : List SelectionSet) : popSum fsCost (a ++ b) = popSum fsCost a + popSum fsCost b := by
  simp [popSum]

theorem popSum_reverse (fsCost) (a : List SelectionSet) : popSum fsCost a.reverse = popSum fsCost a := by
  simp [popSum, List.sum_reverse]

theorem rrfLoopC_count (tbl : List Frag) (fsCost : SelectionSet → Nat) :
    ∀ (fuel : Nat) (stk : List SelectionSet) (col : List String) (frs : List Frag) (n : Nat),
    stk.length + unc (fragNames tbl) col ≤ fuel →
    ∃ added : List Frag,
      (rrfLoopC tbl fsCost fuel stk col frs n).1.1 = frs ++ added ∧
      (rrfLoopC tbl fsCost fuel stk col frs n).2 = n + popSum fsCost stk + popSum fsCost (added.map (·.sel)) ∧
      added.length ≤ unc (fragNames tbl) col ∧ (∀ f, f ∈ added → f ∈ tbl) ∧
      (∀ f, f ∈ added → f.name.value ∉ col) ∧ (added.map (·.name.value)).Nodup := by
  intro fuel
  induction fuel with
  | zero =>
    intro stk col frs n h
    cases stk with
    | nil => exact ⟨[], by simp [rrfLoopC, popSum]⟩
    | cons s stk => simp at h
  | succ fuel ih =>
    intro stk col frs n h
    cases stk with
    | nil => exact ⟨[], by simp [rrfLoopC, popSum]⟩
    | cons s stk =>
      simp only [rrfLoopC]
      obtain ⟨a1, h1, h2, h3, h4, h5, h6, h7⟩ := rrfScan_shape tbl (fragmentSpreads s) col frs stk
      rw [h1, h2]
      have hf : ((a1.map (·.sel)).reverse ++ stk).length +
          unc (fragNames tbl) (rrfScan tbl (fragmentSpreads s) col frs stk).1 ≤ fuel := by
        simp only [List.length_append, List.length_reverse, List.length_map, List.length_cons] at h ⊢
        omega
      obtain ⟨a2, g1, g2, g3, g4, g5, g6⟩ := ih ((a1.map (·.sel)).reverse ++ stk)
        (rrfScan tbl (fragmentSpreads s) col frs stk).1 (frs ++ a1)
        (n + 1 + fsCost s + (fragmentSpreads s).length) hf
      refine ⟨a1 ++ a2, ?_, ?_, ?_, ?_, ?_, ?_⟩
      · rw [g1]; simp
      · rw [g2, List.map_append, popSum_append, popSum_append, popSum_reverse]
        have hc : popSum fsCost (s :: stk) = popCost fsCost s + popSum fsCost stk := by simp [popSum]
        rw [hc]
        simp only [popCost, fragmentSpreads_length]
        omega
      · simp only [List.length_append]; omega
      · intro f hf
        rcases List.mem_append.1 hf with hf | hf
        · exact h4 f hf
        · exact g4 f hf
      · intro f hf
        rcases List.mem_append.1 hf with hf | hf
        · exact (h6 f hf).1
        · exact fun hc => g5 f hf (h5 _ hc)
      · rw [List.map_append]
        refine List.nodup_append.2 ⟨h7, g6, ?_⟩
        intro a ha b hb hab
        obtain ⟨f, hf, rfl⟩ := List.mem_map.1 ha
        obtain ⟨g, hg, rfl⟩ := List.mem_map.1 hb
        exact g5 g hg (by rw [← hab]; exact (h6 f hf).2)

/-- steps of one `RecursivelyReferencedFragments(op)`: the operation's selection set and the selection set of every
fragment it returns are popped exactly once -/
theorem rrfSteps_eq (tbl : List Frag) (fsCost : SelectionSet → Nat) (opSel : SelectionSet) :
    rrfSteps tbl fsCost opSel =
      popCost fsCost opSel + popSum fsCost ((recursivelyReferenced tbl opSel).map (·.sel)) ∧
    (recursivelyReferenced tbl opSel).length ≤ tbl.length ∧
    (∀ f, f ∈ recursivelyReferenced tbl opSel → f ∈ tbl) ∧
    ((recursivelyReferenced tbl opSel).map (·.name.value)).Nodup := by
  have hf : [opSel].length + unc (fragNames tbl) [] ≤ tbl.length + 1 := by
    have := unc_le_length (fragNames tbl) []
    simp [fragNames] at this ⊢
    omega
  obtain ⟨added, h1, h2, h3, h4, _, h6⟩ := rrfLoopC_count tbl fsCost (tbl.length + 1) [opSel] [] [] 0 hf
  have he : recursivelyReferenced tbl opSel = added := by
    have := congrArg Prod.fst (rrfLoopC_erase tbl fsCost (tbl.length + 1) [opSel] [] [] 0)
    simp only [recursivelyReferenced, recursivelyReferencedF]
    rw [← this, h1]; simp
  rw [he]
  refine ⟨?_, ?_, h4, h6⟩
  · simp only [rrfSteps]; rw [h2]; simp [popSum]
  · have := unc_le_length (fragNames tbl) []
    have hl : (fragNames tbl).length = tbl.length := by simp [fragNames]
    omega

theorem popCost_le_maxPop (fsCost) (tbl : List Frag) (f : Frag) (h : f ∈ tbl) : popCost fsCost f.sel ≤ maxPop fsCost tbl := by
  induction tbl with
  | nil => cases h
  | cons g gs ih =>
    simp only [maxPop]
    rcases List.mem_cons.1 h with rfl | h
    · omega
    · have := ih h; omega

theorem popSum_le (fsCost) (tbl : List Frag) (l : List Frag) (h : ∀ f, f ∈ l → f ∈ tbl) :
    popSum fsCost (l.map (·.sel)) ≤ l.length * maxPop fsCost tbl := by
  induction l with
  | nil => simp [popSum]
  | cons f rest ih =>
    have h1 := popCost_le_maxPop fsCost tbl f (h f List.mem_cons_self)
    have h2 := ih (fun g hg => h g (List.mem_cons_of_mem _ hg))
    simp only [popSum, List.map_cons, List.sum_cons, List.length_cons, Nat.succ_mul] at *
    omega

/-- closed bound: the closure of one operation costs its own node plus at most one pop per fragment DEFINITION —
whatever the spread graph looks like (cycles, duplicate names) -/
theorem rrfSteps_le (tbl : List Frag) (fsCost : SelectionSet → Nat) (opSel : SelectionSet) :
    rrfSteps tbl fsCost opSel ≤ popCost fsCost opSel + tbl.length * maxPop fsCost tbl := by
  obtain ⟨h1, h2, h3, _⟩ := rrfSteps_eq tbl fsCost opSel
  have := popSum_le fsCost tbl _ h3
  have hm := Nat.mul_le_mul_right (maxPop fsCost tbl) h2
  omega

/-! ## NoFragmentCycles -/

theorem stepSpreadC_erase (tbl : List Frag) {recC : Frag → CState × CCnt → CState × CCnt} {rec : Frag → CState → CState}
    (h : ∀ g sc, (recC g sc).1 = rec g sc.1) (sc : CState × CCnt) (sp : Spread) :
    (stepSpreadC tbl recC sc sp).1 = stepSpread tbl rec sc.1 sp := by
  unfold stepSpreadC stepSpread
  simp only
  cases hl : sc.1.index.lookup sp.name with
  | some ci => simp only
  | none =>
    simp only
    by_cases hv : sp.name ∈ sc.1.visited
    · simp only [hv, if_true]
    · simp only [hv, if_false]
      cases hf : lookupFrag tbl sp.name with
      | none => simp only
      | some g => simp only [h]

theorem foldC_erase (tbl : List Frag) {recC : Frag → CState × CCnt → CState × CCnt} {rec : Frag → CState → CState}
    (h : ∀ g sc, (recC g sc).1 = rec g sc.1) (l : List Spread) (sc : CState × CCnt) :
    (l.foldl (stepSpreadC tbl recC) sc).1 = l.foldl (stepSpread tbl rec) sc.1 := by
  induction l generalizing sc with
  | nil => rfl
  | cons sp rest ih =>
    simp only [List.foldl_cons]
    rw [ih, stepSpreadC_erase tbl h]

theorem detectBodyC_erase (tbl : List Frag) {recC : Frag → CState × CCnt → CState × CCnt} {rec : Frag → CState → CState}
    (h : ∀ g sc, (recC g sc).1 = rec g sc.1) (f : Frag) (sc : CState × CCnt) :
    (detectBodyC tbl recC f sc).1 = detectBody tbl rec f sc.1 := by
  unfold detectBodyC detectBody
  simp only
  split
  · rfl
  · simp only
    rw [foldC_erase tbl h]

theorem detectC_erase (tbl : List Frag) : ∀ (fuel : Nat) (f : Frag) (sc : CState × CCnt),
    (detectC tbl fuel f sc).1 = detect tbl fuel f sc.1
  | 0, f, sc => rfl
  | fuel + 1, f, sc => by
    simp only [detectC, detect]
    exact detectBodyC_erase tbl (detectC_erase tbl fuel) f sc

/-- erasing the counters of `cycleRunC` gives back the modelled NoFragmentCycles run -/
theorem cycleRunC_erase (tbl : List Frag) : (cycleRunC tbl).1 = cycleRun tbl := by
  unfold cycleRunC cycleRun
  have : ∀ (defs : List Frag) (sc : CState × CCnt),
      (defs.foldl (fun sc f => if f.name.value ∈ sc.1.visited then sc else detectC tbl (tbl.length + 1) f sc) sc).1 =
      defs.foldl (fun st f => if f.name.value ∈ st.visited then st else detect tbl (tbl.length + 1) f st) sc.1 := by
    intro defs
    induction defs with
    | nil => intro sc; rfl
    | cons f rest ih =>
      intro sc
      simp only [List.foldl_cons]
      rw [ih]
      congr 1
      split
      · rfl
      · exact detectC_erase tbl _ f sc
  exact this tbl _

theorem nSpreads_le_max (tbl : List Frag) (f : Frag) (h : f ∈ tbl) : nSpreadsSet f.sel ≤ maxSpreads tbl := by
  induction tbl with
  | nil => cases h
  | cons g gs ih =>
    simp only [maxSpreads]
    rcases List.mem_cons.1 h with rfl | h
    · omega
    · have := ih h; omega

/-- what a run from `sc` to `r` may have cost: the path is restored, the visited set only grows, every call consumes an
unvisited fragment name, and the loop iterations / copied path lengths are paid for by calls -/
structure CEff (tbl : List Frag) (B : Nat) (extra : Nat) (sc r : CState × CCnt) : Prop where
  path : r.1.path = sc.1.path
  mono : ∀ x, x ∈ sc.1.visited → x ∈ r.1.visited
  cost : ∃ dc di de, r.2.calls = sc.2.calls + dc ∧ r.2.iters = sc.2.iters + extra + di ∧ r.2.errLen = sc.2.errLen + de ∧
    dc + unc (fragNames tbl) r.1.visited ≤ unc (fragNames tbl) sc.1.visited ∧
    di ≤ dc * maxSpreads tbl ∧ de ≤ (extra + di) * (B + 1)

def CGood (tbl : List Frag) (B k : Nat) (rec : Frag → CState × CCnt → CState × CCnt) : Prop :=
  ∀ g sc, g ∈ tbl → g.name.value ∉ sc.1.visited → sc.1.path.length + k ≤ B → CEff tbl B 0 sc (rec g sc)

theorem CEff.refl (tbl : List Frag) (B : Nat) (sc : CState × CCnt) : CEff tbl B 0 sc sc :=
  ⟨rfl, fun _ h => h, 0, 0, 0, by simp⟩

theorem CEff.trans {tbl : List Frag} {B e1 e2 : Nat} {a b c : CState × CCnt}
    (h1 : CEff tbl B e1 a b) (h2 : CEff tbl B e2 b c) : CEff tbl B (e1 + e2) a c := by
  obtain ⟨p1, m1, dc1, di1, de1, c1, i1, l1, u1, s1, t1⟩ := h1
  obtain ⟨p2, m2, dc2, di2, de2, c2, i2, l2, u2, s2, t2⟩ := h2
  refine ⟨p2.trans p1, fun x hx => m2 x (m1 x hx), dc1 + dc2, di1 + di2, de1 + de2, by omega, by omega, by omega, by omega, ?_, ?_⟩
  · rw [Nat.add_mul]; omega
  · have : (e1 + e2 + (di1 + di2)) * (B + 1) = (e1 + di1) * (B + 1) + (e2 + di2) * (B + 1) := by
      rw [← Nat.add_mul]; congr 1; omega
    omega

theorem stepSpreadC_eff {tbl : List Frag} {B k : Nat} {rec : Frag → CState × CCnt → CState × CCnt}
    (hrec : CGood tbl B k rec) (sc : CState × CCnt) (sp : Spread) (hp : sc.1.path.length + k + 1 ≤ B) :
    CEff tbl B 1 sc (stepSpreadC tbl rec sc sp) := by
  unfold stepSpreadC
  cases hl : sc.1.index.lookup sp.name with
  | none =>
    -- not on the current path: push, maybe recurse, pop
    by_cases hv : sp.name ∈ sc.1.visited
    · simp only [hl, hv, if_true]
      refine ⟨by simp, fun _ h => h, 0, 0, 0, by simp⟩
    · simp only [hl, hv, if_false]
      cases hf : lookupFrag tbl sp.name with
      | none =>
        simp only
        refine ⟨by simp, fun _ h => h, 0, 0, 0, by simp⟩
      | some g =>
        simp only
        have hg := lookupFrag_some hf
        have hnv : g.name.value ∉ sc.1.visited := by rw [hg.2]; exact hv
        have h := hrec g ({ sc.1 with path := sc.1.path ++ [sp] }, { sc.2 with iters := sc.2.iters + 1 }) hg.1 hnv
          (by simp only [List.length_append, List.length_cons, List.length_nil]; omega)
        obtain ⟨p, m, dc, di, de, c1, i1, l1, u1, s1, t1⟩ := h
        refine ⟨by simp only [p]; simp, m, dc, di, de, c1, by simp only at i1; omega, l1, u1, s1, ?_⟩
        have e1 : (1 + di) * (B + 1) = (B + 1) + di * (B + 1) := by rw [Nat.add_mul, Nat.one_mul]
        have e0 : (0 + di) * (B + 1) = di * (B + 1) := by rw [Nat.zero_add]
        omega
  | some ci =>
    -- on the path: one error, the tail of the path is copied
    simp only [hl]
    refine ⟨rfl, fun _ h => h, 0, 0, (List.drop ci sc.1.path ++ [sp]).length, by simp, by simp, by simp, by simp, by simp, ?_⟩
    have : (List.drop ci sc.1.path).length ≤ sc.1.path.length := by simp
    simp only [List.length_append, List.length_cons, List.length_nil, Nat.add_zero, Nat.one_mul]
    omega

theorem foldC_eff {tbl : List Frag} {B k : Nat} {rec : Frag → CState × CCnt → CState × CCnt}
    (hrec : CGood tbl B k rec) (l : List Spread) (sc : CState × CCnt) (hp : sc.1.path.length + k + 1 ≤ B) :
    CEff tbl B l.length sc (l.foldl (stepSpreadC tbl rec) sc) := by
  induction l generalizing sc with
  | nil => exact CEff.refl tbl B sc
  | cons sp rest ih =>
    simp only [List.foldl_cons, List.length_cons]
    have h1 := stepSpreadC_eff hrec sc sp hp
    have h2 := ih (stepSpreadC tbl rec sc sp) (by rw [h1.path]; exact hp)
    have := h1.trans h2
    rwa [Nat.add_comm] at this

theorem detectBodyC_good {tbl : List Frag} {B k : Nat} {rec : Frag → CState × CCnt → CState × CCnt}
    (hrec : CGood tbl B k rec) : CGood tbl B (k + 1) (detectBodyC tbl rec) := by
  intro f sc hf hnv hp
  have hname : f.name.value ∈ fragNames tbl := List.mem_map.2 ⟨f, hf, rfl⟩
  have hunc := unc_cons_lt (fragNames tbl) sc.1.visited f.name.value hname hnv
  unfold detectBodyC
  simp only
  split
  · exact ⟨rfl, fun x hx => List.mem_cons_of_mem _ hx, 1, 0, 0, by simp, by simp, by simp, by simp only; omega, by simp, by simp⟩
  · have h := foldC_eff hrec (fragmentSpreads f.sel)
      ({ sc.1 with visited := f.name.value :: sc.1.visited,
                   index := (f.name.value, sc.1.path.length) :: sc.1.index },
       { sc.2 with calls := sc.2.calls + 1 }) (by simp only; omega)
    obtain ⟨p, m, dc, di, de, c1, i1, l1, u1, s1, t1⟩ := h
    have hL : (fragmentSpreads f.sel).length ≤ maxSpreads tbl := by
      rw [fragmentSpreads_length]; exact nSpreads_le_max tbl f hf
    refine ⟨by simp only [p], fun x hx => m x (List.mem_cons_of_mem _ hx), 1 + dc, (fragmentSpreads f.sel).length + di, de,
      by simp only at c1 ⊢; omega, by simp only at i1 ⊢; omega, by simp only at l1 ⊢; omega,
      by simp only at u1 ⊢; omega, ?_, by simpa using t1⟩
    rw [Nat.add_mul, Nat.one_mul]
    omega

theorem detectC_good (tbl : List Frag) (B : Nat) : ∀ k, CGood tbl B k (detectC tbl k)
  | 0 => fun g sc _ _ _ => ⟨rfl, fun _ h => h, 0, 0, 0, by simp [detectC]⟩
  | k + 1 => detectBodyC_good (detectC_good tbl B k)

/-- NoFragmentCycles: at most one `detectCycleRecursive` call per fragment definition, at most `maxSpreads` loop
iterations per call, and every error copies a path no longer than the recursion is deep -/
theorem cycleRunC_le (tbl : List Frag) :
    (cycleRunC tbl).2.calls ≤ tbl.length ∧
    (cycleRunC tbl).2.iters ≤ (cycleRunC tbl).2.calls * maxSpreads tbl ∧
    (cycleRunC tbl).2.errLen ≤ (cycleRunC tbl).2.iters * (tbl.length + 2) := by
  have key : ∀ (defs : List Frag) (sc : CState × CCnt), (∀ f, f ∈ defs → f ∈ tbl) → sc.1.path = [] →
      CEff tbl (tbl.length + 1) 0 sc
        (defs.foldl (fun sc f => if f.name.value ∈ sc.1.visited then sc else detectC tbl (tbl.length + 1) f sc) sc) := by
    intro defs
    induction defs with
    | nil => intro sc _ _; exact CEff.refl tbl _ sc
    | cons f rest ih =>
      intro sc hsub hp
      simp only [List.foldl_cons]
      have h1 : CEff tbl (tbl.length + 1) 0 sc
          (if f.name.value ∈ sc.1.visited then sc else detectC tbl (tbl.length + 1) f sc) := by
        split
        · exact CEff.refl tbl _ sc
        · rename_i hv
          exact detectC_good tbl (tbl.length + 1) (tbl.length + 1) f sc (hsub f List.mem_cons_self) hv
            (by rw [hp]; simp)
      have h2 := ih _ (fun g hg => hsub g (List.mem_cons_of_mem _ hg)) (by rw [h1.path]; exact hp)
      exact h1.trans h2
  have h := key tbl (CState.init, ⟨0, 0, 0⟩) (fun _ h => h) rfl
  obtain ⟨_, _, dc, di, de, c1, i1, l1, u1, s1, t1⟩ := h
  have hu := unc_le_length (fragNames tbl) CState.init.visited
  have hl : (fragNames tbl).length = tbl.length := by simp [fragNames]
  unfold cycleRunC
  simp only at c1 i1 l1
  rw [c1, i1, l1]
  simp only [Nat.zero_add] at *
  refine ⟨by omega, s1, ?_⟩
  have : tbl.length + 1 + 1 = tbl.length + 2 := rfl
  rw [this] at t1
  exact t1

/-! ## sizes -/

theorem sum_le_of_distinct_names (g : Frag → Nat) : ∀ (l tbl : List Frag),
    (l.map (·.name.value)).Nodup → (∀ f, f ∈ l → f ∈ tbl) → (l.map g).sum ≤ (tbl.map g).sum
  | [], tbl, _, _ => by simp
  | f :: rest, tbl, hnd, hsub => by
    obtain ⟨a, b, rfl⟩ := List.append_of_mem (hsub f List.mem_cons_self)
    have hnd' : f.name.value ∉ rest.map (·.name.value) ∧ (rest.map (·.name.value)).Nodup :=
      List.nodup_cons.1 hnd
    have hrest : ∀ x, x ∈ rest → x ∈ a ++ b := by
      intro x hx
      have hm := hsub x (List.mem_cons_of_mem _ hx)
      have hne : x ≠ f := fun h => hnd'.1 (List.mem_map.2 ⟨x, hx, by rw [h]⟩)
      simp only [List.mem_append, List.mem_cons] at hm ⊢
      rcases hm with h | h | h
      · exact Or.inl h
      · exact absurd h hne
      · exact Or.inr h
    have ih := sum_le_of_distinct_names g rest (a ++ b) hnd'.2 hrest
    simp only [List.map_cons, List.sum_cons, List.map_append, List.sum_append_nat] at ih ⊢
    omega

theorem sum_map_le_sum_map {α : Type} (g h : α → Nat) (l : List α) (hle : ∀ x, x ∈ l → g x ≤ h x) :
    (l.map g).sum ≤ (l.map h).sum := by
  induction l with
  | nil => simp
  | cons x xs ih =>
    have h1 := hle x List.mem_cons_self
    have h2 := ih (fun y hy => hle y (List.mem_cons_of_mem _ hy))
    simp only [List.map_cons, List.sum_cons]; omega

theorem sum_map_le_mul {α : Type} (g : α → Nat) (l : List α) (B : Nat) (hle : ∀ x, x ∈ l → g x ≤ B) :
    (l.map g).sum ≤ l.length * B := by
  induction l with
  | nil => simp
  | cons x xs ih =>
    have h1 := hle x List.mem_cons_self
    have h2 := ih (fun y hy => hle y (List.mem_cons_of_mem _ hy))
    simp only [List.map_cons, List.sum_cons, List.length_cons, Nat.succ_mul]; omega

theorem le_sum_map_of_mem {α : Type} (g : α → Nat) (l : List α) (x : α) (h : x ∈ l) : g x ≤ (l.map g).sum := by
  induction l with
  | nil => cases h
  | cons y ys ih =>
    simp only [List.map_cons, List.sum_cons]
    rcases List.mem_cons.1 h with rfl | h
    · omega
    · have := ih h; omega

mutual
theorem sets_sels_le_sel : ∀ x : Selection, setsSel x + selsSel x ≤ nodesSel x
  | .field alias n args ds sel l => by
    have := sets_sels_le_opt sel
    simp only [setsSel, selsSel, nodesSel]; omega
  | .spread n ds l => by simp only [setsSel, selsSel, nodesSel]; omega
  | .inline tc ds ss l => by
    have := sets_sels_le_set ss
    simp only [setsSel, selsSel, nodesSel]; omega
theorem sets_sels_le_set : ∀ x : SelectionSet, setsSet x + selsSet x ≤ nodesSet x
  | .mk sels l => by
    have := sets_sels_le_sels sels
    simp only [setsSet, selsSet, nodesSet]; omega
theorem sets_sels_le_opt : ∀ x : Option SelectionSet, setsOpt x + selsOpt x ≤ nodesOpt x
  | none => by simp [setsOpt, selsOpt, nodesOpt]
  | some ss => by simpa [setsOpt, selsOpt, nodesOpt] using sets_sels_le_set ss
theorem sets_sels_le_sels : ∀ x : List Selection, setsSels x + selsSels x ≤ nodesSels x
  | [] => by simp [setsSels, selsSels, nodesSels]
  | x :: xs => by
    have := sets_sels_le_sel x
    have := sets_sels_le_sels xs
    simp only [setsSels, selsSels, nodesSels]; omega
end

mutual
theorem spreads_le_sel : ∀ x : Selection, (spreadsSel x).length ≤ selsSel x
  | .field alias n args ds sel l => by
    have := spreads_le_opt sel
    simp only [spreadsSel, selsSel]; omega
  | .spread n ds l => by simp [spreadsSel, selsSel]
  | .inline tc ds ss l => by
    have := spreads_le_set ss
    simp only [spreadsSel, selsSel]; omega
theorem spreads_le_set : ∀ x : SelectionSet, (spreadsSet x).length ≤ selsSet x
  | .mk sels l => by simpa [spreadsSet, selsSet] using spreads_le_sels sels
theorem spreads_le_opt : ∀ x : Option SelectionSet, (spreadsOpt x).length ≤ selsOpt x
  | none => by simp [spreadsOpt, selsOpt]
  | some ss => by simpa [spreadsOpt, selsOpt] using spreads_le_set ss
theorem spreads_le_sels : ∀ x : List Selection, (spreadsSels x).length ≤ selsSels x
  | [] => by simp [spreadsSels, selsSels]
  | x :: xs => by
    have := spreads_le_sel x
    have := spreads_le_sels xs
    simp only [spreadsSels, selsSels, List.length_append]; omega
end

theorem fsSteps_le_nodes (ss : SelectionSet) : fsSteps ss ≤ nodesSet ss := by
  rw [fsSteps_eq]; exact sets_sels_le_set ss

theorem nSpreads_le_nodes (ss : SelectionSet) : nSpreadsSet ss ≤ nodesSet ss := by
  have h1 := spreads_le_set ss
  have h2 := sets_sels_le_set ss
  simp only [nSpreadsSet]; omega

mutual
theorem valueUsages_le (s : Schema) : ∀ (t : Option GType) (v : Value), (valueUsages s t v).length ≤ nodesValue v
  | t, .var n l => by simp [valueUsages, nodesValue]
  | t, .list vs l => by
    have := valuesUsages_le s (listItemType t) vs
    simp only [valueUsages, nodesValue]; omega
  | t, .obj fs l => by
    have := objFieldsUsages_le s t fs
    simp only [valueUsages, nodesValue]; omega
  | t, .int _ _ => by simp [valueUsages]
  | t, .float _ _ => by simp [valueUsages]
  | t, .str _ _ => by simp [valueUsages]
  | t, .bool _ _ => by simp [valueUsages]
  | t, .enum _ _ => by simp [valueUsages]
theorem valuesUsages_le (s : Schema) : ∀ (t : Option GType) (vs : List Value), (valuesUsages s t vs).length ≤ nodesValues vs
  | t, [] => by simp [valuesUsages, nodesValues]
  | t, v :: vs => by
    have := valueUsages_le s t v
    have := valuesUsages_le s t vs
    simp only [valuesUsages, nodesValues, List.length_append]; omega
theorem objFieldUsages_le (s : Schema) : ∀ (t : Option GType) (f : ObjField), (objFieldUsages s t f).length ≤ nodesObjField f
  | t, .mk n v l => by
    have := valueUsages_le s (inputFieldType s t n.value) v
    simp only [objFieldUsages, nodesObjField]; omega
theorem objFieldsUsages_le (s : Schema) : ∀ (t : Option GType) (fs : List ObjField), (objFieldsUsages s t fs).length ≤ nodesObjFields fs
  | t, [] => by simp [objFieldsUsages, nodesObjFields]
  | t, f :: fs => by
    have := objFieldUsages_le s t f
    have := objFieldsUsages_le s t fs
    simp only [objFieldsUsages, nodesObjFields, List.length_append]; omega
end

theorem argsUsages_le (s : Schema) (dir : Option DirectiveDefS) (fd : Option FieldDefS) (args : List Argument) :
    (argsUsages s dir fd args).length ≤ nodesArgs args := by
  induction args with
  | nil => simp [argsUsages, nodesArgs]
  | cons a rest ih =>
    have := valueUsages_le s ((argDefFor dir fd a.name.value).map (·.type)) a.value
    simp only [argsUsages, nodesArgs, List.flatMap_cons, List.length_append, List.map_cons, List.sum_cons] at ih ⊢
    omega

theorem dirsUsages_le (s : Schema) (dirs : List Directive) : (dirsUsages s dirs).length ≤ nodesDirs dirs := by
  induction dirs with
  | nil => simp [dirsUsages, nodesDirs]
  | cons d rest ih =>
    have := argsUsages_le s (s.directive? d.name.value) none d.args
    simp only [dirsUsages, nodesDirs, List.flatMap_cons, List.length_append, List.map_cons, List.sum_cons] at ih ⊢
    omega

mutual
theorem selUsages_le (s : Schema) : ∀ (c : TCtx) (x : Selection), (selUsages s c x).length ≤ nodesSel x
  | c, .field alias nm args dirs sel l => by
    have h1 := argsUsages_le s none (c.enterField s nm.value).fieldDef args
    have h2 := dirsUsages_le s dirs
    have h3 := optUsages_le s (c.enterField s nm.value) sel
    simp only [selUsages, nodesSel, List.length_append]; omega
  | c, .spread n dirs l => by
    have h2 := dirsUsages_le s dirs
    simp only [selUsages, nodesSel]; omega
  | c, .inline tc dirs ss l => by
    have h2 := dirsUsages_le s dirs
    have h3 := setUsages_le s (c.enterInline s tc) ss
    simp only [selUsages, nodesSel, List.length_append]; omega
theorem setUsages_le (s : Schema) : ∀ (c : TCtx) (x : SelectionSet), (setUsages s c x).length ≤ nodesSet x
  | c, .mk sels l => by
    have := selsUsages_le s (c.enterSelSet s) sels
    simp only [setUsages, nodesSet]; omega
theorem optUsages_le (s : Schema) : ∀ (c : TCtx) (x : Option SelectionSet), (optUsages s c x).length ≤ nodesOpt x
  | c, none => by simp [optUsages, nodesOpt]
  | c, some ss => by simpa [optUsages, nodesOpt] using setUsages_le s c ss
theorem selsUsages_le (s : Schema) : ∀ (c : TCtx) (x : List Selection), (selsUsages s c x).length ≤ nodesSels x
  | c, [] => by simp [selsUsages, nodesSels]
  | c, x :: xs => by
    have := selUsages_le s c x
    have := selsUsages_le s c xs
    simp only [selsUsages, nodesSels, List.length_append]; omega
end

theorem varUsagesOp_le (s : Schema) (o : Op) : (varUsagesOp s o).length ≤ nodesOp o := by
  have h1 := dirsUsages_le s o.dirs
  have h2 := setUsages_le s (TCtx.enterOp s o.kind) o.sel
  simp only [varUsagesOp, nodesOp, List.length_append]; omega

theorem varUsagesFrag_le (s : Schema) (f : Frag) : (varUsagesFrag s f).length ≤ nodesFrag f := by
  have h1 := dirsUsages_le s f.dirs
  have h2 := setUsages_le s (TCtx.enterFragment s f.typeCond) f.sel
  simp only [varUsagesFrag, nodesFrag, List.length_append]; omega

theorem vars_le_nodesOp (o : Op) : o.vars.length ≤ nodesOp o := by
  have : o.vars.length ≤ (o.vars.map nodesVarDef).sum := by
    generalize o.vars = vs
    induction vs with
    | nil => simp
    | cons v rest ih => simp only [List.length_cons, List.map_cons, List.sum_cons, nodesVarDef]; omega
  simp only [nodesOp]; omega

theorem nodesSet_le_op (o : Op) : nodesSet o.sel ≤ nodesOp o := by simp only [nodesOp]; omega
theorem nodesSet_le_frag (f : Frag) : nodesSet f.sel ≤ nodesFrag f := by simp only [nodesFrag]; omega

theorem maxSpreads_le (tbl : List Frag) (B : Nat) (h : ∀ f, f ∈ tbl → nSpreadsSet f.sel ≤ B) : maxSpreads tbl ≤ B := by
  induction tbl with
  | nil => simp [maxSpreads]
  | cons f rest ih =>
    have := h f List.mem_cons_self
    have := ih (fun g hg => h g (List.mem_cons_of_mem _ hg))
    simp only [maxSpreads]; omega

theorem maxFs_le (tbl : List Frag) (B : Nat) (h : ∀ f, f ∈ tbl → fsSteps f.sel ≤ B) : maxFs tbl ≤ B := by
  induction tbl with
  | nil => simp [maxFs]
  | cons f rest ih =>
    have := h f List.mem_cons_self
    have := ih (fun g hg => h g (List.mem_cons_of_mem _ hg))
    simp only [maxFs]; omega

/-- the concatenated usages of an operation: its own plus those of the closure -/
theorem recursiveUsages_length (s : Schema) (tbl : List Frag) (o : Op) :
    (recursiveUsages s tbl o).length =
      (varUsagesOp s o).length + ((recursivelyReferenced tbl o.sel).map (fun f => (varUsagesFrag s f).length)).sum := by
  simp only [recursiveUsages, List.length_append, List.length_flatMap]

/-- the cycle rule's work, from the counter bounds -/
theorem cyclesWork_le (tbl : List Frag) (X S : Nat) (hS : maxSpreads tbl ≤ S) :
    cyclesWork tbl X ≤ cyclesBound tbl.length S X := by
  obtain ⟨h1, h2, h3⟩ := cycleRunC_le tbl
  simp only [cyclesWork, cyclesBound]
  generalize (cycleRunC tbl).2.calls = c at *
  generalize (cycleRunC tbl).2.iters = i at *
  generalize (cycleRunC tbl).2.errLen = e at *
  have a1 : c * (1 + X) ≤ tbl.length * (1 + X) := Nat.mul_le_mul_right _ h1
  have a2 : i ≤ tbl.length * S := Nat.le_trans h2 (Nat.mul_le_mul h1 hS)
  have a3 : e ≤ tbl.length * S * (tbl.length + 2) := Nat.le_trans h3 (Nat.mul_le_mul_right _ a2)
  omega

/-! ## the work of the five graph rules -/

theorem sum_map_le_mul_add {α : Type} (g h : α → Nat) (l : List α) (B : Nat) (hle : ∀ x, x ∈ l → g x ≤ B + h x) :
    (l.map g).sum ≤ l.length * B + (l.map h).sum := by
  induction l with
  | nil => simp
  | cons x xs ih =>
    have h1 := hle x List.mem_cons_self
    have h2 := ih (fun y hy => hle y (List.mem_cons_of_mem _ hy))
    simp only [List.map_cons, List.sum_cons, List.length_cons, Nat.succ_mul]; omega

section
variable (s : Schema) (d : Document)

/-- total nodes of the operation / fragment definitions -/
def opNodes (d : Document) : Nat := ((opDefs d).map nodesOp).sum
def fragNodes (d : Document) : Nat := ((fragDefs d).map nodesFrag).sum

theorem docNodes_split : docNodes d = opNodes d + fragNodes d := rfl

theorem popSum_map_sel (fsCost) (l : List Frag) :
    popSum fsCost (l.map (·.sel)) = (l.map (fun f => popCost fsCost f.sel)).sum := by
  simp [popSum, List.map_map, Function.comp_def]

theorem rrfSteps_uncached_le (o : Op) :
    rrfSteps (fragDefs d) fsSteps o.sel ≤ 1 + (fragDefs d).length + 2 * (nodesOp o + fragNodes d) := by
  obtain ⟨h1, _, h3, h4⟩ := rrfSteps_eq (fragDefs d) fsSteps o.sel
  rw [h1, popSum_map_sel]
  have hs := sum_le_of_distinct_names (fun f => popCost fsSteps f.sel) _ (fragDefs d) h4 h3
  have hb : ((fragDefs d).map (fun f => popCost fsSteps f.sel)).sum ≤
      (fragDefs d).length * 1 + ((fragDefs d).map (fun f => 2 * nodesFrag f)).sum :=
    sum_map_le_mul_add _ _ _ 1 (fun f _ => by
      have := fsSteps_le_nodes f.sel
      have := nSpreads_le_nodes f.sel
      have := nodesSet_le_frag f
      simp only [popCost]; omega)
  have h2 : ((fragDefs d).map (fun f => 2 * nodesFrag f)).sum = 2 * fragNodes d := by
    simp only [fragNodes]
    generalize fragDefs d = l
    induction l with
    | nil => simp
    | cons f rest ih => simp only [List.map_cons, List.sum_cons, ih]; omega
  have := fsSteps_le_nodes o.sel
  have := nSpreads_le_nodes o.sel
  have := nodesSet_le_op o
  have hp : popCost fsSteps o.sel = 1 + fsSteps o.sel + nSpreadsSet o.sel := rfl
  rw [hp]
  omega

theorem rrfSteps_cached_le (o : Op) :
    rrfSteps (fragDefs d) (fun _ => 1) o.sel ≤
      2 + nSpreadsSet o.sel + 2 * (fragDefs d).length + ((fragDefs d).map (fun f => nSpreadsSet f.sel)).sum := by
  obtain ⟨h1, _, h3, h4⟩ := rrfSteps_eq (fragDefs d) (fun _ => 1) o.sel
  rw [h1, popSum_map_sel]
  have hs := sum_le_of_distinct_names (fun f => popCost (fun _ => 1) f.sel) _ (fragDefs d) h4 h3
  have hb : ((fragDefs d).map (fun f => popCost (fun _ => 1) f.sel)).sum ≤
      (fragDefs d).length * 2 + ((fragDefs d).map (fun f => nSpreadsSet f.sel)).sum :=
    sum_map_le_mul_add _ _ _ 2 (fun f _ => by simp only [popCost]; omega)
  have hp : popCost (fun _ => 1) o.sel = 1 + 1 + nSpreadsSet o.sel := rfl
  rw [hp]
  omega

theorem closure_usages_le (o : Op) :
    ((recursivelyReferenced (fragDefs d) o.sel).map (fun f => (varUsagesFrag s f).length)).sum ≤
      ((fragDefs d).map (fun f => (varUsagesFrag s f).length)).sum := by
  obtain ⟨_, _, h3, h4⟩ := rrfSteps_eq (fragDefs d) fsSteps o.sel
  exact sum_le_of_distinct_names _ _ _ h4 h3

theorem closure_traversals_le (o : Op) :
    ((recursivelyReferenced (fragDefs d) o.sel).map (fun f => vuCostFrag f + (varUsagesFrag s f).length)).sum ≤
      3 * fragNodes d := by
  obtain ⟨_, _, h3, h4⟩ := rrfSteps_eq (fragDefs d) fsSteps o.sel
  have h := sum_le_of_distinct_names (fun f => vuCostFrag f + (varUsagesFrag s f).length) _ _ h4 h3
  have hb : ((fragDefs d).map (fun f => vuCostFrag f + (varUsagesFrag s f).length)).sum ≤
      ((fragDefs d).map (fun f => 3 * nodesFrag f)).sum :=
    sum_map_le_sum_map _ _ _ (fun f _ => by
      have := varUsagesFrag_le s f
      simp only [vuCostFrag]; omega)
  have h2 : ((fragDefs d).map (fun f => 3 * nodesFrag f)).sum = 3 * fragNodes d := by
    simp only [fragNodes]
    generalize fragDefs d = l
    induction l with
    | nil => simp
    | cons f rest ih => simp only [List.map_cons, List.sum_cons, ih]; omega
  omega

theorem fragUsages_le_fragNodes :
    ((fragDefs d).map (fun f => (varUsagesFrag s f).length)).sum ≤ fragNodes d :=
  sum_map_le_sum_map _ _ _ (fun f _ => varUsagesFrag_le s f)

theorem fragSpreads_le_fragNodes : ((fragDefs d).map (fun f => nSpreadsSet f.sel)).sum ≤ fragNodes d :=
  sum_map_le_sum_map _ _ _ (fun f _ => Nat.le_trans (nSpreads_le_nodes f.sel) (nodesSet_le_frag f))

theorem maxSpreads_le_docSpreads : maxSpreads (fragDefs d) ≤ docSpreads d := by
  apply maxSpreads_le
  intro f hf
  have := le_sum_map_of_mem (fun f => nSpreadsSet f.sel) (fragDefs d) f hf
  simp only [docSpreads]; omega

theorem docSpreads_le_docNodes : docSpreads d ≤ docNodes d := by
  have h1 : ((opDefs d).map (fun o => nSpreadsSet o.sel)).sum ≤ opNodes d :=
    sum_map_le_sum_map _ _ _ (fun o _ => Nat.le_trans (nSpreads_le_nodes o.sel) (nodesSet_le_op o))
  have h2 := fragSpreads_le_fragNodes d
  simp only [docSpreads, docNodes_split]; omega

theorem docUsages_le_docNodes : docUsages s d ≤ docNodes d := by
  have h1 : ((opDefs d).map (fun o => (varUsagesOp s o).length)).sum ≤ opNodes d :=
    sum_map_le_sum_map _ _ _ (fun o _ => varUsagesOp_le s o)
  have h2 := fragUsages_le_fragNodes s d
  simp only [docUsages, docNodes_split]; omega

/-- WITHOUT the caches -/
theorem graphWorkUncached_le :
    graphWorkUncached s d ≤ graphBoundUncached (nOps d) (nFragDefs d) (docNodes d) := by
  have hN := docNodes_split d
  -- cycles
  have hS : maxSpreads (fragDefs d) ≤ docNodes d :=
    Nat.le_trans (maxSpreads_le_docSpreads d) (docSpreads_le_docNodes d)
  have hX : maxFs (fragDefs d) ≤ docNodes d := by
    apply maxFs_le
    intro f hf
    have := fsSteps_le_nodes f.sel
    have := nodesSet_le_frag f
    have := le_sum_map_of_mem nodesFrag (fragDefs d) f hf
    simp only [docNodes_split, fragNodes]; omega
  have hc := cyclesWork_le (fragDefs d) (maxFs (fragDefs d)) (docNodes d) hS
  have hc2 : cyclesBound (fragDefs d).length (docNodes d) (maxFs (fragDefs d)) ≤
      cyclesBound (fragDefs d).length (docNodes d) (docNodes d) := by
    simp only [cyclesBound]
    have := Nat.mul_le_mul_left (fragDefs d).length (Nat.add_le_add_left hX 1)
    omega
  -- per operation
  have hA : ((opDefs d).map (fun o => rrfSteps (fragDefs d) fsSteps o.sel)).sum ≤
      (opDefs d).length * (1 + (fragDefs d).length + 2 * docNodes d) :=
    sum_map_le_mul _ _ _ (fun o ho => by
      have := rrfSteps_uncached_le d o
      have := le_sum_map_of_mem nodesOp (opDefs d) o ho
      simp only [docNodes_split, opNodes]; omega)
  have hB : ((opDefs d).map (fun o =>
      3 * (recUsagesWork s (fragDefs d) fsSteps o + (recursiveUsages s (fragDefs d) o).length) + o.vars.length)).sum ≤
      (opDefs d).length * (3 + 3 * (fragDefs d).length + 19 * docNodes d) :=
    sum_map_le_mul _ _ _ (fun o ho => by
      have h1 := rrfSteps_uncached_le d o
      have h2 := le_sum_map_of_mem nodesOp (opDefs d) o ho
      have h3 := closure_traversals_le s d o
      have h4 := closure_usages_le s d o
      have h5 := fragUsages_le_fragNodes s d
      have h6 := varUsagesOp_le s o
      have h7 := vars_le_nodesOp o
      rw [recursiveUsages_length]
      simp only [recUsagesWork, vuCostOp, docNodes_split, opNodes] at *
      omega)
  simp only [graphWorkUncached, graphBoundUncached, nOps, nFragDefs]
  have e : (opDefs d).length * (4 + 4 * (fragDefs d).length + 21 * docNodes d) =
      (opDefs d).length * (1 + (fragDefs d).length + 2 * docNodes d) +
      (opDefs d).length * (3 + 3 * (fragDefs d).length + 19 * docNodes d) := by
    rw [← Nat.mul_add]; congr 1; omega
  rw [e]
  omega

/-- WITH the caches (the code as it is) -/
theorem graphWorkCached_le :
    graphWorkCached s d ≤ graphBoundCached (nOps d) (nFragDefs d) (docNodes d) (docSpreads d) (docUsages s d) := by
  have hN := docNodes_split d
  have hc := cyclesWork_le (fragDefs d) 1 (docSpreads d) (maxSpreads_le_docSpreads d)
  have h1 : ((opDefs d).map (fun o => fsSteps o.sel)).sum ≤ opNodes d :=
    sum_map_le_sum_map _ _ _ (fun o _ => Nat.le_trans (fsSteps_le_nodes o.sel) (nodesSet_le_op o))
  have h2 : ((fragDefs d).map (fun f => fsSteps f.sel)).sum ≤ fragNodes d :=
    sum_map_le_sum_map _ _ _ (fun f _ => Nat.le_trans (fsSteps_le_nodes f.sel) (nodesSet_le_frag f))
  have h3 : ((opDefs d).map vuCostOp).sum = 2 * opNodes d := by
    simp only [opNodes]
    generalize opDefs d = l
    induction l with
    | nil => simp
    | cons o rest ih => simp only [List.map_cons, List.sum_cons, ih, vuCostOp]; omega
  have h4 : ((fragDefs d).map vuCostFrag).sum = 2 * fragNodes d := by
    simp only [fragNodes]
    generalize fragDefs d = l
    induction l with
    | nil => simp
    | cons f rest ih => simp only [List.map_cons, List.sum_cons, ih, vuCostFrag]; omega
  have hU : ∀ o, o ∈ opDefs d → (recursiveUsages s (fragDefs d) o).length ≤ docUsages s d := by
    intro o ho
    rw [recursiveUsages_length]
    have := closure_usages_le s d o
    have := le_sum_map_of_mem (fun o => (varUsagesOp s o).length) (opDefs d) o ho
    simp only [docUsages]; omega
  have h5 : ((opDefs d).map (fun o => rrfSteps (fragDefs d) (fun _ => 1) o.sel +
      (recursiveUsages s (fragDefs d) o).length + (recursivelyReferenced (fragDefs d) o.sel).length)).sum ≤
      (opDefs d).length * (2 + 3 * (fragDefs d).length + docSpreads d + docUsages s d) :=
    sum_map_le_mul _ _ _ (fun o ho => by
      have a := rrfSteps_cached_le d o
      have b := hU o ho
      have c := (rrfSteps_eq (fragDefs d) fsSteps o.sel).2.1
      have e := le_sum_map_of_mem (fun o => nSpreadsSet o.sel) (opDefs d) o ho
      simp only [docSpreads] at *
      omega)
  have h6 : ((opDefs d).map (fun o => 3 * (1 + (recursiveUsages s (fragDefs d) o).length) + o.vars.length)).sum ≤
      (opDefs d).length * (3 + 3 * docUsages s d) + opNodes d :=
    sum_map_le_mul_add _ nodesOp _ _ (fun o ho => by
      have b := hU o ho
      have c := vars_le_nodesOp o
      omega)
  simp only [graphWorkCached, graphBoundCached, nOps, nFragDefs]
  have e : (opDefs d).length * (6 + 3 * (fragDefs d).length + docSpreads d + 4 * docUsages s d) =
      (opDefs d).length * (2 + 3 * (fragDefs d).length + docSpreads d + docUsages s d) +
      (opDefs d).length * (3 + 3 * docUsages s d) + (opDefs d).length := by
    rw [← Nat.mul_add, ← Nat.mul_succ]; congr 1; omega
  rw [e]
  omega

end

end GqlModel.Validate.Graph
