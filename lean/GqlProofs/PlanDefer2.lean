import GqlProofs.PlanDefer
/-! # `GenP`: the induction steps -/
namespace GqlModel.Plan
open GqlModel.Exec GqlModel.Coerce

section gen
variable {c : Ctx} {pv : Option Vars} {rank : String → Nat} {F : Nat}

local notation "alt0" => recompute c.schema c.frags pv

theorem genP_groups (fuel : Nat) (ih : GenP c pv rank F fuel) :
    ∀ dfr rt src path sid fps accS acc st mst rS stS, (∀ fp ∈ fps, FpOK c.schema rt (NodeOK c pv rank) fp) →
    SVf c pv rank F acc accS → execGroups c (fuel + 1) dfr rt src path (groupsOf fps) accS st = (rS, stS) → rS ≠ .fuelOut →
    stS.kfThunk = st.kfThunk →
    match rS with
    | .ok fs => ∃ pfs, (mGroups c alt0 (fuel + 1) dfr rt src path sid fps acc mst).1 = .ok pfs ∧ SVf c pv rank F pfs fs
    | .fail => (mGroups c alt0 (fuel + 1) dfr rt src path sid fps acc mst).1 = .fail
    | .fuelOut => False := by
  intro dfr rt src path sid fps accS acc st mst rS stS hok hacc h hr hkf
  cases fps with
  | nil =>
    simp only [groupsOf, List.map_nil, execGroups, Prod.mk.injEq] at h
    obtain ⟨rfl, rfl⟩ := h
    simp only [mGroups]
    exact ⟨acc, rfl, hacc⟩
  | cons fp rest =>
    have hfp := hok fp List.mem_cons_self
    have hrest : ∀ fp' ∈ rest, FpOK c.schema rt (NodeOK c pv rank) fp' := fun fp' hm => hok fp' (List.mem_cons_of_mem _ hm)
    obtain ⟨n0, ch0, tl, hnodes, hname, hdef, hargs⟩ := hfp.head
    have hhead : fp.fieldNodes.head? = some n0 := by simp [FieldPlan.fieldNodes, hnodes]
    have hg : groupsOf (fp :: rest) = (fp.key, fp.fieldNodes) :: groupsOf rest := rfl
    rw [hg] at h
    simp only [execGroups, hhead] at h
    rw [← hdef] at h
    simp only [mGroups, hfp.pred, Pred.eval, List.all_nil, Bool.not_true, Bool.false_eq_true, if_false]
    cases hfd : fp.fieldDef with
    | none =>
      simp only [hfd] at h
      exact ih.groups _ _ _ _ _ _ _ _ _ mst _ _ hrest hacc h hr hkf
    | some fd =>
      simp only [hfd] at h
      have hk1 := kfExt_field c fuel dfr rt src (path ++ [.key fp.key]) fd fp.fieldNodes st
      rcases hS : execField c fuel dfr rt src (path ++ [.key fp.key]) fd fp.fieldNodes st with ⟨r1, st1⟩
      rw [hS] at h hk1
      simp only at hk1
      rcases hM1 : mField c alt0 fuel dfr rt src (path ++ [.key fp.key]) (sid ++ [(rt, fp.key)]) fp fd mst with ⟨rM1, mst1⟩
      cases r1 with
      | ok j =>
        simp only at h
        have hk2 := kfExt_groups c fuel dfr rt src path (groupsOf rest) (accS ++ [(fp.key, j)]) st1
        rw [h] at hk2
        simp only at hk2
        obtain ⟨hkA, hkB⟩ := KfExt.same hk1 hk2 hkf
        have hf := ih.field dfr rt src (path ++ [.key fp.key]) (sid ++ [(rt, fp.key)]) fp fd st mst _ _ hfp hfd hS (by simp) hkA
        simp only [hM1] at hf
        obtain ⟨x, hx, hsv⟩ := hf
        subst hx
        simp only [hM1]
        exact ih.groups _ _ _ _ _ _ _ _ _ mst1 _ _ hrest (svf_append hsv hacc) h hr hkB
      | fail =>
        simp only [Prod.mk.injEq] at h
        obtain ⟨rfl, rfl⟩ := h
        have hf := ih.field dfr rt src (path ++ [.key fp.key]) (sid ++ [(rt, fp.key)]) fp fd st mst _ _ hfp hfd hS (by simp) hkf
        simp only [hM1] at hf
        subst hf
        simp only [hM1]
      | fuelOut =>
        simp only [Prod.mk.injEq] at h
        exact absurd h.1.symm hr

theorem genP_field (fuel : Nat) (ih : GenP c pv rank F fuel) :
    ∀ dfr rt src p fid fp fd st mst rS stS, FpOK c.schema rt (NodeOK c pv rank) fp → fp.fieldDef = some fd →
    execField c (fuel + 1) dfr rt src p fd fp.fieldNodes st = (rS, stS) → rS ≠ .fuelOut → stS.kfThunk = st.kfThunk →
    match rS with
    | .ok j => ∃ x, (mField c alt0 (fuel + 1) dfr rt src p fid fp fd mst).1 = .ok x ∧ SV c pv rank F x j
    | .fail => (mField c alt0 (fuel + 1) dfr rt src p fid fp fd mst).1 = .fail
    | .fuelOut => False := by
  intro dfr rt src p fid fp fd st mst rS stS hfp hfd h hr hkf
  obtain ⟨n0, ch0, tl, hnodes, hname, hdef, hargs⟩ := hfp.head
  have hhead : fp.fieldNodes.head? = some n0 := by simp [FieldPlan.fieldNodes, hnodes]
  simp only [execField, hhead] at h
  simp only [mField]
  by_cases hn : (fd.name == "__typename") = true
  · simp only [hn, if_true, Prod.mk.injEq] at h ⊢
    obtain ⟨rfl, rfl⟩ := h
    exact ⟨_, rfl, .leaf _⟩
  · simp only [hn, Bool.false_eq_true, if_false] at h ⊢
    generalize hst0 : ({ st with log := _ :: st.log } : St) = st0 at h
    have hk0 : st0.kfThunk = st.kfThunk := by rw [← hst0]
    generalize hmst0 : mst.logEv _ = mst0
    cases hout : c.world.outcome src fd.name with
    | fail =>
      simp only [hout] at h ⊢
      by_cases hnn : fd.type.isNonNull = true
      · simp only [hnn, if_true, Prod.mk.injEq] at h ⊢
        obtain ⟨rfl, rfl⟩ := h
        trivial
      · simp only [hnn, Bool.false_eq_true, if_false, Prod.mk.injEq] at h ⊢
        obtain ⟨rfl, rfl⟩ := h
        exact ⟨_, rfl, .leaf _⟩
    | value v =>
      simp only [hout] at h ⊢
      have hk1 := kfExt_complete c fuel dfr fd.type rt fd.name fp.fieldNodes p v st0
      rcases hS0 : complete c fuel dfr fd.type rt fd.name fp.fieldNodes p v st0 with ⟨r1, st1⟩
      rw [hS0] at h hk1
      simp only at hk1
      have hS : complete c fuel dfr fd.type rt fp.fieldName fp.fieldNodes p v st0 = (r1, st1) := by
        rw [← fpOK_fieldName hfp hfd]; exact hS0
      rcases hM1 : mComplete c alt0 fuel dfr fd.type rt fid fp p v mst0 with ⟨rM1, mst1⟩
      cases r1 with
      | ok j =>
        simp only [Prod.mk.injEq] at h
        obtain ⟨rfl, rfl⟩ := h
        have hc := ih.complete dfr fd.type rt fid fp p v st0 mst0 _ _ hfp.nodes hS (by simp) (by rw [hkf, hk0])
        simp only [CompleteRel, hM1] at hc
        obtain ⟨x, hx, hsv⟩ := hc
        subst hx
        exact ⟨x, rfl, hsv⟩
      | fail =>
        simp only at h
        have hkS : st1.kfThunk = st0.kfThunk := by
          by_cases hnn : fd.type.isNonNull = true
          · simp only [hnn, if_true, Prod.mk.injEq] at h; rw [h.2, hkf, hk0]
          · simp only [hnn, Bool.false_eq_true, if_false, Prod.mk.injEq] at h; rw [h.2, hkf, hk0]
        have hc := ih.complete dfr fd.type rt fid fp p v st0 mst0 _ _ hfp.nodes hS (by simp) hkS
        simp only [CompleteRel, hM1] at hc
        by_cases hnn : fd.type.isNonNull = true
        · simp only [hnn, if_true, Prod.mk.injEq] at h
          obtain ⟨rfl, rfl⟩ := h
          rcases hc with hc | ⟨cl, _, _, hnull, _⟩
          · subst hc; simp only [hnn, if_true]
          · rw [hnn] at hnull; cases hnull
        · simp only [hnn, Bool.false_eq_true, if_false, Prod.mk.injEq] at h
          obtain ⟨rfl, rfl⟩ := h
          rcases hc with hc | ⟨cl, hcl, _, _, hwit⟩
          · subst hc; simp only [hnn, Bool.false_eq_true, if_false]; exact ⟨_, rfl, .leaf _⟩
          · subst hcl; exact ⟨_, rfl, .deferred hwit⟩
      | fuelOut =>
        simp only [Prod.mk.injEq] at h
        exact absurd h.1.symm hr

theorem genP_items (fuel : Nat) (ih : GenP c pv rank F fuel) :
    ∀ dfr item rt fid fp p xs i accS acc st mst rS stS, (∀ x ∈ fp.nodes, NodeOK c pv rank x.1 x.2) →
    SVl c pv rank F acc accS →
    completeItems c (fuel + 1) dfr item rt fp.fieldName fp.fieldNodes p xs i accS st = (rS, stS) → rS ≠ .fuelOut →
    stS.kfThunk = st.kfThunk →
    match rS with
    | .ok js => ∃ ys, (mItems c alt0 (fuel + 1) dfr item rt fid fp p xs i acc mst).1 = .ok ys ∧ SVl c pv rank F ys js
    | .fail => (mItems c alt0 (fuel + 1) dfr item rt fid fp p xs i acc mst).1 = .fail
    | .fuelOut => False := by
  intro dfr item rt fid fp p xs i accS acc st mst rS stS hn hacc h hr hkf
  cases xs with
  | nil =>
    simp only [completeItems, Prod.mk.injEq] at h
    obtain ⟨rfl, rfl⟩ := h
    simp only [mItems]
    exact ⟨acc, rfl, hacc⟩
  | cons x xs =>
    simp only [completeItems] at h
    simp only [mItems]
    have hk1 := kfExt_complete c fuel dfr item rt fp.fieldName fp.fieldNodes (p ++ [.idx i]) x st
    rcases hS : complete c fuel dfr item rt fp.fieldName fp.fieldNodes (p ++ [.idx i]) x st with ⟨r1, st1⟩
    rw [hS] at h hk1
    simp only at hk1
    rcases hM1 : mComplete c alt0 fuel dfr item rt fid fp (p ++ [.idx i]) x mst with ⟨rM1, mst1⟩
    cases r1 with
    | ok j =>
      simp only at h
      have hk2 := kfExt_items c fuel dfr item rt fp.fieldName fp.fieldNodes p xs (i + 1) (accS ++ [j]) st1
      rw [h] at hk2
      simp only at hk2
      obtain ⟨hkA, hkB⟩ := KfExt.same hk1 hk2 hkf
      have hc := ih.complete dfr item rt fid fp (p ++ [.idx i]) x st mst _ _ hn hS (by simp) hkA
      simp only [CompleteRel, hM1] at hc
      obtain ⟨y, hy, hsv⟩ := hc
      subst hy
      simp only [hM1]
      exact ih.items _ _ _ _ _ _ _ _ _ _ _ mst1 _ _ hn (svl_append hsv hacc) h hr hkB
    | fail =>
      simp only at h
      by_cases hnn : item.isNonNull = true
      · simp only [hnn, if_true, Prod.mk.injEq] at h
        obtain ⟨rfl, rfl⟩ := h
        have hc := ih.complete dfr item rt fid fp (p ++ [.idx i]) x st mst _ _ hn hS (by simp) hkf
        simp only [CompleteRel, hM1] at hc
        rcases hc with hc | ⟨cl, _, _, hnull, _⟩
        · subst hc; simp only [hM1, hnn, if_true]
        · rw [hnn] at hnull; cases hnull
      · simp only [hnn, Bool.false_eq_true, if_false] at h
        have hk2 := kfExt_items c fuel dfr item rt fp.fieldName fp.fieldNodes p xs (i + 1) (accS ++ [.null]) st1
        rw [h] at hk2
        simp only at hk2
        obtain ⟨hkA, hkB⟩ := KfExt.same hk1 hk2 hkf
        have hc := ih.complete dfr item rt fid fp (p ++ [.idx i]) x st mst _ _ hn hS (by simp) hkA
        simp only [CompleteRel, hM1] at hc
        rcases hc with hc | ⟨cl, hcl, _, _, hwit⟩
        · subst hc
          simp only [hM1, hnn, Bool.false_eq_true, if_false]
          exact ih.items _ _ _ _ _ _ _ _ _ _ _ mst1 _ _ hn (svl_append (.leaf _) hacc) h hr hkB
        · subst hcl
          simp only [hM1]
          exact ih.items _ _ _ _ _ _ _ _ _ _ _ mst1 _ _ hn (svl_append (.deferred hwit) hacc) h hr hkB
    | fuelOut =>
      simp only [Prod.mk.injEq] at h
      exact absurd h.1.symm hr

end gen

end GqlModel.Plan
