import GqlProofs.CoerceBasic
/-! C05: text of numbers: rendering an integer / canonical decimal and reading it back (literal ↔ value agreement). -/
set_option linter.unusedSimpArgs false
namespace GqlModel.Coerce

theorem isDigit_ne {c d : Char} (hc : c.isDigit = true) (hd : d.isDigit = false) : c ≠ d := by
  intro h; subst h; rw [hc] at hd; cases hd

theorem allDigits_toDigits (n : Nat) : allDigits (Nat.toDigits 10 n) = true := by
  unfold allDigits
  simp only [Bool.and_eq_true, Bool.not_eq_true', List.all_eq_true]
  refine ⟨?_, fun c hc => Nat.isDigit_of_mem_toDigits (by decide) (by decide) hc⟩
  cases h : Nat.toDigits 10 n with
  | nil => exact absurd h Nat.toDigits_ne_nil
  | cons c cs => rfl

theorem natOfDigits_toDigits (n : Nat) : natOfDigits (Nat.toDigits 10 n) = some n := by
  unfold natOfDigits
  simp [allDigits_toDigits, Nat.ofDigitChars_ten_toDigits]

theorem intOfChars_digits {cs : List Char} (h : allDigits cs = true) :
    intOfChars cs = (natOfDigits cs).map (fun n => (n : Int)) := by
  cases cs with
  | nil => simp [allDigits] at h
  | cons c cs =>
    have hc : c.isDigit = true := by
      simp only [allDigits, Bool.and_eq_true, List.all_eq_true] at h
      exact h.2 c (by simp)
    have : c ≠ '-' := isDigit_ne hc (by decide)
    unfold intOfChars
    split
    · rename_i heq; simp at heq; exact absurd heq.1 this
    · rfl

theorem intOfChars_intChars (i : Int) : intOfChars (intChars i) = some i := by
  unfold intChars
  split
  · rename_i h
    simp only [intOfChars, natOfDigits_toDigits]
    simp; omega
  · rename_i h
    rw [intOfChars_digits (allDigits_toDigits _), natOfDigits_toDigits]
    simp; omega


theorem splitDot_digits {cs : List Char} (h : ∀ c ∈ cs, c.isDigit = true) : splitDot cs = (cs, none) := by
  induction cs with
  | nil => rfl
  | cons c cs ih =>
    have hc : c ≠ '.' := isDigit_ne (h c (by simp)) (by decide)
    simp only [splitDot, beq_iff_eq, hc, if_false, ih (fun d hd => h d (by simp [hd]))]

theorem splitDot_append_dot {a b : List Char} (h : ∀ c ∈ a, c.isDigit = true) :
    splitDot (a ++ '.' :: b) = (a, some b) := by
  induction a with
  | nil => simp [splitDot]
  | cons c cs ih =>
    have hc : c ≠ '.' := isDigit_ne (h c (by simp)) (by decide)
    simp only [List.cons_append, splitDot, beq_iff_eq, hc, if_false, ih (fun d hd => h d (by simp [hd]))]

def noExpChar (c : Char) : Bool := c != 'e' && c != 'E'

theorem splitExp_noexp {cs : List Char} (h : ∀ c ∈ cs, noExpChar c = true) : splitExp cs = (cs, none) := by
  induction cs with
  | nil => rfl
  | cons c cs ih =>
    have hc := h c (by simp)
    simp only [noExpChar, Bool.and_eq_true, bne_iff_ne, ne_eq] at hc
    simp only [splitExp, ih (fun d hd => h d (by simp [hd]))]
    simp [hc.1, hc.2]

theorem noExp_of_digit {c : Char} (h : c.isDigit = true) : noExpChar c = true := by
  simp only [noExpChar, Bool.and_eq_true, bne_iff_ne, ne_eq]
  exact ⟨isDigit_ne h (by decide), isDigit_ne h (by decide)⟩

theorem digits_of_allDigits {cs : List Char} (h : allDigits cs = true) : ∀ c ∈ cs, c.isDigit = true := by
  simp only [allDigits, Bool.and_eq_true, List.all_eq_true] at h
  exact h.2

theorem parseDec_digits {cs : List Char} (h : allDigits cs = true) :
    parseDec cs = (unsignedDec cs).map (fun p => ((p.1 : Int), p.2)) := by
  cases cs with
  | nil => simp [allDigits] at h
  | cons c cs =>
    have hc : c.isDigit = true := digits_of_allDigits h c (by simp)
    have : c ≠ '-' := isDigit_ne hc (by decide)
    unfold parseDec
    split
    · rename_i heq; simp at heq; exact absurd heq.1 this
    · rfl

theorem unsignedDec_toDigits (n : Nat) : unsignedDec (Nat.toDigits 10 n) = some (n, 0) := by
  unfold unsignedDec
  rw [splitDot_digits (digits_of_allDigits (allDigits_toDigits n))]
  simp [natOfDigits_toDigits]

theorem parseDec_intChars (i : Int) : parseDec (intChars i) = some (i, 0) := by
  unfold intChars
  split
  · rename_i h
    simp only [parseDec, unsignedDec_toDigits]
    simp; omega
  · rename_i h
    rw [parseDec_digits (allDigits_toDigits _), unsignedDec_toDigits]
    simp; omega

theorem noExp_intChars (i : Int) : ∀ c ∈ intChars i, noExpChar c = true := by
  intro c hc
  unfold intChars at hc
  split at hc
  · rcases List.mem_cons.mp hc with rfl | hc
    · decide
    · exact noExp_of_digit (digits_of_allDigits (allDigits_toDigits _) c hc)
  · exact noExp_of_digit (digits_of_allDigits (allDigits_toDigits _) c hc)

theorem parseFloatLit_intChars (i : Int) : parseFloatLit (intChars i) = some (.int i) := by
  unfold parseFloatLit
  rw [splitExp_noexp (noExp_intChars i)]
  simp [parseDec_intChars, normDec]


theorem parseDec_head_digit {c : Char} {cs : List Char} (hc : c.isDigit = true) :
    parseDec (c :: cs) = (unsignedDec (c :: cs)).map (fun p => ((p.1 : Int), p.2)) := by
  have : c ≠ '-' := isDigit_ne hc (by decide)
  unfold parseDec
  split
  · rename_i heq; simp at heq; exact absurd heq.1 this
  · rfl

theorem normDec_canonical (m : Int) (e : Nat) (hm : m % 10 ≠ 0) (he : 0 < e) : normDec m e = .dec m e := by
  cases e with
  | zero => cases he
  | succ e => simp [normDec, hm]

theorem parseFloatLit_decChars (m : Int) (e : Nat) (hm : m % 10 ≠ 0) (he : 0 < e) :
    parseFloatLit (decChars m e) = some (.dec m e) := by
  -- the padded digit string
  let ds := Nat.toDigits 10 m.natAbs
  let pad := List.replicate (e + 1 - ds.length) '0' ++ ds
  let k := pad.length - e
  have hds : ∀ c ∈ ds, c.isDigit = true := digits_of_allDigits (allDigits_toDigits _)
  have hpad : ∀ c ∈ pad, c.isDigit = true := by
    intro c hc
    rcases List.mem_append.mp hc with h | h
    · rw [(List.mem_replicate.mp h).2]; decide
    · exact hds c h
  have hlen : e + 1 ≤ pad.length := by
    simp only [pad, List.length_append, List.length_replicate]; omega
  have hval : Nat.ofDigitChars 10 pad 0 = m.natAbs := by
    simp only [pad, Nat.ofDigitChars_append, Nat.ofDigitChars_replicate_zero, Nat.mul_zero]
    exact Nat.ofDigitChars_ten_toDigits
  have ha : ∀ c ∈ pad.take k, c.isDigit = true := fun c hc => hpad c (List.mem_of_mem_take hc)
  have hb : ∀ c ∈ pad.drop k, c.isDigit = true := fun c hc => hpad c (List.mem_of_mem_drop hc)
  have hka : (pad.take k).length = k := by simp only [List.length_take]; omega
  have hkb : (pad.drop k).length = e := by simp only [List.length_drop, k]; omega
  have hane : (pad.take k).isEmpty = false := by
    cases h : pad.take k with
    | nil => rw [h] at hka; simp only [List.length_nil, k] at hka; omega
    | cons _ _ => rfl
  have hbne : (pad.drop k).isEmpty = false := by
    cases h : pad.drop k with
    | nil => rw [h] at hkb; simp only [List.length_nil] at hkb; omega
    | cons _ _ => rfl
  have huns : unsignedDec (pad.take k ++ '.' :: pad.drop k) = some (m.natAbs, e) := by
    unfold unsignedDec
    rw [splitDot_append_dot ha]
    have h1 : allDigits (pad.take k) = true := by
      simp only [allDigits, hane, Bool.not_false, Bool.true_and, List.all_eq_true]; exact ha
    have h2 : allDigits (pad.drop k) = true := by
      simp only [allDigits, hbne, Bool.not_false, Bool.true_and, List.all_eq_true]; exact hb
    simp only [h1, h2, Bool.and_self, if_true, List.take_append_drop, hval, hkb]
  have hnoexp : ∀ c ∈ decChars m e, noExpChar c = true := by
    intro c hc
    simp only [decChars] at hc
    rcases List.mem_append.mp hc with h | h
    · split at h
      · rw [List.mem_singleton.mp h]; decide
      · cases h
    · rcases List.mem_append.mp h with h | h
      · exact noExp_of_digit (ha c h)
      · rcases List.mem_cons.mp h with rfl | h
        · decide
        · exact noExp_of_digit (hb c h)
  have hdec : parseDec (decChars m e) = some (m, e) := by
    simp only [decChars]
    by_cases hneg : m < 0
    · simp only [hneg, if_true, List.singleton_append, parseDec]
      rw [show (List.replicate (e + 1 - (Nat.toDigits 10 m.natAbs).length) '0' ++ Nat.toDigits 10 m.natAbs) = pad from rfl]
      rw [huns]; simp; omega
    · simp only [hneg, if_false, List.nil_append]
      rw [show (List.replicate (e + 1 - (Nat.toDigits 10 m.natAbs).length) '0' ++ Nat.toDigits 10 m.natAbs) = pad from rfl]
      cases hta : pad.take k with
      | nil => rw [hta] at hane; cases hane
      | cons c cs =>
        have hc : c.isDigit = true := ha c (by rw [hta]; simp)
        rw [List.cons_append, parseDec_head_digit hc, ← List.cons_append, ← hta, huns]
        simp; omega
  unfold parseFloatLit
  rw [splitExp_noexp hnoexp]
  simp [hdec, normDec_canonical m e hm he]

end GqlModel.Coerce
