import GqlModel.Plan
/-! # Trees of values under construction (`PVal`): predicates on the closures they contain, `getAt` / `setAt` -/
namespace GqlModel.Plan
open GqlModel.Exec GqlModel.Coerce

mutual
/-- every closure left in the value satisfies `P` -/
def PVal.AllCl (P : Closure → Prop) : PVal → Prop
  | .leaf _ => True
  | .list xs => PVal.AllClList P xs
  | .obj fs => PVal.AllClFields P fs
  | .deferred cl => P cl
def PVal.AllClList (P : Closure → Prop) : List PVal → Prop
  | [] => True
  | x :: xs => x.AllCl P ∧ PVal.AllClList P xs
def PVal.AllClFields (P : Closure → Prop) : List (String × PVal) → Prop
  | [] => True
  | (_, x) :: xs => x.AllCl P ∧ PVal.AllClFields P xs
end

variable {P : Closure → Prop}

theorem allClList_iff {xs : List PVal} : PVal.AllClList P xs ↔ ∀ x ∈ xs, x.AllCl P := by
  induction xs with
  | nil => simp [PVal.AllClList]
  | cons x xs ih => simp [PVal.AllClList, ih]

theorem allClFields_iff {fs : List (String × PVal)} : PVal.AllClFields P fs ↔ ∀ p ∈ fs, p.2.AllCl P := by
  induction fs with
  | nil => simp [PVal.AllClFields]
  | cons x xs ih =>
    obtain ⟨k, v⟩ := x
    simp [PVal.AllClFields, ih]

theorem allCl_leaf (j : JVal) : (PVal.leaf j).AllCl P := by simp [PVal.AllCl]

theorem allCl_list {xs : List PVal} : (PVal.list xs).AllCl P ↔ ∀ x ∈ xs, x.AllCl P := by
  simp only [PVal.AllCl]; exact allClList_iff

theorem allCl_obj {fs : List (String × PVal)} : (PVal.obj fs).AllCl P ↔ ∀ p ∈ fs, p.2.AllCl P := by
  simp only [PVal.AllCl]; exact allClFields_iff

theorem allCl_deferred {cl : Closure} : (PVal.deferred cl).AllCl P ↔ P cl := by simp only [PVal.AllCl]

mutual
theorem allCl_imp {Q : Closure → Prop} (hPQ : ∀ cl, P cl → Q cl) : ∀ v : PVal, v.AllCl P → v.AllCl Q
  | .leaf j, _ => allCl_leaf j
  | .list xs, h => by simp only [PVal.AllCl] at *; exact allClList_imp hPQ xs h
  | .obj fs, h => by simp only [PVal.AllCl] at *; exact allClFields_imp hPQ fs h
  | .deferred cl, h => by simp only [PVal.AllCl] at *; exact hPQ cl h
theorem allClList_imp {Q : Closure → Prop} (hPQ : ∀ cl, P cl → Q cl) : ∀ xs : List PVal,
    PVal.AllClList P xs → PVal.AllClList Q xs
  | [], h => h
  | x :: xs, h => by simp only [PVal.AllClList] at *; exact ⟨allCl_imp hPQ x h.1, allClList_imp hPQ xs h.2⟩
theorem allClFields_imp {Q : Closure → Prop} (hPQ : ∀ cl, P cl → Q cl) : ∀ fs : List (String × PVal),
    PVal.AllClFields P fs → PVal.AllClFields Q fs
  | [], h => h
  | (_, x) :: xs, h => by simp only [PVal.AllClFields] at *; exact ⟨allCl_imp hPQ x h.1, allClFields_imp hPQ xs h.2⟩
end

theorem lookupF_mem {fs : List (String × PVal)} {k : String} {v : PVal} (h : lookupF fs k = some v) : (k, v) ∈ fs := by
  unfold lookupF at h
  cases hf : fs.find? (fun p => p.1 == k) with
  | none => simp [hf] at h
  | some p =>
    simp only [hf, Option.map_some, Option.some.injEq] at h
    have hm := List.mem_of_find?_eq_some hf
    have hk := List.find?_some hf
    simp only [beq_iff_eq] at hk
    obtain ⟨k', v'⟩ := p
    simp only at h hk
    subst h; subst hk; exact hm

theorem allCl_setF {fs : List (String × PVal)} {k : String} {v : PVal} (h : ∀ p ∈ fs, p.2.AllCl P) (hv : v.AllCl P) :
    ∀ p ∈ setF fs k v, p.2.AllCl P := by
  induction fs with
  | nil => intro p hp; simp [setF] at hp
  | cons x rest ih =>
    obtain ⟨k', x⟩ := x
    intro p hp
    simp only [setF] at hp
    by_cases hk : (k' == k) = true
    · simp only [hk, if_true] at hp
      rcases List.mem_cons.1 hp with rfl | hp
      · exact hv
      · exact h p (List.mem_cons_of_mem _ hp)
    · simp only [hk, Bool.false_eq_true, if_false] at hp
      rcases List.mem_cons.1 hp with rfl | hp
      · exact h _ List.mem_cons_self
      · exact ih (fun q hq => h q (List.mem_cons_of_mem _ hq)) p hp

/-- assigning the value that is already there changes nothing -/
theorem setF_lookupF {fs : List (String × PVal)} {k : String} {v : PVal} (h : lookupF fs k = some v) : setF fs k v = fs := by
  induction fs with
  | nil => simp [lookupF] at h
  | cons x rest ih =>
    obtain ⟨k', x⟩ := x
    simp only [setF]
    by_cases hk : (k' == k) = true
    · simp only [hk, if_true]
      simp only [lookupF, List.find?_cons, hk, Option.map_some, Option.some.injEq] at h
      rw [h]
    · simp only [hk, Bool.false_eq_true, if_false]
      have hk' : (k' == k) = false := by simpa using hk
      simp only [lookupF, List.find?_cons, hk'] at h
      rw [ih h]

theorem allCl_getAt : ∀ (a : Path) {v w : PVal}, v.AllCl P → v.getAt a = some w → w.AllCl P
  | [], v, w, h, hg => by
    cases v <;> simp only [PVal.getAt, Option.some.injEq] at hg <;> subst hg <;> exact h
  | seg :: rest, v, w, h, hg => by
    cases v with
    | leaf j => cases seg <;> simp [PVal.getAt] at hg
    | deferred cl => cases seg <;> simp [PVal.getAt] at hg
    | obj fs =>
      cases seg with
      | idx i => simp [PVal.getAt] at hg
      | key k =>
        simp only [PVal.getAt] at hg
        cases hl : lookupF fs k with
        | none => simp [hl] at hg
        | some x =>
          simp only [hl] at hg
          exact allCl_getAt rest (allCl_obj.1 h _ (lookupF_mem hl)) hg
    | list xs =>
      cases seg with
      | key k => simp [PVal.getAt] at hg
      | idx i =>
        simp only [PVal.getAt] at hg
        cases hl : xs[i]? with
        | none => simp [hl] at hg
        | some x =>
          simp only [hl] at hg
          exact allCl_getAt rest (allCl_list.1 h _ (List.mem_of_getElem? hl)) hg

theorem allCl_setAt : ∀ (a : Path) {v nv : PVal}, v.AllCl P → nv.AllCl P → (v.setAt a nv).AllCl P
  | [], v, nv, _, hn => by cases v <;> simpa only [PVal.setAt] using hn
  | seg :: rest, v, nv, h, hn => by
    cases v with
    | leaf j => cases seg <;> simpa only [PVal.setAt] using h
    | deferred cl => cases seg <;> simpa only [PVal.setAt] using h
    | obj fs =>
      cases seg with
      | idx i => simpa only [PVal.setAt] using h
      | key k =>
        simp only [PVal.setAt]
        cases hl : lookupF fs k with
        | none => simpa only using h
        | some x =>
          simp only
          exact allCl_obj.2 (allCl_setF (allCl_obj.1 h) (allCl_setAt rest (allCl_obj.1 h _ (lookupF_mem hl)) hn))
    | list xs =>
      cases seg with
      | key k => simpa only [PVal.setAt] using h
      | idx i =>
        simp only [PVal.setAt]
        cases hl : xs[i]? with
        | none => simpa only using h
        | some x =>
          simp only
          apply allCl_list.2
          intro y hy
          rcases List.mem_or_eq_of_mem_set hy with hy | rfl
          · exact allCl_list.1 h y hy
          · exact allCl_setAt rest (allCl_list.1 h _ (List.mem_of_getElem? hl)) hn

end GqlModel.Plan
