import GqlModel.Parser
import GqlModel.Grammar
/-! Basic lemmas for the parser proofs (C03): the `P` monad, the primitive parser actions, positions. -/
namespace GqlModel.Parser
open GqlModel GqlModel.Grammar

/-- the grammar position of a parser state -/
def PState.pos (σ : PState) : Pos := ⟨σ.prevEnd, σ.toks⟩

/-- the parser state moved to a grammar position (EOF offset and flag unchanged) -/
def PState.at (σ : PState) (p : Pos) : PState := ⟨p.e, p.ts, σ.eofPos, σ.bad⟩

@[simp] theorem PState.at_pos (σ : PState) (p : Pos) : (σ.at p).pos = p := rfl
@[simp] theorem PState.at_at (σ : PState) (p q : Pos) : (σ.at p).at q = σ.at q := rfl
@[simp] theorem PState.at_self (σ : PState) : σ.at σ.pos = σ := rfl
@[simp] theorem PState.at_bad (σ : PState) (p : Pos) : (σ.at p).bad = σ.bad := rfl
@[simp] theorem PState.at_eofPos (σ : PState) (p : Pos) : (σ.at p).eofPos = σ.eofPos := rfl
@[simp] theorem PState.at_toks (σ : PState) (p : Pos) : (σ.at p).toks = p.ts := rfl
@[simp] theorem PState.at_prevEnd (σ : PState) (p : Pos) : (σ.at p).prevEnd = p.e := rfl
@[simp] theorem PState.pos_ts (σ : PState) : σ.pos.ts = σ.toks := rfl
@[simp] theorem PState.pos_e (σ : PState) : σ.pos.e = σ.prevEnd := rfl

/-! ## the monad -/

theorem bind_ok {α β} {m : P α} {f : α → P β} {σ : PState} {r : β × PState} :
    (m >>= f) σ = .ok r ↔ ∃ a σ1, m σ = .ok (a, σ1) ∧ f a σ1 = .ok r := by
  show P.bind m f σ = .ok r ↔ _
  unfold P.bind
  cases h : m σ with
  | error e => simp
  | ok p =>
    obtain ⟨a, σ1⟩ := p
    simp only [Except.ok.injEq, Prod.mk.injEq]
    constructor
    · intro hf; exact ⟨a, σ1, ⟨rfl, rfl⟩, hf⟩
    · rintro ⟨a', σ', ⟨rfl, rfl⟩, hf⟩; exact hf

theorem bind_eq_of_ok {α β} {m : P α} {f : α → P β} {σ σ1 : PState} {a : α} (h : m σ = .ok (a, σ1)) :
    (m >>= f) σ = f a σ1 := by
  show P.bind m f σ = _
  unfold P.bind
  rw [h]

@[simp] theorem pure_run {α} (a : α) (σ : PState) : (pure a : P α) σ = .ok (a, σ) := rfl

theorem pure_ok {α} {a b : α} {σ σ' : PState} : (pure a : P α) σ = .ok (b, σ') ↔ a = b ∧ σ = σ' := by
  simp [pure_run]

/-! ## primitive actions -/

@[simp] theorem cur_run (σ : PState) : cur σ = .ok (σ.cur, σ) := rfl
@[simp] theorem advance_run (σ : PState) : advance σ = .ok ((), σ.adv) := rfl
@[simp] theorem loc_run (s : Nat) (σ : PState) : loc s σ = .ok (⟨s, σ.prevEnd⟩, σ) := rfl
@[simp] theorem loopFuel_run (σ : PState) : loopFuel σ = .ok (σ.toks.length + 1, σ) := rfl
@[simp] theorem peek_run (k : TokenKind) (σ : PState) : peek k σ = .ok (decide (σ.cur.kind = k), σ) := rfl
@[simp] theorem flagBad_run (σ : PState) : flagBad σ = .ok ((), { σ with bad := true }) := rfl
@[simp] theorem fail_run {α} (p : Nat) (σ : PState) : (fail p : P α) σ = .error (.syntax p σ.bad σ.toks.length) := rfl
@[simp] theorem failAt_run {α} (a : Bool) (p : Nat) (σ : PState) :
    (failAt a p : P α) σ = .error (.syntax p σ.bad (if a then σ.toks.length - 1 else σ.toks.length)) := rfl
@[simp] theorem unexpected_run {α} (σ : PState) : (unexpected : P α) σ = .error (.syntax σ.cur.start σ.bad σ.toks.length) := rfl
@[simp] theorem outOfFuel_run {α} (σ : PState) : (outOfFuel : P α) σ = .error .fuel := rfl
@[simp] theorem lookahead_run (σ : PState) : lookahead σ = .ok (σ.adv.cur, σ) := rfl

theorem cur_cons {σ : PState} {t : Token} {r : List Token} (h : σ.toks = t :: r) : σ.cur = t := by
  simp [PState.cur, h]

theorem cur_nil {σ : PState} (h : σ.toks = []) : σ.cur = eofToken σ.eofPos := by
  simp [PState.cur, h]

/-- a current token of a kind other than EOF is the head of the token list -/
theorem toks_of_cur_kind {σ : PState} {k : TokenKind} (hk : k ≠ .eof) (h : σ.cur.kind = k) :
    ∃ r, σ.toks = σ.cur :: r := by
  cases ht : σ.toks with
  | nil => rw [cur_nil ht] at h; simp [eofToken] at h; exact absurd h.symm hk
  | cons t r => exact ⟨r, by rw [cur_cons ht]⟩

theorem adv_cons {σ : PState} {t : Token} {r : List Token} (h : σ.toks = t :: r) : σ.adv = σ.at ⟨t.stop, r⟩ := by
  cases σ; simp_all [PState.adv, PState.at]

theorem pos_kind_eq (σ : PState) : σ.pos.kind = σ.cur.kind := by
  cases h : σ.toks <;> simp [Pos.kind, PState.pos, PState.cur, h, eofToken]

theorem pos_start_eq {σ : PState} (h : σ.toks ≠ []) : σ.pos.start = σ.cur.start := by
  cases h' : σ.toks with
  | nil => exact absurd h' h
  | cons t r => simp [Pos.start, PState.pos, PState.cur, h']

theorem pos_start_of_kind {σ : PState} {k : TokenKind} (hk : k ≠ .eof) (h : σ.cur.kind = k) : σ.pos.start = σ.cur.start := by
  obtain ⟨r, hr⟩ := toks_of_cur_kind hk h
  exact pos_start_eq (by rw [hr]; simp)

/-- `Tok` seen from a parser state -/
theorem tok_iff {k : TokenKind} {σ : PState} {t : Token} {p' : Pos} :
    Tok k σ.pos t p' ↔ t.kind = k ∧ σ.toks = t :: p'.ts ∧ p'.e = t.stop := by
  constructor
  · intro h
    cases hσ : σ.pos with
    | mk e ts =>
      rw [hσ] at h
      cases h with
      | mk e t r hk =>
        have : σ.toks = t :: r := by have := congrArg Pos.ts hσ; simpa using this
        exact ⟨hk, this, rfl⟩
  · rintro ⟨hk, ht, he⟩
    obtain ⟨e', ts'⟩ := p'
    simp at ht he
    subst he
    have : σ.pos = ⟨σ.prevEnd, t :: ts'⟩ := by simp [PState.pos, ht]
    rw [this]
    exact Tok.mk _ _ _ hk

theorem expect_ok {k : TokenKind} (hk : k ≠ .eof) {σ σ' : PState} {t : Token} :
    expect k σ = .ok (t, σ') ↔ Tok k σ.pos t σ'.pos ∧ σ' = σ.at σ'.pos := by
  unfold expect
  constructor
  · intro h
    split at h
    · rename_i hc
      simp only [Except.ok.injEq, Prod.mk.injEq] at h
      obtain ⟨rfl, rfl⟩ := h
      obtain ⟨r, hr⟩ := toks_of_cur_kind hk hc
      rw [adv_cons hr]
      exact ⟨tok_iff.mpr ⟨hc, by simpa using hr, rfl⟩, rfl⟩
    · simp at h
  · rintro ⟨ht, hσ⟩
    obtain ⟨hk', hts, he⟩ := tok_iff.mp ht
    have hc : σ.cur = t := cur_cons hts
    rw [if_pos (by rw [hc]; exact hk'), hc, adv_cons hts, hσ]
    congr 2
    cases σ'; simp_all [PState.at, PState.pos]

/-- completeness form of `expect` -/
theorem expect_of_tok {k : TokenKind} {σ : PState} {t : Token} {p' : Pos} (h : Tok k σ.pos t p') :
    expect k σ = .ok (t, σ.at p') := by
  obtain ⟨hk', hts, he⟩ := tok_iff.mp h
  have hc : σ.cur = t := cur_cons hts
  unfold expect
  rw [if_pos (by rw [hc]; exact hk'), hc, adv_cons hts]
  congr 2
  obtain ⟨e', ts'⟩ := p'
  simp_all [PState.at]

theorem skip_true {k : TokenKind} (hk : k ≠ .eof) {σ σ' : PState} :
    skip k σ = .ok (true, σ') ↔ ∃ t, Tok k σ.pos t σ'.pos ∧ σ' = σ.at σ'.pos := by
  have : skip k σ = .ok (true, σ') ↔ ∃ t, expect k σ = .ok (t, σ') := by
    unfold skip expect
    by_cases hc : σ.cur.kind = k <;> simp [hc]
  rw [this]
  constructor
  · rintro ⟨t, h⟩; exact ⟨t, (expect_ok hk).mp h⟩
  · rintro ⟨t, h⟩; exact ⟨t, (expect_ok hk).mpr h⟩

theorem skip_false {k : TokenKind} {σ σ' : PState} :
    skip k σ = .ok (false, σ') ↔ σ.pos.kind ≠ k ∧ σ' = σ := by
  unfold skip
  rw [pos_kind_eq]
  by_cases hc : σ.cur.kind = k <;> simp [hc, eq_comm]

theorem skip_of_tok {k : TokenKind} {σ : PState} {t : Token} {p' : Pos} (h : Tok k σ.pos t p') :
    skip k σ = .ok (true, σ.at p') := by
  have := expect_of_tok h
  unfold skip
  unfold expect at this
  split at this
  · rename_i hc; rw [if_pos hc]; simp at this; simp [this.2]
  · simp at this

theorem skip_of_not {k : TokenKind} {σ : PState} (h : σ.pos.kind ≠ k) : skip k σ = .ok (false, σ) := by
  rw [pos_kind_eq] at h
  unfold skip
  rw [if_neg h]

theorem tok_kind {k : TokenKind} {p : Pos} {t : Token} {p' : Pos} (h : Tok k p t p') : p.kind = k ∧ p.start = t.start := by
  cases h with
  | mk e t r hk => exact ⟨hk, rfl⟩

theorem tok_len {k : TokenKind} {p : Pos} {t : Token} {p' : Pos} (h : Tok k p t p') : p.ts.length = p'.ts.length + 1 := by
  cases h; simp

theorem tok_e {k : TokenKind} {p : Pos} {t : Token} {p' : Pos} (h : Tok k p t p') : p'.e = t.stop := by
  cases h; rfl

/-- a terminal of a given kind is unique -/
theorem tok_unique {k k' : TokenKind} {p : Pos} {t t' : Token} {p' p'' : Pos} (h : Tok k p t p') (h' : Tok k' p t' p'') :
    t = t' ∧ p' = p'' := by
  cases h; cases h'; exact ⟨rfl, rfl⟩

end GqlModel.Parser
