import GqlProofs.LexerProgress
import GqlModel.LexerQuote
/-! The string core of the print/parse round trip: lexing the GraphQL-quoted rendering of any byte string gives
that byte string back (port of notes/spikes/Quote.lean to the real model, via the spec scan). -/
namespace GqlModel.Lexer
open GqlModel.Utf8 GqlModel.Lexer.Spec

/-- `\u00XY` for a control byte or DEL decodes to that byte -/
theorem escapedUnicode_hex : ∀ n : Fin 256, (n.val < 32 ∨ n.val = 127) →
    escapedUnicode 48 48 (hexDigit (n.val / 16)) (hexDigit (n.val % 16)) = some [UInt8.ofNat n.val] := by
  decide +kernel

theorem escapedUnicode_hexDigit (b : UInt8) (h : b.toNat < 32 ∨ b = 127) :
    escapedUnicode 48 48 (hexDigit (b.toNat / 16)) (hexDigit (b.toNat % 16)) = some [b] := by
  have hb := b.toNat_lt
  have h' : b.toNat < 32 ∨ b.toNat = 127 := by
    rcases h with h | h
    · exact Or.inl h
    · right; bnorm at h; exact h
  have := escapedUnicode_hex ⟨b.toNat, hb⟩ h'
  simp only at this
  rw [this]
  congr 2
  apply UInt8.toNat_inj.mp
  simp

/-- one `quoteByte` is undone by one step of the spec's string scan -/
theorem stringBody_quoteByte (b : UInt8) (tail : Bytes) :
    stringBody (quoteByte b ++ tail) = adv (quoteByte b).length [b] (stringBody tail) := by
  have hb := b.toNat_lt
  unfold quoteByte
  by_cases h1 : b = 34; · subst h1; rfl
  by_cases h2 : b = 92; · subst h2; rfl
  by_cases h3 : b = 8; · subst h3; rfl
  by_cases h4 : b = 12; · subst h4; rfl
  by_cases h5 : b = 10; · subst h5; rfl
  by_cases h6 : b = 13; · subst h6; rfl
  by_cases h7 : b = 9; · subst h7; rfl
  simp only [h1, h2, h3, h4, h5, h6, h7, if_false]
  by_cases h8 : b.toNat < 32 ∨ b = 127
  · simp only [h8, if_true, List.cons_append, List.nil_append, List.length_cons, List.length_nil]
    rw [stringBody_cons]
    have e : escapedCharacter 117 = none := by decide
    simp (decide := true) only [if_false, if_true, e, escapedUnicode_hexDigit b h8]
  · simp only [h8, if_false, List.cons_append, List.nil_append, List.length_cons, List.length_nil]
    rw [stringBody_cons]
    have g1 : ¬ (b = 10 ∨ b = 13) := by bnorm at h5 h6 ⊢; omega
    have g2 : ¬ (b.toNat < 32 ∧ b ≠ 9) := by omega
    rw [if_neg h1, if_neg g1, if_neg g2, if_neg h2]

theorem stringBody_quoteBody (s rest : Bytes) :
    stringBody (quoteBody s ++ 34 :: rest) = .ok ((quoteBody s).length + 1, s) := by
  induction s with
  | nil => simp [quoteBody, stringBody_cons]
  | cons b bs ih =>
    simp only [quoteBody, List.append_assoc]
    rw [stringBody_quoteByte, ih]
    simp only [adv_ok, List.length_append, List.singleton_append]
    congr 2; omega

/-- the first byte of an escaped byte is never a quote -/
theorem quoteByte_head (b : UInt8) : ∃ x xs, quoteByte b = x :: xs ∧ x ≠ 34 := by
  unfold quoteByte
  by_cases h1 : b = 34
  · exact ⟨92, [34], by simp [h1], by decide⟩
  repeat' split
  all_goals first
    | exact ⟨92, _, rfl, by decide⟩
    | exact ⟨b, [], rfl, h1⟩

end GqlModel.Lexer
