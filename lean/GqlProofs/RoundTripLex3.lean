import GqlProofs.RoundTripLex2
/-! # C08 byte level — INT / FLOAT tokens (assembly), punctuators, `...` -/
namespace GqlModel.RoundTrip
open GqlModel GqlModel.Lexer GqlModel.Lexer.Spec

theorem nextNotDigit_delim {rest : Bytes} (h : DelimB rest) : NextNotDigit rest :=
  fun d hd => delim_not_digit (delimB_head h d hd)

theorem nextNotDigit_cons {b : UInt8} (hb : ¬ isDigitByte b) (r : Bytes) : NextNotDigit (b :: r) := by
  intro d hd; simp only [List.head?_cons, Option.some.injEq] at hd; subst hd; exact hb

theorem frac_head {fp : Chars} (h : Reader.isFracPart fp = true) : ∃ r, utf8 fp = 46 :: r := by
  match fp, h with
  | c :: ds, h =>
    simp only [Reader.isFracPart, Bool.and_eq_true, decide_eq_true_eq] at h
    obtain ⟨⟨rfl, _⟩, _⟩ := h
    exact ⟨utf8 ds, by rw [utf8_cons_ascii _ _ (by decide)]; rfl⟩

theorem exp_head {ep : Chars} (h : Reader.isExpPart ep = true) : ∃ b r, utf8 ep = b :: r ∧ (b = 69 ∨ b = 101) := by
  match ep, h with
  | e :: r, h =>
    simp only [Reader.isExpPart, Bool.and_eq_true, Bool.or_eq_true, decide_eq_true_eq] at h
    rcases h.1 with rfl | rfl
    · exact ⟨101, utf8 r, by rw [utf8_cons_ascii _ _ (by decide)]; rfl, Or.inr rfl⟩
    · exact ⟨69, utf8 r, by rw [utf8_cons_ascii _ _ (by decide)]; rfl, Or.inl rfl⟩

theorem intLit_head {ip : Chars} (h : Reader.isIntLit ip = true) :
    ∃ b r, utf8 ip = b :: r ∧ (b = 45 ∨ isDigitByte b) := by
  match ip, h with
  | c :: r, h =>
    simp only [Reader.isIntLit] at h
    by_cases hc : c = '-'
    · subst hc
      exact ⟨45, utf8 r, by rw [utf8_cons_ascii _ _ (by decide)]; rfl, Or.inl rfl⟩
    · simp only [hc, if_false, Reader.isIntBody] at h
      by_cases h0 : c = '0'
      · subst h0
        exact ⟨48, utf8 r, by rw [utf8_cons_ascii _ _ (by decide)]; rfl, Or.inr (by decide)⟩
      · simp only [h0, if_false, Bool.and_eq_true] at h
        exact ⟨B c, utf8 r, utf8_cons_ascii c r (digit_ascii h.1), Or.inr (digit_B h.1)⟩

/-- `Spec.number` on a printed integer text followed by a delimiter -/
theorem number_int (raw : Chars) (rest : Bytes) (h : Reader.isIntLit raw = true) (hr : DelimB rest) :
    number (utf8 raw ++ rest) = .ok (.int, (utf8 raw).length) := by
  have hlen := utf8_ascii_length raw (isIntLit_ascii h)
  have hi := integerPart_lit raw rest h (nextNotDigit_delim hr)
  have hdrop : (utf8 raw ++ rest).drop raw.length = rest := by rw [← hlen]; exact List.drop_left
  have hf : fractionalPart rest = .ok 0 :=
    fractionalPart_none rest (fun d hd => (delim_not_num (delimB_head hr d hd)).1)
  have hx : exponentPart rest = .ok 0 :=
    exponentPart_none rest (fun d hd => ⟨(delim_not_num (delimB_head hr d hd)).2.1, (delim_not_num (delimB_head hr d hd)).2.2.1⟩)
  simp only [number, hi, hdrop, hf, Nat.add_zero, hx, and_self, if_true, hlen]

/-- `Spec.number` on a printed float text followed by a delimiter -/
theorem number_float (raw : Chars) (rest : Bytes) (h : Reader.IsFloatLit raw) (hr : DelimB rest) :
    number (utf8 raw ++ rest) = .ok (.float, (utf8 raw).length) ∧ asciiC raw := by
  obtain ⟨ip, fp, ep, rfl, hip, hfp, hep, hne⟩ := h
  have hipa := isIntLit_ascii hip
  have hiplen := utf8_ascii_length ip hipa
  -- the exponent
  have hE : exponentPart (utf8 ep ++ rest) = .ok ep.length ∧ asciiC ep ∧ NextNotDigit (utf8 ep ++ rest) ∧
      (∀ d, (utf8 ep ++ rest).head? = some d → d ≠ 46) := by
    rcases hep with rfl | hep
    · refine ⟨?_, by intro x hx; simp at hx, nextNotDigit_delim hr, fun d hd => (delim_not_num (delimB_head hr d hd)).1⟩
      exact exponentPart_none rest (fun d hd =>
        ⟨(delim_not_num (delimB_head hr d hd)).2.1, (delim_not_num (delimB_head hr d hd)).2.2.1⟩)
    · obtain ⟨e1, e2, _⟩ := exponentPart_lit ep rest hep (nextNotDigit_delim hr)
      obtain ⟨b, r, hb, hb2⟩ := exp_head hep
      refine ⟨e1, e2, ?_, ?_⟩
      · rw [hb]; apply nextNotDigit_cons
        unfold isDigitByte; rcases hb2 with rfl | rfl <;> decide
      · rw [hb]; intro d hd; simp only [List.cons_append, List.head?_cons, Option.some.injEq] at hd; subst hd
        rcases hb2 with rfl | rfl <;> decide
  obtain ⟨hEx, hepa, hEnd, hEdot⟩ := hE
  have heplen := utf8_ascii_length ep hepa
  -- the fraction
  have hF : fractionalPart (utf8 fp ++ (utf8 ep ++ rest)) = .ok fp.length ∧ asciiC fp ∧
      NextNotDigit (utf8 fp ++ (utf8 ep ++ rest)) := by
    rcases hfp with rfl | hfp
    · exact ⟨fractionalPart_none _ hEdot, by intro x hx; simp at hx, hEnd⟩
    · obtain ⟨f1, f2, _⟩ := fractionalPart_lit fp (utf8 ep ++ rest) hfp hEnd
      obtain ⟨r, hb⟩ := frac_head hfp
      refine ⟨f1, f2, ?_⟩
      rw [hb]; apply nextNotDigit_cons; unfold isDigitByte; decide
  obtain ⟨hFr, hfpa, hFnd⟩ := hF
  have hfplen := utf8_ascii_length fp hfpa
  have hi := integerPart_lit ip (utf8 fp ++ (utf8 ep ++ rest)) hip hFnd
  have hall : asciiC (ip ++ fp ++ ep) := by
    intro x hx
    simp only [List.mem_append] at hx
    rcases hx with (hx | hx) | hx
    · exact hipa x hx
    · exact hfpa x hx
    · exact hepa x hx
  refine ⟨?_, hall⟩
  have e0 : utf8 (ip ++ fp ++ ep) ++ rest = utf8 ip ++ (utf8 fp ++ (utf8 ep ++ rest)) := by
    simp only [utf8_append, List.append_assoc]
  have d1 : (utf8 ip ++ (utf8 fp ++ (utf8 ep ++ rest))).drop ip.length = utf8 fp ++ (utf8 ep ++ rest) := by
    rw [← hiplen]; exact List.drop_left
  have d2 : (utf8 ip ++ (utf8 fp ++ (utf8 ep ++ rest))).drop (ip.length + fp.length) = utf8 ep ++ rest := by
    rw [← List.drop_drop, d1, ← hfplen]; exact List.drop_left
  have hkind : ¬ (fp.length = 0 ∧ ep.length = 0) := by
    intro ⟨a, b⟩
    rcases hne with h | h
    · exact h (List.length_eq_zero_iff.mp a)
    · exact h (List.length_eq_zero_iff.mp b)
  rw [e0]
  simp only [number, hi, d1, hFr, d2, hEx, hkind, if_false, utf8_append, List.length_append, hiplen, hfplen, heplen]

theorem numStart_facts {c : UInt8} (h : c = 45 ∨ isDigitByte c) :
    ¬ isCtrl c ∧ punctuatorByte c = none ∧ ¬ c = 46 ∧ ¬ isNameStartByte c := by
  have hn : c.toNat = 45 ∨ (48 ≤ c.toNat ∧ c.toNat ≤ 57) := by
    rcases h with rfl | h
    · exact Or.inl rfl
    · exact Or.inr h
  refine ⟨?_, ?_, ?_, ?_⟩
  · unfold isCtrl; omega
  · unfold punctuatorByte
    rw [if_neg (by bnorm; omega), if_neg (by bnorm; omega), if_neg (by bnorm; omega), if_neg (by bnorm; omega),
      if_neg (by bnorm; omega), if_neg (by bnorm; omega), if_neg (by bnorm; omega), if_neg (by bnorm; omega),
      if_neg (by bnorm; omega), if_neg (by bnorm; omega), if_neg (by bnorm; omega), if_neg (by bnorm; omega),
      if_neg (by bnorm; omega)]
  · bnorm; omega
  · unfold isNameStartByte; bnorm; omega

/-- **INT**: a printed integer text followed by a delimiter is one INT token with that text -/
theorem token_int_lit (raw : Chars) (rest : Bytes) (h : Reader.isIntLit raw = true) (hr : DelimB rest) :
    token (utf8 raw ++ rest) = .ok (.int, (utf8 raw).length, utf8 raw) := by
  obtain ⟨b, r, hb, hstart⟩ := intLit_head h
  obtain ⟨h1, h2, h3, h4⟩ := numStart_facts hstart
  have hn := number_int raw rest h hr
  have e : utf8 raw ++ rest = b :: (r ++ rest) := by rw [hb]; rfl
  rw [e] at hn ⊢
  rw [token_number _ _ h1 h2 h3 h4 hstart, hn]
  simp only
  rw [← e, List.take_left']
  rfl

/-- **FLOAT** -/
theorem token_float_lit (raw : Chars) (rest : Bytes) (h : Reader.IsFloatLit raw) (hr : DelimB rest) :
    token (utf8 raw ++ rest) = .ok (.float, (utf8 raw).length, utf8 raw) := by
  obtain ⟨hn, _⟩ := number_float raw rest h hr
  obtain ⟨ip, fp, ep, rfl, hip, _, _, _⟩ := h
  obtain ⟨b, r, hb, hstart⟩ := intLit_head hip
  obtain ⟨h1, h2, h3, h4⟩ := numStart_facts hstart
  have e : utf8 (ip ++ fp ++ ep) ++ rest = b :: (r ++ utf8 fp ++ utf8 ep ++ rest) := by
    simp only [utf8_append, hb, List.cons_append, List.append_assoc]
  rw [e] at hn ⊢
  rw [token_number _ _ h1 h2 h3 h4 hstart, hn]
  simp only
  rw [← e, List.take_left']
  rfl

/-! ## punctuators and `...` -/

theorem punct_not_ctrl {c : UInt8} {k : TokenKind} (h : punctuatorByte c = some k) : ¬ isCtrl c := by
  intro hc
  have hlt : c.toNat < 32 := hc.1
  have : punctuatorByte c = none := by
    unfold punctuatorByte
    rw [if_neg (by bnorm; omega), if_neg (by bnorm; omega), if_neg (by bnorm; omega), if_neg (by bnorm; omega),
      if_neg (by bnorm; omega), if_neg (by bnorm; omega), if_neg (by bnorm; omega), if_neg (by bnorm; omega),
      if_neg (by bnorm; omega), if_neg (by bnorm; omega), if_neg (by bnorm; omega), if_neg (by bnorm; omega),
      if_neg (by bnorm; omega)]
  rw [this] at h; cases h

/-- **punctuator**: one byte, whatever follows -/
theorem token_punct_lit (c : UInt8) (k : TokenKind) (h : punctuatorByte c = some k) (rest : Bytes) :
    token (c :: rest) = .ok (k, 1, []) := token_punct c rest (punct_not_ctrl h) h

/-- **`...`** -/
theorem token_spread_lit (rest : Bytes) : token (46 :: 46 :: 46 :: rest) = .ok (.spread, 3, []) := by
  rw [token_dot]; simp

end GqlModel.RoundTrip
