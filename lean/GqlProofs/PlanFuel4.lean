import GqlProofs.PlanFuel3
/-! # Fuel: the request level

When the algorithm (`execute`) answers with data `fs` from fuel `fuelS`, M (`run`) answers from every fuel `F ≥ fuelS` that also
covers the two measures of the response: `jdep (.obj fs)` (depth-first pass: per nesting level the number of entries + 2, summed
along the deepest path) and `jcont (.obj fs) + 1` (breadth-first pass: the number of maps and lists). The fuel of the algorithm
alone does not suffice (`Props/C01Plan.fuel_is_not_shared_witness`). When a MUTATION fails at the root (`data: null`) the values
that were forced before the failing field are not part of the response, so no bound in terms of the response exists there. -/
namespace GqlModel.Plan
open GqlModel.Exec GqlModel.Coerce

/-- a successful selection set extends what it was given -/
theorem execGroups_ok_acc (c : Ctx) : ∀ fuel dfr rt src path groups acc st fs st',
    execGroups c fuel dfr rt src path groups acc st = (.ok fs, st') → ∃ more, fs = acc ++ more
  | 0, dfr, rt, src, path, groups, acc, st, fs, st', h => by simp [execGroups] at h
  | fuel + 1, dfr, rt, src, path, [], acc, st, fs, st', h => by
    simp only [execGroups, Prod.mk.injEq, Res.ok.injEq] at h
    exact ⟨[], by simp [← h.1]⟩
  | fuel + 1, dfr, rt, src, path, (key, nodes) :: rest, acc, st, fs, st', h => by
    simp only [execGroups] at h
    split at h
    · exact execGroups_ok_acc c fuel _ _ _ _ _ _ _ _ _ h
    · split at h
      · exact execGroups_ok_acc c fuel _ _ _ _ _ _ _ _ _ h
      · split at h
        · obtain ⟨more, hm⟩ := execGroups_ok_acc c fuel _ _ _ _ _ _ _ _ _ h
          exact ⟨[(key, _)] ++ more, by rw [hm, List.append_assoc]⟩
        · simp at h
        · simp at h

section roots
variable {c : Ctx} {pv : Option Vars} {rank : String → Nat} {F : Nat}

local notation "alt0" => recompute c.schema c.frags pv

/-- the root of a mutation that succeeds: neither the fields nor the forcing after each field run out of fuel -/
theorem mRootMut_nf (hac : Acyclic c.frags rank) (hfr : FragsOK c pv) (rt : String) :
    ∀ (fuel : Nat), fuel ≤ F → ∀ (fps : List FieldPlan) (accS : List (String × JVal)) (acc : List (String × PVal))
    (st : St) (mst : MSt) (fs : List (String × JVal)) (stS : St),
    (∀ fp ∈ fps, FpOK c.schema rt (NodeOK c pv rank) fp) →
    execGroups c fuel false rt .nil [] (groupsOf fps) accS st = (.ok fs, stS) → stS.kfThunk = st.kfThunk →
    jmaxF fs ≤ F → (mRootMut c alt0 F fuel rt fps acc mst).1 ≠ .fuelOut
  | 0, _, fps, accS, acc, st, mst, fs, stS, _, h, _, _ => by
    simp [execGroups] at h
  | fuel + 1, hle, [], accS, acc, st, mst, fs, stS, _, h, _, _ => by
    simp [mRootMut]
  | fuel + 1, hle, fp :: rest, accS, acc, st, mst, fs, stS, hok, h, hkf, hb => by
    have hle' : fuel ≤ F := Nat.le_of_succ_le hle
    have hfp := hok fp List.mem_cons_self
    have hrest : ∀ fp' ∈ rest, FpOK c.schema rt (NodeOK c pv rank) fp' := fun fp' hm => hok fp' (List.mem_cons_of_mem _ hm)
    obtain ⟨n0, ch0, tl, hnodes, hname, hdef, hargs⟩ := hfp.head
    have hhead : fp.fieldNodes.head? = some n0 := by simp [FieldPlan.fieldNodes, hnodes]
    have hg : groupsOf (fp :: rest) = (fp.key, fp.fieldNodes) :: groupsOf rest := rfl
    rw [hg] at h
    simp only [execGroups, hhead] at h
    rw [← hdef] at h
    simp only [mRootMut, hfp.pred, Pred.eval, List.all_nil, Bool.not_true, Bool.false_eq_true, if_false]
    cases hfd : fp.fieldDef with
    | none =>
      simp only [hfd] at h
      exact mRootMut_nf hac hfr rt fuel hle' rest accS acc st mst fs stS hrest h hkf hb
    | some fd =>
      simp only [hfd, List.nil_append] at h
      have hk1 := kfExt_field c fuel false rt .nil [.key fp.key] fd fp.fieldNodes st
      rcases hS : execField c fuel false rt .nil [.key fp.key] fd fp.fieldNodes st with ⟨r1, st1⟩
      rw [hS] at h hk1
      simp only at hk1
      rcases hM1 : mField c alt0 fuel false rt .nil [.key fp.key] [(rt, fp.key)] fp fd mst with ⟨rM1, mst1⟩
      cases r1 with
      | ok j =>
        simp only at h
        have hk2 := kfExt_groups c fuel false rt .nil [] (groupsOf rest) (accS ++ [(fp.key, j)]) st1
        rw [h] at hk2
        simp only at hk2
        obtain ⟨hkA, hkB⟩ := KfExt.same hk1 hk2 hkf
        have hf := (genP (F := F) hac hfr fuel hle').field false rt .nil [.key fp.key] [(rt, fp.key)] fp fd st mst _ _
          hfp hfd hS (by simp) hkA
        simp only [hM1] at hf
        obtain ⟨x, hx, hsv⟩ := hf
        subst hx
        simp only [hM1]
        -- the field's value is part of the response
        obtain ⟨more, hmore⟩ := execGroups_ok_acc c fuel _ _ _ _ _ _ _ _ _ h
        have hmem : (fp.key, j) ∈ fs := by rw [hmore]; simp
        have hjb : jdep j ≤ F := Nat.le_trans (jmaxF_mem hmem) hb
        have hfS := frcSV_forceAll (c := c) (pv := pv) (rank := rank) (F := F) hac hfr
        have hfN := frcNF_forceAll (c := c) (pv := pv) (rank := rank) (F := F) hac hfr
        have hd1 := (dfsV hfS F).val x j mst1 hsv
        have hd2 := (dfsNF hfS hfN F).val x j mst1 hsv hjb
        generalize dfsVal (forceAll c alt0 F) F x mst1 = z at hd1 hd2 ⊢
        obtain ⟨r2, mst2⟩ := z
        cases r2 with
        | fail => simp
        | fuelOut => exact absurd rfl hd2
        | ok x' =>
          simp only
          exact mRootMut_nf hac hfr rt fuel hle' rest _ _ st1 mst2 fs stS hrest h hkB hb
      | fail => simp at h
      | fuelOut => simp at h

/-- the walk of a plan, data in the response: never out of fuel when the fuel covers the two measures of the data -/
theorem runPlan_nf (hac : Acyclic c.frags rank) (hfr : FragsOK c pv) (q : Plan)
    (sel : SelectionSet) (hroot : q.root = planSelectionSet c.schema c.frags pv q.rootType sel)
    (hreg : Regime pv c.vars (setDynamic sel)) (fs : List (String × JVal)) (stS : St)
    (h : execGroups c F false q.rootType .nil [] (collect c q.rootType sel ([], [])).1 [] St.empty = (.ok fs, stS))
    (hkf : stS.kfThunk = []) (hb1 : jdep (.obj fs) ≤ F) (hb2 : jcont (.obj fs) + 1 ≤ F) (mst : MSt) :
    (runPlan c alt0 q F mst).1 ≠ .fuelOut := by
  have hfS := frcSV_forceAll (c := c) (pv := pv) (rank := rank) (F := F) hac hfr
  have hfN := frcNF_forceAll (c := c) (pv := pv) (rank := rank) (F := F) hac hfr
  obtain ⟨hgo, hfps⟩ := planSelectionSet_sim (rt := q.rootType) hac hfr sel hreg
  rw [← hgo, ← hroot] at h
  rw [← hroot] at hfps
  simp only [jdep] at hb1
  unfold runPlan
  by_cases hmut : q.isMutation = true
  · simp only [hmut, if_true]
    have hm := mRootMut_gen (F := F) hac hfr q.rootType F (Nat.le_refl _) q.root [] [] St.empty mst (.ok fs) stS hfps .nil rfl h
      (by simp) hkf
    have hn := mRootMut_nf (F := F) hac hfr q.rootType F (Nat.le_refl _) q.root [] [] St.empty mst fs stS hfps h hkf (by omega)
    generalize mRootMut c alt0 F F q.rootType q.root [] mst = z at hm hn ⊢
    obtain ⟨r1, mst1⟩ := z
    rcases hm with hm | hm
    · exact absurd hm hn
    · simp only at hm
      obtain ⟨pfs, hp, hsv, hj⟩ := hm
      subst hp
      simp only
      have hlen : (sortedKeys pfs).length = fs.length := by
        rw [sortedKeys_length]
        have := congrArg List.length (svf_keys hsv)
        simpa using this
      exact (dfsNF hfS hfN F).fields (sortedKeys pfs) pfs fs mst1 hsv (by omega)
  · have hmut' : q.isMutation = false := by simpa using hmut
    simp only [hmut', Bool.false_eq_true, if_false]
    have hg := (genP (F := F) hac hfr F (Nat.le_refl _)).groups false q.rootType .nil [] [] q.root [] [] St.empty mst (.ok fs) stS
      hfps .nil h (by simp) hkf
    generalize hz0 : mGroups c alt0 F false q.rootType .nil [] [] q.root [] mst = z at hg ⊢
    obtain ⟨r1, mst1⟩ := z
    simp only at hg
    obtain ⟨pfs, hp, hsv⟩ := hg
    subst hp
    have hz : (mGroups c alt0 F false q.rootType .nil [] [] q.root [] mst).1 = .ok pfs := by rw [hz0]
    simp only
    have hkn : KeysNodup q.root := by rw [hroot]; exact keysNodup_planSelectionSet _ _ _ _ _
    have hnd1 := (nodupP (c := c) (alt := alt0) (altND_recompute _ _ _) F).groups false q.rootType .nil [] [] q.root [] mst
      (by simpa [KeysNodup] using hkn) (fun _ h => by cases h) pfs (by rw [hz])
    have hpot : potQ (.obj fs) [[]] = jcont (.obj fs) := by
      simp only [potQ, List.map_cons, List.map_nil, List.sum_cons, List.sum_nil, pot, jAt_nil, kidsO, jcont]
      omega
    have hb := bfsLoop_nf hfS hfN (frcFlat_forceAll (c := c) (alt := alt0) (altND_recompute _ _ _) F) (.obj fs) F (.obj pfs) [[]]
      mst1 (.obj hsv) (ndv_obj.2 hnd1) (by rw [hpot]; exact hb2)
    generalize bfsLoop (forceAll c alt0 F) F (.obj pfs) [[]] mst1 = z2 at hb ⊢
    obtain ⟨r2, mst2⟩ := z2
    cases r2 with
    | ok root' => simp
    | fail => simp
    | fuelOut => exact absurd rfl hb

end roots

/-! ## the request level -/

/-- the fuel that the dethunk passes of M need for a response with data `fs` -/
def dethunkFuel (fs : List (String × JVal)) : Nat := max (jdep (.obj fs)) (jcont (.obj fs) + 1)

/-- **fuel sufficiency**, with deferred values, outside D-04c, on an acyclic fragment table: when the algorithm answers with data
from fuel `fuelS`, M answers from every fuel that is at least `fuelS` and at least `dethunkFuel` of that data. -/
theorem run_no_fuelOut (s : Schema) (doc : Document) (opName : String) (inputs : Vars) (w : World) (fuelS : Nat)
    (rank : String → Nat) (hac : Acyclic doc.fragments rank)
    (fs : List (String × JVal)) (errs : List (Path × Bool)) (log : List LogEntry)
    (hS : execute s doc opName inputs w fuelS = .result (some fs) errs log [])
    (F : Nat) (h1 : fuelS ≤ F) (h2 : dethunkFuel fs ≤ F) : run s doc opName inputs w F ≠ .fuelOut := by
  obtain ⟨k, rfl⟩ := Nat.le.dest h1
  have hS' := execute_fuel_add s doc opName inputs w fuelS _ hS (by simp) k
  obtain ⟨c, pv, q, sel, rS, stS, hcf, _, hrun, _, _, hkf, hdata, hroot, hreg, hfr, hrunM⟩ :=
    run_setup s doc opName inputs w (fuelS + k) (some fs) errs log [] hS'
  rcases hdata with ⟨fs', h3, h4⟩ | ⟨_, h4⟩
  · simp only [Option.some.injEq] at h4
    subst h4
    subst h3
    have hb1 : jdep (.obj fs) ≤ fuelS + k := Nat.le_trans (Nat.le_max_left _ _) h2
    have hb2 : jcont (.obj fs) + 1 ≤ fuelS + k := Nat.le_trans (Nat.le_max_right _ _) h2
    have hnf := runPlan_nf (c := c) (pv := pv) (rank := rank) (F := fuelS + k) (by rw [hcf]; exact hac) hfr q sel hroot hreg fs stS
      hrun hkf.symm hb1 hb2 { errs := [], events := [], memo := [] }
    rw [hrunM]
    generalize runPlan c (recompute c.schema c.frags pv) q (fuelS + k) { errs := [], events := [], memo := [] } = out at hnf ⊢
    obtain ⟨rM, mstM⟩ := out
    cases rM with
    | ok x => simp [MResponse.of]
    | fail => simp [MResponse.of]
    | fuelOut => exact absurd rfl hnf
  · cases h4

end GqlModel.Plan
