import GqlProofs.OverlapExec4
/-! # Bridge C02 → C06, part 5: a decidable check for `SchemaCov` -/
namespace GqlModel.OverlapExec
open GqlModel GqlModel.Validate

def implB (s : Schema) : Bool :=
  s.types.all (fun tI => match tI with
    | .interface I fs _ _ =>
      (s.possibleTypes I).all (fun rt => fs.all (fun fdI =>
        match (s.objectFields rt).find? (fun f => f.name == fdI.name) with
        | some fd => fd.type.namedName == fdI.type.namedName ||
            (s.isObject fd.type.namedName && s.isPossibleType fdI.type.namedName fd.type.namedName)
        | none => false))
    | _ => true)

def declaredB (s : Schema) : Bool :=
  s.types.all (fun t => (s.objectFields t.name).all (fun fd => !s.objectT fd.type.namedName || s.isObject fd.type.namedName))

def noTypenameB (s : Schema) : Bool :=
  (s.types ++ introspectionTypes).all (fun t => (s.fieldsOf t.name).all (fun fd => fd.name != "__typename"))

def schemaCovB (s : Schema) : Bool :=
  implB s && declaredB s && noTypenameB s && !s.objectT "String" && !s.isInterface "String"

theorem find?_name {s : Schema} {n : String} {td : TypeDef} (h : s.find? n = some td) : td ∈ s.types ∧ td.name = n := by
  unfold Schema.find? at h
  exact ⟨List.mem_of_find?_eq_some h, by simpa using List.find?_some h⟩

theorem objectFields_nonempty_mem {s : Schema} {P : String} {fd : FieldDefS} (h : fd ∈ s.objectFields P) :
    ∃ td, td ∈ s.types ∧ td.name = P := by
  unfold Schema.objectFields at h
  cases hf : s.find? P with
  | none => rw [hf] at h; cases h
  | some td => exact ⟨td, find?_name hf⟩

theorem fieldsOf_nonempty_mem {s : Schema} {P : String} {fd : FieldDefS} (h : fd ∈ s.fieldsOf P) :
    ∃ td, td ∈ s.types ++ introspectionTypes ∧ td.name = P := by
  unfold Schema.fieldsOf Schema.lookup at h
  cases hf : s.find? P with
  | none =>
    rw [hf] at h
    simp only at h
    cases hi : introspectionTypes.find? (fun t => t.name == P) with
    | none => rw [hi] at h; cases h
    | some td =>
      exact ⟨td, List.mem_append_right _ (List.mem_of_find?_eq_some hi), by simpa using List.find?_some hi⟩
  | some td => exact ⟨td, List.mem_append_left _ (find?_name hf).1, (find?_name hf).2⟩

theorem schemaCov_of_check (s : Schema) (h : schemaCovB s = true) : SchemaCov s := by
  simp only [schemaCovB, Bool.and_eq_true, Bool.not_eq_true'] at h
  obtain ⟨⟨⟨⟨himpl, hdecl⟩, hnt⟩, hso⟩, hsi⟩ := h
  refine ⟨?_, ?_, ?_, ⟨hso, hsi⟩⟩
  · intro I rt name fdI hI hposs hfind
    unfold Schema.isInterface at hI
    cases hfI : s.find? I with
    | none => rw [hfI] at hI; cases hI
    | some td =>
      rw [hfI] at hI
      cases td with
      | interface n fs b dsc =>
        have hm := find?_name hfI
        simp only [TypeDef.name] at hm
        obtain ⟨hmem, rfl⟩ := hm
        simp only [implB, List.all_eq_true] at himpl
        have h1 := himpl _ hmem
        simp only [List.all_eq_true] at h1
        have hfo : s.fieldsOf n = fs := by
          have : s.fieldsOf n = s.objectFields n :=
            fieldsOf_eq_objectFields (by rw [hfI]; rfl) (.inr (by simp [Schema.isInterface, hfI]))
          rw [this]; simp [Schema.objectFields, hfI]
        rw [hfo] at hfind
        have hfdI := List.mem_of_find?_eq_some hfind
        have hnm : fdI.name = name := by simpa using List.find?_some hfind
        have h2 := h1 rt (by simpa [Schema.isPossibleType] using hposs) fdI hfdI
        rw [hnm] at h2
        cases hfd : (s.objectFields rt).find? (fun f => f.name == name) with
        | none => rw [hfd] at h2; cases h2
        | some fd =>
          rw [hfd] at h2
          refine ⟨fd, rfl, ?_⟩
          simp only [Bool.or_eq_true, Bool.and_eq_true, beq_iff_eq] at h2
          exact h2
      | _ => simp at hI
  · intro P name fd hfind hobj
    have hmem := List.mem_of_find?_eq_some hfind
    rcases objectFields_nonempty_mem hmem with ⟨td, htd, rfl⟩
    simp only [declaredB, List.all_eq_true, Bool.or_eq_true, Bool.not_eq_true'] at hdecl
    rcases hdecl td htd fd hmem with h' | h'
    · rw [hobj] at h'; cases h'
    · exact h'
  · intro P fd hmem
    rcases fieldsOf_nonempty_mem hmem with ⟨td, htd, rfl⟩
    simp only [noTypenameB, List.all_eq_true, bne_iff_ne, ne_eq] at hnt
    exact hnt td htd fd hmem

end GqlModel.OverlapExec
