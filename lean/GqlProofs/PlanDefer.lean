import GqlProofs.PlanExec
import GqlProofs.PlanSettle
import GqlProofs.ExecState
/-! # Phase one of M against the algorithm WITH deferred values (data)

The algorithm S forces a deferred value where it meets it; M wraps it (`PVal.deferred`) and forces it later. `SV x j` relates a
value under construction to the algorithm's finished value: same shape, and a closure stands for `j` when the algorithm's in-place
forcing of what the closure will call yields `j` — or fails under a nullable type, and `j` is null (`Wit`); what the closure calls
may itself yield a func: the algorithm goes on forcing in place, M's dethunk sites loop (`forceLoop`). Outside the known finding
D-04c (no mark added to `kfThunk`) phase one of M (memo-free instance) produces `SV`-related values (`GenP`).

Fuel: S's witness runs are lifted to the request's fuel `F` (more fuel, same result), because M forces every closure with `F`. -/
namespace GqlModel.Plan
open GqlModel.Exec GqlModel.Coerce

/-! ## S: more fuel, same result; the known-finding marks only grow -/

theorem complete_fuel_add (c : Ctx) (fuel : Nat) (dfr : Bool) (t : GType) (rt fname : String) (nodes : List FieldNode) (p : Path)
    (v : GoVal) (st : St) (r : Res JVal) (st' : St) (h : complete c fuel dfr t rt fname nodes p v st = (r, st'))
    (hr : r ≠ .fuelOut) : ∀ k, complete c (fuel + k) dfr t rt fname nodes p v st = (r, st')
  | 0 => h
  | k + 1 => (fuelP c (fuel + k)).complete _ _ _ _ _ _ _ _ _ _
      (complete_fuel_add c fuel dfr t rt fname nodes p v st r st' h hr k) hr

theorem complete_fuel_le (c : Ctx) {fuel F : Nat} (hle : fuel ≤ F) (dfr : Bool) (t : GType) (rt fname : String)
    (nodes : List FieldNode) (p : Path) (v : GoVal) (st : St) (r : Res JVal) (st' : St)
    (h : complete c fuel dfr t rt fname nodes p v st = (r, st')) (hr : r ≠ .fuelOut) :
    complete c F dfr t rt fname nodes p v st = (r, st') := by
  obtain ⟨k, rfl⟩ := Nat.exists_eq_add_of_le hle
  exact complete_fuel_add c fuel dfr t rt fname nodes p v st r st' h hr k

/-- the marks of `b` extend those of `a` -/
def KfExt (a b : St) : Prop := ∃ k, b.kfThunk = k ++ a.kfThunk

theorem KfExt.refl (a : St) : KfExt a a := ⟨[], rfl⟩
theorem KfExt.trans {a b c : St} (h1 : KfExt a b) (h2 : KfExt b c) : KfExt a c := by
  obtain ⟨k1, e1⟩ := h1; obtain ⟨k2, e2⟩ := h2
  exact ⟨k2 ++ k1, by rw [e2, e1, List.append_assoc]⟩

/-- if nothing was marked over two steps, nothing was marked in either -/
theorem KfExt.same {a b c : St} (h1 : KfExt a b) (h2 : KfExt b c) (h : c.kfThunk = a.kfThunk) :
    b.kfThunk = a.kfThunk ∧ c.kfThunk = b.kfThunk := by
  obtain ⟨k1, e1⟩ := h1; obtain ⟨k2, e2⟩ := h2
  have hl : (k2 ++ (k1 ++ a.kfThunk)).length = a.kfThunk.length := by rw [← e1, ← e2, h]
  simp only [List.length_append] at hl
  have h1 : k1 = [] := List.eq_nil_of_length_eq_zero (by omega)
  have h2 : k2 = [] := List.eq_nil_of_length_eq_zero (by omega)
  subst h1; subst h2
  simp only [List.nil_append] at e1 e2
  exact ⟨e1, e2⟩

theorem kfExt_of_app {d st st' : St} (h : st' = St.app d st) : KfExt st st' := ⟨d.kfThunk, by rw [h]; rfl⟩

theorem kfExt_groups (c : Ctx) (fuel : Nat) dfr rt src path groups acc st :
    KfExt st (execGroups c fuel dfr rt src path groups acc st).2 := by
  obtain ⟨r, d, h⟩ := (stP c fuel).groups dfr rt src path groups acc
  exact kfExt_of_app (by rw [h st])
theorem kfExt_field (c : Ctx) (fuel : Nat) dfr rt src p fd nodes st :
    KfExt st (execField c fuel dfr rt src p fd nodes st).2 := by
  obtain ⟨r, d, h⟩ := (stP c fuel).field dfr rt src p fd nodes
  exact kfExt_of_app (by rw [h st])
theorem kfExt_complete (c : Ctx) (fuel : Nat) dfr t rt fname nodes p v st :
    KfExt st (complete c fuel dfr t rt fname nodes p v st).2 := by
  obtain ⟨r, d, h⟩ := (stP c fuel).complete dfr t rt fname nodes p v
  exact kfExt_of_app (by rw [h st])
theorem kfExt_items (c : Ctx) (fuel : Nat) dfr item rt fname nodes p xs i acc st :
    KfExt st (completeItems c fuel dfr item rt fname nodes p xs i acc st).2 := by
  obtain ⟨r, d, h⟩ := (stP c fuel).items dfr item rt fname nodes p xs i acc
  exact kfExt_of_app (by rw [h st])

theorem kfExt_addErr (st : St) (p : Path) (d : Bool) : KfExt st (addErr st p d) := ⟨[], rfl⟩

/-- the definition `getFieldDef` finds carries the name that was looked up -/
theorem fieldDef?_name {s : Schema} {rt n : String} {fd : FieldDefS} (h : fieldDef? s rt n = some fd) : fd.name = n := by
  unfold fieldDef? at h
  by_cases hn : (n == "__typename") = true
  · simp only [hn, if_true, Option.some.injEq] at h
    subst h
    exact (beq_iff_eq.1 hn).symm
  · simp only [hn, Bool.false_eq_true, if_false] at h
    have := List.find?_some h
    exact beq_iff_eq.1 this

theorem fpOK_fieldName {s : Schema} {rt : String} {P : FieldNode → Chain → Prop} {fp : FieldPlan} {fd : FieldDefS}
    (hfp : FpOK s rt P fp) (hfd : fp.fieldDef = some fd) : fd.name = fp.fieldName := by
  obtain ⟨n0, ch0, tl, _, hname, hdef, _⟩ := hfp.head
  rw [hname]
  exact fieldDef?_name (by rw [← hdef]; exact hfd)

/-! ## the relation -/

section sv
variable (c : Ctx) (pv : Option Vars) (rank : String → Nat) (F : Nat)

/-- what forcing the closure means to the algorithm -/
def Wit (cl : Closure) (j : JVal) : Prop :=
  (∀ x ∈ cl.fp.nodes, NodeOK c pv rank x.1 x.2) ∧
  match cl.r with
  | some (.ok v) =>
    ∃ st rS stS, complete c F true cl.t cl.rt cl.fp.fieldName cl.fp.fieldNodes cl.path v st = (rS, stS) ∧
      stS.kfThunk = st.kfThunk ∧ (rS = .ok j ∨ (rS = .fail ∧ cl.t.isNonNull = false ∧ j = .null))
  | _ => cl.t.isNonNull = false ∧ j = .null

mutual
inductive SV : PVal → JVal → Prop
  | leaf (j : JVal) : SV (.leaf j) j
  | list {xs : List PVal} {js : List JVal} : SVl xs js → SV (.list xs) (.list js)
  | obj {fs : List (String × PVal)} {gs : List (String × JVal)} : SVf fs gs → SV (.obj fs) (.obj gs)
  | deferred {cl : Closure} {j : JVal} : Wit c pv rank F cl j → SV (.deferred cl) j
inductive SVl : List PVal → List JVal → Prop
  | nil : SVl [] []
  | cons {x : PVal} {j : JVal} {xs : List PVal} {js : List JVal} : SV x j → SVl xs js → SVl (x :: xs) (j :: js)
inductive SVf : List (String × PVal) → List (String × JVal) → Prop
  | nil : SVf [] []
  | cons {k : String} {x : PVal} {j : JVal} {xs : List (String × PVal)} {js : List (String × JVal)} :
      SV x j → SVf xs js → SVf ((k, x) :: xs) ((k, j) :: js)
end

variable {c pv rank F}

theorem svl_append {x : PVal} {j : JVal} (hx : SV c pv rank F x j) : ∀ {xs : List PVal} {js : List JVal},
    SVl c pv rank F xs js → SVl c pv rank F (xs ++ [x]) (js ++ [j])
  | [], _, h => by cases h; exact .cons hx .nil
  | _ :: _, _, h => by
    cases h with
    | cons h1 h2 => exact .cons h1 (svl_append hx h2)

theorem svf_append {k : String} {x : PVal} {j : JVal} (hx : SV c pv rank F x j) :
    ∀ {fs : List (String × PVal)} {gs : List (String × JVal)},
    SVf c pv rank F fs gs → SVf c pv rank F (fs ++ [(k, x)]) (gs ++ [(k, j)])
  | [], _, h => by cases h; exact .cons hx .nil
  | _ :: _, _, h => by
    cases h with
    | cons h1 h2 => exact .cons h1 (svf_append hx h2)

/-- a related value that is not a closure is null exactly when the algorithm's value is -/
theorem sv_null_iff {x : PVal} {j : JVal} (h : SV c pv rank F x j) (hnd : ∀ cl, x ≠ .deferred cl) :
    x = .leaf .null ↔ j = .null := by
  cases h with
  | leaf j => constructor <;> intro h <;> simp_all
  | list _ => constructor <;> intro h <;> cases h
  | obj _ => constructor <;> intro h <;> cases h
  | deferred _ => exact absurd rfl (hnd _)

end sv

/-! ## phase one -/

section gen
variable (c : Ctx) (pv : Option Vars) (rank : String → Nat) (F : Nat)

local notation "alt0" => recompute c.schema c.frags pv

/-- outcome of the algorithm's `complete` against M's `mComplete` at one position -/
def CompleteRel (t : GType) (v : GoVal) (rS : Res JVal) (rM : Res PVal) : Prop :=
  match rS with
  | .ok j => ∃ x, rM = .ok x ∧ SV c pv rank F x j
  | .fail => rM = .fail ∨ (∃ cl, rM = .ok (.deferred cl) ∧ funcOf v ≠ none ∧ t.isNonNull = false ∧ Wit c pv rank F cl .null)
  | .fuelOut => False

structure GenP (fuel : Nat) : Prop where
  groups : ∀ dfr rt src path sid fps accS acc st mst rS stS, (∀ fp ∈ fps, FpOK c.schema rt (NodeOK c pv rank) fp) →
    SVf c pv rank F acc accS → execGroups c fuel dfr rt src path (groupsOf fps) accS st = (rS, stS) → rS ≠ .fuelOut →
    stS.kfThunk = st.kfThunk →
    match rS with
    | .ok fs => ∃ pfs, (mGroups c alt0 fuel dfr rt src path sid fps acc mst).1 = .ok pfs ∧ SVf c pv rank F pfs fs
    | .fail => (mGroups c alt0 fuel dfr rt src path sid fps acc mst).1 = .fail
    | .fuelOut => False
  field : ∀ dfr rt src p fid fp fd st mst rS stS, FpOK c.schema rt (NodeOK c pv rank) fp → fp.fieldDef = some fd →
    execField c fuel dfr rt src p fd fp.fieldNodes st = (rS, stS) → rS ≠ .fuelOut → stS.kfThunk = st.kfThunk →
    match rS with
    | .ok j => ∃ x, (mField c alt0 fuel dfr rt src p fid fp fd mst).1 = .ok x ∧ SV c pv rank F x j
    | .fail => (mField c alt0 fuel dfr rt src p fid fp fd mst).1 = .fail
    | .fuelOut => False
  complete : ∀ dfr t rt fid fp p v st mst rS stS, (∀ x ∈ fp.nodes, NodeOK c pv rank x.1 x.2) →
    complete c fuel dfr t rt fp.fieldName fp.fieldNodes p v st = (rS, stS) → rS ≠ .fuelOut → stS.kfThunk = st.kfThunk →
    CompleteRel c pv rank F t v rS (mComplete c alt0 fuel dfr t rt fid fp p v mst).1
  items : ∀ dfr item rt fid fp p xs i accS acc st mst rS stS, (∀ x ∈ fp.nodes, NodeOK c pv rank x.1 x.2) →
    SVl c pv rank F acc accS →
    completeItems c fuel dfr item rt fp.fieldName fp.fieldNodes p xs i accS st = (rS, stS) → rS ≠ .fuelOut → stS.kfThunk = st.kfThunk →
    match rS with
    | .ok js => ∃ ys, (mItems c alt0 fuel dfr item rt fid fp p xs i acc mst).1 = .ok ys ∧ SVl c pv rank F ys js
    | .fail => (mItems c alt0 fuel dfr item rt fid fp p xs i acc mst).1 = .fail
    | .fuelOut => False

variable {c pv rank F}

theorem genP_zero : GenP c pv rank F 0 := by
  refine ⟨?_, ?_, ?_, ?_⟩
  · intro dfr rt src path sid fps accS acc st mst rS stS _ _ h hr _
    simp only [execGroups, Prod.mk.injEq] at h; exact absurd h.1.symm hr
  · intro dfr rt src p fid fp fd st mst rS stS _ _ h hr _
    simp only [execField, Prod.mk.injEq] at h; exact absurd h.1.symm hr
  · intro dfr t rt fid fp p v st mst rS stS _ h hr _
    simp only [complete, Prod.mk.injEq] at h; exact absurd h.1.symm hr
  · intro dfr item rt fid fp p xs i accS acc st mst rS stS _ _ h hr _
    simp only [completeItems, Prod.mk.injEq] at h; exact absurd h.1.symm hr

end gen

end GqlModel.Plan
