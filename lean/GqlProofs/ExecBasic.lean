import GqlModel.Conforms
/-! Request level: `execute` = `requestCtx` (operation, root type, coerced variables) followed by `execGroups` on the
root selection. Shared by C01, C04, C13, C20. -/
namespace GqlModel.Exec
open GqlModel.Coerce

/-- the response assembled from the outcome of the root selection set -/
def respond : Res (List (String × JVal)) × St → Response
  | (.ok fs, st) => .result (some fs) st.errs.reverse st.log.reverse st.kfThunk
  | (.fail, st) => .result none st.errs.reverse st.log.reverse st.kfThunk
  | (.fuelOut, _) => .fuelOut

theorem execute_of_ctx {s : Schema} {doc : Document} {opName : String} {inputs : Vars} {w : World} {fuel : Nat}
    {c : Ctx} {root : String} {sel : SelectionSet} (h : requestCtx s doc opName inputs w = some (c, root, sel)) :
    execute s doc opName inputs w fuel =
      respond (execGroups c fuel false root .nil [] (rootGroups c root sel) [] St.empty) := by
  unfold requestCtx at h
  unfold execute
  split at h
  · rename_i op nm varDefs dirs sel' loc hsel
    rw [hsel]
    simp only
    split at h
    · cases h
    · rename_i root' hroot
      rw [hroot]
      simp only
      split at h
      · cases h
      · rename_i vars hv
        rw [hv]
        simp only [Option.some.injEq, Prod.mk.injEq] at h
        obtain ⟨rfl, rfl, rfl⟩ := h
        simp only [rootGroups, respond]
        split <;> simp_all
  · cases h

theorem execute_no_ctx {s : Schema} {doc : Document} {opName : String} {inputs : Vars} {w : World} {fuel : Nat}
    (h : requestCtx s doc opName inputs w = none) :
    ∃ what, execute s doc opName inputs w fuel = .requestError what := by
  unfold requestCtx at h
  unfold execute
  split at h
  · rename_i op nm varDefs dirs sel' loc hsel
    rw [hsel]
    simp only
    split at h
    · rename_i hroot; rw [hroot]; exact ⟨_, rfl⟩
    · rename_i root' hroot
      rw [hroot]
      simp only
      split at h
      · rename_i e hv; rw [hv]; exact ⟨_, rfl⟩
      · cases h
  · rename_i hne
    split
    · exact ⟨_, rfl⟩
    · rename_i op nm varDefs dirs sel' loc hsel
      exact absurd hsel (hne op nm varDefs dirs sel' loc)
    · exact ⟨_, rfl⟩

/-- a `.result` response comes from a run of the root selection set -/
theorem execute_result {s : Schema} {doc : Document} {opName : String} {inputs : Vars} {w : World} {fuel : Nat}
    {data : Option (List (String × JVal))} {errs : List (Path × Bool)} {log : List LogEntry} {kf : List Path}
    (h : execute s doc opName inputs w fuel = .result data errs log kf) :
    ∃ c root sel r st, requestCtx s doc opName inputs w = some (c, root, sel) ∧
      execGroups c fuel false root .nil [] (rootGroups c root sel) [] St.empty = (r, st) ∧
      errs = st.errs.reverse ∧ log = st.log.reverse ∧ kf = st.kfThunk ∧
      ((∃ fs, r = .ok fs ∧ data = some fs) ∨ (r = .fail ∧ data = none)) := by
  cases hc : requestCtx s doc opName inputs w with
  | none =>
    obtain ⟨what, hw⟩ := execute_no_ctx (fuel := fuel) hc
    rw [hw] at h; cases h
  | some x =>
    obtain ⟨c, root, sel⟩ := x
    rw [execute_of_ctx hc] at h
    rcases hr : execGroups c fuel false root .nil [] (rootGroups c root sel) [] St.empty with ⟨r, st⟩
    rw [hr] at h
    refine ⟨c, root, sel, r, st, rfl, hr, ?_⟩
    cases r with
    | ok fs =>
      simp only [respond, Response.result.injEq] at h
      exact ⟨h.2.1.symm, h.2.2.1.symm, h.2.2.2.symm, Or.inl ⟨fs, rfl, h.1.symm⟩⟩
    | fail =>
      simp only [respond, Response.result.injEq] at h
      exact ⟨h.2.1.symm, h.2.2.1.symm, h.2.2.2.symm, Or.inr ⟨rfl, h.1.symm⟩⟩
    | fuelOut => simp [respond] at h

end GqlModel.Exec
