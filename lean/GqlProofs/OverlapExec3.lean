import GqlProofs.OverlapExec2
import GqlProofs.NormalizeEnd
/-! # Bridge C02 → C06, part 3: pairwise mergeable universes give hereditarily uniform groups (`HU`) -/
namespace GqlModel.OverlapExec
open GqlModel GqlModel.Validate GqlModel.Validate.Graph GqlModel.Validate.Overlap GqlModel.Normalize

variable (s : Schema) (d : Document)

/-- no two fields of the universe with one response key conflict -/
def Compat (U : FieldOcc → Prop) : Prop :=
  ∀ a b, U a → U b → a.node.key = b.node.key → ¬ PairConflict (e s d) false a b

theorem not_exclusive {rt : String} {a b : FieldOcc} (ha : PtAdm s rt a.parent) (hb : PtAdm s rt b.parent) :
    exclusive s a.parent b.parent = false := by
  cases hpa : a.parent with
  | none => simp [exclusive]
  | some x =>
    cases hpb : b.parent with
    | none => simp [exclusive]
    | some y =>
      simp only [exclusive]
      cases hx : s.objectT x with
      | false => simp
      | true =>
        cases hy : s.objectT y with
        | false => simp
        | true =>
          have h1 := (ha x hpa).1 hx
          have h2 := (hb y hpb).1 hy
          simp [h1, h2]

/-- compatible fields whose parents admit one runtime type have the same name -/
theorem same_name {U : FieldOcc → Prop} (hc : Compat s d U) {rt : String} {a b : FieldOcc} (ha : U a) (hb : U b)
    (hk : a.node.key = b.node.key) (hpa : PtAdm s rt a.parent) (hpb : PtAdm s rt b.parent) :
    a.node.name.value = b.node.name.value := by
  have hnc := hc a b ha hb hk
  cases hbc : baseConflict (e s d) false a b with
  | true => exact absurd (PairConflict.base hbc) hnc
  | false =>
    have hex : exclOf (e s d) false a b = false := by
      simp only [exclOf, Bool.false_or]
      exact not_exclusive s hpa hpb
    simp only [baseConflict, hex, Bool.not_false, Bool.true_and, Bool.or_eq_false_iff] at hbc
    simpa using hbc.1.1

/-- … and identical argument sets (structural equality of the values, locations ignored) -/
theorem same_args {U : FieldOcc → Prop} (hc : Compat s d U) {rt : String} {a b : FieldOcc} (ha : U a) (hb : U b)
    (hk : a.node.key = b.node.key) (hpa : PtAdm s rt a.parent) (hpb : PtAdm s rt b.parent) :
    sameArgsS a.node.args b.node.args = true := by
  have hnc := hc a b ha hb hk
  cases hbc : baseConflict (e s d) false a b with
  | true => exact absurd (PairConflict.base hbc) hnc
  | false =>
    have hex : exclOf (e s d) false a b = false := by
      simp only [exclOf, Bool.false_or]
      exact not_exclusive s hpa hpb
    simp only [baseConflict, hex, Bool.not_false, Bool.true_and, Bool.or_eq_false_iff] at hbc
    simpa using hbc.1.2

/-- the universe one level down: flattened sub-selections of the fields merged under one key at `rt` -/
def SubU (U : FieldOcc → Prop) (rt key : String) (a' : FieldOcc) : Prop :=
  ∃ a s1, U a ∧ a.node.key = key ∧ PtAdm s rt a.parent ∧ a.node.sel = some s1 ∧ a' ∈ flat (e s d) a.subParent s1

theorem compat_sub {U : FieldOcc → Prop} (hc : Compat s d U) (rt key : String) : Compat s d (SubU s d U rt key) := by
  rintro a' b' ⟨a, s1, hUa, hka, hpa, hs1, ha'⟩ ⟨b, s2, hUb, hkb, hpb, hs2, hb'⟩ hk hp
  refine hc a b hUa hUb (hka.trans hkb.symm) (.sub s1 s2 a' b' hs1 hs2 ha' hb' hk ?_)
  have hex : exclOf (e s d) false a b = false := by
    simp only [exclOf, Bool.false_or]
    exact not_exclusive s hpa hpb
  rw [hex]; exact hp

/-- universes whose members carry the rule's field definitions -/
def UOK (U : FieldOcc → Prop) : Prop := ∀ a, U a → FdefOK s a

theorem uok_sub {U : FieldOcc → Prop} (rt key : String) : UOK s (SubU s d U rt key) := by
  rintro a' ⟨a, s1, _, _, _, _, ha'⟩
  exact flat_fdef s d _ s1 a' ha'

theorem ginv_mono {U V : FieldOcc → Prop} (h : ∀ a, U a → V a) {rt : String} {g : Exec.Groups} (hg : GInv s U rt g) :
    GInv s V rt g := by
  intro p hp n hn
  rcases hg p hp n hn with ⟨hk, a, hr, hu, hpa⟩
  exact ⟨hk, a, hr, h a hu, hpa⟩

variable (hcov : SchemaCov s) (hnd : (fragNames (fragDefs d)).Nodup) (c : Exec.Ctx) (hs : c.schema = s)
  (hf : c.frags = d.fragments)
include hcov hnd hs hf

/-- the merged sub-selection of a uniform group satisfies the invariant one level down -/
theorem collectMerged_inv {U : FieldOcc → Prop} (huok : UOK s U) {rt : String} {key : String} (nodes : List ENode)
    (hnodes : ∀ n, n ∈ nodes → n.key = key ∧ ∃ a, Rep a n ∧ U a ∧ PtAdm s rt a.parent)
    (name : String) (hname : ∀ n, n ∈ nodes → n.name = name) {fd : FieldDefS}
    (hfd : Exec.fieldDef? s rt name = some fd) (ot : String)
    (h1 : s.isObject fd.type.namedName = true → ot = fd.type.namedName)
    (h2 : s.isAbstract fd.type.namedName = true →
      s.isObject ot = true ∧ s.isPossibleType fd.type.namedName ot = true) :
    GInv s (SubU s d U rt key) ot (Exec.collectMerged c ot nodes) := by
  unfold Exec.collectMerged
  suffices h : ∀ (ns : List ENode) (acc : Exec.Groups × List String), (∀ n, n ∈ ns → n ∈ nodes) →
      GInv s (SubU s d U rt key) ot acc.1 →
      GInv s (SubU s d U rt key) ot (ns.foldl (fun acc n => match n.sel with
        | some sel => Exec.collect c ot sel acc
        | none => acc) acc).1 from
    h nodes ([], []) (fun _ h => h) (by intro p hp; cases hp)
  intro ns
  induction ns with
  | nil => intro acc _ hg; exact hg
  | cons n rest ih =>
    intro acc hsub hg
    simp only [List.foldl_cons]
    refine ih _ (fun m hm => hsub m (List.mem_cons_of_mem _ hm)) ?_
    cases hsel : n.sel with
    | none => exact hg
    | some s1 =>
      simp only
      have hn := hsub n List.mem_cons_self
      rcases hnodes n hn with ⟨hk, a, hr, hu, hpa⟩
      have hasel : a.node.sel = some s1 := by rw [hr.2.2.2.1]; exact hsel
      have haname : a.node.name.value = name := by rw [hr.2.1]; exact hname n hn
      have hpt : PtAdm s ot a.subParent :=
        subParent_adm hcov (huok a hu) hpa (by rw [haname]; exact hfd) h1 h2
      have hsubset : SubSet s d (SubU s d U rt key) a.subParent s1 := by
        have hU : ∀ a', a' ∈ flat (e s d) a.subParent s1 → SubU s d U rt key a' :=
          fun a' ha' => ⟨a, s1, hu, hr.key.trans hk, hpa, hasel, ha'⟩
        exact ⟨fun a' ha' => hU a' (mem_flat_of_direct ha'),
          fun r hr' a' ha' => hU a' (mem_flat_of_flatFrag _ hr' ha')⟩
      exact collect_inv s d hnd c hs hf _ ot s1 a.subParent acc hpt hsubset hg

/-- **hereditary uniformity** of groups collected from a pairwise mergeable universe -/
theorem hu_of_ginv : ∀ (k : Nat) (rt : String) (g : Exec.Groups) (U : FieldOcc → Prop), UOK s U → Compat s d U →
    GInv s U rt g → HU c k rt g
  | 0, _, _, _, _, _, _ => trivial
  | k + 1, rt, g, U, huok, hcomp, hg => by
    intro p hp
    have hgp := hg p hp
    refine ⟨?_, ?_⟩
    · intro h hh n hn
      have hmem : h ∈ p.2 := List.mem_of_mem_head? (by rw [hh]; rfl)
      rcases hgp n hn with ⟨hkn, an, hrn, hun, hpn⟩
      rcases hgp h hmem with ⟨hkh, ah, hrh, huh, hph⟩
      have := same_name s d hcomp hun huh ((hrn.key.trans hkn).trans (hrh.key.trans hkh).symm) hpn hph
      rw [← hrn.2.1, ← hrh.2.1]; exact this
    · intro h fd hh hfd ot h1 h2
      have hmem : h ∈ p.2 := List.mem_of_mem_head? (by rw [hh]; rfl)
      rcases hgp h hmem with ⟨hkh, ah, hrh, huh, hph⟩
      have hnames : ∀ n, n ∈ p.2 → n.name = h.name := by
        intro n hn
        rcases hgp n hn with ⟨hkn, an, hrn, hun, hpn⟩
        have := same_name s d hcomp hun huh ((hrn.key.trans hkn).trans (hrh.key.trans hkh).symm) hpn hph
        rw [← hrn.2.1, ← hrh.2.1]; exact this
      rw [hs] at hfd h1 h2
      have hsubinv := collectMerged_inv s d hcov hnd c hs hf huok p.2 (fun n hn => hgp n hn) h.name hnames hfd ot h1 h2
      exact hu_of_ginv k ot _ _ (uok_sub s d rt p.1) (compat_sub s d hcomp rt p.1) hsubinv

end GqlModel.OverlapExec
